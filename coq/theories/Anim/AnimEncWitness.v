(** Witnesses: the statements of C08 / C18 are false of the code as pinned
    ([fixes] all false), each by a concrete session evaluated with [vm_compute].
    The same sessions are in the Go harness corpus and fail on the pinned code. *)
From Coq Require Import List ZArith Lia Bool.
From Webp Require Import Anim.Blend Anim.Canvas Anim.AnimDec Anim.AnimEncModel Anim.AnimEncSpec.
Import ListNotations.
Open Scope Z_scope.

Definition id_img (i : img) : img := i.

Lemma px_sim_refl p : px_sim p p.
Proof. reflexivity. Qed.

Lemma Forall2_refl {A} (R : A -> A -> Prop) (l : list A) : (forall a, R a a) -> Forall2 R l l.
Proof. intros HR. induction l; constructor; auto. Qed.

Lemma id_codec_lossless : codec_lossless id_img.
Proof.
  intros i _. unfold id_img, img_sim. repeat split. apply Forall2_refl. exact px_sim_refl.
Qed.

Lemma id_codec_alpha_exact : codec_alpha_exact id_img.
Proof. intros i (_ & _ & _ & Hp). unfold id_img, img_alpha_eq. repeat split. exact Hp. Qed.

Definition o_none : orc := mkorc false false false false false.
Definition o_bg : orc := mkorc true false false false false.

Definition P (r g b a : Z) : px := mkpx r g b a.

Definition lossless_default : eopts := mkeopts 0 0 0 true false 75.

Ltac wf_inputs :=
  repeat (constructor; [ unfold wf_input, wf_img, wf_px, max_duration; cbn;
                         repeat split; try lia; repeat (constructor; [cbn; lia|]); try constructor | ]);
  try constructor.

(* ------------------------------------------------------------------ *)
(* (i) An unchanged semi-transparent pixel inside a blended rectangle.
   2x2 canvas; (0,0) has alpha 128 in both frames, (1,0) changes.  The sub-frame
   is the top row, alpha-blended: the decoder shows alpha 192 at (0,0). *)

Definition w1_frames : list (img * Z) :=
  [ (mkimg 2 2 [P 10 20 30 128; P 1 1 1 255; P 2 2 2 255; P 3 3 3 255], 10);
    (mkimg 2 2 [P 10 20 30 128; P 9 9 9 255; P 2 2 2 255; P 3 3 3 255], 10) ].

Definition w1_played (fx : fixes) : option show :=
  match new_encoder 2 2 lossless_default with
  | Some st0 =>
      match close false false (run_frames fx (fun _ => o_none) st0 w1_frames) with
      | Some out => Some (playback id_img id_img fx out)
      | None => None
      end
  | None => None
  end.

Example w1_pinned_shows_192 :
  option_map (map (fun e => nth 0 (fst e) px0)) (w1_played pinned)
  = Some [P 10 20 30 128; P 9 19 29 192].
Proof. vm_compute. reflexivity. Qed.

Example w1_repaired_shows_128 :
  option_map (map (fun e => nth 0 (fst e) px0)) (w1_played repaired)
  = Some [P 10 20 30 128; P 10 20 30 128].
Proof. vm_compute. reflexivity. Qed.

Lemma blend_candidate_sound_refuted :
  exists s d, wf_px s /\ wf_px d /\ lossless_px_ok s d = true /\ blend_spec d s <> d.
Proof.
  exists (P 10 20 30 128), (P 10 20 30 128).
  repeat split; try (unfold wf_px; cbn; lia). vm_compute. discriminate.
Qed.

Theorem anim_lossless_roundtrip_refuted_blend :
  ~ anim_lossless_roundtrip_statement pinned.
Proof.
  intros Hs.
  destruct (new_encoder 2 2 lossless_default) as [st0|] eqn:Hn; [|vm_compute in Hn; discriminate].
  destruct (close false false (run_frames pinned (fun _ => o_none) st0 w1_frames)) as [out|] eqn:Hc;
    [|vm_compute in Hn; injection Hn as <-; vm_compute in Hc; discriminate].
  specialize (Hs id_img id_img 2 2 lossless_default w1_frames (fun _ => o_none) false false st0 out
                 id_codec_lossless).
  assert (Hd : wf_canvas_dims 2 2) by (unfold wf_canvas_dims, max_canvas_dimension; lia).
  assert (Ho : lossless_opts lossless_default)
    by (unfold lossless_opts, max_loop_count; cbn; repeat split; lia).
  assert (Hne : w1_frames <> []) by discriminate.
  assert (Hwf : Forall wf_input w1_frames) by (unfold w1_frames; wf_inputs).
  specialize (Hs Hd Ho Hne Hwf Hn Hc).
  destruct Hs as [_ Hp _].
  vm_compute in Hn. injection Hn as <-. vm_compute in Hc. injection Hc as <-.
  vm_compute in Hp. discriminate.
Qed.

(* ------------------------------------------------------------------ *)
(* (ii) Stale prevFrameRect after an overflow filler.  4x4 canvas:
   blank; a 2x2 red block at (2,2) shown 0xFFFFFF ms; the same picture again
   (+10 ms: filler frame, prevMuxIndex now points at the 1x1 filler while
   prevFrameRect still is the block's rectangle); then a picture without the
   block and a green pixel at (0,0).  The dispose-background candidate assumes
   the block's rectangle is cleared, but the flag lands on the filler. *)

Definition T : px := P 0 0 0 0.
Definition R : px := P 255 0 0 255.
Definition G : px := P 0 255 0 255.

Definition w2_frames : list (img * Z) :=
  [ (mkimg 4 4 [T;T;T;T; T;T;T;T; T;T;T;T; T;T;T;T], 10);
    (mkimg 4 4 [T;T;T;T; T;T;T;T; T;T;R;R; T;T;R;R], 16777215);
    (mkimg 4 4 [T;T;T;T; T;T;T;T; T;T;R;R; T;T;R;R], 10);
    (mkimg 4 4 [G;T;T;T; T;T;T;T; T;T;T;T; T;T;T;T], 10) ].

Definition w2_oracle (n : nat) : orc := match n with 3%nat => o_bg | _ => o_none end.

Definition w2_last (fx : fixes) : option (canvas * Z) :=
  match new_encoder 4 4 lossless_default with
  | Some st0 =>
      match close false false (run_frames fx w2_oracle st0 w2_frames) with
      | Some out => Some (last (playback id_img id_img fx out) ([], 0))
      | None => None
      end
  | None => None
  end.

Example w2_pinned_keeps_block :
  w2_last pinned = Some ([G;T;T;T; T;T;T;T; T;T;R;R; T;T;R;R], 10).
Proof. vm_compute. reflexivity. Qed.

Example w2_repaired_clears_block :
  w2_last repaired = Some ([G;T;T;T; T;T;T;T; T;T;T;T; T;T;T;T], 10).
Proof. vm_compute. reflexivity. Qed.

(* the invariant conjunct "prevFrameRect is the rectangle of the muxer frame at
   prevMuxIndex" fails after the filler *)
Lemma prev_rect_invariant_refuted :
  exists st0 st, new_encoder 4 4 lossless_default = Some st0 /\
    st = run_frames pinned w2_oracle st0 (firstn 3 w2_frames) /\
    match nth_error (e_recs st) (Z.to_nat (e_pidx st)) with
    | Some r => e_prect st <> mkrect (m_x r) (m_y r) (m_x r + iw (m_img r)) (m_y r + ih (m_img r))
    | None => False
    end.
Proof.
  eexists. eexists. split; [vm_compute; reflexivity|]. split; [reflexivity|].
  vm_compute. discriminate.
Qed.

Theorem anim_lossless_roundtrip_refuted_filler :
  ~ anim_lossless_roundtrip_statement (mkfixes true false false).
Proof.
  intros Hs.
  destruct (new_encoder 4 4 lossless_default) as [st0|] eqn:Hn; [|vm_compute in Hn; discriminate].
  destruct (close false false (run_frames (mkfixes true false false) w2_oracle st0 w2_frames)) as [out|] eqn:Hc;
    [|vm_compute in Hn; injection Hn as <-; vm_compute in Hc; discriminate].
  specialize (Hs id_img id_img 4 4 lossless_default w2_frames w2_oracle false false st0 out
                 id_codec_lossless).
  assert (Hd : wf_canvas_dims 4 4) by (unfold wf_canvas_dims, max_canvas_dimension; lia).
  assert (Ho : lossless_opts lossless_default)
    by (unfold lossless_opts, max_loop_count; cbn; repeat split; lia).
  assert (Hne : w2_frames <> []) by discriminate.
  assert (Hwf : Forall wf_input w2_frames) by (unfold w2_frames, T, R, G; wf_inputs).
  specialize (Hs Hd Ho Hne Hwf Hn Hc).
  destruct Hs as [_ Hp _].
  vm_compute in Hn. injection Hn as <-. vm_compute in Hc. injection Hc as <-.
  vm_compute in Hp. discriminate.
Qed.

(* ------------------------------------------------------------------ *)
(* C18: on the pinned code the lossy frame payload reaches the muxer without
   its alpha data (encodeFrameForAnimation -> encodeLossy), so a lossy frame
   plays back opaque.  1x1 canvas, a transparent picture then an opaque one. *)

Definition lossy_default : eopts := mkeopts 0 0 0 false false 75.

Definition w3_frames : list (img * Z) := [ (mkimg 1 1 [T], 10); (mkimg 1 1 [R], 10) ].

Lemma lossy_frame_carries_alph_refuted :
  exists r : mrec, m_lossy r = true /\ wf_img (m_img r) /\
    map pa (ipix (decoded id_img id_img pinned false r)) <> map pa (ipix (m_img r)).
Proof.
  exists (mkmrec 0 0 (mkimg 1 1 [T]) true true false 10).
  split; [reflexivity|]. split.
  - unfold wf_img, wf_px; cbn. repeat split; try lia. repeat constructor; cbn; lia.
  - vm_compute. discriminate.
Qed.

Theorem anim_alpha_preserved_refuted : ~ anim_alpha_preserved_statement pinned.
Proof.
  intros Hs.
  destruct (new_encoder 1 1 lossy_default) as [st0|] eqn:Hn; [|vm_compute in Hn; discriminate].
  destruct (close false false (run_frames pinned (fun _ => o_none) st0 w3_frames)) as [out|] eqn:Hc;
    [|vm_compute in Hn; injection Hn as <-; vm_compute in Hc; discriminate].
  specialize (Hs id_img id_img 1 1 lossy_default w3_frames (fun _ => o_none) false false st0 out
                 id_codec_lossless id_codec_alpha_exact).
  assert (Hd : wf_canvas_dims 1 1) by (unfold wf_canvas_dims, max_canvas_dimension; lia).
  assert (Ho : alpha_opts lossy_default)
    by (unfold alpha_opts, max_loop_count; cbn; repeat split; lia).
  assert (Hne : w3_frames <> []) by discriminate.
  assert (Hwf : Forall wf_input w3_frames) by (unfold w3_frames, T, R; wf_inputs).
  specialize (Hs Hd Ho Hne Hwf Hn Hc).
  destruct Hs as [_ Hp _].
  vm_compute in Hn. injection Hn as <-. vm_compute in Hc. injection Hc as <-.
  vm_compute in Hp. discriminate.
Qed.

(* ------------------------------------------------------------------ *)
(* A failed AddFrame must leave the animation as it was.  With the earlier order in
   increasePreviousDuration (cap the previous duration, then encode the overflow
   filler) a call whose filler encode fails returns an error but has already changed
   the previous picture's display time.  1x1 canvas: red 10 ms, green 0xFFFFFF-5 ms,
   green again 10 ms with the filler encode failing. *)

Definition w4_frames : list (img * Z) :=
  [ (mkimg 1 1 [R], 10); (mkimg 1 1 [G], 16777210); (mkimg 1 1 [G], 10) ].

Definition w4_fails (n : nat) : efail :=
  match n with 2%nat => mkefail true false false false | _ => no_fail end.

Definition w4_show (keep_dur : bool) : option (list (img * Z) * show) :=
  match new_encoder 1 1 lossless_default with
  | Some st0 =>
      let '(stf, acc) := run_e repaired keep_dur 10000 (fun _ => o_none) w4_fails st0 w4_frames in
      match close false false stf with
      | Some out => Some (acc, playback id_img id_img repaired out)
      | None => None
      end
  | None => None
  end.

Example w4_kept : w4_show true = Some ([(mkimg 1 1 [R], 10); (mkimg 1 1 [G], 16777210)],
                                       [([R], 10); ([G], 16777210)]).
Proof. vm_compute. reflexivity. Qed.

Example w4_pinned_changes_duration :
  w4_show false = Some ([(mkimg 1 1 [R], 10); (mkimg 1 1 [G], 16777210)],
                        [([R], 10); ([G], 16777215)]).
Proof. vm_compute. reflexivity. Qed.

Theorem anim_error_roundtrip_refuted_cap_first : ~ anim_error_roundtrip_statement false.
Proof.
  intros Hs.
  destruct (new_encoder 1 1 lossless_default) as [st0|] eqn:Hn; [|vm_compute in Hn; discriminate].
  destruct (run_e repaired false 10000 (fun _ => o_none) w4_fails st0 w4_frames) as [stf acc] eqn:Hr.
  destruct (close false false stf) as [out|] eqn:Hc;
    [|vm_compute in Hn; injection Hn as <-; vm_compute in Hr; injection Hr as <- <-;
      vm_compute in Hc; discriminate].
  specialize (Hs id_img id_img 1 1 lossless_default w4_frames (fun _ => o_none) w4_fails 10000
                 false false st0 stf acc out id_codec_lossless).
  assert (Hd : wf_canvas_dims 1 1) by (unfold wf_canvas_dims, max_canvas_dimension; lia).
  assert (Ho : lossless_opts lossless_default)
    by (unfold lossless_opts, max_loop_count; cbn; repeat split; lia).
  assert (Hwf : Forall wf_input w4_frames) by (unfold w4_frames, R, G; wf_inputs).
  specialize (Hs Hd Ho Hwf Hn Hr Hc).
  destruct Hs as [_ _ Ht].
  vm_compute in Hn. injection Hn as <-. vm_compute in Hr. injection Hr as <- <-.
  vm_compute in Hc. injection Hc as <-.
  assert (H2 : le 2 (length (collapse (inputs_of 1 1 [(mkimg 1 1 [R], 10); (mkimg 1 1 [G], 16777210)]))))
    by (vm_compute; repeat constructor).
  destruct (Ht H2) as [Heq _]. vm_compute in Heq. discriminate.
Qed.

(* ------------------------------------------------------------------ *)
(* Known finding raw-frames:canvas-size: NewEncoder 4x2, one pre-encoded 1x1 frame of
   duration 0, no metadata, Close: Muxer.assembleSimple writes a simple file, the explicit
   canvas size is not stored and the file's canvas is 1x1. *)

Definition w5_ops : list op := [ORaw (mkmrec 0 0 (mkimg 1 1 [R]) false true false 0)].

Definition w5_out : option output :=
  match new_encoder 4 2 lossless_default with
  | Some st0 =>
      let '(stf, _) := run_ops repaired 10000 (fun _ => o_none) (fun _ => no_fail) st0 w5_ops in
      close false false stf
  | None => None
  end.

Example w5_canvas_is_the_frame_size :
  option_map (fun o => (out_W o, out_H o)) w5_out = Some (1, 1).
Proof. vm_compute. reflexivity. Qed.

Theorem anim_mixed_roundtrip_refuted_lone_small_raw : ~ anim_mixed_roundtrip_statement false.
Proof.
  intros Hs.
  destruct (new_encoder 4 2 lossless_default) as [st0|] eqn:Hn; [|vm_compute in Hn; discriminate].
  destruct (run_ops repaired 10000 (fun _ => o_none) (fun _ => no_fail) st0 w5_ops) as [stf acc] eqn:Hr.
  destruct (close false false stf) as [out|] eqn:Hc;
    [|vm_compute in Hn; injection Hn as <-; vm_compute in Hr; injection Hr as <- <-;
      vm_compute in Hc; discriminate].
  specialize (Hs id_img id_img 4 2 lossless_default w5_ops (fun _ => o_none) (fun _ => no_fail) 10000
                 false false st0 stf acc out id_codec_lossless).
  assert (Hd : wf_canvas_dims 4 2) by (unfold wf_canvas_dims, max_canvas_dimension; lia).
  assert (Ho : lossless_opts lossless_default)
    by (unfold lossless_opts, max_loop_count; cbn; repeat split; lia).
  assert (Hwf : Forall (wf_op 4 2) w5_ops).
  { constructor; [|constructor]. unfold wf_op, wf_raw, wf_img, max_duration, R, P; cbn.
    repeat split; try lia. constructor; [unfold wf_px; cbn; lia|constructor]. }
  specialize (Hs Hd Ho Hwf Hn Hr ltac:(discriminate) Hc).
  destruct Hs as [[Hw _] _ _].
  vm_compute in Hn. injection Hn as <-. vm_compute in Hr. injection Hr as <- <-.
  vm_compute in Hc. injection Hc as <-. vm_compute in Hw. discriminate.
Qed.

(* a mixed history on the model: AddFrame, AddRawFrame (green 2x2 block at (2,0), blended,
   disposed to background afterwards), AddFrame *)
Definition w6_ops : list op :=
  [ OAdd (mkimg 4 2 [R;R;R;R; R;R;R;R], 10);
    ORaw (mkmrec 2 0 (mkimg 2 2 [G;G;G;G]) false false true 20);
    OAdd (mkimg 4 2 [R;R;T;R; R;R;R;G], 30) ].

Definition w6_show : option (show * show) :=
  match new_encoder 4 2 lossless_default with
  | Some st0 =>
      let '(stf, acc) := run_ops repaired 10000 (fun _ => o_none) (fun _ => no_fail) st0 w6_ops in
      match close false false stf with
      | Some out => Some (playback id_img id_img repaired out, ref_show 4 2 (blank 4 2, None) acc)
      | None => None
      end
  | None => None
  end.

Example w6_mixed_history_plays_the_reference_show :
  w6_show = Some ([([R;R;R;R; R;R;R;R], 10); ([R;R;G;G; R;R;G;G], 20); ([R;R;T;R; R;R;R;G], 30)],
                  [([R;R;R;R; R;R;R;R], 10); ([R;R;G;G; R;R;G;G], 20); ([R;R;T;R; R;R;R;G], 30)]).
Proof. vm_compute. reflexivity. Qed.
