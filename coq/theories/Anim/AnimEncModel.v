(** Implementation model of animation.AnimEncoder (animation/animation.go):
    NewEncoder (sanitizeKeyframeOptions, clampLoopCount), AddFrame ->
    addOptimizedFrame (padding, first frame = key frame, isCanvasIdentical merge via
    increasePreviousDuration incl. the 24-bit overflow filler frame,
    countSinceKeyframe / Kmax policy, encodeSubFrame: findChangedRect, snapToEven,
    intersect, blend decision, dispose-none / dispose-background candidates with the
    retroactive SetFrameDisposeMode, 90 % area key-frame fallback, encodeKeyframe),
    Close (single-frame still optimisation), the part of mux.Muxer it drives
    (AddFrame with clampDuration, SetFrameDuration, SetFrameDisposeMode,
    FrameDuration, isAnimated) and the playback of what was written
    (container view of each frame -> Canvas.spec_run).

    Not modelled as algorithms: the frame codecs.  [rt_ll] / [rt_ly] stand for
    decode-after-encode of the VP8L resp. VP8(+ALPH) codec (Section variables; the
    theorems state their hypotheses).  Every comparison between encoded sizes is an
    oracle boolean ([orc], one record per AddFrame call, plus one for Close).

    The record [fixes] exists only so that the defects of the code as it was pinned
    can be stated and refuted ([pinned], all false: no clearKeptPixels, stale
    prevFrameRect after a filler, lossy frames without ALPH).  The code under test is
    [repaired]; the extracted runner is hard-wired to it. *)
From Coq Require Import List ZArith Lia Bool.
From Webp Require Import Anim.Blend Anim.Canvas Anim.AnimDec.
Import ListNotations.
Open Scope Z_scope.

(* ------------------------------------------------------------------ *)
(* Images, padding, scans                                               *)

Record img := mkimg { iw : Z; ih : Z; ipix : list px }.

Definition iget (i : img) (x y : Z) : px := nth (Z.to_nat (y * iw i + x)) (ipix i) px0.

(* addOptimizedFrame: an image whose size differs from the canvas is copied to
   (0,0) of a transparent canvas, clipped (copyImageRect). *)
Definition pad (W H : Z) (i : img) : canvas :=
  tab W H (fun x y => if (x <? iw i) && (y <? ih i) then iget i x y else px0).

Fixpoint first_from (P : Z -> bool) (k : nat) (i : Z) : option Z :=
  match k with
  | O => None
  | S k' => if P i then Some i else first_from P k' (i + 1)
  end.

Fixpoint last_from (P : Z -> bool) (k : nat) (i : Z) : option Z :=
  match k with
  | O => None
  | S k' => if P i then Some i else last_from P k' (i - 1)
  end.

Definition zspan (a b : Z) : list Z := map (fun i => a + i) (zrange (b - a)).

Definition px_diff (W : Z) (a b : canvas) (x y : Z) : bool :=
  negb (px_eqb (cget W a x y) (cget W b x y)).

Definition row_diff (W : Z) (a b : canvas) (y : Z) : bool :=
  existsb (fun x => px_diff W a b x y) (zrange W).

Definition col_diff (W : Z) (a b : canvas) (y0 y1 x : Z) : bool :=
  existsb (fun y => px_diff W a b x y) (zspan y0 y1).

Definition rect0 : rect := mkrect 0 0 0 0.

(* isCanvasIdentical: bytes.Equal on the pixel buffers *)
Fixpoint canvas_eqb (a b : canvas) : bool :=
  match a, b with
  | [], [] => true
  | p :: a', q :: b' => px_eqb p q && canvas_eqb a' b'
  | _, _ => false
  end.

(* findChangedRect: bounding box of the differing pixels (first / last differing
   row, then first / last differing column within those rows). *)
Definition find_changed_rect (W H : Z) (prev curr : canvas) : rect :=
  if (W =? 0) || (H =? 0) then rect0 else
  match first_from (row_diff W prev curr) (Z.to_nat H) 0 with
  | None => rect0
  | Some minY =>
      let maxY := match last_from (row_diff W prev curr) (Z.to_nat (H - 1 - minY)) (H - 1) with
                  | Some y => y + 1
                  | None => minY + 1
                  end in
      match first_from (col_diff W prev curr minY maxY) (Z.to_nat W) 0,
            last_from (col_diff W prev curr minY maxY) (Z.to_nat W) (W - 1) with
      | Some minX, Some lastX =>
          if lastX + 1 <=? minX then rect0 else go_rect minX minY (lastX + 1) maxY
      | _, _ => rect0
      end
  end.

(* snapToEven *)
Definition snap_to_even (r : rect) : rect :=
  let w := (rx1 r - rx0 r) + (rx0 r) mod 2 in
  let h := (ry1 r - ry0 r) + (ry0 r) mod 2 in
  let mx := rx0 r - (rx0 r) mod 2 in
  let my := ry0 r - (ry0 r) mod 2 in
  go_rect mx my (mx + w) (my + h).

(* extractSubImage *)
Definition extract_sub (W : Z) (c : canvas) (r : rect) : img :=
  let w := rx1 r - rx0 r in
  let h := ry1 r - ry0 r in
  if (w <=? 0) || (h <=? 0) then mkimg 1 1 [px0]
  else mkimg w h (tab w h (fun x y => cget W c (rx0 r + x) (ry0 r + y))).

Definition rect_forall (r : rect) (P : Z -> Z -> bool) : bool :=
  forallb (fun y => forallb (fun x => P x y) (zspan (rx0 r) (rx1 r))) (zspan (ry0 r) (ry1 r)).

(* isLosslessBlendingPossible, per pixel: [s] previous canvas, [d] target:
   d.A = 255 or s = d *)
Definition lossless_px_ok (s d : px) : bool := (pa d =? 255) || px_eqb s d.

(* qualityToMaxDiff for quality 0..100 (compared with the Go function for all
   101 arguments on every run of the check). *)
Definition max_diff_table : list Z :=
  [31;28;27;26;25;24;24;23;23;22;22;21;21;20;20;19;19;19;18;18;18;17;17;17;16;16;16;15;15;15;15;
   14;14;14;14;13;13;13;13;12;12;12;12;11;11;11;11;10;10;10;10;10;9;9;9;9;9;8;8;8;8;8;7;7;7;7;7;
   6;6;6;6;6;6;5;5;5;5;5;5;4;4;4;4;4;4;3;3;3;3;3;3;2;2;2;2;2;2;1;1;1;1].

Definition quality_to_max_diff (q : Z) : Z := nth (Z.to_nat q) max_diff_table 1.

(* pixelsAreSimilar *)
Definition pixels_similar (s d : px) (md : Z) : bool :=
  (pa s =? pa d) &&
  (Z.abs (pr s - pr d) * pa d <=? md * 255) &&
  (Z.abs (pg s - pg d) * pa d <=? md * 255) &&
  (Z.abs (pb s - pb d) * pa d <=? md * 255).

Definition lossy_px_ok (md : Z) (s d : px) : bool :=
  (pa d =? 255) || pixels_similar s d md.

(* clearKeptPixels: in a sub-frame that will be alpha-blended, a pixel that is
   neither opaque nor transparent and has the alpha of the canvas underneath (the
   blending test accepted it only because it is unchanged / similar) is made fully
   transparent, so that blending keeps the canvas pixel. *)
Definition clear_kept (W : Z) (sub : img) (base : canvas) (r : rect) : img :=
  mkimg (iw sub) (ih sub)
    (tab (iw sub) (ih sub) (fun x y =>
       let p := iget sub x y in
       if (rx0 r + x <? rx1 r) && (ry0 r + y <? ry1 r) &&
          negb (pa p =? 255) && negb (pa p =? 0) &&
          (pa p =? pa (cget W base (rx0 r + x) (ry0 r + y)))
       then px0 else p)).

(* ------------------------------------------------------------------ *)
(* The part of mux.Muxer the encoder drives                             *)

Definition max_duration : Z := 16777215.
Definition max_loop_count : Z := 65535.
Definition max_canvas_dimension : Z := 16383.
Definition max_int : Z := 2^63 - 1.

Record mrec := mkmrec {
  m_x : Z; m_y : Z;
  m_img : img;              (* the picture handed to the frame codec *)
  m_lossy : bool;           (* codec that produced the stored bitstream *)
  m_blend_none : bool;
  m_dispose_bg : bool;
  m_dur : Z
}.

Definition clamp_dur (d : Z) : Z :=
  if d <? 0 then 0 else if max_duration <? d then max_duration else d.

Definition mux_add (recs : list mrec) (x y : Z) (i : img) (lossy bn : bool) (dur : Z) : list mrec :=
  recs ++ [mkmrec x y i lossy bn false (clamp_dur dur)].

Fixpoint upd_nth {A} (n : nat) (f : A -> A) (l : list A) : list A :=
  match l, n with
  | [], _ => []
  | a :: t, O => f a :: t
  | a :: t, S n' => a :: upd_nth n' f t
  end.

Definition idx_ok (recs : list mrec) (i : Z) : bool :=
  (0 <=? i) && (i <? Z.of_nat (length recs)).

Definition mux_set_dispose_bg (recs : list mrec) (i : Z) : list mrec :=
  if idx_ok recs i then
    upd_nth (Z.to_nat i)
      (fun r => mkmrec (m_x r) (m_y r) (m_img r) (m_lossy r) (m_blend_none r) true (m_dur r)) recs
  else recs.

Definition mux_set_dur (recs : list mrec) (i d : Z) : list mrec :=
  if idx_ok recs i then
    upd_nth (Z.to_nat i)
      (fun r => mkmrec (m_x r) (m_y r) (m_img r) (m_lossy r) (m_blend_none r) (m_dispose_bg r)
                       (clamp_dur d)) recs
  else recs.

Definition mux_dur (recs : list mrec) (i : Z) : Z :=
  if idx_ok recs i then
    match nth_error recs (Z.to_nat i) with Some r => m_dur r | None => 0 end
  else 0.

Definition mux_animated (recs : list mrec) : bool :=
  (1 <? Z.of_nat (length recs)) || existsb (fun r => 0 <? m_dur r) recs.

(* ------------------------------------------------------------------ *)
(* Options, oracle, state                                               *)

Record eopts := mkeopts {
  eo_loop : Z; eo_kmin : Z; eo_kmax : Z;
  eo_lossless : bool; eo_mixed : bool; eo_quality : Z
}.

Record fixes := mkfixes { fix_blend : bool; fix_filler : bool; fix_alph : bool }.

Definition pinned : fixes := mkfixes false false false.
Definition repaired : fixes := mkfixes true true true.

(* Size comparisons of one AddFrame call.
   oc_bg   : len(bsBG) < len(bsNone)
   oc_key  : the full-canvas key frame was chosen instead of the sub-frame (the code tries it
             when the sub-frame covers most of the canvas and takes it when it is smaller)
   oc_alt_a/b/c : in mixed mode, the alternate codec was smaller, for the
     first / dispose-background / key-frame encodeFrame call of the step (oc_alt_c: in the
     encode that produced the key frame stored after the 90 % fallback; it repeats the
     candidate's encode unless an alternate-codec call fails in between). *)
Record orc := mkorc { oc_bg : bool; oc_key : bool; oc_alt_a : bool; oc_alt_b : bool; oc_alt_c : bool }.

Definition clamp_loop (v : Z) : Z :=
  if v <? 0 then 0 else if max_loop_count <? v then max_loop_count else v.

(* sanitizeKeyframeOptions (over unbounded integers; Kmin is never read again) *)
Definition sanitize_k (kmin kmax : Z) : Z * Z :=
  if kmax <=? 0 then (max_int - 1, max_int)
  else if kmax =? 1 then (0, 0)
  else
    let kmin1 :=
      if kmax <=? kmin then kmax - 1
      else let lim := kmax / 2 + 1 in
           if (kmin <? lim) && (lim <? kmax) then lim else kmin in
    let kmin2 := if 30 <? kmax - kmin1 then kmax - 30 else kmin1 in
    (kmin2, kmax).

Record est := mkest {
  e_W : Z; e_H : Z;
  e_opts : eopts;
  e_recs : list mrec;             (* muxer.frames *)
  e_prev : option canvas;         (* prevCanvas (nil before the first frame) *)
  e_fcount : Z;                   (* frameCount *)
  e_since : Z;                    (* countSinceKeyframe *)
  e_prect : rect;                 (* prevFrameRect *)
  e_pidx : Z;                     (* prevMuxIndex *)
  e_calls : nat                   (* number of AddFrame calls so far (oracle index) *)
}.

Definition new_encoder (W H : Z) (o : eopts) : option est :=
  if (W <=? 0) || (H <=? 0) || (max_canvas_dimension <? W) || (max_canvas_dimension <? H)
  then None
  else
    let '(kmin, kmax) := sanitize_k (eo_kmin o) (eo_kmax o) in
    Some (mkest W H
            (mkeopts (clamp_loop (eo_loop o)) kmin kmax (eo_lossless o) (eo_mixed o) (eo_quality o))
            [] None 0 0 rect0 0 O).

(* encodeFrame: which codec produced the bytes that are kept *)
Definition codec_lossy (o : eopts) (alt : bool) : bool :=
  let primary_lossy := negb (eo_lossless o) in
  if eo_mixed o && alt then negb primary_lossy else primary_lossy.

Definition last_idx (recs : list mrec) : Z := Z.of_nat (length recs) - 1.

Definition set_calls (st : est) : est :=
  mkest (e_W st) (e_H st) (e_opts st) (e_recs st) (e_prev st) (e_fcount st) (e_since st)
        (e_prect st) (e_pidx st) (S (e_calls st)).

(* first frame / encodeKeyframe *)
Definition encode_keyframe (st : est) (curr : canvas) (dur : Z) (alt : bool) : est :=
  let W := e_W st in let H := e_H st in
  let recs := mux_add (e_recs st) 0 0 (mkimg W H curr) (codec_lossy (e_opts st) alt) true dur in
  mkest W H (e_opts st) recs (Some curr) (e_fcount st + 1) 0
        (go_rect 0 0 W H) (last_idx recs) (e_calls st).

(* increasePreviousDuration *)
Definition increase_prev_duration (fx : fixes) (st : est) (dur : Z) (o : orc) : est :=
  let recs := e_recs st in
  let prev_dur := mux_dur recs (e_pidx st) in
  let new_dur := prev_dur + dur in
  if new_dur <? max_duration then
    mkest (e_W st) (e_H st) (e_opts st) (mux_set_dur recs (e_pidx st) new_dur) (e_prev st)
          (e_fcount st) (e_since st) (e_prect st) (e_pidx st) (e_calls st)
  else
    let recs1 := mux_set_dur recs (e_pidx st) max_duration in
    let recs2 := mux_add recs1 0 0 (mkimg 1 1 [px0]) (codec_lossy (e_opts st) (oc_alt_a o)) false
                         (new_dur - max_duration) in
    mkest (e_W st) (e_H st) (e_opts st) recs2 (e_prev st)
          (e_fcount st + 1) (e_since st + 1)
          (if fix_filler fx then go_rect 0 0 1 1 else e_prect st)
          (last_idx recs2) (e_calls st).

(* one candidate of encodeSubFrame: rectangle, "BlendNone" flag, sub-image *)
Definition candidate (fx : fixes) (o : eopts) (W H : Z) (base curr : canvas) : rect * bool * img :=
  let r0 := find_changed_rect W H base curr in
  let r1 := if rect_empty r0 then go_rect 0 0 1 1 else r0 in
  let r2 := intersect (snap_to_even r1) (canvas_bounds W H) in
  let ok :=
    if eo_lossless o
    then rect_forall r2 (fun x y => lossless_px_ok (cget W base x y) (cget W curr x y))
    else rect_forall r2 (fun x y => lossy_px_ok (quality_to_max_diff (eo_quality o))
                                                 (cget W base x y) (cget W curr x y)) in
  let sub := extract_sub W curr r2 in
  (r2, negb ok, if fix_blend fx && ok then clear_kept W sub base r2 else sub).

Definition encode_sub_frame (fx : fixes) (st : est) (prev curr : canvas) (dur : Z) (o : orc) : est :=
  let W := e_W st in let H := e_H st in let op := e_opts st in
  let '(rN, bnN, imN) := candidate fx op W H prev curr in
  let disposed := fill_impl W H prev (e_prect st) in
  let '(rB, bnB, imB) := candidate fx op W H disposed curr in
  let use_bg := oc_bg o in
  let bR := if use_bg then rB else rN in
  let bBN := if use_bg then bnB else bnN in
  let bIm := if use_bg then imB else imN in
  let bLossy := codec_lossy op (if use_bg then oc_alt_b o else oc_alt_a o) in
  (* whether the "would a full-canvas key frame be smaller?" trial is made (area rule) and
     which way it goes (sizes, ties) are the encoder's choices: oc_key = the key frame was chosen *)
  if oc_key o then encode_keyframe st curr dur (oc_alt_c o)
  else
    let recs1 := if use_bg then mux_set_dispose_bg (e_recs st) (e_pidx st) else e_recs st in
    let recs2 := mux_add recs1 (rx0 bR) (ry0 bR) bIm bLossy bBN dur in
    mkest W H op recs2 (Some curr) (e_fcount st + 1) (e_since st) bR (last_idx recs2) (e_calls st).

(* AddFrame -> addOptimizedFrame.  [dur] is int(duration / time.Millisecond). *)
Definition add_frame (fx : fixes) (oracle : nat -> orc) (st : est) (f : img * Z) : est :=
  let '(im, dur) := f in
  let o := oracle (e_calls st) in
  let curr := pad (e_W st) (e_H st) im in
  set_calls
    match e_prev st with
    | None => encode_keyframe st curr dur (oc_alt_a o)
    | Some prev =>
        if canvas_eqb prev curr then increase_prev_duration fx st dur o
        else
          let st1 := mkest (e_W st) (e_H st) (e_opts st) (e_recs st) (e_prev st) (e_fcount st)
                           (e_since st + 1) (e_prect st) (e_pidx st) (e_calls st) in
          if eo_kmax (e_opts st) <=? e_since st1 then encode_keyframe st1 curr dur (oc_alt_a o)
          else encode_sub_frame fx st1 prev curr dur o
    end.

Definition run_frames (fx : fixes) (oracle : nat -> orc) (st : est) (fs : list (img * Z)) : est :=
  fold_left (add_frame fx oracle) fs st.

(* ------------------------------------------------------------------ *)
(* Error paths of AddFrame                                              *)

(* Which frame-encoder calls of one AddFrame fail (primary codec; a failing
   alternate codec in mixed mode is "alternate not chosen", i.e. oc_alt_* = false):
   ef_a : the first encodeFrame of the step (first frame / forced key frame /
          overflow filler / dispose-none candidate)        -> AddFrame returns an error
   ef_b : the dispose-background candidate                 -> candidate dropped
   ef_c : the key-frame candidate of the 90 % fallback     -> fallback not taken
   ef_k : the encodeFrame inside encodeKeyframe after the fallback was chosen -> error *)
Record efail := mkefail { ef_a : bool; ef_b : bool; ef_c : bool; ef_k : bool }.

Definition no_fail : efail := mkefail false false false false.

Definition eff_orc (o : orc) (fl : efail) : orc :=
  mkorc (oc_bg o && negb (ef_b fl)) (oc_key o && negb (ef_c fl)) (oc_alt_a o) (oc_alt_b o) (oc_alt_c o).

(* Muxer.AddFrame refuses a frame when len(frames) >= MaxFrames *)
Definition max_frames : Z := 10000.

Definition mux_full (maxf : Z) (st : est) : bool := maxf <=? Z.of_nat (length (e_recs st)).

Definition set_since (st : est) (k : Z) : est :=
  mkest (e_W st) (e_H st) (e_opts st) (e_recs st) (e_prev st) (e_fcount st) k
        (e_prect st) (e_pidx st) (e_calls st).

Definition set_recs (st : est) (recs : list mrec) : est :=
  mkest (e_W st) (e_H st) (e_opts st) recs (e_prev st) (e_fcount st) (e_since st)
        (e_prect st) (e_pidx st) (e_calls st).

(* AddFrame with its error returns: (state after the call, "returned nil").
   [keep_dur] = true is the code under test (commit 60cfee7): the previous frame's
   duration is capped only after the overflow filler has been added; false is the
   earlier order (cap first), kept for the refutation.
   A successful call is [add_frame] with the oracle the failures leave. *)
Definition add_frame_e (fx : fixes) (keep_dur : bool) (maxf : Z)
    (oracle : nat -> orc) (fails : nat -> efail) (st : est) (f : img * Z) : est * bool :=
  let '(im, dur) := f in
  let fl := fails (e_calls st) in
  let o := eff_orc (oracle (e_calls st)) fl in
  let ok := (add_frame fx (fun n => eff_orc (oracle n) (fails n)) st f, true) in
  let full := mux_full maxf st in
  let W := e_W st in let H := e_H st in
  let curr := pad W H im in
  match e_prev st with
  | None => if ef_a fl || full then (set_calls st, false) else ok
  | Some prev =>
      if canvas_eqb prev curr then
        if mux_dur (e_recs st) (e_pidx st) + dur <? max_duration then ok
        else if ef_a fl || full then
          (set_calls (if keep_dur then st
                      else set_recs st (mux_set_dur (e_recs st) (e_pidx st) max_duration)), false)
        else ok
      else
        let st1 := set_since st (e_since st + 1) in
        if eo_kmax (e_opts st) <=? e_since st1 then
          if ef_a fl || full then (set_calls st1, false) else ok
        else if ef_a fl then (set_calls st1, false)
        else
          if oc_key o then
            if ef_k fl || full then (set_calls st1, false) else ok
          else if full then
            (* SetFrameDisposeMode has already run when Muxer.AddFrame refuses the frame *)
            (set_calls (if oc_bg o then set_recs st1 (mux_set_dispose_bg (e_recs st) (e_pidx st))
                        else st1), false)
          else ok
  end.

(* a history: final state and the frames whose AddFrame returned nil *)
Fixpoint run_e (fx : fixes) (keep_dur : bool) (maxf : Z) (oracle : nat -> orc) (fails : nat -> efail)
    (st : est) (fs : list (img * Z)) : est * list (img * Z) :=
  match fs with
  | [] => (st, [])
  | f :: rest =>
      let '(st1, ok) := add_frame_e fx keep_dur maxf oracle fails st f in
      let '(stf, acc) := run_e fx keep_dur maxf oracle fails st1 rest in
      (stf, if ok then f :: acc else acc)
  end.

(* ------------------------------------------------------------------ *)
(* Pre-encoded frames: AddRawFrame                                      *)

(* The record is what is handed to the muxer: offsets, blend, dispose, duration and the
   bitstream, represented by the picture it was encoded from ([m_img]) and its codec.
   Muxer.AddFrame refuses it when the muxer is full (state unchanged); otherwise the frame
   is counted and prevCanvas is forgotten, so that the next AddFrame emits a key frame. *)
Definition add_raw_e (maxf : Z) (st : est) (r : mrec) : est * bool :=
  if mux_full maxf st then (set_calls st, false)
  else
    (set_calls
       (mkest (e_W st) (e_H st) (e_opts st)
              (e_recs st ++ [mkmrec (m_x r) (m_y r) (m_img r) (m_lossy r) (m_blend_none r)
                                    (m_dispose_bg r) (clamp_dur (m_dur r))])
              None (e_fcount st + 1) (e_since st) (e_prect st) (e_pidx st) (e_calls st)), true).

Inductive op := OAdd (f : img * Z) | ORaw (r : mrec).

Definition step_op (fx : fixes) (maxf : Z) (oracle : nat -> orc) (fails : nat -> efail)
    (st : est) (o : op) : est * bool :=
  match o with
  | OAdd f => add_frame_e fx true maxf oracle fails st f
  | ORaw r => add_raw_e maxf st r
  end.

(* a history of AddFrame / AddRawFrame calls: final state and the accepted calls *)
Fixpoint run_ops (fx : fixes) (maxf : Z) (oracle : nat -> orc) (fails : nat -> efail)
    (st : est) (ops : list op) : est * list op :=
  match ops with
  | [] => (st, [])
  | o :: rest =>
      let '(st1, ok) := step_op fx maxf oracle fails st o in
      let '(stf, acc) := run_ops fx maxf oracle fails st1 rest in
      (stf, if ok then o :: acc else acc)
  end.

(* ------------------------------------------------------------------ *)
(* Close                                                                *)

Record output := mkout {
  out_still : bool;          (* a plain still image was written *)
  out_via_encode : bool;     (* ... by SimpleEncodeFunc (webp.Encode), not by the muxer *)
  out_W : Z; out_H : Z;
  out_loop : Z;
  out_recs : list mrec
}.

(* Muxer.validate, per frame: offsets storable (non-negative, halved value in 24 bits), a
   still image has no offset, the frame lies inside the canvas.  (The canvas itself is
   storable: NewEncoder limits it to 16383 x 16383.) *)
Definition max_position_off : Z := 16777216.

Definition rec_valid (W H : Z) (animated : bool) (r : mrec) : bool :=
  (0 <=? m_x r) && (0 <=? m_y r) &&
  (m_x r / 2 <? max_position_off) && (m_y r / 2 <? max_position_off) &&
  (animated || ((m_x r =? 0) && (m_y r =? 0))) &&
  (m_x r + iw (m_img r) <=? W) && (m_y r + ih (m_img r) <=? H).

(* [has_meta]: an ICC / EXIF / XMP blob was set on the encoder (SetICCProfile ...);
   the simple still carries no metadata, so the single-frame optimisation is then
   skipped and the muxer writes an extended file (with one frame of duration 0: a
   non-animated VP8X file with the metadata chunks and the explicit canvas size).
   Metadata never touches a frame.
   [simple_smaller]: len(simpleData) > 0 && len(simpleData) < len(animData).
   None: Muxer.Assemble fails (ErrNoFrames, or validate refuses a frame).
   After a pre-encoded frame prevCanvas is nil: no single-frame optimisation.  A single
   frame of duration 0 without metadata is written by assembleSimple, whose canvas is
   the frame's own size (the explicit canvas size is not stored). *)
Definition close (has_meta simple_smaller : bool) (st : est) : option output :=
  match e_recs st with
  | [] => None
  | r0 :: _ =>
      let W := e_W st in let H := e_H st in
      let animated := mux_animated (e_recs st) in
      if negb (forallb (rec_valid W H animated) (e_recs st)) then None
      else
        let by_muxer :=
          if animated then
            Some (mkout false false W H (eo_loop (e_opts st)) (e_recs st))
          else
            Some (mkout true false (if has_meta then W else iw (m_img r0))
                        (if has_meta then H else ih (m_img r0)) 0
                        [mkmrec 0 0 (m_img r0) (m_lossy r0) false false 0]) in
        match e_prev st with
        | Some prev =>
            if (e_fcount st =? 1) && negb has_meta && simple_smaller then
              Some (mkout true true W H 0
                      [mkmrec 0 0 (mkimg W H prev) (negb (eo_lossless (e_opts st))) false false 0])
            else by_muxer
        | None => by_muxer
        end
  end.

(* ------------------------------------------------------------------ *)
(* Playback of what was written                                         *)

Section Codec.
  Variable rt_ll : img -> img.   (* VP8L: decode after encode *)
  Variable rt_ly : img -> img.   (* VP8 + ALPH: decode after encode, alpha carried *)

  Definition drop_alpha (i : img) : img :=
    mkimg (iw i) (ih i) (map (fun p => mkpx (pr p) (pg p) (pb p) 255) (ipix i)).

  (* what the decoder obtains for one stored frame.  Animation frames go through
     encodeFrameForAnimation (pinned: encodeLossy drops the alpha data);
     the single-frame still goes through Encode, which always carries it. *)
  Definition decoded (fx : fixes) (still : bool) (r : mrec) : img :=  (* still: written by webp.Encode *)
    if m_lossy r then
      if fix_alph fx || still then rt_ly (m_img r) else drop_alpha (rt_ly (m_img r))
    else rt_ll (m_img r).

  (* container view: offsets are stored halved (putLE24(OffsetX/2)) and read back
     doubled; the frame size is the bitstream's. *)
  Definition frame_of (fx : fixes) (still : bool) (r : mrec) : frame :=
    let d := decoded fx still r in
    mkframe (2 * (m_x r / 2)) (2 * (m_y r / 2)) (iw d) (ih d) (ipix d)
            (m_blend_none r) (m_dispose_bg r) true.

  Definition play_recs (fx : fixes) (still : bool) (W H : Z) (recs : list mrec) : list canvas :=
    spec_run W H (map (frame_of fx still) recs).

  Definition playback (fx : fixes) (o : output) : list (canvas * Z) :=
    combine (play_recs fx (out_via_encode o) (out_W o) (out_H o) (out_recs o))
            (map m_dur (out_recs o)).
End Codec.

(* ------------------------------------------------------------------ *)
(* What the inputs are, as canvases with display times                  *)

Definition inputs_of (W H : Z) (fs : list (img * Z)) : list (canvas * Z) :=
  map (fun f => (pad W H (fst f), snd f)) fs.

(* ------------------------------------------------------------------ *)
(* The show a history of AddFrame / AddRawFrame calls stands for: an AddFrame picture is
   the whole canvas; a pre-encoded frame is composited by the container rules (dispose
   of the previous frame's rectangle if it asked for it, then overwrite or blend) at
   its offset, with the picture it was encoded from. *)

Definition id_frame (r : mrec) : frame :=
  mkframe (m_x r) (m_y r) (iw (m_img r)) (ih (m_img r)) (ipix (m_img r))
          (m_blend_none r) (m_dispose_bg r) true.

Definition rstate := (canvas * option (rect * bool))%type.

Definition rstep (W H : Z) (s : rstate) (o : op) : rstate :=
  match o with
  | OAdd f => (pad W H (fst f), None)
  | ORaw r =>
      let c1 := match snd s with
                | Some (rc, true) => fill W H (fst s) rc
                | _ => fst s
                end in
      (composite W H c1 (id_frame r), Some (true_rect (id_frame r), m_dispose_bg r))
  end.

Definition op_dur (o : op) : Z := match o with OAdd f => snd f | ORaw r => m_dur r end.

Fixpoint ref_show (W H : Z) (s : rstate) (ops : list op) : list (canvas * Z) :=
  match ops with
  | [] => []
  | o :: rest => let s' := rstep W H s o in (fst s', op_dur o) :: ref_show W H s' rest
  end.

Definition rfold (W H : Z) (s : rstate) (ops : list op) : rstate := fold_left (rstep W H) ops s.
