(** Implementation model of animation.AnimDecoder (animation/animation.go):
    dual canvas buffers, the key-frame shortcut with its history summary
    (prevFrameWasKeyframe / prevDispose / prevBounds), Frame.Bounds with its
    int overflow clamp, image.Rectangle.Intersect, compositeFrame's clamping and
    the uint32 blend.  Go [int] is 64-bit two's complement: [wrap64]. *)
From Coq Require Import List ZArith Lia Bool.
From Webp Require Import Anim.Blend Anim.Canvas.
Import ListNotations.
Open Scope Z_scope.

Definition wrap64 (z : Z) : Z := (z + 2^63) mod 2^64 - 2^63.
Definition maxint : Z := 2^63 - 1.

(* image.Rect(x0,y0,x1,y1): canonicalises so that Min <= Max. *)
Definition go_rect (a b c d : Z) : rect :=
  mkrect (if c <? a then c else a) (if d <? b then d else b)
         (if c <? a then a else c) (if d <? b then b else d).

(* Frame.Bounds *)
Definition go_bounds (f : frame) : rect :=
  let mx := wrap64 (fx f + fw f) in
  let my := wrap64 (fy f + fh f) in
  let mx := if (0 <? fw f) && (mx <? fx f) then maxint else mx in
  let my := if (0 <? fh f) && (my <? fy f) then maxint else my in
  go_rect (fx f) (fy f) mx my.

Definition rect_empty (r : rect) : bool := (rx1 r <=? rx0 r) || (ry1 r <=? ry0 r).

(* image.Rectangle.Intersect *)
Definition intersect (r s : rect) : rect :=
  let r' := mkrect (Z.max (rx0 r) (rx0 s)) (Z.max (ry0 r) (ry0 s))
                   (Z.min (rx1 r) (rx1 s)) (Z.min (ry1 r) (ry1 s)) in
  if rect_empty r' then mkrect 0 0 0 0 else r'.

Definition canvas_bounds (W H : Z) : rect := mkrect 0 0 W H.

(* compositeFrame: the two nested loops with their clamps, pointwise *)
Definition composite_impl (W H : Z) (c : canvas) (f : frame) : canvas :=
  let r := intersect (go_bounds f) (canvas_bounds W H) in
  if rect_empty r then c else
  tab W H (fun x y =>
    let sy := wrap64 (y - fy f) in
    let sx := wrap64 (x - fx f) in
    if in_rect r x y && negb ((sy <? 0) || (fh f <=? sy)) && negb ((sx <? 0) || (fw f <=? sx))
    then
      let s := fget f sx sy in
      if fblend_none f then s else blend_impl s (cget W c x y)
    else cget W c x y).

(* fillRect(canvas, rect, transparent) *)
Definition fill_impl (W H : Z) (c : canvas) (r : rect) : canvas :=
  let r' := intersect r (canvas_bounds W H) in
  tab W H (fun x y => if in_rect r' x y then px0 else cget W c x y).

Record dstate := mkd {
  curr : canvas;
  prevd : canvas;          (* prevFrameDisposed *)
  was_key : bool;          (* prevFrameWasKeyframe *)
  pdisp : bool;            (* prevDispose == DisposeBackground *)
  pbounds : rect           (* prevBounds *)
}.

Definition dinit (W H : Z) : dstate :=
  mkd (blank W H) (blank W H) false false (mkrect 0 0 0 0).

(* frameIsOpaque: image.NRGBA.Opaque() scans every pixel of the frame picture.
   (Image types without an Opaque method answer false; whether a frame is taken
   as a key frame is not observable, see [animdec_refines_spec].) *)
Definition all_opaque (f : frame) : bool := forallb (fun p => pa p =? 255) (fpix f).

Definition is_key (W H : Z) (first : bool) (f : frame) (st : dstate) : bool :=
  if first then true else
  let full := (fx f =? 0) && (fy f =? 0) && (fw f =? W) && (fh f =? H) in
  if full && (fblend_none f || (negb (fhas_alpha f) && all_opaque f)) then true else
  if pdisp st then
    let pb := pbounds st in
    let pfull := (rx0 pb =? 0) && (ry0 pb =? 0) &&
                 (wrap64 (rx1 pb - rx0 pb) =? W) && (wrap64 (ry1 pb - ry0 pb) =? H) in
    pfull || was_key st
  else false.

Definition next_frame (W H : Z) (first : bool) (f : frame) (st : dstate) : canvas * dstate :=
  let key := is_key W H first f st in
  let c0 := if key then blank W H else prevd st in
  let c1 := composite_impl W H c0 f in
  let pd := if fdispose_bg f then fill_impl W H c1 (go_bounds f) else c1 in
  (c1, mkd c1 pd key (fdispose_bg f) (go_bounds f)).

Fixpoint impl_go (W H : Z) (first : bool) (st : dstate) (fs : list frame) : list canvas :=
  match fs with
  | [] => []
  | f :: fs' =>
      let '(snap, st') := next_frame W H first f st in
      snap :: impl_go W H false st' fs'
  end.

Definition impl_run (W H : Z) (fs : list frame) : list canvas :=
  impl_go W H true (dinit W H) fs.

(** The variant that does not use the key-frame shortcut at all (every frame
    starts from the previous disposed canvas): used to state "treating some
    frames as key frames never changes a result". *)
Definition next_frame_nokey (W H : Z) (f : frame) (st : dstate) : canvas * dstate :=
  let c1 := composite_impl W H (prevd st) f in
  let pd := if fdispose_bg f then fill_impl W H c1 (go_bounds f) else c1 in
  (c1, mkd c1 pd false (fdispose_bg f) (go_bounds f)).

Fixpoint impl_go_nokey (W H : Z) (st : dstate) (fs : list frame) : list canvas :=
  match fs with
  | [] => []
  | f :: fs' =>
      let '(snap, st') := next_frame_nokey W H f st in
      snap :: impl_go_nokey W H st' fs'
  end.
