(** What "plays back as the pictures that were added" means (C08) and what
    "keeps its transparency" means (C18), as statements about the AnimEncoder
    model of [AnimEncModel]; parametrised by the code variant [fixes] so that the
    same statement can be refuted for the pinned code and proved for the repaired
    one. *)
From Coq Require Import List ZArith Lia Bool.
From Webp Require Import Anim.Blend Anim.Canvas Anim.AnimDec Anim.AnimEncModel.
Import ListNotations.
Open Scope Z_scope.

(* Fully transparent pixels compare equal whatever their colour. *)
Definition norm_px (p : px) : px := if pa p =? 0 then px0 else p.
Definition norm_canvas (c : canvas) : canvas := map norm_px c.
Definition px_sim (p q : px) : Prop := norm_px p = norm_px q.

(* A show: pictures with display times.  [collapse] merges consecutive equal
   pictures (after normalisation) and adds their display times up. *)
Definition show := list (canvas * Z).

Definition push (acc : show) (e : canvas * Z) : show :=
  match acc with
  | (c, d) :: t => if canvas_eqb c (fst e) then (c, d + snd e) :: t else e :: acc
  | [] => [e]
  end.

Definition proj_show (pi : px -> px) (l : show) : show := map (fun e => (map pi (fst e), snd e)) l.

Definition collapse_rev_by (pi : px -> px) (l : show) : show := fold_left push (proj_show pi l) [].
Definition collapse_by (pi : px -> px) (l : show) : show := rev (collapse_rev_by pi l).
Definition collapse (l : show) : show := collapse_by norm_px l.

Definition total_time (l : show) : Z := fold_right (fun e s => snd e + s) 0 l.

(* The relation "~" of C08 between what is played and what was added. *)
Record same_show_by (pi : px -> px) (W H loop : Z) (out : output) (played added : show) : Prop := {
  ss_size : out_W out = W /\ out_H out = H;
  ss_pictures : map fst (collapse_by pi played) = map fst (collapse_by pi added);
  ss_timing : (2 <= length (collapse_by pi added))%nat ->
              collapse_by pi played = collapse_by pi added /\ out_loop out = loop /\ out_still out = false
}.
Definition same_show := same_show_by norm_px.

(* ------------------------------------------------------------------ *)
(* Domains                                                              *)

Definition wf_img (i : img) : Prop :=
  1 <= iw i /\ 1 <= ih i /\ Z.of_nat (length (ipix i)) = iw i * ih i /\ Forall wf_px (ipix i).

Definition wf_input (f : img * Z) : Prop := wf_img (fst f) /\ 0 <= snd f <= max_duration.

Definition wf_canvas_dims (W H : Z) : Prop :=
  1 <= W <= max_canvas_dimension /\ 1 <= H <= max_canvas_dimension.

(* Lossless frame codec: decode (encode i) is i up to the colour of fully
   transparent pixels (the encoder may clean those up). *)
Definition img_sim (a b : img) : Prop :=
  iw a = iw b /\ ih a = ih b /\ Forall2 px_sim (ipix a) (ipix b).

Definition codec_lossless (rt : img -> img) : Prop := forall i, wf_img i -> img_sim (rt i) i.

(* Lossy frame codec on the alpha-carrying path: size and alpha are exact. *)
Definition img_alpha_eq (a b : img) : Prop :=
  iw a = iw b /\ ih a = ih b /\ map pa (ipix a) = map pa (ipix b) /\ Forall wf_px (ipix a).

Definition codec_alpha_exact (rt : img -> img) : Prop := forall i, wf_img i -> img_alpha_eq (rt i) i.

(* ------------------------------------------------------------------ *)
(* C08, full statement for a code variant                               *)

Definition lossless_opts (o : eopts) : Prop :=
  eo_lossless o = true /\ eo_mixed o = false /\ 0 <= eo_loop o <= max_loop_count.

Definition anim_lossless_roundtrip_statement (fx : fixes) : Prop :=
  forall (rt_ll rt_ly : img -> img) (W H : Z) (opts : eopts) (frames : list (img * Z))
         (oracle : nat -> orc) (has_meta simple : bool) (st0 : est) (out : output),
    codec_lossless rt_ll ->
    wf_canvas_dims W H -> lossless_opts opts -> frames <> [] -> Forall wf_input frames ->
    new_encoder W H opts = Some st0 ->
    close has_meta simple (run_frames fx oracle st0 frames) = Some out ->
    same_show W H (eo_loop opts) out (playback rt_ll rt_ly fx out) (inputs_of W H frames).

(* ------------------------------------------------------------------ *)
(* C18, full statement for a code variant                               *)

(* the alpha plane of a picture, as a picture *)
Definition alpha_only (p : px) : px := mkpx 0 0 0 (pa p).

Definition alpha_opts (o : eopts) : Prop :=
  0 <= eo_quality o <= 100 /\ 0 <= eo_loop o <= max_loop_count.

(* Lossless in {false,true} x AllowMixed in {false,true}: the alpha planes of what
   is played are the alpha planes of what was added, picture by picture with the
   same display times (the C08 relation on the alpha channel). *)
Definition anim_alpha_preserved_statement (fx : fixes) : Prop :=
  forall (rt_ll rt_ly : img -> img) (W H : Z) (opts : eopts) (frames : list (img * Z))
         (oracle : nat -> orc) (has_meta simple : bool) (st0 : est) (out : output),
    codec_lossless rt_ll -> codec_alpha_exact rt_ly ->
    wf_canvas_dims W H -> alpha_opts opts -> frames <> [] -> Forall wf_input frames ->
    new_encoder W H opts = Some st0 ->
    close has_meta simple (run_frames fx oracle st0 frames) = Some out ->
    same_show_by alpha_only W H (eo_loop opts) out (playback rt_ll rt_ly fx out) (inputs_of W H frames).

(* ------------------------------------------------------------------ *)
(* AddFrame calls may fail (frame encoder error at chosen calls, muxer frame limit
   [maxf]): the file plays back exactly the frames of the calls that returned nil,
   with their display times.  [keep_dur] selects the order of operations in
   increasePreviousDuration (true: the code under test). *)

Definition anim_error_roundtrip_statement (keep_dur : bool) : Prop :=
  forall (rt_ll rt_ly : img -> img) (W H : Z) (opts : eopts) (frames : list (img * Z))
         (oracle : nat -> orc) (fails : nat -> efail) (maxf : Z) (has_meta simple : bool)
         (st0 stf : est) (acc : list (img * Z)) (out : output),
    codec_lossless rt_ll ->
    wf_canvas_dims W H -> lossless_opts opts -> Forall wf_input frames ->
    new_encoder W H opts = Some st0 ->
    run_e repaired keep_dur maxf oracle fails st0 frames = (stf, acc) ->
    close has_meta simple stf = Some out ->
    same_show W H (eo_loop opts) out (playback rt_ll rt_ly repaired out) (inputs_of W H acc).

Definition anim_error_alpha_statement (keep_dur : bool) : Prop :=
  forall (rt_ll rt_ly : img -> img) (W H : Z) (opts : eopts) (frames : list (img * Z))
         (oracle : nat -> orc) (fails : nat -> efail) (maxf : Z) (has_meta simple : bool)
         (st0 stf : est) (acc : list (img * Z)) (out : output),
    codec_lossless rt_ll -> codec_alpha_exact rt_ly ->
    wf_canvas_dims W H -> alpha_opts opts -> Forall wf_input frames ->
    new_encoder W H opts = Some st0 ->
    run_e repaired keep_dur maxf oracle fails st0 frames = (stf, acc) ->
    close has_meta simple stf = Some out ->
    same_show_by alpha_only W H (eo_loop opts) out (playback rt_ll rt_ly repaired out)
                 (inputs_of W H acc).

(* ------------------------------------------------------------------ *)
(* Histories that mix AddFrame with pre-encoded frames (AddRawFrame).  A raw frame is
   given by the picture its bitstream was encoded from (VP8L), an even offset inside the
   canvas, blend, dispose and a duration.  The expected show is [ref_show].
   [canvas_hyp] = true excludes the class of the known finding raw-frames:canvas-size:
   the whole history is a single raw frame of duration 0, smaller than the canvas, and no
   metadata is set (the muxer then writes a simple file whose canvas is the frame's size). *)

Definition wf_raw (W H : Z) (r : mrec) : Prop :=
  wf_img (m_img r) /\ m_lossy r = false /\
  0 <= m_x r /\ 0 <= m_y r /\ m_x r mod 2 = 0 /\ m_y r mod 2 = 0 /\
  m_x r + iw (m_img r) <= W /\ m_y r + ih (m_img r) <= H /\ 0 <= m_dur r <= max_duration.

Definition wf_op (W H : Z) (o : op) : Prop :=
  match o with OAdd f => wf_input f | ORaw r => wf_raw W H r end.

Definition lone_small_raw_ok (W H : Z) (has_meta : bool) (acc : list op) : Prop :=
  forall r, acc = [ORaw r] ->
    has_meta = true \/ 0 < m_dur r \/ (iw (m_img r) = W /\ ih (m_img r) = H).

Definition anim_mixed_roundtrip_statement (canvas_hyp : bool) : Prop :=
  forall (rt_ll rt_ly : img -> img) (W H : Z) (opts : eopts) (ops : list op)
         (oracle : nat -> orc) (fails : nat -> efail) (maxf : Z) (has_meta simple : bool)
         (st0 stf : est) (acc : list op) (out : output),
    codec_lossless rt_ll ->
    wf_canvas_dims W H -> lossless_opts opts -> Forall (wf_op W H) ops ->
    new_encoder W H opts = Some st0 ->
    run_ops repaired maxf oracle fails st0 ops = (stf, acc) ->
    (canvas_hyp = true -> lone_small_raw_ok W H has_meta acc) ->
    close has_meta simple stf = Some out ->
    same_show W H (eo_loop opts) out (playback rt_ll rt_ly repaired out)
              (ref_show W H (blank W H, None) acc).

Definition anim_mixed_alpha_statement : Prop :=
  forall (rt_ll rt_ly : img -> img) (W H : Z) (opts : eopts) (ops : list op)
         (oracle : nat -> orc) (fails : nat -> efail) (maxf : Z) (has_meta simple : bool)
         (st0 stf : est) (acc : list op) (out : output),
    codec_lossless rt_ll -> codec_alpha_exact rt_ly ->
    wf_canvas_dims W H -> alpha_opts opts -> Forall (wf_op W H) ops ->
    new_encoder W H opts = Some st0 ->
    run_ops repaired maxf oracle fails st0 ops = (stf, acc) ->
    lone_small_raw_ok W H has_meta acc ->
    close has_meta simple stf = Some out ->
    same_show_by alpha_only W H (eo_loop opts) out (playback rt_ll rt_ly repaired out)
                 (ref_show W H (blank W H, None) acc).
