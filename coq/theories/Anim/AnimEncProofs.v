(** The round-trip theorem of the AnimEncoder model, generically in a pixel
    projection [pi] (C08: colour under alpha 0 ignored; C18: alpha channel only):
    after any history of AddFrame calls and Close, what the decoder plays is the
    show that was added.  Proof by the invariant
      "the canvas the decoder shows after the frames emitted so far is prevCanvas"
      /\ "prevFrameRect is the rectangle of the muxer frame at prevMuxIndex"
      /\ duration bookkeeping ([push] equation). *)
From Coq Require Import List ZArith Lia Bool ZifyBool.
From Webp Require Import Anim.Blend Anim.Canvas Anim.AnimDec Anim.AnimDecProof
  Anim.AnimEncModel Anim.AnimEncSpec Anim.AnimEncLemmas.
Import ListNotations.
Open Scope Z_scope.

Ltac Zify.zify_post_hook ::= Z.div_mod_to_equations.

Lemma Forall2_nth_pi (pi : px -> px) l1 l2 :
  Forall2 (fun p q => pi p = pi q) l1 l2 -> forall k, pi (nth k l1 px0) = pi (nth k l2 px0).
Proof.
  induction 1 as [|p q l1 l2 Hpq _ IH]; intros [|k]; cbn [nth]; auto.
Qed.

Section Generic.
  Variable pi : px -> px.
  Hypothesis pi_blend : forall s s' d d',
    pi s = pi s' -> pi d = pi d' -> pi (blend_spec s d) = pi (blend_spec s' d').
  Hypothesis pi_zero : forall p q, pa p = 0 -> pa q = 0 -> pi p = pi q.

  Variables rt_ll rt_ly : img -> img.
  Variable fx : fixes.
  Hypothesis fx_blend : fix_blend fx = true.
  Hypothesis fx_filler : fix_filler fx = true.

  Definition img_psim (a b : img) : Prop :=
    iw a = iw b /\ ih a = ih b /\ Forall2 (fun p q => pi p = pi q) (ipix a) (ipix b).

  Variable lossy_fine : bool.
  Hypothesis Hdec : forall via r, wf_img (m_img r) -> (m_lossy r = true -> lossy_fine = true) ->
    img_psim (decoded rt_ll rt_ly fx via r) (m_img r).

  Variables W H : Z.
  Hypothesis HW : 1 <= W.
  Hypothesis HH : 1 <= H.

  Notation frame_of := (frame_of rt_ll rt_ly fx).

  Definition rec_ok (r : mrec) : Prop :=
    wf_img (m_img r) /\ (m_lossy r = true -> lossy_fine = true) /\
    0 <= m_x r /\ 0 <= m_y r /\ m_x r mod 2 = 0 /\ m_y r mod 2 = 0 /\
    m_x r + iw (m_img r) <= W /\ m_y r + ih (m_img r) <= H /\ 0 <= m_dur r <= max_duration.

  Definition rec_rect (r : mrec) : rect :=
    mkrect (m_x r) (m_y r) (m_x r + iw (m_img r)) (m_y r + ih (m_img r)).

  Lemma true_rect_frame_of via r : rec_ok r -> true_rect (frame_of via r) = rec_rect r.
  Proof.
    intros (Hwf & Hl & Hx & Hy & Hxe & Hye & _).
    destruct (Hdec via r Hwf Hl) as (Hw & Hh & _).
    unfold true_rect, frame_of, AnimEncModel.frame_of, rec_rect; cbn [Canvas.fx fy fw fh].
    rewrite Hw, Hh. f_equal; lia.
  Qed.

  (* ---------------------------------------------------------------- *)
  (* blend decisions are sound (repaired tests)                        *)

  Lemma lossless_ok_sound p t : lossless_px_ok true p t = true -> pi (blend_spec t p) = pi t.
  Proof.
    unfold lossless_px_ok. intros Hok. apply orb_true_iff in Hok as [Ha|Hb].
    - rewrite blend_src_opaque by lia. reflexivity.
    - apply andb_true_iff in Hb as [He Hz]. apply px_eqb_eq in He. subst p.
      cbn [negb orb] in Hz. rewrite blend_src_transparent by lia. reflexivity.
  Qed.

  Lemma lossy_ok_sound md p t : lossy_px_ok true md p t = true -> pi (blend_spec t p) = pi t.
  Proof.
    unfold lossy_px_ok. intros Hok. apply orb_true_iff in Hok as [Ha|Hb].
    - rewrite blend_src_opaque by lia. reflexivity.
    - apply andb_true_iff in Hb as [He Hz]. cbn [negb orb] in Hz.
      unfold pixels_similar in He. rewrite blend_src_transparent by lia.
      apply pi_zero; lia.
  Qed.

  (* ---------------------------------------------------------------- *)
  (* compositing one emitted frame                                     *)

  Lemma fget_frame_of via r x y :
    rec_ok r -> in_rect (rec_rect r) x y = true ->
    pi (fget (frame_of via r) (x - m_x r) (y - m_y r))
    = pi (nth (Z.to_nat ((y - m_y r) * iw (m_img r) + (x - m_x r))) (ipix (m_img r)) px0).
  Proof.
    intros Hok Hin. pose proof Hok as (Hwf & Hl & Hx & Hy & Hxe & Hye & _).
    destruct (Hdec via r Hwf Hl) as (Hw & Hh & HF).
    unfold fget, frame_of, AnimEncModel.frame_of; cbn [Canvas.fx fy fw fh fpix].
    rewrite Hw. apply Forall2_nth_pi. exact HF.
  Qed.

  (* [r] carries the pixels of [curr] inside its rectangle *)
  Definition carries (r : mrec) (curr : canvas) : Prop :=
    forall x y, in_rect (rec_rect r) x y = true ->
      nth (Z.to_nat ((y - m_y r) * iw (m_img r) + (x - m_x r))) (ipix (m_img r)) px0 = cget W curr x y.

  Lemma composite_sound via r c1 base curr :
    rec_ok r -> carries r curr -> psim pi W H c1 base ->
    (forall x y, 0 <= x < W -> 0 <= y < H -> in_rect (rec_rect r) x y = false ->
                 cget W base x y = cget W curr x y) ->
    (m_blend_none r = false -> forall x y, 0 <= x < W -> 0 <= y < H -> in_rect (rec_rect r) x y = true ->
                 pi (blend_spec (cget W curr x y) (cget W base x y)) = pi (cget W curr x y)) ->
    psim pi W H (composite W H c1 (frame_of via r)) curr.
  Proof.
    intros Hok Hcar Hsim Hout Hbl x y Hx Hy.
    unfold composite. rewrite cget_tab by lia.
    rewrite (true_rect_frame_of via r Hok).
    destruct (in_rect (rec_rect r) x y) eqn:Hin.
    - pose proof Hok as (Hwf & Hl & Hx0 & Hy0 & Hxe & Hye & _).
      assert (Efx : Canvas.fx (frame_of via r) = m_x r)
        by (unfold frame_of, AnimEncModel.frame_of; cbn [Canvas.fx]; lia).
      assert (Efy : Canvas.fy (frame_of via r) = m_y r)
        by (unfold frame_of, AnimEncModel.frame_of; cbn [Canvas.fy]; lia).
      rewrite Efx, Efy.
      pose proof (fget_frame_of via r x y Hok Hin) as Hf. rewrite (Hcar x y Hin) in Hf.
      replace (fblend_none (frame_of via r)) with (m_blend_none r) by reflexivity.
      destruct (m_blend_none r) eqn:Hbn; [exact Hf|].
      rewrite <- (Hbl eq_refl x y Hx Hy Hin).
      apply pi_blend; [exact Hf|]. apply Hsim; assumption.
    - rewrite (Hsim x y Hx Hy). f_equal. apply Hout; assumption.
  Qed.

  (* ---------------------------------------------------------------- *)
  (* well-formed canvases                                              *)

  Lemma iget_wf i x y : Forall wf_px (ipix i) -> wf_px (iget i x y).
  Proof.
    intros HF. unfold iget.
    destruct (nth_in_or_default (Z.to_nat (y * iw i + x)) (ipix i) px0) as [Hin|Hdef].
    - rewrite Forall_forall in HF. apply HF; exact Hin.
    - rewrite Hdef. apply wf_px0.
  Qed.

  Lemma wf_pad i : wf_img i -> wf_canvas W H (pad W H i).
  Proof.
    intros (_ & _ & _ & HF). apply wf_canvas_tab; [lia|]. intros x y _ _.
    destruct ((x <? iw i) && (y <? ih i)); [apply iget_wf; exact HF|apply wf_px0].
  Qed.

  Lemma wf_fill_impl c r : wf_canvas W H c -> wf_canvas W H (fill_impl W H c r).
  Proof.
    intros [_ Hc]. apply wf_canvas_tab; [lia|]. intros x y Hx Hy.
    destruct (in_rect _ x y); [apply wf_px0|apply Hc; assumption].
  Qed.

  Lemma in_rect_clip r x y : 0 <= x < W -> 0 <= y < H ->
    in_rect (intersect r (canvas_bounds W H)) x y = in_rect r x y.
  Proof.
    intros Hx Hy. unfold intersect, canvas_bounds, rect_empty; cbn [rx0 ry0 rx1 ry1].
    destruct ((Z.min (rx1 r) W <=? Z.max (rx0 r) 0) || (Z.min (ry1 r) H <=? Z.max (ry0 r) 0)) eqn:He;
      unfold in_rect; cbn [rx0 ry0 rx1 ry1]; lia.
  Qed.

  Lemma cget_fill_impl c r x y : 0 <= x < W -> 0 <= y < H ->
    cget W (fill_impl W H c r) x y = if in_rect r x y then px0 else cget W c x y.
  Proof.
    intros Hx Hy. unfold fill_impl. rewrite cget_tab by lia. rewrite in_rect_clip by assumption. reflexivity.
  Qed.

  Lemma cget_fill c r x y : 0 <= x < W -> 0 <= y < H ->
    cget W (fill W H c r) x y = if in_rect r x y then px0 else cget W c x y.
  Proof. intros Hx Hy. unfold fill. rewrite cget_tab by lia. reflexivity. Qed.

  (* ---------------------------------------------------------------- *)
  (* a sub-frame candidate                                             *)

  Lemma extract_sub_good curr r : good_rect W H r -> wf_canvas W H curr ->
    let im := extract_sub W curr r in
    iw im = rx1 r - rx0 r /\ ih im = ry1 r - ry0 r /\ wf_img im /\
    (forall x y, in_rect r x y = true ->
       nth (Z.to_nat ((y - ry0 r) * iw im + (x - rx0 r))) (ipix im) px0 = cget W curr x y).
  Proof.
    intros (Hx0 & Hx1 & Hy0 & Hy1) [Hlen Hwf]. cbn zeta. unfold extract_sub.
    destruct (Z.leb_spec (rx1 r - rx0 r) 0); [lia|]. destruct (Z.leb_spec (ry1 r - ry0 r) 0); [lia|].
    cbn [orb iw ih ipix]. set (w := rx1 r - rx0 r). set (h := ry1 r - ry0 r).
    split; [reflexivity|]. split; [reflexivity|]. split.
    - unfold wf_img; cbn [iw ih ipix]. repeat split; try lia.
      + rewrite tab_length. nia.
      + apply Forall_forall. intros p Hp. unfold tab in Hp. apply in_map_iff in Hp as (i & <- & Hi).
        apply zrange_In in Hi. apply Hwf.
        * assert (0 <= i mod w < w) by (apply Z.mod_pos_bound; lia). lia.
        * assert (0 <= i / w) by (apply Z.div_pos; lia).
          assert (i / w < h) by (apply Z.div_lt_upper_bound; lia). lia.
    - intros x y Hin. unfold in_rect in Hin.
      change (nth (Z.to_nat ((y - ry0 r) * w + (x - rx0 r)))
                  (tab w h (fun x0 y0 => cget W curr (rx0 r + x0) (ry0 r + y0))) px0)
        with (cget w (tab w h (fun x0 y0 => cget W curr (rx0 r + x0) (ry0 r + y0))) (x - rx0 r) (y - ry0 r)).
      rewrite cget_tab by lia. f_equal; lia.
  Qed.

  Variable op : eopts.

  Lemma candidate_sound base curr r bn im :
    wf_canvas W H base -> wf_canvas W H curr ->
    candidate fx op W H base curr = (r, bn, im) ->
    good_rect W H r /\ rx0 r mod 2 = 0 /\ ry0 r mod 2 = 0 /\
    im = extract_sub W curr r /\
    (forall x y, 0 <= x < W -> 0 <= y < H -> in_rect r x y = false -> cget W base x y = cget W curr x y) /\
    (bn = false -> forall x y, 0 <= x < W -> 0 <= y < H -> in_rect r x y = true ->
        pi (blend_spec (cget W curr x y) (cget W base x y)) = pi (cget W curr x y)).
  Proof.
    intros Hb Hc Hcand. unfold candidate in Hcand.
    set (r0 := find_changed_rect W H base curr) in *.
    set (r1 := if rect_empty r0 then go_rect 0 0 1 1 else r0) in *.
    assert (Hg1 : good_rect W H r1).
    { unfold r1. destruct (rect_empty r0) eqn:He; [apply good_unit; lia|].
      pose proof (changed_rect_inside W H base curr ltac:(lia) ltac:(lia)) as Hi. cbn zeta in Hi.
      fold r0 in Hi. unfold rect_empty in He. unfold good_rect. lia. }
    destruct (snap_clip_good W H r1 Hg1) as (Hg2 & Hex & Hey & Hcov).
    set (r2 := intersect (snap_to_even r1) (canvas_bounds W H)) in *.
    injection Hcand as <- <- <-.
    repeat split; try assumption; try apply Hg2.
    - intros x y Hx Hy Hin.
      destruct (px_diff W base curr x y) eqn:Hd; [|apply px_diff_false; exact Hd].
      pose proof (changed_rect_covers_diff W H base curr x y ltac:(lia) ltac:(lia) Hx Hy Hd) as Hin0.
      fold r0 in Hin0.
      assert (Hin1 : in_rect r1 x y = true).
      { unfold r1. destruct (rect_empty r0) eqn:He; [|exact Hin0].
        unfold rect_empty in He. unfold in_rect in Hin0. lia. }
      rewrite (Hcov x y Hin1) in Hin. discriminate.
    - intros Hbn x y Hx Hy Hin. apply negb_false_iff in Hbn.
      destruct (eo_lossless op).
      + rewrite rect_forall_spec in Hbn. specialize (Hbn x y Hin). rewrite fx_blend in Hbn.
        apply lossless_ok_sound. exact Hbn.
      + rewrite rect_forall_spec in Hbn. specialize (Hbn x y Hin). rewrite fx_blend in Hbn.
        eapply lossy_ok_sound. exact Hbn.
  Qed.

  (* ---------------------------------------------------------------- *)
  (* the invariant                                                     *)

  Hypothesis Hop : lossy_fine = false -> eo_lossless op = true /\ eo_mixed op = false.

  Lemma codec_lossy_fine alt : codec_lossy op alt = true -> lossy_fine = true.
  Proof.
    destruct lossy_fine; [reflexivity|]. destruct (Hop eq_refl) as [Hl Hm].
    unfold codec_lossy. rewrite Hl, Hm. cbn. discriminate.
  Qed.

  Definition frames_of (recs : list mrec) : list frame := map (frame_of false) recs.
  Definition s0 : dstate0 := (blank W H, None).
  Definition played (recs : list mrec) : show :=
    combine (spec_run W H (frames_of recs)) (map m_dur recs).
  (* canvas the decoder shows after [init ++ [last]] *)
  Definition cdec (init : list mrec) (last : mrec) : canvas :=
    fst (dstep W H (dfold W H s0 (frames_of init)) (frame_of false last)).

  Record invw (ins : list (img * Z)) (st : est)
              (init : list mrec) (last : mrec) (im : img) (ins' : list (img * Z)) (d : Z) : Prop := {
    i_W : e_W st = W;
    i_H : e_H st = H;
    i_op : e_opts st = op;
    i_recs : e_recs st = init ++ [last];
    i_pidx : e_pidx st = Z.of_nat (length init);
    i_disp : m_dispose_bg last = false;
    i_ok : Forall rec_ok (init ++ [last]);
    i_prect : forall x y, 0 <= x < W -> 0 <= y < H ->
                in_rect (e_prect st) x y = in_rect (rec_rect last) x y;
    i_prev : e_prev st = Some (pad W H im);
    i_ins : ins = ins' ++ [(im, d)];
    i_im : wf_img im;
    i_dec : psim pi W H (cdec init last) (pad W H im);
    i_show : push (collapse_rev_by pi (played init)) (map pi (cdec init last), m_dur last)
             = collapse_rev_by pi (inputs_of W H ins);
    i_fcount : e_fcount st = Z.of_nat (length (init ++ [last]))
  }.

  Definition inv (ins : list (img * Z)) (st : est) : Prop :=
    exists init last im ins' d, invw ins st init last im ins' d.

  Lemma cdec_length init last : length (cdec init last) = Z.to_nat (W * H).
  Proof. apply dstep_length. Qed.

  Lemma pad_length im : length (pad W H im) = Z.to_nat (W * H).
  Proof. apply tab_length. Qed.

  Lemma played_snoc init last :
    played (init ++ [last]) = played init ++ [(cdec init last, m_dur last)].
  Proof.
    unfold played, frames_of, spec_run. rewrite !map_app. cbn [map].
    rewrite spec_go_dfold. rewrite combine_snoc; [reflexivity|].
    rewrite spec_go_length, !map_length. reflexivity.
  Qed.

  Definition with_disp (b : bool) (r : mrec) : mrec :=
    mkmrec (m_x r) (m_y r) (m_img r) (m_lossy r) (m_blend_none r) b (m_dur r).
  Definition with_dur (d : Z) (r : mrec) : mrec :=
    mkmrec (m_x r) (m_y r) (m_img r) (m_lossy r) (m_blend_none r) (m_dispose_bg r) d.

  Lemma cdec_with_disp init last b : cdec init (with_disp b last) = cdec init last.
  Proof. reflexivity. Qed.
  Lemma cdec_with_dur init last d : cdec init (with_dur d last) = cdec init last.
  Proof. reflexivity. Qed.

  Lemma rec_ok_with_disp b r : rec_ok r -> rec_ok (with_disp b r).
  Proof. intros Hr. exact Hr. Qed.

  Lemma Forall_snoc {A} (P : A -> Prop) l a : Forall P (l ++ [a]) <-> Forall P l /\ P a.
  Proof.
    rewrite Forall_app. split; intros [H1 H2]; split; auto.
    - inversion H2; assumption.
  Qed.

  (* decoder state after [init ++ [with_disp b last]] *)
  Lemma dfold_last init last b : rec_ok last ->
    dfold W H s0 (frames_of (init ++ [with_disp b last])) = (cdec init last, Some (rec_rect last, b)).
  Proof.
    intros Hok. unfold frames_of. rewrite map_app. cbn [map]. rewrite dfold_snoc.
    unfold dstep at 1. f_equal. f_equal. f_equal.
    apply (true_rect_frame_of false (with_disp b last)). exact Hok.
  Qed.

  Lemma wf_canvas_Forall c : wf_canvas W H c -> Forall wf_px c.
  Proof.
    intros [Hlen Hwf]. rewrite <- (tab_cget W H c) by (try lia; exact Hlen).
    apply Forall_forall. intros p Hp. unfold tab in Hp. apply in_map_iff in Hp as (i & <- & Hi).
    apply zrange_In in Hi. apply Hwf.
    - apply Z.mod_pos_bound; lia.
    - split; [apply Z.div_pos; lia|]. apply Z.div_lt_upper_bound; lia.
  Qed.

  (* ---------------------------------------------------------------- *)
  (* a full-canvas key frame                                           *)

  Definition key_rec (curr : canvas) (lossy : bool) (dur : Z) : mrec :=
    mkmrec 0 0 (mkimg W H curr) lossy true false (clamp_dur dur).

  Lemma clamp_dur_id d : 0 <= d <= max_duration -> clamp_dur d = d.
  Proof. intros Hd. unfold clamp_dur. destruct (Z.ltb_spec d 0); [lia|]. destruct (Z.ltb_spec max_duration d); lia. Qed.

  Lemma key_rec_ok curr lossy dur : wf_canvas W H curr -> (lossy = true -> lossy_fine = true) ->
    0 <= dur <= max_duration -> rec_ok (key_rec curr lossy dur).
  Proof.
    intros Hc Hl Hd. unfold rec_ok, key_rec; cbn [m_img m_lossy m_x m_y m_dur iw ih].
    rewrite clamp_dur_id by assumption.
    repeat split; try lia; try assumption.
    - destruct Hc as [Hlen _]. cbn [ipix]. rewrite Hlen, Z2Nat.id by nia. reflexivity.
    - apply wf_canvas_Forall. exact Hc.
  Qed.

  Lemma key_sound curr lossy dur c1 : wf_canvas W H curr -> (lossy = true -> lossy_fine = true) ->
    0 <= dur <= max_duration ->
    psim pi W H (composite W H c1 (frame_of false (key_rec curr lossy dur))) curr.
  Proof.
    intros Hc Hl Hd.
    apply (composite_sound false (key_rec curr lossy dur) c1 c1 curr).
    - apply key_rec_ok; assumption.
    - intros x y Hin. unfold key_rec; cbn [m_x m_y m_img iw ipix]. unfold cget. f_equal. lia.
    - apply psim_refl.
    - intros x y Hx Hy Hin. unfold rec_rect, key_rec, in_rect in Hin; cbn in Hin. lia.
    - intros Hbn. discriminate.
  Qed.

  Lemma in_rect_key curr lossy dur x y : 0 <= x < W -> 0 <= y < H ->
    in_rect (go_rect 0 0 W H) x y = in_rect (rec_rect (key_rec curr lossy dur)) x y.
  Proof.
    intros Hx Hy. rewrite in_rect_go_rect by lia. unfold rec_rect, key_rec, in_rect; cbn. lia.
  Qed.

  Lemma with_disp_false r : m_dispose_bg r = false -> with_disp false r = r.
  Proof. destruct r; cbn. intros ->. reflexivity. Qed.

  Lemma clamp_dur_range d : 0 <= clamp_dur d <= max_duration.
  Proof.
    unfold clamp_dur, max_duration. destruct (Z.ltb_spec d 0); [lia|].
    destruct (Z.ltb_spec 16777215 d); lia.
  Qed.

  (* ---------------------------------------------------------------- *)
  (* appending a frame that shows a new picture                        *)

  Lemma inv_append ins st init last im ins' d b new im2 dur st' :
    invw ins st init last im ins' d ->
    e_W st' = W -> e_H st' = H -> e_opts st' = op ->
    e_recs st' = (init ++ [with_disp b last]) ++ [new] ->
    e_pidx st' = Z.of_nat (length (init ++ [with_disp b last])) ->
    m_dispose_bg new = false -> rec_ok new -> m_dur new = dur ->
    (forall x y, 0 <= x < W -> 0 <= y < H -> in_rect (e_prect st') x y = in_rect (rec_rect new) x y) ->
    e_prev st' = Some (pad W H im2) -> wf_img im2 ->
    e_fcount st' = e_fcount st + 1 ->
    psim pi W H (composite W H (if b then fill W H (cdec init last) (rec_rect last) else cdec init last)
                           (frame_of false new)) (pad W H im2) ->
    inv (ins ++ [(im2, dur)]) st'.
  Proof.
    intros Hi HW' HH' Hop' Hrecs Hpidx Hdisp Hok Hdur Hprect Hprev Him2 Hfc Hsim.
    destruct Hi.
    apply Forall_snoc in i_ok0 as [Hokinit Hoklast].
    assert (Hcd : cdec (init ++ [with_disp b last]) new
                  = composite W H (if b then fill W H (cdec init last) (rec_rect last) else cdec init last)
                              (frame_of false new)).
    { unfold cdec at 1. rewrite (dfold_last init last b Hoklast). unfold dstep; cbn [fst snd].
      destruct b; reflexivity. }
    exists (init ++ [with_disp b last]), new, im2, ins, dur.
    constructor; try assumption.
    - apply Forall_snoc. split; [|exact Hok]. apply Forall_snoc. split; [exact Hokinit|exact Hoklast].
    - reflexivity.
    - rewrite Hcd. exact Hsim.
    - rewrite played_snoc, collapse_rev_by_snoc. rewrite cdec_with_disp.
      change (m_dur (with_disp b last)) with (m_dur last). rewrite i_show0.
      unfold inputs_of at 2. rewrite map_app. cbn [map fst snd].
      change (map (fun f => (pad W H (fst f), snd f)) ins) with (inputs_of W H ins).
      rewrite collapse_rev_by_snoc. rewrite Hdur. f_equal. f_equal.
      apply (psim_map pi W H); try lia.
      + apply cdec_length.
      + apply pad_length.
      + rewrite Hcd. exact Hsim.
    - rewrite Hfc, i_fcount0. rewrite !app_length. cbn [length]. lia.
  Qed.

  (* ---------------------------------------------------------------- *)
  (* key frame after at least one frame                                *)

  Lemma step_keyframe ins st init last im ins' d im2 dur alt st1 :
    invw ins st init last im ins' d ->
    e_W st1 = W -> e_H st1 = H -> e_opts st1 = op -> e_recs st1 = e_recs st -> e_fcount st1 = e_fcount st ->
    wf_img im2 -> 0 <= dur <= max_duration ->
    inv (ins ++ [(im2, dur)]) (encode_keyframe st1 (pad W H im2) dur alt).
  Proof.
    intros Hi HW1 HH1 Hop1 Hrecs1 Hfc1 Him2 Hdur.
    pose proof Hi as Hi'. destruct Hi'.
    eapply (inv_append ins st init last im ins' d false
              (key_rec (pad W H im2) (codec_lossy op alt) dur) im2 dur); try exact Hi;
      unfold encode_keyframe; cbn [e_W e_H e_opts e_recs e_pidx e_prect e_prev e_fcount];
      rewrite ?HW1, ?HH1, ?Hop1, ?Hrecs1, ?Hfc1; try reflexivity; try assumption.
    - rewrite i_recs0. unfold mux_add, key_rec. rewrite (with_disp_false last i_disp0). reflexivity.
    - rewrite i_recs0. unfold mux_add. rewrite last_idx_last. rewrite (with_disp_false last i_disp0). reflexivity.
    - apply key_rec_ok; [apply wf_pad; exact Him2|apply codec_lossy_fine|exact Hdur].
    - unfold key_rec; cbn [m_dur]. apply clamp_dur_id. exact Hdur.
    - intros x y Hx Hy. apply in_rect_key; assumption.
    - apply key_sound; [apply wf_pad; exact Him2|apply codec_lossy_fine|exact Hdur].
  Qed.

  (* ---------------------------------------------------------------- *)
  (* the first frame                                                   *)

  Lemma step_first st0 im2 dur alt :
    e_W st0 = W -> e_H st0 = H -> e_opts st0 = op -> e_recs st0 = [] -> e_fcount st0 = 0 ->
    wf_img im2 -> 0 <= dur <= max_duration ->
    inv [(im2, dur)] (encode_keyframe st0 (pad W H im2) dur alt).
  Proof.
    intros HW0 HH0 Hop0 Hrecs0 Hfc0 Him2 Hdur.
    set (k := key_rec (pad W H im2) (codec_lossy op alt) dur).
    assert (Hk : rec_ok k)
      by (apply key_rec_ok; [apply wf_pad; exact Him2|apply codec_lossy_fine|exact Hdur]).
    assert (Hs : psim pi W H (cdec [] k) (pad W H im2)).
    { unfold cdec, frames_of, dfold, dstep; cbn [map fold_left fst snd s0].
      apply key_sound; [apply wf_pad; exact Him2|apply codec_lossy_fine|exact Hdur]. }
    exists [], k, im2, [], dur.
    constructor; unfold encode_keyframe; cbn [e_W e_H e_opts e_recs e_pidx e_prect e_prev e_fcount];
      rewrite ?HW0, ?HH0, ?Hop0, ?Hrecs0, ?Hfc0; try reflexivity; try assumption.
    - constructor; [exact Hk|constructor].
    - intros x y Hx Hy. apply in_rect_key; assumption.
    - unfold played, frames_of, spec_run, collapse_rev_by, proj_show, inputs_of.
      cbn [map spec_go combine fold_left push fst snd app].
      unfold k at 2, key_rec; cbn [m_dur]. rewrite clamp_dur_id by exact Hdur.
      f_equal. f_equal. apply (psim_map pi W H); try lia; [apply cdec_length|apply pad_length|exact Hs].
  Qed.

  (* ---------------------------------------------------------------- *)
  (* a sub-frame (either candidate), or the key-frame fallback         *)

  Definition sub_rec (r : rect) (im : img) (lossy bn : bool) (dur : Z) : mrec :=
    mkmrec (rx0 r) (ry0 r) im lossy bn false (clamp_dur dur).

  Lemma in_rect_sub_rec r curr lossy bn dur x y : good_rect W H r ->
    in_rect (rec_rect (sub_rec r (extract_sub W curr r) lossy bn dur)) x y = in_rect r x y.
  Proof.
    intros (Hx0 & Hx1 & Hy0 & Hy1). unfold rec_rect, sub_rec, extract_sub; cbn [m_x m_y m_img].
    destruct (Z.leb_spec (rx1 r - rx0 r) 0); [lia|]. destruct (Z.leb_spec (ry1 r - ry0 r) 0); [lia|].
    cbn [orb iw ih]. unfold in_rect; cbn [rx0 ry0 rx1 ry1]. lia.
  Qed.

  Lemma sub_sound c1 base curr r bn lossy dur :
    wf_canvas W H base -> wf_canvas W H curr ->
    good_rect W H r -> rx0 r mod 2 = 0 -> ry0 r mod 2 = 0 ->
    (lossy = true -> lossy_fine = true) -> 0 <= dur <= max_duration ->
    psim pi W H c1 base ->
    (forall x y, 0 <= x < W -> 0 <= y < H -> in_rect r x y = false -> cget W base x y = cget W curr x y) ->
    (bn = false -> forall x y, 0 <= x < W -> 0 <= y < H -> in_rect r x y = true ->
        pi (blend_spec (cget W curr x y) (cget W base x y)) = pi (cget W curr x y)) ->
    let new := sub_rec r (extract_sub W curr r) lossy bn dur in
    rec_ok new /\ psim pi W H (composite W H c1 (frame_of false new)) curr.
  Proof.
    intros Hb Hc Hg Hex Hey Hl Hd Hsim Hout Hbl new.
    destruct (extract_sub_good curr r Hg Hc) as (Ew & Eh & Hwf & Hcar).
    pose proof Hg as (Hx0 & Hx1 & Hy0 & Hy1).
    assert (Hok : rec_ok new).
    { unfold rec_ok, new, sub_rec; cbn [m_img m_lossy m_x m_y m_dur].
      rewrite Ew, Eh, clamp_dur_id by exact Hd.
      split; [exact Hwf|]. split; [exact Hl|]. repeat split; try lia; assumption. }
    split; [exact Hok|].
    apply (composite_sound false new c1 base curr Hok).
    - intros x y Hin. unfold new in Hin. rewrite in_rect_sub_rec in Hin by exact Hg.
      unfold new, sub_rec; cbn [m_x m_y m_img]. apply Hcar. exact Hin.
    - exact Hsim.
    - intros x y Hx Hy Hin. unfold new in Hin. rewrite in_rect_sub_rec in Hin by exact Hg. apply Hout; assumption.
    - intros Hbn x y Hx Hy Hin. unfold new in Hin. rewrite in_rect_sub_rec in Hin by exact Hg.
      apply Hbl; assumption.
  Qed.

  Lemma step_sub ins st init last im ins' d im2 dur o st1 :
    invw ins st init last im ins' d ->
    e_W st1 = W -> e_H st1 = H -> e_opts st1 = op -> e_recs st1 = e_recs st ->
    e_fcount st1 = e_fcount st -> e_pidx st1 = e_pidx st -> e_prect st1 = e_prect st ->
    wf_img im2 -> 0 <= dur <= max_duration ->
    inv (ins ++ [(im2, dur)]) (encode_sub_frame fx st1 (pad W H im) (pad W H im2) dur o).
  Proof.
    intros Hi HW1 HH1 Hop1 Hrecs1 Hfc1 Hpidx1 Hprect1 Him2 Hdur.
    pose proof Hi as Hi'. destruct Hi'.
    pose proof (proj2 (proj1 (Forall_snoc _ _ _) i_ok0)) as Hoklast.
    unfold encode_sub_frame. rewrite HW1, HH1, Hop1, Hrecs1, Hpidx1, Hprect1.
    set (prev := pad W H im). set (curr := pad W H im2).
    assert (Hwp : wf_canvas W H prev) by (apply wf_pad; exact i_im0).
    assert (Hwc : wf_canvas W H curr) by (apply wf_pad; exact Him2).
    destruct (candidate fx op W H prev curr) as [[rN bnN] imN] eqn:HcN.
    set (disposed := fill_impl W H prev (e_prect st)).
    assert (Hwd : wf_canvas W H disposed) by (apply wf_fill_impl; exact Hwp).
    destruct (candidate fx op W H disposed curr) as [[rB bnB] imB] eqn:HcB.
    destruct (candidate_sound prev curr rN bnN imN Hwp Hwc HcN) as (HgN & HexN & HeyN & -> & HoutN & HblN).
    destruct (candidate_sound disposed curr rB bnB imB Hwd Hwc HcB) as (HgB & HexB & HeyB & -> & HoutB & HblB).
    match goal with |- context [if ?c then encode_keyframe _ _ _ _ else _] => destruct c end.
    { eapply step_keyframe; eassumption. }
    assert (Hsimd : psim pi W H (fill W H (cdec init last) (rec_rect last)) disposed).
    { intros x y Hx Hy. unfold disposed. rewrite cget_fill, cget_fill_impl by assumption.
      rewrite (i_prect0 x y Hx Hy). destruct (in_rect (rec_rect last) x y); [reflexivity|].
      apply i_dec0; assumption. }
    destruct (oc_bg o) eqn:Hbg.
    - (* dispose-background candidate *)
      destruct (sub_sound (fill W H (cdec init last) (rec_rect last)) disposed curr rB bnB
                  (codec_lossy op (oc_alt_b o)) dur Hwd Hwc HgB HexB HeyB (codec_lossy_fine _) Hdur
                  Hsimd HoutB HblB) as [Hok Hs].
      eapply (inv_append ins st init last im ins' d true
                (sub_rec rB (extract_sub W curr rB) (codec_lossy op (oc_alt_b o)) bnB dur) im2 dur);
        try exact Hi; cbn [e_W e_H e_opts e_recs e_pidx e_prect e_prev e_fcount];
        rewrite ?Hfc1; try reflexivity; try assumption.
      + rewrite i_recs0, i_pidx0, mux_set_dispose_bg_last. reflexivity.
      + rewrite i_recs0, i_pidx0, mux_set_dispose_bg_last. unfold mux_add. rewrite last_idx_last.
        rewrite !app_length. reflexivity.
      + unfold sub_rec; cbn [m_dur]. apply clamp_dur_id. exact Hdur.
      + intros x y Hx Hy. rewrite in_rect_sub_rec by exact HgB. reflexivity.
    - (* dispose-none candidate *)
      destruct (sub_sound (cdec init last) prev curr rN bnN
                  (codec_lossy op (oc_alt_a o)) dur Hwp Hwc HgN HexN HeyN (codec_lossy_fine _) Hdur
                  i_dec0 HoutN HblN) as [Hok Hs].
      eapply (inv_append ins st init last im ins' d false
                (sub_rec rN (extract_sub W curr rN) (codec_lossy op (oc_alt_a o)) bnN dur) im2 dur);
        try exact Hi; cbn [e_W e_H e_opts e_recs e_pidx e_prect e_prev e_fcount];
        rewrite ?Hfc1; try reflexivity; try assumption.
      + rewrite i_recs0, (with_disp_false last i_disp0). reflexivity.
      + rewrite i_recs0, (with_disp_false last i_disp0). unfold mux_add. rewrite last_idx_last.
        rewrite !app_length. reflexivity.
      + unfold sub_rec; cbn [m_dur]. apply clamp_dur_id. exact Hdur.
      + intros x y Hx Hy. rewrite in_rect_sub_rec by exact HgN. reflexivity.
  Qed.

  (* ---------------------------------------------------------------- *)
  (* a repeated picture: duration extension and the overflow filler    *)

  Lemma show_dup A c d0 dur ins im2 :
    push A (c, d0) = collapse_rev_by pi (inputs_of W H ins) ->
    map pi (pad W H im2) = c ->
    push A (c, d0 + dur) = collapse_rev_by pi (inputs_of W H (ins ++ [(im2, dur)])).
  Proof.
    intros Hs Hc. unfold inputs_of. rewrite map_app. cbn [map fst snd].
    change (map (fun f => (pad W H (fst f), snd f)) ins) with (inputs_of W H ins).
    rewrite collapse_rev_by_snoc, <- Hs, push_add, Hc.
    destruct (push_head A c d0) as (d1 & t & E). rewrite E. rewrite push_same_head. reflexivity.
  Qed.

  Definition filler_rec (lossy : bool) (dur : Z) : mrec :=
    mkmrec 0 0 (mkimg 1 1 [px0]) lossy false false (clamp_dur dur).

  Lemma filler_ok lossy dur : (lossy = true -> lossy_fine = true) -> rec_ok (filler_rec lossy dur).
  Proof.
    intros Hl. unfold rec_ok, filler_rec; cbn [m_img m_lossy m_x m_y m_dur iw ih].
    split. { unfold wf_img; cbn. repeat split; try lia. constructor; [apply wf_px0|constructor]. }
    split; [exact Hl|]. pose proof (clamp_dur_range dur). repeat split; try lia; reflexivity.
  Qed.

  Lemma filler_sound lossy dur c1 : (lossy = true -> lossy_fine = true) ->
    psim pi W H (composite W H c1 (frame_of false (filler_rec lossy dur))) c1.
  Proof.
    intros Hl x y Hx Hy. pose proof (filler_ok lossy dur Hl) as Hok.
    unfold composite. rewrite cget_tab by lia. rewrite (true_rect_frame_of false _ Hok).
    destruct (in_rect (rec_rect (filler_rec lossy dur)) x y) eqn:Hin; [|reflexivity].
    assert (Efx : Canvas.fx (frame_of false (filler_rec lossy dur)) = 0) by reflexivity.
    assert (Efy : Canvas.fy (frame_of false (filler_rec lossy dur)) = 0) by reflexivity.
    rewrite Efx, Efy.
    pose proof (fget_frame_of false _ x y Hok Hin) as Hf.
    cbn [filler_rec m_x m_y m_img iw ipix] in Hf.
    assert (Hn : forall k, nth k [px0] px0 = px0) by (intros [|[|k]]; reflexivity).
    rewrite Hn in Hf.
    change (fblend_none (frame_of false (filler_rec lossy dur))) with false. cbv iota.
    rewrite (pi_blend _ px0 _ (cget W c1 x y) Hf eq_refl).
    rewrite blend_src_transparent by reflexivity. reflexivity.
  Qed.

  Lemma rec_ok_with_dur r d : rec_ok r -> 0 <= d <= max_duration -> rec_ok (with_dur d r).
  Proof.
    intros (H1 & H2 & H3 & H4 & H5 & H6 & H7 & H8 & _) Hd.
    unfold rec_ok, with_dur; cbn [m_img m_lossy m_x m_y m_dur]. repeat split; try assumption; lia.
  Qed.

  Lemma step_dup ins st init last im ins' d im2 dur o :
    invw ins st init last im ins' d ->
    wf_img im2 -> 0 <= dur <= max_duration -> pad W H im2 = pad W H im ->
    inv (ins ++ [(im2, dur)]) (increase_prev_duration fx st dur o).
  Proof.
    intros Hi Him2 Hdur Hpad. pose proof Hi as Hi'. destruct Hi'.
    pose proof (proj1 (Forall_snoc _ _ _) i_ok0) as [Hokinit Hoklast].
    pose proof Hoklast as (_ & _ & _ & _ & _ & _ & _ & _ & Hdl).
    assert (Hc : map pi (pad W H im2) = map pi (cdec init last)).
    { rewrite Hpad. symmetry. apply (psim_map pi W H); try lia;
        [apply cdec_length|apply pad_length|exact i_dec0]. }
    unfold increase_prev_duration. rewrite i_recs0, i_pidx0, mux_dur_last.
    destruct (Z.ltb_spec (m_dur last + dur) max_duration) as [Hlt|Hge].
    - (* extend the previous frame *)
      rewrite mux_set_dur_last, clamp_dur_id by lia.
      exists init, (with_dur (m_dur last + dur) last), im2, ins, dur.
      constructor; cbn [e_W e_H e_opts e_recs e_pidx e_prect e_prev e_fcount]; try assumption; try reflexivity.
      + apply Forall_snoc. split; [exact Hokinit|]. apply rec_ok_with_dur; [exact Hoklast|lia].
      + rewrite i_prev0, Hpad. reflexivity.
      + rewrite cdec_with_dur, Hpad. exact i_dec0.
      + rewrite cdec_with_dur. cbn [with_dur m_dur]. apply show_dup; [exact i_show0|exact Hc].
      + rewrite i_fcount0, !app_length. reflexivity.
    - (* cap it and emit the 1x1 filler *)
      rewrite mux_set_dur_last. unfold mux_add.
      assert (Hcm : clamp_dur max_duration = max_duration) by (apply clamp_dur_id; unfold max_duration; lia).
      rewrite Hcm.
      set (last' := with_dur max_duration last).
      set (fl := filler_rec (codec_lossy op (oc_alt_a o)) (m_dur last + dur - max_duration)).
      assert (Hokl' : rec_ok last') by (apply rec_ok_with_dur; [exact Hoklast|unfold max_duration; lia]).
      assert (Hokf : rec_ok fl) by (apply filler_ok, codec_lossy_fine).
      assert (Hcd : cdec (init ++ [last']) fl = composite W H (cdec init last) (frame_of false fl)).
      { unfold cdec at 1. rewrite <- (with_disp_false last') by exact i_disp0.
        rewrite (dfold_last init last' false Hokl'). reflexivity. }
      assert (Hsf : psim pi W H (cdec (init ++ [last']) fl) (cdec init last)).
      { rewrite Hcd. apply filler_sound, codec_lossy_fine. }
      exists (init ++ [last']), fl, im2, ins, dur.
      constructor; cbn [e_W e_H e_opts e_recs e_pidx e_prect e_prev e_fcount]; try assumption; try reflexivity.
      + rewrite i_op0. reflexivity.
      + rewrite i_op0, last_idx_last. reflexivity.
      + apply Forall_snoc. split; [|exact Hokf]. apply Forall_snoc. split; assumption.
      + intros x y Hx Hy. rewrite fx_filler. rewrite in_rect_go_rect by lia.
        unfold rec_rect, fl, filler_rec, in_rect; cbn. lia.
      + rewrite i_prev0, Hpad. reflexivity.
      + rewrite Hpad. eapply psim_trans; [exact Hsf|exact i_dec0].
      + rewrite played_snoc, collapse_rev_by_snoc.
        change (cdec init last') with (cdec init last). change (m_dur last') with max_duration.
        assert (Hcf : map pi (cdec (init ++ [last']) fl) = map pi (cdec init last)).
        { apply (psim_map pi W H); try lia; [apply cdec_length|apply cdec_length|exact Hsf]. }
        rewrite Hcf.
        destruct (push_head (collapse_rev_by pi (played init)) (map pi (cdec init last)) max_duration)
          as (d1 & t & E).
        rewrite E, push_same_head, <- E, <- push_add.
        unfold fl, filler_rec; cbn [m_dur]. rewrite clamp_dur_id by (unfold max_duration in *; lia).
        replace (max_duration + (m_dur last + dur - max_duration)) with (m_dur last + dur) by lia.
        apply show_dup; [exact i_show0|exact Hc].
      + rewrite i_fcount0, !app_length. cbn [length]. lia.
  Qed.
End Generic.
