(** The round-trip theorem of the AnimEncoder model, generically in a pixel
    projection [pi] (C08: colour under alpha 0 ignored; C18: alpha channel only):
    after any history of AddFrame calls and Close, what the decoder plays is the
    show that was added.  Proof by the invariant
      "the canvas the decoder shows after the frames emitted so far is prevCanvas"
      /\ "prevFrameRect is the rectangle of the muxer frame at prevMuxIndex"
      /\ duration bookkeeping ([push] equation). *)
From Coq Require Import List ZArith Lia Bool ZifyBool.
From Webp Require Import Anim.Blend Anim.Canvas Anim.AnimDec Anim.AnimDecProof
  Anim.AnimEncModel Anim.AnimEncSpec Anim.AnimEncLemmas.
Import ListNotations.
Open Scope Z_scope.

Ltac Zify.zify_post_hook ::= Z.div_mod_to_equations.

Lemma Forall2_nth_pi (pi : px -> px) l1 l2 :
  Forall2 (fun p q => pi p = pi q) l1 l2 -> forall k, pi (nth k l1 px0) = pi (nth k l2 px0).
Proof.
  induction 1 as [|p q l1 l2 Hpq _ IH]; intros [|k]; cbn [nth]; auto.
Qed.

Section Generic.
  Variable pi : px -> px.
  Hypothesis pi_blend : forall s s' d d',
    pi s = pi s' -> pi d = pi d' -> pi (blend_spec s d) = pi (blend_spec s' d').
  Hypothesis pi_zero : forall p q, pa p = 0 -> pa q = 0 -> pi p = pi q.

  Variables rt_ll rt_ly : img -> img.
  Variable fx : fixes.
  Hypothesis fx_blend : fix_blend fx = true.
  Hypothesis fx_filler : fix_filler fx = true.

  Definition img_psim (a b : img) : Prop :=
    iw a = iw b /\ ih a = ih b /\ Forall2 (fun p q => pi p = pi q) (ipix a) (ipix b).

  Variable lossy_fine : bool.
  Hypothesis Hdec : forall via r, wf_img (m_img r) -> (m_lossy r = true -> lossy_fine = true) ->
    img_psim (decoded rt_ll rt_ly fx via r) (m_img r).

  Variables W H : Z.
  Hypothesis HW : 1 <= W.
  Hypothesis HH : 1 <= H.

  Notation frame_of := (frame_of rt_ll rt_ly fx).

  Definition rec_ok (r : mrec) : Prop :=
    wf_img (m_img r) /\ (m_lossy r = true -> lossy_fine = true) /\
    0 <= m_x r /\ 0 <= m_y r /\ m_x r mod 2 = 0 /\ m_y r mod 2 = 0 /\
    m_x r + iw (m_img r) <= W /\ m_y r + ih (m_img r) <= H /\ 0 <= m_dur r <= max_duration.

  Definition rec_rect (r : mrec) : rect :=
    mkrect (m_x r) (m_y r) (m_x r + iw (m_img r)) (m_y r + ih (m_img r)).

  Lemma true_rect_frame_of via r : rec_ok r -> true_rect (frame_of via r) = rec_rect r.
  Proof.
    intros (Hwf & Hl & Hx & Hy & Hxe & Hye & _).
    destruct (Hdec via r Hwf Hl) as (Hw & Hh & _).
    unfold true_rect, frame_of, AnimEncModel.frame_of, rec_rect; cbn [Canvas.fx fy fw fh].
    rewrite Hw, Hh. f_equal; lia.
  Qed.

  (* ---------------------------------------------------------------- *)
  (* blend decisions are sound (repaired tests)                        *)

  (* clearKeptPixels on one pixel: [b] canvas underneath, [t] target *)
  Definition kept (b t : px) : px :=
    if negb (pa t =? 255) && negb (pa t =? 0) && (pa t =? pa b) then px0 else t.

  Lemma lossless_ok_sound b t : lossless_px_ok b t = true -> pi (blend_spec (kept b t) b) = pi t.
  Proof.
    unfold lossless_px_ok, kept. intros Hok.
    destruct (Z.eqb_spec (pa t) 255) as [Ha|Ha].
    { cbn [negb andb]. rewrite blend_src_opaque by exact Ha. reflexivity. }
    cbn [orb] in Hok. apply px_eqb_eq in Hok. subst b. cbn [negb andb].
    destruct (Z.eqb_spec (pa t) 0) as [Hz|Hz]; cbn [negb andb].
    - rewrite blend_src_transparent by exact Hz. reflexivity.
    - rewrite Z.eqb_refl. rewrite blend_src_transparent by reflexivity. reflexivity.
  Qed.

  Variable op : eopts.
  (* in lossy mode kept pixels are only similar; the projection must not see the
     difference (true of the alpha projection; vacuous for lossless sessions) *)
  Hypothesis pi_similar : eo_lossless op = false ->
    forall md p t, pixels_similar p t md = true -> pi p = pi t.

  Lemma lossy_ok_sound md b t : eo_lossless op = false ->
    lossy_px_ok md b t = true -> pi (blend_spec (kept b t) b) = pi t.
  Proof.
    unfold lossy_px_ok, kept. intros Hll Hok.
    destruct (Z.eqb_spec (pa t) 255) as [Ha|Ha].
    { cbn [negb andb]. rewrite blend_src_opaque by exact Ha. reflexivity. }
    cbn [orb] in Hok. pose proof (pi_similar Hll md b t Hok) as Hpi.
    assert (Hal : pa b = pa t) by (unfold pixels_similar in Hok; lia).
    cbn [negb andb].
    destruct (Z.eqb_spec (pa t) 0) as [Hz|Hz]; cbn [negb andb].
    - rewrite blend_src_transparent by exact Hz. exact Hpi.
    - destruct (Z.eqb_spec (pa t) (pa b)); [|lia].
      rewrite blend_src_transparent by reflexivity. exact Hpi.
  Qed.

  (* ---------------------------------------------------------------- *)
  (* compositing one emitted frame                                     *)

  Lemma fget_frame_of via r x y :
    rec_ok r -> in_rect (rec_rect r) x y = true ->
    pi (fget (frame_of via r) (x - m_x r) (y - m_y r))
    = pi (nth (Z.to_nat ((y - m_y r) * iw (m_img r) + (x - m_x r))) (ipix (m_img r)) px0).
  Proof.
    intros Hok Hin. pose proof Hok as (Hwf & Hl & Hx & Hy & Hxe & Hye & _).
    destruct (Hdec via r Hwf Hl) as (Hw & Hh & HF).
    unfold fget, frame_of, AnimEncModel.frame_of; cbn [Canvas.fx fy fw fh fpix].
    rewrite Hw. apply Forall2_nth_pi. exact HF.
  Qed.

  (* the stored picture of [r], in canvas coordinates *)
  Definition content (r : mrec) (x y : Z) : px :=
    nth (Z.to_nat ((y - m_y r) * iw (m_img r) + (x - m_x r))) (ipix (m_img r)) px0.

  Lemma composite_sound via r c1 base curr :
    rec_ok r -> psim pi W H c1 base ->
    (forall x y, 0 <= x < W -> 0 <= y < H -> in_rect (rec_rect r) x y = false ->
                 cget W base x y = cget W curr x y) ->
    (m_blend_none r = true -> forall x y, 0 <= x < W -> 0 <= y < H -> in_rect (rec_rect r) x y = true ->
                 pi (content r x y) = pi (cget W curr x y)) ->
    (m_blend_none r = false -> forall x y, 0 <= x < W -> 0 <= y < H -> in_rect (rec_rect r) x y = true ->
                 pi (blend_spec (content r x y) (cget W base x y)) = pi (cget W curr x y)) ->
    psim pi W H (composite W H c1 (frame_of via r)) curr.
  Proof.
    intros Hok Hsim Hout Hnb Hbl x y Hx Hy.
    unfold composite. rewrite cget_tab by lia.
    rewrite (true_rect_frame_of via r Hok).
    destruct (in_rect (rec_rect r) x y) eqn:Hin.
    - pose proof Hok as (Hwf & Hl & Hx0 & Hy0 & Hxe & Hye & _).
      assert (Efx : Canvas.fx (frame_of via r) = m_x r)
        by (unfold frame_of, AnimEncModel.frame_of; cbn [Canvas.fx]; lia).
      assert (Efy : Canvas.fy (frame_of via r) = m_y r)
        by (unfold frame_of, AnimEncModel.frame_of; cbn [Canvas.fy]; lia).
      rewrite Efx, Efy.
      pose proof (fget_frame_of via r x y Hok Hin) as Hf. fold (content r x y) in Hf.
      replace (fblend_none (frame_of via r)) with (m_blend_none r) by reflexivity.
      destruct (m_blend_none r) eqn:Hbn.
      + rewrite Hf. apply Hnb; auto.
      + rewrite <- (Hbl eq_refl x y Hx Hy Hin).
        apply pi_blend; [exact Hf|]. apply Hsim; assumption.
    - rewrite (Hsim x y Hx Hy). f_equal. apply Hout; assumption.
  Qed.

  (* ---------------------------------------------------------------- *)
  (* well-formed canvases                                              *)

  Lemma iget_wf i x y : Forall wf_px (ipix i) -> wf_px (iget i x y).
  Proof.
    intros HF. unfold iget.
    destruct (nth_in_or_default (Z.to_nat (y * iw i + x)) (ipix i) px0) as [Hin|Hdef].
    - rewrite Forall_forall in HF. apply HF; exact Hin.
    - rewrite Hdef. apply wf_px0.
  Qed.

  Lemma wf_pad i : wf_img i -> wf_canvas W H (pad W H i).
  Proof.
    intros (_ & _ & _ & HF). apply wf_canvas_tab; [lia|]. intros x y _ _.
    destruct ((x <? iw i) && (y <? ih i)); [apply iget_wf; exact HF|apply wf_px0].
  Qed.

  Lemma wf_fill_impl c r : wf_canvas W H c -> wf_canvas W H (fill_impl W H c r).
  Proof.
    intros [_ Hc]. apply wf_canvas_tab; [lia|]. intros x y Hx Hy.
    destruct (in_rect _ x y); [apply wf_px0|apply Hc; assumption].
  Qed.

  Lemma in_rect_clip r x y : 0 <= x < W -> 0 <= y < H ->
    in_rect (intersect r (canvas_bounds W H)) x y = in_rect r x y.
  Proof.
    intros Hx Hy. unfold intersect, canvas_bounds, rect_empty; cbn [rx0 ry0 rx1 ry1].
    destruct ((Z.min (rx1 r) W <=? Z.max (rx0 r) 0) || (Z.min (ry1 r) H <=? Z.max (ry0 r) 0)) eqn:He;
      unfold in_rect; cbn [rx0 ry0 rx1 ry1]; lia.
  Qed.

  Lemma cget_fill_impl c r x y : 0 <= x < W -> 0 <= y < H ->
    cget W (fill_impl W H c r) x y = if in_rect r x y then px0 else cget W c x y.
  Proof.
    intros Hx Hy. unfold fill_impl. rewrite cget_tab by lia. rewrite in_rect_clip by assumption. reflexivity.
  Qed.

  Lemma cget_fill c r x y : 0 <= x < W -> 0 <= y < H ->
    cget W (fill W H c r) x y = if in_rect r x y then px0 else cget W c x y.
  Proof. intros Hx Hy. unfold fill. rewrite cget_tab by lia. reflexivity. Qed.

  (* ---------------------------------------------------------------- *)
  (* a sub-frame candidate                                             *)

  Lemma extract_sub_good curr r : good_rect W H r -> wf_canvas W H curr ->
    let im := extract_sub W curr r in
    iw im = rx1 r - rx0 r /\ ih im = ry1 r - ry0 r /\ wf_img im /\
    (forall x y, in_rect r x y = true ->
       nth (Z.to_nat ((y - ry0 r) * iw im + (x - rx0 r))) (ipix im) px0 = cget W curr x y).
  Proof.
    intros (Hx0 & Hx1 & Hy0 & Hy1) [Hlen Hwf]. cbn zeta. unfold extract_sub.
    destruct (Z.leb_spec (rx1 r - rx0 r) 0); [lia|]. destruct (Z.leb_spec (ry1 r - ry0 r) 0); [lia|].
    cbn [orb iw ih ipix]. set (w := rx1 r - rx0 r). set (h := ry1 r - ry0 r).
    split; [reflexivity|]. split; [reflexivity|]. split.
    - unfold wf_img; cbn [iw ih ipix]. repeat split; try lia.
      + rewrite tab_length. nia.
      + apply Forall_forall. intros p Hp. unfold tab in Hp. apply in_map_iff in Hp as (i & <- & Hi).
        apply zrange_In in Hi. apply Hwf.
        * assert (0 <= i mod w < w) by (apply Z.mod_pos_bound; lia). lia.
        * assert (0 <= i / w) by (apply Z.div_pos; lia).
          assert (i / w < h) by (apply Z.div_lt_upper_bound; lia). lia.
    - intros x y Hin. unfold in_rect in Hin.
      change (nth (Z.to_nat ((y - ry0 r) * w + (x - rx0 r)))
                  (tab w h (fun x0 y0 => cget W curr (rx0 r + x0) (ry0 r + y0))) px0)
        with (cget w (tab w h (fun x0 y0 => cget W curr (rx0 r + x0) (ry0 r + y0))) (x - rx0 r) (y - ry0 r)).
      rewrite cget_tab by lia. f_equal; lia.
  Qed.

  Lemma clear_kept_good base curr r : good_rect W H r -> wf_canvas W H curr ->
    let im := clear_kept W (extract_sub W curr r) base r in
    iw im = rx1 r - rx0 r /\ ih im = ry1 r - ry0 r /\ wf_img im /\
    (forall x y, in_rect r x y = true ->
       nth (Z.to_nat ((y - ry0 r) * iw im + (x - rx0 r))) (ipix im) px0
       = kept (cget W base x y) (cget W curr x y)).
  Proof.
    intros Hg Hc. destruct (extract_sub_good curr r Hg Hc) as (Ew & Eh & Hwf & Hcar).
    pose proof Hg as (Hx0 & Hx1 & Hy0 & Hy1). cbn zeta.
    set (sub := extract_sub W curr r) in *.
    unfold clear_kept; cbn [iw ih ipix]. rewrite Ew, Eh.
    set (w := rx1 r - rx0 r). set (h := ry1 r - ry0 r).
    split; [reflexivity|]. split; [reflexivity|]. split.
    - unfold wf_img; cbn [iw ih ipix]. repeat split; try lia.
      + rewrite tab_length. nia.
      + apply Forall_forall. intros p Hp. unfold tab in Hp. apply in_map_iff in Hp as (i & <- & Hi).
        destruct Hwf as (_ & _ & _ & HF).
        match goal with |- wf_px (if ?c then _ else _) => destruct c end;
          [apply wf_px0|apply iget_wf; exact HF].
    - intros x y Hin. pose proof Hin as Hin'. unfold in_rect in Hin'.
      match goal with |- nth ?k (tab w h ?g) px0 = _ =>
        change (nth k (tab w h g) px0) with (cget w (tab w h g) (x - rx0 r) (y - ry0 r)) end.
      rewrite cget_tab by lia.
      assert (Ei : iget sub (x - rx0 r) (y - ry0 r) = cget W curr x y).
      { unfold iget. apply Hcar. exact Hin. }
      rewrite Ei.
      replace (rx0 r + (x - rx0 r)) with x by lia. replace (ry0 r + (y - ry0 r)) with y by lia.
      unfold kept.
      destruct (Z.ltb_spec x (rx1 r)); [|lia]. destruct (Z.ltb_spec y (ry1 r)); [|lia].
      reflexivity.
  Qed.

  Lemma candidate_sound base curr r bn im :
    wf_canvas W H base -> wf_canvas W H curr ->
    candidate fx op W H base curr = (r, bn, im) ->
    good_rect W H r /\ rx0 r mod 2 = 0 /\ ry0 r mod 2 = 0 /\
    iw im = rx1 r - rx0 r /\ ih im = ry1 r - ry0 r /\ wf_img im /\
    (forall x y, 0 <= x < W -> 0 <= y < H -> in_rect r x y = false -> cget W base x y = cget W curr x y) /\
    (bn = true -> forall x y, in_rect r x y = true ->
        nth (Z.to_nat ((y - ry0 r) * iw im + (x - rx0 r))) (ipix im) px0 = cget W curr x y) /\
    (bn = false -> forall x y, 0 <= x < W -> 0 <= y < H -> in_rect r x y = true ->
        pi (blend_spec (nth (Z.to_nat ((y - ry0 r) * iw im + (x - rx0 r))) (ipix im) px0) (cget W base x y))
        = pi (cget W curr x y)).
  Proof.
    intros Hb Hc Hcand. unfold candidate in Hcand.
    set (r0 := find_changed_rect W H base curr) in *.
    set (r1 := if rect_empty r0 then go_rect 0 0 1 1 else r0) in *.
    assert (Hg1 : good_rect W H r1).
    { unfold r1. destruct (rect_empty r0) eqn:He; [apply good_unit; lia|].
      pose proof (changed_rect_inside W H base curr ltac:(lia) ltac:(lia)) as Hi. cbn zeta in Hi.
      fold r0 in Hi. unfold rect_empty in He. unfold good_rect. lia. }
    destruct (snap_clip_good W H r1 Hg1) as (Hg2 & Hex & Hey & Hcov).
    set (r2 := intersect (snap_to_even r1) (canvas_bounds W H)) in *.
    rewrite fx_blend in Hcand. cbn [andb] in Hcand.
    set (ok := if eo_lossless op
               then rect_forall r2 (fun x y => lossless_px_ok (cget W base x y) (cget W curr x y))
               else rect_forall r2 (fun x y => lossy_px_ok (quality_to_max_diff (eo_quality op))
                                                          (cget W base x y) (cget W curr x y))) in *.
    injection Hcand as <- <- <-.
    assert (Hout : forall x y, 0 <= x < W -> 0 <= y < H -> in_rect r2 x y = false ->
                     cget W base x y = cget W curr x y).
    { intros x y Hx Hy Hin.
      destruct (px_diff W base curr x y) eqn:Hd; [|apply px_diff_false; exact Hd].
      pose proof (changed_rect_covers_diff W H base curr x y ltac:(lia) ltac:(lia) Hx Hy Hd) as Hin0.
      fold r0 in Hin0.
      assert (Hin1 : in_rect r1 x y = true).
      { unfold r1. destruct (rect_empty r0) eqn:He; [|exact Hin0].
        unfold rect_empty in He. unfold in_rect in Hin0. lia. }
      rewrite (Hcov x y Hin1) in Hin. discriminate. }
    destruct ok eqn:Hok; cbn [negb].
    - destruct (clear_kept_good base curr r2 Hg2 Hc) as (Ew & Eh & Hwf & Hcar).
      split; [exact Hg2|]. split; [exact Hex|]. split; [exact Hey|]. split; [exact Ew|].
      split; [exact Eh|]. split; [exact Hwf|]. split; [exact Hout|]. split; [discriminate|].
      intros _ x y Hx Hy Hin. rewrite (Hcar x y Hin). unfold ok in Hok.
      case_eq (eo_lossless op); intros Hll; rewrite Hll in Hok.
      + rewrite rect_forall_spec in Hok. apply lossless_ok_sound. apply (Hok x y Hin).
      + rewrite rect_forall_spec in Hok. eapply lossy_ok_sound; [exact Hll|]. apply (Hok x y Hin).
    - destruct (extract_sub_good curr r2 Hg2 Hc) as (Ew & Eh & Hwf & Hcar).
      split; [exact Hg2|]. split; [exact Hex|]. split; [exact Hey|]. split; [exact Ew|].
      split; [exact Eh|]. split; [exact Hwf|]. split; [exact Hout|].
      split; [|discriminate]. intros _ x y Hin. apply Hcar. exact Hin.
  Qed.

  (* ---------------------------------------------------------------- *)
  (* the invariant                                                     *)

  Hypothesis Hop : lossy_fine = false -> eo_lossless op = true /\ eo_mixed op = false.

  Lemma codec_lossy_fine alt : codec_lossy op alt = true -> lossy_fine = true.
  Proof.
    destruct lossy_fine; [reflexivity|]. destruct (Hop eq_refl) as [Hl Hm].
    unfold codec_lossy. rewrite Hl, Hm. cbn. discriminate.
  Qed.

  Definition frames_of (recs : list mrec) : list frame := map (frame_of false) recs.
  Definition s0 : dstate0 := (blank W H, None).
  Definition played (recs : list mrec) : show :=
    combine (spec_run W H (frames_of recs)) (map m_dur recs).
  (* canvas the decoder shows after [init ++ [last]] *)
  Definition cdec (init : list mrec) (last : mrec) : canvas :=
    fst (dstep W H (dfold W H s0 (frames_of init)) (frame_of false last)).

  Record invw (ins : show) (st : est)
              (init : list mrec) (last : mrec) (im : img) (ins' : show) (d : Z) : Prop := {
    i_W : e_W st = W;
    i_H : e_H st = H;
    i_op : e_opts st = op;
    i_recs : e_recs st = init ++ [last];
    i_pidx : e_pidx st = Z.of_nat (length init);
    i_disp : m_dispose_bg last = false;
    i_ok : Forall rec_ok (init ++ [last]);
    i_prect : forall x y, 0 <= x < W -> 0 <= y < H ->
                in_rect (e_prect st) x y = in_rect (rec_rect last) x y;
    i_prev : e_prev st = Some (pad W H im);
    i_ins : ins = ins' ++ [(pad W H im, d)];
    i_im : wf_img im;
    i_dec : psim pi W H (cdec init last) (pad W H im);
    i_show : push (collapse_rev_by pi (played init)) (map pi (cdec init last), m_dur last)
             = collapse_rev_by pi ins;
    i_fcount : e_fcount st = Z.of_nat (length (init ++ [last]));
    i_first : init = [] -> m_x last = 0 /\ m_y last = 0 /\ m_blend_none last = true /\
                           iw (m_img last) = W /\ ih (m_img last) = H
  }.

  Definition inv (ins : show) (st : est) : Prop :=
    exists init last im ins' d, invw ins st init last im ins' d.

  Lemma cdec_length init last : length (cdec init last) = Z.to_nat (W * H).
  Proof. apply dstep_length. Qed.

  Lemma pad_length im : length (pad W H im) = Z.to_nat (W * H).
  Proof. apply tab_length. Qed.

  Lemma played_snoc init last :
    played (init ++ [last]) = played init ++ [(cdec init last, m_dur last)].
  Proof.
    unfold played, frames_of, spec_run. rewrite !map_app. cbn [map].
    rewrite spec_go_dfold. rewrite combine_snoc; [reflexivity|].
    rewrite spec_go_length, !map_length. reflexivity.
  Qed.

  Definition with_disp (b : bool) (r : mrec) : mrec :=
    mkmrec (m_x r) (m_y r) (m_img r) (m_lossy r) (m_blend_none r) b (m_dur r).
  Definition with_dur (d : Z) (r : mrec) : mrec :=
    mkmrec (m_x r) (m_y r) (m_img r) (m_lossy r) (m_blend_none r) (m_dispose_bg r) d.

  Lemma cdec_with_disp init last b : cdec init (with_disp b last) = cdec init last.
  Proof. reflexivity. Qed.
  Lemma cdec_with_dur init last d : cdec init (with_dur d last) = cdec init last.
  Proof. reflexivity. Qed.

  Lemma rec_ok_with_disp b r : rec_ok r -> rec_ok (with_disp b r).
  Proof. intros Hr. exact Hr. Qed.

  Lemma Forall_snoc {A} (P : A -> Prop) l a : Forall P (l ++ [a]) <-> Forall P l /\ P a.
  Proof.
    rewrite Forall_app. split; intros [H1 H2]; split; auto.
    - inversion H2; assumption.
  Qed.

  (* decoder state after [init ++ [with_disp b last]] *)
  Lemma dfold_last init last b : rec_ok last ->
    dfold W H s0 (frames_of (init ++ [with_disp b last])) = (cdec init last, Some (rec_rect last, b)).
  Proof.
    intros Hok. unfold frames_of. rewrite map_app. cbn [map]. rewrite dfold_snoc.
    unfold dstep at 1. f_equal. f_equal. f_equal.
    apply (true_rect_frame_of false (with_disp b last)). exact Hok.
  Qed.

  Lemma wf_canvas_Forall c : wf_canvas W H c -> Forall wf_px c.
  Proof.
    intros [Hlen Hwf]. rewrite <- (tab_cget W H c) by (try lia; exact Hlen).
    apply Forall_forall. intros p Hp. unfold tab in Hp. apply in_map_iff in Hp as (i & <- & Hi).
    apply zrange_In in Hi. apply Hwf.
    - apply Z.mod_pos_bound; lia.
    - split; [apply Z.div_pos; lia|]. apply Z.div_lt_upper_bound; lia.
  Qed.

  (* ---------------------------------------------------------------- *)
  (* a full-canvas key frame                                           *)

  Definition key_rec (curr : canvas) (lossy : bool) (dur : Z) : mrec :=
    mkmrec 0 0 (mkimg W H curr) lossy true false (clamp_dur dur).

  Lemma clamp_dur_id d : 0 <= d <= max_duration -> clamp_dur d = d.
  Proof. intros Hd. unfold clamp_dur. destruct (Z.ltb_spec d 0); [lia|]. destruct (Z.ltb_spec max_duration d); lia. Qed.

  Lemma key_rec_ok curr lossy dur : wf_canvas W H curr -> (lossy = true -> lossy_fine = true) ->
    0 <= dur <= max_duration -> rec_ok (key_rec curr lossy dur).
  Proof.
    intros Hc Hl Hd. unfold rec_ok, key_rec; cbn [m_img m_lossy m_x m_y m_dur iw ih].
    rewrite clamp_dur_id by assumption.
    repeat split; try lia; try assumption.
    - destruct Hc as [Hlen _]. cbn [ipix]. rewrite Hlen, Z2Nat.id by nia. reflexivity.
    - apply wf_canvas_Forall. exact Hc.
  Qed.

  Lemma key_sound via curr lossy dur c1 : wf_canvas W H curr -> (lossy = true -> lossy_fine = true) ->
    0 <= dur <= max_duration ->
    psim pi W H (composite W H c1 (frame_of via (key_rec curr lossy dur))) curr.
  Proof.
    intros Hc Hl Hd.
    apply (composite_sound via (key_rec curr lossy dur) c1 c1 curr).
    - apply key_rec_ok; assumption.
    - apply psim_refl.
    - intros x y Hx Hy Hin. unfold rec_rect, key_rec, in_rect in Hin; cbn in Hin. lia.
    - intros _ x y _ _ Hin. unfold content, key_rec; cbn [m_x m_y m_img iw ipix]. unfold cget.
      f_equal. f_equal. f_equal. lia.
    - intros Hbn. discriminate.
  Qed.

  Lemma in_rect_key curr lossy dur x y : 0 <= x < W -> 0 <= y < H ->
    in_rect (go_rect 0 0 W H) x y = in_rect (rec_rect (key_rec curr lossy dur)) x y.
  Proof.
    intros Hx Hy. rewrite in_rect_go_rect by lia. unfold rec_rect, key_rec, in_rect; cbn. lia.
  Qed.

  Lemma with_disp_false r : m_dispose_bg r = false -> with_disp false r = r.
  Proof. destruct r; cbn. intros ->. reflexivity. Qed.

  Lemma clamp_dur_range d : 0 <= clamp_dur d <= max_duration.
  Proof.
    unfold clamp_dur, max_duration. destruct (Z.ltb_spec d 0); [lia|].
    destruct (Z.ltb_spec 16777215 d); lia.
  Qed.

  (* ---------------------------------------------------------------- *)
  (* appending a frame that shows a new picture                        *)

  Lemma inv_append ins st init last im ins' d b new im2 dur st' :
    invw ins st init last im ins' d ->
    e_W st' = W -> e_H st' = H -> e_opts st' = op ->
    e_recs st' = (init ++ [with_disp b last]) ++ [new] ->
    e_pidx st' = Z.of_nat (length (init ++ [with_disp b last])) ->
    m_dispose_bg new = false -> rec_ok new -> m_dur new = dur ->
    (forall x y, 0 <= x < W -> 0 <= y < H -> in_rect (e_prect st') x y = in_rect (rec_rect new) x y) ->
    e_prev st' = Some (pad W H im2) -> wf_img im2 ->
    e_fcount st' = e_fcount st + 1 ->
    psim pi W H (composite W H (if b then fill W H (cdec init last) (rec_rect last) else cdec init last)
                           (frame_of false new)) (pad W H im2) ->
    inv (ins ++ [(pad W H im2, dur)]) st'.
  Proof.
    intros Hi HW' HH' Hop' Hrecs Hpidx Hdisp Hok Hdur Hprect Hprev Him2 Hfc Hsim.
    destruct Hi.
    apply Forall_snoc in i_ok0 as [Hokinit Hoklast].
    assert (Hcd : cdec (init ++ [with_disp b last]) new
                  = composite W H (if b then fill W H (cdec init last) (rec_rect last) else cdec init last)
                              (frame_of false new)).
    { unfold cdec at 1. rewrite (dfold_last init last b Hoklast). unfold dstep; cbn [fst snd].
      destruct b; reflexivity. }
    exists (init ++ [with_disp b last]), new, im2, ins, dur.
    constructor; try assumption.
    - apply Forall_snoc. split; [|exact Hok]. apply Forall_snoc. split; [exact Hokinit|exact Hoklast].
    - reflexivity.
    - rewrite Hcd. exact Hsim.
    - rewrite played_snoc, collapse_rev_by_snoc. rewrite cdec_with_disp.
      change (m_dur (with_disp b last)) with (m_dur last). rewrite i_show0.
      rewrite collapse_rev_by_snoc. rewrite Hdur. f_equal. f_equal.
      apply (psim_map pi W H); try lia.
      + apply cdec_length.
      + apply pad_length.
      + rewrite Hcd. exact Hsim.
    - rewrite Hfc, i_fcount0. rewrite !app_length. cbn [length]. lia.
    - intros Habs. apply app_eq_nil in Habs as [_ Habs]. discriminate.
  Qed.

  (* ---------------------------------------------------------------- *)
  (* key frame after at least one frame                                *)

  Lemma step_keyframe ins st init last im ins' d im2 dur alt st1 :
    invw ins st init last im ins' d ->
    e_W st1 = W -> e_H st1 = H -> e_opts st1 = op -> e_recs st1 = e_recs st -> e_fcount st1 = e_fcount st ->
    wf_img im2 -> 0 <= dur <= max_duration ->
    inv (ins ++ [(pad W H im2, dur)]) (encode_keyframe st1 (pad W H im2) dur alt).
  Proof.
    intros Hi HW1 HH1 Hop1 Hrecs1 Hfc1 Him2 Hdur.
    pose proof Hi as Hi'. destruct Hi'.
    eapply (inv_append ins st init last im ins' d false
              (key_rec (pad W H im2) (codec_lossy op alt) dur) im2 dur); try exact Hi;
      unfold encode_keyframe; cbn [e_W e_H e_opts e_recs e_pidx e_prect e_prev e_fcount];
      rewrite ?HW1, ?HH1, ?Hop1, ?Hrecs1, ?Hfc1; try reflexivity; try assumption.
    - rewrite i_recs0. unfold mux_add, key_rec. rewrite (with_disp_false last i_disp0). reflexivity.
    - rewrite i_recs0. unfold mux_add. rewrite last_idx_last. rewrite (with_disp_false last i_disp0). reflexivity.
    - apply key_rec_ok; [apply wf_pad; exact Him2|apply codec_lossy_fine|exact Hdur].
    - unfold key_rec; cbn [m_dur]. apply clamp_dur_id. exact Hdur.
    - intros x y Hx Hy. apply in_rect_key; assumption.
    - apply key_sound; [apply wf_pad; exact Him2|apply codec_lossy_fine|exact Hdur].
  Qed.

  (* ---------------------------------------------------------------- *)
  (* the first frame                                                   *)

  Lemma step_first st0 im2 dur alt :
    e_W st0 = W -> e_H st0 = H -> e_opts st0 = op -> e_recs st0 = [] -> e_fcount st0 = 0 ->
    wf_img im2 -> 0 <= dur <= max_duration ->
    inv [(pad W H im2, dur)] (encode_keyframe st0 (pad W H im2) dur alt).
  Proof.
    intros HW0 HH0 Hop0 Hrecs0 Hfc0 Him2 Hdur.
    set (k := key_rec (pad W H im2) (codec_lossy op alt) dur).
    assert (Hk : rec_ok k)
      by (apply key_rec_ok; [apply wf_pad; exact Him2|apply codec_lossy_fine|exact Hdur]).
    assert (Hs : psim pi W H (cdec [] k) (pad W H im2)).
    { unfold cdec, frames_of, dfold, dstep; cbn [map fold_left fst snd s0].
      apply key_sound; [apply wf_pad; exact Him2|apply codec_lossy_fine|exact Hdur]. }
    exists [], k, im2, [], dur.
    constructor; unfold encode_keyframe; cbn [e_W e_H e_opts e_recs e_pidx e_prect e_prev e_fcount];
      rewrite ?HW0, ?HH0, ?Hop0, ?Hrecs0, ?Hfc0; try reflexivity; try assumption.
    - constructor; [exact Hk|constructor].
    - intros x y Hx Hy. apply in_rect_key; assumption.
    - unfold played, frames_of, spec_run, collapse_rev_by, proj_show.
      cbn [map spec_go combine fold_left push fst snd app].
      unfold k at 2, key_rec; cbn [m_dur]. rewrite clamp_dur_id by exact Hdur.
      f_equal. f_equal. apply (psim_map pi W H); try lia; [apply cdec_length|apply pad_length|exact Hs].
    - intros _. repeat split.
  Qed.

  (* ---------------------------------------------------------------- *)
  (* a sub-frame (either candidate), or the key-frame fallback         *)

  Definition sub_rec (r : rect) (im : img) (lossy bn : bool) (dur : Z) : mrec :=
    mkmrec (rx0 r) (ry0 r) im lossy bn false (clamp_dur dur).

  Lemma in_rect_sub_rec r im lossy bn dur x y :
    iw im = rx1 r - rx0 r -> ih im = ry1 r - ry0 r ->
    in_rect (rec_rect (sub_rec r im lossy bn dur)) x y = in_rect r x y.
  Proof.
    intros Ew Eh. unfold rec_rect, sub_rec; cbn [m_x m_y m_img]. rewrite Ew, Eh.
    unfold in_rect; cbn [rx0 ry0 rx1 ry1]. lia.
  Qed.

  Lemma sub_sound c1 base curr r bn im lossy dur :
    good_rect W H r -> rx0 r mod 2 = 0 -> ry0 r mod 2 = 0 ->
    iw im = rx1 r - rx0 r -> ih im = ry1 r - ry0 r -> wf_img im ->
    (lossy = true -> lossy_fine = true) -> 0 <= dur <= max_duration ->
    psim pi W H c1 base ->
    (forall x y, 0 <= x < W -> 0 <= y < H -> in_rect r x y = false -> cget W base x y = cget W curr x y) ->
    (bn = true -> forall x y, in_rect r x y = true ->
        nth (Z.to_nat ((y - ry0 r) * iw im + (x - rx0 r))) (ipix im) px0 = cget W curr x y) ->
    (bn = false -> forall x y, 0 <= x < W -> 0 <= y < H -> in_rect r x y = true ->
        pi (blend_spec (nth (Z.to_nat ((y - ry0 r) * iw im + (x - rx0 r))) (ipix im) px0) (cget W base x y))
        = pi (cget W curr x y)) ->
    let new := sub_rec r im lossy bn dur in
    rec_ok new /\ psim pi W H (composite W H c1 (frame_of false new)) curr.
  Proof.
    intros Hg Hex Hey Ew Eh Hwf Hl Hd Hsim Hout Hnb Hbl new.
    pose proof Hg as (Hx0 & Hx1 & Hy0 & Hy1).
    assert (Hok : rec_ok new).
    { unfold rec_ok, new, sub_rec; cbn [m_img m_lossy m_x m_y m_dur].
      rewrite Ew, Eh, clamp_dur_id by exact Hd.
      split; [exact Hwf|]. split; [exact Hl|]. repeat split; try lia; assumption. }
    split; [exact Hok|].
    apply (composite_sound false new c1 base curr Hok).
    - exact Hsim.
    - intros x y Hx Hy Hin. unfold new in Hin. rewrite in_rect_sub_rec in Hin by assumption.
      apply Hout; assumption.
    - intros Hbn x y Hx Hy Hin. unfold new in Hin. rewrite in_rect_sub_rec in Hin by assumption.
      unfold content, new, sub_rec; cbn [m_x m_y m_img]. rewrite (Hnb Hbn x y Hin). reflexivity.
    - intros Hbn x y Hx Hy Hin. unfold new in Hin. rewrite in_rect_sub_rec in Hin by assumption.
      unfold content, new, sub_rec; cbn [m_x m_y m_img]. apply Hbl; assumption.
  Qed.

  Lemma step_sub ins st init last im ins' d im2 dur o st1 :
    invw ins st init last im ins' d ->
    e_W st1 = W -> e_H st1 = H -> e_opts st1 = op -> e_recs st1 = e_recs st ->
    e_fcount st1 = e_fcount st -> e_pidx st1 = e_pidx st -> e_prect st1 = e_prect st ->
    wf_img im2 -> 0 <= dur <= max_duration ->
    inv (ins ++ [(pad W H im2, dur)]) (encode_sub_frame fx st1 (pad W H im) (pad W H im2) dur o).
  Proof.
    intros Hi HW1 HH1 Hop1 Hrecs1 Hfc1 Hpidx1 Hprect1 Him2 Hdur.
    pose proof Hi as Hi'. destruct Hi'.
    pose proof (proj2 (proj1 (Forall_snoc _ _ _) i_ok0)) as Hoklast.
    unfold encode_sub_frame. rewrite HW1, HH1, Hop1, Hrecs1, Hpidx1, Hprect1.
    set (prev := pad W H im). set (curr := pad W H im2).
    assert (Hwp : wf_canvas W H prev) by (apply wf_pad; exact i_im0).
    assert (Hwc : wf_canvas W H curr) by (apply wf_pad; exact Him2).
    destruct (candidate fx op W H prev curr) as [[rN bnN] imN] eqn:HcN.
    set (disposed := fill_impl W H prev (e_prect st)).
    assert (Hwd : wf_canvas W H disposed) by (apply wf_fill_impl; exact Hwp).
    destruct (candidate fx op W H disposed curr) as [[rB bnB] imB] eqn:HcB.
    destruct (candidate_sound prev curr rN bnN imN Hwp Hwc HcN)
      as (HgN & HexN & HeyN & EwN & EhN & HwfN & HoutN & HnbN & HblN).
    destruct (candidate_sound disposed curr rB bnB imB Hwd Hwc HcB)
      as (HgB & HexB & HeyB & EwB & EhB & HwfB & HoutB & HnbB & HblB).
    match goal with |- context [if ?c then encode_keyframe _ _ _ _ else _] => destruct c end.
    { eapply step_keyframe; eassumption. }
    assert (Hsimd : psim pi W H (fill W H (cdec init last) (rec_rect last)) disposed).
    { intros x y Hx Hy. unfold disposed. rewrite cget_fill, cget_fill_impl by assumption.
      rewrite (i_prect0 x y Hx Hy). destruct (in_rect (rec_rect last) x y); [reflexivity|].
      apply i_dec0; assumption. }
    destruct (oc_bg o) eqn:Hbg.
    - (* dispose-background candidate *)
      destruct (sub_sound (fill W H (cdec init last) (rec_rect last)) disposed curr rB bnB imB
                  (codec_lossy op (oc_alt_b o)) dur HgB HexB HeyB EwB EhB HwfB (codec_lossy_fine _) Hdur
                  Hsimd HoutB HnbB HblB) as [Hok Hs].
      eapply (inv_append ins st init last im ins' d true
                (sub_rec rB imB (codec_lossy op (oc_alt_b o)) bnB dur) im2 dur);
        try exact Hi; cbn [e_W e_H e_opts e_recs e_pidx e_prect e_prev e_fcount];
        rewrite ?Hfc1; try reflexivity; try assumption.
      + rewrite i_recs0, i_pidx0, mux_set_dispose_bg_last. reflexivity.
      + rewrite i_recs0, i_pidx0, mux_set_dispose_bg_last. unfold mux_add. rewrite last_idx_last.
        rewrite !app_length. reflexivity.
      + unfold sub_rec; cbn [m_dur]. apply clamp_dur_id. exact Hdur.
      + intros x y Hx Hy. rewrite in_rect_sub_rec by assumption. reflexivity.
    - (* dispose-none candidate *)
      destruct (sub_sound (cdec init last) prev curr rN bnN imN
                  (codec_lossy op (oc_alt_a o)) dur HgN HexN HeyN EwN EhN HwfN (codec_lossy_fine _) Hdur
                  i_dec0 HoutN HnbN HblN) as [Hok Hs].
      eapply (inv_append ins st init last im ins' d false
                (sub_rec rN imN (codec_lossy op (oc_alt_a o)) bnN dur) im2 dur);
        try exact Hi; cbn [e_W e_H e_opts e_recs e_pidx e_prect e_prev e_fcount];
        rewrite ?Hfc1; try reflexivity; try assumption.
      + rewrite i_recs0, (with_disp_false last i_disp0). reflexivity.
      + rewrite i_recs0, (with_disp_false last i_disp0). unfold mux_add. rewrite last_idx_last.
        rewrite !app_length. reflexivity.
      + unfold sub_rec; cbn [m_dur]. apply clamp_dur_id. exact Hdur.
      + intros x y Hx Hy. rewrite in_rect_sub_rec by assumption. reflexivity.
  Qed.

  (* ---------------------------------------------------------------- *)
  (* a repeated picture: duration extension and the overflow filler    *)

  Lemma show_dup A c d0 dur ins im2 :
    push A (c, d0) = collapse_rev_by pi ins ->
    map pi (pad W H im2) = c ->
    push A (c, d0 + dur) = collapse_rev_by pi (ins ++ [(pad W H im2, dur)]).
  Proof.
    intros Hs Hc.
    rewrite collapse_rev_by_snoc, <- Hs, push_add, Hc.
    destruct (push_head A c d0) as (d1 & t & E). rewrite E. rewrite push_same_head. reflexivity.
  Qed.

  Definition filler_rec (lossy : bool) (dur : Z) : mrec :=
    mkmrec 0 0 (mkimg 1 1 [px0]) lossy false false (clamp_dur dur).

  Lemma filler_ok lossy dur : (lossy = true -> lossy_fine = true) -> rec_ok (filler_rec lossy dur).
  Proof.
    intros Hl. unfold rec_ok, filler_rec; cbn [m_img m_lossy m_x m_y m_dur iw ih].
    split. { unfold wf_img; cbn. repeat split; try lia. constructor; [apply wf_px0|constructor]. }
    split; [exact Hl|]. pose proof (clamp_dur_range dur). repeat split; try lia; reflexivity.
  Qed.

  Lemma filler_sound lossy dur c1 : (lossy = true -> lossy_fine = true) ->
    psim pi W H (composite W H c1 (frame_of false (filler_rec lossy dur))) c1.
  Proof.
    intros Hl x y Hx Hy. pose proof (filler_ok lossy dur Hl) as Hok.
    unfold composite. rewrite cget_tab by lia. rewrite (true_rect_frame_of false _ Hok).
    destruct (in_rect (rec_rect (filler_rec lossy dur)) x y) eqn:Hin; [|reflexivity].
    assert (Efx : Canvas.fx (frame_of false (filler_rec lossy dur)) = 0) by reflexivity.
    assert (Efy : Canvas.fy (frame_of false (filler_rec lossy dur)) = 0) by reflexivity.
    rewrite Efx, Efy.
    pose proof (fget_frame_of false _ x y Hok Hin) as Hf.
    cbn [filler_rec m_x m_y m_img iw ipix] in Hf.
    assert (Hn : forall k, nth k [px0] px0 = px0) by (intros [|[|k]]; reflexivity).
    rewrite Hn in Hf.
    change (fblend_none (frame_of false (filler_rec lossy dur))) with false. cbv iota.
    rewrite (pi_blend _ px0 _ (cget W c1 x y) Hf eq_refl).
    rewrite blend_src_transparent by reflexivity. reflexivity.
  Qed.

  Lemma rec_ok_with_dur r d : rec_ok r -> 0 <= d <= max_duration -> rec_ok (with_dur d r).
  Proof.
    intros (H1 & H2 & H3 & H4 & H5 & H6 & H7 & H8 & _) Hd.
    unfold rec_ok, with_dur; cbn [m_img m_lossy m_x m_y m_dur].
    split; [exact H1|]. split; [exact H2|]. repeat split; try assumption; lia.
  Qed.

  Lemma step_dup ins st init last im ins' d im2 dur o :
    invw ins st init last im ins' d ->
    wf_img im2 -> 0 <= dur <= max_duration -> pad W H im2 = pad W H im ->
    inv (ins ++ [(pad W H im2, dur)]) (increase_prev_duration fx st dur o).
  Proof.
    intros Hi Him2 Hdur Hpad. pose proof Hi as Hi'. destruct Hi'.
    pose proof (proj1 (Forall_snoc _ _ _) i_ok0) as [Hokinit Hoklast].
    pose proof Hoklast as (_ & _ & _ & _ & _ & _ & _ & _ & Hdl).
    assert (Hc : map pi (pad W H im2) = map pi (cdec init last)).
    { rewrite Hpad. symmetry. apply (psim_map pi W H); try lia;
        [apply cdec_length|apply pad_length|exact i_dec0]. }
    unfold increase_prev_duration. rewrite i_recs0, i_pidx0, mux_dur_last.
    destruct (Z.ltb_spec (m_dur last + dur) max_duration) as [Hlt|Hge].
    - (* extend the previous frame *)
      rewrite mux_set_dur_last, clamp_dur_id by lia.
      exists init, (with_dur (m_dur last + dur) last), im2, ins, dur.
      constructor; cbn [e_W e_H e_opts e_recs e_pidx e_prect e_prev e_fcount]; try assumption; try reflexivity.
      + apply Forall_snoc. split; [exact Hokinit|]. apply rec_ok_with_dur; [exact Hoklast|lia].
      + rewrite i_prev0, Hpad. reflexivity.
      + rewrite cdec_with_dur, Hpad. exact i_dec0.
      + rewrite cdec_with_dur. cbn [with_dur m_dur]. apply show_dup; [exact i_show0|exact Hc].
      + rewrite i_fcount0, !app_length. reflexivity.
    - (* cap it and emit the 1x1 filler *)
      rewrite mux_set_dur_last. unfold mux_add.
      assert (Hcm : clamp_dur max_duration = max_duration) by (apply clamp_dur_id; unfold max_duration; lia).
      rewrite Hcm.
      set (last' := with_dur max_duration last).
      set (fl := filler_rec (codec_lossy op (oc_alt_a o)) (m_dur last + dur - max_duration)).
      assert (Hokl' : rec_ok last') by (apply rec_ok_with_dur; [exact Hoklast|unfold max_duration; lia]).
      assert (Hokf : rec_ok fl) by (apply filler_ok, codec_lossy_fine).
      assert (Hcd : cdec (init ++ [last']) fl = composite W H (cdec init last) (frame_of false fl)).
      { unfold cdec at 1. rewrite <- (with_disp_false last') by exact i_disp0.
        rewrite (dfold_last init last' false Hokl'). reflexivity. }
      assert (Hsf : psim pi W H (cdec (init ++ [last']) fl) (cdec init last)).
      { rewrite Hcd. apply filler_sound, codec_lossy_fine. }
      exists (init ++ [last']), fl, im2, ins, dur.
      constructor; cbn [e_W e_H e_opts e_recs e_pidx e_prect e_prev e_fcount]; try assumption; try reflexivity.
      + rewrite i_op0. reflexivity.
      + rewrite i_op0, last_idx_last. reflexivity.
      + apply Forall_snoc. split; [|exact Hokf]. apply Forall_snoc. split; assumption.
      + intros x y Hx Hy. rewrite fx_filler. rewrite in_rect_go_rect by lia.
        unfold rec_rect, fl, filler_rec, in_rect; cbn. lia.
      + rewrite i_prev0, Hpad. reflexivity.
      + rewrite Hpad. eapply psim_trans; [exact Hsf|exact i_dec0].
      + rewrite played_snoc, collapse_rev_by_snoc.
        change (cdec init last') with (cdec init last). change (m_dur last') with max_duration.
        assert (Hcf : map pi (cdec (init ++ [last']) fl) = map pi (cdec init last)).
        { apply (psim_map pi W H); try lia; [apply cdec_length|apply cdec_length|exact Hsf]. }
        rewrite Hcf.
        rewrite push_push_same.
        unfold fl, filler_rec; cbn [m_dur]. rewrite clamp_dur_id by (unfold max_duration in *; lia).
        replace (max_duration + (m_dur last + dur - max_duration)) with (m_dur last + dur) by lia.
        apply show_dup; [exact i_show0|exact Hc].
      + rewrite i_fcount0, !app_length. cbn [length]. lia.
      + intros Habs. apply app_eq_nil in Habs as [_ Habs]. discriminate.
  Qed.

  (* ---------------------------------------------------------------- *)
  (* AddFrame, histories                                               *)

  Lemma inv_calls ins st : inv ins st -> inv ins (set_calls st).
  Proof.
    intros (init & last & im & ins' & d & Hi). exists init, last, im, ins', d.
    destruct Hi. constructor; assumption.
  Qed.

  Lemma step_add oracle ins st f : inv ins st -> wf_input f ->
    inv (ins ++ [(pad W H (fst f), snd f)]) (add_frame fx oracle st f).
  Proof.
    intros (init & last & im & ins' & d & Hi) Hf. destruct f as [im2 dur]. destruct Hf as [Him2 Hdur].
    cbn [fst snd] in Him2, Hdur. pose proof Hi as Hi'. destruct Hi'.
    unfold add_frame. apply inv_calls. rewrite i_prev0, i_W0, i_H0.
    destruct (canvas_eqb (pad W H im) (pad W H im2)) eqn:Heq.
    - apply canvas_eqb_eq in Heq. eapply step_dup; try eassumption. symmetry. exact Heq.
    - cbn [e_opts e_since].
      match goal with |- context [if ?c then _ else _] => destruct c end.
      + eapply step_keyframe; try eassumption; reflexivity.
      + eapply step_sub; try eassumption; reflexivity.
  Qed.

  Lemma run_inv oracle rest : forall ins st, inv ins st -> Forall wf_input rest ->
    inv (ins ++ inputs_of W H rest) (run_frames fx oracle st rest).
  Proof.
    induction rest as [|f rest IH]; intros ins st Hi Hwf.
    - rewrite app_nil_r. exact Hi.
    - inversion Hwf as [|? ? Hf Hrest]; subst. cbn [run_frames fold_left].
      cbn [inputs_of map].
      replace (ins ++ (pad W H (fst f), snd f) :: map (fun f0 => (pad W H (fst f0), snd f0)) rest)
        with ((ins ++ [(pad W H (fst f), snd f)]) ++ inputs_of W H rest) by (rewrite <- app_assoc; reflexivity).
      apply IH; [|exact Hrest]. apply step_add; assumption.
  Qed.

  Lemma run_from_new oracle st0 frames :
    e_W st0 = W -> e_H st0 = H -> e_opts st0 = op -> e_recs st0 = [] -> e_fcount st0 = 0 ->
    e_prev st0 = None ->
    frames <> [] -> Forall wf_input frames ->
    inv (inputs_of W H frames) (run_frames fx oracle st0 frames).
  Proof.
    intros HW0 HH0 Hop0 Hrecs0 Hfc0 Hprev0 Hne Hwf.
    destruct frames as [|[im2 dur] rest]; [contradiction|].
    inversion Hwf as [|? ? Hf Hrest]; subst. destruct Hf as [Him2 Hdur]. cbn [fst snd] in Him2, Hdur.
    cbn [run_frames fold_left].
    change (inputs_of W H ((im2, dur) :: rest)) with ([(pad W H im2, dur)] ++ inputs_of W H rest).
    apply run_inv; [|exact Hrest].
    unfold add_frame. apply inv_calls. rewrite Hprev0, HW0, HH0. apply step_first; assumption.
  Qed.

  (* ---------------------------------------------------------------- *)
  (* Close                                                             *)

  Lemma blend_over_blank t : pi (blend_spec t px0) = pi t.
  Proof.
    unfold blend_spec. destruct (Z.eqb_spec (pa t) 0) as [Hz|Hz].
    - apply pi_zero; [reflexivity|exact Hz].
    - cbn [px0 pa]. rewrite Z.eqb_refl, orb_true_r. reflexivity.
  Qed.

  Lemma still_sound via r prev :
    rec_ok r -> m_x r = 0 -> m_y r = 0 ->
    psim pi W H (composite W H (blank W H) (frame_of via (with_disp false r))) prev ->
    psim pi W H (composite W H (blank W H)
                   (frame_of via (mkmrec 0 0 (m_img r) (m_lossy r) false false 0))) prev.
  Proof.
    intros Hok Hx0 Hy0 Hs x y Hx Hy. specialize (Hs x y Hx Hy). rewrite <- Hs. clear Hs.
    unfold composite. rewrite !cget_tab by lia.
    assert (Hok' : rec_ok (mkmrec 0 0 (m_img r) (m_lossy r) false false 0)).
    { destruct Hok as (H1 & H2 & H3 & H4 & H5 & H6 & H7 & H8 & H9).
      unfold rec_ok; cbn [m_img m_lossy m_x m_y m_dur]. rewrite Hx0 in H7. rewrite Hy0 in H8.
      split; [exact H1|]. split; [exact H2|]. unfold max_duration. repeat split; try lia. }
    rewrite (true_rect_frame_of via _ Hok'), (true_rect_frame_of via _ (rec_ok_with_disp false r Hok)).
    unfold rec_rect; cbn [m_x m_y m_img with_disp]. rewrite Hx0, Hy0.
    destruct (in_rect _ x y); [|reflexivity].
    unfold frame_of, AnimEncModel.frame_of, decoded; cbn [fblend_none Canvas.fx fy m_blend_none m_x m_y m_img m_lossy with_disp].
    rewrite Hx0, Hy0.
    destruct (m_blend_none r).
    - unfold blank. rewrite cget_tab by lia. apply blend_over_blank.
    - reflexivity.
  Qed.

  Lemma single_show via k out prevc last frames :
    out_W out = W -> out_H out = H -> out_recs out = [k] -> out_via_encode out = via ->
    length prevc = Z.to_nat (W * H) ->
    psim pi W H (composite W H (blank W H) (frame_of via k)) prevc ->
    psim pi W H (cdec [] last) prevc ->
    push [] (map pi (cdec [] last), m_dur last) = collapse_rev_by pi frames ->
    forall loop, same_show_by pi W H loop out (playback rt_ll rt_ly fx out) frames.
  Proof.
    intros HoW HoH Hrecs Hvia Hlen Hs Hd Hshow loop.
    assert (Hpb : playback rt_ll rt_ly fx out
                  = [(composite W H (blank W H) (frame_of via k), m_dur k)]).
    { unfold playback, play_recs. rewrite Hrecs, Hvia, HoW, HoH. reflexivity. }
    assert (Hc : map pi (composite W H (blank W H) (frame_of via k)) = map pi (cdec [] last)).
    { transitivity (map pi prevc).
      - apply (psim_map pi W H); [lia|lia|apply tab_length|exact Hlen|exact Hs].
      - symmetry. apply (psim_map pi W H); [lia|lia|apply cdec_length|exact Hlen|exact Hd]. }
    assert (HI : collapse_by pi frames = [(map pi (cdec [] last), m_dur last)]).
    { unfold collapse_by. rewrite <- Hshow. reflexivity. }
    constructor.
    - split; assumption.
    - rewrite HI, Hpb. unfold collapse_by, collapse_rev_by, proj_show.
      cbn [map fold_left push rev app fst snd]. rewrite Hc. reflexivity.
    - rewrite HI. cbn [length]. lia.
  Qed.

  Hypothesis HWmax : W <= max_canvas_dimension.
  Hypothesis HHmax : H <= max_canvas_dimension.

  Lemma rec_ok_valid animated r : rec_ok r -> (animated = true \/ (m_x r = 0 /\ m_y r = 0)) ->
    rec_valid W H animated r = true.
  Proof.
    intros (Hwf & _ & Hx & Hy & _ & _ & Hxw & Hyh & _) Ha. destruct Hwf as (Hiw & Hih & _).
    unfold rec_valid, max_position_off. unfold max_canvas_dimension in HWmax, HHmax.
    assert (m_x r / 2 < 16777216) by (apply Z.div_lt_upper_bound; lia).
    assert (m_y r / 2 < 16777216) by (apply Z.div_lt_upper_bound; lia).
    destruct Ha as [->|[Hx0 Hy0]]; [|rewrite Hx0, Hy0 in *]; cbn [orb]; try rewrite orb_true_r; lia.
  Qed.

  Lemma valid_all recs : Forall rec_ok recs ->
    (mux_animated recs = false -> Forall (fun r => m_x r = 0 /\ m_y r = 0) recs) ->
    forallb (rec_valid W H (mux_animated recs)) recs = true.
  Proof.
    intros Hok Hna. apply forallb_forall. intros r Hr. rewrite Forall_forall in Hok.
    apply rec_ok_valid; [apply Hok; exact Hr|].
    destruct (mux_animated recs) eqn:Ha; [left; reflexivity|right].
    specialize (Hna eq_refl). rewrite Forall_forall in Hna. apply Hna. exact Hr.
  Qed.

  (* [close] on a state whose last muxer frame may carry a dispose flag the encoder
     set just before Muxer.AddFrame refused the next frame (flag [b]). *)
  Lemma close_sound has_meta simple st ins out init last im ins' d b :
    invw ins (set_recs st (init ++ [last])) init last im ins' d ->
    e_recs st = init ++ [with_disp b last] ->
    close has_meta simple st = Some out ->
    same_show_by pi W H (eo_loop op) out (playback rt_ll rt_ly fx out) ins.
  Proof.
    intros Hi Hrecs Hclose.
    destruct Hi. cbn [set_recs e_W e_H e_opts e_recs e_prev e_fcount e_pidx e_prect] in *.
    pose proof (proj1 (Forall_snoc _ _ _) i_ok0) as [Hokinit Hoklast].
    assert (Hlp : length (pad W H im) = Z.to_nat (W * H)) by apply pad_length.
    assert (Han' : mux_animated (e_recs st) = mux_animated (init ++ [last])).
    { rewrite Hrecs. unfold mux_animated. rewrite !app_length, !existsb_app. reflexivity. }
    assert (Hinit0 : mux_animated (e_recs st) = false -> init = []).
    { intros Han. rewrite Han in Han'. destruct init as [|a init']; [reflexivity|]. exfalso.
      symmetry in Han'. unfold mux_animated in Han'. rewrite app_length in Han'.
      cbn [length] in Han'. apply orb_false_iff in Han' as [Han' _]. lia. }
    assert (Hval : forallb (rec_valid W H (mux_animated (e_recs st))) (e_recs st) = true).
    { apply valid_all.
      - rewrite Hrecs. apply Forall_snoc. split; [exact Hokinit|exact Hoklast].
      - intros Han. rewrite (Hinit0 Han) in *. rewrite Hrecs. cbn [app].
        destruct (i_first0 eq_refl) as (Hx0 & Hy0 & _). constructor; [split; assumption|constructor]. }
    unfold close in Hclose. rewrite i_prev0, i_W0, i_H0, i_op0, i_fcount0 in Hclose.
    assert (Hr0 : exists r0 tl, e_recs st = r0 :: tl /\ (init = [] -> r0 = with_disp b last)).
    { rewrite Hrecs. destruct init as [|a init']; cbn [app].
      - exists (with_disp b last), []. split; [reflexivity|auto].
      - exists a, (init' ++ [with_disp b last]). split; [reflexivity|]. intros Habs; discriminate. }
    destruct Hr0 as (r0 & tl & Hr0 & Hr0l). rewrite Hr0 in Hclose. rewrite <- Hr0 in Hclose.
    rewrite Hval in Hclose. cbn [negb] in Hclose. cbv zeta in Hclose.
    destruct ((Z.of_nat (length (init ++ [last])) =? 1) && negb has_meta && simple) eqn:Hstill.
    - (* the single-frame still written by SimpleEncodeFunc *)
      apply andb_true_iff in Hstill as [Hone _]. apply andb_true_iff in Hone as [Hone _].
      assert (Hinit : init = []).
      { destruct init as [|a init']; [reflexivity|]. rewrite app_length in Hone. cbn [length] in Hone. lia. }
      subst init. injection Hclose as <-.
      set (lossy := negb (eo_lossless op)).
      assert (Hl : lossy = true -> lossy_fine = true).
      { unfold lossy. destruct lossy_fine; [reflexivity|]. destruct (Hop eq_refl) as [-> _]. discriminate. }
      eapply (single_show true (mkmrec 0 0 (mkimg W H (pad W H im)) lossy false false 0) _ (pad W H im) last);
        try reflexivity; try assumption.
      apply (still_sound true (key_rec (pad W H im) lossy 0) (pad W H im)); try reflexivity.
      + apply key_rec_ok; [apply wf_pad; exact i_im0|exact Hl|unfold max_duration; lia].
      + apply key_sound; [apply wf_pad; exact i_im0|exact Hl|unfold max_duration; lia].
    - destruct (mux_animated (e_recs st)) eqn:Han.
      + (* an animation *)
        injection Hclose as <-.
        assert (Hpb : playback rt_ll rt_ly fx (mkout false false W H (eo_loop op) (e_recs st))
                      = played (e_recs st)) by reflexivity.
        assert (Hcol : collapse_by pi (played (e_recs st)) = collapse_by pi ins).
        { unfold collapse_by. f_equal. rewrite Hrecs, played_snoc, collapse_rev_by_snoc.
          rewrite cdec_with_disp. exact i_show0. }
        constructor; cbn [out_W out_H out_loop out_still].
        * split; reflexivity.
        * rewrite Hpb, Hcol. reflexivity.
        * intros _. rewrite Hpb. repeat split. exact Hcol.
      + (* one frame of duration 0: the muxer writes a simple file *)
        injection Hclose as <-.
        pose proof (Hinit0 eq_refl) as Hinit. subst init. specialize (Hr0l eq_refl). subst r0.
        destruct (i_first0 eq_refl) as (Hx0 & Hy0 & _ & Hiw & Hih).
        eapply (single_show false (mkmrec 0 0 (m_img last) (m_lossy last) false false 0) _ (pad W H im) last);
          try reflexivity; try assumption.
        * cbn [out_W with_disp m_img]. rewrite Hiw. destruct has_meta; reflexivity.
        * cbn [out_H with_disp m_img]. rewrite Hih. destruct has_meta; reflexivity.
        * apply (still_sound false last (pad W H im) Hoklast Hx0 Hy0).
          rewrite (with_disp_false last i_disp0). exact i_dec0.
  Qed.

  Lemma set_recs_same st : set_recs st (e_recs st) = st.
  Proof. destruct st; reflexivity. Qed.

  Theorem generic_roundtrip oracle has_meta simple st0 frames out :
    e_W st0 = W -> e_H st0 = H -> e_opts st0 = op -> e_recs st0 = [] -> e_fcount st0 = 0 ->
    e_prev st0 = None ->
    frames <> [] -> Forall wf_input frames ->
    close has_meta simple (run_frames fx oracle st0 frames) = Some out ->
    same_show_by pi W H (eo_loop op) out (playback rt_ll rt_ly fx out) (inputs_of W H frames).
  Proof.
    intros HW0 HH0 Hop0 Hrecs0 Hfc0 Hprev0 Hne Hwf Hclose.
    destruct (run_from_new oracle st0 frames HW0 HH0 Hop0 Hrecs0 Hfc0 Hprev0 Hne Hwf)
      as (init & last & im & ins' & d & Hi).
    pose proof Hi as Hi'. destruct Hi'.
    apply (close_sound has_meta simple (run_frames fx oracle st0 frames) (inputs_of W H frames) out init last im ins' d false); [| |exact Hclose].
    - rewrite <- i_recs0, set_recs_same. exact Hi.
    - rewrite i_recs0, (with_disp_false last i_disp0). reflexivity.
  Qed.

  (* ---------------------------------------------------------------- *)
  (* AddFrame calls that return an error (failing frame encoder, muxer frame limit):
     the file plays back exactly the frames of the calls that returned nil.      *)

  Variable maxf : Z.

  (* the invariant up to the dispose flag the encoder may have set on the last muxer
     frame just before Muxer.AddFrame refused the next one (only when the muxer is full) *)
  Definition einv (ins : show) (st : est) : Prop :=
    exists init last im ins' d b,
      invw ins (set_recs st (init ++ [last])) init last im ins' d /\
      e_recs st = init ++ [with_disp b last] /\
      (b = true -> mux_full maxf st = true).

  Lemma inv_einv ins st : inv ins st -> einv ins st.
  Proof.
    intros (init & last & im & ins' & d & Hi). pose proof Hi as Hi'. destruct Hi'.
    exists init, last, im, ins', d, false. split; [|split].
    - rewrite <- i_recs0, set_recs_same. exact Hi.
    - rewrite i_recs0, (with_disp_false last i_disp0). reflexivity.
    - discriminate.
  Qed.

  Lemma invw_transfer ins st st2 init last im ins' d :
    invw ins st init last im ins' d ->
    e_W st2 = e_W st -> e_H st2 = e_H st -> e_opts st2 = e_opts st -> e_recs st2 = e_recs st ->
    e_prev st2 = e_prev st -> e_fcount st2 = e_fcount st -> e_prect st2 = e_prect st ->
    e_pidx st2 = e_pidx st ->
    invw ins st2 init last im ins' d.
  Proof.
    intros Hi E1 E2 E3 E4 E5 E6 E7 E8. destruct Hi.
    constructor; rewrite ?E1, ?E2, ?E3, ?E4, ?E5, ?E6, ?E7, ?E8; assumption.
  Qed.

  (* a refused call: countSinceKeyframe / the call counter may have moved, and the last
     frame may have received the dispose flag if the muxer is full *)
  Lemma einv_err ins st st2 :
    einv ins st ->
    e_W st2 = e_W st -> e_H st2 = e_H st -> e_opts st2 = e_opts st ->
    e_prev st2 = e_prev st -> e_fcount st2 = e_fcount st -> e_prect st2 = e_prect st ->
    e_pidx st2 = e_pidx st ->
    (e_recs st2 = e_recs st \/
     (mux_full maxf st = true /\ e_recs st2 = mux_set_dispose_bg (e_recs st) (e_pidx st))) ->
    einv ins st2.
  Proof.
    intros (init & last & im & ins' & d & b & Hi & Hrecs & Hb) E1 E2 E3 E5 E6 E7 E8 Hr.
    assert (Hi2 : invw ins (set_recs st2 (init ++ [last])) init last im ins' d).
    { apply (invw_transfer ins (set_recs st (init ++ [last]))); try assumption; reflexivity. }
    destruct Hr as [Hr|[Hfull Hr]].
    - exists init, last, im, ins', d, b. split; [exact Hi2|]. split; [congruence|].
      intros Hbt. specialize (Hb Hbt). unfold mux_full in *. rewrite Hr. exact Hb.
    - exists init, last, im, ins', d, true. split; [exact Hi2|].
      assert (Hp : e_pidx st = Z.of_nat (length init)) by (destruct Hi; assumption).
      assert (Hr2 : e_recs st2 = init ++ [with_disp true last]).
      { rewrite Hr, Hrecs, Hp, mux_set_dispose_bg_last. reflexivity. }
      split; [exact Hr2|]. intros _. unfold mux_full in *. rewrite Hr2.
      rewrite Hrecs in Hfull. rewrite app_length in *. exact Hfull.
  Qed.

  Lemma dup_invw ins st init last im ins' d im2 dur st2 :
    invw ins st init last im ins' d ->
    wf_img im2 -> 0 <= dur <= max_duration -> pad W H im2 = pad W H im ->
    m_dur last + dur < max_duration ->
    e_W st2 = e_W st -> e_H st2 = e_H st -> e_opts st2 = e_opts st ->
    e_prev st2 = e_prev st -> e_fcount st2 = e_fcount st -> e_prect st2 = e_prect st ->
    e_pidx st2 = e_pidx st ->
    e_recs st2 = init ++ [with_dur (m_dur last + dur) last] ->
    invw (ins ++ [(pad W H im2, dur)]) st2 init (with_dur (m_dur last + dur) last) im2 ins dur.
  Proof.
    intros Hi Him2 Hdur Hpad Hlt E1 E2 E3 E5 E6 E7 E8 Hr. destruct Hi.
    pose proof (proj1 (Forall_snoc _ _ _) i_ok0) as [Hokinit Hoklast].
    pose proof Hoklast as (_ & _ & _ & _ & _ & _ & _ & _ & Hdl).
    assert (Hc : map pi (pad W H im2) = map pi (cdec init last)).
    { rewrite Hpad. symmetry. apply (psim_map pi W H); try lia;
        [apply cdec_length|apply pad_length|exact i_dec0]. }
    constructor; rewrite ?E1, ?E2, ?E3, ?E5, ?E6, ?E7, ?E8; try assumption; try reflexivity.
    - apply Forall_snoc. split; [exact Hokinit|]. apply rec_ok_with_dur; [exact Hoklast|lia].
    - rewrite i_prev0, Hpad. reflexivity.
    - rewrite cdec_with_dur, Hpad. exact i_dec0.
    - rewrite cdec_with_dur. cbn [with_dur m_dur]. apply show_dup; [exact i_show0|exact Hc].
    - rewrite i_fcount0, !app_length. reflexivity.
  Qed.

  Definition pre (st : est) : Prop :=
    e_W st = W /\ e_H st = H /\ e_opts st = op /\ e_recs st = [] /\ e_fcount st = 0 /\
    e_prev st = None.

  Definition einv0 (acc : show) (st : est) : Prop :=
    (acc = [] /\ pre st) \/ einv acc st.

  Lemma step_add_e oracle fails acc st f st2 ok :
    einv0 acc st -> wf_input f ->
    add_frame_e fx true maxf oracle fails st f = (st2, ok) ->
    einv0 (if ok then acc ++ [(pad W H (fst f), snd f)] else acc) st2.
  Proof.
    intros HP Hf Hadd. destruct f as [im2 dur]. pose proof Hf as [Him2 Hdur].
    cbn [fst snd] in Him2, Hdur. unfold add_frame_e in Hadd.
    set (oracle' := fun n => eff_orc (oracle n) (fails n)) in *.
    destruct HP as [[-> Hpre]|He].
    - (* no frame accepted so far *)
      destruct Hpre as (HW0 & HH0 & Hop0 & Hrecs0 & Hfc0 & Hprev0). rewrite Hprev0 in Hadd.
      destruct (ef_a (fails (e_calls st)) || mux_full maxf st); injection Hadd as <- <-.
      + left. split; [reflexivity|]. repeat split; assumption.
      + right. apply inv_einv. cbn [app]. unfold add_frame. apply inv_calls.
        rewrite Hprev0, HW0, HH0. apply step_first; assumption.
    - right. pose proof He as (init & last & im & ins' & d & b & Hi & Hrecs & Hb).
      pose proof Hi as Hi'. destruct Hi'.
      cbn [set_recs e_W e_H e_opts e_recs e_prev e_fcount e_pidx e_prect]
        in i_W0, i_H0, i_op0, i_recs0, i_pidx0, i_prect0, i_prev0, i_fcount0.
      (* a successful call on a state without the stray flag *)
      assert (Hok : mux_full maxf st = false ->
                    einv (acc ++ [(pad W H im2, dur)]) (add_frame fx oracle' st (im2, dur))).
      { intros Hnf. apply inv_einv. apply (step_add oracle' acc st (im2, dur)); [|exact Hf].
        exists init, last, im, ins', d.
        destruct b; [rewrite (Hb eq_refl) in Hnf; discriminate|].
        rewrite (with_disp_false last i_disp0) in Hrecs. rewrite <- Hrecs, set_recs_same in Hi. exact Hi. }
      rewrite i_prev0, i_W0, i_H0 in Hadd.
      destruct (canvas_eqb (pad W H im) (pad W H im2)) eqn:Heq.
      + (* a repeat of the last picture *)
        apply canvas_eqb_eq in Heq. rewrite Hrecs, i_pidx0, mux_dur_last in Hadd.
        change (m_dur (with_disp b last)) with (m_dur last) in Hadd.
        destruct (Z.ltb_spec (m_dur last + dur) max_duration) as [Hlt|Hge].
        * (* merged: possible even when the muxer is full *)
          injection Hadd as <- <-.
          exists init, (with_dur (m_dur last + dur) last), im2, acc, dur, b.
          assert (Hr2 : e_recs (add_frame fx oracle' st (im2, dur))
                        = init ++ [with_disp b (with_dur (m_dur last + dur) last)]).
          { unfold add_frame. rewrite i_prev0, i_W0, i_H0.
            replace (canvas_eqb (pad W H im) (pad W H im2)) with true
              by (symmetry; apply canvas_eqb_eq; exact Heq).
            unfold increase_prev_duration. rewrite Hrecs, i_pidx0, mux_dur_last.
            change (m_dur (with_disp b last)) with (m_dur last).
            destruct (Z.ltb_spec (m_dur last + dur) max_duration); [|lia].
            cbn [set_calls e_recs]. rewrite mux_set_dur_last.
            pose proof (proj2 (proj1 (Forall_snoc _ _ _) i_ok0)) as (_ & _ & _ & _ & _ & _ & _ & _ & Hdl).
            rewrite clamp_dur_id by lia. reflexivity. }
          split; [|split].
          -- apply (dup_invw acc (set_recs st (init ++ [last])) init last im ins' d); try assumption;
               try reflexivity; try (symmetry; exact Heq);
               unfold add_frame; rewrite i_prev0, i_W0, i_H0;
               replace (canvas_eqb (pad W H im) (pad W H im2)) with true
                 by (symmetry; apply canvas_eqb_eq; exact Heq);
               unfold increase_prev_duration; rewrite Hrecs, i_pidx0, mux_dur_last;
               change (m_dur (with_disp b last)) with (m_dur last);
               destruct (Z.ltb_spec (m_dur last + dur) max_duration); try lia;
               cbn [set_recs set_calls e_W e_H e_opts e_recs e_prev e_fcount e_pidx e_prect];
               rewrite ?i_pidx0; reflexivity.
          -- exact Hr2.
          -- intros Hbt. specialize (Hb Hbt).
             assert (Hmf : forall s1 s2, length (e_recs s1) = length (e_recs s2) ->
                                         mux_full maxf s1 = mux_full maxf s2)
               by (intros s1 s2 Hl; unfold mux_full; rewrite Hl; reflexivity).
             assert (Hl : length (e_recs (add_frame fx oracle' st (im2, dur))) = length (e_recs st))
               by (rewrite Hr2, Hrecs, !app_length; reflexivity).
             exact (eq_trans (Hmf _ _ Hl) Hb).
        * destruct (ef_a (fails (e_calls st)) || mux_full maxf st) eqn:Hfl; injection Hadd as <- <-.
          -- apply (einv_err acc st); try reflexivity; [exact He|left; reflexivity].
          -- apply Hok. apply orb_false_iff in Hfl. apply Hfl.
      + cbn [set_since e_since e_opts] in Hadd.
        destruct (eo_kmax (e_opts st) <=? e_since st + 1).
        * destruct (ef_a (fails (e_calls st)) || mux_full maxf st) eqn:Hfl; injection Hadd as <- <-.
          -- apply (einv_err acc st); try reflexivity; [exact He|left; reflexivity].
          -- apply Hok. apply orb_false_iff in Hfl. apply Hfl.
        * destruct (ef_a (fails (e_calls st))).
          { injection Hadd as <- <-. apply (einv_err acc st); try reflexivity; [exact He|left; reflexivity]. }
          match type of Hadd with (if ?c then _ else _) = _ => destruct c end.
          -- destruct (ef_k (fails (e_calls st)) || mux_full maxf st) eqn:Hfl; injection Hadd as <- <-.
             ++ apply (einv_err acc st); try reflexivity; [exact He|left; reflexivity].
             ++ apply Hok. apply orb_false_iff in Hfl. apply Hfl.
          -- destruct (mux_full maxf st) eqn:Hfull; injection Hadd as <- <-.
             ++ apply (einv_err acc st); try exact He;
                  try (match goal with |- context [if ?c then _ else _] => destruct c end; reflexivity).
                match goal with |- context [if ?c then _ else _] => destruct c end;
                  [right; split; [exact Hfull|reflexivity]|left; reflexivity].
             ++ apply Hok. reflexivity.
  Qed.

  Lemma run_e_inv oracle fails fs : forall st acc0 stf acc,
    einv0 acc0 st -> Forall wf_input fs ->
    run_e fx true maxf oracle fails st fs = (stf, acc) ->
    einv0 (acc0 ++ inputs_of W H acc) stf.
  Proof.
    induction fs as [|f rest IH]; intros st acc0 stf acc HP Hwf Hrun.
    - cbn in Hrun. injection Hrun as <- <-. rewrite app_nil_r. exact HP.
    - inversion Hwf as [|? ? Hf Hrest]; subst. cbn [run_e] in Hrun.
      destruct (add_frame_e fx true maxf oracle fails st f) as [st1 ok] eqn:Hadd.
      destruct (run_e fx true maxf oracle fails st1 rest) as [stf' acc'] eqn:Hrest'.
      injection Hrun as <- <-.
      pose proof (step_add_e oracle fails acc0 st f st1 ok HP Hf Hadd) as HP1.
      specialize (IH st1 _ stf' acc' HP1 Hrest Hrest').
      destruct ok; [rewrite <- app_assoc in IH|]; exact IH.
  Qed.

  Theorem generic_error_roundtrip oracle fails has_meta simple st0 frames stf acc out :
    e_W st0 = W -> e_H st0 = H -> e_opts st0 = op -> e_recs st0 = [] -> e_fcount st0 = 0 ->
    e_prev st0 = None ->
    Forall wf_input frames ->
    run_e fx true maxf oracle fails st0 frames = (stf, acc) ->
    close has_meta simple stf = Some out ->
    same_show_by pi W H (eo_loop op) out (playback rt_ll rt_ly fx out) (inputs_of W H acc).
  Proof.
    intros HW0 HH0 Hop0 Hrecs0 Hfc0 Hprev0 Hwf Hrun Hclose.
    assert (HP0 : einv0 [] st0) by (left; split; [reflexivity|repeat split; assumption]).
    pose proof (run_e_inv oracle fails frames st0 [] stf acc HP0 Hwf Hrun) as HP. cbn [app] in HP.
    destruct HP as [[_ Hpre]|(init & last & im & ins' & d & b & Hi & Hrecs & _)].
    - destruct Hpre as (_ & _ & _ & Hr & _). unfold close in Hclose. rewrite Hr in Hclose. discriminate.
    - exact (close_sound has_meta simple stf (inputs_of W H acc) out init last im ins' d b Hi Hrecs Hclose).
  Qed.

  (* nothing is written when every call was refused *)
  Lemma all_refused_nothing_written oracle fails has_meta simple st0 frames stf :
    e_W st0 = W -> e_H st0 = H -> e_opts st0 = op -> e_recs st0 = [] -> e_fcount st0 = 0 ->
    e_prev st0 = None -> Forall wf_input frames ->
    run_e fx true maxf oracle fails st0 frames = (stf, []) ->
    close has_meta simple stf = None.
  Proof.
    intros HW0 HH0 Hop0 Hrecs0 Hfc0 Hprev0 Hwf Hrun.
    assert (HP0 : einv0 [] st0) by (left; split; [reflexivity|repeat split; assumption]).
    pose proof (run_e_inv oracle fails frames st0 [] stf [] HP0 Hwf Hrun) as HP. cbn [app] in HP.
    destruct HP as [[_ Hpre]|(init & last & im & ins' & d & b & Hi & _)].
    - destruct Hpre as (_ & _ & _ & Hr & _). unfold close. rewrite Hr. reflexivity.
    - destruct Hi. destruct ins'; discriminate.
  Qed.

  (* ---------------------------------------------------------------- *)
  (* Pre-encoded frames (AddRawFrame) mixed with AddFrame                *)

  Definition eff (p : option (rect * bool)) : option rect :=
    match p with Some (r, true) => Some r | _ => None end.

  Definition dispose_of (s : dstate0) : canvas :=
    match snd s with Some (r, true) => fill W H (fst s) r | _ => fst s end.

  (* decoder state vs reference state *)
  Definition dagree (ds rs : dstate0) : Prop :=
    psim pi W H (fst ds) (fst rs) /\ eff (snd ds) = eff (snd rs).

  Lemma dispose_psim ds rs : dagree ds rs -> psim pi W H (dispose_of ds) (dispose_of rs).
  Proof.
    intros [Hs He]. unfold dispose_of.
    destruct (snd ds) as [[r [|]]|], (snd rs) as [[r' [|]]|]; cbn [eff] in He;
      try discriminate; try exact Hs.
    injection He as <-. intros x y Hx Hy. rewrite !cget_fill by assumption.
    destruct (in_rect r x y); [reflexivity|apply Hs; assumption].
  Qed.

  Lemma composite_psim via r c c' : rec_ok r -> psim pi W H c c' ->
    psim pi W H (composite W H c (frame_of via r)) (composite W H c' (id_frame r)).
  Proof.
    intros Hok Hs x y Hx Hy. unfold composite. rewrite !cget_tab by lia.
    rewrite (true_rect_frame_of via r Hok).
    change (true_rect (id_frame r)) with (rec_rect r).
    destruct (in_rect (rec_rect r) x y) eqn:Hin; [|apply Hs; assumption].
    pose proof Hok as (Hwf & Hl & Hx0 & Hy0 & Hxe & Hye & _).
    assert (Efx : Canvas.fx (frame_of via r) = m_x r)
      by (unfold frame_of, AnimEncModel.frame_of; cbn [Canvas.fx]; lia).
    assert (Efy : Canvas.fy (frame_of via r) = m_y r)
      by (unfold frame_of, AnimEncModel.frame_of; cbn [Canvas.fy]; lia).
    rewrite Efx, Efy.
    pose proof (fget_frame_of via r x y Hok Hin) as Hf.
    change (fget (id_frame r) (x - Canvas.fx (id_frame r)) (y - Canvas.fy (id_frame r)))
      with (nth (Z.to_nat ((y - m_y r) * iw (m_img r) + (x - m_x r))) (ipix (m_img r)) px0).
    replace (fblend_none (frame_of via r)) with (m_blend_none r) by reflexivity.
    change (fblend_none (id_frame r)) with (m_blend_none r).
    destruct (m_blend_none r); [exact Hf|].
    apply pi_blend; [exact Hf|apply Hs; assumption].
  Qed.

  Definition ucore (R : show) (rs : dstate0) (recs : list mrec) : Prop :=
    Forall rec_ok recs /\
    dagree (dfold W H s0 (frames_of recs)) rs /\
    collapse_rev_by pi (played recs) = collapse_rev_by pi R.

  Lemma ucore_raw R rs recs r : ucore R rs recs -> rec_ok r ->
    ucore (R ++ [(fst (rstep W H rs (ORaw r)), m_dur r)]) (rstep W H rs (ORaw r)) (recs ++ [r]).
  Proof.
    intros (Hok & Hag & Hshow) Hr.
    assert (Hc : psim pi W H (cdec recs r) (fst (rstep W H rs (ORaw r)))).
    { unfold cdec, dstep, rstep; cbn [fst snd].
      apply composite_psim; [exact Hr|]. exact (dispose_psim _ _ Hag). }
    split; [apply Forall_snoc; split; assumption|]. split.
    - unfold frames_of. rewrite map_app. cbn [map]. rewrite dfold_snoc. split.
      + exact Hc.
      + unfold dstep, rstep; cbn [snd eff]. rewrite (true_rect_frame_of false r Hr).
        change (true_rect (id_frame r)) with (rec_rect r).
        change (fdispose_bg (frame_of false r)) with (m_dispose_bg r). reflexivity.
    - rewrite played_snoc, !collapse_rev_by_snoc, Hshow. f_equal. f_equal.
      apply (psim_map pi W H); [lia|lia|apply cdec_length| |exact Hc].
      unfold rstep; cbn [fst]. unfold composite. apply tab_length.
  Qed.

  Lemma inv_ucore ins st init last im ins' d rs :
    invw ins st init last im ins' d -> fst rs = pad W H im -> eff (snd rs) = None ->
    ucore ins rs (init ++ [last]).
  Proof.
    intros Hi Hf He. destruct Hi.
    pose proof (proj2 (proj1 (Forall_snoc _ _ _) i_ok0)) as Hoklast.
    split; [exact i_ok0|]. split.
    - rewrite <- (with_disp_false last i_disp0) at 1. rewrite (dfold_last init last false Hoklast).
      split; cbn [fst snd eff]; [rewrite Hf; exact i_dec0|symmetry; exact He].
    - rewrite played_snoc, collapse_rev_by_snoc. exact i_show0.
  Qed.

  Record uinv (R : show) (rs : dstate0) (st : est) : Prop := {
    u_W : e_W st = W;
    u_H : e_H st = H;
    u_op : e_opts st = op;
    u_prev : e_prev st = None;
    u_core : ucore R rs (e_recs st);
    u_fcount : e_fcount st = Z.of_nat (length (e_recs st))
  }.

  (* the next AddFrame after pre-encoded frames (or the very first one): a key frame *)
  Lemma step_key_u R rs st im2 dur alt :
    uinv R rs st -> wf_img im2 -> 0 <= dur <= max_duration ->
    inv (R ++ [(pad W H im2, dur)]) (encode_keyframe st (pad W H im2) dur alt).
  Proof.
    intros Hu Him2 Hdur. destruct Hu. destruct u_core0 as (Hok & Hag & Hshow).
    set (k := key_rec (pad W H im2) (codec_lossy op alt) dur).
    assert (Hk : rec_ok k)
      by (apply key_rec_ok; [apply wf_pad; exact Him2|apply codec_lossy_fine|exact Hdur]).
    assert (Hs : psim pi W H (cdec (e_recs st) k) (pad W H im2)).
    { unfold cdec, dstep; cbn [fst snd].
      apply key_sound; [apply wf_pad; exact Him2|apply codec_lossy_fine|exact Hdur]. }
    exists (e_recs st), k, im2, R, dur.
    constructor; unfold encode_keyframe; cbn [e_W e_H e_opts e_recs e_pidx e_prect e_prev e_fcount];
      rewrite ?u_W0, ?u_H0, ?u_op0; try reflexivity; try assumption.
    - unfold mux_add. rewrite last_idx_last. reflexivity.
    - apply Forall_snoc. split; assumption.
    - intros x y Hx Hy. apply in_rect_key; assumption.
    - rewrite Hshow, collapse_rev_by_snoc. unfold k at 2, key_rec; cbn [m_dur].
      rewrite clamp_dur_id by exact Hdur. f_equal. f_equal.
      apply (psim_map pi W H); try lia; [apply cdec_length|apply pad_length|exact Hs].
    - rewrite u_fcount0. unfold mux_add. rewrite !app_length. cbn [length]. lia.
    - intros _. repeat split.
  Qed.

  Lemma raw_norm r : rec_ok r ->
    mkmrec (m_x r) (m_y r) (m_img r) (m_lossy r) (m_blend_none r) (m_dispose_bg r) (clamp_dur (m_dur r)) = r.
  Proof.
    intros (_ & _ & _ & _ & _ & _ & _ & _ & Hd). rewrite clamp_dur_id by exact Hd.
    destruct r; reflexivity.
  Qed.

  (* the reference show, snoc-wise *)
  Lemma ref_show_snoc ops : forall s o,
    ref_show W H s (ops ++ [o]) = ref_show W H s ops ++ [(fst (rstep W H (rfold W H s ops) o), op_dur o)].
  Proof.
    induction ops as [|a ops IH]; intros s o; cbn [app ref_show rfold fold_left]; [reflexivity|].
    rewrite IH. reflexivity.
  Qed.

  Lemma rfold_snoc s ops o : rfold W H s (ops ++ [o]) = rstep W H (rfold W H s ops) o.
  Proof. unfold rfold. rewrite fold_left_app. reflexivity. Qed.

  Lemma ref_last s ops R' c d : ref_show W H s ops = R' ++ [(c, d)] -> fst (rfold W H s ops) = c.
  Proof.
    intros HR. destruct (exists_last (l := ops)) as (ops' & o & ->).
    - intros ->. cbn in HR. destruct R'; discriminate.
    - rewrite ref_show_snoc in HR. apply app_inj_tail in HR as [_ HR]. injection HR as <- _.
      rewrite rfold_snoc. reflexivity.
  Qed.

  Definition wf_op (o : AnimEncModel.op) : Prop :=
    match o with OAdd f => wf_input f | ORaw r => rec_ok r end.

  (* the invariant of a mixed history *)
  Definition minv (ops : list AnimEncModel.op) (st : est) : Prop :=
    let R := ref_show W H s0 ops in
    let rs := rfold W H s0 ops in
    (uinv R rs st /\ (e_recs st = [] -> ops = []) /\ (forall r0, e_recs st = [r0] -> ops = [ORaw r0])) \/
    (einv R st /\ eff (snd rs) = None).

  Lemma einv_nonempty st : einv [] st -> False.
  Proof. intros (init & last & im & ins' & d & b & Hi & _). destruct Hi. destruct ins'; discriminate. Qed.

  Lemma uinv_calls R rs st : uinv R rs st -> uinv R rs (set_calls st).
  Proof. intros Hu. destruct Hu. constructor; assumption. Qed.

  Lemma step_op_minv oracle fails ops st o st2 ok :
    minv ops st -> wf_op o ->
    step_op fx maxf oracle fails st o = (st2, ok) ->
    minv (if ok then ops ++ [o] else ops) st2.
  Proof.
    intros HM Hwf Hstep. unfold minv in *. cbv zeta in *.
    set (R := ref_show W H s0 ops) in *. set (rs := rfold W H s0 ops) in *.
    destruct o as [[im2 dur]|r]; cbn [step_op wf_op] in *.
    - (* AddFrame *)
      destruct HM as [(Hu & He0 & He1)|[He Heff]].
      + pose proof Hu as Hu'. destruct Hu'. destruct Hwf as [Him2 Hdur]. cbn [fst snd] in Him2, Hdur.
        unfold add_frame_e in Hstep. rewrite u_prev0 in Hstep.
        destruct (ef_a (fails (e_calls st)) || mux_full maxf st); injection Hstep as <- <-.
        * left. split; [apply uinv_calls; exact Hu|]. split; assumption.
        * right. rewrite ref_show_snoc, rfold_snoc. cbn [rstep fst snd op_dur eff]. fold R.
          split; [|reflexivity]. apply inv_einv. unfold add_frame. apply inv_calls.
          rewrite u_prev0, u_W0, u_H0. apply (step_key_u R rs); assumption.
      + pose proof (step_add_e oracle fails R st (im2, dur) st2 ok (or_intror He) Hwf Hstep) as HP.
        right. destruct ok.
        * rewrite ref_show_snoc, rfold_snoc. cbn [rstep fst snd op_dur eff]. fold R.
          split; [|reflexivity]. destruct HP as [[Habs _]|HP]; [destruct R; discriminate|exact HP].
        * split; [|exact Heff]. destruct HP as [[Habs _]|HP]; [|exact HP].
          fold R in He. rewrite Habs in He. destruct (einv_nonempty _ He).
    - (* AddRawFrame *)
      unfold add_raw_e in Hstep.
      destruct (mux_full maxf st) eqn:Hfull; injection Hstep as <- <-.
      + destruct HM as [(Hu & He0 & He1)|[He Heff]].
        * left. split; [apply uinv_calls; exact Hu|]. split; assumption.
        * right. split; [|exact Heff]. apply (einv_err R st); try reflexivity; [exact He|left; reflexivity].
      + left. rewrite (raw_norm r Hwf). rewrite ref_show_snoc, rfold_snoc. fold R. fold rs. cbn [op_dur].
        destruct HM as [(Hu & He0 & He1)|[He Heff]].
        * destruct Hu. split; [|split].
          -- constructor; cbn [set_calls e_W e_H e_opts e_recs e_prev e_fcount]; try assumption; try reflexivity.
             ++ apply ucore_raw; assumption.
             ++ rewrite u_fcount0, app_length. cbn [length]. lia.
          -- cbn [set_calls e_recs]. intros Habs. destruct (e_recs st); discriminate.
          -- cbn [set_calls e_recs]. intros r0 Hr0. destruct (e_recs st) as [|a [|a' tl]] eqn:Hrecs.
             ++ cbn in Hr0. injection Hr0 as <-. rewrite (He0 eq_refl). reflexivity.
             ++ discriminate.
             ++ discriminate.
        * destruct He as (init & last & im & ins' & d & b & Hi & Hrecs & Hb).
          destruct b; [rewrite (Hb eq_refl) in Hfull; discriminate|].
          pose proof Hi as Hi'. destruct Hi'.
          cbn [set_recs e_W e_H e_opts e_recs e_prev e_fcount e_pidx e_prect]
            in i_W0, i_H0, i_op0, i_fcount0.
          rewrite (with_disp_false last i_disp0) in Hrecs.
          assert (Hfst : fst rs = pad W H im) by (apply (ref_last s0 ops ins' _ d); exact i_ins0).
          pose proof (inv_ucore _ _ _ _ _ _ _ rs Hi Hfst Heff) as Hcore.
          split; [|split].
          -- constructor; cbn [set_calls e_W e_H e_opts e_recs e_prev e_fcount]; try assumption; try reflexivity.
             ++ rewrite Hrecs. apply ucore_raw; assumption.
             ++ rewrite i_fcount0, Hrecs, !app_length. cbn [length]. lia.
          -- cbn [set_calls e_recs]. rewrite Hrecs. intros Habs.
             apply (f_equal (@length _)) in Habs. rewrite !app_length in Habs. cbn in Habs. lia.
          -- cbn [set_calls e_recs]. rewrite Hrecs. intros r0 Hr0.
             apply (f_equal (@length _)) in Hr0. rewrite !app_length in Hr0. cbn in Hr0. lia.
  Qed.

  Lemma run_ops_minv oracle fails ops : forall st acc0 stf acc,
    minv acc0 st -> Forall wf_op ops ->
    run_ops fx maxf oracle fails st ops = (stf, acc) ->
    minv (acc0 ++ acc) stf.
  Proof.
    induction ops as [|o rest IH]; intros st acc0 stf acc HM Hwf Hrun.
    - cbn in Hrun. injection Hrun as <- <-. rewrite app_nil_r. exact HM.
    - inversion Hwf as [|? ? Ho Hrest]; subst. cbn [run_ops] in Hrun.
      destruct (step_op fx maxf oracle fails st o) as [st1 ok] eqn:Hstep.
      destruct (run_ops fx maxf oracle fails st1 rest) as [stf' acc'] eqn:Hrest'.
      injection Hrun as <- <-.
      pose proof (step_op_minv oracle fails acc0 st o st1 ok HM Ho Hstep) as HM1.
      specialize (IH st1 _ stf' acc' HM1 Hrest Hrest').
      destruct ok; [rewrite <- app_assoc in IH|]; exact IH.
  Qed.

  (* Close after pre-encoded frames *)
  Lemma close_u has_meta simple st R rs out :
    uinv R rs st ->
    (forall r0, e_recs st = [r0] -> has_meta = true \/ 0 < m_dur r0 \/
                                     (iw (m_img r0) = W /\ ih (m_img r0) = H)) ->
    close has_meta simple st = Some out ->
    same_show_by pi W H (eo_loop op) out (playback rt_ll rt_ly fx out) R.
  Proof.
    intros Hu Hcanvas Hclose. destruct Hu. destruct u_core0 as (Hok & Hag & Hshow).
    unfold close in Hclose. destruct (e_recs st) as [|r0 tl] eqn:Hrecs; [discriminate|].
    rewrite u_prev0, u_W0, u_H0, u_op0 in Hclose. cbv zeta in Hclose.
    destruct (forallb (rec_valid W H (mux_animated (r0 :: tl))) (r0 :: tl)) eqn:Hval;
      cbn [negb] in Hclose; [|discriminate].
    destruct (mux_animated (r0 :: tl)) eqn:Han.
    - injection Hclose as <-.
      assert (Hpb : playback rt_ll rt_ly fx (mkout false false W H (eo_loop op) (r0 :: tl))
                    = played (r0 :: tl)) by reflexivity.
      assert (Hcol : collapse_by pi (played (r0 :: tl)) = collapse_by pi R)
        by (unfold collapse_by; f_equal; exact Hshow).
      constructor; cbn [out_W out_H out_loop out_still].
      + split; reflexivity.
      + rewrite Hpb, Hcol. reflexivity.
      + intros _. rewrite Hpb. repeat split. exact Hcol.
    - injection Hclose as <-.
      assert (Htl : tl = []).
      { destruct tl as [|a tl']; [reflexivity|]. unfold mux_animated in Han. cbn [length] in Han.
        apply orb_false_iff in Han as [Han _]. lia. }
      subst tl.
      assert (Hr0 : rec_ok r0) by (inversion Hok; assumption).
      assert (Hd0 : m_dur r0 = 0).
      { unfold mux_animated in Han. cbn [existsb length] in Han.
        destruct Hr0 as (_ & _ & _ & _ & _ & _ & _ & _ & Hd). lia. }
      assert (Hxy : m_x r0 = 0 /\ m_y r0 = 0).
      { cbn [forallb] in Hval. unfold rec_valid in Hval. cbn [orb] in Hval. lia. }
      destruct Hxy as [Hx0 Hy0].
      assert (Hdims : has_meta = true \/ (iw (m_img r0) = W /\ ih (m_img r0) = H)).
      { destruct (Hcanvas r0 eq_refl) as [Hm|[Hd|Hd]]; [left; exact Hm|lia|right; exact Hd]. }
      eapply (single_show false (mkmrec 0 0 (m_img r0) (m_lossy r0) false false 0) _ (cdec [] r0) r0);
        try reflexivity.
      + cbn [out_W]. destruct Hdims as [->|[-> _]]; [reflexivity|destruct has_meta; reflexivity].
      + cbn [out_H]. destruct Hdims as [->|[_ ->]]; [reflexivity|destruct has_meta; reflexivity].
      + apply cdec_length.
      + apply (still_sound false r0 (cdec [] r0) Hr0 Hx0 Hy0). intros x y Hx Hy. reflexivity.
      + apply psim_refl.
      + rewrite <- Hshow. unfold played at 1. unfold collapse_rev_by, proj_show, played, frames_of, spec_run.
        cbn [map spec_go combine fold_left push fst snd]. reflexivity.
  Qed.

  Theorem generic_mixed_roundtrip oracle fails has_meta simple st0 ops stf acc out :
    e_W st0 = W -> e_H st0 = H -> e_opts st0 = op -> e_recs st0 = [] -> e_fcount st0 = 0 ->
    e_prev st0 = None ->
    Forall wf_op ops ->
    run_ops fx maxf oracle fails st0 ops = (stf, acc) ->
    (forall r, acc = [ORaw r] -> has_meta = true \/ 0 < m_dur r \/
                                 (iw (m_img r) = W /\ ih (m_img r) = H)) ->
    close has_meta simple stf = Some out ->
    same_show_by pi W H (eo_loop op) out (playback rt_ll rt_ly fx out) (ref_show W H s0 acc).
  Proof.
    intros HW0 HH0 Hop0 Hrecs0 Hfc0 Hprev0 Hwf Hrun Hcanvas Hclose.
    assert (HM0 : minv [] st0).
    { left. split; [|split].
      - constructor; try assumption.
        + rewrite Hrecs0. split; [constructor|]. split; [split; [apply psim_refl|reflexivity]|reflexivity].
        + rewrite Hrecs0, Hfc0. reflexivity.
      - reflexivity.
      - rewrite Hrecs0. discriminate. }
    pose proof (run_ops_minv oracle fails ops st0 [] stf acc HM0 Hwf Hrun) as HM. cbn [app] in HM.
    destruct HM as [(Hu & He0 & He1)|[(init & last & im & ins' & d & b & Hi & Hrecs & _) _]].
    - apply (close_u has_meta simple stf _ _ out Hu); [|exact Hclose].
      intros r0 Hr0. apply Hcanvas. apply He1. exact Hr0.
    - exact (close_sound has_meta simple stf _ out init last im ins' d b Hi Hrecs Hclose).
  Qed.
End Generic.
