(** compositeFrame and fillRect as the nested loops the Go code runs (row by
    row, pixel by pixel, reading and writing the canvas in place through
    NRGBAAt / SetNRGBA), and the proof that they compute the pointwise
    definitions [composite_impl] / [fill_impl] of Anim/AnimDec.v that the
    refinement theorem is stated about. *)
From Coq Require Import List ZArith Lia Bool ZifyBool.
From Webp Require Import Anim.Blend Anim.Canvas Anim.AnimDec Anim.AnimDecProof.
Import ListNotations.
Open Scope Z_scope.

(* image.NRGBA.SetNRGBA: ignores points outside the rectangle *)
Fixpoint list_set {A} (n : nat) (a : A) (l : list A) : list A :=
  match l, n with
  | [], _ => []
  | _ :: tl, O => a :: tl
  | b :: tl, S k => b :: list_set k a tl
  end.

Definition cset (W H : Z) (c : canvas) (x y : Z) (p : px) : canvas :=
  if (0 <=? x) && (x <? W) && (0 <=? y) && (y <? H) then list_set (Z.to_nat (y * W + x)) p c else c.

(* for v := lo; v < lo + n; v++ { c = body v c } *)
Fixpoint loop (n : nat) (v : Z) (body : Z -> canvas -> canvas) (c : canvas) : canvas :=
  match n with
  | O => c
  | S k => loop k (v + 1) body (body v c)
  end.

Definition for_range (lo hi : Z) (body : Z -> canvas -> canvas) (c : canvas) : canvas :=
  loop (Z.to_nat (hi - lo)) lo body c.

Definition composite_loops (W H : Z) (c : canvas) (f : frame) : canvas :=
  let r := intersect (go_bounds f) (canvas_bounds W H) in
  if rect_empty r then c else
  for_range (ry0 r) (ry1 r) (fun y c =>
    let sy := wrap64 (y - fy f) in
    if (sy <? 0) || (fh f <=? sy) then c else
    for_range (rx0 r) (rx1 r) (fun x c =>
      let sx := wrap64 (x - fx f) in
      if (sx <? 0) || (fw f <=? sx) then c else
      let s := fget f sx sy in
      if fblend_none f then cset W H c x y s
      else cset W H c x y (blend_impl s (cget W c x y))) c) c.

Definition fill_loops (W H : Z) (c : canvas) (r : rect) : canvas :=
  let r' := intersect r (canvas_bounds W H) in
  for_range (ry0 r') (ry1 r') (fun y c =>
    for_range (rx0 r') (rx1 r') (fun x c => cset W H c x y px0) c) c.

(* ------------------------------------------------------------------ *)

Lemma list_set_length {A} n (a : A) l : length (list_set n a l) = length l.
Proof. revert n; induction l as [|b tl IH]; intros [|k]; cbn; auto. Qed.

Lemma nth_list_set {A} n m (a d : A) l : (n < length l)%nat ->
  nth m (list_set n a l) d = if Nat.eqb m n then a else nth m l d.
Proof.
  revert n m; induction l as [|b tl IH]; intros n m Hn; [cbn in Hn; lia|].
  destruct n as [|k]; destruct m as [|j]; cbn; try reflexivity.
  apply IH. cbn in Hn. lia.
Qed.

Lemma cset_length W H c x y p : length (cset W H c x y p) = length c.
Proof. unfold cset. destruct (_ && _); [apply list_set_length|reflexivity]. Qed.

Lemma cget_cset W H c x y p x' y' :
  0 < W -> length c = Z.to_nat (W * H) ->
  0 <= x < W -> 0 <= y < H -> 0 <= x' < W -> 0 <= y' < H ->
  cget W (cset W H c x y p) x' y' = if (x' =? x) && (y' =? y) then p else cget W c x' y'.
Proof.
  intros HW Hlen Hx Hy Hx' Hy'. unfold cset, cget.
  destruct (Z.leb_spec 0 x); [|lia]. destruct (Z.ltb_spec x W); [|lia].
  destruct (Z.leb_spec 0 y); [|lia]. destruct (Z.ltb_spec y H); [|lia]. cbn [andb].
  rewrite nth_list_set by (rewrite Hlen; nia).
  destruct (Nat.eqb_spec (Z.to_nat (y' * W + x')) (Z.to_nat (y * W + x))) as [E|E].
  - assert (y' * W + x' = y * W + x) by nia.
    assert (y' = y) by nia. assert (x' = x) by nia. subst.
    rewrite !Z.eqb_refl. reflexivity.
  - destruct (Z.eqb_spec x' x); destruct (Z.eqb_spec y' y); cbn [andb]; try reflexivity.
    subst. contradiction.
Qed.

(** Invariant of a loop whose body only touches cells of "its" index: after the
    loop, every cell that belongs to an index in range has the value the body
    gives it from the ORIGINAL canvas, every other cell is unchanged. *)
Section LoopSpec.
  Variables (W H : Z).
  Hypothesis HW : 0 < W.

  Definition same_len (c c' : canvas) : Prop := length c' = length c.

  (* [owns v x y]: cell (x,y) is written (only) by iteration v;
     [val v c x y]: the value iteration v writes there, computed from canvas c,
     depending on c only through cell (x,y) itself. *)
  Variables (owns : Z -> Z -> Z -> bool) (val : Z -> canvas -> Z -> Z -> px)
            (body : Z -> canvas -> canvas).
  Hypothesis owns_unique : forall v v' x y, owns v x y = true -> owns v' x y = true -> v = v'.
  Hypothesis body_len : forall v c, length (body v c) = length c.
  Hypothesis body_spec : forall v c x y,
    length c = Z.to_nat (W * H) -> 0 <= x < W -> 0 <= y < H ->
    cget W (body v c) x y = if owns v x y then val v c x y else cget W c x y.
  Hypothesis val_local : forall v c c' x y,
    cget W c x y = cget W c' x y -> val v c x y = val v c' x y.

  Lemma loop_spec n : forall lo c x y,
    length c = Z.to_nat (W * H) -> 0 <= x < W -> 0 <= y < H ->
    length (loop n lo body c) = length c /\
    cget W (loop n lo body c) x y =
      match find (fun v => owns v x y) (map (fun k => lo + Z.of_nat k) (seq 0 n)) with
      | Some v => val v c x y
      | None => cget W c x y
      end.
  Proof.
    induction n as [|n IH]; intros lo c x y Hlen Hx Hy; [split; reflexivity|].
    cbn [loop]. destruct (IH (lo + 1) (body lo c) x y ltac:(rewrite body_len; exact Hlen) Hx Hy) as [Hl Hc].
    split; [rewrite Hl; apply body_len|].
    assert (Hlist : map (fun k => lo + Z.of_nat k) (seq 0 (S n)) =
                    lo :: map (fun k => lo + 1 + Z.of_nat k) (seq 0 n)).
    { cbn [seq map]. f_equal; [lia|]. rewrite <- seq_shift, map_map. apply map_ext. intros k. lia. }
    rewrite Hlist, Hc. cbn [find].
    destruct (owns lo x y) eqn:Eo.
    - (* this iteration owns the cell: no later one does *)
      destruct (find (fun v => owns v x y) (map (fun k => lo + 1 + Z.of_nat k) (seq 0 n))) as [v|] eqn:Ef.
      + exfalso. apply find_some in Ef as [Hin Hv]. apply in_map_iff in Hin as (k & <- & _).
        assert (lo = lo + 1 + Z.of_nat k) by (eapply owns_unique; eassumption). lia.
      + rewrite body_spec by assumption. rewrite Eo. reflexivity.
    - destruct (find (fun v => owns v x y) (map (fun k => lo + 1 + Z.of_nat k) (seq 0 n))) as [v|] eqn:Ef.
      + apply val_local. rewrite body_spec by assumption. rewrite Eo. reflexivity.
      + rewrite body_spec by assumption. rewrite Eo. reflexivity.
  Qed.
End LoopSpec.

Lemma find_range_owner lo n (P : Z -> bool) v :
  lo <= v < lo + Z.of_nat n -> P v = true -> (forall v', P v' = true -> v' = v) ->
  find P (map (fun k => lo + Z.of_nat k) (seq 0 n)) = Some v.
Proof.
  intros Hv HP Huniq.
  destruct (find P _) as [u|] eqn:Ef.
  - apply find_some in Ef as [_ Hu]. f_equal. apply Huniq. exact Hu.
  - exfalso. eapply find_none in Ef; [rewrite HP in Ef; discriminate|].
    apply in_map_iff. exists (Z.to_nat (v - lo)). split; [lia|]. apply in_seq. lia.
Qed.

Lemma find_range_none lo n (P : Z -> bool) :
  (forall v, lo <= v < lo + Z.of_nat n -> P v = false) ->
  find P (map (fun k => lo + Z.of_nat k) (seq 0 n)) = None.
Proof.
  intros Hall. destruct (find P _) as [u|] eqn:Ef; [|reflexivity]. exfalso.
  apply find_some in Ef as [Hin Hu]. apply in_map_iff in Hin as (k & <- & Hk). apply in_seq in Hk.
  rewrite Hall in Hu by lia. discriminate.
Qed.

(** The inner (row) loop of compositeFrame. *)
Lemma row_loop_spec W H f y lo hi c x' y' :
  0 < W -> length c = Z.to_nat (W * H) -> 0 <= lo -> hi <= W -> 0 <= y < H ->
  0 <= x' < W -> 0 <= y' < H ->
  let body := fun x c =>
      let sx := wrap64 (x - fx f) in
      if (sx <? 0) || (fw f <=? sx) then c else
      let s := fget f sx (wrap64 (y - fy f)) in
      if fblend_none f then cset W H c x y s
      else cset W H c x y (blend_impl s (cget W c x y)) in
  length (for_range lo hi body c) = length c /\
  cget W (for_range lo hi body c) x' y' =
    if (y' =? y) && (lo <=? x') && (x' <? hi) &&
       negb ((wrap64 (x' - fx f) <? 0) || (fw f <=? wrap64 (x' - fx f)))
    then let s := fget f (wrap64 (x' - fx f)) (wrap64 (y - fy f)) in
         if fblend_none f then s else blend_impl s (cget W c x' y')
    else cget W c x' y'.
Proof.
  intros HW Hlen Hlo Hhi Hy Hx' Hy' body. unfold for_range.
  set (owns := fun (v x0 y0 : Z) => (x0 =? v) && (y0 =? y) &&
                 negb ((wrap64 (v - fx f) <? 0) || (fw f <=? wrap64 (v - fx f))) && (lo <=? v) && (v <? W)).
  set (val := fun (v : Z) (c0 : canvas) (x0 y0 : Z) =>
                 let s := fget f (wrap64 (v - fx f)) (wrap64 (y - fy f)) in
                 if fblend_none f then s else blend_impl s (cget W c0 x0 y0)).
  destruct (Z.le_gt_cases hi lo) as [Hle|Hgt].
  { replace (Z.to_nat (hi - lo)) with O by lia. cbn [loop]. split; [reflexivity|].
    destruct (Z.leb_spec lo x'); destruct (Z.ltb_spec x' hi); try lia;
      rewrite ?andb_false_r; cbn [andb]; reflexivity. }
  set (body' := fun v c0 => if (lo <=? v) && (v <? W) then body v c0 else c0).
  assert (Hbody_eq : forall n v c0, lo <= v -> v + Z.of_nat n <= W ->
     loop n v body c0 = loop n v body' c0).
  { induction n as [|n IHn]; intros v c0 Hv Hn; [reflexivity|]. cbn [loop]. unfold body' at 2.
    destruct (Z.leb_spec lo v); [|lia]. destruct (Z.ltb_spec v W); [|lia]. cbn [andb].
    apply IHn; lia. }
  assert (Hn1 : lo + Z.of_nat (Z.to_nat (hi - lo)) <= W) by (rewrite Z2Nat.id; lia).
  rewrite (Hbody_eq (Z.to_nat (hi - lo)) lo c (Z.le_refl lo) Hn1).
  assert (Huniq : forall v v' x0 y0, owns v x0 y0 = true -> owns v' x0 y0 = true -> v = v')
    by (unfold owns; intros v v' x0 y0 H1 H2; lia).
  assert (Hblen : forall v c0, length (body' v c0) = length c0).
  { intros v c0. unfold body'. destruct ((lo <=? v) && (v <? W)); [|reflexivity].
    unfold body; cbn zeta. destruct (_ || _); [reflexivity|]. destruct (fblend_none f); apply cset_length. }
  assert (Hbs : forall v c0 x0 y0, length c0 = Z.to_nat (W * H) -> 0 <= x0 < W -> 0 <= y0 < H ->
     cget W (body' v c0) x0 y0 = if owns v x0 y0 then val v c0 x0 y0 else cget W c0 x0 y0).
  { intros v c0 x0 y0 Hl0 Hx0 Hy0. unfold body', owns, val.
    destruct (Z.leb_spec lo v); destruct (Z.ltb_spec v W); cbn [andb]; rewrite ?andb_false_r; try reflexivity.
    unfold body; cbn zeta.
    destruct ((wrap64 (v - fx f) <? 0) || (fw f <=? wrap64 (v - fx f))) eqn:Eskip; cbn [negb];
      rewrite ?andb_false_r; [reflexivity|]. rewrite !andb_true_r.
    destruct (fblend_none f); rewrite cget_cset by (try assumption; lia);
      destruct (Z.eqb_spec x0 v); destruct (Z.eqb_spec y0 y); cbn [andb]; subst; reflexivity. }
  assert (Hloc : forall v c0 c1 x0 y0, cget W c0 x0 y0 = cget W c1 x0 y0 -> val v c0 x0 y0 = val v c1 x0 y0).
  { intros v c0 c1 x0 y0 Hc. unfold val. cbn zeta. rewrite Hc. reflexivity. }
  destruct (loop_spec W H owns val body' Huniq Hblen Hbs Hloc (Z.to_nat (hi - lo)) lo c x' y' Hlen Hx' Hy') as [Hl Hc].
  split; [exact Hl|]. rewrite Hc. clear Hc Hl Hbs Hbody_eq Hloc Hblen.
  destruct ((y' =? y) && (lo <=? x') && (x' <? hi) &&
            negb ((wrap64 (x' - fx f) <? 0) || (fw f <=? wrap64 (x' - fx f)))) eqn:Ecase.
  - rewrite (find_range_owner lo (Z.to_nat (hi - lo)) (fun v => owns v x' y') x').
    + unfold val. cbn zeta. reflexivity.
    + lia.
    + unfold owns. rewrite Z.eqb_refl. lia.
    + unfold owns. intros v' Hv'. lia.
  - rewrite find_range_none; [reflexivity|]. intros v Hv. unfold owns.
    destruct (Z.eqb_spec x' v) as [->|]; [|cbn [andb]; reflexivity].
    destruct (Z.eqb_spec y' y) as [->|]; [|rewrite andb_false_r; reflexivity].
    cbn [andb] in *.
    destruct (Z.leb_spec lo v); destruct (Z.ltb_spec v hi); destruct (Z.ltb_spec v W);
      cbn [andb] in *; rewrite ?andb_false_r, ?andb_true_r in *; try reflexivity; try lia;
      try (rewrite Ecase; reflexivity).
Qed.

Lemma loop_length n : forall v (body : Z -> canvas -> canvas) c,
  (forall v c, length (body v c) = length c) -> length (loop n v body c) = length c.
Proof. induction n as [|n IH]; intros v body c Hb; [reflexivity|]. cbn [loop]. rewrite IH by exact Hb. apply Hb. Qed.

Lemma canvas_ext W H (c c' : canvas) : 0 < W -> 0 <= H ->
  length c = Z.to_nat (W * H) -> length c' = Z.to_nat (W * H) ->
  (forall x y, 0 <= x < W -> 0 <= y < H -> cget W c x y = cget W c' x y) -> c = c'.
Proof.
  intros HW HH Hl Hl' Hext. rewrite <- (tab_cget W H c HW HH Hl), <- (tab_cget W H c' HW HH Hl').
  apply tab_ext; [exact HW|]. exact Hext.
Qed.

Lemma intersect_canvas_bounds r W H : 0 < W -> 0 < H ->
  let r' := intersect r (canvas_bounds W H) in
  0 <= rx0 r' /\ rx1 r' <= W /\ 0 <= ry0 r' /\ ry1 r' <= H.
Proof.
  intros HW HH. unfold intersect, canvas_bounds, rect_empty. cbn [rx0 ry0 rx1 ry1].
  destruct ((_ <=? _) || (_ <=? _)); cbn [rx0 ry0 rx1 ry1]; lia.
Qed.

(** A loop over rows whose body rewrites cells of its own row only. *)
Lemma rows_loop_spec W H (rowval : Z -> canvas -> Z -> Z -> px) (rowhit : Z -> Z -> bool)
      (body : Z -> canvas -> canvas) lo hi c x' y' :
  0 < W -> length c = Z.to_nat (W * H) -> 0 <= lo -> hi <= H ->
  0 <= x' < W -> 0 <= y' < H ->
  (forall y c0, length (body y c0) = length c0) ->
  (forall y c0 x0 y0, lo <= y < H -> length c0 = Z.to_nat (W * H) -> 0 <= x0 < W -> 0 <= y0 < H ->
     cget W (body y c0) x0 y0 = if (y0 =? y) && rowhit y x0 then rowval y c0 x0 y0 else cget W c0 x0 y0) ->
  (forall y c0 c1 x0 y0, cget W c0 x0 y0 = cget W c1 x0 y0 -> rowval y c0 x0 y0 = rowval y c1 x0 y0) ->
  length (for_range lo hi body c) = length c /\
  cget W (for_range lo hi body c) x' y' =
    if (lo <=? y') && (y' <? hi) && rowhit y' x' then rowval y' c x' y' else cget W c x' y'.
Proof.
  intros HW Hlen Hlo Hhi Hx' Hy' Hblen Hbspec Hloc. unfold for_range.
  destruct (Z.le_gt_cases hi lo) as [Hle|Hgt].
  { replace (Z.to_nat (hi - lo)) with O by lia. cbn [loop]. split; [reflexivity|].
    destruct (Z.leb_spec lo y'); destruct (Z.ltb_spec y' hi); try lia; cbn [andb]; reflexivity. }
  set (owns := fun (v x0 y0 : Z) => (y0 =? v) && rowhit v x0 && (lo <=? v) && (v <? H)).
  set (body' := fun v c0 => if (lo <=? v) && (v <? H) then body v c0 else c0).
  assert (Hbody_eq : forall n v c0, lo <= v -> v + Z.of_nat n <= H ->
     loop n v body c0 = loop n v body' c0).
  { induction n as [|n IHn]; intros v c0 Hv Hn; [reflexivity|]. cbn [loop]. unfold body' at 2.
    destruct (Z.leb_spec lo v); [|lia]. destruct (Z.ltb_spec v H); [|lia]. cbn [andb].
    apply IHn; lia. }
  assert (Hn1 : lo + Z.of_nat (Z.to_nat (hi - lo)) <= H) by (rewrite Z2Nat.id; lia).
  rewrite (Hbody_eq (Z.to_nat (hi - lo)) lo c (Z.le_refl lo) Hn1).
  assert (Huniq : forall v v' x0 y0, owns v x0 y0 = true -> owns v' x0 y0 = true -> v = v')
    by (unfold owns; intros v v' x0 y0 H1 H2; lia).
  assert (Hbl : forall v c0, length (body' v c0) = length c0).
  { intros v c0. unfold body'. destruct ((lo <=? v) && (v <? H)); [apply Hblen|reflexivity]. }
  assert (Hbs : forall v c0 x0 y0, length c0 = Z.to_nat (W * H) -> 0 <= x0 < W -> 0 <= y0 < H ->
     cget W (body' v c0) x0 y0 = if owns v x0 y0 then rowval v c0 x0 y0 else cget W c0 x0 y0).
  { intros v c0 x0 y0 Hl0 Hx0 Hy0. unfold body', owns.
    destruct (Z.leb_spec lo v); destruct (Z.ltb_spec v H); cbn [andb]; rewrite ?andb_false_r; try reflexivity.
    rewrite !andb_true_r. apply Hbspec; try assumption; lia. }
  destruct (loop_spec W H owns rowval body' Huniq Hbl Hbs Hloc (Z.to_nat (hi - lo)) lo c x' y' Hlen Hx' Hy') as [Hl Hc].
  split; [exact Hl|]. rewrite Hc. clear Hc Hl Hbs Hbody_eq Hbl.
  destruct ((lo <=? y') && (y' <? hi) && rowhit y' x') eqn:Ecase.
  - apply andb_prop in Ecase as [Ecase Ehit]. apply andb_prop in Ecase as [E1 E2].
    rewrite (find_range_owner lo (Z.to_nat (hi - lo)) (fun v => owns v x' y') y'); [reflexivity|lia| |].
    + unfold owns. rewrite Z.eqb_refl, Ehit. cbn [andb]. lia.
    + unfold owns. intros v' Hv'. apply andb_prop in Hv' as [Hv' _]. apply andb_prop in Hv' as [Hv' _].
      apply andb_prop in Hv' as [Hv' _]. lia.
  - rewrite find_range_none; [reflexivity|]. intros v Hv. unfold owns.
    destruct (Z.eqb_spec y' v) as [->|]; [|cbn [andb]; reflexivity].
    cbn [andb] in *.
    destruct (Z.leb_spec lo v); destruct (Z.ltb_spec v hi); destruct (Z.ltb_spec v H);
      cbn [andb] in *; rewrite ?andb_false_r, ?andb_true_r in *; try reflexivity; try lia;
      try (rewrite Ecase; reflexivity).
Qed.

Theorem composite_loops_eq W H c f :
  wf_dims W H -> wf_frame f -> wf_canvas W H c ->
  composite_loops W H c f = composite_impl W H c f.
Proof.
  intros Hd Hf [Hlen Hwc]. pose proof Hd as (HW & HH & HA).
  unfold composite_loops, composite_impl.
  set (r := intersect (go_bounds f) (canvas_bounds W H)).
  destruct (rect_empty r) eqn:He; [reflexivity|].
  destruct (intersect_canvas_bounds (go_bounds f) W H ltac:(lia) ltac:(lia)) as (Bx0 & Bx1 & By0 & By1).
  fold r in Bx0, Bx1, By0, By1.
  set (rowhit := fun (y x : Z) =>
     negb ((wrap64 (y - fy f) <? 0) || (fh f <=? wrap64 (y - fy f))) && (rx0 r <=? x) && (x <? rx1 r) &&
     negb ((wrap64 (x - fx f) <? 0) || (fw f <=? wrap64 (x - fx f)))).
  set (rowval := fun (y : Z) (c0 : canvas) (x0 y0 : Z) =>
     let s := fget f (wrap64 (x0 - fx f)) (wrap64 (y - fy f)) in
     if fblend_none f then s else blend_impl s (cget W c0 x0 y0)).
  set (body := fun y c0 =>
    let sy := wrap64 (y - fy f) in
    if (sy <? 0) || (fh f <=? sy) then c0 else
    for_range (rx0 r) (rx1 r) (fun x c1 =>
      let sx := wrap64 (x - fx f) in
      if (sx <? 0) || (fw f <=? sx) then c1 else
      let s := fget f sx sy in
      if fblend_none f then cset W H c1 x y s
      else cset W H c1 x y (blend_impl s (cget W c1 x y))) c0).
  assert (Hblen : forall y c0, length (body y c0) = length c0).
  { intros y c0. unfold body; cbn zeta. destruct (_ || _); [reflexivity|].
    unfold for_range. apply loop_length. intros v c1.
    destruct (_ || _); [reflexivity|]. destruct (fblend_none f); apply cset_length. }
  assert (Hbspec : forall y c0 x0 y0, ry0 r <= y < H -> length c0 = Z.to_nat (W * H) ->
     0 <= x0 < W -> 0 <= y0 < H ->
     cget W (body y c0) x0 y0 = if (y0 =? y) && rowhit y x0 then rowval y c0 x0 y0 else cget W c0 x0 y0).
  { intros y c0 x0 y0 Hy Hl0 Hx0 Hy0. unfold body, rowhit, rowval; cbn zeta.
    destruct ((wrap64 (y - fy f) <? 0) || (fh f <=? wrap64 (y - fy f))) eqn:Eskip; cbn [negb andb].
    { rewrite andb_false_r. reflexivity. }
    destruct (row_loop_spec W H f y (rx0 r) (rx1 r) c0 x0 y0 ltac:(lia) Hl0 Bx0 Bx1 ltac:(lia) Hx0 Hy0) as [_ Hc].
    cbn zeta in Hc. rewrite Hc.
    destruct (Z.eqb_spec y0 y); cbn [andb]; [|reflexivity].
    destruct ((rx0 r <=? x0) && (x0 <? rx1 r) &&
              negb ((wrap64 (x0 - fx f) <? 0) || (fw f <=? wrap64 (x0 - fx f)))); reflexivity. }
  assert (Hloc : forall y c0 c1 x0 y0, cget W c0 x0 y0 = cget W c1 x0 y0 -> rowval y c0 x0 y0 = rowval y c1 x0 y0).
  { intros y c0 c1 x0 y0 Hc. unfold rowval; cbn zeta. rewrite Hc. reflexivity. }
  apply (canvas_ext W H); try lia.
  - destruct (rows_loop_spec W H rowval rowhit body (ry0 r) (ry1 r) c 0 0 ltac:(lia) Hlen By0 By1
               ltac:(lia) ltac:(lia) Hblen Hbspec Hloc) as [Hl _]. rewrite Hl. exact Hlen.
  - apply tab_length.
  - intros x y Hx Hy.
    destruct (rows_loop_spec W H rowval rowhit body (ry0 r) (ry1 r) c x y ltac:(lia) Hlen By0 By1
               Hx Hy Hblen Hbspec Hloc) as [_ Hc].
    fold body. rewrite Hc, cget_tab by assumption. unfold rowhit, rowval, in_rect; cbn zeta.
    destruct (Z.leb_spec (ry0 r) y); destruct (Z.ltb_spec y (ry1 r));
    destruct (Z.leb_spec (rx0 r) x); destruct (Z.ltb_spec x (rx1 r)); cbn [andb];
      rewrite ?andb_false_r, ?andb_true_r; try reflexivity.
    all: repeat (match goal with |- context [negb ?b] => destruct (negb b); cbn [andb] end); try reflexivity.
Qed.

Theorem fill_loops_eq W H c r :
  wf_dims W H -> length c = Z.to_nat (W * H) -> fill_loops W H c r = fill_impl W H c r.
Proof.
  intros Hd Hlen. pose proof Hd as (HW & HH & HA). unfold fill_loops, fill_impl.
  set (r' := intersect r (canvas_bounds W H)).
  destruct (intersect_canvas_bounds r W H ltac:(lia) ltac:(lia)) as (Bx0 & Bx1 & By0 & By1).
  fold r' in Bx0, Bx1, By0, By1.
  set (rowhit := fun (_ x : Z) => (rx0 r' <=? x) && (x <? rx1 r')).
  set (rowval := fun (_ : Z) (_ : canvas) (_ _ : Z) => px0).
  set (body := fun y c0 => for_range (rx0 r') (rx1 r') (fun x c1 => cset W H c1 x y px0) c0).
  assert (Hblen : forall y c0, length (body y c0) = length c0).
  { intros y c0. unfold body, for_range. apply loop_length. intros v c1. apply cset_length. }
  (* the row loop of fillRect is the row loop of a no-blend composite of transparent pixels *)
  assert (Hrow : forall y c0 x0 y0, 0 <= y < H -> length c0 = Z.to_nat (W * H) -> 0 <= x0 < W -> 0 <= y0 < H ->
     cget W (body y c0) x0 y0 = if (y0 =? y) && rowhit y x0 then px0 else cget W c0 x0 y0).
  { intros y c0 x0 y0 Hy Hl0 Hx0 Hy0. unfold body, for_range, rowhit.
    assert (G : forall n v c1, length c1 = Z.to_nat (W * H) -> 0 <= v -> v + Z.of_nat n <= W ->
       cget W (loop n v (fun x c2 => cset W H c2 x y px0) c1) x0 y0 =
         if (y0 =? y) && (v <=? x0) && (x0 <? v + Z.of_nat n) then px0 else cget W c1 x0 y0).
    { induction n as [|n IHn]; intros v c1 Hl1 Hv Hn.
      - cbn [loop]. destruct (Z.leb_spec v x0); destruct (Z.ltb_spec x0 (v + Z.of_nat 0));
          rewrite ?andb_false_r; cbn [andb]; try reflexivity; lia.
      - cbn [loop]. rewrite IHn by (rewrite ?cset_length; lia).
        rewrite cget_cset by (try assumption; lia).
        destruct (Z.eqb_spec y0 y); cbn [andb]; [|destruct (x0 =? v); reflexivity].
        destruct (Z.eqb_spec x0 v); cbn [andb].
        + subst. destruct (Z.leb_spec (v + 1) v); destruct (Z.leb_spec v v);
            destruct (Z.ltb_spec v (v + Z.of_nat (S n))); cbn [andb]; try lia; try reflexivity;
            try (destruct (Z.ltb_spec v (v + 1 + Z.of_nat n)); reflexivity).
        + destruct (Z.leb_spec (v + 1) x0); destruct (Z.leb_spec v x0);
            destruct (Z.ltb_spec x0 (v + 1 + Z.of_nat n)); destruct (Z.ltb_spec x0 (v + Z.of_nat (S n)));
            cbn [andb]; try lia; reflexivity. }
    destruct (Z.le_gt_cases (rx1 r') (rx0 r')).
    - replace (Z.to_nat (rx1 r' - rx0 r')) with O by lia. cbn [loop].
      destruct (Z.leb_spec (rx0 r') x0); destruct (Z.ltb_spec x0 (rx1 r')); try lia;
        rewrite ?andb_false_r; cbn [andb]; reflexivity.
    - rewrite G by (try assumption; lia). rewrite Z2Nat.id by lia.
      replace (rx0 r' + (rx1 r' - rx0 r')) with (rx1 r') by lia. rewrite andb_assoc. reflexivity. }
  apply (canvas_ext W H); try lia.
  - destruct (rows_loop_spec W H rowval rowhit body (ry0 r') (ry1 r') c 0 0 ltac:(lia) Hlen By0 By1
               ltac:(lia) ltac:(lia) Hblen ltac:(intros; apply Hrow; try assumption; lia)
               ltac:(intros; reflexivity)) as [Hl _]. rewrite Hl. exact Hlen.
  - apply tab_length.
  - intros x y Hx Hy.
    destruct (rows_loop_spec W H rowval rowhit body (ry0 r') (ry1 r') c x y ltac:(lia) Hlen By0 By1
               Hx Hy Hblen ltac:(intros; apply Hrow; try assumption; lia) ltac:(intros; reflexivity)) as [_ Hc].
    fold body. rewrite Hc, cget_tab by assumption. unfold rowhit, rowval, in_rect.
    destruct (Z.leb_spec (ry0 r') y); destruct (Z.ltb_spec y (ry1 r'));
    destruct (Z.leb_spec (rx0 r') x); destruct (Z.ltb_spec x (rx1 r')); cbn [andb]; reflexivity.
Qed.

(* ------------------------------------------------------------------ *)
(** The decoder with the loops as the code runs them. *)

Definition next_frame_loops (W H : Z) (first : bool) (f : frame) (st : dstate) : canvas * dstate :=
  let key := is_key W H first f st in
  let c0 := if key then blank W H else prevd st in          (* clearCanvas / copy(prevFrameDisposed) *)
  let c1 := composite_loops W H c0 f in                      (* compositeFrame *)
  let pd := if fdispose_bg f then fill_loops W H c1 (go_bounds f) else c1 in   (* copy + applyDispose *)
  (c1, mkd c1 pd key (fdispose_bg f) (go_bounds f)).

Fixpoint impl_go_loops (W H : Z) (first : bool) (st : dstate) (fs : list frame) : list canvas :=
  match fs with
  | [] => []
  | f :: fs' =>
      let '(snap, st') := next_frame_loops W H first f st in
      snap :: impl_go_loops W H false st' fs'
  end.

Definition impl_run_loops (W H : Z) (fs : list frame) : list canvas :=
  impl_go_loops W H true (dinit W H) fs.

Lemma wf_fill_impl W H c r : 0 < W -> wf_canvas W H c -> wf_canvas W H (fill_impl W H c r).
Proof.
  intros HW [_ Hc]. unfold fill_impl. apply wf_canvas_tab; [exact HW|]. intros x y Hx Hy.
  destruct (in_rect _ x y); [apply wf_px0|apply Hc; assumption].
Qed.

Lemma next_frame_loops_eq W H first f st :
  wf_dims W H -> wf_frame f -> wf_canvas W H (prevd st) ->
  next_frame_loops W H first f st = next_frame W H first f st /\
  wf_canvas W H (prevd (snd (next_frame W H first f st))).
Proof.
  intros Hd Hf Hp. pose proof Hd as (HW & HH & HA).
  unfold next_frame_loops, next_frame.
  set (c0 := if is_key W H first f st then blank W H else prevd st).
  assert (Hc0 : wf_canvas W H c0) by (unfold c0; destruct (is_key _ _ _ _ _); [apply wf_blank; lia|exact Hp]).
  rewrite (composite_loops_eq W H c0 f Hd Hf Hc0).
  assert (Hc1 : wf_canvas W H (composite_impl W H c0 f)).
  { rewrite (composite_impl_eq W H c0 f Hd Hf Hc0). apply wf_composite; [lia|exact Hc0|apply (wf_pix f Hf)]. }
  rewrite (fill_loops_eq W H _ (go_bounds f) Hd (proj1 Hc1)).
  split; [reflexivity|]. cbn [snd prevd].
  destruct (fdispose_bg f); [apply wf_fill_impl; [lia|exact Hc1]|exact Hc1].
Qed.

Lemma impl_go_loops_eq W H fs : forall first st,
  wf_dims W H -> Forall wf_frame fs -> wf_canvas W H (prevd st) ->
  impl_go_loops W H first st fs = impl_go W H first st fs.
Proof.
  induction fs as [|f fs IH]; intros first st Hd Hwf Hp; [reflexivity|].
  inversion Hwf as [|? ? Hf Hwf']; subst. cbn [impl_go_loops impl_go].
  destruct (next_frame_loops_eq W H first f st Hd Hf Hp) as [E Hp'].
  rewrite E. destruct (next_frame W H first f st) as [snap st'] eqn:En. cbn [snd] in Hp'.
  f_equal. apply IH; assumption.
Qed.

(** The decoder as the code runs it — in-place nested loops over the clipped
    rectangle, NRGBAAt/SetNRGBA, the key-frame shortcut — produces exactly the
    canvases the container specification defines. *)
Theorem animdec_loops_refine_spec W H fs :
  wf_dims W H -> Forall wf_frame fs -> impl_run_loops W H fs = spec_run W H fs.
Proof.
  intros Hd Hwf. unfold impl_run_loops. rewrite impl_go_loops_eq; try assumption.
  - apply animdec_refines_spec; assumption.
  - cbn. apply wf_blank. destruct Hd; lia.
Qed.
