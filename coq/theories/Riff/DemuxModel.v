(** Implementation model of mux/chunk.go (ReadChunkHeader, ReadChunk) and
    mux/demux.go (Demuxer.parse, parseSimpleVP8/VP8L, parseExtended, parseANIM,
    parseANMF, parseSingleExtendedFrame, parseVP8Dimensions, parseVP8LDimensions,
    frameDataHasAlpha, Frame, GetChunk and the accessors).

    Bytes are [Z] in [0,256).  Every Go slice / index expression is a [slice] /
    fixed-size pattern match that evaluates to [Panic] when the Go runtime would
    panic.  A Go slice that may be nil is an [option (list Z)].  The two [for]
    loops over chunks run on the remaining suffix ([payload[pos:]]) with explicit
    fuel; running out of fuel is the error [E_fuel], which [DemuxTotal] proves
    unreachable.

    The parameter [fx : bool] selects the pinned code ([false]) or the code with
    the patch work/patches/c05-demux-riff-size.diff applied ([true]): the only
    difference is the check [totalSize < RIFFHeaderSize] before
    [d.data[12:totalSize]]. *)
From Coq Require Import List ZArith Lia Bool.
From Webp Require Import Base.Res Base.Bytes.
Import ListNotations.
Open Scope Z_scope.

Definition len {A} (l : list A) : Z := Z.of_nat (length l).

(** FourCC values as the uint32 the code compares (container/constants.go). *)
Definition FCC_RIFF : Z := 1179011410.
Definition FCC_WEBP : Z := 1346520407.
Definition FCC_VP8  : Z := 540561494.
Definition FCC_VP8L : Z := 1278758998.
Definition FCC_VP8X : Z := 1480085590.
Definition FCC_ALPH : Z := 1213221953.
Definition FCC_ANIM : Z := 1296649793.
Definition FCC_ANMF : Z := 1179471425.
Definition FCC_ICCP : Z := 1346585417.
Definition FCC_EXIF : Z := 1179211845.
Definition FCC_XMP  : Z := 542133592.

Definition ChunkHeaderSize : Z := 8.
Definition RIFFHeaderSize : Z := 12.
Definition ANMFChunkSize : Z := 16.
Definition ANIMChunkSize : Z := 6.
Definition VP8XChunkSize : Z := 10.
Definition MaxChunkPayload : Z := 4294967286.
Definition MaxImageArea : Z := 1073741824.
Definition maxMetadataSize : Z := 104857600.
Definition maxFrames : Z := 10000.
Definition VP8LMagicByte : Z := 47.
Definition maxint : Z := 2^63 - 1.

(** error classes (never compared with the Go error texts) *)
Definition E_riff : nat := 1.
Definition E_trunc : nat := 2.
Definition E_noimage : nat := 3.
Definition E_vp8x : nat := 4.
Definition E_anim : nat := 5.
Definition E_anmf : nat := 6.
Definition E_frame : nat := 7.
Definition E_range : nat := 8.
Definition E_notfound : nat := 9.
Definition E_meta : nat := 10.
Definition E_toomany : nat := 11.
Definition E_hdr : nat := 12.
Definition E_big : nat := 13.
Definition E_unknown : nat := 14.
Definition E_fuel : nat := 99.

(** binary.LittleEndian.Uint32(d[lo:lo+4]) *)
Definition u32at (d : list Z) (lo : Z) : Res Z :=
  s <- slice d lo (lo + 4) ;; Ok (rd32 s).

Record chunk := mkchunk { c_id : Z; c_size : Z; c_data : list Z }.

(** ReadChunkHeader *)
Definition read_chunk_header (d : list Z) : Res (Z * Z) :=
  if len d <? ChunkHeaderSize then Err E_hdr else
  id <- u32at d 0 ;;
  sz <- u32at d 4 ;;
  if sz >? MaxChunkPayload then Err E_big else Ok (id, sz).

(** ReadChunk: the chunk and the number of bytes consumed (with padding byte) *)
Definition read_chunk (d : list Z) : Res (chunk * Z) :=
  '(id, sz) <- read_chunk_header d ;;
  let payloadEnd := ChunkHeaderSize + sz in
  if payloadEnd >? len d then Err E_trunc else
  dat <- slice d ChunkHeaderSize payloadEnd ;;
  let consumed := if negb (sz mod 2 =? 0) && (payloadEnd <? len d)
                  then payloadEnd + 1 else payloadEnd in
  Ok (mkchunk id sz dat, consumed).

Record features := mkfeat {
  ft_w : Z; ft_h : Z;
  ft_alpha : bool; ft_anim : bool; ft_icc : bool; ft_exif : bool; ft_xmp : bool;
  ft_format : Z }.

Record frame_info := mkfi {
  fi_data : option (list Z);     (* Data (nil or a sub-slice of the input) *)
  fi_alpha : option (list Z);    (* AlphaData *)
  fi_w : Z; fi_h : Z; fi_ox : Z; fi_oy : Z; fi_dur : Z;
  fi_key : bool; fi_hasalpha : bool;
  fi_blend : Z; fi_dispose : Z }.

Record dstate := mkd {
  d_chunks : list chunk;
  d_feat : features;
  d_frames : list frame_info;
  d_icc : option (list Z); d_exif : option (list Z); d_xmp : option (list Z);
  d_bg : Z; d_loop : Z }.

Definition feat0 : features := mkfeat 0 0 false false false false false 0.
Definition dinit : dstate := mkd [] feat0 [] None None None 0 0.

(** parseVP8Dimensions *)
Definition parse_vp8_dims (d : list Z) : Res (Z * Z) :=
  if len d <? 10 then Err E_frame else
  match d with
  | _ :: _ :: _ :: b3 :: b4 :: b5 :: b6 :: b7 :: b8 :: b9 :: _ =>
    if negb (b3 =? 157) || negb (b4 =? 1) || negb (b5 =? 42) then Err E_frame
    else Ok ((b6 + 256 * b7) mod 16384, (b8 + 256 * b9) mod 16384)
  | _ => Panic
  end.

(** parseVP8LDimensions: width, height, alpha bit *)
Definition parse_vp8l_dims (d : list Z) : Res (Z * Z * bool) :=
  if len d <? 5 then Err E_frame else
  match d with
  | b0 :: b1 :: b2 :: b3 :: b4 :: _ =>
    if negb (b0 =? VP8LMagicByte) then Err E_frame else
    let bits := b1 + 256 * b2 + 65536 * b3 + 16777216 * b4 in
    Ok (bits mod 16384 + 1, (bits / 16384) mod 16384 + 1, negb ((bits / 268435456) mod 2 =? 0))
  | _ => Panic
  end.

(** frameDataHasAlpha *)
Definition frame_data_has_alpha (d : list Z) : Res bool :=
  if len d <? 5 then Ok false else
  match d with
  | b0 :: b1 :: b2 :: b3 :: b4 :: _ =>
    if b0 =? VP8LMagicByte then
      let bits := b1 + 256 * b2 + 65536 * b3 + 16777216 * b4 in
      Ok (negb ((bits / 268435456) mod 2 =? 0))
    else Ok false
  | _ => Panic
  end.

Definition olen (o : option (list Z)) : Z := match o with Some l => len l | None => 0 end.

(** parseSimpleVP8 *)
Definition parse_simple_vp8 (payload : list Z) : Res dstate :=
  '(c, _) <- read_chunk payload ;;
  '(w, h) <- parse_vp8_dims (c_data c) ;;
  Ok (mkd [c] (mkfeat w h false false false false false 1)
          [mkfi (Some (c_data c)) None w h 0 0 0 true false 0 0]
          None None None 0 0).

(** parseSimpleVP8L *)
Definition parse_simple_vp8l (payload : list Z) : Res dstate :=
  '(c, _) <- read_chunk payload ;;
  '(w, h, a) <- parse_vp8l_dims (c_data c) ;;
  Ok (mkd [c] (mkfeat w h a false false false false 2)
          [mkfi (Some (c_data c)) None w h 0 0 0 true a 0 0]
          None None None 0 0).

(** parseANIM *)
Definition parse_anim (d : dstate) (data : list Z) : Res dstate :=
  if len data <? ANIMChunkSize then Err E_anim else
  match data with
  | b0 :: b1 :: b2 :: b3 :: b4 :: b5 :: _ =>
    Ok (mkd (d_chunks d) (d_feat d) (d_frames d) (d_icc d) (d_exif d) (d_xmp d)
            (b0 + 256 * b1 + 65536 * b2 + 16777216 * b3) (b4 + 256 * b5))
  | _ => Panic
  end.

Definition is_image_id (id : Z) : bool := (id =? FCC_VP8) || (id =? FCC_VP8L).

(** the sub-chunk loop of parseANMF, on the suffix framePayload[pos:] *)
Fixpoint anmf_loop (fuel : nat) (fp : list Z) (img alpha : option (list Z))
  : Res (option (list Z) * option (list Z)) :=
  match fuel with
  | O => Err E_fuel
  | S f =>
    if len fp <? ChunkHeaderSize then Ok (img, alpha) else
    match read_chunk_header fp with
    | Panic => Panic
    | Err _ => Ok (img, alpha)
    | Ok (id, sz) =>
      let subEnd := ChunkHeaderSize + sz in
      if subEnd >? len fp then Ok (img, alpha) else
      sub <- slice fp ChunkHeaderSize subEnd ;;
      let img' := if is_image_id id then Some sub else img in
      let alpha' := if id =? FCC_ALPH then Some sub else alpha in
      let adv := if negb (sz mod 2 =? 0) && (subEnd <? len fp) then subEnd + 1 else subEnd in
      if adv <=? 0 then Ok (img', alpha') else
      rest <- slice fp adv (len fp) ;;
      anmf_loop f rest img' alpha'
    end
  end.

Definition set_frames (d : dstate) (fs : list frame_info) : dstate :=
  mkd (d_chunks d) (d_feat d) fs (d_icc d) (d_exif d) (d_xmp d) (d_bg d) (d_loop d).

(** parseANMF *)
Definition parse_anmf (d : dstate) (data : list Z) : Res dstate :=
  if len data <? ANMFChunkSize then Err E_anmf else
  match data with
  | x0 :: x1 :: x2 :: y0 :: y1 :: y2 :: w0 :: w1 :: w2 :: h0 :: h1 :: h2 ::
    t0 :: t1 :: t2 :: fl :: framePayload =>
    let offsetX := (x0 + 256 * x1 + 65536 * x2) * 2 in
    let offsetY := (y0 + 256 * y1 + 65536 * y2) * 2 in
    let width := (w0 + 256 * w1 + 65536 * w2) + 1 in
    let height := (h0 + 256 * h1 + 65536 * h2) + 1 in
    let duration := t0 + 256 * t1 + 65536 * t2 in
    if (offsetX <? 0) || (offsetY <? 0) then Err E_anmf else
    if width * height >=? MaxImageArea then Err E_anmf else
    let dispose := if negb (fl mod 2 =? 0) then 1 else 0 in
    let blend := if negb ((fl / 2) mod 2 =? 0) then 1 else 0 in
    '(img, alpha) <- anmf_loop (S (length framePayload)) framePayload None None ;;
    hasA <- (if 0 <? olen alpha then Ok true
             else match img with
                  | Some i => if 0 <? len i then frame_data_has_alpha i else Ok false
                  | None => Ok false
                  end) ;;
    if len (d_frames d) >=? maxFrames then Err E_toomany else
    Ok (set_frames d (d_frames d ++
          [mkfi img alpha width height offsetX offsetY duration
                (len (d_frames d) =? 0) hasA blend dispose]))
  | _ => Panic
  end.

(** the chunk loop of parseSingleExtendedFrame, on the suffix payload[pos:] *)
Fixpoint single_loop (fuel : nat) (p : list Z) (img alpha : option (list Z))
  : Res (option (list Z) * option (list Z)) :=
  match fuel with
  | O => Err E_fuel
  | S f =>
    if len p <? ChunkHeaderSize then Ok (img, alpha) else
    match read_chunk p with
    | Panic => Panic
    | Err _ => Ok (img, alpha)
    | Ok (c, n) =>
      let alpha' := if c_id c =? FCC_ALPH then Some (c_data c) else alpha in
      let img' := if is_image_id (c_id c) then Some (c_data c) else img in
      match img' with
      | Some _ => Ok (img', alpha')
      | None => rest <- slice p n (len p) ;; single_loop f rest img' alpha'
      end
    end
  end.

(** parseSingleExtendedFrame *)
Definition parse_single_ext (d : dstate) (payload : list Z) : Res dstate :=
  '(img, alpha) <- single_loop (S (length payload)) payload None None ;;
  match img with
  | None => Err E_noimage
  | Some i =>
    hasA <- (if 0 <? olen alpha then Ok true else frame_data_has_alpha i) ;;
    Ok (set_frames d [mkfi (Some i) alpha (ft_w (d_feat d)) (ft_h (d_feat d)) 0 0 0 true hasA 0 0])
  end.

Definition add_chunk (d : dstate) (c : chunk) : dstate :=
  mkd (d_chunks d ++ [c]) (d_feat d) (d_frames d) (d_icc d) (d_exif d) (d_xmp d) (d_bg d) (d_loop d).
Definition set_icc (d : dstate) (x : list Z) : dstate :=
  mkd (d_chunks d) (d_feat d) (d_frames d) (Some x) (d_exif d) (d_xmp d) (d_bg d) (d_loop d).
Definition set_exif (d : dstate) (x : list Z) : dstate :=
  mkd (d_chunks d) (d_feat d) (d_frames d) (d_icc d) (Some x) (d_xmp d) (d_bg d) (d_loop d).
Definition set_xmp (d : dstate) (x : list Z) : dstate :=
  mkd (d_chunks d) (d_feat d) (d_frames d) (d_icc d) (d_exif d) (Some x) (d_bg d) (d_loop d).

(** the switch inside parseExtended's loop; [rest] is payload[pos:] *)
Definition ext_dispatch (d : dstate) (c : chunk) (rest : list Z) : Res dstate :=
  let id := c_id c in
  if id =? FCC_ICCP then
    (if len (c_data c) >? maxMetadataSize then Err E_meta else Ok (set_icc d (c_data c)))
  else if id =? FCC_EXIF then
    (if len (c_data c) >? maxMetadataSize then Err E_meta else Ok (set_exif d (c_data c)))
  else if id =? FCC_XMP then
    (if len (c_data c) >? maxMetadataSize then Err E_meta else Ok (set_xmp d (c_data c)))
  else if id =? FCC_ANIM then parse_anim d (c_data c)
  else if id =? FCC_ANMF then parse_anmf d (c_data c)
  else if (id =? FCC_VP8) || (id =? FCC_VP8L) || (id =? FCC_ALPH) then
    (if negb (ft_anim (d_feat d)) && (len (d_frames d) =? 0)
     then parse_single_ext d rest else Ok d)
  else Ok d.

(** the chunk loop of parseExtended, on the suffix payload[pos:] *)
Fixpoint ext_loop (fuel : nat) (rest : list Z) (d : dstate) : Res dstate :=
  match fuel with
  | O => Err E_fuel
  | S f =>
    if len rest <? ChunkHeaderSize then Ok d else
    match read_chunk rest with
    | Panic => Panic
    | Err _ => Ok d
    | Ok (c, n) =>
      d2 <- ext_dispatch (add_chunk d c) c rest ;;
      rest' <- slice rest n (len rest) ;;
      ext_loop f rest' d2
    end
  end.

(** parseExtended *)
Definition parse_extended (payload : list Z) : Res dstate :=
  '(vp8x, consumed) <- read_chunk payload ;;
  if c_size vp8x <? VP8XChunkSize then Err E_vp8x else
  match c_data vp8x with
  | flags :: _ :: _ :: _ :: w0 :: w1 :: w2 :: h0 :: h1 :: h2 :: _ =>
    let cw := (w0 + 256 * w1 + 65536 * w2) + 1 in
    let ch := (h0 + 256 * h1 + 65536 * h2) + 1 in
    (* same cap as container.Parser.parseVP8X *)
    if cw * ch >=? MaxImageArea then Err E_vp8x else
    let bit k := negb ((flags / k) mod 2 =? 0) in
    let ft := mkfeat cw ch (bit 16) (bit 2) (bit 32) (bit 8) (bit 4) 3 in
    let d := mkd [vp8x] ft [] None None None 0 0 in
    rest <- slice payload consumed (len payload) ;;
    d' <- ext_loop (S (length rest)) rest d ;;
    if len (d_frames d') =? 0 then Err E_noimage else Ok d'
  | _ => Panic
  end.

(** Demuxer.parse = NewDemuxer.  [fx = true]: with the RIFF-size patch.  Every
    loop runs with fuel = 1 + length of the bytes it walks (each iteration consumes
    at least 8 of them; sufficiency is proved in DemuxTotal). *)
Definition parse (fx : bool) (data : list Z) : Res dstate :=
  if len data <? RIFFHeaderSize then Err E_riff else
  riffTag <- u32at data 0 ;;
  if negb (riffTag =? FCC_RIFF) then Err E_riff else
  fileSize <- u32at data 4 ;;
  webpTag <- u32at data 8 ;;
  if negb (webpTag =? FCC_WEBP) then Err E_riff else
  let total64 := fileSize + 8 in
  let total64 := if total64 >? len data then len data else total64 in
  if total64 >? maxint then Err E_trunc else
  if fx && (total64 <? RIFFHeaderSize) then Err E_trunc else
  payload <- slice data RIFFHeaderSize total64 ;;
  if len payload <? ChunkHeaderSize then Err E_noimage else
  firstTag <- u32at payload 0 ;;
  if firstTag =? FCC_VP8X then parse_extended payload
  else if firstTag =? FCC_VP8 then parse_simple_vp8 payload
  else if firstTag =? FCC_VP8L then parse_simple_vp8l payload
  else Err E_unknown.

(** Demuxer.Frame(index) *)
Definition frame (d : dstate) (i : Z) : Res frame_info :=
  if (i <? 0) || (i >=? len (d_frames d)) then Err E_range else index (d_frames d) i.

(** Demuxer.GetChunk(id) *)
Definition get_chunk (d : dstate) (id : Z) : Res (list Z) :=
  let opt o := match o with Some x => Ok x | None => Err E_notfound end in
  if id =? FCC_ICCP then opt (d_icc d)
  else if id =? FCC_EXIF then opt (d_exif d)
  else if id =? FCC_XMP then opt (d_xmp d)
  else match find (fun c => c_id c =? id) (d_chunks d) with
       | Some c => Ok (c_data c)
       | None => Err E_notfound
       end.

Definition num_frames (d : dstate) : Z := len (d_frames d).

(** The pinned code before commit 078db33 (no RIFF-size check).  Only used in
    [_refuted] theorems; the correspondence runs [parse true], the current code. *)
Definition pinned_parse (data : list Z) : Res dstate := parse false data.
