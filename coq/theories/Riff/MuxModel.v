(** Implementation model of mux/mux.go: the Muxer as [minit] + [step] over the
    setter/AddFrame operations (with their clamping), isAnimated, needsVP8X,
    validate, canvasSize, frameDimensions, splitAlphaAndBitstream, hasAlpha,
    detectBitstreamType, chunkTotalSize, frameSubChunksSize, writeDataChunk,
    putLE24, assembleSimple, assembleExtended, writeANMFChunk, Assemble.

    Go [int] is 64-bit two's complement ([wrap64] where the code relies on
    overflow), [uint32] conversions are [u32].  A Go slice that may be nil is an
    [option (list Z)] (SetEXIF(nil) vs SetEXIF([]byte{})).

    [fixes] selects the pinned code or the code with the patches under
    work/patches applied:
      fx_alpha    c14-mux-still-alpha.diff    a still image whose data carries an
                  ALPH prefix needs VP8X and is written as ALPH + VP8 chunks
      fx_validate c14-mux-validate.diff       validate rejects negative / too
                  large offsets, canvases beyond the container limits, and still
                  images whose offset is non-zero. *)
From Coq Require Import List ZArith Lia Bool.
From Webp Require Import Base.Res Base.Bytes Riff.DemuxModel.
Import ListNotations.
Open Scope Z_scope.

Record fixes := mkfx { fx_alpha : bool; fx_validate : bool }.
Definition pinned : fixes := mkfx false false.
Definition repaired : fixes := mkfx true true.

Definition wrap64 (z : Z) : Z := (z + 2^63) mod 2^64 - 2^63.
Definition u32 (z : Z) : Z := z mod 4294967296.

Definition maxDuration : Z := 16777215.
Definition maxLoopCount : Z := 65535.
Definition MaxCanvasSize : Z := 16777216.
Definition MaxFrames : Z := 10000.
Definition MaxPositionOff : Z := 16777216.

Record fopts := mkfo { o_dur : Z; o_ox : Z; o_oy : Z; o_blend : Z; o_dispose : Z }.
Definition fopts0 : fopts := mkfo 0 0 0 0 0.
Record mframe := mkmf { f_data : list Z; f_opts : fopts }.

Record mstate := mkm {
  m_frames : list mframe;
  m_icc : option (list Z); m_exif : option (list Z); m_xmp : option (list Z);
  m_bg : Z; m_loop : Z; m_cw : Z; m_ch : Z }.

Definition minit : mstate := mkm [] None None None 0 0 0 0.

Inductive op :=
| AddFrame (data : list Z) (opts : option fopts)
| SetFrameDisposeMode (i mode : Z)
| SetFrameDuration (i dur : Z)
| SetICC (d : option (list Z))
| SetEXIF (d : option (list Z))
| SetXMP (d : option (list Z))
| AddChunk (id : Z) (d : option (list Z))
| SetLoopCount (n : Z)
| SetBackgroundColor (c : Z)
| SetCanvasSize (w h : Z)
| AssembleCall.   (* Muxer.Assemble(w) in the middle of a history: reads the state, never changes it *)

(** what a call returns: nil or an error (setters without result: always nil) *)
Inductive out := OutOk | OutErr.

Definition clamp_duration (d : Z) : Z :=
  if d <? 0 then 0 else if d >? maxDuration then maxDuration else d.

Definition set_frames (m : mstate) (fs : list mframe) : mstate :=
  mkm fs (m_icc m) (m_exif m) (m_xmp m) (m_bg m) (m_loop m) (m_cw m) (m_ch m).

(** m.frames[index].opts... = ... for 0 <= index < len *)
Fixpoint upd_nth (fs : list mframe) (i : nat) (g : fopts -> fopts) : list mframe :=
  match fs, i with
  | [], _ => []
  | f :: tl, O => mkmf (f_data f) (g (f_opts f)) :: tl
  | f :: tl, S j => f :: upd_nth tl j g
  end.

Definition upd_frame (m : mstate) (i : Z) (g : fopts -> fopts) : mstate :=
  if (0 <=? i) && (i <? len (m_frames m))
  then set_frames m (upd_nth (m_frames m) (Z.to_nat i) g) else m.

Definition step (m : mstate) (o : op) : mstate * out :=
  match o with
  | AddFrame data opts =>
    if len data =? 0 then (m, OutErr) else
    if len (m_frames m) >=? MaxFrames then (m, OutErr) else
    let fo := match opts with Some x => x | None => fopts0 end in
    let fo := mkfo (clamp_duration (o_dur fo)) (o_ox fo) (o_oy fo) (o_blend fo) (o_dispose fo) in
    (set_frames m (m_frames m ++ [mkmf data fo]), OutOk)
  | SetFrameDisposeMode i mode =>
    (upd_frame m i (fun fo => mkfo (o_dur fo) (o_ox fo) (o_oy fo) (o_blend fo) mode), OutOk)
  | SetFrameDuration i dur =>
    (upd_frame m i (fun fo => mkfo (clamp_duration dur) (o_ox fo) (o_oy fo) (o_blend fo) (o_dispose fo)), OutOk)
  | SetICC d => (mkm (m_frames m) d (m_exif m) (m_xmp m) (m_bg m) (m_loop m) (m_cw m) (m_ch m), OutOk)
  | SetEXIF d => (mkm (m_frames m) (m_icc m) d (m_xmp m) (m_bg m) (m_loop m) (m_cw m) (m_ch m), OutOk)
  | SetXMP d => (mkm (m_frames m) (m_icc m) (m_exif m) d (m_bg m) (m_loop m) (m_cw m) (m_ch m), OutOk)
  | AddChunk id d =>
    if olen d >? maxMetadataSize then (m, OutErr) else
    if id =? FCC_ICCP then (mkm (m_frames m) d (m_exif m) (m_xmp m) (m_bg m) (m_loop m) (m_cw m) (m_ch m), OutOk)
    else if id =? FCC_EXIF then (mkm (m_frames m) (m_icc m) d (m_xmp m) (m_bg m) (m_loop m) (m_cw m) (m_ch m), OutOk)
    else if id =? FCC_XMP then (mkm (m_frames m) (m_icc m) (m_exif m) d (m_bg m) (m_loop m) (m_cw m) (m_ch m), OutOk)
    else (m, OutOk)
  | SetLoopCount n =>
    let n := if n <? 0 then 0 else if n >? maxLoopCount then maxLoopCount else n in
    (mkm (m_frames m) (m_icc m) (m_exif m) (m_xmp m) (m_bg m) n (m_cw m) (m_ch m), OutOk)
  | SetBackgroundColor c =>
    (mkm (m_frames m) (m_icc m) (m_exif m) (m_xmp m) c (m_loop m) (m_cw m) (m_ch m), OutOk)
  | SetCanvasSize w h =>
    let w := if w >? MaxCanvasSize then MaxCanvasSize else w in
    let h := if h >? MaxCanvasSize then MaxCanvasSize else h in
    (mkm (m_frames m) (m_icc m) (m_exif m) (m_xmp m) (m_bg m) (m_loop m) w h, OutOk)
  | AssembleCall => (m, OutOk)   (* its own result is [assemble] of the state, see extract/c14/run.ml *)
  end.

Definition run (ops : list op) : mstate := fold_left (fun m o => fst (step m o)) ops minit.

(** splitAlphaAndBitstream: (alphaData or nil, bitstream) *)
Definition split_alpha (data : list Z) : option (list Z) * list Z :=
  if len data <? ChunkHeaderSize then (None, data) else
  match data with
  | a0 :: a1 :: a2 :: a3 :: s0 :: s1 :: s2 :: s3 :: body =>
    if rd32 [a0; a1; a2; a3] =? FCC_ALPH then
      let alphSize := rd32 [s0; s1; s2; s3] in
      let alphEnd := ChunkHeaderSize + alphSize in
      if alphEnd <=? len data then
        let alpha := firstn (Z.to_nat alphSize) body in
        let rest := if negb (alphSize mod 2 =? 0) && (alphEnd <? len data) then alphEnd + 1 else alphEnd in
        (Some alpha, skipn (Z.to_nat (rest - ChunkHeaderSize)) body)
      else (None, data)
    else (None, data)
  | _ => (None, data)
  end.

(** frameDimensions *)
Definition frame_dims (data : list Z) : Z * Z :=
  let bs := snd (split_alpha data) in
  let vp8 :=
    if len bs >=? 10 then
      match parse_vp8_dims bs with Ok (w, h) => (w, h) | _ => (0, 0) end
    else (0, 0) in
  if len bs >=? 5 then
    match bs with
    | b0 :: _ =>
      if b0 =? VP8LMagicByte then
        match parse_vp8l_dims bs with Ok (w, h, _) => (w, h) | _ => vp8 end
      else vp8
    | [] => vp8
    end
  else vp8.

(** detectBitstreamType *)
Definition detect_type (data : list Z) : Z :=
  match data with
  | b0 :: _ => if b0 =? VP8LMagicByte then FCC_VP8L else FCC_VP8
  | [] => FCC_VP8
  end.

Definition is_animated (m : mstate) : bool :=
  (len (m_frames m) >? 1) || existsb (fun f => o_dur (f_opts f) >? 0) (m_frames m).

Definition is_some {A} (o : option A) : bool := match o with Some _ => true | None => false end.

(** (patched code only) some frame's data splits into ALPH + bitstream *)
Definition has_alpha_chunk (m : mstate) : bool :=
  existsb (fun f => is_some (fst (split_alpha (f_data f)))) (m_frames m).

Definition needs_vp8x (fx : fixes) (m : mstate) : bool :=
  is_animated m || is_some (m_icc m) || is_some (m_exif m) || is_some (m_xmp m)
  || (fx_alpha fx && has_alpha_chunk m).

(** canvasSize *)
Definition canvas_size (m : mstate) : Z * Z :=
  if (m_cw m >? 0) && (m_ch m >? 0) then (m_cw m, m_ch m) else
  match m_frames m with
  | [] => (1, 1)
  | _ =>
    let '(mw, mh) := fold_left (fun (acc : Z * Z) f =>
        let '(fw, fh) := frame_dims (f_data f) in
        let ox := o_ox (f_opts f) in let oy := o_oy (f_opts f) in
        let endX := wrap64 (ox + fw) in
        let endY := wrap64 (oy + fh) in
        let endX := if (fw >? 0) && (endX <? ox) then maxint else endX in
        let endY := if (fh >? 0) && (endY <? oy) then maxint else endY in
        (if endX >? fst acc then endX else fst acc, if endY >? snd acc then endY else snd acc))
      (m_frames m) (0, 0) in
    (if mw =? 0 then 1 else mw, if mh =? 0 then 1 else mh)
  end.

Definition E_noframes : nat := 20.
Definition E_validate : nat := 21.
Definition E_toolarge : nat := 22.

(** per-frame part of validate *)
Definition validate_frame (fx : fixes) (animated : bool) (cw ch : Z) (f : mframe) : bool :=
  let '(fw, fh) := frame_dims (f_data f) in
  let ox := o_ox (f_opts f) in let oy := o_oy (f_opts f) in
  let pre :=
    if fx_validate fx then
      negb ((ox <? 0) || (oy <? 0) || (Z.quot ox 2 >=? MaxPositionOff) || (Z.quot oy 2 >=? MaxPositionOff))
      && (animated || ((ox =? 0) && (oy =? 0)))
    else true in
  pre &&
  (if (fw =? 0) || (fh =? 0) then true else
   let endX := wrap64 (ox + fw) in
   let endY := wrap64 (oy + fh) in
   if ((fw >? 0) && (endX <=? ox)) || ((fh >? 0) && (endY <=? oy)) then false else
   if (endX >? cw) || (endY >? ch) then false else true).

(** validate *)
Definition validate (fx : fixes) (m : mstate) : Res unit :=
  if len (m_frames m) =? 0 then Err E_noframes else
  let animated := is_animated m in
  if (if animated then len (m_frames m) <? 1 else negb (len (m_frames m) =? 1)) then Err E_validate else
  (* metadata held to the limit AddChunk enforces (commit after c14-mux-meta-size.diff) *)
  if (olen (m_icc m) >? maxMetadataSize) || (olen (m_exif m) >? maxMetadataSize) || (olen (m_xmp m) >? maxMetadataSize)
  then Err E_validate else
  let '(cw, ch) := canvas_size m in
  if fx_validate fx && ((cw >? MaxCanvasSize) || (ch >? MaxCanvasSize) || (cw * ch >=? MaxImageArea))
  then Err E_validate else
  if forallb (validate_frame fx animated cw ch) (m_frames m) then Ok tt else Err E_validate.

(** hasAlpha *)
Definition has_alpha (m : mstate) : bool :=
  existsb (fun f =>
    let data := f_data f in
    ((len data >=? 12) && (rd32 (firstn 4 data) =? FCC_ALPH))
    || ((len data >=? 5) &&
        match data with
        | b0 :: _ => (b0 =? VP8LMagicByte) &&
                     match parse_vp8l_dims data with Ok (_, _, a) => a | _ => false end
        | [] => false
        end)) (m_frames m).

(** chunkTotalSize on a uint32 payload size *)
Definition chunk_total (p : Z) : Z :=
  u32 (ChunkHeaderSize + p + (if negb (p mod 2 =? 0) then 1 else 0)).

(** frameSubChunksSize *)
Definition sub_chunks_size (alpha : option (list Z)) (bits : list Z) : Z :=
  u32 ((match alpha with Some a => chunk_total (u32 (len a)) | None => 0 end)
       + chunk_total (u32 (len bits))).

(** writeChunkHeader + payload + padding (writeDataChunk) *)
Definition write_data_chunk (id : Z) (data : list Z) : list Z :=
  le32 id ++ le32 (u32 (len data)) ++ data ++ (if negb (len data mod 2 =? 0) then [0] else []).

(** assembleSimple *)
Definition assemble_simple (m : mstate) : Res (list Z) :=
  match m_frames m with
  | [] => Panic
  | f :: _ =>
    let data := f_data f in
    let chunkSize := u32 (len data) in
    let padded := if negb (chunkSize mod 2 =? 0) then u32 (chunkSize + 1) else chunkSize in
    let riffPayload := u32 (4 + ChunkHeaderSize + padded) in
    Ok (le32 FCC_RIFF ++ le32 riffPayload ++ le32 FCC_WEBP ++
        le32 (detect_type data) ++ le32 chunkSize ++ data ++
        (if negb (chunkSize mod 2 =? 0) then [0] else []))
  end.

(** writeANMFChunk *)
Definition write_anmf (f : mframe) : list Z :=
  let '(alpha, bits) := split_alpha (f_data f) in
  let subSize := sub_chunks_size alpha bits in
  let anmfPayload := u32 (ANMFChunkSize + subSize) in
  let '(fw, fh) := frame_dims (f_data f) in
  let fo := f_opts f in
  le32 FCC_ANMF ++ le32 anmfPayload ++
  le24 (Z.quot (o_ox fo) 2) ++ le24 (Z.quot (o_oy fo) 2) ++
  (if (fw >? 0) && (fh >? 0) then le24 (fw - 1) ++ le24 (fh - 1) else [0; 0; 0; 0; 0; 0]) ++
  le24 (o_dur fo) ++
  [(if o_dispose fo =? 1 then 1 else 0) + (if o_blend fo =? 1 then 2 else 0)] ++
  (match alpha with Some a => write_data_chunk FCC_ALPH a | None => [] end) ++
  write_data_chunk (detect_type bits) bits ++
  (if negb (anmfPayload mod 2 =? 0) then [0] else []).

(** size of one frame inside the RIFF payload, as assembleExtended adds it up *)
Definition frame_riff_size (fx : fixes) (animated : bool) (f : mframe) : Z :=
  if animated then
    let '(alpha, bits) := split_alpha (f_data f) in
    let anmfPayload := u32 (ANMFChunkSize + sub_chunks_size alpha bits) in
    ChunkHeaderSize + anmfPayload + (if negb (anmfPayload mod 2 =? 0) then 1 else 0)
  else if fx_alpha fx then
    let '(alpha, bits) := split_alpha (f_data f) in sub_chunks_size alpha bits
  else chunk_total (u32 (len (f_data f))).

Definition write_frame (fx : fixes) (animated : bool) (f : mframe) : list Z :=
  if animated then write_anmf f
  else if fx_alpha fx then
    let '(alpha, bits) := split_alpha (f_data f) in
    (match alpha with Some a => write_data_chunk FCC_ALPH a | None => [] end) ++
    write_data_chunk (detect_type bits) bits
  else write_data_chunk (detect_type (f_data f)) (f_data f).

Definition ometa_size (o : option (list Z)) : Z :=
  match o with Some d => chunk_total (u32 (len d)) | None => 0 end.
Definition ometa_write (id : Z) (o : option (list Z)) : list Z :=
  match o with Some d => write_data_chunk id d | None => [] end.

Definition vp8x_flags (m : mstate) : Z :=
  (if is_animated m then 2 else 0) + (if is_some (m_icc m) then 32 else 0) +
  (if is_some (m_exif m) then 8 else 0) + (if is_some (m_xmp m) then 4 else 0) +
  (if has_alpha m then 16 else 0).

(** assembleExtended *)
Definition assemble_extended (fx : fixes) (m : mstate) : Res (list Z) :=
  let animated := is_animated m in
  let '(cw, ch) := canvas_size m in
  let riff64 := 4 + (ChunkHeaderSize + VP8XChunkSize) + ometa_size (m_icc m)
                + (if animated then ChunkHeaderSize + ANIMChunkSize else 0)
                + fold_left (fun acc f => acc + frame_riff_size fx animated f) (m_frames m) 0
                + ometa_size (m_exif m) + ometa_size (m_xmp m) in
  if riff64 >? 4294967295 then Err E_toolarge else
  Ok (le32 FCC_RIFF ++ le32 riff64 ++ le32 FCC_WEBP ++
      le32 FCC_VP8X ++ le32 VP8XChunkSize ++ [vp8x_flags m; 0; 0; 0] ++ le24 (cw - 1) ++ le24 (ch - 1) ++
      ometa_write FCC_ICCP (m_icc m) ++
      (if animated then le32 FCC_ANIM ++ le32 ANIMChunkSize ++ le32 (m_bg m) ++ le16 (m_loop m) else []) ++
      flat_map (write_frame fx animated) (m_frames m) ++
      ometa_write FCC_EXIF (m_exif m) ++
      ometa_write FCC_XMP (m_xmp m)).

(** Assemble *)
Definition assemble (fx : fixes) (m : mstate) : Res (list Z) :=
  _ <- validate fx m ;;
  if needs_vp8x fx m then assemble_extended fx m else assemble_simple m.
