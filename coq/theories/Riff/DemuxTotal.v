(** C05 over the demuxer model: the repaired [parse] never panics and never runs
    out of fuel, on any byte string; what it returns lies inside the input and
    respects the caps; [frame] / [get_chunk] are total for any index / id.  The
    pinned [parse] (fx = false) panics on a 16-byte witness. *)
From Coq Require Import List ZArith Lia Bool ZifyBool ZifyNat.
From Webp Require Import Base.Res Base.Bytes Riff.DemuxModel.
Import ListNotations.
Open Scope Z_scope.
Ltac Zify.zify_post_hook ::= Z.div_mod_to_equations.

Lemma len_nonneg {A} (l : list A) : 0 <= len l.
Proof. unfold len. lia. Qed.

Lemma len_app {A} (a b : list A) : len (a ++ b) = len a + len b.
Proof. unfold len. rewrite app_length. lia. Qed.

(** [s] occurs in [l] as a contiguous block *)
Definition infix (s l : list Z) : Prop := exists pre post, l = pre ++ s ++ post.

Lemma infix_refl l : infix l l.
Proof. exists [], []. rewrite app_nil_r. reflexivity. Qed.

Lemma infix_trans a b c : infix a b -> infix b c -> infix a c.
Proof.
  intros [p1 [q1 H1]] [p2 [q2 H2]]. subst. exists (p2 ++ p1), (q1 ++ q2).
  rewrite <- !app_assoc. reflexivity.
Qed.

Lemma infix_len s l : infix s l -> len s <= len l.
Proof. intros [p [q H]]. subst. rewrite !len_app. pose proof (len_nonneg p). pose proof (len_nonneg q). lia. Qed.

Lemma slice_inv {A} (l : list A) lo hi s :
  slice l lo hi = Ok s ->
  0 <= lo /\ lo <= hi /\ hi <= len l /\ s = firstn (Z.to_nat (hi - lo)) (skipn (Z.to_nat lo) l).
Proof.
  unfold slice, len.
  destruct (Z.leb_spec 0 lo); cbn [andb]; try discriminate.
  destruct (Z.leb_spec lo hi); cbn [andb]; try discriminate.
  destruct (Z.leb_spec hi (Z.of_nat (length l))); cbn [andb]; try discriminate.
  intros [= <-]. auto.
Qed.

Lemma slice_some {A} (l : list A) lo hi :
  0 <= lo -> lo <= hi -> hi <= len l -> exists s, slice l lo hi = Ok s /\ len s = hi - lo.
Proof.
  intros H1 H2 H3. unfold len in *. rewrite slice_ok by lia. eexists. split; [reflexivity|].
  rewrite firstn_length, skipn_length. lia.
Qed.

Lemma slice_no_err {A} (l : list A) lo hi e : slice l lo hi <> Err e.
Proof. unfold slice. destruct (_ && _); discriminate. Qed.

Lemma slice_infix l lo hi s : slice l lo hi = Ok s -> infix s l.
Proof.
  intros H. apply slice_inv in H. destruct H as (_ & _ & _ & ->).
  exists (firstn (Z.to_nat lo) l), (skipn (Z.to_nat (hi - lo)) (skipn (Z.to_nat lo) l)).
  rewrite firstn_skipn, firstn_skipn. reflexivity.
Qed.

Lemma slice_bytes l lo hi s : bytes_ok l -> slice l lo hi = Ok s -> bytes_ok s.
Proof.
  intros Hl H. apply slice_inv in H. destruct H as (_ & _ & _ & ->).
  apply bytes_ok_firstn, bytes_ok_skipn, Hl.
Qed.

Lemma slice_len {A} (l : list A) lo hi s : slice l lo hi = Ok s -> len s = hi - lo.
Proof. intros H. unfold len. apply slice_length in H. exact H. Qed.

Lemma u32at_spec d lo : bytes_ok d -> 0 <= lo -> lo + 4 <= len d ->
  exists v, u32at d lo = Ok v /\ 0 <= v < 4294967296.
Proof.
  intros Hd H1 H2. unfold u32at.
  destruct (slice_some d lo (lo + 4)) as [s [Hs Hl]]; try lia.
  rewrite Hs. cbn [bind]. pose proof (slice_bytes _ _ _ _ Hd Hs) as Hb.
  unfold len in Hl.
  destruct s as [|a [|b [|c [|e [|? ?]]]]]; cbn [length] in Hl; try lia.
  eexists. split; [reflexivity|].
  inversion Hb as [|? ? Ha Hb1]; subst. inversion Hb1 as [|? ? Hb' Hb2]; subst.
  inversion Hb2 as [|? ? Hc Hb3]; subst. inversion Hb3 as [|? ? He _]; subst.
  apply rd32_bound; assumption.
Qed.

(** ReadChunkHeader *)
Lemma read_chunk_header_spec d : bytes_ok d ->
  match read_chunk_header d with
  | Ok (id, sz) => 8 <= len d /\ 0 <= sz <= MaxChunkPayload /\ 0 <= id < 4294967296
  | Err e => e <> E_fuel
  | Panic => False
  end.
Proof.
  intros Hd. unfold read_chunk_header, ChunkHeaderSize.
  destruct (Z.ltb_spec (len d) 8) as [Hlt|Hge]; [discriminate|].
  destruct (u32at_spec d 0 Hd) as [id [Hid Rid]]; try lia.
  destruct (u32at_spec d 4 Hd) as [sz [Hsz Rsz]]; try lia.
  rewrite Hid, Hsz. cbn [bind].
  destruct (Z.gtb_spec sz MaxChunkPayload); [discriminate|]. lia.
Qed.

(** ReadChunk *)
Lemma read_chunk_spec d : bytes_ok d ->
  match read_chunk d with
  | Ok (c, n) => 8 + c_size c <= n /\ n <= len d /\ 0 <= c_size c /\
                 bytes_ok (c_data c) /\ infix (c_data c) d /\ len (c_data c) = c_size c
  | Err e => e <> E_fuel
  | Panic => False
  end.
Proof.
  intros Hd. unfold read_chunk. pose proof (read_chunk_header_spec d Hd) as Hh.
  destruct (read_chunk_header d) as [[id sz]|e|]; cbn [bind]; [|exact Hh|exact Hh].
  destruct Hh as (H8 & Hsz & _). unfold ChunkHeaderSize.
  destruct (Z.gtb_spec (8 + sz) (len d)) as [Hgt|Hle]; [discriminate|].
  destruct (slice_some d 8 (8 + sz)) as [s [Hs Hl]]; try lia.
  rewrite Hs. cbn [bind c_size c_data].
  repeat split; try lia.
  - destruct (negb (sz mod 2 =? 0) && (8 + sz <? len d)); lia.
  - destruct (negb (sz mod 2 =? 0) && (8 + sz <? len d)) eqn:E; lia.
  - eapply slice_bytes; eauto.
  - eapply slice_infix; eauto.
Qed.

Definition oin (o : option (list Z)) (top : list Z) : Prop :=
  match o with Some x => infix x top /\ bytes_ok x | None => True end.

Lemma oin_trans o a b : oin o a -> infix a b -> oin o b.
Proof. destruct o; cbn; [|auto]. intros [H1 H2] H. split; [eapply infix_trans; eauto|auto]. Qed.

(** the sub-chunk loop of parseANMF *)
Lemma anmf_loop_spec top fuel : forall fp img alpha,
  bytes_ok fp -> infix fp top -> oin img top -> oin alpha top ->
  match anmf_loop fuel fp img alpha with
  | Ok (i, a) => oin i top /\ oin a top
  | Err e => (length fp < fuel)%nat -> e <> E_fuel
  | Panic => False
  end.
Proof.
  induction fuel as [|f IH]; intros fp img alpha Hb Hin Hi Ha; cbn [anmf_loop].
  - intros H. lia.
  - unfold ChunkHeaderSize.
    destruct (Z.ltb_spec (len fp) 8); [auto|].
    pose proof (read_chunk_header_spec fp Hb) as Hh.
    destruct (read_chunk_header fp) as [[id sz]|e|]; [|auto|exact Hh].
    destruct Hh as (_ & Hsz & _).
    destruct (Z.gtb_spec (8 + sz) (len fp)); [auto|].
    destruct (slice_some fp 8 (8 + sz)) as [sub [Hs Hl]]; try lia.
    rewrite Hs. cbn [bind].
    assert (Hsub : oin (Some sub) top).
    { split; [eapply infix_trans; [eapply slice_infix; eauto|auto]|eapply slice_bytes; eauto]. }
    set (img' := if is_image_id id then Some sub else img).
    set (alpha' := if id =? FCC_ALPH then Some sub else alpha).
    assert (Hi' : oin img' top) by (unfold img'; destruct (is_image_id id); auto).
    assert (Ha' : oin alpha' top) by (unfold alpha'; destruct (id =? FCC_ALPH); auto).
    set (adv := if negb (sz mod 2 =? 0) && (8 + sz <? len fp) then 8 + sz + 1 else 8 + sz).
    assert (Hadv : 8 <= adv <= len fp).
    { unfold adv. destruct (negb (sz mod 2 =? 0) && (8 + sz <? len fp)) eqn:E; lia. }
    destruct (Z.leb_spec adv 0); [auto|].
    destruct (slice_some fp adv (len fp)) as [rest [Hr Hrl]]; try lia.
    rewrite Hr. cbn [bind].
    specialize (IH rest img' alpha' (slice_bytes _ _ _ _ Hb Hr)
                   (infix_trans _ _ _ (slice_infix _ _ _ _ Hr) Hin) Hi' Ha').
    destruct (anmf_loop f rest img' alpha') as [[i a]|e|]; auto.
    intros Hf. apply IH. unfold len in *. lia.
Qed.

Lemma frame_data_has_alpha_spec d : frame_data_has_alpha d <> Panic /\ forall e, frame_data_has_alpha d <> Err e.
Proof.
  unfold frame_data_has_alpha.
  destruct (Z.ltb_spec (len d) 5); [split; [discriminate|intros; discriminate]|].
  unfold len in *.
  destruct d as [|b0 [|b1 [|b2 [|b3 [|b4 tl]]]]]; cbn [length] in *; try lia.
  destruct (b0 =? VP8LMagicByte); split; try discriminate; intros; discriminate.
Qed.

Definition fi_in (top : list Z) (fi : frame_info) : Prop :=
  oin (fi_data fi) top /\ oin (fi_alpha fi) top /\ 0 <= fi_ox fi /\ 0 <= fi_oy fi.

(** invariant of the demuxer state: everything it holds lies inside the input *)
Definition dwf (top : list Z) (d : dstate) : Prop :=
  Forall (fi_in top) (d_frames d) /\ len (d_frames d) <= maxFrames /\
  oin (d_icc d) top /\ oin (d_exif d) top /\ oin (d_xmp d) top /\
  olen (d_icc d) <= maxMetadataSize /\ olen (d_exif d) <= maxMetadataSize /\ olen (d_xmp d) <= maxMetadataSize /\
  Forall (fun c => infix (c_data c) top) (d_chunks d).

Lemma bytes_ok_cons a l : bytes_ok (a :: l) -> is_byte a /\ bytes_ok l.
Proof. intros H. inversion H; subst. auto. Qed.

Lemma infix_tail a l top : infix (a :: l) top -> infix l top.
Proof. intros [p [q H]]. exists (p ++ [a]), q. rewrite <- app_assoc. exact H. Qed.

(** parseANMF *)
Lemma parse_anmf_spec top d data :
  bytes_ok data -> infix data top -> dwf top d ->
  match parse_anmf d data with
  | Ok d' => dwf top d' /\ len (d_frames d') = len (d_frames d) + 1
  | Err e => e <> E_fuel
  | Panic => False
  end.
Proof.
  intros Hb Hin Hd. unfold parse_anmf, ANMFChunkSize.
  destruct (Z.ltb_spec (len data) 16); [discriminate|].
  unfold len in H.
  destruct data as [|x0 [|x1 [|x2 [|y0 [|y1 [|y2 [|w0 [|w1 [|w2 [|h0 [|h1 [|h2 [|t0 [|t1 [|t2 [|fl fp]]]]]]]]]]]]]]]];
    cbn [length] in H; try lia.
  repeat (apply bytes_ok_cons in Hb; let Hx := fresh "Hx" in destruct Hb as [Hx Hb]).
  unfold is_byte in *.
  repeat (apply infix_tail in Hin).
  match goal with |- context [if ?c then Err E_anmf else _] => destruct c eqn:Eoff end; [discriminate|].
  match goal with |- context [if ?c then Err E_anmf else _] => destruct c eqn:Earea end; [discriminate|].
  pose proof (anmf_loop_spec top (S (length fp)) fp None None Hb Hin I I) as Hl.
  destruct (anmf_loop (S (length fp)) fp None None) as [[img alpha]|e|]; cbn [bind].
  2:{ apply Hl. lia. }
  2:{ exact Hl. }
  destruct Hl as [Hi Ha].
  set (hasA := if 0 <? olen alpha then Ok true else
               match img with Some i => if 0 <? len i then frame_data_has_alpha i else Ok false | None => Ok false end).
  assert (HhA : exists b, hasA = Ok b).
  { unfold hasA. destruct (0 <? olen alpha); [eauto|].
    destruct img as [i|]; [|eauto]. destruct (0 <? len i); [|eauto].
    destruct (frame_data_has_alpha_spec i) as [Hp He].
    destruct (frame_data_has_alpha i) as [b|e|]; [eauto|exfalso; eapply He; eauto|congruence]. }
  destruct HhA as [b Hb']. rewrite Hb'. cbn [bind].
  destruct (Z.geb_spec (len (d_frames d)) maxFrames); [discriminate|].
  destruct Hd as (Hf & Hn & Hm).
  split.
  - unfold dwf, set_frames; cbn [d_frames d_icc d_exif d_xmp d_chunks].
    split; [|split; [|exact Hm]].
    + apply Forall_app. split; [exact Hf|]. constructor; [|constructor].
      unfold fi_in; cbn [fi_data fi_alpha fi_ox fi_oy]. repeat split; auto; lia.
    + rewrite len_app. unfold len at 2. cbn [length]. lia.
  - unfold set_frames; cbn [d_frames]. rewrite len_app. unfold len at 2. cbn [length]. lia.
Qed.

(** the chunk loop of parseSingleExtendedFrame *)
Lemma single_loop_spec top fuel : forall p img alpha,
  bytes_ok p -> infix p top -> oin img top -> oin alpha top ->
  match single_loop fuel p img alpha with
  | Ok (i, a) => oin i top /\ oin a top
  | Err e => (length p < fuel)%nat -> e <> E_fuel
  | Panic => False
  end.
Proof.
  induction fuel as [|f IH]; intros p img alpha Hb Hin Hi Ha; cbn [single_loop].
  - intros H. lia.
  - unfold ChunkHeaderSize.
    destruct (Z.ltb_spec (len p) 8); [auto|].
    pose proof (read_chunk_spec p Hb) as Hc.
    destruct (read_chunk p) as [[c n]|e|]; [|auto|exact Hc].
    destruct Hc as (Hn1 & Hn2 & Hsz & Hcb & Hci & _).
    assert (Hc' : oin (Some (c_data c)) top) by (split; [eapply infix_trans; eauto|auto]).
    set (alpha' := if c_id c =? FCC_ALPH then Some (c_data c) else alpha).
    set (img' := if is_image_id (c_id c) then Some (c_data c) else img).
    assert (Hi' : oin img' top) by (unfold img'; destruct (is_image_id (c_id c)); auto).
    assert (Ha' : oin alpha' top) by (unfold alpha'; destruct (c_id c =? FCC_ALPH); auto).
    destruct img' as [i|] eqn:Ei; [auto|].
    destruct (slice_some p n (len p)) as [rest [Hr Hrl]]; try lia.
    rewrite Hr. cbn [bind].
    specialize (IH rest None alpha' (slice_bytes _ _ _ _ Hb Hr)
                   (infix_trans _ _ _ (slice_infix _ _ _ _ Hr) Hin) I Ha').
    destruct (single_loop f rest None alpha') as [[i a]|e|]; auto.
    intros Hf. apply IH. unfold len in *. lia.
Qed.

(** parseSingleExtendedFrame *)
Lemma parse_single_ext_spec top d payload :
  bytes_ok payload -> infix payload top -> dwf top d ->
  match parse_single_ext d payload with
  | Ok d' => dwf top d' /\ len (d_frames d') = 1
  | Err e => e <> E_fuel
  | Panic => False
  end.
Proof.
  intros Hb Hin Hd. unfold parse_single_ext.
  pose proof (single_loop_spec top (S (length payload)) payload None None Hb Hin I I) as Hl.
  destruct (single_loop (S (length payload)) payload None None) as [[img alpha]|e|]; cbn [bind].
  2:{ apply Hl. lia. }
  2:{ exact Hl. }
  destruct Hl as [Hi Ha]. destruct img as [i|]; [|discriminate].
  set (hasA := if 0 <? olen alpha then Ok true else frame_data_has_alpha i).
  assert (HhA : exists b, hasA = Ok b).
  { unfold hasA. destruct (0 <? olen alpha); [eauto|].
    destruct (frame_data_has_alpha_spec i) as [Hp He].
    destruct (frame_data_has_alpha i) as [b|e|]; [eauto|exfalso; eapply He; eauto|congruence]. }
  destruct HhA as [b Hb']. rewrite Hb'. cbn [bind].
  destruct Hd as (Hf & Hn & Hm).
  split; [|reflexivity].
  unfold dwf, set_frames; cbn [d_frames d_icc d_exif d_xmp d_chunks].
  split; [|split; [|exact Hm]].
  - constructor; [|constructor]. unfold fi_in; cbn [fi_data fi_alpha fi_ox fi_oy].
    split; [exact Hi|]. split; [exact Ha|]. lia.
  - unfold len, maxFrames. cbn [length]. lia.
Qed.

Lemma parse_anim_spec top d data : dwf top d ->
  match parse_anim d data with
  | Ok d' => dwf top d' /\ d_frames d' = d_frames d
  | Err e => e <> E_fuel
  | Panic => False
  end.
Proof.
  intros Hd. unfold parse_anim, ANIMChunkSize.
  destruct (Z.ltb_spec (len data) 6); [discriminate|].
  unfold len in H.
  destruct data as [|b0 [|b1 [|b2 [|b3 [|b4 [|b5 tl]]]]]]; cbn [length] in H; try lia.
  split; [|reflexivity]. exact Hd.
Qed.

(** the switch of parseExtended: never panics, keeps the invariant, adds at most one frame *)
Lemma ext_dispatch_spec top d c rest :
  bytes_ok rest -> infix rest top -> bytes_ok (c_data c) -> infix (c_data c) top -> dwf top d ->
  match ext_dispatch d c rest with
  | Ok d' => dwf top d'
  | Err e => e <> E_fuel
  | Panic => False
  end.
Proof.
  intros Hb Hin Hcb Hci Hd. unfold ext_dispatch.
  destruct Hd as (Hf & Hn & Hi & He & Hx & Hil & Hel & Hxl & Hc).
  assert (Hd : dwf top d) by (unfold dwf; auto 10).
  destruct (c_id c =? FCC_ICCP).
  { destruct (Z.gtb_spec (len (c_data c)) maxMetadataSize); [discriminate|].
    unfold dwf, set_icc; cbn [d_frames d_icc d_exif d_xmp d_chunks oin olen]. auto 12. }
  destruct (c_id c =? FCC_EXIF).
  { destruct (Z.gtb_spec (len (c_data c)) maxMetadataSize); [discriminate|].
    unfold dwf, set_exif; cbn [d_frames d_icc d_exif d_xmp d_chunks oin olen]. auto 12. }
  destruct (c_id c =? FCC_XMP).
  { destruct (Z.gtb_spec (len (c_data c)) maxMetadataSize); [discriminate|].
    unfold dwf, set_xmp; cbn [d_frames d_icc d_exif d_xmp d_chunks oin olen]. auto 12. }
  destruct (c_id c =? FCC_ANIM).
  { pose proof (parse_anim_spec top d (c_data c) Hd) as H.
    destruct (parse_anim d (c_data c)); auto. tauto. }
  destruct (c_id c =? FCC_ANMF).
  { pose proof (parse_anmf_spec top d (c_data c) Hcb Hci Hd) as H.
    destruct (parse_anmf d (c_data c)); auto. tauto. }
  destruct ((c_id c =? FCC_VP8) || (c_id c =? FCC_VP8L) || (c_id c =? FCC_ALPH)); [|exact Hd].
  destruct (negb (ft_anim (d_feat d)) && (len (d_frames d) =? 0)); [|exact Hd].
  pose proof (parse_single_ext_spec top d rest Hb Hin Hd) as H.
  destruct (parse_single_ext d rest); auto. tauto.
Qed.

Lemma dwf_add_chunk top d c : infix (c_data c) top -> dwf top d -> dwf top (add_chunk d c).
Proof.
  intros Hc (Hf & Hn & Hi & He & Hx & Hil & Hel & Hxl & Hcs).
  unfold dwf, add_chunk; cbn [d_frames d_icc d_exif d_xmp d_chunks].
  repeat split; auto. apply Forall_app. split; auto.
Qed.

(** the chunk loop of parseExtended *)
Lemma ext_loop_spec top fuel : forall rest d,
  bytes_ok rest -> infix rest top -> dwf top d ->
  match ext_loop fuel rest d with
  | Ok d' => dwf top d'
  | Err e => (length rest < fuel)%nat -> e <> E_fuel
  | Panic => False
  end.
Proof.
  induction fuel as [|f IH]; intros rest d Hb Hin Hd; cbn [ext_loop].
  - intros H. lia.
  - unfold ChunkHeaderSize.
    destruct (Z.ltb_spec (len rest) 8); [auto|].
    pose proof (read_chunk_spec rest Hb) as Hc.
    destruct (read_chunk rest) as [[c n]|e|]; [|auto|exact Hc].
    destruct Hc as (Hn1 & Hn2 & Hsz & Hcb & Hci & _).
    assert (Hci' : infix (c_data c) top) by (eapply infix_trans; eauto).
    pose proof (ext_dispatch_spec top (add_chunk d c) c rest Hb Hin Hcb Hci' (dwf_add_chunk _ _ _ Hci' Hd)) as Hdis.
    destruct (ext_dispatch (add_chunk d c) c rest) as [d2|e|]; cbn [bind]; [|auto|exact Hdis].
    destruct (slice_some rest n (len rest)) as [rest' [Hr Hrl]]; try lia.
    rewrite Hr. cbn [bind].
    specialize (IH rest' d2 (slice_bytes _ _ _ _ Hb Hr)
                   (infix_trans _ _ _ (slice_infix _ _ _ _ Hr) Hin) Hdis).
    destruct (ext_loop f rest' d2); auto.
    intros Hf. apply IH. unfold len in *. lia.
Qed.

Definition dwf0 (top : list Z) : dstate -> Prop := dwf top.

(** parseExtended *)
Lemma parse_extended_spec top payload :
  bytes_ok payload -> infix payload top ->
  match parse_extended payload with
  | Ok d => dwf top d /\ 1 <= len (d_frames d)
  | Err e => e <> E_fuel
  | Panic => False
  end.
Proof.
  intros Hb Hin. unfold parse_extended.
  pose proof (read_chunk_spec payload Hb) as Hc.
  destruct (read_chunk payload) as [[c n]|e|]; cbn [bind]; [|exact Hc|exact Hc].
  destruct Hc as (Hn1 & Hn2 & Hsz & Hcb & Hci & Hlen).
  unfold VP8XChunkSize.
  destruct (Z.ltb_spec (c_size c) 10); [discriminate|].
  unfold len in Hlen.
  destruct (c_data c) as [|fl [|r1 [|r2 [|r3 [|w0 [|w1 [|w2 [|h0 [|h1 [|h2 tl]]]]]]]]]] eqn:Edata;
    cbn [length] in Hlen; try lia.
  match goal with |- context [if ?c then Err E_vp8x else _] => destruct c end; [discriminate|].
  destruct (slice_some payload n (len payload)) as [rest [Hr Hrl]]; try lia.
  rewrite Hr. cbn [bind].
  match goal with |- context [ext_loop ?fu rest ?d0] =>
    assert (Hd0 : dwf top d0);
    [|pose proof (ext_loop_spec top fu rest d0 (slice_bytes _ _ _ _ Hb Hr)
                  (infix_trans _ _ _ (slice_infix _ _ _ _ Hr) Hin) Hd0) as Hl;
      destruct (ext_loop fu rest d0) as [d'|e|] eqn:El] end; cbn [bind].
  - unfold dwf; cbn [d_frames d_icc d_exif d_xmp d_chunks oin olen].
    repeat split; auto; try (unfold len, maxFrames, maxMetadataSize; cbn [length]; lia).
    constructor; [|constructor]. rewrite Edata. eapply infix_trans; eauto.
  - destruct (Z.eqb_spec (len (d_frames d')) 0); [discriminate|].
    split; [exact Hl|]. pose proof (len_nonneg (d_frames d')). lia.
  - apply Hl. lia.
  - exact Hl.
Qed.

Lemma parse_vp8_dims_spec d : parse_vp8_dims d <> Panic.
Proof.
  unfold parse_vp8_dims. destruct (Z.ltb_spec (len d) 10); [discriminate|].
  unfold len in H.
  destruct d as [|b0 [|b1 [|b2 [|b3 [|b4 [|b5 [|b6 [|b7 [|b8 [|b9 tl]]]]]]]]]]; cbn [length] in H; try lia.
  destruct (negb (b3 =? 157) || negb (b4 =? 1) || negb (b5 =? 42)); discriminate.
Qed.

Lemma parse_vp8_dims_err d e : parse_vp8_dims d = Err e -> e <> E_fuel.
Proof.
  unfold parse_vp8_dims. destruct (len d <? 10); [intros [= <-]; discriminate|].
  destruct d as [|b0 [|b1 [|b2 [|b3 [|b4 [|b5 [|b6 [|b7 [|b8 [|b9 tl]]]]]]]]]]; try discriminate.
  destruct (negb (b3 =? 157) || negb (b4 =? 1) || negb (b5 =? 42)); [intros [= <-]; discriminate|discriminate].
Qed.

Lemma parse_vp8l_dims_err d e : parse_vp8l_dims d = Err e -> e <> E_fuel.
Proof.
  unfold parse_vp8l_dims. destruct (len d <? 5); [intros [= <-]; discriminate|].
  destruct d as [|b0 [|b1 [|b2 [|b3 [|b4 tl]]]]]; try discriminate.
  destruct (negb (b0 =? VP8LMagicByte)); [intros [= <-]; discriminate|discriminate].
Qed.

Lemma parse_vp8l_dims_spec d : parse_vp8l_dims d <> Panic.
Proof.
  unfold parse_vp8l_dims. destruct (Z.ltb_spec (len d) 5); [discriminate|].
  unfold len in H.
  destruct d as [|b0 [|b1 [|b2 [|b3 [|b4 tl]]]]]; cbn [length] in H; try lia.
  destruct (negb (b0 =? VP8LMagicByte)); discriminate.
Qed.

Lemma simple_dwf top c : infix (c_data c) top -> bytes_ok (c_data c) ->
  forall ft fi, fi_data fi = Some (c_data c) -> fi_alpha fi = None -> fi_ox fi = 0 -> fi_oy fi = 0 ->
  dwf top (mkd [c] ft [fi] None None None 0 0).
Proof.
  intros Hi Hb ft fi H1 H2 H3 H4. unfold dwf; cbn [d_frames d_icc d_exif d_xmp d_chunks oin olen].
  repeat split; auto; try (unfold len, maxFrames, maxMetadataSize; cbn [length]; lia).
  constructor; [|constructor]. unfold fi_in. rewrite H1, H2, H3, H4. cbn. repeat split; auto; lia.
Qed.

Lemma parse_simple_vp8_spec top payload : bytes_ok payload -> infix payload top ->
  match parse_simple_vp8 payload with
  | Ok d => dwf top d /\ 1 <= len (d_frames d)
  | Err e => e <> E_fuel
  | Panic => False
  end.
Proof.
  intros Hb Hin. unfold parse_simple_vp8.
  pose proof (read_chunk_spec payload Hb) as Hc.
  destruct (read_chunk payload) as [[c n]|e|]; cbn [bind]; [|exact Hc|exact Hc].
  destruct Hc as (_ & _ & _ & Hcb & Hci & _).
  pose proof (parse_vp8_dims_spec (c_data c)) as Hp.
  destruct (parse_vp8_dims (c_data c)) as [[w h]|e|] eqn:Ep; cbn [bind]; [|apply (parse_vp8_dims_err _ _ Ep)|congruence].
  split; [|unfold len; cbn; lia].
  apply simple_dwf; auto. eapply infix_trans; eauto.
Qed.

Lemma parse_simple_vp8l_spec top payload : bytes_ok payload -> infix payload top ->
  match parse_simple_vp8l payload with
  | Ok d => dwf top d /\ 1 <= len (d_frames d)
  | Err e => e <> E_fuel
  | Panic => False
  end.
Proof.
  intros Hb Hin. unfold parse_simple_vp8l.
  pose proof (read_chunk_spec payload Hb) as Hc.
  destruct (read_chunk payload) as [[c n]|e|]; cbn [bind]; [|exact Hc|exact Hc].
  destruct Hc as (_ & _ & _ & Hcb & Hci & _).
  pose proof (parse_vp8l_dims_spec (c_data c)) as Hp.
  destruct (parse_vp8l_dims (c_data c)) as [[[w h] a]|e|] eqn:Ep; cbn [bind]; [|apply (parse_vp8l_dims_err _ _ Ep)|congruence].
  split; [|unfold len; cbn; lia].
  apply simple_dwf; auto. eapply infix_trans; eauto.
Qed.

(** Demuxer.parse with the RIFF-size patch: for every byte string, no panic, no
    fuel exhaustion, and a successful result lies inside the input and respects
    the caps. *)
Theorem parse_spec bs : bytes_ok bs ->
  match parse true bs with
  | Ok d => dwf bs d /\ 1 <= len (d_frames d)
  | Err e => e <> E_fuel
  | Panic => False
  end.
Proof.
  intros Hb. unfold parse, RIFFHeaderSize.
  destruct (Z.ltb_spec (len bs) 12); [discriminate|].
  destruct (u32at_spec bs 0 Hb) as [t1 [Ht1 _]]; try lia. rewrite Ht1. cbn [bind].
  destruct (negb (t1 =? FCC_RIFF)); [discriminate|].
  destruct (u32at_spec bs 4 Hb) as [fs [Hfs Rfs]]; try lia. rewrite Hfs. cbn [bind].
  destruct (u32at_spec bs 8 Hb) as [t2 [Ht2 _]]; try lia. rewrite Ht2. cbn [bind].
  destruct (negb (t2 =? FCC_WEBP)); [discriminate|].
  set (total := if fs + 8 >? len bs then len bs else fs + 8).
  assert (Htot : total <= len bs) by (unfold total; destruct (Z.gtb_spec (fs + 8) (len bs)); lia).
  destruct (Z.gtb_spec total maxint); [discriminate|].
  cbn [andb]. destruct (Z.ltb_spec total 12); [discriminate|].
  destruct (slice_some bs 12 total) as [payload [Hp Hpl]]; try lia.
  rewrite Hp. cbn [bind].
  pose proof (slice_bytes _ _ _ _ Hb Hp) as Hpb. pose proof (slice_infix _ _ _ _ Hp) as Hpi.
  unfold ChunkHeaderSize. destruct (Z.ltb_spec (len payload) 8); [discriminate|].
  destruct (u32at_spec payload 0 Hpb) as [ft [Hft _]]; try lia. rewrite Hft. cbn [bind].
  destruct (ft =? FCC_VP8X); [apply parse_extended_spec; auto|].
  destruct (ft =? FCC_VP8); [apply parse_simple_vp8_spec; auto|].
  destruct (ft =? FCC_VP8L); [apply parse_simple_vp8l_spec; auto|].
  discriminate.
Qed.

Corollary demux_total bs : bytes_ok bs -> parse true bs <> Panic.
Proof. intros H E. pose proof (parse_spec bs H) as P. rewrite E in P. exact P. Qed.

Corollary demux_fuel_sufficient bs : bytes_ok bs -> parse true bs <> Err E_fuel.
Proof. intros H E. pose proof (parse_spec bs H) as P. rewrite E in P. apply P. reflexivity. Qed.

(** the pinned code agrees with the patched code whenever it does not panic *)
Lemma parse_pinned_agrees bs : parse false bs <> Panic -> parse false bs = parse true bs.
Proof.
  unfold parse. intros H.
  destruct (len bs <? RIFFHeaderSize); [reflexivity|].
  destruct (u32at bs 0) as [t1|e|]; cbn [bind] in *; try reflexivity.
  destruct (negb (t1 =? FCC_RIFF)); [reflexivity|].
  destruct (u32at bs 4) as [fs|e|]; cbn [bind] in *; try reflexivity.
  destruct (u32at bs 8) as [t2|e|]; cbn [bind] in *; try reflexivity.
  destruct (negb (t2 =? FCC_WEBP)); [reflexivity|].
  set (total := if fs + 8 >? len bs then len bs else fs + 8) in *.
  destruct (total >? maxint); [reflexivity|]. cbn [andb] in *.
  destruct (Z.ltb_spec total RIFFHeaderSize) as [Hlt|Hge]; [|reflexivity].
  exfalso. apply H. unfold slice, RIFFHeaderSize in *.
  destruct (Z.leb_spec 12 total); [lia|]. cbn. reflexivity.
Qed.

Definition demux_witness : list Z := [82;73;70;70; 2;0;0;0; 87;69;66;80; 86;80;56;32].

Lemma demux_panics_refuted : bytes_ok demux_witness /\ parse false demux_witness = Panic.
Proof. split; [repeat constructor; unfold is_byte; lia|vm_compute; reflexivity]. Qed.

(** Frame(i) and GetChunk(id): total for every index and id *)
Lemma frame_total d i : frame d i <> Panic.
Proof.
  unfold frame. destruct (Z.ltb_spec i 0); cbn [orb]; [discriminate|].
  destruct (Z.geb_spec i (len (d_frames d))); [discriminate|].
  destruct (index_ok (d_frames d) i) as [a Ha]; [unfold len in *; lia|]. rewrite Ha. discriminate.
Qed.

Lemma frame_ok_iff d i : (exists fi, frame d i = Ok fi) <-> 0 <= i < len (d_frames d).
Proof.
  unfold frame. split.
  - intros [fi H]. destruct (Z.ltb_spec i 0); cbn [orb] in H; [discriminate|].
    destruct (Z.geb_spec i (len (d_frames d))); [discriminate|]. lia.
  - intros H. destruct (Z.ltb_spec i 0); [lia|]. cbn [orb].
    destruct (Z.geb_spec i (len (d_frames d))); [lia|].
    apply index_ok. unfold len in *. lia.
Qed.

Lemma get_chunk_total d id : get_chunk d id <> Panic.
Proof.
  unfold get_chunk.
  destruct (id =? FCC_ICCP); [destruct (d_icc d); discriminate|].
  destruct (id =? FCC_EXIF); [destruct (d_exif d); discriminate|].
  destruct (id =? FCC_XMP); [destruct (d_xmp d); discriminate|].
  destruct (find _ _); discriminate.
Qed.

(** what GetChunk returns lies inside the input *)
Lemma get_chunk_in_bounds top d id x : dwf top d -> get_chunk d id = Ok x -> infix x top.
Proof.
  intros (Hf & Hn & Hi & He & Hx & _ & _ & _ & Hc). unfold get_chunk.
  destruct (id =? FCC_ICCP). { destruct (d_icc d); [|discriminate]. intros [= <-]. apply Hi. }
  destruct (id =? FCC_EXIF). { destruct (d_exif d); [|discriminate]. intros [= <-]. apply He. }
  destruct (id =? FCC_XMP). { destruct (d_xmp d); [|discriminate]. intros [= <-]. apply Hx. }
  destruct (find (fun c => c_id c =? id) (d_chunks d)) as [c|] eqn:E; [|discriminate].
  intros [= <-]. apply find_some in E. rewrite Forall_forall in Hc. apply Hc, E.
Qed.

(** every chunk costs at least 8 input bytes: the chunk list is bounded by the input length *)
Example parse_nontrivial :
  exists d, parse true ([82;73;70;70; 24;0;0;0; 87;69;66;80; 86;80;56;32; 11;0;0;0; 0;0;0;157;1;42;4;0;4;0;7;0]) = Ok d
            /\ len (d_frames d) = 1.
Proof. eexists. split; [vm_compute; reflexivity|reflexivity]. Qed.
