(** Specification => implementation: every byte file that the specification
    walker judges a well-formed still ([riff_wf]) is accepted by the parser
    model (both variants) as a still, and the parser's frame holds exactly the
    image / ALPH payloads the walker finds, with the size the VP8X canvas and the
    bitstream header declare. *)
From Coq Require Import List ZArith Lia Bool.
From Coq Require Import ZifyBool ZifyNat.
From Webp Require Import Base.Res Base.Bytes Riff.ParserModel Riff.ParserLemmas Riff.ParserSpec
     Riff.WriterModel Riff.WriterProofs Riff.FeaturesModel Riff.MetadataProofs Riff.ParserProofs
     Riff.WriterTheorems Riff.FeaturesProofs.
Import ListNotations.
Open Scope Z_scope.

(** ** Bytes determine their little-endian fields *)
Lemma le32_rd32 a b c d : is_byte a -> is_byte b -> is_byte c -> is_byte d ->
  le32 (rd32 [a; b; c; d]) = [a; b; c; d].
Proof.
  unfold is_byte, le32, rd32. intros Ha Hb Hc Hd.
  repeat f_equal; lia.
Qed.

Lemma le24_rd24 a b c : is_byte a -> is_byte b -> is_byte c ->
  le24 (rd24 [a; b; c]) = [a; b; c].
Proof. unfold is_byte, le24, rd24. intros Ha Hb Hc. repeat f_equal; lia. Qed.

Ltac inv_bytes :=
  repeat match goal with
         | Hf : bytes_ok (_ :: _) |- _ => unfold bytes_ok in Hf
         | Hf : Forall is_byte (_ :: _) |- _ => inversion Hf; subst; clear Hf
         end.

Lemma skipn_S_of {A} : forall n (l : list A) p tl, skipn n l = p :: tl -> skipn (S n) l = tl.
Proof.
  induction n as [|n IH]; intros l p tl H.
  - cbn in H. subst l. reflexivity.
  - destruct l as [|x l]; [discriminate|]. cbn [skipn] in *. apply (IH _ _ _ H).
Qed.

(** ** Inverting the walker *)
Lemma walk_cons_inv : forall fuel buf id d cs,
  bytes_ok buf -> walk fuel buf = Some ((id, d) :: cs) ->
  exists rest fuel', buf = chunk id d ++ rest /\ walk fuel' rest = Some cs /\ bytes_ok rest /\
                     bytes_ok d /\ 0 <= id < 4294967296 /\ len d < 4294967296.
Proof.
  intros fuel buf id d cs Hb H.
  destruct buf as [|a0 buf]; [destruct fuel; cbn in H; discriminate|].
  destruct fuel as [|fuel]; [cbn in H; discriminate|].
  destruct buf as [|a1 [|a2 [|a3 [|s0 [|s1 [|s2 [|s3 rest0]]]]]]]; try (cbn in H; discriminate).
  cbn [walk] in H.
  remember (rd32 [s0; s1; s2; s3]) as size eqn:Hsize.
  remember (rd32 [a0; a1; a2; a3]) as idv eqn:Hidv.
  assert (Hbr : bytes_ok rest0 /\ 0 <= size < 4294967296 /\ 0 <= idv < 4294967296 /\
                le32 idv = [a0; a1; a2; a3] /\ le32 size = [s0; s1; s2; s3]).
  { subst size idv. inv_bytes. split; [assumption|]. split; [apply rd32_bound; assumption|].
    split; [apply rd32_bound; assumption|]. split; apply le32_rd32; assumption. }
  destruct Hbr as (Hbr & Hsz & Hid & Hle_id & Hle_sz).
  destruct (Z.leb_spec (size + size mod 2) (len rest0)) as [Hfit|]; [|discriminate].
  destruct (if size mod 2 =? 0 then true
            else match skipn (Z.to_nat size) rest0 with p :: _ => p =? 0 | [] => false end) eqn:Epad;
    [|discriminate].
  destruct (walk fuel (skipn (Z.to_nat (size + size mod 2)) rest0)) as [cs'|] eqn:Ew; [|discriminate].
  injection H as <- <- <-.
  exists (skipn (Z.to_nat (size + size mod 2)) rest0), fuel.
  assert (Hlend : len (firstn (Z.to_nat size) rest0) = size) by (apply len_firstn; lia).
  split.
  - unfold chunk. rewrite Hlend, Hle_id, Hle_sz. cbn [app]. do 8 f_equal.
    rewrite <- app_assoc. rewrite <- (firstn_skipn (Z.to_nat size) rest0) at 1. f_equal.
    unfold pad. destruct (Z.eqb_spec (size mod 2) 0) as [E|E].
    + rewrite E, Z.add_0_r. reflexivity.
    + replace (size mod 2) with 1 in * by lia.
      replace (Z.to_nat (size + 1)) with (S (Z.to_nat size)) by lia.
      destruct (skipn (Z.to_nat size) rest0) as [|p tl] eqn:Es.
      * discriminate.
      * apply Z.eqb_eq in Epad. subst p. cbn [app]. f_equal.
        symmetry. apply (skipn_S_of _ _ _ _ Es).
  - split; [exact Ew|]. split; [apply bytes_ok_skipn; exact Hbr|].
    split; [apply bytes_ok_firstn; exact Hbr|]. split; [exact Hid|]. lia.
Qed.

Lemma walk_nil_inv : forall fuel buf, walk fuel buf = Some [] -> buf = [].
Proof.
  intros fuel buf H. destruct buf as [|a0 buf]; [reflexivity|exfalso].
  destruct fuel as [|fuel]; [cbn in H; discriminate|].
  destruct buf as [|a1 [|a2 [|a3 [|s0 [|s1 [|s2 [|s3 rest0]]]]]]]; try (cbn in H; discriminate).
  cbn [walk] in H.
  destruct (_ <=? _); [|discriminate].
  match type of H with (if ?c then _ else _) = _ => destruct c; [|discriminate] end.
  destruct (walk fuel _); discriminate.
Qed.

Definition optl (id : Z) (o : option (list Z)) : list (Z * list Z) :=
  match o with Some d => [(id, d)] | None => [] end.
Definition optc (id : Z) (o : option (list Z)) : list Z :=
  match o with Some d => chunk id d | None => [] end.

Lemma take_opt_spec id cs o tl : take_opt id cs = (o, tl) -> cs = optl id o ++ tl.
Proof.
  unfold take_opt. destruct cs as [|[i d] cs'].
  - intros [= <- <-]. reflexivity.
  - destruct (Z.eqb_spec i id) as [->|]; intros [= <- <-]; reflexivity.
Qed.

Lemma walk_optl_inv fuel buf id o cs :
  bytes_ok buf -> walk fuel buf = Some (optl id o ++ cs) ->
  exists rest fuel', buf = optc id o ++ rest /\ walk fuel' rest = Some cs /\ bytes_ok rest /\
                     match o with Some d => bytes_ok d /\ len d < 4294967296 | None => True end.
Proof.
  intros Hb H. destruct o as [d|]; cbn [optl optc app] in *.
  - destruct (walk_cons_inv _ _ _ _ _ Hb H) as (rest & fuel' & E & Hw & Hr & Hd & _ & Hl).
    exists rest, fuel'. auto.
  - exists buf, fuel. auto.
Qed.

(** ** Inverting [riff_chunks] and [still_layout_ok] *)
Lemma riff_chunks_inv file cs :
  bytes_ok file -> riff_chunks file = Some cs ->
  exists body, file = le32 FourCCRIFF ++ le32 (4 + len body) ++ le32 FourCCWEBP ++ body /\
               walk (S (length body)) body = Some cs /\ bytes_ok body /\ 4 + len body < 4294967296.
Proof.
  intros Hb H.
  destruct file as [|r0 [|r1 [|r2 [|r3 [|s0 [|s1 [|s2 [|s3 [|w0 [|w1 [|w2 [|w3 body]]]]]]]]]]]];
    try discriminate.
  cbn [riff_chunks] in H.
  destruct (Z.eqb_spec (rd32 [r0; r1; r2; r3]) FourCCRIFF) as [ER|]; cbn [andb] in H; [|discriminate].
  destruct (Z.eqb_spec (rd32 [w0; w1; w2; w3]) FourCCWEBP) as [EW|]; cbn [andb] in H; [|discriminate].
  destruct (Z.eqb_spec (rd32 [s0; s1; s2; s3]) (len (r0 :: r1 :: r2 :: r3 :: s0 :: s1 :: s2 :: s3 :: w0 :: w1 :: w2 :: w3 :: body) - 8))
    as [ES|]; [|discriminate].
  rewrite !len_cons in ES.
  assert (Hbb : bytes_ok body /\ le32 (rd32 [r0; r1; r2; r3]) = [r0; r1; r2; r3] /\
                le32 (rd32 [s0; s1; s2; s3]) = [s0; s1; s2; s3] /\ le32 (rd32 [w0; w1; w2; w3]) = [w0; w1; w2; w3] /\
                0 <= rd32 [s0; s1; s2; s3] < 4294967296).
  { inv_bytes. split; [assumption|]. repeat split; try (apply le32_rd32; assumption); apply rd32_bound; assumption. }
  destruct Hbb as (Hbody & L1 & L2 & L3 & Hr).
  exists body. split.
  - rewrite <- ER, <- EW. replace (4 + len body) with (rd32 [s0; s1; s2; s3]) by lia.
    rewrite L1, L2, L3. reflexivity.
  - split; [exact H|]. split; [exact Hbody|]. lia.
Qed.

Lemma still_layout_inv cs :
  still_layout_ok cs = true ->
  (exists id bs, cs = [(id, bs)] /\ is_some (image_dims id bs) = true) \/
  (exists flags w0 w1 w2 h0 h1 h2 icc alph id bs exif xmp w h a,
     cs = (FourCCVP8X, [flags; 0; 0; 0; w0; w1; w2; h0; h1; h2])
          :: optl FourCCICCP icc ++ optl FourCCALPH alph ++ (id, bs)
          :: optl FourCCEXIF exif ++ optl FourCCXMP xmp /\
     image_dims id bs = Some (w, h, a) /\ Z.land flags 195 = 0 /\
     Z.testbit flags 5 = is_some icc /\ Z.testbit flags 3 = is_some exif /\ Z.testbit flags 2 = is_some xmp /\
     Z.testbit flags 4 = (is_some alph || a) /\ (is_some alph = true -> id = FourCCVP8) /\
     1 + rd24 [w0; w1; w2] = w /\ 1 + rd24 [h0; h1; h2] = h).
Proof.
  intros H. destruct cs as [|[x p] rest]; [discriminate|].
  destruct rest as [|c2 rest2].
  { left. rewrite still_layout_single in H. eauto. }
  right. unfold still_layout_ok in H.
  destruct p as [|flags [|r1 [|r2 [|r3 [|w0 [|w1 [|w2 [|h0 [|h1 [|h2 [|? ?]]]]]]]]]]]; try discriminate.
  destruct (take_opt FourCCICCP (c2 :: rest2)) as [icc rest1] eqn:E1.
  destruct (take_opt FourCCALPH rest1) as [alph rest2'] eqn:E2.
  destruct rest2' as [|[id bs] rest3]; [discriminate|].
  destruct (take_opt FourCCEXIF rest3) as [exif rest4] eqn:E3.
  destruct (take_opt FourCCXMP rest4) as [xmp rest5] eqn:E4.
  destruct rest5; [|discriminate].
  destruct (image_dims id bs) as [[[w h] a]|] eqn:Ed; [|discriminate].
  rewrite !andb_true_iff in H.
  destruct H as (((((((((((Hx & Hr1) & Hr2) & Hr3) & Hl) & H5) & H3) & H2) & H4) & Hal) & Hw) & Hh).
  apply Z.eqb_eq in Hx, Hr1, Hr2, Hr3, Hl, Hw, Hh. apply eqb_prop in H5, H3, H2, H4. subst x r1 r2 r3.
  apply take_opt_spec in E1, E2, E3, E4. rewrite app_nil_r in E4. subst rest4 rest3 rest1. rewrite E1.
  exists flags, w0, w1, w2, h0, h1, h2, icc, alph, id, bs, exif, xmp, w, h, a.
  split; [reflexivity|]. repeat (split; [assumption|]). split; [|split; assumption].
  intros Ha. rewrite Ha in Hal. cbn [negb orb] in Hal. apply Z.eqb_eq in Hal. exact Hal.
Qed.

Lemma flags_byte_facts f :
  0 <= f < 256 -> Z.land f 195 = 0 ->
  0 <= f < 64 /\ Z.land f 4294967233 = 0 /\ Z.testbit f 1 = false.
Proof.
  intros Hr Hl.
  assert (Hall : forallb (fun n => let v := Z.of_nat n in
                   implb (Z.land v 195 =? 0) ((v <? 64) && (Z.land v 4294967233 =? 0) && negb (Z.testbit v 1)))
                 (seq 0 256) = true) by (vm_compute; reflexivity).
  rewrite forallb_forall in Hall. specialize (Hall (Z.to_nat f)).
  assert (Hin : In (Z.to_nat f) (seq 0 256)) by (apply in_seq; lia).
  specialize (Hall Hin). cbv zeta in Hall. rewrite Z2Nat.id in Hall by lia.
  rewrite Hl in Hall. cbn [Z.eqb implb] in Hall. rewrite !andb_true_iff in Hall.
  destruct Hall as [[H1 H2] H3]. apply Z.eqb_eq in H2. apply negb_true_iff in H3. apply Z.ltb_lt in H1.
  split; [lia|]. split; assumption.
Qed.

Lemma image_dims_fourcc id bs w h a : image_dims id bs = Some (w, h, a) -> image_fourcc id.
Proof.
  unfold image_dims, image_fourcc.
  destruct (Z.eqb_spec id FourCCVP8L); [auto|]. destruct (Z.eqb_spec id FourCCVP8); [auto|discriminate].
Qed.

(** ** The image part with an optional (possibly empty) ALPH chunk *)
Definition frame_of (id : Z) (bs : list Z) (alph : option (list Z)) (w h : Z) (a : bool) : FrameInfo :=
  if id =? FourCCVP8L then mkFrame 0 0 w h 0 false false a true bs None
  else mkFrame 0 0 w h 0 false false (is_some alph) false bs alph.

Lemma chunks_image_part_opt fuel fx feat cs id bs alph w h a tail :
  image_dims id bs = Some (w, h, a) -> len bs <= MaxChunkPayload ->
  (forall d, alph = Some d -> len d <= MaxChunkPayload) ->
  (is_some alph = true -> id = FourCCVP8) -> fHasAnim feat = false ->
  parse_vp8x_chunks (S fuel) fx feat [] cs 0 (optc FourCCALPH alph ++ chunk id bs ++ tail) =
  Ok (mkParsed (set_dims (if is_some alph || a then set_alpha feat else feat) w h)
               [frame_of id bs alph w h a] cs, KStill).
Proof.
  intros Hd Hbs Hal Halph Hanim. pose proof (image_dims_fourcc _ _ _ _ _ Hd) as Hf.
  unfold frame_of, image_dims in *.
  destruct alph as [d|]; cbn [optc is_some orb app] in *.
  - rewrite (Halph eq_refl) in *.
    change (FourCCVP8 =? FourCCVP8L) with false in *. change (FourCCVP8 =? FourCCVP8) with true in Hd.
    destruct (parse_vp8_header bs) as [[w' h']|e|] eqn:Eh; try discriminate. injection Hd as -> -> <-.
    rewrite chunks_step_image by (auto || (apply Hal; reflexivity) || exact Hanim).
    rewrite ext_step_alph by (apply Hal; reflexivity).
    assert (Hfu : (0 < length (chunk FourCCALPH d ++ chunk FourCCVP8 bs ++ tail))%nat).
    { rewrite app_length. pose proof (chunk_min_len FourCCALPH d). unfold len in *. lia. }
    destruct (length (chunk FourCCALPH d ++ chunk FourCCVP8 bs ++ tail)) as [|f]; [lia|].
    rewrite (ext_step_vp8 f _ _ _ _ _ w h Hbs Eh). cbn [bind]. reflexivity.
  - destruct Hf as [->| ->].
    + change (FourCCVP8 =? FourCCVP8L) with false in *. change (FourCCVP8 =? FourCCVP8) with true in Hd.
      destruct (parse_vp8_header bs) as [[w' h']|e|] eqn:Eh; try discriminate. injection Hd as -> -> <-.
      rewrite chunks_step_image by (auto || exact Hbs || exact Hanim).
      rewrite (ext_step_vp8 _ _ _ _ _ _ w h Hbs Eh). cbn [bind]. reflexivity.
    + change (FourCCVP8L =? FourCCVP8L) with true in *.
      destruct (parse_vp8l_header bs) as [[[w' h'] a']|e|] eqn:Eh; try discriminate. injection Hd as -> -> ->.
      rewrite chunks_step_image by (auto || exact Hbs || exact Hanim).
      rewrite (ext_step_vp8l _ _ _ _ _ w h a Hbs Eh). cbn [bind]. reflexivity.
Qed.

(** ** Well-formed stills are accepted, with the walker's view *)
Definition wf_still_accepted_statement : Prop :=
  forall fx file,
    bytes_ok file -> len file <= MaxMetadataSize -> riff_wf file = true ->
    exists r f id w h a,
      parse_ex fx file = Ok (r, KStill) /\ pFrames r = [f] /\
      image_fourcc id /\ frLossless f = (id =? FourCCVP8L) /\
      spec_get_chunk file id = Some (frPayload f) /\
      (frLossless f = false -> frAlpha f = spec_get_chunk file FourCCALPH) /\
      image_dims id (frPayload f) = Some (w, h, a) /\
      fWidth (pFeat r) = w /\ fHeight (pFeat r) = h /\ fCanvasW (pFeat r) = w /\ fCanvasH (pFeat r) = h /\
      fHasAnim (pFeat r) = false.

Theorem wf_still_accepted : wf_still_accepted_statement.
Proof.
  intros fx file Hb Hlen Hwf. unfold riff_wf in Hwf.
  destruct (Z.eqb_spec (len file mod 2) 0) as [Heven|]; cbn [andb] in Hwf; [|discriminate].
  destruct (riff_chunks file) as [cs|] eqn:Erc; [|discriminate].
  destruct (riff_chunks_inv _ _ Hb Erc) as (body & Hfile & Hwalk & Hbody & Hrs).
  assert (Hlb : len file = 12 + len body).
  { rewrite Hfile, !len_app, !len_le32. lia. }
  unfold MaxMetadataSize in Hlen.
  destruct (still_layout_inv _ Hwf) as
    [(id & bs & -> & Hdims)|
     (flags & w0 & w1 & w2 & h0 & h1 & h2 & icc & alph & id & bs & exif & xmp & w & h & a &
      -> & Hd & Hl & F5 & F3 & F2 & F4 & Halph & Hw & Hh)].
  - (* simple layout *)
    destruct (walk_cons_inv _ _ _ _ _ Hbody Hwalk) as (rest & fuel' & Eb & Hw' & _ & Hbs & Hid & Hlbs).
    apply walk_nil_inv in Hw'. subst rest. rewrite app_nil_r in Eb.
    destruct (image_dims id bs) as [[[w h] a]|] eqn:Ed; [|discriminate].
    pose proof (image_dims_fourcc _ _ _ _ _ Ed) as Hf.
    assert (Hsimple : file = simple_file id bs) by (rewrite Hfile, Eb; reflexivity).
    assert (Hsmall : len bs < 4294967296 - 21).
    { rewrite Eb, len_chunk in Hlb. unfold padded_chunk_size, ChunkHeaderSize in Hlb. pose proof (len_nonneg bs). lia. }
    exists (mkParsed (simple_features id w h a) [expected_frame id bs [] w h a] []), (expected_frame id bs [] w h a), id, w, h, a.
    split; [rewrite Hsimple; apply (parse_written_simple fx id bs w h a Hf Hsmall Ed)|].
    split; [reflexivity|]. split; [exact Hf|].
    unfold spec_get_chunk. rewrite Erc. unfold expected_frame, opt_blob.
    change (len (@nil Z) >? 0) with false. cbn [find_chunk]. rewrite Z.eqb_refl.
    destruct Hf as [->| ->]; cbn [pFeat simple_features fWidth fHeight fCanvasW fCanvasH fHasAnim];
      repeat split; try reflexivity; try exact Ed.
  - (* extended layout *)
    pose proof (image_dims_fourcc _ _ _ _ _ Hd) as Hf.
    destruct (header_declares_range _ _ _ _ _ Hf Hd) as [Hwr Hhr].
    destruct (walk_cons_inv _ _ _ _ _ Hbody Hwalk) as (rest1 & fu1 & Eb1 & Hw1 & Hr1 & Hpl & _ & _).
    destruct (walk_optl_inv _ _ _ _ _ Hr1 Hw1) as (rest2 & fu2 & Eb2 & Hw2 & Hr2 & Hicc).
    destruct (walk_optl_inv _ _ _ _ _ Hr2 Hw2) as (rest3 & fu3 & Eb3 & Hw3 & Hr3 & Halp).
    destruct (walk_cons_inv _ _ _ _ _ Hr3 Hw3) as (rest4 & fu4 & Eb4 & _ & _ & Hbsb & _ & _).
    subst rest3 rest2 rest1.
    (* sizes: everything is inside the file *)
    assert (Hsizes : len bs <= 104857600 /\
                     match icc with Some d => len d <= 104857600 | None => True end /\
                     match alph with Some d => len d <= 104857600 | None => True end).
    { rewrite Eb1 in Hlb. rewrite !len_app, !len_chunk in Hlb.
      pose proof (len_nonneg rest4). pose proof (len_nonneg bs).
      unfold padded_chunk_size, ChunkHeaderSize in Hlb.
      assert (0 <= len (optc FourCCICCP icc)) by apply len_nonneg.
      assert (0 <= len (optc FourCCALPH alph)) by apply len_nonneg.
      change (len [flags; 0; 0; 0; w0; w1; w2; h0; h1; h2]) with 10 in Hlb.
      split; [lia|]. split.
      - destruct icc as [d|]; [|exact I]. cbn [optc] in *. rewrite len_chunk in *.
        unfold padded_chunk_size, ChunkHeaderSize in *. pose proof (len_nonneg d). lia.
      - destruct alph as [d|]; [|exact I]. cbn [optc] in *. rewrite len_chunk in *.
        unfold padded_chunk_size, ChunkHeaderSize in *. pose proof (len_nonneg d). lia. }
    destruct Hsizes as (Hsbs & Hsicc & Hsalph).
    (* the VP8X payload *)
    assert (Hfb : is_byte flags /\ is_byte w0 /\ is_byte w1 /\ is_byte w2 /\ is_byte h0 /\ is_byte h1 /\ is_byte h2).
    { unfold bytes_ok in Hpl.
      repeat match goal with Hf : Forall is_byte (_ :: _) |- _ => inversion Hf; subst; clear Hf end. auto 10. }
    destruct Hfb as (Bf & B0 & B1 & B2 & B3 & B4 & B5).
    destruct (flags_byte_facts flags Bf Hl) as (Hf64 & Hland & Hbit1).
    assert (Hpay : [flags; 0; 0; 0; w0; w1; w2; h0; h1; h2] = vp8x_payload flags w h).
    { unfold vp8x_payload. replace (w - 1) with (rd24 [w0; w1; w2]) by lia.
      replace (h - 1) with (rd24 [h0; h1; h2]) by lia.
      rewrite (le24_rd24 w0 w1 w2 B0 B1 B2), (le24_rd24 h0 h1 h2 B3 B4 B5).
      assert (Hle : le32 flags = [flags; 0; 0; 0]).
      { unfold le32. replace (flags mod 256) with flags by lia. replace ((flags / 256) mod 256) with 0 by lia.
        replace ((flags / 65536) mod 256) with 0 by lia. replace ((flags / 16777216) mod 256) with 0 by lia.
        reflexivity. }
      rewrite Hle. reflexivity. }
    rewrite Hpay in Eb1.
    destruct fourcc_ranges as (HX & _).
    set (tailI := optc FourCCICCP icc ++ optc FourCCALPH alph ++ chunk id bs ++ rest4) in *.
    assert (Hparse : parse_ex fx file =
                     parse_vp8x_chunks (S (length tailI)) fx
                       (mkFeatures w h (is_some alph || a) false (is_some icc) (is_some exif) (is_some xmp)
                                   FormatVP8X 1 4294967295 w h) [] [] 0 tailI).
    { rewrite Hfile.
      rewrite (parse_ex_written fx _ _ FourCCVP8X (vp8x_payload flags w h) tailI);
        [|reflexivity|unfold MaxChunkPayload; rewrite Eb1, len_app in *;
                      pose proof (chunk_min_len FourCCVP8X (vp8x_payload flags w h)); pose proof (len_nonneg tailI); lia
         |exact Eb1|exact HX].
      change (FourCCVP8X =? FourCCVP8X) with true. cbv iota. rewrite Eb1.
      rewrite parse_vp8x_written by assumption. rewrite F5, F3, F2, F4, Hbit1. reflexivity. }
    rewrite Hparse. subst tailI. unfold MaxChunkPayload, MaxMetadataSize in *.
    assert (Hal' : forall d, alph = Some d -> len d <= 4294967286).
    { intros d ->. lia. }
    exists (mkParsed (set_dims (if is_some alph || a
                                then set_alpha (mkFeatures w h (is_some alph || a) false (is_some icc) (is_some exif)
                                                           (is_some xmp) FormatVP8X 1 4294967295 w h)
                                else mkFeatures w h (is_some alph || a) false (is_some icc) (is_some exif)
                                                (is_some xmp) FormatVP8X 1 4294967295 w h) w h)
                     [frame_of id bs alph w h a] (match icc with Some d => [mkChunk FourCCICCP d] | None => [] end)),
           (frame_of id bs alph w h a), id, w, h, a.
    split.
    { destruct icc as [d|]; cbn [optc is_some app].
      - match goal with |- context [S (length ?l)] =>
          assert (Hrest : (1 < length l)%nat)
            by (rewrite app_length; pose proof (chunk_min_len FourCCICCP d); unfold len in *; lia);
          destruct (length l) as [|[|fu]]; [lia|lia|] end.
        rewrite chunks_step_iccp by (reflexivity || (unfold MaxMetadataSize; lia)). cbn [app].
        rewrite (chunks_image_part_opt _ fx _ _ id bs alph w h a)
          by (assumption || reflexivity || (unfold MaxChunkPayload; lia)).
        reflexivity.
      - rewrite (chunks_image_part_opt _ fx _ _ id bs alph w h a)
          by (assumption || reflexivity || (unfold MaxChunkPayload; lia)).
        reflexivity. }
    split; [reflexivity|]. split; [exact Hf|].
    unfold spec_get_chunk. rewrite Erc. unfold frame_of.
    assert (Hfl : forall A (x y : A), frLossless (if id =? FourCCVP8L then mkFrame 0 0 w h 0 false false a true bs None
                                       else mkFrame 0 0 w h 0 false false (is_some alph) false bs alph) = (id =? FourCCVP8L)).
    { intros. destruct (id =? FourCCVP8L); reflexivity. }
    split; [destruct (id =? FourCCVP8L); reflexivity|].
    split.
    { destruct Hf as [->| ->]; destruct icc, alph; cbn; try reflexivity;
        try (specialize (Halph eq_refl); discriminate). }
    split.
    { destruct Hf as [->| ->]; [|cbn; intros; discriminate].
      intros _. destruct icc, alph, exif, xmp; reflexivity. }
    split.
    { destruct (id =? FourCCVP8L); exact Hd. }
    destruct (is_some alph || a); cbn; repeat split; reflexivity.
Qed.

(** The hypothesis is satisfiable, and not only by this package's output: a VP8X
    file whose ALPH chunk has an empty payload is well-formed for the walker. *)
Example wf_hypothesis_satisfiable :
  bytes_ok FeaturesProofs.wit_empty_alph /\ riff_wf FeaturesProofs.wit_empty_alph = true.
Proof. split; [|vm_compute; reflexivity]. unfold bytes_ok, is_byte. repeat constructor; lia. Qed.
