(** Implementation model of the RIFF writers of encode.go: writeRIFF,
    writeRIFFSimple, writeRIFFExtended, the header callback of
    encodeLosslessToWriter (+ lossless.EncodeToWriter's payload/pad writes), and
    the output selection of AnimEncoder.Close (animation/animation.go).

    writeRIFFExtended fills a pre-sized zeroed buffer at a running offset; the
    model produces the same bytes by concatenation.  That the two agree (the
    buffer is exactly as long as what is written into it, so no write panics and
    no zero tail remains) is [write_extended_length] in WriterProofs: the length of
    the concatenation equals 8 + riffSize computed by the code's own formula.
    writeRIFFSimple has no size guard; its uint32 arithmetic is modelled with
    explicit wrap-around. *)
From Coq Require Import List ZArith Lia Bool.
From Webp Require Import Base.Res Base.Bytes Riff.ParserModel.
Import ListNotations.
Open Scope Z_scope.

Definition EWriteTooLarge : nat := 30.

Definition pad (n : Z) : list Z := if n mod 2 =? 0 then [] else [0].

(** writeChunk: fourcc, uint32(len), data, pad byte if odd. *)
Definition chunk (id : Z) (data : list Z) : list Z :=
  le32 id ++ le32 (len data) ++ data ++ pad (len data).

(** [if len(data) > 0 { writeChunk(id, data) }] *)
Definition opt_chunk (id : Z) (data : list Z) : list Z :=
  if len data >? 0 then chunk id data else [].

Definition padded_chunk_size (n : Z) : Z := ChunkHeaderSize + n + n mod 2.
Definition opt_size (data : list Z) : Z :=
  if len data >? 0 then padded_chunk_size (len data) else 0.

(** The alpha bit of a VP8L header as writeRIFFExtended reads it. *)
Definition vp8l_alpha_bit (fourcc : Z) (bs : list Z) : bool :=
  if (fourcc =? FourCCVP8L) && (len bs >=? 5) then
    match bs with
    | b0 :: b1 :: b2 :: b3 :: b4 :: _ =>
      (b0 =? VP8LMagicByte) && negb ((rd32 [b1; b2; b3; b4] / 268435456) mod 2 =? 0)
    | _ => false
    end
  else false.

Definition b2z (b : bool) : Z := if b then 1 else 0.

Definition vp8x_flags (fourcc : Z) (bs alpha icc exif xmp : list Z) : Z :=
  16 * b2z ((len alpha >? 0) || vp8l_alpha_bit fourcc bs)
  + 32 * b2z (len icc >? 0) + 8 * b2z (len exif >? 0) + 4 * b2z (len xmp >? 0).

Definition riff_size_extended (bs alpha icc exif xmp : list Z) : Z :=
  4 + ChunkHeaderSize + VP8XChunkSize
  + opt_size icc + opt_size alpha + padded_chunk_size (len bs) + opt_size exif + opt_size xmp.

Definition vp8x_chunk (flags w h : Z) : list Z :=
  le32 FourCCVP8X ++ le32 VP8XChunkSize ++ le32 flags ++ le24 (w - 1) ++ le24 (h - 1).

Definition write_riff_extended (fourcc : Z) (bs alpha : list Z) (w h : Z)
           (icc exif xmp : list Z) : Res (list Z) :=
  let riffSize := riff_size_extended bs alpha icc exif xmp in
  if riffSize >? 4294967295 - 8 then Err EWriteTooLarge else
  Ok (le32 FourCCRIFF ++ le32 riffSize ++ le32 FourCCWEBP
      ++ vp8x_chunk (vp8x_flags fourcc bs alpha icc exif xmp) w h
      ++ opt_chunk FourCCICCP icc
      ++ opt_chunk FourCCALPH alpha
      ++ chunk fourcc bs
      ++ opt_chunk FourCCEXIF exif
      ++ opt_chunk FourCCXMP xmp).

Definition u32 (v : Z) : Z := v mod 4294967296.

Definition simple_header (fourcc : Z) (n : Z) : list Z :=
  let payloadSize := u32 n in
  let padded := u32 (payloadSize + payloadSize mod 2) in
  let riffSize := u32 (4 + ChunkHeaderSize + padded) in
  le32 FourCCRIFF ++ le32 riffSize ++ le32 FourCCWEBP ++ le32 fourcc ++ le32 payloadSize.

Definition write_riff_simple (fourcc : Z) (bs : list Z) : Res (list Z) :=
  let payloadSize := u32 (len bs) in
  let padded := u32 (payloadSize + payloadSize mod 2) in
  let riffSize := u32 (4 + ChunkHeaderSize + padded) in
  let total := u32 (8 + riffSize) in
  if total <? 20 then Panic else
  (* copy(buf[20:], bitstream) into the zeroed buffer *)
  let body := firstn (Z.to_nat (total - 20)) (bs ++ repeat 0 (Z.to_nat (total - 20))) in
  if negb (payloadSize mod 2 =? 0) && negb (20 + payloadSize <? total) then Panic
  else Ok (simple_header fourcc (len bs) ++ body).

(** writeRIFF: extended iff alpha or metadata present ([len > 0] tests). *)
Definition write_riff (fourcc : Z) (bs alpha : list Z) (w h : Z) (icc exif xmp : list Z)
  : Res (list Z) :=
  if (len alpha >? 0) || (len icc >? 0) || (len exif >? 0) || (len xmp >? 0)
  then write_riff_extended fourcc bs alpha w h icc exif xmp
  else write_riff_simple fourcc bs.

(** Streaming lossless path: 20-byte header, bitstream, pad byte. *)
Definition write_lossless_stream (bs : list Z) : list Z :=
  simple_header FourCCVP8L (len bs) ++ bs ++ pad (len bs).

(** Encode's choice for lossless images. *)
Definition encode_lossless_container (bs : list Z) (w h : Z) (icc exif xmp : list Z) : Res (list Z) :=
  if (len icc >? 0) || (len exif >? 0) || (len xmp >? 0)
  then write_riff FourCCVP8L bs [] w h icc exif xmp
  else Ok (write_lossless_stream bs).

(** AnimEncoder.Close: which of the two candidate files is written.
    [animData] is the muxer output (it carries the metadata set on the encoder),
    [simple] is what SimpleEncodeFunc returned for the single canvas ([None]: it
    failed or is not registered).  [fix_meta = false] is the pinned tree;
    [true] is the repaired code that keeps the muxer output when any metadata
    was set ([has_meta]: some blob non-nil). *)
Definition anim_close (fix_meta : bool) (frameCount : Z) (hasPrevCanvas : bool) (has_meta : bool)
           (animData : list Z) (simple : option (list Z)) : list Z :=
  if (frameCount =? 1) && hasPrevCanvas && negb (fix_meta && has_meta) then
    match simple with
    | Some s => if (len s >? 0) && (len s <? len animData) then s else animData
    | None => animData
    end
  else animData.

(** The pinned tree's Close (before commit b34a072), subject of the [_refuted] theorem. *)
Definition pinned_anim_close := anim_close false.
