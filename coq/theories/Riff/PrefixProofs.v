(** C17 at the container level: the parser on a prefix of a still file it accepts.

    [prefix_all_or_nothing] (repaired parser): for every byte string [bs] parsed
    as a still (a top-level image chunk was found) and every proper prefix [p],
    the parser on [p] returns an error or exactly the same result (same features,
    same frame with the same payload and alpha bytes).  Consequently GetFeatures,
    DecodeConfig and the Decode glue (for any codec) fail or agree with the
    complete file.

    [features_prefix_refuted] (pinned parser): the statement is false; cutting a
    VP8X file between the VP8X chunk and the image chunk makes the parser succeed
    with no frame. *)
From Coq Require Import List ZArith Lia Bool.
From Coq Require Import ZifyBool ZifyNat.
From Webp Require Import Base.Res Base.Bytes Riff.ParserModel Riff.ParserLemmas Riff.FeaturesModel.
Import ListNotations.
Open Scope Z_scope.

Definition proper_prefix {A} (p bs : list A) : Prop := exists s, s <> [] /\ bs = p ++ s.

Definition prefix_all_or_nothing_statement (fix_noimage : bool) : Prop :=
  forall bs p r, parse_ex fix_noimage bs = Ok (r, KStill) -> proper_prefix p bs ->
    (exists e, parse_ex fix_noimage p = Err e) \/ parse_ex fix_noimage p = Ok (r, KStill).

(** What the parser can return on a prefix of a still it accepts: an error, the
    same result, or -- pinned variant only -- success with an empty frame list
    because the chunk list ended before the image chunk. *)
Definition prefix_outcome (fx : bool) (r : Parsed) (res : Res (Parsed * Kind)) : Prop :=
  (exists e, res = Err e) \/ res = Ok (r, KStill) \/
  (fx = false /\ exists r', res = Ok (r', KList) /\ pFrames r' = [] /\ fHasAnim (pFeat r') = false).

Definition prefix_classified_statement : Prop :=
  forall fx bs p r, parse_ex fx bs = Ok (r, KStill) -> proper_prefix p bs ->
    prefix_outcome fx r (parse_ex fx p).

(** ** parseExtSingleImage on a prefix *)
Lemma ext_single_prefix : forall fuel1 fuel2 feat frames chunks alph p s r,
  parse_ext_single fuel1 feat frames chunks alph (p ++ s) = Ok r ->
  (length p < fuel2)%nat ->
  (exists e, parse_ext_single fuel2 feat frames chunks alph p = Err e) \/
  parse_ext_single fuel2 feat frames chunks alph p = Ok r.
Proof.
  induction fuel1 as [|fuel1 IH]; intros fuel2 feat frames chunks alph p s r H Hf; [discriminate|].
  destruct fuel2 as [|fuel2]; [lia|].
  cbn [parse_ext_single] in *.
  destruct (len (p ++ s) <? ChunkHeaderSize) eqn:E8; [discriminate|].
  destruct (chunk_at (p ++ s)) as [[[[f sz] tot] pl]|e|] eqn:Ec; cbn [bind] in H; try discriminate.
  destruct (chunk_at_prefix _ _ _ _ _ _ Ec) as [[Hle Ecp]|[Hlt Ecp]].
  2:{ left. destruct (len p <? ChunkHeaderSize); [eauto|]. rewrite Ecp. cbn [bind]. eauto. }
  destruct (chunk_at_ok_inv _ _ _ _ _ Ecp) as (_ & Hsz & Htot & _ & H8 & _).
  unfold ChunkHeaderSize. destruct (Z.ltb_spec (len p) 8) as [?|_]; [lia|].
  rewrite Ecp. cbn [bind].
  destruct (f =? FourCCALPH) eqn:EA.
  - destruct (rest_app p s tot ltac:(lia)) as [R1 R2]. rewrite R1 in H. rewrite R2. cbn [bind] in *.
    eapply IH; [exact H|]. rewrite skipn_length. unfold len in *. lia.
  - right. exact H.
Qed.

(** ** parseVP8XChunks: a still result needs a clear animation flag and no ANIM chunk *)
Lemma chunks_still_inv : forall fuel fx feat frames chunks a buf r,
  parse_vp8x_chunks fuel fx feat frames chunks a buf = Ok (r, KStill) -> 0 <= a ->
  a = 0 /\ fHasAnim feat = false.
Proof.
  induction fuel as [|fuel IH]; intros fx feat frames chunks a buf r H Ha; [discriminate|].
  cbn [parse_vp8x_chunks] in H.
  destruct (len buf <? ChunkHeaderSize).
  { destruct (fx && negb (fHasAnim feat) && (len frames =? 0)); discriminate. }
  destruct (chunk_at buf) as [[[[f sz] tot] pl]|e|] eqn:Ec; cbn [bind] in H; try discriminate.
  destruct (f =? FourCCVP8X); [discriminate|].
  destruct (f =? FourCCANIM).
  { destruct (sz <? ANIMChunkSize); [discriminate|].
    destruct (slice pl 0 4); cbn [bind] in H; try discriminate.
    destruct (slice pl 4 6); cbn [bind] in H; try discriminate.
    destruct (slice buf tot (len buf)); cbn [bind] in H; try discriminate.
    apply IH in H; [|lia]. lia. }
  destruct (f =? FourCCANMF).
  { destruct (Z.eqb_spec a 0); [discriminate|].
    destruct (len frames >=? MaxFrames); [discriminate|].
    destruct (parse_anmf pl); cbn [bind] in H; try discriminate.
    destruct (slice buf tot (len buf)); cbn [bind] in H; try discriminate.
    apply IH in H; [|lia]. lia. }
  destruct (is_image_fourcc f || (f =? FourCCALPH)).
  { destruct (Z.gtb_spec a 0); cbn [orb] in H; [discriminate|].
    destruct (fHasAnim feat); [discriminate|]. split; [lia|reflexivity]. }
  assert (Hcont : forall cs, (rest <- slice buf tot (len buf);;
                  parse_vp8x_chunks fuel fx feat frames cs a rest) = Ok (r, KStill) ->
                  a = 0 /\ fHasAnim feat = false).
  { intros cs Hc. destruct (slice buf tot (len buf)); cbn [bind] in Hc; try discriminate.
    eapply IH; eauto. }
  destruct (f =? FourCCICCP).
  { destruct (add_meta (fHasICCP feat) sz f pl chunks); cbn [bind] in H; try discriminate. eauto. }
  destruct (f =? FourCCEXIF).
  { destruct (add_meta (fHasEXIF feat) sz f pl chunks); cbn [bind] in H; try discriminate. eauto. }
  destruct (f =? FourCCXMP).
  { destruct (add_meta (fHasXMP feat) sz f pl chunks); cbn [bind] in H; try discriminate. eauto. }
  destruct (len chunks >=? MaxChunks); [discriminate|].
  destruct (sz >? MaxMetadataSize); [discriminate|]. eauto.
Qed.

(** ** parseVP8XChunks on a prefix *)
Lemma chunks_prefix : forall fuel1 fuel2 fx feat chunks p s r,
  parse_vp8x_chunks fuel1 fx feat [] chunks 0 (p ++ s) = Ok (r, KStill) ->
  (length p < fuel2)%nat ->
  prefix_outcome fx r (parse_vp8x_chunks fuel2 fx feat [] chunks 0 p).
Proof.
  unfold prefix_outcome.
  induction fuel1 as [|fuel1 IH]; intros fuel2 fx feat chunks p s r H Hf; [discriminate|].
  destruct fuel2 as [|fuel2]; [lia|].
  destruct (chunks_still_inv _ _ _ _ _ _ _ _ H ltac:(lia)) as [_ Hanim].
  cbn [parse_vp8x_chunks] in *. rewrite Hanim in *.
  cbn [negb orb] in *. change (len (@nil FrameInfo) =? 0) with true in *.
  destruct (len (p ++ s) <? ChunkHeaderSize) eqn:E8; [destruct fx; discriminate|].
  destruct (chunk_at (p ++ s)) as [[[[f sz] tot] pl]|e|] eqn:Ec; cbn [bind] in H; try discriminate.
  assert (Hend : (exists e, (if fx && true && true then Err ETruncated
                             else Ok (mkParsed feat [] chunks, KList)) = Err e) \/
                 (if fx && true && true then @Err (Parsed * Kind) ETruncated
                  else Ok (mkParsed feat [] chunks, KList)) = Ok (r, KStill) \/
                 fx = false /\ exists r', (if fx && true && true then Err ETruncated
                                           else Ok (mkParsed feat [] chunks, KList)) = Ok (r', KList) /\
                                          pFrames r' = [] /\ fHasAnim (pFeat r') = false).
  { destruct fx; cbn [andb]; [left; eauto|]. right; right. split; [reflexivity|].
    eexists; split; [reflexivity|]. cbn [pFrames pFeat]. auto. }
  destruct (chunk_at_prefix _ _ _ _ _ _ Ec) as [[Hle Ecp]|[Hlt Ecp]].
  2:{ destruct (len p <? ChunkHeaderSize); [exact Hend|]. left. rewrite Ecp. cbn [bind]. eauto. }
  clear Hend.
  destruct (chunk_at_ok_inv _ _ _ _ _ Ecp) as (_ & Hsz & Htot & _ & H8 & _).
  unfold ChunkHeaderSize in *. destruct (Z.ltb_spec (len p) 8) as [?|_]; [lia|].
  rewrite Ecp. cbn [bind].
  destruct (rest_app p s tot ltac:(lia)) as [R1 R2].
  assert (Hfuel : (length (skipn (Z.to_nat tot) p) < fuel2)%nat).
  { rewrite skipn_length. unfold len in *. lia. }
  destruct (f =? FourCCVP8X); [discriminate|].
  destruct (f =? FourCCANIM).
  { exfalso. destruct (sz <? ANIMChunkSize); [discriminate|].
    destruct (slice pl 0 4); cbn [bind] in H; try discriminate.
    destruct (slice pl 4 6); cbn [bind] in H; try discriminate.
    rewrite R1 in H. cbn [bind] in H.
    apply chunks_still_inv in H; lia. }
  destruct (f =? FourCCANMF); [discriminate|].
  destruct (is_image_fourcc f || (f =? FourCCALPH)).
  { change (0 >? 0) with false in *. cbn [orb] in *.
    destruct (parse_ext_single (S (length (p ++ s))) feat [] chunks None (p ++ s)) as [r0|e|] eqn:Ex;
      cbn [bind] in H; try discriminate.
    injection H as ->.
    destruct (ext_single_prefix _ (S (length p)) _ _ _ _ _ _ _ Ex ltac:(lia)) as [[e He]|He];
      rewrite He; cbn [bind]; eauto. }
  destruct (f =? FourCCICCP).
  { destruct (add_meta (fHasICCP feat) sz f pl chunks); cbn [bind] in *; try discriminate.
    rewrite R1 in H. rewrite R2. cbn [bind] in *. eapply IH; eauto. }
  destruct (f =? FourCCEXIF).
  { destruct (add_meta (fHasEXIF feat) sz f pl chunks); cbn [bind] in *; try discriminate.
    rewrite R1 in H. rewrite R2. cbn [bind] in *. eapply IH; eauto. }
  destruct (f =? FourCCXMP).
  { destruct (add_meta (fHasXMP feat) sz f pl chunks); cbn [bind] in *; try discriminate.
    rewrite R1 in H. rewrite R2. cbn [bind] in *. eapply IH; eauto. }
  destruct (len chunks >=? MaxChunks); [discriminate|].
  destruct (sz >? MaxMetadataSize); [discriminate|].
  rewrite R1 in H. rewrite R2. cbn [bind] in *. eapply IH; eauto.
Qed.

(** ** parseSingleImage, parseVP8X, parse on a prefix *)
Lemma single_image_prefix fmt p s r :
  parse_single_image fmt (p ++ s) = Ok r ->
  (exists e, parse_single_image fmt p = Err e) \/ parse_single_image fmt p = Ok r.
Proof.
  unfold parse_single_image. intros H.
  destruct (chunk_at (p ++ s)) as [[[[f sz] tot] pl]|e|] eqn:Ec; cbn [bind] in H; try discriminate.
  destruct (chunk_at_prefix _ _ _ _ _ _ Ec) as [[Hle Ecp]|[Hlt Ecp]]; rewrite Ecp; cbn [bind]; eauto.
Qed.

Lemma vp8x_prefix fx p s r :
  parse_vp8x fx (p ++ s) = Ok (r, KStill) ->
  prefix_outcome fx r (parse_vp8x fx p).
Proof.
  unfold parse_vp8x, prefix_outcome. intros H.
  destruct (Z.lt_ge_cases (len p) 8) as [Hs|Hs].
  { left. rewrite read_chunk_header_short by exact Hs. cbn [bind]. eauto. }
  rewrite read_chunk_header_app in H by exact Hs.
  destruct (read_chunk_header p) as [[f sz]|e|]; cbn [bind] in *; try discriminate.
  destruct (Z.eqb_spec sz VP8XChunkSize) as [Hsz|]; cbn [negb] in *; [|discriminate]. subst sz.
  unfold ChunkHeaderSize, VP8XChunkSize in *. change (10 mod 2) with 0 in *. change (8 + (10 + 0)) with 18 in *.
  change (8 + 10) with 18 in *.
  destruct (Z.gtb_spec 18 (len (p ++ s))); [discriminate|].
  destruct (Z.gtb_spec 18 (len p)); [eauto|].
  rewrite slice_app in H by lia.
  destruct (slice p 8 18) as [pl|e|]; cbn [bind] in *; try discriminate.
  destruct pl as [|flags [|? [|? [|? [|w0 [|w1 [|w2 [|h0 [|h1 [|h2 [|? ?]]]]]]]]]]]; try discriminate.
  destruct (negb (Z.land flags 4294967233 =? 0)); [discriminate|].
  destruct ((1 + rd24 [w0; w1; w2]) * (1 + rd24 [h0; h1; h2]) >=? MaxImageArea); [discriminate|].
  destruct (rest_app p s 18 ltac:(lia)) as [R1 R2]. rewrite R1 in H. rewrite R2. cbn [bind] in *.
  eapply chunks_prefix; [exact H|]. lia.
Qed.

Lemma riff_header_app p s : 12 <= len p -> parse_riff_header (p ++ s) = parse_riff_header p.
Proof.
  intros H. unfold parse_riff_header, RIFFHeaderSize. rewrite len_app. pose proof (len_nonneg s).
  destruct (Z.ltb_spec (len p + len s) 12); [lia|].
  destruct (Z.ltb_spec (len p) 12); [lia|].
  rewrite !slice_app by lia. reflexivity.
Qed.

Lemma parse_ex_app fx p s r :
  parse_ex fx (p ++ s) = Ok (r, KStill) ->
  prefix_outcome fx r (parse_ex fx p).
Proof.
  unfold parse_ex, prefix_outcome. intros H.
  destruct (Z.lt_ge_cases (len p) 12) as [Hs|Hs].
  { left. unfold parse_riff_header, RIFFHeaderSize. destruct (Z.ltb_spec (len p) 12); [|lia]. cbn [bind]. eauto. }
  rewrite riff_header_app in H by exact Hs.
  destruct (parse_riff_header p) as [fs|e|]; cbn [bind] in *; [|eauto|discriminate].
  unfold ChunkHeaderSize, RIFFHeaderSize in *.
  pose proof (len_nonneg s) as Hsn.
  destruct (Z.gtb_spec (fs + 8) (len p)) as [Hg|Hg].
  2:{ (* the declared RIFF size ends inside the prefix: identical buffers *)
    destruct (Z.gtb_spec (fs + 8) (len (p ++ s))) as [Hg'|_]; [rewrite len_app in Hg'; lia|].
    rewrite slice_app in H by lia. right; left. exact H. }
  set (hiF := if fs + 8 >? len (p ++ s) then len (p ++ s) else fs + 8) in *.
  assert (HhiF : len p <= hiF <= len (p ++ s)).
  { subst hiF. rewrite len_app in *. destruct (Z.gtb_spec (fs + 8) (len p + len s)); lia. }
  rewrite slice_app_span in H by lia. cbn [bind] in H.
  rewrite slice_to_end by lia. cbn [bind].
  set (bp := skipn (Z.to_nat 12) p) in *. set (s' := firstn (Z.to_nat (hiF - len p)) s) in *.
  destruct (len (bp ++ s') <? 8) eqn:E8; [discriminate|].
  destruct (Z.ltb_spec (len bp) 8) as [Hb|Hb]; [eauto|].
  rewrite slice_app in H by lia.
  destruct (slice bp 0 4) as [t|e|]; cbn [bind] in *; try discriminate.
  destruct (rd32 t =? FourCCVP8X).
  { apply (vp8x_prefix _ _ _ _ H). }
  destruct (rd32 t =? FourCCVP8).
  { destruct (parse_single_image FormatVP8 (bp ++ s')) as [r0|e|] eqn:Ei; cbn [bind] in H; try discriminate.
    injection H as ->.
    destruct (single_image_prefix _ _ _ _ Ei) as [[e He]|He]; rewrite He; cbn [bind]; eauto. }
  destruct (rd32 t =? FourCCVP8L).
  { destruct (parse_single_image FormatVP8L (bp ++ s')) as [r0|e|] eqn:Ei; cbn [bind] in H; try discriminate.
    injection H as ->.
    destruct (single_image_prefix _ _ _ _ Ei) as [[e He]|He]; rewrite He; cbn [bind]; eauto. }
  discriminate.
Qed.

Theorem prefix_classified : prefix_classified_statement.
Proof.
  intros fx bs p r H (s & _ & ->). apply (parse_ex_app _ _ _ _ H).
Qed.

Theorem prefix_all_or_nothing : prefix_all_or_nothing_statement true.
Proof.
  intros bs p r H Hp. destruct (prefix_classified true bs p r H Hp) as [He|[Hs|[Hf _]]]; auto.
  discriminate.
Qed.

(** ** Consequences for the public entry points (repaired parser, any codec) *)
Lemma parse_of_parse_ex fx bs r k : parse_ex fx bs = Ok (r, k) -> parse fx bs = Ok r.
Proof. unfold parse. intros ->. reflexivity. Qed.

Lemma parse_err_of_parse_ex fx bs e : parse_ex fx bs = Err e -> parse fx bs = Err e.
Proof. unfold parse. intros ->. reflexivity. Qed.

Theorem get_features_prefix : forall bs p r,
  parse_ex true bs = Ok (r, KStill) -> proper_prefix p bs ->
  (exists e, get_features true p = Err e) \/ get_features true p = get_features true bs.
Proof.
  intros bs p r H Hp. unfold get_features.
  destruct (prefix_all_or_nothing bs p r H Hp) as [[e He]|He].
  - left. rewrite (parse_err_of_parse_ex _ _ _ He). cbn [bind]. eauto.
  - right. rewrite (parse_of_parse_ex _ _ _ _ He), (parse_of_parse_ex _ _ _ _ H). reflexivity.
Qed.

Theorem decode_config_prefix : forall fa bs p r,
  parse_ex true bs = Ok (r, KStill) -> proper_prefix p bs ->
  (exists e, decode_config fa true p = Err e) \/ decode_config fa true p = decode_config fa true bs.
Proof.
  intros fa bs p r H Hp. unfold decode_config.
  destruct (prefix_all_or_nothing bs p r H Hp) as [[e He]|He].
  - left. rewrite (parse_err_of_parse_ex _ _ _ He). cbn [bind]. eauto.
  - right. rewrite (parse_of_parse_ex _ _ _ _ He), (parse_of_parse_ex _ _ _ _ H). reflexivity.
Qed.

(** Decode: whatever the three codecs are, a prefix is rejected or decodes to the
    very same image (the codecs are handed identical payload and alpha bytes). *)
Theorem decode_prefix : forall (Pix : Type) (lossy_dec lossless_dec : list Z -> Res (Z * Z * Pix))
    (alpha_dec : list Z -> Z -> Z -> Res Pix) bs p r img,
  parse_ex true bs = Ok (r, KStill) -> proper_prefix p bs ->
  decode_bytes lossy_dec lossless_dec alpha_dec true bs = Ok img ->
  (exists e, decode_bytes lossy_dec lossless_dec alpha_dec true p = Err e) \/
  decode_bytes lossy_dec lossless_dec alpha_dec true p = Ok img.
Proof.
  intros Pix ld ll ad bs p r img H Hp Hd. unfold decode_bytes in *.
  destruct (prefix_all_or_nothing bs p r H Hp) as [[e He]|He].
  - left. rewrite (parse_err_of_parse_ex _ _ _ He). cbn [bind]. eauto.
  - right. rewrite (parse_of_parse_ex _ _ _ _ He). rewrite (parse_of_parse_ex _ _ _ _ H) in Hd. exact Hd.
Qed.

(** ** Witnesses *)
(** RIFF / VP8X (no flags, 1x1) / VP8 chunk holding a 10-byte key-frame header. *)
Definition wit_vp8x_vp8 : list Z :=
  [82; 73; 70; 70; 40; 0; 0; 0; 87; 69; 66; 80; 86; 80; 56; 88; 10; 0; 0; 0; 0; 0; 0; 0; 0; 0; 0; 0; 0; 0;
   86; 80; 56; 32; 10; 0; 0; 0; 0; 0; 0; 157; 1; 42; 1; 0; 1; 0].

(** RIFF / VP8X (ICC flag, 1x1) / ICCP (2 bytes) / VP8L header with the alpha bit clear. *)
Definition wit_vp8x_iccp_vp8l : list Z :=
  [82; 73; 70; 70; 46; 0; 0; 0; 87; 69; 66; 80; 86; 80; 56; 88; 10; 0; 0; 0; 32; 0; 0; 0; 0; 0; 0; 0; 0; 0;
   73; 67; 67; 80; 2; 0; 0; 0; 1; 2; 86; 80; 56; 76; 5; 0; 0; 0; 47; 0; 0; 0; 0; 0].

Lemma firstn_proper_prefix {A} (n : nat) (l : list A) : (n < length l)%nat -> proper_prefix (firstn n l) l.
Proof.
  intros H. exists (skipn n l). split.
  - intros E. apply (f_equal (@length A)) in E. rewrite skipn_length in E. cbn in E. lia.
  - symmetry. apply firstn_skipn.
Qed.

(** The hypotheses of the theorems above are satisfiable. *)
Example still_hypothesis_satisfiable :
  exists r, parse_ex true wit_vp8x_vp8 = Ok (r, KStill) /\ length (pFrames r) = 1%nat /\
            proper_prefix (firstn 30 wit_vp8x_vp8) wit_vp8x_vp8.
Proof.
  eexists. split; [vm_compute; reflexivity|]. split; [reflexivity|].
  apply firstn_proper_prefix. cbn. lia.
Qed.

(** Pinned parser: GetFeatures on the 30-byte prefix (cut right after the VP8X
    chunk) succeeds and reports no frame, the complete file reports one. *)
Theorem features_prefix_refuted :
  exists bs p r g g',
    parse_ex false bs = Ok (r, KStill) /\ proper_prefix p bs /\
    get_features false bs = Ok g /\ get_features false p = Ok g' /\
    gFrames g = 1 /\ gFrames g' = 0.
Proof.
  exists wit_vp8x_vp8, (firstn 30 wit_vp8x_vp8). do 3 eexists.
  split; [vm_compute; reflexivity|].
  split; [apply firstn_proper_prefix; cbn; lia|].
  split; [vm_compute; reflexivity|]. split; [vm_compute; reflexivity|]. split; reflexivity.
Qed.

Theorem prefix_all_or_nothing_pinned_false : ~ prefix_all_or_nothing_statement false.
Proof.
  intros H.
  assert (Hp : proper_prefix (firstn 30 wit_vp8x_vp8) wit_vp8x_vp8) by (apply firstn_proper_prefix; cbn; lia).
  assert (Hf : exists r, parse_ex false wit_vp8x_vp8 = Ok (r, KStill)) by (eexists; vm_compute; reflexivity).
  destruct Hf as [r Hf]. destruct (H _ _ _ Hf Hp) as [[e He]|He]; vm_compute in He; discriminate.
Qed.

(** Pinned parser + pinned DecodeConfig: a cut between a metadata chunk and a
    VP8L image whose VP8X alpha flag is clear flips the predicted colour model. *)
Theorem config_prefix_refuted :
  exists bs p r c c',
    parse_ex false bs = Ok (r, KStill) /\ proper_prefix p bs /\
    decode_config false false bs = Ok c /\ decode_config false false p = Ok c' /\
    cModel c = CM_NRGBA /\ cModel c' = CM_YCbCr.
Proof.
  exists wit_vp8x_iccp_vp8l, (firstn 40 wit_vp8x_iccp_vp8l). do 3 eexists.
  split; [vm_compute; reflexivity|].
  split; [apply firstn_proper_prefix; cbn; lia|].
  split; [vm_compute; reflexivity|]. split; [vm_compute; reflexivity|]. split; reflexivity.
Qed.
