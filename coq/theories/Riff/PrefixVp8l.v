(** C17, codec layer, VP8L: prefix-monotonicity of the specification decoder
    [Vp8l.Vp8lSpec.decode] (written from the VP8L bitstream specification; C03 ties
    it to internal/lossless by differential execution).

    The specification decoder threads the list of unread bits through every
    reader and fails with an error as soon as a reader needs a bit that is not
    there.  Hence: if a byte string [d] decodes, then it decodes to the SAME image
    when any bytes are appended.  Read backwards, this is the all-or-nothing
    property for a truncated lossless bitstream: a proper prefix of a VP8L stream
    is rejected, or it yields exactly the picture of the complete stream -- never
    a different one. *)
From Coq Require Import List ZArith Lia Bool.
From Webp Require Import Base.Res Vp8l.Vp8lPixel Vp8l.Vp8lArr Vp8l.Vp8lPrefix Vp8l.Vp8lTransforms
     Vp8l.Vp8lSpec.
Import ListNotations.
Open Scope Z_scope.

(** A reader is extension-stable when a successful read is unaffected by bits
    appended behind the ones it was given. *)
Definition stable {A} (f : bits -> Res (A * bits)) : Prop :=
  forall s a s' ext, f s = Ok (a, s') -> f (s ++ ext) = Ok (a, s' ++ ext).

Lemma read_bits_stable n : stable (read_bits n).
Proof.
  induction n as [|n IH]; intros s a s' ext H; cbn [read_bits] in *.
  - injection H as <- <-. reflexivity.
  - destruct s as [|b tl]; [discriminate|]. cbn [app].
    destruct (read_bits n tl) as [[v s1]|e|] eqn:E; cbn [bind] in H; try discriminate.
    rewrite (IH _ _ _ ext E). cbn [bind]. injection H as <- <-. reflexivity.
Qed.

Lemma read_bitsZ_stable n : stable (read_bitsZ n).
Proof. unfold read_bitsZ. apply read_bits_stable. Qed.

Lemma read_symbol_stable t : stable (read_symbol t).
Proof.
  induction t as [v|l IHl r IHr|]; intros s a s' ext H; cbn [read_symbol] in *.
  - injection H as <- <-. reflexivity.
  - destruct s as [|b tl]; [discriminate|]. cbn [app]. destruct b; [apply IHr|apply IHl]; exact H.
  - discriminate.
Qed.

(** Generic steps: split a successful bind, transport the first reader to the
    extended bit list, continue. *)
Ltac st_lift E ext :=
  first [ apply (read_bitsZ_stable _ _ _ _ ext) in E
        | apply (read_bits_stable _ _ _ _ ext) in E
        | apply (read_symbol_stable _ _ _ _ ext) in E ].

Ltac st_bind H ext :=
  match type of H with
  | bind ?r _ = Ok _ =>
    let E := fresh "E" in
    first [ destruct r as [[? ?]|?|] eqn:E; cbn [bind] in H; [|discriminate|discriminate];
            st_lift E ext; rewrite E; cbn [bind]
          | destruct r as [?|?|] eqn:E; cbn [bind] in H; [|discriminate|discriminate] ]
  end.

Ltac st_bindn H ext x s1 :=
  match type of H with
  | bind ?r _ = Ok _ =>
    let E := fresh "E" in
    destruct r as [[x s1]|?|] eqn:E; cbn [bind] in H; [|discriminate|discriminate];
    st_lift E ext; rewrite E; cbn [bind]
  end.

Ltac st_if H :=
  cbv zeta in H; cbv zeta;
  match type of H with
  | (if ?c then _ else _) = Ok _ => destruct c; try discriminate
  end.

Ltac st_done H := injection H as <- <-; reflexivity.

Lemma read_simple_lens_stable alphabet : stable (read_simple_lens alphabet).
Proof.
  intros s a s' ext H. unfold read_simple_lens in *.
  st_bind H ext. st_bind H ext. st_bind H ext. st_if H. st_if H.
  - st_bind H ext. st_if H. st_done H.
  - st_done H.
Qed.

Lemma read_cl_lens_stable : forall n order acc, stable (read_cl_lens order n acc).
Proof.
  induction n as [|n IH]; intros order acc s a s' ext H; destruct order as [|o otl]; cbn [read_cl_lens] in *.
  - st_done H.
  - st_done H.
  - discriminate.
  - st_bind H ext. apply IH. exact H.
Qed.

Lemma read_lens_loop_stable : forall fuel clt ntok nsym prev acc,
  stable (read_lens_loop fuel clt ntok nsym prev acc).
Proof.
  induction fuel as [|fuel IH]; intros clt ntok nsym prev acc s a s' ext H; cbn [read_lens_loop] in *;
    [discriminate|].
  destruct ((nsym <=? 0) || (ntok <=? 0)); [st_done H|].
  st_bindn H ext c s1. destruct (c <? 16); [apply IH; exact H|].
  destruct (if c =? 16 then (2%nat, 3) else if c =? 17 then (3%nat, 3) else (7%nat, 11)) as [eb off].
  st_bind H ext. st_if H. apply IH. exact H.
Qed.

Ltac st_lift E ext ::=
  first [ apply (read_bitsZ_stable _ _ _ _ ext) in E
        | apply (read_bits_stable _ _ _ _ ext) in E
        | apply (read_symbol_stable _ _ _ _ ext) in E
        | apply (read_simple_lens_stable _ _ _ _ ext) in E
        | apply (read_cl_lens_stable _ _ _ _ _ _ ext) in E
        | apply (read_lens_loop_stable _ _ _ _ _ _ _ _ _ ext) in E ].

Lemma read_normal_lens_stable alphabet : stable (read_normal_lens alphabet).
Proof.
  intros s a s' ext H. unfold read_normal_lens in *.
  st_bindn H ext n s1. st_bindn H ext cl s2. st_bind H ext. st_bindn H ext usemax s3.
  destruct (usemax =? 1).
  - destruct (read_bits 3 s3) as [[k s5]|e|] eqn:E5; cbn [bind] in H; try discriminate.
    apply (read_bits_stable _ _ _ _ ext) in E5. rewrite E5. cbn [bind].
    destruct (read_bitsZ (2 + 2 * k) s5) as [[m s6]|e|] eqn:E6; cbn [bind] in H; try discriminate.
    apply (read_bitsZ_stable _ _ _ _ ext) in E6. rewrite E6. cbn [bind].
    destruct (alphabet <? 2 + m); cbn [bind] in *; try discriminate.
    apply read_lens_loop_stable. exact H.
  - cbn [bind] in *. apply read_lens_loop_stable. exact H.
Qed.

Ltac st_lift E ext ::=
  first [ apply (read_bitsZ_stable _ _ _ _ ext) in E
        | apply (read_bits_stable _ _ _ _ ext) in E
        | apply (read_symbol_stable _ _ _ _ ext) in E
        | apply (read_simple_lens_stable _ _ _ _ ext) in E
        | apply (read_normal_lens_stable _ _ _ _ ext) in E
        | apply (read_cl_lens_stable _ _ _ _ _ _ ext) in E
        | apply (read_lens_loop_stable _ _ _ _ _ _ _ _ _ ext) in E ].

Lemma read_code_stable alphabet : stable (read_code alphabet).
Proof.
  intros s a s' ext H. unfold read_code in *.
  st_bindn H ext simple s1.
  match type of H with bind ?r _ = _ => destruct r as [[lens s2]|e|] eqn:El; cbn [bind] in H; try discriminate end.
  assert (El' : (if simple =? 1 then read_simple_lens alphabet (s1 ++ ext) else read_normal_lens alphabet (s1 ++ ext))
                = Ok (lens, s2 ++ ext)).
  { destruct (simple =? 1); [apply read_simple_lens_stable|apply read_normal_lens_stable]; exact El. }
  rewrite El'. cbn [bind]. st_bind H ext. st_done H.
Qed.

Ltac st_lift E ext ::=
  first [ apply (read_bitsZ_stable _ _ _ _ ext) in E
        | apply (read_bits_stable _ _ _ _ ext) in E
        | apply (read_symbol_stable _ _ _ _ ext) in E
        | apply (read_code_stable _ _ _ _ ext) in E ].

Lemma lz_value_stable prefix : stable (lz_value prefix).
Proof.
  intros s a s' ext H. unfold lz_value in *. destruct (prefix <? 4); [st_done H|].
  cbv zeta in *. st_bindn H ext x s1. st_done H.
Qed.

Lemma read_group_stable cs : stable (read_group cs).
Proof.
  intros s a s' ext H. unfold read_group in *.
  st_bindn H ext tg s1. st_bindn H ext tr s2. st_bindn H ext tb s3. st_bindn H ext ta s4. st_bindn H ext td s5.
  st_done H.
Qed.

Lemma read_groups_stable : forall n cs acc, stable (read_groups n cs acc).
Proof.
  induction n as [|n IH]; intros cs acc s a s' ext H; cbn [read_groups] in *; [st_done H|].
  destruct (read_group cs s) as [[g s1]|e|] eqn:E; cbn [bind] in H; try discriminate.
  apply (read_group_stable _ _ _ _ ext) in E. rewrite E. cbn [bind]. apply IH. exact H.
Qed.

Ltac st_lift E ext ::=
  first [ apply (read_bitsZ_stable _ _ _ _ ext) in E
        | apply (read_bits_stable _ _ _ _ ext) in E
        | apply (read_symbol_stable _ _ _ _ ext) in E
        | apply (read_code_stable _ _ _ _ ext) in E
        | apply (lz_value_stable _ _ _ _ ext) in E
        | apply (read_groups_stable _ _ _ _ _ _ ext) in E ].

Lemma pixels_loop_stable : forall fuel c total pos x y cache acc,
  stable (pixels_loop fuel c total pos x y cache acc).
Proof.
  induction fuel as [|fuel IH]; intros c total pos x y cache acc s a s' ext H; cbn [pixels_loop] in *;
    [discriminate|].
  destruct (total <=? pos); [st_done H|]. cbv zeta in *.
  st_bindn H ext sym s1.
  destruct (sym <? 256).
  - st_bindn H ext r s2. st_bindn H ext b s3. st_bindn H ext al s4.
    destruct (next_xy (e_w c) x y) as [x' y']. apply IH. exact H.
  - destruct (sym <? 280).
    + st_bindn H ext ln s2. st_bindn H ext dsym s3. st_bindn H ext dcode s4.
      match type of H with (if ?cnd then _ else _) = _ => destruct cnd; [discriminate|] end.
      apply IH. exact H.
    + destruct (next_xy (e_w c) x y) as [x' y']. apply IH. exact H.
Qed.

Lemma read_cache_bits_stable : stable read_cache_bits.
Proof.
  intros s a s' ext H. unfold read_cache_bits in *. st_bindn H ext f s1.
  destruct (f =? 1); [|st_done H]. st_bindn H ext b s2. st_if H. st_done H.
Qed.

Lemma decode_pixels_stable c w h : stable (decode_pixels c w h).
Proof.
  intros s a s' ext H. unfold decode_pixels in *.
  destruct (pixels_loop _ c (w * h) 0 0 0 arr_empty [] s) as [[acc s1]|e|] eqn:E; cbn [bind] in H; try discriminate.
  apply (pixels_loop_stable _ _ _ _ _ _ _ _ _ _ _ ext) in E. rewrite E. cbn [bind]. st_done H.
Qed.

Lemma decode_sub_image_stable w h : stable (decode_sub_image w h).
Proof.
  intros s a s' ext H. unfold decode_sub_image in *.
  destruct (read_cache_bits s) as [[cb s1]|e|] eqn:E1; cbn [bind] in H; try discriminate.
  apply (read_cache_bits_stable _ _ _ ext) in E1. rewrite E1. cbn [bind].
  st_bindn H ext gs s2. apply decode_pixels_stable. exact H.
Qed.

Lemma read_transform_stable seen w h :
  forall s t cw s' ext, read_transform seen w h s = Ok (t, cw, s') ->
                        read_transform seen w h (s ++ ext) = Ok (t, cw, s' ++ ext).
Proof.
  intros s t cw s' ext H. unfold read_transform in *.
  st_bindn H ext ty s1. destruct (existsb (Z.eqb ty) seen); [discriminate|].
  destruct (ty =? 2). { injection H as <- <- <-. reflexivity. }
  destruct (ty =? 3).
  - st_bindn H ext n s2. cbv zeta in *.
    destruct (decode_sub_image (n + 1) 1 s2) as [[pal s3]|e|] eqn:Em; cbn [bind] in H; try discriminate.
    apply (decode_sub_image_stable _ _ _ _ _ ext) in Em. rewrite Em. cbn [bind].
    injection H as <- <- <-. reflexivity.
  - st_bindn H ext b s2. cbv zeta in *.
    destruct (decode_sub_image (subsample w (b + 2)) (subsample h (b + 2)) s2) as [[data s3]|e|] eqn:Em;
      cbn [bind] in H; try discriminate.
    apply (decode_sub_image_stable _ _ _ _ _ ext) in Em. rewrite Em. cbn [bind].
    match type of H with (if ?cnd then _ else _) = _ => destruct cnd; [discriminate|] end.
    injection H as <- <- <-. reflexivity.
Qed.

Lemma read_transforms_stable : forall fuel seen acc w h s ts cw s' ext,
  read_transforms fuel seen acc w h s = Ok (ts, cw, s') ->
  read_transforms fuel seen acc w h (s ++ ext) = Ok (ts, cw, s' ++ ext).
Proof.
  induction fuel as [|fuel IH]; intros seen acc w h s ts cw s' ext H; cbn [read_transforms] in *;
    [discriminate|].
  st_bindn H ext present s1. destruct (present =? 0). { injection H as <- <- <-. reflexivity. }
  destruct (read_transform seen w h s1) as [[[t w'] s2]|e|] eqn:Em; cbn [bind] in H; try discriminate.
  apply (read_transform_stable _ _ _ _ _ _ _ ext) in Em. rewrite Em. cbn [bind]. apply IH. exact H.
Qed.

Lemma bits_of_bytes_app a b : bits_of_bytes (a ++ b) = bits_of_bytes a ++ bits_of_bytes b.
Proof. unfold bits_of_bytes. apply flat_map_app. Qed.

(** ** The whole stream *)
Theorem vp8l_decode_full_monotone : forall d ext r,
  decode_full d = Ok r -> decode_full (d ++ ext) = Ok r.
Proof.
  intros d ext r H. unfold decode_full in *.
  destruct d as [|b0 rest]; [discriminate|].
  destruct (Z.eqb_spec b0 47) as [->|Hne].
  2:{ exfalso. destruct b0 as [|p|p]; try discriminate.
      repeat (destruct p as [p|p|]; try discriminate). contradiction. }
  cbn [app]. cbv zeta in *. rewrite bits_of_bytes_app.
  set (ex := bits_of_bytes ext).
  st_bindn H ex w1 s1. st_bindn H ex h1 s2. st_bindn H ex alpha s3. st_bindn H ex ver s4.
  destruct (negb (ver =? 0)); [discriminate|].
  destruct (read_transforms 5 [] [] (w1 + 1) (h1 + 1) s4) as [[[ts cw] s5]|e|] eqn:Et; cbn [bind] in H; try discriminate.
  apply (read_transforms_stable _ _ _ _ _ _ _ _ _ ex) in Et. rewrite Et. cbn [bind].
  destruct (read_cache_bits s5) as [[cb s6]|e|] eqn:Ec; cbn [bind] in H; try discriminate.
  apply (read_cache_bits_stable _ _ _ ex) in Ec. rewrite Ec. cbn [bind].
  st_bindn H ex hasmeta s7.
  destruct (hasmeta =? 1).
  - destruct (read_bits 3 s7) as [[b s8]|e|] eqn:E8; cbn [bind] in H; try discriminate.
    apply (read_bits_stable _ _ _ _ ex) in E8. rewrite E8. cbn [bind].
    destruct (decode_sub_image (subsample cw (b + 2)) (subsample (h1 + 1) (b + 2)) s8) as [[mi s9]|e|] eqn:E9;
      cbn [bind] in H; try discriminate.
    apply (decode_sub_image_stable _ _ _ _ _ ex) in E9. rewrite E9. cbn [bind].
    st_bindn H ex gs s10.
    destruct (decode_pixels _ cw (h1 + 1) s10) as [[coded s11]|e|] eqn:Ep; cbn [bind] in H; try discriminate.
    apply (decode_pixels_stable _ _ _ _ _ _ ex) in Ep. rewrite Ep. cbn [bind]. exact H.
  - cbn [bind] in *.
    st_bindn H ex gs s10.
    destruct (decode_pixels _ cw (h1 + 1) s10) as [[coded s11]|e|] eqn:Ep; cbn [bind] in H; try discriminate.
    apply (decode_pixels_stable _ _ _ _ _ _ ex) in Ep. rewrite Ep. cbn [bind]. exact H.
Qed.

(** If a VP8L byte string decodes, it decodes to the same image when bytes are
    appended.  Equivalently: a prefix of a VP8L stream that the specification
    decoder accepts yields exactly the picture of the complete stream. *)
Theorem vp8l_decode_monotone : forall d ext img,
  Vp8lSpec.decode d = Ok img -> Vp8lSpec.decode (d ++ ext) = Ok img.
Proof.
  intros d ext img H. unfold Vp8lSpec.decode in *.
  destruct (decode_full d) as [r|e|] eqn:E; cbn [bind] in H; try discriminate.
  rewrite (vp8l_decode_full_monotone _ ext _ E). exact H.
Qed.

Corollary vp8l_prefix_all_or_nothing : forall full p ext img,
  full = p ++ ext -> Vp8lSpec.decode full = Ok img ->
  (exists e, Vp8lSpec.decode p = Err e) \/ Vp8lSpec.decode p = Ok img \/ Vp8lSpec.decode p = Panic.
Proof.
  intros full p ext img -> Hf. destruct (Vp8lSpec.decode p) as [img'|e|] eqn:E; eauto.
  right; left. rewrite (vp8l_decode_monotone _ ext _ E) in Hf. exact Hf.
Qed.

(** ** ALPH, raw payload *)
From Webp Require Alpha.AlphaModel Alpha.AlphaProofs.

(** An uncompressed ALPH payload that decodes still decodes, to the same plane,
    when bytes are appended (only the first w*h bytes are read); with
    [AlphaProofs.decode_raw_truncated] (shorter than w*h => error) this is the
    all-or-nothing property for a truncated raw alpha plane. *)
Theorem alph_raw_monotone : forall (ldec : Z -> Z -> list Z -> option (list Z)) hd payload ext w h plane,
  hd mod 4 = 0 ->
  AlphaModel.decode ldec (hd :: payload) w h = Ok plane ->
  AlphaModel.decode ldec (hd :: payload ++ ext) w h = Ok plane.
Proof.
  intros ldec hd payload ext w h plane Hc H. unfold AlphaModel.decode in *.
  destruct ((w <=? 0) || (h <=? 0)); [discriminate|].
  destruct (2 ^ 30 <? w * h); [discriminate|].
  rewrite Hc in *. cbn [Z.eqb] in *.
  destruct (Z.ltb_spec (Z.of_nat (length payload)) (w * h)) as [|Hge]; [discriminate|].
  rewrite app_length.
  destruct (Z.ltb_spec (Z.of_nat (length payload + length ext)) (w * h)); [lia|].
  cbn [bind] in *. rewrite firstn_app.
  replace (Z.to_nat (w * h) - length payload)%nat with 0%nat by lia.
  cbn [firstn]. rewrite app_nil_r. exact H.
Qed.

(** ALPH, any payload kind: if the lossless coder used for compressed alpha planes
    is prefix-monotone (as [vp8l_decode_monotone] shows for the VP8L specification
    decoder), then so is the ALPH decoder: an ALPH chunk that decodes still decodes
    to the same plane when bytes are appended. *)
Theorem alph_monotone : forall (ldec : Z -> Z -> list Z -> option (list Z)),
  (forall w h p ext g, ldec w h p = Some g -> ldec w h (p ++ ext) = Some g) ->
  forall hd payload ext w h plane,
    AlphaModel.decode ldec (hd :: payload) w h = Ok plane ->
    AlphaModel.decode ldec (hd :: payload ++ ext) w h = Ok plane.
Proof.
  intros ldec Hmono hd payload ext w h plane H. unfold AlphaModel.decode in *.
  destruct ((w <=? 0) || (h <=? 0)); [discriminate|].
  destruct (2 ^ 30 <? w * h); [discriminate|].
  cbv zeta in *.
  destruct (hd mod 4 =? 0).
  - destruct (Z.ltb_spec (Z.of_nat (length payload)) (w * h)) as [|Hge]; [discriminate|].
    rewrite app_length.
    destruct (Z.ltb_spec (Z.of_nat (length payload + length ext)) (w * h)); [lia|].
    cbn [bind] in *. rewrite firstn_app.
    replace (Z.to_nat (w * h) - length payload)%nat with 0%nat by lia.
    cbn [firstn]. rewrite app_nil_r. exact H.
  - destruct (hd mod 4 =? 1); [|discriminate].
    destruct (ldec w h payload) as [g|] eqn:E; [|discriminate].
    rewrite (Hmono _ _ _ ext _ E). exact H.
Qed.
