(** What "returns exactly what was put in" means for C14: the [view] of a muxer
    state (what the caller supplied, after the documented clamping and with
    offsets rounded down to even) and the [view] of a demuxer result, plus the
    hypotheses under which the property quantifies ([op_ok]: byte ranges, Go int
    ranges, frames are VP8 / VP8L bitstreams with an optional ALPH chunk prefix).

    The decomposition of frame data into (alpha payload, bitstream) used here
    ([frame_parts]) is written from the documented input convention, not from
    splitAlphaAndBitstream. *)
From Coq Require Import List ZArith Lia Bool.
From Webp Require Import Base.Res Base.Bytes Riff.RiffGrammar Riff.DemuxModel Riff.MuxModel.
Import ListNotations.
Open Scope Z_scope.

Record vframe := mkvf {
  v_bits : list Z; v_alpha : option (list Z);
  v_ox : Z; v_oy : Z; v_dur : Z; v_blend_none : bool; v_dispose_bg : bool }.

Record view := mkview {
  vw_frames : list vframe;
  vw_cw : Z; vw_ch : Z;
  vw_anim : bool; vw_loop : Z; vw_bg : Z;
  vw_icc : option (list Z); vw_exif : option (list Z); vw_xmp : option (list Z) }.

(** frame data = bitstream, or "ALPH" size alpha [pad] bitstream *)
Definition frame_parts (data : list Z) : option (option (list Z) * list Z) :=
  if bytes_eqb (firstn 4 data) T_ALPH then
    match skipn 4 data with
    | s0 :: s1 :: s2 :: s3 :: body =>
      let n := rd32 [s0; s1; s2; s3] in
      if n + n mod 2 <=? glen body
      then Some (Some (firstn (Z.to_nat n) body), skipn (Z.to_nat (n + n mod 2)) body)
      else None
    | _ => None
    end
  else Some (None, data).

Definition is_some' {A} (o : option A) : bool := match o with Some _ => true | None => false end.

Definition valid_frame (data : list Z) : bool :=
  match frame_parts data with
  | Some (None, b) => is_some' (vp8_header b) || is_some' (vp8l_header b)
  | Some (Some _, b) => is_some' (vp8_header b)
  | None => false
  end.

Definition even_down (z : Z) : Z := 2 * (z / 2).

(** For a still picture the options that only exist inside an ANMF header (blend,
    dispose; duration is 0 by definition of "still") are not part of the view, as
    are loop count and background colour (ANIM chunk). *)
Definition vframe_of (anim : bool) (f : mframe) : vframe :=
  let '(a, b) := match frame_parts (f_data f) with Some p => p | None => (None, f_data f) end in
  let fo := f_opts f in
  mkvf b a (even_down (o_ox fo)) (even_down (o_oy fo)) (o_dur fo)
       (anim && (o_blend fo =? 1)) (anim && (o_dispose fo =? 1)).

(** what was put into the muxer *)
Definition view_of_mux (m : mstate) : view :=
  let anim := is_animated m in
  let '(cw, ch) := canvas_size m in
  mkview (map (vframe_of anim) (m_frames m)) cw ch anim
         (if anim then m_loop m else 0) (if anim then m_bg m else 0)
         (m_icc m) (m_exif m) (m_xmp m).

Definition vframe_of_fi (fi : frame_info) : option vframe :=
  match fi_data fi with
  | Some b => Some (mkvf b (fi_alpha fi) (fi_ox fi) (fi_oy fi) (fi_dur fi)
                         (fi_blend fi =? 1) (fi_dispose fi =? 1))
  | None => None
  end.

Fixpoint all_some {A} (l : list (option A)) : option (list A) :=
  match l with
  | [] => Some []
  | Some a :: tl => match all_some tl with Some r => Some (a :: r) | None => None end
  | None :: _ => None
  end.

(** what the demuxer's accessors return *)
Definition view_of_demux (d : dstate) : option view :=
  match all_some (map vframe_of_fi (d_frames d)) with
  | Some fs => Some (mkview fs (ft_w (d_feat d)) (ft_h (d_feat d)) (ft_anim (d_feat d))
                            (d_loop d) (d_bg d) (d_icc d) (d_exif d) (d_xmp d))
  | None => None
  end.

Definition int64b (z : Z) : bool := (- 2^63 <=? z) && (z <? 2^63).
Definition bytes_okb (d : list Z) : bool := forallb (fun b => (0 <=? b) && (b <? 256)) d.
Definition blob_okb (d : list Z) : bool := bytes_okb d && (len d <? 2^30).
(* metadata blobs: at most maxMetadataSize (what AddChunk accepts and the demuxer reads back) *)
Definition oblob_okb (o : option (list Z)) : bool :=
  match o with Some d => bytes_okb d && (len d <=? 104857600) | None => true end.
Definition fopts_okb (fo : fopts) : bool :=
  int64b (o_dur fo) && int64b (o_ox fo) && int64b (o_oy fo) && int64b (o_blend fo) && int64b (o_dispose fo).

(** the hypotheses of C14 on one muxer call, as a boolean (so that the
    correspondence runner evaluates them too) *)
Definition op_okb (o : op) : bool :=
  match o with
  | AddFrame data opts =>
    blob_okb data && valid_frame data &&
    match opts with Some fo => fopts_okb fo | None => true end
  | SetFrameDisposeMode i mode => int64b i && int64b mode
  | SetFrameDuration i dur => int64b i && int64b dur
  | SetICC d | SetEXIF d | SetXMP d => oblob_okb d
  | AddChunk id d => (0 <=? id) && (id <? 2^32) && oblob_okb d
  | SetLoopCount n => int64b n
  | SetBackgroundColor c => (0 <=? c) && (c <? 2^32)
  | SetCanvasSize w h => int64b w && int64b h
  | AssembleCall => true
  end.
Definition op_ok (o : op) : Prop := op_okb o = true.

(** C14, full statement, for a given variant of the muxer and of the demuxer *)
Definition roundtrip_statement (fx : fixes) (dfx : bool) : Prop :=
  forall ops, Forall op_ok ops ->
    let m := run ops in
    match assemble fx m with
    | Err _ => True
    | Panic => False
    | Ok bs =>
      wf bs = true /\
      match parse dfx bs with
      | Ok d => view_of_demux d = Some (view_of_mux m)
      | _ => False
      end
    end.
