(** C14: where the full round-trip statement is false.
    - of the PINNED muxer (before commits bc01570 / 2c1f6ba): five witnesses, one per
      defect class, each a history satisfying the hypotheses ([op_ok]);
    - of the CURRENT muxer: one witness (explicit canvas different from the picture
      on a still image), the remaining known finding "still-canvas". *)
From Coq Require Import List ZArith Lia Bool.
From Webp Require Import Base.Res Base.Bytes Riff.RiffGrammar Riff.DemuxModel Riff.MuxModel Riff.MuxView.
Import ListNotations.
Open Scope Z_scope.

Definition w_vp8 : list Z := [0; 0; 0; 157; 1; 42; 4; 0; 4; 0; 7].        (* 4x4 VP8 key-frame header + 1 byte *)
Definition w_alph : list Z := T_ALPH ++ [3; 0; 0; 0; 1; 2; 3; 0] ++ w_vp8.  (* "ALPH" 3 bytes + pad, then the VP8 data *)
Definition opts (dur ox oy : Z) : option fopts := Some (mkfo dur ox oy 0 0).

(** the conclusion of the round-trip statement for one history, as a boolean *)
Definition roundtrip_holds (fx : fixes) (dfx : bool) (ops : list op) : bool :=
  let m := run ops in
  match assemble fx m with
  | Err _ => true
  | Panic => false
  | Ok bs =>
    wf bs &&
    match parse dfx bs with
    | Ok d =>
      match view_of_demux d with
      | Some v => (* decidable comparison of the observable parts *)
        let v' := view_of_mux m in
        (vw_cw v =? vw_cw v') && (vw_ch v =? vw_ch v') && Bool.eqb (vw_anim v) (vw_anim v') &&
        (vw_loop v =? vw_loop v') && (vw_bg v =? vw_bg v') &&
        (length (vw_frames v) =? length (vw_frames v'))%nat &&
        forallb (fun p => (v_ox (fst p) =? v_ox (snd p)) && (v_oy (fst p) =? v_oy (snd p)) &&
                          (v_dur (fst p) =? v_dur (snd p)) && bytes_eqb (v_bits (fst p)) (v_bits (snd p)))
                (combine (vw_frames v) (vw_frames v'))
      | None => false
      end
    | _ => false
    end
  end.

Lemma roundtrip_holds_complete fx dfx ops :
  Forall op_ok ops -> roundtrip_statement fx dfx -> roundtrip_holds fx dfx ops = true.
Proof.
  intros Hok H. specialize (H ops Hok). cbv zeta in H. unfold roundtrip_holds.
  destruct (assemble fx (run ops)) as [bs|e|]; [|reflexivity|contradiction].
  destruct H as [Hwf Hp]. rewrite Hwf. cbn [andb].
  destruct (parse dfx bs) as [d|e|]; try contradiction.
  rewrite Hp.
  rewrite !Z.eqb_refl, Bool.eqb_reflx, Nat.eqb_refl. cbn [andb].
  apply forallb_forall. intros [a b] Hin.
  assert (a = b).
  { clear -Hin. induction (vw_frames (view_of_mux (run ops))) as [|x l IH]; cbn in Hin; [contradiction|].
    destruct Hin as [E|Hin]; [congruence|auto]. }
  subst b. cbn [fst snd]. rewrite !Z.eqb_refl. cbn [andb].
  clear. induction (v_bits a) as [|x l IH]; cbn; [reflexivity|]. rewrite Z.eqb_refl, IH. reflexivity.
Qed.

Ltac refute ops :=
  intros H; assert (Hok : Forall op_ok ops) by (repeat (apply Forall_cons; [vm_compute; reflexivity|]); apply Forall_nil);
  pose proof (roundtrip_holds_complete _ _ ops Hok H) as E; vm_compute in E; discriminate.

(** (a) a single still frame whose data carries an ALPH prefix, no metadata:
    written as one "VP8 " chunk holding "ALPH..." — not a well-formed file *)
Theorem pinned_still_alpha_refuted : forall dfx, ~ roundtrip_statement pinned dfx.
Proof. intros dfx. destruct dfx; refute [AddFrame w_alph None]. Qed.

(** ... and the same inside VP8X when metadata is set *)
Theorem pinned_still_alpha_meta_refuted : forall dfx, ~ roundtrip_statement (mkfx false true) dfx.
Proof. intros dfx. destruct dfx; refute [AddFrame w_alph None; SetEXIF (Some [1; 2; 3])]. Qed.

(** (b) negative offset accepted, putLE24(OffsetX/2) wraps: -2 reads back as 33554430 *)
Theorem pinned_negative_offset_refuted : forall dfx, ~ roundtrip_statement (mkfx true false) dfx.
Proof. intros dfx. destruct dfx; refute [AddFrame w_vp8 (opts 10 (-2) 0)]. Qed.

(** offsets >= 2^25: halved offset and derived canvas truncated to 24 bits *)
Theorem pinned_big_offset_refuted : forall dfx, ~ roundtrip_statement (mkfx true false) dfx.
Proof. intros dfx. destruct dfx; refute [AddFrame w_vp8 (opts 10 33554432 0)]. Qed.

(** canvas derived from offsets wider than 2^24: width-1 does not fit 24 bits *)
Theorem pinned_canvas_limit_refuted : forall dfx, ~ roundtrip_statement (mkfx true false) dfx.
Proof. intros dfx. destruct dfx; refute [AddFrame w_vp8 (opts 10 16777216 0)]. Qed.

(** a still frame with a non-zero offset: offset dropped, canvas inflated *)
Theorem pinned_still_offset_refuted : forall dfx, ~ roundtrip_statement (mkfx true false) dfx.
Proof. intros dfx. destruct dfx; refute [AddFrame w_vp8 (opts 0 2 0); SetEXIF (Some [1])]. Qed.

(** current code: explicit canvas different from the picture on a still image
    (kept by the repository's own test TestCanvasSizeExplicitTakesPriority) *)
Theorem current_still_canvas_refuted : forall dfx, ~ roundtrip_statement repaired dfx.
Proof. intros dfx. destruct dfx; refute [AddFrame w_vp8 None; SetCanvasSize 6 8]. Qed.

(** the same histories are handled by the current code: rejected with an error,
    or (still + alpha) round-tripped *)
Example current_handles_the_pinned_witnesses :
  assemble repaired (run [AddFrame w_vp8 (opts 10 (-2) 0)]) = Err E_validate /\
  assemble repaired (run [AddFrame w_vp8 (opts 10 33554432 0)]) = Err E_validate /\
  assemble repaired (run [AddFrame w_vp8 (opts 10 16777216 0)]) = Err E_validate /\
  assemble repaired (run [AddFrame w_vp8 (opts 0 2 0); SetEXIF (Some [1])]) = Err E_validate /\
  roundtrip_holds repaired true [AddFrame w_alph None] = true /\
  roundtrip_holds repaired true [AddFrame w_alph None; SetEXIF (Some [1; 2; 3])] = true /\
  roundtrip_holds repaired true
    [AddFrame w_alph (opts 10 2 4); AddFrame w_vp8 (opts 20 0 0); SetLoopCount 3; SetXMP (Some [])] = true.
Proof. vm_compute. repeat split; reflexivity. Qed.
