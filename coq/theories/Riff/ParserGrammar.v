(** Joining the two independent RIFF specifications: [Riff.RiffGrammar.wf]
    (C14 / C02 builder, tags as byte lists, written from the container
    specification) and [Riff.ParserSpec.riff_wf] (tags as uint32).

    - the two chunk walkers compute the same chunk list on every byte string;
    - [riff_wf file = true -> bytes_ok file -> RiffGrammar.wf file = true];
    - conversely a [RiffGrammar.wf] still (animation flag clear) satisfies [riff_wf]. *)
From Coq Require Import List ZArith Lia Bool.
From Coq Require Import ZifyBool ZifyNat.
From Webp Require Import Base.Res Base.Bytes Riff.ParserModel Riff.ParserLemmas Riff.ParserSpec
     Riff.WriterModel Riff.WriterProofs Riff.MetadataProofs Riff.ParserProofs Riff.WriterTheorems
     Riff.ParserSpecProofs.
From Webp Require Riff.RiffGrammar.
Import ListNotations.
Open Scope Z_scope.

Module G := RiffGrammar.

Definition conv (c : Z * list Z) : G.gchunk := (le32 (fst c), snd c).

(** ** Tags *)
Lemma tag_consts :
  le32 FourCCRIFF = G.T_RIFF /\ le32 FourCCWEBP = G.T_WEBP /\ le32 FourCCVP8 = G.T_VP8 /\
  le32 FourCCVP8L = G.T_VP8L /\ le32 FourCCVP8X = G.T_VP8X /\ le32 FourCCALPH = G.T_ALPH /\
  le32 FourCCANIM = G.T_ANIM /\ le32 FourCCANMF = G.T_ANMF /\ le32 FourCCICCP = G.T_ICCP /\
  le32 FourCCEXIF = G.T_EXIF /\ le32 FourCCXMP = G.T_XMP.
Proof. repeat split; reflexivity. Qed.

Lemma bytes_eqb_eq a b : G.bytes_eqb a b = true <-> a = b.
Proof.
  revert b. induction a as [|x a IH]; intros [|y b]; cbn; split; intros H; try discriminate; auto.
  - apply andb_true_iff in H. destruct H as [H1 H2]. apply Z.eqb_eq in H1. apply IH in H2. congruence.
  - injection H as -> ->. rewrite Z.eqb_refl. cbn. apply IH. reflexivity.
Qed.

Lemma bytes_eqb_refl a : G.bytes_eqb a a = true.
Proof. apply bytes_eqb_eq. reflexivity. Qed.

(** [le32] is injective on uint32 values, so comparing tags = comparing FourCCs. *)
Lemma le32_inj a b : 0 <= a < 4294967296 -> 0 <= b < 4294967296 -> le32 a = le32 b -> a = b.
Proof.
  intros Ha Hb H. rewrite <- (rd32_le32_id a Ha), <- (rd32_le32_id b Hb). rewrite H. reflexivity.
Qed.

Lemma tag_eqb id c : 0 <= id < 4294967296 -> 0 <= c < 4294967296 ->
  G.bytes_eqb (le32 id) (le32 c) = (id =? c).
Proof.
  intros Hi Hc. destruct (Z.eqb_spec id c) as [->|Hne].
  - apply bytes_eqb_refl.
  - destruct (G.bytes_eqb (le32 id) (le32 c)) eqn:E; [|reflexivity].
    apply bytes_eqb_eq in E. apply le32_inj in E; [contradiction|assumption|assumption].
Qed.

(** ** The two walkers agree *)
Lemma glen_len {A} (l : list A) : G.glen l = len l.
Proof. reflexivity. Qed.

Lemma chunks_eq_walk : forall fuel buf,
  bytes_ok buf -> G.chunks fuel buf = option_map (map conv) (walk fuel buf).
Proof.
  induction fuel as [|fuel IH]; intros buf Hb.
  - destruct buf; reflexivity.
  - destruct buf as [|a0 [|a1 [|a2 [|a3 [|s0 [|s1 [|s2 [|s3 body]]]]]]]]; try reflexivity.
    cbn [G.chunks walk]. rewrite glen_len.
    remember (rd32 [s0; s1; s2; s3]) as sz eqn:Hsz.
    assert (Hbb : bytes_ok body /\ 0 <= sz < 4294967296 /\ le32 (rd32 [a0; a1; a2; a3]) = [a0; a1; a2; a3]).
    { subst sz. inv_bytes. split; [assumption|]. split; [apply rd32_bound; assumption|].
      apply le32_rd32; assumption. }
    destruct Hbb as (Hbody & Hszr & Htag).
    destruct (Z.ltb_spec (len body) sz) as [Hlt|Hge].
    { destruct (Z.leb_spec (sz + sz mod 2) (len body)); [lia|reflexivity]. }
    destruct (Z.eqb_spec (sz mod 2) 0) as [He|Ho].
    + rewrite He, Z.add_0_r. destruct (Z.leb_spec sz (len body)); [|lia].
      rewrite (IH _ (bytes_ok_skipn _ _ Hbody)).
      destruct (walk fuel (skipn (Z.to_nat sz) body)); cbn [option_map map conv fst snd]; [|reflexivity].
      f_equal. f_equal. unfold conv. cbn [fst snd]. rewrite Htag. reflexivity.
    + replace (sz mod 2) with 1 by lia.
      destruct (skipn (Z.to_nat sz) body) as [|pad after'] eqn:Es.
      * assert (len body = sz).
        { apply (f_equal (@length Z)) in Es. rewrite skipn_length in Es. cbn in Es. unfold len in *. lia. }
        destruct (Z.leb_spec (sz + 1) (len body)); [lia|reflexivity].
      * assert (sz + 1 <= len body).
        { apply (f_equal (@length Z)) in Es. rewrite skipn_length in Es. cbn [length] in Es. unfold len in *. lia. }
        destruct (Z.leb_spec (sz + 1) (len body)); [|lia].
        destruct (pad =? 0); [|reflexivity].
        replace (Z.to_nat (sz + 1)) with (S (Z.to_nat sz)) by lia.
        rewrite (skipn_S_of _ _ _ _ Es).
        assert (Hb' : bytes_ok after').
        { pose proof (bytes_ok_skipn (Z.to_nat sz) _ Hbody) as Hk. rewrite Es in Hk.
          unfold bytes_ok in *. inversion Hk; assumption. }
        rewrite (IH _ Hb').
        destruct (walk fuel after'); cbn [option_map map conv fst snd]; [|reflexivity].
        f_equal. f_equal. unfold conv. cbn [fst snd]. rewrite Htag. reflexivity.
Qed.

(** Fuel: the walker needs one unit per chunk, and every chunk has >= 8 bytes. *)
Lemma walk_count : forall fuel buf cs, walk fuel buf = Some cs -> (8 * length cs <= length buf)%nat.
Proof.
  induction fuel as [|fuel IH]; intros buf cs H.
  - destruct buf; cbn in H; [injection H as <-; cbn; lia|discriminate].
  - destruct buf as [|a0 [|a1 [|a2 [|a3 [|s0 [|s1 [|s2 [|s3 body]]]]]]]]; try (cbn in H; discriminate).
    { cbn in H. injection H as <-. cbn. lia. }
    cbn [walk] in H.
    remember (rd32 [s0; s1; s2; s3]) as sz.
    destruct (Z.leb_spec (sz + sz mod 2) (len body)); [|discriminate].
    match type of H with (if ?c then _ else _) = _ => destruct c; [|discriminate] end.
    destruct (walk fuel (skipn (Z.to_nat (sz + sz mod 2)) body)) as [cs'|] eqn:E; [|discriminate].
    injection H as <-. apply IH in E. rewrite skipn_length in E. cbn [length]. lia.
Qed.

Lemma walk_any_fuel : forall fuel fuel' buf cs,
  walk fuel buf = Some cs -> (length cs <= fuel')%nat -> walk fuel' buf = Some cs.
Proof.
  induction fuel as [|fuel IH]; intros fuel' buf cs H Hl.
  - destruct buf; cbn in H; [|discriminate]. injection H as <-. destruct fuel'; reflexivity.
  - destruct buf as [|a0 buf].
    { cbn in H. injection H as <-. destruct fuel'; reflexivity. }
    destruct buf as [|a1 [|a2 [|a3 [|s0 [|s1 [|s2 [|s3 body]]]]]]]; try (cbn in H; discriminate).
    cbn [walk] in H.
    remember (rd32 [s0; s1; s2; s3]) as sz.
    destruct (Z.leb_spec (sz + sz mod 2) (len body)) as [Hfit|]; [|discriminate].
    match type of H with (if ?c then _ else _) = _ => destruct c eqn:Ep; [|discriminate] end.
    destruct (walk fuel (skipn (Z.to_nat (sz + sz mod 2)) body)) as [cs'|] eqn:E; [|discriminate].
    injection H as <-. cbn [length] in Hl. destruct fuel' as [|fuel']; [lia|].
    cbn [walk]. rewrite <- Heqsz.
    destruct (Z.leb_spec (sz + sz mod 2) (len body)); [|lia]. rewrite Ep.
    rewrite (IH fuel' _ _ E ltac:(lia)). reflexivity.
Qed.

Lemma chunks_of_walk n body cs :
  bytes_ok body -> walk (S n) body = Some cs -> n = length body ->
  G.chunks n body = Some (map conv cs).
Proof.
  intros Hb Hw ->. rewrite chunks_eq_walk by exact Hb.
  pose proof (walk_count _ _ _ Hw) as Hc.
  rewrite (walk_any_fuel _ (length body) _ _ Hw ltac:(lia)). reflexivity.
Qed.

Lemma walk_of_chunks n body gcs :
  bytes_ok body -> G.chunks n body = Some gcs ->
  exists cs, gcs = map conv cs /\ walk (S n) body = Some cs.
Proof.
  intros Hb H. rewrite chunks_eq_walk in H by exact Hb.
  destruct (walk n body) as [cs|] eqn:E; [|discriminate]. injection H as <-.
  exists cs. split; [reflexivity|]. apply (walk_fuel_mono n); [exact E|lia].
Qed.

(** ** Bitstream headers: the two specifications read the same fields *)
Lemma vp8_header_bridge bs w h :
  bytes_ok bs -> (parse_vp8_header bs = Ok (w, h) <-> G.vp8_header bs = Some (w, h)).
Proof.
  intros Hb. unfold parse_vp8_header, G.vp8_header, VP8FrameHeaderSize.
  destruct bs as [|b0 [|b1 [|b2 [|b3 [|b4 [|b5 [|b6 [|b7 [|b8 [|b9 tl]]]]]]]]]];
    try (split; [|discriminate]; destruct (Z.ltb_spec _ 10) as [|Hl]; [discriminate|];
         exfalso; unfold len in Hl; cbn [length] in Hl; lia).
  destruct (Z.ltb_spec (len (b0 :: b1 :: b2 :: b3 :: b4 :: b5 :: b6 :: b7 :: b8 :: b9 :: tl)) 10) as [Hl|_];
    [unfold len in Hl; cbn [length] in Hl; lia|].
  unfold slice. cbn [length].
  destruct (Z.leb_spec 10 (Z.of_nat (S (S (S (S (S (S (S (S (S (S (length tl)))))))))))); [|lia].
  change ((0 <=? 0) && (0 <=? 10) && true) with true. cbv iota.
  change (Z.to_nat (10 - 0)) with 10%nat. change (Z.to_nat 0) with 0%nat. cbn [skipn firstn bind].
  assert (Hby : is_byte b0 /\ is_byte b1 /\ is_byte b2 /\ is_byte b3 /\ is_byte b4 /\ is_byte b5).
  { inv_bytes. auto 10. }
  destruct Hby as (B0 & B1 & B2 & B3 & B4 & B5). unfold is_byte in *.
  remember ((rd16 [b6; b7]) mod 16384) as w' eqn:Hw'. remember ((rd16 [b8; b9]) mod 16384) as h' eqn:Hh'.
  assert (Hw2 : (b6 + 256 * b7) mod 16384 = w') by (subst w'; reflexivity).
  assert (Hh2 : (b8 + 256 * b9) mod 16384 = h') by (subst h'; reflexivity).
  rewrite Hw2, Hh2.
  assert (Hwr : 0 <= w' < 16384) by (subst w'; apply Z.mod_pos_bound; lia).
  assert (Hhr : 0 <= h' < 16384) by (subst h'; apply Z.mod_pos_bound; lia).
  destruct (Z.eqb_spec ((b0 + 256 * b1 + 65536 * b2) mod 2) 0) as [Ek|Ek];
  destruct (Z.eqb_spec (b0 mod 2) 0) as [Ek'|Ek']; try lia; cbn [negb andb];
    [|split; discriminate].
  destruct (Z.eqb_spec (65536 * b3 + 256 * b4 + b5) 10289450) as [Es|Es]; cbn [negb].
  - assert (b3 = 157 /\ b4 = 1 /\ b5 = 42) as (-> & -> & ->) by lia. cbn [Z.eqb Pos.eqb andb].
    destruct (Z.eqb_spec w' 0), (Z.eqb_spec h' 0), (Z.leb_spec 1 w'), (Z.leb_spec 1 h'); try lia;
      cbn [orb andb]; split; intros H; try discriminate; congruence.
  - split; [discriminate|].
    destruct (Z.eqb_spec b3 157), (Z.eqb_spec b4 1), (Z.eqb_spec b5 42); cbn [andb]; try discriminate. lia.
Qed.

Lemma vp8l_header_bridge bs w h a :
  bytes_ok bs -> (parse_vp8l_header bs = Ok (w, h, a) <-> G.vp8l_header bs = Some (w, h, a)).
Proof.
  intros Hb. unfold parse_vp8l_header, G.vp8l_header, VP8LFrameHeaderSize, VP8LMagicByte.
  destruct bs as [|b0 [|b1 [|b2 [|b3 [|b4 tl]]]]];
    try (split; [|discriminate]; destruct (Z.ltb_spec _ 5) as [|Hl]; [discriminate|];
         exfalso; unfold len in Hl; cbn [length] in Hl; lia).
  destruct (Z.ltb_spec (len (b0 :: b1 :: b2 :: b3 :: b4 :: tl)) 5) as [Hl|_];
    [unfold len in Hl; cbn [length] in Hl; lia|].
  unfold slice. cbn [length].
  destruct (Z.leb_spec 5 (Z.of_nat (S (S (S (S (S (length tl))))))); [|lia].
  change ((0 <=? 0) && (0 <=? 5) && true) with true. cbv iota.
  change (Z.to_nat (5 - 0)) with 5%nat. change (Z.to_nat 0) with 0%nat. cbn [skipn firstn bind].
  assert (Hby : is_byte b1 /\ is_byte b2 /\ is_byte b3 /\ is_byte b4) by (inv_bytes; auto 10).
  destruct Hby as (B1 & B2 & B3 & B4).
  pose proof (rd32_bound b1 b2 b3 b4 [] B1 B2 B3 B4) as Hr.
  unfold rd32 in *. remember (b1 + 256 * b2 + 65536 * b3 + 16777216 * b4) as bits.
  destruct (b0 =? 47); cbn [negb andb]; [|split; discriminate].
  destruct (Z.eqb_spec ((bits / 536870912) mod 8) 0) as [Ev|Ev];
  destruct (Z.eqb_spec (bits / 536870912) 0) as [Ev'|Ev']; try lia; cbn [negb];
    [|split; discriminate].
  assert (Hwn : (bits mod 16384 + 1 =? 0) = false) by lia.
  assert (Hhn : ((bits / 16384) mod 16384 + 1 =? 0) = false) by lia.
  rewrite Hwn, Hhn. cbn [orb]. split; intros H; congruence.
Qed.

Lemma image_dims_bridge id bs w h a :
  bytes_ok bs -> image_dims id bs = Some (w, h, a) ->
  (id = FourCCVP8L /\ G.vp8l_header bs = Some (w, h, a)) \/
  (id = FourCCVP8 /\ a = false /\ G.vp8_header bs = Some (w, h)).
Proof.
  intros Hb. unfold image_dims.
  destruct (Z.eqb_spec id FourCCVP8L) as [->|].
  - destruct (parse_vp8l_header bs) as [[[w' h'] a']|e|] eqn:E; try discriminate. intros [= -> -> ->].
    left. split; [reflexivity|]. apply vp8l_header_bridge; assumption.
  - destruct (Z.eqb_spec id FourCCVP8) as [->|]; [|discriminate].
    destruct (parse_vp8_header bs) as [[w' h']|e|] eqn:E; try discriminate. intros [= -> -> <-].
    right. split; [reflexivity|]. split; [reflexivity|]. apply vp8_header_bridge; assumption.
Qed.
