(** Joining the two independent RIFF specifications: [Riff.RiffGrammar.wf]
    (C14 / C02 builder, tags as byte lists, written from the container
    specification) and [Riff.ParserSpec.riff_wf] (tags as uint32).

    - the two chunk walkers compute the same chunk list on every byte string;
    - [riff_wf file = true -> bytes_ok file -> RiffGrammar.wf file = true];
    - conversely a [RiffGrammar.wf] still (animation flag clear) satisfies [riff_wf]. *)
From Coq Require Import List ZArith Lia Bool.
From Coq Require Import ZifyBool ZifyNat.
From Webp Require Import Base.Res Base.Bytes Riff.ParserModel Riff.ParserLemmas Riff.ParserSpec
     Riff.WriterModel Riff.WriterProofs Riff.MetadataProofs Riff.ParserProofs Riff.WriterTheorems
     Riff.ParserSpecProofs.
From Webp Require Riff.RiffGrammar.
Import ListNotations.
Open Scope Z_scope.

Module G := RiffGrammar.

Definition conv (c : Z * list Z) : G.gchunk := (le32 (fst c), snd c).

(** ** Tags *)
Lemma tag_consts :
  le32 FourCCRIFF = G.T_RIFF /\ le32 FourCCWEBP = G.T_WEBP /\ le32 FourCCVP8 = G.T_VP8 /\
  le32 FourCCVP8L = G.T_VP8L /\ le32 FourCCVP8X = G.T_VP8X /\ le32 FourCCALPH = G.T_ALPH /\
  le32 FourCCANIM = G.T_ANIM /\ le32 FourCCANMF = G.T_ANMF /\ le32 FourCCICCP = G.T_ICCP /\
  le32 FourCCEXIF = G.T_EXIF /\ le32 FourCCXMP = G.T_XMP.
Proof. repeat split; reflexivity. Qed.

Lemma bytes_eqb_eq a b : G.bytes_eqb a b = true <-> a = b.
Proof.
  revert b. induction a as [|x a IH]; intros [|y b]; cbn; split; intros H; try discriminate; auto.
  - apply andb_true_iff in H. destruct H as [H1 H2]. apply Z.eqb_eq in H1. apply IH in H2. congruence.
  - injection H as -> ->. rewrite Z.eqb_refl. cbn. apply IH. reflexivity.
Qed.

Lemma bytes_eqb_refl a : G.bytes_eqb a a = true.
Proof. apply bytes_eqb_eq. reflexivity. Qed.

(** [le32] is injective on uint32 values, so comparing tags = comparing FourCCs. *)
Lemma le32_inj a b : 0 <= a < 4294967296 -> 0 <= b < 4294967296 -> le32 a = le32 b -> a = b.
Proof.
  intros Ha Hb H. rewrite <- (rd32_le32_id a Ha), <- (rd32_le32_id b Hb). rewrite H. reflexivity.
Qed.

Lemma tag_eqb id c : 0 <= id < 4294967296 -> 0 <= c < 4294967296 ->
  G.bytes_eqb (le32 id) (le32 c) = (id =? c).
Proof.
  intros Hi Hc. destruct (Z.eqb_spec id c) as [->|Hne].
  - apply bytes_eqb_refl.
  - destruct (G.bytes_eqb (le32 id) (le32 c)) eqn:E; [|reflexivity].
    apply bytes_eqb_eq in E. apply le32_inj in E; [contradiction|assumption|assumption].
Qed.

(** ** The two walkers agree *)
Lemma glen_len {A} (l : list A) : G.glen l = len l.
Proof. reflexivity. Qed.

Lemma chunks_eq_walk : forall fuel buf,
  bytes_ok buf -> G.chunks fuel buf = option_map (map conv) (walk fuel buf).
Proof.
  induction fuel as [|fuel IH]; intros buf Hb.
  - destruct buf; reflexivity.
  - destruct buf as [|a0 [|a1 [|a2 [|a3 [|s0 [|s1 [|s2 [|s3 body]]]]]]]]; try reflexivity.
    cbn [G.chunks walk]. rewrite glen_len.
    remember (rd32 [s0; s1; s2; s3]) as sz eqn:Hsz.
    assert (Hbb : bytes_ok body /\ 0 <= sz < 4294967296 /\ le32 (rd32 [a0; a1; a2; a3]) = [a0; a1; a2; a3]).
    { subst sz. inv_bytes. split; [assumption|]. split; [apply rd32_bound; assumption|].
      apply le32_rd32; assumption. }
    destruct Hbb as (Hbody & Hszr & Htag).
    destruct (Z.ltb_spec (len body) sz) as [Hlt|Hge].
    { destruct (Z.leb_spec (sz + sz mod 2) (len body)); [lia|reflexivity]. }
    destruct (Z.eqb_spec (sz mod 2) 0) as [He|Ho].
    + rewrite He, Z.add_0_r. destruct (Z.leb_spec sz (len body)); [|lia].
      rewrite (IH _ (bytes_ok_skipn _ _ Hbody)).
      destruct (walk fuel (skipn (Z.to_nat sz) body)); cbn [option_map map conv fst snd]; [|reflexivity].
      f_equal. f_equal. unfold conv. cbn [fst snd]. rewrite Htag. reflexivity.
    + replace (sz mod 2) with 1 by lia.
      destruct (skipn (Z.to_nat sz) body) as [|pad after'] eqn:Es.
      * assert (len body = sz).
        { apply (f_equal (@length Z)) in Es. rewrite skipn_length in Es. cbn in Es. unfold len in *. lia. }
        destruct (Z.leb_spec (sz + 1) (len body)); [lia|reflexivity].
      * assert (sz + 1 <= len body).
        { apply (f_equal (@length Z)) in Es. rewrite skipn_length in Es. cbn [length] in Es. unfold len in *. lia. }
        destruct (Z.leb_spec (sz + 1) (len body)); [|lia].
        destruct (pad =? 0); [|reflexivity].
        replace (Z.to_nat (sz + 1)) with (S (Z.to_nat sz)) by lia.
        rewrite (skipn_S_of _ _ _ _ Es).
        assert (Hb' : bytes_ok after').
        { pose proof (bytes_ok_skipn (Z.to_nat sz) _ Hbody) as Hk. rewrite Es in Hk.
          unfold bytes_ok in *. inversion Hk; assumption. }
        rewrite (IH _ Hb').
        destruct (walk fuel after'); cbn [option_map map conv fst snd]; [|reflexivity].
        f_equal. f_equal. unfold conv. cbn [fst snd]. rewrite Htag. reflexivity.
Qed.

(** Fuel: the walker needs one unit per chunk, and every chunk has >= 8 bytes. *)
Lemma walk_count : forall fuel buf cs, walk fuel buf = Some cs -> (8 * length cs <= length buf)%nat.
Proof.
  induction fuel as [|fuel IH]; intros buf cs H.
  - destruct buf; cbn in H; [injection H as <-; cbn; lia|discriminate].
  - destruct buf as [|a0 [|a1 [|a2 [|a3 [|s0 [|s1 [|s2 [|s3 body]]]]]]]]; try (cbn in H; discriminate).
    { cbn in H. injection H as <-. cbn. lia. }
    cbn [walk] in H.
    remember (rd32 [s0; s1; s2; s3]) as sz.
    destruct (Z.leb_spec (sz + sz mod 2) (len body)); [|discriminate].
    match type of H with (if ?c then _ else _) = _ => destruct c; [|discriminate] end.
    destruct (walk fuel (skipn (Z.to_nat (sz + sz mod 2)) body)) as [cs'|] eqn:E; [|discriminate].
    injection H as <-. apply IH in E. rewrite skipn_length in E. cbn [length]. lia.
Qed.

Lemma walk_any_fuel : forall fuel fuel' buf cs,
  walk fuel buf = Some cs -> (length cs <= fuel')%nat -> walk fuel' buf = Some cs.
Proof.
  induction fuel as [|fuel IH]; intros fuel' buf cs H Hl.
  - destruct buf; cbn in H; [|discriminate]. injection H as <-. destruct fuel'; reflexivity.
  - destruct buf as [|a0 buf].
    { cbn in H. injection H as <-. destruct fuel'; reflexivity. }
    destruct buf as [|a1 [|a2 [|a3 [|s0 [|s1 [|s2 [|s3 body]]]]]]]; try (cbn in H; discriminate).
    cbn [walk] in H.
    remember (rd32 [s0; s1; s2; s3]) as sz.
    destruct (Z.leb_spec (sz + sz mod 2) (len body)) as [Hfit|]; [|discriminate].
    match type of H with (if ?c then _ else _) = _ => destruct c eqn:Ep; [|discriminate] end.
    destruct (walk fuel (skipn (Z.to_nat (sz + sz mod 2)) body)) as [cs'|] eqn:E; [|discriminate].
    injection H as <-. cbn [length] in Hl. destruct fuel' as [|fuel']; [lia|].
    cbn [walk]. rewrite <- Heqsz.
    destruct (Z.leb_spec (sz + sz mod 2) (len body)); [|lia]. rewrite Ep.
    rewrite (IH fuel' _ _ E ltac:(lia)). reflexivity.
Qed.

Lemma chunks_of_walk n body cs :
  bytes_ok body -> walk (S n) body = Some cs -> n = length body ->
  G.chunks n body = Some (map conv cs).
Proof.
  intros Hb Hw ->. rewrite chunks_eq_walk by exact Hb.
  pose proof (walk_count _ _ _ Hw) as Hc.
  rewrite (walk_any_fuel _ (length body) _ _ Hw ltac:(lia)). reflexivity.
Qed.

Lemma walk_of_chunks n body gcs :
  bytes_ok body -> G.chunks n body = Some gcs ->
  exists cs, gcs = map conv cs /\ walk (S n) body = Some cs.
Proof.
  intros Hb H. rewrite chunks_eq_walk in H by exact Hb.
  destruct (walk n body) as [cs|] eqn:E; [|discriminate]. injection H as <-.
  exists cs. split; [reflexivity|]. apply (walk_fuel_mono n); [exact E|lia].
Qed.

(** ** Bitstream headers: the two specifications read the same fields *)
Lemma vp8_header_bridge bs w h :
  bytes_ok bs -> (parse_vp8_header bs = Ok (w, h) <-> G.vp8_header bs = Some (w, h)).
Proof.
  intros Hb. unfold parse_vp8_header, G.vp8_header, VP8FrameHeaderSize.
  destruct bs as [|b0 [|b1 [|b2 [|b3 [|b4 [|b5 [|b6 [|b7 [|b8 [|b9 tl]]]]]]]]]];
    try (match goal with |- context [len ?l <? 10] =>
           destruct (Z.ltb_spec (len l) 10) as [|Hl];
           [split; discriminate|exfalso; unfold len in Hl; cbn [length] in Hl; lia] end).
  destruct (Z.ltb_spec (len (b0 :: b1 :: b2 :: b3 :: b4 :: b5 :: b6 :: b7 :: b8 :: b9 :: tl)) 10) as [Hl|_];
    [unfold len in Hl; cbn [length] in Hl; lia|].
  unfold slice. cbn [length].
  match goal with |- context [10 <=? ?x] => destruct (Z.leb_spec 10 x); [|lia] end.
  change ((0 <=? 0) && (0 <=? 10) && true) with true. cbv iota.
  change (Z.to_nat (10 - 0)) with 10%nat. change (Z.to_nat 0) with 0%nat. cbn [skipn firstn bind].
  assert (Hby : is_byte b0 /\ is_byte b1 /\ is_byte b2 /\ is_byte b3 /\ is_byte b4 /\ is_byte b5).
  { inv_bytes. auto 10. }
  destruct Hby as (B0 & B1 & B2 & B3 & B4 & B5). unfold is_byte in *.
  remember ((rd16 [b6; b7]) mod 16384) as w' eqn:Hw'. remember ((rd16 [b8; b9]) mod 16384) as h' eqn:Hh'.
  assert (Hw2 : (b6 + 256 * b7) mod 16384 = w') by (subst w'; reflexivity).
  assert (Hh2 : (b8 + 256 * b9) mod 16384 = h') by (subst h'; reflexivity).
  rewrite Hw2, Hh2.
  assert (Hwr : 0 <= w' < 16384) by (subst w'; apply Z.mod_pos_bound; lia).
  assert (Hhr : 0 <= h' < 16384) by (subst h'; apply Z.mod_pos_bound; lia).
  destruct (Z.eqb_spec ((b0 + 256 * b1 + 65536 * b2) mod 2) 0) as [Ek|Ek];
  destruct (Z.eqb_spec (b0 mod 2) 0) as [Ek'|Ek']; try lia; cbn [negb andb];
    [|split; discriminate].
  destruct (Z.eqb_spec (65536 * b3 + 256 * b4 + b5) 10289450) as [Es|Es]; cbn [negb].
  - assert (b3 = 157 /\ b4 = 1 /\ b5 = 42) as (-> & -> & ->) by lia. cbn [Z.eqb Pos.eqb andb].
    destruct (Z.eqb_spec w' 0), (Z.eqb_spec h' 0), (Z.leb_spec 1 w'), (Z.leb_spec 1 h'); try lia;
      cbn [orb andb]; split; intros Hq; try discriminate; congruence.
  - split; [discriminate|].
    destruct (Z.eqb_spec b3 157), (Z.eqb_spec b4 1), (Z.eqb_spec b5 42); cbn [andb]; try discriminate. lia.
Qed.

Lemma vp8l_header_bridge bs w h a :
  bytes_ok bs -> (parse_vp8l_header bs = Ok (w, h, a) <-> G.vp8l_header bs = Some (w, h, a)).
Proof.
  intros Hb. unfold parse_vp8l_header, G.vp8l_header, VP8LFrameHeaderSize, VP8LMagicByte.
  destruct bs as [|b0 [|b1 [|b2 [|b3 [|b4 tl]]]]];
    try (match goal with |- context [len ?l <? 5] =>
           destruct (Z.ltb_spec (len l) 5) as [|Hl];
           [split; discriminate|exfalso; unfold len in Hl; cbn [length] in Hl; lia] end).
  destruct (Z.ltb_spec (len (b0 :: b1 :: b2 :: b3 :: b4 :: tl)) 5) as [Hl|_];
    [unfold len in Hl; cbn [length] in Hl; lia|].
  unfold slice. cbn [length].
  match goal with |- context [5 <=? ?x] => destruct (Z.leb_spec 5 x); [|lia] end.
  change ((0 <=? 0) && (0 <=? 5) && true) with true. cbv iota.
  change (Z.to_nat (5 - 0)) with 5%nat. change (Z.to_nat 0) with 0%nat. cbn [skipn firstn bind].
  assert (Hby : is_byte b1 /\ is_byte b2 /\ is_byte b3 /\ is_byte b4) by (inv_bytes; auto 10).
  destruct Hby as (B1 & B2 & B3 & B4).
  pose proof (rd32_bound b1 b2 b3 b4 [] B1 B2 B3 B4) as Hr.
  unfold rd32 in *. remember (b1 + 256 * b2 + 65536 * b3 + 16777216 * b4) as bits.
  destruct (b0 =? 47); cbn [negb andb]; [|split; discriminate].
  destruct (Z.eqb_spec ((bits / 536870912) mod 8) 0) as [Ev|Ev];
  destruct (Z.eqb_spec (bits / 536870912) 0) as [Ev'|Ev']; try lia; cbn [negb];
    [|split; discriminate].
  assert (Hwn : (bits mod 16384 + 1 =? 0) = false) by lia.
  assert (Hhn : ((bits / 16384) mod 16384 + 1 =? 0) = false) by lia.
  rewrite Hwn, Hhn. cbn [orb]. split; intros Hq; congruence.
Qed.

Lemma image_dims_bridge id bs w h a :
  bytes_ok bs -> image_dims id bs = Some (w, h, a) ->
  (id = FourCCVP8L /\ G.vp8l_header bs = Some (w, h, a)) \/
  (id = FourCCVP8 /\ a = false /\ G.vp8_header bs = Some (w, h)).
Proof.
  intros Hb. unfold image_dims.
  destruct (Z.eqb_spec id FourCCVP8L) as [->|].
  - destruct (parse_vp8l_header bs) as [[[w' h'] a']|e|] eqn:E; try discriminate. intros [= -> -> ->].
    left. split; [reflexivity|]. apply vp8l_header_bridge; assumption.
  - destruct (Z.eqb_spec id FourCCVP8) as [->|]; [|discriminate].
    destruct (parse_vp8_header bs) as [[w' h']|e|] eqn:E; try discriminate. intros [= -> -> <-].
    right. split; [reflexivity|]. split; [reflexivity|]. apply vp8_header_bridge; assumption.
Qed.

(** ** Flags: testbit / land (ParserSpec) vs div / mod (RiffGrammar) on a byte *)
Lemma flag_bits_bridge f : 0 <= f < 256 ->
  Z.testbit f 5 = negb ((f / 32) mod 2 =? 0) /\ Z.testbit f 4 = negb ((f / 16) mod 2 =? 0) /\
  Z.testbit f 3 = negb ((f / 8) mod 2 =? 0) /\ Z.testbit f 2 = negb ((f / 4) mod 2 =? 0) /\
  Z.testbit f 1 = negb ((f / 2) mod 2 =? 0) /\
  (Z.land f 195 =? 0) = ((f mod 2 =? 0) && (f / 64 =? 0) && ((f / 2) mod 2 =? 0)).
Proof.
  intros Hr.
  assert (Hall : forallb (fun n => let v := Z.of_nat n in
      Bool.eqb (Z.testbit v 5) (negb ((v / 32) mod 2 =? 0)) && Bool.eqb (Z.testbit v 4) (negb ((v / 16) mod 2 =? 0)) &&
      Bool.eqb (Z.testbit v 3) (negb ((v / 8) mod 2 =? 0)) && Bool.eqb (Z.testbit v 2) (negb ((v / 4) mod 2 =? 0)) &&
      Bool.eqb (Z.testbit v 1) (negb ((v / 2) mod 2 =? 0)) &&
      Bool.eqb (Z.land v 195 =? 0) ((v mod 2 =? 0) && (v / 64 =? 0) && ((v / 2) mod 2 =? 0)))
    (seq 0 256) = true) by (vm_compute; reflexivity).
  rewrite forallb_forall in Hall. specialize (Hall (Z.to_nat f) ltac:(apply in_seq; lia)).
  cbv zeta in Hall. rewrite Z2Nat.id in Hall by lia.
  rewrite !andb_true_iff in Hall. destruct Hall as (((((H5 & H4) & H3) & H2) & H1) & H0).
  apply eqb_prop in H5, H4, H3, H2, H1, H0. auto 10.
Qed.

Lemma forallb_bytes bs : bytes_ok bs <-> forallb (fun b => (0 <=? b) && (b <? 256)) bs = true.
Proof.
  unfold bytes_ok, is_byte. rewrite forallb_forall, Forall_forall.
  split; intros H x Hx; specialize (H x Hx); lia.
Qed.

Lemma walk_payload_bytes : forall cs fuel buf,
  bytes_ok buf -> walk fuel buf = Some cs -> Forall (fun c => bytes_ok (snd c)) cs.
Proof.
  induction cs as [|[id d] cs IH]; intros fuel buf Hb H; [constructor|].
  destruct (walk_cons_inv _ _ _ _ _ Hb H) as (rest & fuel' & _ & Hw & Hr & Hd & _).
  constructor; [exact Hd|]. apply (IH _ _ Hr Hw).
Qed.

(** The layout part of [RiffGrammar.wf], as a function of the chunk list. *)
Definition g_layout (gcs : list G.gchunk) : bool :=
  match gcs with
  | (t, p) :: rest =>
    if G.bytes_eqb t G.T_VP8X then G.ext_ok p rest
    else if G.bytes_eqb t G.T_VP8 then
      match rest, G.vp8_header p with [], Some _ => true | _, _ => false end
    else if G.bytes_eqb t G.T_VP8L then
      match rest, G.vp8l_header p with [], Some _ => true | _, _ => false end
    else false
  | _ => false
  end.

Lemma g_wf_unfold r0 r1 r2 r3 s0 s1 s2 s3 w0 w1 w2 w3 body :
  G.wf (r0 :: r1 :: r2 :: r3 :: s0 :: s1 :: s2 :: s3 :: w0 :: w1 :: w2 :: w3 :: body) =
  G.bytes_eqb [r0; r1; r2; r3] G.T_RIFF && G.bytes_eqb [w0; w1; w2; w3] G.T_WEBP &&
  (rd32 [s0; s1; s2; s3] =? 4 + G.glen body) &&
  forallb (fun b => (0 <=? b) && (b <? 256))
          (r0 :: r1 :: r2 :: r3 :: s0 :: s1 :: s2 :: s3 :: w0 :: w1 :: w2 :: w3 :: body) &&
  match G.chunks (length body) body with Some gcs => g_layout gcs | None => false end.
Proof.
  unfold G.wf, g_layout. destruct (G.chunks (length body) body) as [[|[t p] rest]|]; reflexivity.
Qed.

Lemma optl_conv id o : map conv (optl id o) = match o with Some d => [(le32 id, d)] | None => [] end.
Proof. destruct o; reflexivity. Qed.

Ltac tag_cmp :=
  repeat match goal with
         | |- context [G.bytes_eqb ?a ?b] =>
           is_const a; is_const b;
           let v := eval vm_compute in (G.bytes_eqb a b) in change (G.bytes_eqb a b) with v
         end.
Ltac gsimp :=
  repeat (progress (cbn [app G.take_opt G.image_data is_some orb andb Bool.eqb negb]; cbv beta iota; tag_cmp)).

(** still layout (ParserSpec) => layout (RiffGrammar) *)
Lemma layout_bridge cs :
  Forall (fun c => bytes_ok (snd c)) cs -> still_layout_ok cs = true -> g_layout (map conv cs) = true.
Proof.
  intros Hby H.
  destruct tag_consts as (_ & _ & TV8 & TV8L & TX & TA & _ & _ & TI & TE & TM).
  destruct (still_layout_inv _ H) as
    [(id & bs & -> & Hdims)|
     (flags & w0 & w1 & w2 & h0 & h1 & h2 & icc & alph & id & bs & exif & xmp & w & h & a &
      -> & Hd & Hl & F5 & F3 & F2 & F4 & Halph & Hw & Hh)].
  - destruct (image_dims id bs) as [[[w h] a]|] eqn:Ed; [|discriminate].
    assert (Hbs : bytes_ok bs) by (inversion Hby; assumption).
    cbn [map conv fst snd g_layout].
    destruct (image_dims_bridge _ _ _ _ _ Hbs Ed) as [(-> & Hh)|(-> & _ & Hh)].
    + rewrite TV8L. change (G.bytes_eqb G.T_VP8L G.T_VP8X) with false.
      change (G.bytes_eqb G.T_VP8L G.T_VP8) with false. change (G.bytes_eqb G.T_VP8L G.T_VP8L) with true.
      cbv iota. rewrite Hh. reflexivity.
    + rewrite TV8. change (G.bytes_eqb G.T_VP8 G.T_VP8X) with false.
      change (G.bytes_eqb G.T_VP8 G.T_VP8) with true. cbv iota. rewrite Hh. reflexivity.
  - (* extended *)
    assert (Hbp : bytes_ok [flags; 0; 0; 0; w0; w1; w2; h0; h1; h2]) by (inversion Hby; assumption).
    assert (Hbs : bytes_ok bs).
    { rewrite Forall_forall in Hby. apply (Hby (id, bs)). right.
      apply in_or_app; right. apply in_or_app; right. left. reflexivity. }
    assert (Bf : 0 <= flags < 256) by (inv_bytes; assumption).
    destruct (flag_bits_bridge flags Bf) as (G5 & G4 & G3 & G2 & G1 & G0).
    rewrite Hl in G0. change (0 =? 0) with true in G0. symmetry in G0. rewrite !andb_true_iff in G0.
    destruct G0 as ((Gm & G64) & Gan).
    destruct (header_declares_range _ _ _ _ _ (image_dims_fourcc _ _ _ _ _ Hd) Hd) as [Hwr Hhr].
    cbn [map conv fst snd g_layout]. rewrite TX, bytes_eqb_refl.
    rewrite !map_app. cbn [map]. rewrite !map_app, !optl_conv. unfold conv. cbn [fst snd].
    unfold G.ext_ok. rewrite Gm, G64. change (0 =? 0) with true. cbn [andb].
    rewrite Hw, Hh. destruct (Z.leb_spec (w * h) 4294967295); [|nia]. cbn [andb].
    rewrite <- G5, <- G4, <- G3, <- G2, F5, F4, F3, F2.
    assert (Gan' : negb ((flags / 2) mod 2 =? 0) = false) by (rewrite Gan; reflexivity).
    rewrite Gan'.
    destruct (image_dims_bridge _ _ _ _ _ Hbs Hd) as [(-> & Hhd)|(-> & -> & Hhd)].
    + (* VP8L: no ALPH *)
      destruct alph as [al|]; [specialize (Halph eq_refl); discriminate|].
      rewrite TI, TE, TM, TV8L.
      destruct icc, exif, xmp; gsimp; rewrite Hhd; gsimp; rewrite !Z.eqb_refl; gsimp; destruct a; reflexivity.
    + rewrite TI, TE, TM, TV8, TA. rewrite orb_false_r.
      destruct icc, alph, exif, xmp; gsimp; rewrite Hhd; gsimp; rewrite !Z.eqb_refl; gsimp; reflexivity.
Qed.

(** ** ParserSpec.riff_wf => RiffGrammar.wf *)
Theorem riff_wf_grammar file : bytes_ok file -> riff_wf file = true -> G.wf file = true.
Proof.
  intros Hb Hwf. unfold riff_wf in Hwf. apply andb_true_iff in Hwf. destruct Hwf as [_ Hwf].
  destruct (riff_chunks file) as [cs|] eqn:Erc; [|discriminate].
  destruct (riff_chunks_inv _ _ Hb Erc) as (body & Hfile & Hwalk & Hbody & Hrs).
  pose proof (proj1 (forallb_bytes file) Hb) as Hfa.
  pose proof (len_nonneg body) as Hl0.
  destruct tag_consts as (TR & TW & _).
  subst file. clear Erc Hb TR TW.
  change (le32 FourCCRIFF) with [82; 73; 70; 70] in Hfa |- *.
  change (le32 FourCCWEBP) with [87; 69; 66; 80] in Hfa |- *.
  unfold le32 in Hfa |- *. cbn [app] in Hfa |- *.
  rewrite g_wf_unfold. rewrite Hfa.
  change (G.bytes_eqb [82; 73; 70; 70] [82; 73; 70; 70]) with true.
  change (G.bytes_eqb [87; 69; 66; 80] [87; 69; 66; 80]) with true.
  rewrite rd32_le32' by lia. change (G.glen body) with (len body). rewrite Z.eqb_refl. cbn [andb].
  rewrite (chunks_of_walk _ _ _ Hbody Hwalk eq_refl).
  apply layout_bridge; [|exact Hwf]. apply (walk_payload_bytes _ _ _ Hbody Hwalk).
Qed.

(** ** writer_output_wf: the encoder's container writer only emits files the
    independent grammar accepts *)
Lemma bytes_ok_le32 v : bytes_ok (le32 v). Proof. apply le32_bytes. Qed.

Lemma bytes_ok_pad n : bytes_ok (pad n).
Proof. unfold pad. destruct (n mod 2 =? 0); [constructor|]. constructor; [unfold is_byte; lia|constructor]. Qed.

Lemma bytes_ok_chunk id d : bytes_ok d -> bytes_ok (chunk id d).
Proof.
  intros H. unfold chunk. rewrite !bytes_ok_app. repeat split; try apply le32_bytes; [exact H|apply bytes_ok_pad].
Qed.

Lemma bytes_ok_opt_chunk id d : bytes_ok d -> bytes_ok (opt_chunk id d).
Proof. intros H. unfold opt_chunk. destruct (len d >? 0); [apply bytes_ok_chunk; exact H|constructor]. Qed.

Lemma write_riff_bytes_ok fourcc bs alpha w h icc exif xmp file :
  bytes_ok bs -> bytes_ok alpha -> bytes_ok icc -> bytes_ok exif -> bytes_ok xmp ->
  len bs < 4294967296 - 21 ->
  write_riff fourcc bs alpha w h icc exif xmp = Ok file -> bytes_ok file.
Proof.
  intros Hbs Hal Hic Hex Hxm Hl. unfold write_riff.
  destruct ((len alpha >? 0) || (len icc >? 0) || (len exif >? 0) || (len xmp >? 0)).
  - unfold write_riff_extended. destruct (_ >? _); [discriminate|]. intros Hf.
    assert (E : file = le32 FourCCRIFF ++ le32 (riff_size_extended bs alpha icc exif xmp) ++ le32 FourCCWEBP ++
                vp8x_chunk (vp8x_flags fourcc bs alpha icc exif xmp) w h ++ opt_chunk FourCCICCP icc ++
                opt_chunk FourCCALPH alpha ++ chunk fourcc bs ++ opt_chunk FourCCEXIF exif ++ opt_chunk FourCCXMP xmp)
      by congruence.
    rewrite E. unfold vp8x_chunk. rewrite !bytes_ok_app.
    repeat split; try apply le32_bytes; try apply le24_bytes;
      try (apply bytes_ok_opt_chunk; assumption); apply bytes_ok_chunk; assumption.
  - rewrite write_simple_eq by exact Hl. intros Hf.
    assert (E : file = simple_file fourcc bs) by congruence. rewrite E. unfold simple_file.
    rewrite !bytes_ok_app. repeat split; try apply le32_bytes. apply bytes_ok_chunk; assumption.
Qed.

(** For every image bitstream whose header declares w x h, ALPH payload and
    ICC / EXIF / XMP blobs within the writer's size guard: the file written by
    [write_riff] is accepted by [RiffGrammar.wf] (RIFF size, chunk sizes, padding,
    order ICCP -> ALPH -> image -> EXIF -> XMP, VP8X flags = exactly the chunks
    present incl. the VP8L alpha bit, canvas = bitstream dimensions). *)
Theorem writer_output_wf : forall fourcc bs alpha w h icc exif xmp a,
  writer_inputs_ok fourcc bs alpha w h icc exif xmp a ->
  bytes_ok bs -> bytes_ok alpha -> bytes_ok icc -> bytes_ok exif -> bytes_ok xmp ->
  exists file, write_riff fourcc bs alpha w h icc exif xmp = Ok file /\ G.wf file = true.
Proof.
  intros fourcc bs alpha w h icc exif xmp a Hin Hbs Hal Hic Hex Hxm.
  destruct (metadata_roundtrip _ _ _ _ _ _ _ _ _ Hin) as (file & Hw & _ & _ & _ & _ & _ & Hwf & _).
  exists file. split; [exact Hw|]. apply riff_wf_grammar; [|exact Hwf].
  apply (write_riff_bytes_ok _ _ _ _ _ _ _ _ _ Hbs Hal Hic Hex Hxm (sizes_ok_simple _ _ _ _ _ (wi_sizes _ _ _ _ _ _ _ _ _ Hin)) Hw).
Qed.

(** ** RiffGrammar.wf (still) => ParserSpec.riff_wf *)
Definition ids_ok (cs : list (Z * list Z)) : Prop :=
  Forall (fun c => 0 <= fst c < 4294967296 /\ bytes_ok (snd c)) cs.

Lemma walk_ids_ok : forall cs fuel buf, bytes_ok buf -> walk fuel buf = Some cs -> ids_ok cs.
Proof.
  induction cs as [|[id d] cs IH]; intros fuel buf Hb H; [constructor|].
  destruct (walk_cons_inv _ _ _ _ _ Hb H) as (rest & fuel' & _ & Hw & Hr & Hd & Hid & _).
  constructor; [split; assumption|]. apply (IH _ _ Hr Hw).
Qed.

Lemma g_take_opt_conv c cs :
  0 <= c < 4294967296 -> ids_ok cs ->
  G.take_opt (le32 c) (map conv cs) =
  (is_some (fst (take_opt c cs)), map conv (snd (take_opt c cs))).
Proof.
  intros Hc Hids. destruct cs as [|[i d] cs']; [reflexivity|].
  inversion Hids as [|? ? [Hi _] _]; subst. cbn [map conv fst snd G.take_opt take_opt] in *.
  rewrite tag_eqb by assumption. destruct (i =? c); reflexivity.
Qed.

Definition g_is_anim (bs : list Z) : bool :=
  match bs with
  | _ :: _ :: _ :: _ :: _ :: _ :: _ :: _ :: _ :: _ :: _ :: _ ::
    t0 :: t1 :: t2 :: t3 :: _ :: _ :: _ :: _ :: flags :: _ =>
    G.bytes_eqb [t0; t1; t2; t3] G.T_VP8X && negb ((flags / 2) mod 2 =? 0)
  | _ => false
  end.

Lemma g_image_data_conv cs1 w h alpha gcs3 :
  ids_ok cs1 -> G.image_data (map conv cs1) = Some (w, h, alpha, gcs3) ->
  exists alph id bs cs3 a,
    take_opt FourCCALPH cs1 = (alph, (id, bs) :: cs3) /\ gcs3 = map conv cs3 /\
    image_dims id bs = Some (w, h, a) /\ alpha = (is_some alph || a) /\
    (is_some alph = true -> id = FourCCVP8).
Proof.
  intros Hids H. destruct tag_consts as (_ & _ & TV8 & TV8L & _ & TA & _).
  destruct fourcc_ranges as (_ & _ & RA & _ & _ & RV8 & RV8L & _).
  destruct cs1 as [|[t p] rest]; [discriminate|].
  inversion Hids as [|? ? [Ht Hp] Hrest]; subst. cbn [fst snd] in Ht, Hp. cbn [map conv fst snd G.image_data] in H.
  rewrite <- TV8L, <- TV8, <- TA in H. rewrite !tag_eqb in H by assumption.
  destruct (Z.eqb_spec t FourCCVP8L) as [->|N1].
  { destruct (G.vp8l_header p) as [[[w' h'] a']|] eqn:Eh; [|discriminate]. injection H as -> -> -> <-.
    exists None, FourCCVP8L, p, rest, alpha. cbn [take_opt].
    change (FourCCVP8L =? FourCCALPH) with false.
    split; [reflexivity|]. split; [reflexivity|]. split.
    - unfold image_dims. rewrite Z.eqb_refl. rewrite (proj2 (vp8l_header_bridge _ _ _ _ Hp) Eh). reflexivity.
    - split; [reflexivity|]. cbn. discriminate. }
  destruct (Z.eqb_spec t FourCCVP8) as [->|N2].
  { destruct (G.vp8_header p) as [[w' h']|] eqn:Eh; [|discriminate]. injection H as -> -> <- <-.
    exists None, FourCCVP8, p, rest, false. cbn [take_opt].
    change (FourCCVP8 =? FourCCALPH) with false.
    split; [reflexivity|]. split; [reflexivity|]. split.
    - unfold image_dims. change (FourCCVP8 =? FourCCVP8L) with false. rewrite Z.eqb_refl.
      rewrite (proj2 (vp8_header_bridge _ _ _ Hp) Eh). reflexivity.
    - split; [reflexivity|]. cbn. discriminate. }
  destruct (Z.eqb_spec t FourCCALPH) as [->|N3]; [|discriminate].
  destruct rest as [|[t2 p2] rest2]; [discriminate|].
  inversion Hrest as [|? ? [Ht2 Hp2] _]; subst. cbn [fst snd] in Ht2, Hp2. cbn [map conv fst snd] in H.
  rewrite tag_eqb in H by assumption.
  destruct (Z.eqb_spec t2 FourCCVP8) as [->|]; [|discriminate].
  destruct (G.vp8_header p2) as [[w' h']|] eqn:Eh; [|discriminate]. injection H as -> -> <- <-.
  exists (Some p), FourCCVP8, p2, rest2, false. cbn [take_opt]. rewrite Z.eqb_refl.
  split; [reflexivity|]. split; [reflexivity|]. split.
  - unfold image_dims. change (FourCCVP8 =? FourCCVP8L) with false. rewrite Z.eqb_refl.
    rewrite (proj2 (vp8_header_bridge _ _ _ Hp2) Eh). reflexivity.
  - split; reflexivity.
Qed.

Lemma ids_ok_take_opt c cs : ids_ok cs -> ids_ok (snd (take_opt c cs)).
Proof.
  intros H. destruct cs as [|[i d] cs']; [exact H|]. cbn [take_opt].
  destruct (i =? c); cbn [snd]; [inversion H; assumption|exact H].
Qed.

Lemma map_conv_nil cs : map conv cs = [] -> cs = [].
Proof. destruct cs; [reflexivity|discriminate]. Qed.

Definition cs_is_anim (cs : list (Z * list Z)) : bool :=
  match cs with
  | (x, flags :: _) :: _ => (x =? FourCCVP8X) && negb ((flags / 2) mod 2 =? 0)
  | _ => false
  end.

Lemma layout_bridge_rev cs :
  ids_ok cs -> g_layout (map conv cs) = true -> cs_is_anim cs = false -> still_layout_ok cs = true.
Proof.
  intros Hids H Hna.
  destruct tag_consts as (_ & _ & TV8 & TV8L & TX & _ & _ & _ & TI & TE & TM).
  destruct fourcc_ranges as (RX & RI & _ & RE & RM & RV8 & RV8L & _).
  destruct cs as [|[x p] rest]; [discriminate|].
  inversion Hids as [|? ? [Hx Hp] Hrest]; subst. cbn [fst snd] in Hx, Hp.
  cbn [map conv fst snd g_layout] in H.
  rewrite <- TX, <- TV8, <- TV8L in H. rewrite !tag_eqb in H by assumption.
  destruct (Z.eqb_spec x FourCCVP8X) as [->|NX].
  2:{ (* simple layouts *)
    destruct (Z.eqb_spec x FourCCVP8) as [->|N8].
    - destruct (map conv rest) eqn:Er; [|discriminate]. apply map_conv_nil in Er. subst rest.
      destruct (G.vp8_header p) as [[w h]|] eqn:Eh; [|discriminate].
      rewrite still_layout_single. unfold image_dims. change (FourCCVP8 =? FourCCVP8L) with false.
      rewrite Z.eqb_refl. rewrite (proj2 (vp8_header_bridge _ _ _ Hp) Eh). reflexivity.
    - destruct (Z.eqb_spec x FourCCVP8L) as [->|]; [|discriminate].
      destruct (map conv rest) eqn:Er; [|discriminate]. apply map_conv_nil in Er. subst rest.
      destruct (G.vp8l_header p) as [[[w h] a]|] eqn:Eh; [|discriminate].
      rewrite still_layout_single. unfold image_dims. rewrite Z.eqb_refl.
      rewrite (proj2 (vp8l_header_bridge _ _ _ _ Hp) Eh). reflexivity. }
  (* extended *)
  unfold G.ext_ok in H. cbv zeta in H.
  destruct p as [|flags [|r1 [|r2 [|r3 [|w0 [|w1 [|w2 [|h0 [|h1 [|h2 [|? ?]]]]]]]]]]]; try discriminate.
  cbn [cs_is_anim] in Hna. rewrite Z.eqb_refl in Hna. cbn [andb] in Hna.
  rewrite <- TI, <- TE, <- TM in H.
  rewrite (g_take_opt_conv FourCCICCP rest RI Hrest) in H.
  destruct (take_opt FourCCICCP rest) as [icc rest1] eqn:E1. cbn [fst snd] in H.
  pose proof (ids_ok_take_opt FourCCICCP rest Hrest) as Hr1. rewrite E1 in Hr1. cbn [snd] in Hr1.
  rewrite Hna in H.
  rewrite !andb_true_iff in H.
  destruct H as ((((((Hm & H64) & Hr1z) & Hr2z) & Hr3z) & Harea) & (Hicc & Hstill)).
  destruct (G.image_data (map conv rest1)) as [[[[w h] alpha] gcs3]|] eqn:Eim; [|discriminate].
  destruct (g_image_data_conv _ _ _ _ _ Hr1 Eim) as (alph & id & bs & cs3 & a & E2 & -> & Hd & -> & Halph).
  assert (Hr3' : ids_ok cs3).
  { pose proof (ids_ok_take_opt FourCCALPH rest1 Hr1) as Hq. rewrite E2 in Hq. cbn [snd] in Hq.
    inversion Hq; assumption. }
  rewrite (g_take_opt_conv FourCCEXIF cs3 RE Hr3') in Hstill.
  destruct (take_opt FourCCEXIF cs3) as [exif cs4] eqn:E3. cbn [fst snd] in Hstill.
  pose proof (ids_ok_take_opt FourCCEXIF cs3 Hr3') as Hr4. rewrite E3 in Hr4. cbn [snd] in Hr4.
  rewrite (g_take_opt_conv FourCCXMP cs4 RM Hr4) in Hstill.
  destruct (take_opt FourCCXMP cs4) as [xmp cs5] eqn:E4. cbn [fst snd] in Hstill.
  rewrite !andb_true_iff in Hstill.
  destruct Hstill as (((Hw & Hh) & Halpha) & ((Hexif & Hxmp) & Hend)).
  destruct (map conv cs5) eqn:E5; [|discriminate]. apply map_conv_nil in E5. subst cs5.
  apply Z.eqb_eq in Hm, H64, Hr1z, Hr2z, Hr3z, Hw, Hh. apply eqb_prop in Hicc, Halpha, Hexif, Hxmp.
  subst r1 r2 r3.
  assert (Bf : 0 <= flags < 256) by (inv_bytes; assumption).
  destruct (flag_bits_bridge flags Bf) as (G5 & G4 & G3 & G2 & G1 & G0).
  apply negb_false_iff in Hna.
  rewrite Hm, H64 in G0. rewrite Hna in G0. cbn [Z.eqb andb] in G0.
  (* rest is not empty: it contains the image chunk *)
  destruct rest as [|c2 rest2].
  { cbn in E1. injection E1 as <- <-. cbn in E2. discriminate. }
  unfold still_layout_ok. rewrite E1, E2, E3, E4, Hd.
  rewrite Z.eqb_refl, G0, G5, G4, G3, G2. cbn [Z.eqb andb].
  rewrite <- Hicc, <- Halpha, <- Hexif, <- Hxmp. rewrite !eqb_reflx.
  rewrite Hw, Hh, !Z.eqb_refl. cbn [andb].
  destruct (is_some alph) eqn:Eal; cbn [negb orb]; [|reflexivity].
  rewrite (Halph eq_refl). reflexivity.
Qed.

Lemma walk_even : forall fuel buf cs, walk fuel buf = Some cs -> len buf mod 2 = 0.
Proof.
  induction fuel as [|fuel IH]; intros buf cs H.
  - destruct buf; [reflexivity|discriminate].
  - destruct buf as [|a0 buf]; [reflexivity|].
    destruct buf as [|a1 [|a2 [|a3 [|s0 [|s1 [|s2 [|s3 body]]]]]]]; try (cbn in H; discriminate).
    cbn [walk] in H. remember (rd32 [s0; s1; s2; s3]) as sz.
    destruct (Z.leb_spec (sz + sz mod 2) (len body)) as [Hfit|]; [|discriminate].
    match type of H with (if ?c then _ else _) = _ => destruct c eqn:Ep; [|discriminate] end.
    destruct (walk fuel (skipn (Z.to_nat (sz + sz mod 2)) body)) as [cs'|] eqn:E; [|discriminate].
    apply IH in E. rewrite !len_cons.
    destruct (Z.lt_ge_cases (sz + sz mod 2) 0) as [Hneg|Hpos].
    { replace (Z.to_nat (sz + sz mod 2)) with 0%nat in E by lia. cbn [skipn] in E. lia. }
    assert (Hsk : len (skipn (Z.to_nat (sz + sz mod 2)) body) = len body - (sz + sz mod 2)).
    { unfold len. rewrite skipn_length. unfold len in Hfit. lia. }
    rewrite Hsk in E. lia.
Qed.

Lemma g_is_anim_of_file hdr x flags ptl rest :
  length hdr = 12%nat -> 0 <= x < 4294967296 ->
  g_is_anim (hdr ++ chunk x (flags :: ptl) ++ rest) = cs_is_anim [(x, flags :: ptl)].
Proof.
  intros Hh Hx. do 13 (destruct hdr as [|? hdr]; try discriminate). clear Hh.
  destruct fourcc_ranges as (RX & _).
  unfold chunk, le32. cbn [app g_is_anim cs_is_anim].
  change [x mod 256; (x / 256) mod 256; (x / 65536) mod 256; (x / 16777216) mod 256] with (le32 x).
  change G.T_VP8X with (le32 FourCCVP8X). rewrite tag_eqb by assumption. reflexivity.
Qed.

(** A [RiffGrammar.wf] file whose animation flag is clear is a well-formed still for ParserSpec. *)
Theorem grammar_still_riff_wf file :
  G.wf file = true -> g_is_anim file = false -> riff_wf file = true /\ bytes_ok file.
Proof.
  intros Hg Hna.
  destruct file as [|r0 [|r1 [|r2 [|r3 [|s0 [|s1 [|s2 [|s3 [|w0 [|w1 [|w2 [|w3 body]]]]]]]]]]]]; try discriminate.
  rewrite g_wf_unfold in Hg. rewrite !andb_true_iff in Hg.
  destruct Hg as ((((HR & HW) & Hsz) & Hfa) & Hlay).
  apply bytes_eqb_eq in HR, HW. injection HR as -> -> -> ->. injection HW as -> -> -> ->.
  apply Z.eqb_eq in Hsz. change (G.glen body) with (len body) in Hsz.
  apply forallb_bytes in Hfa. split; [|exact Hfa].
  assert (Hbody : bytes_ok body).
  { change (bytes_ok ([82; 73; 70; 70; s0; s1; s2; s3; 87; 69; 66; 80] ++ body)) in Hfa.
    apply bytes_ok_app in Hfa. apply Hfa. }
  destruct (G.chunks (length body) body) as [gcs|] eqn:Ech; [|discriminate].
  destruct (walk_of_chunks _ _ _ Hbody Ech) as (cs & -> & Hwalk).
  pose proof (walk_ids_ok _ _ _ Hbody Hwalk) as Hids.
  pose proof (walk_even _ _ _ Hwalk) as Hev.
  assert (Hnac : cs_is_anim cs = false).
  { destruct cs as [|[x p] rest]; [reflexivity|].
    destruct (walk_cons_inv _ _ _ _ _ Hbody Hwalk) as (rest' & fu & Eb & _ & _ & _ & Hx & _).
    destruct p as [|flags ptl]; [reflexivity|].
    assert (Hq : cs_is_anim ((x, flags :: ptl) :: rest) = cs_is_anim [(x, flags :: ptl)]) by reflexivity.
    rewrite Hq. rewrite <- (g_is_anim_of_file [82; 73; 70; 70; s0; s1; s2; s3; 87; 69; 66; 80] x flags ptl rest' eq_refl Hx).
    rewrite <- Eb. exact Hna. }
  pose proof (layout_bridge_rev cs Hids Hlay Hnac) as Hsl.
  unfold riff_wf. rewrite !len_cons.
  destruct (Z.eqb_spec ((1 + (1 + (1 + (1 + (1 + (1 + (1 + (1 + (1 + (1 + (1 + (1 + len body)))))))))))) mod 2) 0);
    [|lia]. cbn [andb].
  cbn [riff_chunks]. change (rd32 [82; 73; 70; 70] =? FourCCRIFF) with true.
  change (rd32 [87; 69; 66; 80] =? FourCCWEBP) with true. cbn [andb]. rewrite !len_cons.
  destruct (Z.eqb_spec (rd32 [s0; s1; s2; s3])
             (1 + (1 + (1 + (1 + (1 + (1 + (1 + (1 + (1 + (1 + (1 + (1 + len body))))))))))) - 8)); [|lia].
  rewrite Hwalk. exact Hsl.
Qed.
