(** C16 views_agree across the TWO container parsers, at model level: for every
    byte file accepted by the independent grammar [RiffGrammar.wf], the model of
    internal/container.Parser ([ParserModel.parse]) and the model of mux.Demuxer
    ([DemuxModel.parse true], C14/C05 builder) both succeed and agree on canvas
    size, animation flag, frame count and the frame's payload / alpha / offsets /
    duration / blend / dispose.  This file: still pictures (simple and extended
    layout).  Loop count: for stills the parser reports 1 (extended) or 0 (simple)
    and the demuxer 0; Features.LoopCount is documented as meaningful only for
    animations. *)
From Coq Require Import List ZArith Lia Bool.
From Coq Require Import ZifyBool ZifyNat.
From Webp Require Import Base.Res Base.Bytes Riff.ParserModel Riff.ParserLemmas Riff.ParserSpec
     Riff.WriterModel Riff.WriterProofs Riff.MetadataProofs Riff.ParserProofs Riff.WriterTheorems
     Riff.ParserSpecProofs Riff.ParserGrammar.
From Webp Require Riff.DemuxModel Riff.RiffGrammar.
Import ListNotations.
Open Scope Z_scope.

Module D := DemuxModel.

Lemma dlen_len {A} (l : list A) : D.len l = len l.
Proof. reflexivity. Qed.

(** ** One well-formed chunk, read by the demuxer model *)
Lemma d_read_chunk id d rest :
  0 <= id < 4294967296 -> len d <= 4294967286 ->
  D.read_chunk (chunk id d ++ rest) = Ok (D.mkchunk id (len d) d, len (chunk id d)).
Proof.
  intros Hid Hd. pose proof (len_nonneg d) as Hd0. pose proof (len_nonneg rest) as Hr0.
  unfold D.read_chunk, D.read_chunk_header, D.u32at, D.ChunkHeaderSize, D.MaxChunkPayload.
  change (@D.len Z) with (@len Z).
  pose proof (len_chunk_app_ge id d rest) as H8.
  destruct (Z.ltb_spec (len (chunk id d ++ rest)) 8); [lia|].
  change (0 + 4) with 4. change (4 + 4) with 8.
  rewrite first_fourcc_of_chunk. cbn [bind]. rewrite rd32_le32_id by exact Hid.
  assert (Hs2 : slice (chunk id d ++ rest) 4 8 = Ok (le32 (len d))).
  { unfold chunk. rewrite <- !app_assoc. change 4 with (len (le32 id)) at 1.
    change 8 with (len (le32 id) + len (le32 (len d))). apply slice_mid. }
  rewrite Hs2. cbn [bind]. rewrite rd32_le32_id by lia.
  destruct (Z.gtb_spec (len d) 4294967286); [lia|]. cbn [bind].
  rewrite len_app, len_chunk. unfold padded_chunk_size, ChunkHeaderSize.
  destruct (Z.gtb_spec (8 + len d) (8 + len d + len d mod 2 + len rest)); [lia|].
  rewrite payload_of_chunk. cbn [bind]. f_equal. f_equal.
  destruct (Z.eqb_spec (len d mod 2) 0) as [E|E]; cbn [negb andb]; [lia|].
  destruct (Z.ltb_spec (8 + len d) (8 + len d + len d mod 2 + len rest)); lia.
Qed.

Lemma d_rest id d rest :
  slice (chunk id d ++ rest) (len (chunk id d)) (D.len (chunk id d ++ rest)) = Ok rest.
Proof. change (@D.len Z) with (@len Z). apply rest_after_chunk. Qed.

(** ** Bitstream header readers of the demuxer vs the parser's *)
Lemma d_vp8_dims bs w h :
  bytes_ok bs -> parse_vp8_header bs = Ok (w, h) -> D.parse_vp8_dims bs = Ok (w, h).
Proof.
  intros Hb. unfold parse_vp8_header, D.parse_vp8_dims, VP8FrameHeaderSize. change (@D.len Z) with (@len Z).
  destruct (Z.ltb_spec (len bs) 10) as [|Hl]; [discriminate|].
  destruct bs as [|b0 [|b1 [|b2 [|b3 [|b4 [|b5 [|b6 [|b7 [|b8 [|b9 tl]]]]]]]]]];
    try (exfalso; unfold len in Hl; cbn [length] in Hl; lia).
  unfold slice. cbn [length].
  match goal with |- context [10 <=? ?x] => destruct (Z.leb_spec 10 x); [|lia] end.
  change ((0 <=? 0) && (0 <=? 10) && true) with true. cbv iota.
  change (Z.to_nat (10 - 0)) with 10%nat. change (Z.to_nat 0) with 0%nat. cbn [skipn firstn bind].
  assert (Hby : is_byte b3 /\ is_byte b4 /\ is_byte b5) by (inv_bytes; auto).
  destruct Hby as (B3 & B4 & B5). unfold is_byte in *.
  destruct (negb ((b0 + 256 * b1 + 65536 * b2) mod 2 =? 0)); [discriminate|].
  destruct (Z.eqb_spec (65536 * b3 + 256 * b4 + b5) 10289450) as [Es|]; cbn [negb]; [|discriminate].
  assert (b3 = 157 /\ b4 = 1 /\ b5 = 42) as (-> & -> & ->) by lia.
  change (negb (157 =? 157) || negb (1 =? 1) || negb (42 =? 42)) with false. cbv iota.
  remember (rd16 [b6; b7] mod 16384) as w' eqn:Hw'. remember (rd16 [b8; b9] mod 16384) as h' eqn:Hh'.
  destruct ((w' =? 0) || (h' =? 0)); [discriminate|]. intros Hq.
  assert (w' = w /\ h' = h) as [<- <-] by (split; congruence).
  subst w' h'. reflexivity.
Qed.

Lemma d_vp8l_dims bs w h a :
  parse_vp8l_header bs = Ok (w, h, a) -> D.parse_vp8l_dims bs = Ok (w, h, a).
Proof.
  unfold parse_vp8l_header, D.parse_vp8l_dims, VP8LFrameHeaderSize, VP8LMagicByte, D.VP8LMagicByte.
  change (@D.len Z) with (@len Z).
  destruct (Z.ltb_spec (len bs) 5) as [|Hl]; [discriminate|].
  destruct bs as [|b0 [|b1 [|b2 [|b3 [|b4 tl]]]]];
    try (exfalso; unfold len in Hl; cbn [length] in Hl; lia).
  unfold slice. cbn [length].
  match goal with |- context [5 <=? ?x] => destruct (Z.leb_spec 5 x); [|lia] end.
  change ((0 <=? 0) && (0 <=? 5) && true) with true. cbv iota.
  change (Z.to_nat (5 - 0)) with 5%nat. change (Z.to_nat 0) with 0%nat. cbn [skipn firstn bind].
  destruct (negb (b0 =? 47)); [discriminate|].
  unfold rd32. remember (b1 + 256 * b2 + 65536 * b3 + 16777216 * b4) as bits.
  destruct (negb ((bits / 536870912) mod 8 =? 0)); [discriminate|].
  destruct (_ || _); [discriminate|]. intros Hq. rewrite <- Hq. reflexivity.
Qed.

Lemma d_has_alpha_total bs : exists b, D.frame_data_has_alpha bs = Ok b.
Proof.
  unfold D.frame_data_has_alpha. change (@D.len Z) with (@len Z).
  destruct (Z.ltb_spec (len bs) 5) as [|Hl]; [eauto|].
  destruct bs as [|b0 [|b1 [|b2 [|b3 [|b4 tl]]]]];
    try (exfalso; unfold len in Hl; cbn [length] in Hl; lia).
  destruct (b0 =? D.VP8LMagicByte); eauto.
Qed.

(** ** Demuxer.parse on [RIFF header ++ body]: dispatch on the first chunk *)
Lemma d_parse_written rs body id d rest :
  rs = 4 + len body -> 0 <= rs < 4294967296 -> body = chunk id d ++ rest -> 0 <= id < 4294967296 ->
  D.parse true (le32 FourCCRIFF ++ le32 rs ++ le32 FourCCWEBP ++ body) =
  if id =? D.FCC_VP8X then D.parse_extended body
  else if id =? D.FCC_VP8 then D.parse_simple_vp8 body
  else if id =? D.FCC_VP8L then D.parse_simple_vp8l body
  else Err D.E_unknown.
Proof.
  intros Hrs Hr Hb Hid. destruct fourcc_ranges as (_ & _ & _ & _ & _ & _ & _ & HR & HW).
  unfold D.parse, D.u32at, D.RIFFHeaderSize, D.ChunkHeaderSize. change (@D.len Z) with (@len Z).
  set (file := le32 FourCCRIFF ++ le32 rs ++ le32 FourCCWEBP ++ body).
  assert (Hlen : len file = rs + 8) by (subst file; rewrite !len_app, !len_le32; lia).
  pose proof (len_nonneg body) as Hb0.
  destruct (Z.ltb_spec (len file) 12); [lia|].
  change (0 + 4) with 4. change (4 + 4) with 8. change (8 + 4) with 12.
  assert (S0 : slice file 0 4 = Ok (le32 FourCCRIFF)).
  { subst file. change 4 with (len (le32 FourCCRIFF)). apply slice_head. }
  assert (S4 : slice file 4 8 = Ok (le32 rs)).
  { subst file. change 4 with (len (le32 FourCCRIFF)) at 1.
    change 8 with (len (le32 FourCCRIFF) + len (le32 rs)). apply slice_mid. }
  assert (S8 : slice file 8 12 = Ok (le32 FourCCWEBP)).
  { subst file. rewrite (app_assoc (le32 FourCCRIFF)).
    change 8 with (len (le32 FourCCRIFF ++ le32 rs)) at 1.
    change 12 with (len (le32 FourCCRIFF ++ le32 rs) + len (le32 FourCCWEBP)). apply slice_mid. }
  rewrite S0. cbn [bind]. rewrite rd32_le32_id by exact HR.
  change (FourCCRIFF =? D.FCC_RIFF) with true. cbn [negb].
  rewrite S4. cbn [bind]. rewrite S8. cbn [bind]. rewrite !rd32_le32_id by assumption.
  change (FourCCWEBP =? D.FCC_WEBP) with true. cbn [negb].
  destruct (Z.gtb_spec (rs + 8) (len file)); [lia|].
  unfold D.maxint. destruct (Z.gtb_spec (rs + 8) (2 ^ 63 - 1)); [lia|].
  destruct (Z.ltb_spec (rs + 8) 12); [lia|]. cbn [andb].
  rewrite <- Hlen. subst file. rewrite body_of_written. cbn [bind].
  assert (8 <= len body) by (rewrite Hb; apply len_chunk_app_ge).
  destruct (Z.ltb_spec (len body) 8); [lia|].
  rewrite Hb at 1. rewrite first_fourcc_of_chunk. cbn [bind]. rewrite rd32_le32_id by exact Hid.
  reflexivity.
Qed.

(** ** The chunk loop of parseExtended after the frame exists: feature / frame / loop
    fields are not touched by metadata, image or unknown chunks *)
Definition not_anim_id (id : Z) : Prop := id <> D.FCC_ANIM /\ id <> D.FCC_ANMF.

Lemma d_ext_loop_tail : forall cs fuel tl d,
  bytes_ok tl -> walk fuel tl = Some cs -> (length tl < fuel)%nat ->
  Forall (fun c => not_anim_id (fst c) /\ len (snd c) <= 104857600) cs ->
  D.d_frames d <> [] ->
  exists d', D.ext_loop fuel tl d = Ok d' /\ D.d_feat d' = D.d_feat d /\ D.d_frames d' = D.d_frames d /\
             D.d_loop d' = D.d_loop d.
Proof.
  induction cs as [|[id dat] cs IH]; intros fuel tl d Hb Hw Hf Hall Hfr.
  - apply walk_nil_inv in Hw. subst tl. destruct fuel as [|fuel]; [cbn in Hf; lia|].
    cbn [D.ext_loop]. exists d. auto.
  - destruct (walk_cons_inv _ _ _ _ _ Hb Hw) as (rest & fuel' & Eb & Hw' & Hr & Hd & Hid & Hl).
    inversion Hall as [|? ? [[Hna1 Hna2] Hcap] Hall']; subst. cbn [fst snd] in *.
    destruct fuel as [|fuel]; [lia|]. cbn [D.ext_loop]. unfold D.ChunkHeaderSize. change (@D.len Z) with (@len Z).
    pose proof (len_chunk_app_ge id dat rest).
    destruct (Z.ltb_spec (len (chunk id dat ++ rest)) 8); [lia|].
    rewrite d_read_chunk by lia.
    assert (Hdisp : exists d2, D.ext_dispatch (D.add_chunk d (D.mkchunk id (len dat) dat)) (D.mkchunk id (len dat) dat)
                                              (chunk id dat ++ rest) = Ok d2 /\
                               D.d_feat d2 = D.d_feat d /\ D.d_frames d2 = D.d_frames d /\ D.d_loop d2 = D.d_loop d).
    { unfold D.ext_dispatch. cbn [D.c_id D.c_data]. unfold D.maxMetadataSize. change (@D.len Z) with (@len Z).
      destruct (id =? D.FCC_ICCP). { destruct (Z.gtb_spec (len dat) 104857600); [lia|]. eexists. split; [reflexivity|]. auto. }
      destruct (id =? D.FCC_EXIF). { destruct (Z.gtb_spec (len dat) 104857600); [lia|]. eexists. split; [reflexivity|]. auto. }
      destruct (id =? D.FCC_XMP). { destruct (Z.gtb_spec (len dat) 104857600); [lia|]. eexists. split; [reflexivity|]. auto. }
      destruct (Z.eqb_spec id D.FCC_ANIM); [contradiction|]. destruct (Z.eqb_spec id D.FCC_ANMF); [contradiction|].
      destruct ((id =? D.FCC_VP8) || (id =? D.FCC_VP8L) || (id =? D.FCC_ALPH)).
      - cbn [D.add_chunk D.d_feat D.d_frames].
        assert (Hz : (D.len (D.d_frames d) =? 0) = false).
        { destruct (D.d_frames d); [contradiction|]. unfold D.len. cbn [length]. lia. }
        rewrite Hz, andb_false_r. eexists. split; [reflexivity|]. auto.
      - eexists. split; [reflexivity|]. auto. }
    destruct Hdisp as (d2 & Ed & F1 & F2 & F3). rewrite Ed. cbn [bind].
    rewrite rest_after_chunk. cbn [bind].
    destruct (IH fuel rest d2 Hr) as (d' & Ed' & G1 & G2 & G3).
    + apply (walk_any_fuel fuel'); [exact Hw'|].
      pose proof (walk_count _ _ _ Hw'). rewrite app_length in Hf. pose proof (chunk_min_len id dat). unfold len in *. lia.
    + rewrite app_length in Hf. pose proof (chunk_min_len id dat). unfold len in *. lia.
    + exact Hall'.
    + rewrite F2. exact Hfr.
    + exists d'. split; [exact Ed'|]. split; [congruence|]. split; congruence.
Qed.

(** ** parseSingleExtendedFrame on [ALPH]? image ... *)
Lemma d_single_ext d id bs alph tl :
  (id = FourCCVP8 \/ id = FourCCVP8L) -> len bs <= 4294967286 ->
  (forall al, alph = Some al -> len al <= 4294967286) ->
  exists hasA,
    D.parse_single_ext d (optc FourCCALPH alph ++ chunk id bs ++ tl) =
    Ok (D.set_frames d [D.mkfi (Some bs) alph (D.ft_w (D.d_feat d)) (D.ft_h (D.d_feat d)) 0 0 0 true hasA 0 0]).
Proof.
  intros Hid Hbs Hal.
  assert (Hidr : 0 <= id < 4294967296) by (destruct Hid as [->| ->]; [unfold FourCCVP8|unfold FourCCVP8L]; lia).
  assert (Himg : D.is_image_id id = true) by (destruct Hid as [->| ->]; reflexivity).
  assert (Hnal : (id =? D.FCC_ALPH) = false) by (destruct Hid as [->| ->]; reflexivity).
  unfold D.parse_single_ext.
  destruct alph as [al|]; cbn [optc app].
  - specialize (Hal al eq_refl).
    cbn [D.single_loop]. unfold D.ChunkHeaderSize. change (@D.len Z) with (@len Z).
    pose proof (len_chunk_app_ge FourCCALPH al (chunk id bs ++ tl)).
    destruct (Z.ltb_spec (len (chunk FourCCALPH al ++ chunk id bs ++ tl)) 8); [lia|].
    rewrite d_read_chunk by (unfold FourCCALPH; lia || exact Hal). cbn [D.c_id D.c_data].
    change (FourCCALPH =? D.FCC_ALPH) with true. change (D.is_image_id FourCCALPH) with false. cbv iota.
    rewrite rest_after_chunk. cbn [bind].
    assert (Hfu : (0 < length (chunk FourCCALPH al ++ chunk id bs ++ tl))%nat).
    { rewrite app_length. pose proof (chunk_min_len FourCCALPH al). unfold len in *. lia. }
    destruct (length (chunk FourCCALPH al ++ chunk id bs ++ tl)) as [|f]; [lia|].
    cbn [D.single_loop]. unfold D.ChunkHeaderSize. change (@D.len Z) with (@len Z).
    pose proof (len_chunk_app_ge id bs tl).
    destruct (Z.ltb_spec (len (chunk id bs ++ tl)) 8); [lia|].
    rewrite d_read_chunk by assumption. cbn [D.c_id D.c_data]. rewrite Himg, Hnal. cbn [bind].
    unfold D.olen. change (@D.len Z) with (@len Z).
    destruct (Z.ltb_spec 0 (len al)).
    + cbn [bind]. eexists. reflexivity.
    + destruct (d_has_alpha_total bs) as [b ->]. cbn [bind]. eexists. reflexivity.
  - cbn [D.single_loop]. unfold D.ChunkHeaderSize. change (@D.len Z) with (@len Z).
    pose proof (len_chunk_app_ge id bs tl).
    destruct (Z.ltb_spec (len (chunk id bs ++ tl)) 8); [lia|].
    rewrite d_read_chunk by assumption. cbn [D.c_id D.c_data]. rewrite Himg, Hnal. cbn [bind].
    unfold D.olen. change (0 <? 0) with false. cbv iota.
    destruct (d_has_alpha_total bs) as [b ->]. cbn [bind]. eexists. reflexivity.
Qed.

(** ** parseExtended on the extended still shape *)
Lemma d_parse_extended_still flags w h icc alph id bs tl cst fuelT :
  0 <= flags < 64 -> (flags / 2) mod 2 = 0 -> 1 <= w <= 16384 -> 1 <= h <= 16384 ->
  (id = FourCCVP8 \/ id = FourCCVP8L) -> len bs <= 104857600 ->
  (forall x, icc = Some x -> len x <= 104857600) -> (forall x, alph = Some x -> len x <= 104857600) ->
  bytes_ok bs -> bytes_ok tl -> walk fuelT tl = Some cst ->
  Forall (fun c => not_anim_id (fst c) /\ len (snd c) <= 104857600) cst ->
  exists d hasA,
    D.parse_extended (chunk FourCCVP8X (vp8x_payload flags w h) ++ optc FourCCICCP icc ++
                      optc FourCCALPH alph ++ chunk id bs ++ tl) = Ok d /\
    D.ft_w (D.d_feat d) = w /\ D.ft_h (D.d_feat d) = h /\ D.ft_anim (D.d_feat d) = false /\
    D.d_frames d = [D.mkfi (Some bs) alph w h 0 0 0 true hasA 0 0] /\ D.d_loop d = 0.
Proof.
  intros Hfl Hanim Hw Hh Hid Hbs Hicc Halph Hbbs Hbtl Hwt Hall.
  destruct fourcc_ranges as (HX & HI & HA & _).
  assert (Hidr : 0 <= id < 4294967296) by (destruct Hid as [->| ->]; [unfold FourCCVP8|unfold FourCCVP8L]; lia).
  pose (ft := D.mkfeat w h (negb ((flags / 16) mod 2 =? 0)) false (negb ((flags / 32) mod 2 =? 0))
                       (negb ((flags / 8) mod 2 =? 0)) (negb ((flags / 4) mod 2 =? 0)) 3).
  pose (vx := D.mkchunk FourCCVP8X 10 (vp8x_payload flags w h)).
  (* the image part and the tail, from any state without frames *)
  assert (Himage : forall fuel dd, D.d_frames dd = [] -> D.d_feat dd = ft -> D.d_loop dd = 0 ->
            (length (optc FourCCALPH alph ++ chunk id bs ++ tl) < fuel)%nat ->
            exists d' hasA, D.ext_loop fuel (optc FourCCALPH alph ++ chunk id bs ++ tl) dd = Ok d' /\
               D.d_feat d' = ft /\ D.d_frames d' = [D.mkfi (Some bs) alph w h 0 0 0 true hasA 0 0] /\ D.d_loop d' = 0).
  { intros fuel dd Hfr Hft Hlp Hfu.
    assert (Hwimg : walk (S fuelT) (chunk id bs ++ tl) = Some ((id, bs) :: cst))
      by (apply walk_chunk_some; [exact Hidr|lia|exact Hwt]).
    assert (Hallimg : Forall (fun c => not_anim_id (fst c) /\ len (snd c) <= 104857600) ((id, bs) :: cst)).
    { constructor; [|exact Hall]. cbn [fst snd]. split; [|exact Hbs].
      destruct Hid as [->| ->]; split; discriminate. }
    destruct fuel as [|fuel]; [lia|].
    destruct alph as [al|]; cbn [optc app] in *.
    - pose proof (Halph al eq_refl) as Hal.
      cbn [D.ext_loop]. unfold D.ChunkHeaderSize. change (@D.len Z) with (@len Z).
      pose proof (len_chunk_app_ge FourCCALPH al (chunk id bs ++ tl)).
      destruct (Z.ltb_spec (len (chunk FourCCALPH al ++ chunk id bs ++ tl)) 8); [lia|].
      rewrite d_read_chunk by (exact HA || lia).
      unfold D.ext_dispatch. cbn [D.c_id D.c_data].
      change (FourCCALPH =? D.FCC_ICCP) with false. change (FourCCALPH =? D.FCC_EXIF) with false.
      change (FourCCALPH =? D.FCC_XMP) with false. change (FourCCALPH =? D.FCC_ANIM) with false.
      change (FourCCALPH =? D.FCC_ANMF) with false.
      change ((FourCCALPH =? D.FCC_VP8) || (FourCCALPH =? D.FCC_VP8L) || (FourCCALPH =? D.FCC_ALPH)) with true.
      cbv iota. cbn [D.add_chunk D.d_feat D.d_frames]. rewrite Hfr, Hft.
      change (negb (D.ft_anim ft) && (D.len (@nil D.frame_info) =? 0)) with true. cbv iota.
      destruct (d_single_ext (D.add_chunk dd (D.mkchunk FourCCALPH (len al) al)) id bs (Some al) tl Hid ltac:(lia)
                  ltac:(intros x [= <-]; lia)) as (hasA & Es).
      cbn [optc] in Es. rewrite Es. cbn [bind]. rewrite rest_after_chunk. cbn [bind].
      match goal with |- context [D.ext_loop fuel _ ?d2] =>
        destruct (d_ext_loop_tail ((id, bs) :: cst) fuel (chunk id bs ++ tl) d2) as (d' & Ed' & G1 & G2 & G3) end.
      + rewrite bytes_ok_app. split; [apply bytes_ok_chunk; exact Hbbs|exact Hbtl].
      + apply (walk_any_fuel (S fuelT)); [exact Hwimg|].
        pose proof (walk_count _ _ _ Hwimg). rewrite app_length in Hfu.
        pose proof (chunk_min_len FourCCALPH al). unfold len in *. lia.
      + rewrite app_length in Hfu. pose proof (chunk_min_len FourCCALPH al). unfold len in *. lia.
      + exact Hallimg.
      + cbn [D.set_frames D.d_frames]. discriminate.
      + exists d', hasA. split; [exact Ed'|]. cbn [D.set_frames D.add_chunk D.d_feat D.d_frames D.d_loop] in G1, G2, G3.
        rewrite Hft in G1, G2. cbn [D.ft_w D.ft_h ft] in G2. split; [exact G1|]. split; [exact G2|]. congruence.
    - cbn [D.ext_loop]. unfold D.ChunkHeaderSize. change (@D.len Z) with (@len Z).
      pose proof (len_chunk_app_ge id bs tl).
      destruct (Z.ltb_spec (len (chunk id bs ++ tl)) 8); [lia|].
      rewrite d_read_chunk by (exact Hidr || lia).
      unfold D.ext_dispatch. cbn [D.c_id D.c_data].
      assert (Hd5 : (id =? D.FCC_ICCP) = false /\ (id =? D.FCC_EXIF) = false /\ (id =? D.FCC_XMP) = false /\
                    (id =? D.FCC_ANIM) = false /\ (id =? D.FCC_ANMF) = false /\
                    ((id =? D.FCC_VP8) || (id =? D.FCC_VP8L) || (id =? D.FCC_ALPH)) = true)
        by (destruct Hid as [->| ->]; repeat split; reflexivity).
      destruct Hd5 as (-> & -> & -> & -> & -> & ->).
      cbn [D.add_chunk D.d_feat D.d_frames]. rewrite Hfr, Hft.
      change (negb (D.ft_anim ft) && (D.len (@nil D.frame_info) =? 0)) with true. cbv iota.
      destruct (d_single_ext (D.add_chunk dd (D.mkchunk id (len bs) bs)) id bs None tl Hid ltac:(lia)
                  ltac:(intros x [=])) as (hasA & Es).
      cbn [optc app] in Es. rewrite Es. cbn [bind]. rewrite rest_after_chunk. cbn [bind].
      match goal with |- context [D.ext_loop fuel _ ?d2] =>
        destruct (d_ext_loop_tail cst fuel tl d2) as (d' & Ed' & G1 & G2 & G3) end.
      + exact Hbtl.
      + apply (walk_any_fuel fuelT); [exact Hwt|].
        pose proof (walk_count _ _ _ Hwt). rewrite app_length in Hfu.
        pose proof (chunk_min_len id bs). unfold len in *. lia.
      + rewrite app_length in Hfu. pose proof (chunk_min_len id bs). unfold len in *. lia.
      + exact Hall.
      + cbn [D.set_frames D.d_frames]. discriminate.
      + exists d', hasA. split; [exact Ed'|]. cbn [D.set_frames D.add_chunk D.d_feat D.d_frames D.d_loop] in G1, G2, G3.
        rewrite Hft in G1, G2. cbn [D.ft_w D.ft_h ft] in G2. split; [exact G1|]. split; [exact G2|]. congruence. }
  (* optional ICCP first *)
  assert (Hloop : exists d' hasA,
     D.ext_loop (S (length (optc FourCCICCP icc ++ optc FourCCALPH alph ++ chunk id bs ++ tl)))
                (optc FourCCICCP icc ++ optc FourCCALPH alph ++ chunk id bs ++ tl)
                (D.mkd [vx] ft [] None None None 0 0) = Ok d' /\
     D.d_feat d' = ft /\ D.d_frames d' = [D.mkfi (Some bs) alph w h 0 0 0 true hasA 0 0] /\ D.d_loop d' = 0).
  { destruct icc as [ic|]; cbn [optc app].
    - pose proof (Hicc ic eq_refl) as Hic.
      cbn [D.ext_loop]. unfold D.ChunkHeaderSize. change (@D.len Z) with (@len Z).
      pose proof (len_chunk_app_ge FourCCICCP ic (optc FourCCALPH alph ++ chunk id bs ++ tl)).
      destruct (Z.ltb_spec (len (chunk FourCCICCP ic ++ optc FourCCALPH alph ++ chunk id bs ++ tl)) 8); [lia|].
      rewrite d_read_chunk by (exact HI || lia).
      unfold D.ext_dispatch. cbn [D.c_id D.c_data]. change (FourCCICCP =? D.FCC_ICCP) with true. cbv iota.
      unfold D.maxMetadataSize. change (@D.len Z) with (@len Z).
      destruct (Z.gtb_spec (len ic) 104857600); [lia|]. cbn [bind].
      rewrite rest_after_chunk. cbn [bind].
      apply Himage; try reflexivity.
      rewrite (app_length (chunk FourCCICCP ic)). pose proof (chunk_min_len FourCCICCP ic). unfold len in *. lia.
    - apply Himage; try reflexivity. lia. }
  destruct Hloop as (d' & hasA & Ed & G1 & G2 & G3).
  exists d', hasA. split; [|rewrite G1; cbn [D.ft_w D.ft_h D.ft_anim ft]; auto].
  unfold D.parse_extended.
  rewrite d_read_chunk by (exact HX || (change (len (vp8x_payload flags w h)) with 10; lia)).
  cbn [bind D.c_size D.c_data]. change (len (vp8x_payload flags w h)) with 10.
  unfold D.VP8XChunkSize. change (10 <? 10) with false. cbv iota.
  rewrite (vp8x_payload_explicit flags w h Hfl) at 1. cbv iota.
  rewrite d_rest. cbn [bind].
  assert (Hcw : (w - 1) mod 256 + 256 * (((w - 1) / 256) mod 256) + 65536 * (((w - 1) / 65536) mod 256) + 1 = w) by lia.
  assert (Hch : (h - 1) mod 256 + 256 * (((h - 1) / 256) mod 256) + 65536 * (((h - 1) / 65536) mod 256) + 1 = h) by lia.
  rewrite Hcw, Hch.
  (* tolerate the canvas-area cap of the demuxer (same as container.Parser.parseVP8X), if present *)
  try (match goal with |- context [w * h >=? D.MaxImageArea] =>
         destruct (Z.geb_spec (w * h) D.MaxImageArea) as [Hbad|_];
         [exfalso; unfold D.MaxImageArea in Hbad; nia|] end).
  assert (Han : negb ((flags / 2) mod 2 =? 0) = false) by (rewrite Hanim; reflexivity).
  rewrite Han. fold ft. fold vx. rewrite Ed. cbn [bind].
  rewrite G2. change (D.len [D.mkfi (Some bs) alph w h 0 0 0 true hasA 0 0] =? 0) with false. reflexivity.
Qed.

(** ** The parser model on the same shape *)
Lemma p_parse_extended_still fx flags w h icc alph id bs a (exif xmp : option (list Z)) tl :
  0 <= flags < 64 -> Z.land flags 4294967233 = 0 -> Z.testbit flags 1 = false ->
  Z.testbit flags 5 = is_some icc -> Z.testbit flags 3 = is_some exif -> Z.testbit flags 2 = is_some xmp ->
  Z.testbit flags 4 = (is_some alph || a) ->
  image_dims id bs = Some (w, h, a) -> (is_some alph = true -> id = FourCCVP8) ->
  len bs <= 104857600 -> (forall x, icc = Some x -> len x <= 104857600) ->
  (forall x, alph = Some x -> len x <= 104857600) ->
  let body := chunk FourCCVP8X (vp8x_payload flags w h) ++ optc FourCCICCP icc ++
              optc FourCCALPH alph ++ chunk id bs ++ tl in
  4 + len body <= 4294967286 ->
  exists r, parse_ex fx (le32 FourCCRIFF ++ le32 (4 + len body) ++ le32 FourCCWEBP ++ body) = Ok (r, KStill) /\
            pFrames r = [frame_of id bs alph w h a] /\
            fWidth (pFeat r) = w /\ fHeight (pFeat r) = h /\ fCanvasW (pFeat r) = w /\ fCanvasH (pFeat r) = h /\
            fHasAnim (pFeat r) = false /\ fLoopCount (pFeat r) = 1.
Proof.
  intros Hf64 Hland Hbit1 F5 F3 F2 F4 Hd Halph Hsbs Hsicc Hsalph body Hrs.
  pose proof (image_dims_fourcc _ _ _ _ _ Hd) as Hf.
  destruct (header_declares_range _ _ _ _ _ Hf Hd) as [Hwr Hhr].
  destruct fourcc_ranges as (HX & _).
  set (tailI := optc FourCCICCP icc ++ optc FourCCALPH alph ++ chunk id bs ++ tl) in *.
  assert (Hparse : parse_ex fx (le32 FourCCRIFF ++ le32 (4 + len body) ++ le32 FourCCWEBP ++ body) =
                   parse_vp8x_chunks (S (length tailI)) fx
                     (mkFeatures w h (is_some alph || a) false (is_some icc) (is_some exif) (is_some xmp)
                                 FormatVP8X 1 4294967295 w h) [] [] 0 tailI).
  { rewrite (parse_ex_written fx _ _ FourCCVP8X (vp8x_payload flags w h) tailI);
      [|reflexivity|unfold MaxChunkPayload; subst body; rewrite len_app in *;
                    pose proof (chunk_min_len FourCCVP8X (vp8x_payload flags w h)); pose proof (len_nonneg tailI); lia
       |reflexivity|exact HX].
    change (FourCCVP8X =? FourCCVP8X) with true. cbv iota. subst body.
    rewrite parse_vp8x_written by assumption. rewrite F5, F3, F2, F4, Hbit1. reflexivity. }
  rewrite Hparse. subst tailI. unfold MaxChunkPayload, MaxMetadataSize in *.
  assert (Hal' : forall d, alph = Some d -> len d <= 4294967286) by (intros d E; specialize (Hsalph d E); lia).
  exists (mkParsed (set_dims (if is_some alph || a
                              then set_alpha (mkFeatures w h (is_some alph || a) false (is_some icc) (is_some exif)
                                                         (is_some xmp) FormatVP8X 1 4294967295 w h)
                              else mkFeatures w h (is_some alph || a) false (is_some icc) (is_some exif)
                                              (is_some xmp) FormatVP8X 1 4294967295 w h) w h)
                   [frame_of id bs alph w h a] (match icc with Some d => [mkChunk FourCCICCP d] | None => [] end)).
  split.
  { destruct icc as [d|]; cbn [optc is_some app].
    - pose proof (Hsicc d eq_refl).
      match goal with |- context [S (length ?l)] =>
        assert (Hrest : (1 < length l)%nat)
          by (rewrite app_length; pose proof (chunk_min_len FourCCICCP d); unfold len in *; lia);
        destruct (length l) as [|[|fu]]; [lia|lia|] end.
      rewrite chunks_step_iccp by (reflexivity || (unfold MaxMetadataSize; lia)). cbn [app].
      rewrite (chunks_image_part_opt _ fx _ _ id bs alph w h a)
        by (assumption || reflexivity || (unfold MaxChunkPayload; lia)).
      reflexivity.
    - rewrite (chunks_image_part_opt _ fx _ _ id bs alph w h a)
        by (assumption || reflexivity || (unfold MaxChunkPayload; lia)).
      reflexivity. }
  cbn [pFrames pFeat]. split; [reflexivity|].
  destruct (is_some alph || a); cbn; repeat split; reflexivity.
Qed.

(** ** views_agree for stills *)
Definition frame_agrees (f : FrameInfo) (fi : D.frame_info) : Prop :=
  D.fi_data fi = Some (frPayload f) /\ D.fi_alpha fi = frAlpha f /\
  D.fi_w fi = frW f /\ D.fi_h fi = frH f /\ D.fi_ox fi = frX f /\ D.fi_oy fi = frY f /\
  D.fi_dur fi = frDur f /\ D.fi_blend fi = (if frBlendNone f then 1 else 0) /\
  D.fi_dispose fi = (if frDisposeBG f then 1 else 0).

Definition views_agree_still_statement : Prop :=
  forall fx bs,
    RiffGrammar.wf bs = true -> g_is_anim bs = false -> len bs <= MaxMetadataSize ->
    exists r d,
      parse fx bs = Ok r /\ D.parse true bs = Ok d /\
      Forall2 frame_agrees (pFrames r) (D.d_frames d) /\ length (pFrames r) = 1%nat /\
      fCanvasW (pFeat r) = D.ft_w (D.d_feat d) /\ fCanvasH (pFeat r) = D.ft_h (D.d_feat d) /\
      fWidth (pFeat r) = D.ft_w (D.d_feat d) /\ fHeight (pFeat r) = D.ft_h (D.d_feat d) /\
      fHasAnim (pFeat r) = false /\ D.ft_anim (D.d_feat d) = false /\
      (* loop count: not part of the agreement for stills (parser 1 or 0, demuxer 0) *)
      D.d_loop d = 0 /\ (fLoopCount (pFeat r) = 1 \/ fLoopCount (pFeat r) = 0).

Theorem views_agree_still : views_agree_still_statement.
Proof.
  intros fx file Hg Hna Hlen.
  destruct (grammar_still_riff_wf _ Hg Hna) as [Hwf Hb].
  unfold riff_wf in Hwf. apply andb_true_iff in Hwf. destruct Hwf as [_ Hwf].
  destruct (riff_chunks file) as [cs|] eqn:Erc; [|discriminate].
  destruct (riff_chunks_inv _ _ Hb Erc) as (body & Hfile & Hwalk & Hbody & Hrs).
  assert (Hlb : len file = 12 + len body) by (rewrite Hfile, !len_app, !len_le32; lia).
  unfold MaxMetadataSize in Hlen. pose proof (len_nonneg body) as Hb0.
  destruct (still_layout_inv _ Hwf) as
    [(id & bs & -> & Hdims)|
     (flags & w0 & w1 & w2 & h0 & h1 & h2 & icc & alph & id & bs & exif & xmp & w & h & a &
      -> & Hd & Hl & F5 & F3 & F2 & F4 & Halph & Hw & Hh)].
  - (* simple layout *)
    destruct (walk_cons_inv _ _ _ _ _ Hbody Hwalk) as (rest & fuel' & Eb & Hw' & _ & Hbs & Hid & Hlbs).
    apply walk_nil_inv in Hw'. subst rest.
    destruct (image_dims id bs) as [[[w h] a]|] eqn:Ed; [|discriminate].
    pose proof (image_dims_fourcc _ _ _ _ _ Ed) as Hf.
    assert (Hsmall : len bs <= 104857600).
    { rewrite Eb, len_app, len_chunk in Hlb. unfold padded_chunk_size, ChunkHeaderSize in Hlb.
      pose proof (len_nonneg bs). change (len (@nil Z)) with 0 in Hlb. lia. }
    assert (Hsimple : file = simple_file id bs).
    { rewrite Hfile, Eb, app_nil_r. reflexivity. }
    pose proof (parse_written_simple fx id bs w h a Hf ltac:(lia) Ed) as Hp.
    assert (Hdm : exists d, D.parse true file = Ok d /\ D.d_feat d = D.mkfeat w h a false false false false (if id =? FourCCVP8L then 2 else 1) /\
                            D.d_frames d = [D.mkfi (Some bs) None w h 0 0 0 true a 0 0] /\ D.d_loop d = 0).
    { rewrite Hfile. rewrite (d_parse_written (4 + len body) body id bs [] eq_refl ltac:(lia) Eb Hid). rewrite Eb.
      unfold image_dims in Ed.
      destruct Hf as [->| ->].
      - change (FourCCVP8 =? D.FCC_VP8X) with false. change (FourCCVP8 =? D.FCC_VP8) with true. cbv iota.
        change (FourCCVP8 =? FourCCVP8L) with false in *. change (FourCCVP8 =? FourCCVP8) with true in Ed.
        destruct (parse_vp8_header bs) as [[w' h']|e|] eqn:Eh; try discriminate. injection Ed as -> -> <-.
        unfold D.parse_simple_vp8. rewrite d_read_chunk by (unfold FourCCVP8; lia). cbn [bind D.c_data].
        rewrite (d_vp8_dims _ _ _ Hbs Eh). cbn [bind]. eexists. split; [reflexivity|]. cbn. auto.
      - change (FourCCVP8L =? D.FCC_VP8X) with false. change (FourCCVP8L =? D.FCC_VP8) with false.
        change (FourCCVP8L =? D.FCC_VP8L) with true. cbv iota.
        change (FourCCVP8L =? FourCCVP8L) with true in *.
        destruct (parse_vp8l_header bs) as [[[w' h'] a']|e|] eqn:Eh; try discriminate. injection Ed as -> -> ->.
        unfold D.parse_simple_vp8l. rewrite d_read_chunk by (unfold FourCCVP8L; lia). cbn [bind D.c_data].
        rewrite (d_vp8l_dims _ _ _ _ Eh). cbn [bind]. eexists. split; [reflexivity|]. cbn. auto. }
    destruct Hdm as (d & Ed' & Dft & Dfr & Dlp).
    exists (mkParsed (simple_features id w h a) [expected_frame id bs [] w h a] []), d.
    split; [unfold parse; rewrite Hsimple, Hp; reflexivity|]. split; [exact Ed'|].
    rewrite Dfr, Dft. cbn [pFrames pFeat simple_features fCanvasW fCanvasH fWidth fHeight fHasAnim fLoopCount
                           D.ft_w D.ft_h D.ft_anim].
    split.
    { constructor; [|constructor]. unfold frame_agrees, expected_frame, opt_blob.
      change (len (@nil Z) >? 0) with false. destruct (id =? FourCCVP8L); cbn; repeat split; reflexivity. }
    repeat split; auto.
  - (* extended layout *)
    pose proof (image_dims_fourcc _ _ _ _ _ Hd) as Hf.
    destruct (header_declares_range _ _ _ _ _ Hf Hd) as [Hwr Hhr].
    destruct (walk_cons_inv _ _ _ _ _ Hbody Hwalk) as (rest1 & fu1 & Eb1 & Hw1 & Hr1 & Hpl & _ & _).
    destruct (walk_optl_inv _ _ _ _ _ Hr1 Hw1) as (rest2 & fu2 & Eb2 & Hw2 & Hr2 & Hicc).
    destruct (walk_optl_inv _ _ _ _ _ Hr2 Hw2) as (rest3 & fu3 & Eb3 & Hw3 & Hr3 & Halp).
    destruct (walk_cons_inv _ _ _ _ _ Hr3 Hw3) as (rest4 & fu4 & Eb4 & Hw4 & Hr4 & Hbsb & _ & _).
    subst rest3 rest2 rest1.
    assert (Hfb : is_byte flags /\ is_byte w0 /\ is_byte w1 /\ is_byte w2 /\ is_byte h0 /\ is_byte h1 /\ is_byte h2).
    { unfold bytes_ok in Hpl.
      repeat match goal with Hf : Forall is_byte (_ :: _) |- _ => inversion Hf; subst; clear Hf end. auto 10. }
    destruct Hfb as (Bf & B0 & B1 & B2 & B3 & B4 & B5).
    destruct (flags_byte_facts flags Bf Hl) as (Hf64 & Hland & Hbit1).
    assert (Hpay : [flags; 0; 0; 0; w0; w1; w2; h0; h1; h2] = vp8x_payload flags w h).
    { unfold vp8x_payload. replace (w - 1) with (rd24 [w0; w1; w2]) by lia.
      replace (h - 1) with (rd24 [h0; h1; h2]) by lia.
      rewrite (le24_rd24 w0 w1 w2 B0 B1 B2), (le24_rd24 h0 h1 h2 B3 B4 B5).
      assert (Hle : le32 flags = [flags; 0; 0; 0]).
      { unfold le32. replace (flags mod 256) with flags by lia. replace ((flags / 256) mod 256) with 0 by lia.
        replace ((flags / 65536) mod 256) with 0 by lia. replace ((flags / 16777216) mod 256) with 0 by lia.
        reflexivity. }
      rewrite Hle. reflexivity. }
    rewrite Hpay in Eb1.
    assert (Hsizes : len bs <= 104857600 /\ (forall x, icc = Some x -> len x <= 104857600) /\
                     (forall x, alph = Some x -> len x <= 104857600) /\ len rest4 <= 104857600).
    { rewrite Eb1 in Hlb. rewrite !len_app, !len_chunk in Hlb.
      pose proof (len_nonneg rest4). pose proof (len_nonneg bs).
      unfold padded_chunk_size, ChunkHeaderSize in Hlb.
      assert (0 <= len (optc FourCCICCP icc)) by apply len_nonneg.
      assert (0 <= len (optc FourCCALPH alph)) by apply len_nonneg.
      change (len (vp8x_payload flags w h)) with 10 in Hlb.
      split; [lia|]. split; [|split; [|lia]].
      - intros x ->. cbn [optc] in *. rewrite len_chunk in *.
        unfold padded_chunk_size, ChunkHeaderSize in *. pose proof (len_nonneg x). lia.
      - intros x ->. cbn [optc] in *. rewrite len_chunk in *.
        unfold padded_chunk_size, ChunkHeaderSize in *. pose proof (len_nonneg x). lia. }
    destruct Hsizes as (Hsbs & Hsicc & Hsalph & Hsr4).
    (* the tail: EXIF / XMP chunks, within the cap *)
    assert (Htail : Forall (fun c => not_anim_id (fst c) /\ len (snd c) <= 104857600)
                           (optl FourCCEXIF exif ++ optl FourCCXMP xmp)).
    { pose proof (walk_count _ _ _ Hw4) as Hc.
      assert (Hbound : forall c, In c (optl FourCCEXIF exif ++ optl FourCCXMP xmp) -> len (snd c) <= len rest4).
      { clear -Hw4 Hr4. revert fu4 rest4 Hw4 Hr4.
        induction (optl FourCCEXIF exif ++ optl FourCCXMP xmp) as [|[i dd] l IH]; intros fu4 rest4 Hw4 Hr4 c Hin;
          [contradiction|].
        destruct (walk_cons_inv _ _ _ _ _ Hr4 Hw4) as (r' & f' & E & Hw' & Hr' & _).
        rewrite E, len_app, len_chunk. unfold padded_chunk_size, ChunkHeaderSize.
        pose proof (len_nonneg r'). destruct Hin as [<-|Hin].
        - cbn [snd]. pose proof (len_nonneg dd). lia.
        - specialize (IH _ _ Hw' Hr' c Hin). pose proof (len_nonneg dd). lia. }
      rewrite Forall_forall. intros c Hin. split.
      - apply in_app_or in Hin. destruct Hin as [Hin|Hin].
        + destruct exif; [|contradiction]. destruct Hin as [<-|[]]. cbn. split; discriminate.
        + destruct xmp; [|contradiction]. destruct Hin as [<-|[]]. cbn. split; discriminate.
      - specialize (Hbound c Hin). lia. }
    assert (Hanim0 : (flags / 2) mod 2 = 0).
    { destruct (flag_bits_bridge flags Bf) as (_ & _ & _ & _ & G1 & _). rewrite Hbit1 in G1.
      symmetry in G1. apply negb_false_iff in G1. apply Z.eqb_eq in G1. exact G1. }
    destruct (d_parse_extended_still flags w h icc alph id bs rest4 _ fu4 Hf64 Hanim0 Hwr Hhr
                ltac:(destruct Hf; auto) Hsbs Hsicc Hsalph Hbsb Hr4 Hw4 Htail) as (d & hasA & Edm & Dw & Dh & Dan & Dfr & Dlp).
    destruct (p_parse_extended_still fx flags w h icc alph id bs a exif xmp rest4 Hf64 Hland Hbit1 F5 F3 F2 F4 Hd Halph
                Hsbs Hsicc Hsalph) as (r & Epm & Pfr & Pw & Ph & Pcw & Pch & Pan & Plp).
    { rewrite <- Eb1. lia. }
    exists r, d. rewrite <- Eb1 in Epm, Edm.
    split; [unfold parse; rewrite Hfile, Epm; reflexivity|].
    split.
    { rewrite Hfile. rewrite (d_parse_written (4 + len body) body FourCCVP8X (vp8x_payload flags w h) _ eq_refl ltac:(lia) Eb1
                                ltac:(unfold FourCCVP8X; lia)).
      exact Edm. }
    rewrite Pfr, Dfr, Pw, Ph, Pcw, Pch, Pan, Dw, Dh, Dan, Dlp, Plp.
    split.
    { constructor; [|constructor]. unfold frame_agrees, frame_of.
      destruct (Z.eqb_spec id FourCCVP8L) as [->|]; cbn; repeat split; try reflexivity.
      destruct alph; [specialize (Halph eq_refl); discriminate|reflexivity]. }
    repeat split; auto.
Qed.
