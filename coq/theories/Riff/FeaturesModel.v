(** Implementation model of the glue in webp.go: DecodeConfig (colour-model
    prediction), GetFeatures, decodeBytes / decodeFrame / decodeLossy (which image
    type Decode returns), and the magic string given to image.RegisterFormat.

    The pixel codecs are parameters: [lossy_dec] stands for lossy.DecodeFrame,
    [lossless_dec] for lossless.DecodeVP8L, [alpha_dec] for lossy.DecodeAlpha; each
    returns an error or the decoded dimensions plus an abstract pixel value of
    type [Pix].  Theorems quantify over all such functions.

    [fix_alpha = false] is the pinned DecodeConfig ([frames[0].AlphaData == nil]);
    [true] is the repaired one ([len(frames[0].AlphaData) == 0], the test decodeLossy
    uses). *)
From Coq Require Import List ZArith Lia Bool.
From Webp Require Import Base.Res Base.Bytes Riff.ParserModel.
Import ListNotations.
Open Scope Z_scope.

Definition ENoFrames : nat := 20.

Inductive CModel := CM_NRGBA | CM_YCbCr.

Record Config := mkConfig { cModel : CModel; cW : Z; cH : Z }.

Record GFeatures := mkG {
  gW : Z; gH : Z; gHasAlpha : bool; gHasAnim : bool;
  gFormat : Z;   (* 1 "lossy", 2 "lossless", 3 "extended", 0 "unknown" *)
  gLoop : Z; gFrames : Z }.

Section Glue.
  Context {Pix : Type}.
  Variable lossy_dec : list Z -> Res (Z * Z * Pix).
  Variable lossless_dec : list Z -> Res (Z * Z * Pix).
  Variable alpha_dec : list Z -> Z -> Z -> Res Pix.

  (** What Decode returns: bounds, concrete image type, pixel planes. *)
  Record Img := mkImg { iW : Z; iH : Z; iModel : CModel; iPix : Pix; iAlpha : option Pix }.

  Definition alpha_len (a : option (list Z)) : Z :=
    match a with Some l => len l | None => 0 end.

  Definition decode_lossy (data : list Z) (alpha : option (list Z)) : Res Img :=
    '(w, h, px) <- lossy_dec data ;;
    if alpha_len alpha >? 0 then
      a <- alpha_dec (match alpha with Some l => l | None => [] end) w h ;;
      Ok (mkImg w h CM_NRGBA px (Some a))
    else Ok (mkImg w h CM_YCbCr px None).

  Definition decode_frame (f : FrameInfo) : Res Img :=
    if frLossless f then
      '(w, h, px) <- lossless_dec (frPayload f) ;; Ok (mkImg w h CM_NRGBA px None)
    else decode_lossy (frPayload f) (frAlpha f).

  Definition decode_bytes (fix_noimage : bool) (data : list Z) : Res Img :=
    p <- parse fix_noimage data ;;
    match pFrames p with
    | [] => Err ENoFrames
    | f :: _ => decode_frame f
    end.
End Glue.

Definition alpha_absent (fix_alpha : bool) (a : option (list Z)) : bool :=
  if fix_alpha then (match a with Some l => len l =? 0 | None => true end)
  else (match a with Some _ => false | None => true end).

Definition config_of (fix_alpha : bool) (p : Parsed) : Config :=
  let cm :=
    match pFrames p with
    | f :: _ => if negb (frLossless f) && alpha_absent fix_alpha (frAlpha f) then CM_YCbCr else CM_NRGBA
    | [] => if negb (fHasAlpha (pFeat p)) then CM_YCbCr else CM_NRGBA
    end in
  mkConfig cm (fWidth (pFeat p)) (fHeight (pFeat p)).

Definition decode_config (fix_alpha fix_noimage : bool) (data : list Z) : Res Config :=
  p <- parse fix_noimage data ;; Ok (config_of fix_alpha p).

Definition features_of (p : Parsed) : GFeatures :=
  let f := pFeat p in
  mkG (fWidth f) (fHeight f) (fHasAlpha f) (fHasAnim f)
      (if fFormat f =? FormatVP8 then 1 else if fFormat f =? FormatVP8L then 2
       else if fFormat f =? FormatVP8X then 3 else 0)
      (fLoopCount f) (len (pFrames p)).

Definition get_features (fix_noimage : bool) (data : list Z) : Res GFeatures :=
  p <- parse fix_noimage data ;; Ok (features_of p).

(** image.RegisterFormat("webp", "RIFF????WEBP", ...): image.sniff peeks
    len(magic) bytes (no match when fewer are available) and image.match compares
    bytewise with '?' (63) as wildcard. *)
Definition webp_magic : list Z := [82; 73; 70; 70; 63; 63; 63; 63; 87; 69; 66; 80].

Fixpoint match_magic (magic b : list Z) : bool :=
  match magic, b with
  | [], [] => true
  | m :: ms, c :: cs => ((m =? c) || (m =? 63)) && match_magic ms cs
  | _, _ => false
  end.

Definition sniff (data : list Z) : bool :=
  if len data <? len webp_magic then false
  else match_magic webp_magic (firstn (length webp_magic) data).

(** The pinned tree's header queries (before commits 86109c7 / f5aa050), kept only
    as the subject of the [_refuted] theorems. *)
Definition pinned_decode_config : list Z -> Res Config := decode_config false false.
Definition pinned_get_features : list Z -> Res GFeatures := get_features false.
