(** C14: the files the current muxer writes in the extended (VP8X) layouts are
    well formed according to the independent container grammar [RiffGrammar.wf]. *)
From Coq Require Import List ZArith Lia Bool ZifyBool ZifyNat.
From Webp Require Import Base.Res Base.Bytes Riff.RiffGrammar Riff.DemuxModel Riff.DemuxTotal
  Riff.MuxModel Riff.MuxView Riff.MuxProofs Riff.MuxRoundtrip.
Import ListNotations.
Open Scope Z_scope.
Ltac Zify.zify_post_hook ::= Z.div_mod_to_equations.

(** a chunk as the grammar sees it, written out *)
Definition genc (c : gchunk) : list Z := fst c ++ le32 (len (snd c)) ++ snd c ++ pad_of (len (snd c)).

Definition tag4 (t : list Z) : Prop := exists t0 t1 t2 t3, t = [t0; t1; t2; t3].
Definition gchunk_ok (c : gchunk) : Prop := tag4 (fst c) /\ len (snd c) < 2147483648.

Lemma chunks_nil f : chunks f [] = Some [].
Proof. destruct f; reflexivity. Qed.

Lemma chunks_cons f c rest : gchunk_ok c ->
  chunks (S f) (genc c ++ rest) =
    match chunks f rest with Some cs => Some (c :: cs) | None => None end.
Proof.
  intros [(t0 & t1 & t2 & t3 & Ht) Hl]. destruct c as [t p]. cbn [fst snd] in *. subst t.
  pose proof (len_nonneg p) as H0. unfold genc. cbn [fst snd].
  cbn [app chunks le32].
  assert (Hrd : rd32 [len p mod 256; (len p / 256) mod 256; (len p / 65536) mod 256; (len p / 16777216) mod 256] = len p).
  { unfold rd32. lia. }
  rewrite Hrd. rewrite <- !app_assoc.
  fold (glen (p ++ pad_of (len p) ++ rest)). unfold glen. fold (len (p ++ pad_of (len p) ++ rest)).
  rewrite !len_app, len_pad_of. pose proof (len_nonneg rest).
  destruct (Z.ltb_spec (len p + (len p mod 2 + len rest)) (len p)); [lia|].
  rewrite firstn_len, skipn_len. unfold pad_of.
  destruct (Z.eqb_spec (len p mod 2) 0); cbn [negb app].
  - reflexivity.
  - rewrite Z.eqb_refl. reflexivity.
Qed.

Lemma chunks_more_fuel f : forall bs cs f', chunks f bs = Some cs -> (f <= f')%nat -> chunks f' bs = Some cs.
Proof.
  induction f as [|f IH]; intros bs cs f' H Hf.
  - destruct bs; cbn in H; [|discriminate]. injection H as <-. apply chunks_nil.
  - destruct f' as [|f']; [lia|].
    destruct bs as [|a bs]; [cbn in *; exact H|].
    cbn [chunks] in *.
    destruct bs as [|b [|c [|d [|s0 [|s1 [|s2 [|s3 body]]]]]]]; try discriminate.
    destruct (glen body <? rd32 [s0; s1; s2; s3]); [discriminate|].
    destruct (rd32 [s0; s1; s2; s3] mod 2 =? 0).
    + destruct (chunks f (skipn (Z.to_nat (rd32 [s0; s1; s2; s3])) body)) as [cs'|] eqn:E; [|discriminate].
      rewrite (IH _ _ f' E) by lia. exact H.
    + destruct (skipn (Z.to_nat (rd32 [s0; s1; s2; s3])) body) as [|pad after]; [discriminate|].
      destruct (pad =? 0); [|discriminate].
      destruct (chunks f after) as [cs'|] eqn:E; [|discriminate].
      rewrite (IH _ _ f' E) by lia. exact H.
Qed.

Lemma chunks_list cs : Forall gchunk_ok cs -> chunks (S (length cs)) (flat_map genc cs) = Some cs.
Proof.
  induction 1 as [|c cs Hc _ IH]; [reflexivity|].
  cbn [flat_map length]. rewrite chunks_cons by exact Hc. rewrite IH. reflexivity.
Qed.

Lemma genc_len c : gchunk_ok c -> 8 <= len (genc c).
Proof.
  intros [(t0 & t1 & t2 & t3 & Ht) _]. destruct c as [t p]. cbn [fst snd] in *. subst t.
  unfold genc. cbn [fst snd]. rewrite !len_app, len_le32. change (len [t0; t1; t2; t3]) with 4.
  pose proof (len_nonneg p). pose proof (len_nonneg (pad_of (len p))). lia.
Qed.

Lemma flat_map_genc_len cs : Forall gchunk_ok cs -> 8 * Z.of_nat (length cs) <= len (flat_map genc cs).
Proof.
  induction 1 as [|c cs Hc _ IH]; [cbn; unfold len; cbn; lia|].
  cbn [flat_map length]. rewrite len_app. pose proof (genc_len c Hc). lia.
Qed.

(** the tiling the grammar computes for a written chunk sequence (fuel = its length) *)
Lemma chunks_written cs : Forall gchunk_ok cs ->
  chunks (length (flat_map genc cs)) (flat_map genc cs) = Some cs.
Proof.
  intros H. destruct cs as [|c cs']; [reflexivity|].
  apply (chunks_more_fuel (S (length (c :: cs')))); [apply chunks_list; exact H|].
  pose proof (flat_map_genc_len (c :: cs') H). unfold len in *. cbn [length] in *. lia.
Qed.

Lemma enc_genc id p : len p < 2147483648 -> enc id p = genc (le32 id, p).
Proof. intros H. unfold enc, genc. cbn [fst snd]. apply write_data_chunk_eq. lia. Qed.

Lemma tag4_le32 id : tag4 (le32 id).
Proof. unfold tag4, le32. eauto. Qed.

(** ---- one picture ---- *)
Definition img_list (a : option (list Z)) (b : list Z) : list gchunk :=
  (match a with Some x => [(T_ALPH, x)] | None => [] end) ++ [(le32 (detect_type b), b)].

Lemma img_chunks_genc a b : olen a + len b < 1073741824 ->
  img_chunks a b = flat_map genc (img_list a b) /\ Forall gchunk_ok (img_list a b).
Proof.
  intros Hl. pose proof (len_nonneg b). assert (0 <= olen a) by (destruct a; cbn; [apply len_nonneg|lia]).
  unfold img_chunks, img_list. destruct a as [x|]; cbn [olen app flat_map] in *.
  - pose proof (len_nonneg x). rewrite app_nil_r, !enc_genc by lia. split; [reflexivity|].
    constructor; [|constructor; [|constructor]]; split; cbn [fst snd]; try lia;
      [exists 65, 76, 80, 72; reflexivity|apply tag4_le32].
  - rewrite app_nil_r, enc_genc by lia. split; [reflexivity|].
    constructor; [|constructor]. split; cbn [fst snd]; [apply tag4_le32|lia].
Qed.

Definition alpha_of (a : option (list Z)) (isl abit : bool) : bool := is_some a || (isl && abit).

Lemma image_data_written a b w h isl abit rest :
  bfacts b w h isl abit -> (a <> None -> isl = false) ->
  image_data (img_list a b ++ rest) = Some (w, h, alpha_of a isl abit, rest).
Proof.
  intros Hbf Hla. pose proof (bf_type _ _ _ _ _ Hbf) as Ht. pose proof (bf_hdr _ _ _ _ _ Hbf) as Hh.
  unfold img_list, alpha_of. destruct a as [x|].
  - rewrite (Hla ltac:(discriminate)) in *. rewrite Ht. destruct Hh as (Hv & _ & _).
    cbn [app image_data]. change (bytes_eqb T_ALPH T_VP8L) with false. change (bytes_eqb T_ALPH T_VP8) with false.
    change (bytes_eqb T_ALPH T_ALPH) with true. cbv iota.
    change (bytes_eqb (le32 FCC_VP8) T_VP8) with true. cbv iota. rewrite Hv. reflexivity.
  - cbn [app image_data is_some orb]. rewrite Ht. destruct isl.
    + destruct Hh as (Hv & _). change (bytes_eqb (le32 FCC_VP8L) T_VP8L) with true. cbv iota. rewrite Hv. reflexivity.
    + destruct Hh as (Hv & _ & ->). change (bytes_eqb (le32 FCC_VP8) T_VP8L) with false.
      change (bytes_eqb (le32 FCC_VP8) T_VP8) with true. cbv iota. rewrite Hv. reflexivity.
Qed.

Lemma rd24_bytes v : 0 <= v < 16777216 -> rd24 [v mod 256; (v / 256) mod 256; (v / 65536) mod 256] = v.
Proof. intros. unfold rd24. lia. Qed.

(** one ANMF payload is accepted by the grammar inside a canvas that contains the frame *)
Lemma anmf_ok_written fo a b w h isl abit cw ch :
  bfacts b w h isl abit -> (a <> None -> isl = false) -> olen a + len b < 1073741824 ->
  0 <= o_ox fo < 33554432 -> 0 <= o_oy fo < 33554432 -> 0 <= o_dur fo <= maxDuration ->
  o_ox fo + w <= cw -> o_oy fo + h <= ch ->
  anmf_ok cw ch (anmf_hdr fo w h ++ img_chunks a b) = Some (alpha_of a isl abit).
Proof.
  intros Hbf Hla Hl Hox Hoy Hdur Hfx Hfy.
  pose proof (bf_w _ _ _ _ _ Hbf) as Hw. pose proof (bf_h _ _ _ _ _ Hbf) as Hh.
  destruct (img_chunks_genc a b Hl) as [Eimg Hok].
  unfold anmf_ok, anmf_hdr, le24. cbn [app].
  rewrite (Z.quot_div_nonneg (o_ox fo) 2) by lia. rewrite (Z.quot_div_nonneg (o_oy fo) 2) by lia.
  rewrite !rd24_bytes by lia.
  assert (Hfl : (anmf_flag fo / 4 =? 0) = true).
  { unfold anmf_flag. destruct (o_dispose fo =? 1), (o_blend fo =? 1); reflexivity. }
  rewrite Hfl. cbn [negb].
  rewrite Eimg, (chunks_written _ Hok).
  rewrite <- (app_nil_r (img_list a b)), (image_data_written a b w h isl abit [] Hbf Hla).
  replace (w =? 1 + (w - 1)) with true by lia. replace (h =? 1 + (h - 1)) with true by lia.
  replace (2 * (o_ox fo / 2) + (1 + (w - 1)) <=? cw) with true by lia.
  replace (2 * (o_oy fo / 2) + (1 + (h - 1)) <=? ch) with true by lia.
  reflexivity.
Qed.

(** ---- the alpha flag: hasAlpha's per-frame test says what the grammar derives ---- *)
Definition hap (data : list Z) : bool :=
  ((len data >=? 12) && (rd32 (firstn 4 data) =? FCC_ALPH))
  || ((len data >=? 5) &&
      match data with
      | b0 :: _ => (b0 =? VP8LMagicByte) &&
                   match parse_vp8l_dims data with Ok (_, _, a) => a | _ => false end
      | [] => false
      end).

Lemma has_alpha_hap m : has_alpha m = existsb (fun f => hap (f_data f)) (m_frames m).
Proof. reflexivity. Qed.

Lemma hap_facts data a b w h isl abit : vfacts data a b w h isl abit -> hap data = alpha_of a isl abit.
Proof.
  intros [Hparts Hsplit Hbf Hbb Hab Hlen Hla Hl8]. unfold hap, alpha_of.
  pose proof (bf_len _ _ _ _ _ Hbf) as H5. pose proof (len_nonneg b).
  destruct a as [x|].
  - destruct (Hl8 ltac:(discriminate)) as [H8 Ht]. cbn [olen] in *. pose proof (len_nonneg x).
    rewrite Ht. change (rd32 T_ALPH =? FCC_ALPH) with true.
    replace (len data >=? 12) with true by lia. reflexivity.
  - (* no prefix: data = b *)
    unfold frame_parts in Hparts.
    destruct (bytes_eqb (firstn 4 data) T_ALPH) eqn:Etag.
    { destruct (skipn 4 data) as [|s0 [|s1 [|s2 [|s3 body]]]]; try discriminate.
      destruct (_ <=? _); discriminate. }
    assert (data = b) by congruence. subst b. cbn [is_some orb].
    assert (Hna : (rd32 (firstn 4 data) =? FCC_ALPH) = false).
    { destruct data as [|x0 [|x1 [|x2 [|x3 tl]]]]; try (unfold len in H5; cbn in H5; lia).
      cbn [firstn]. apply Z.eqb_neq. eapply (bf_notalph _ _ _ _ _ Hbf). reflexivity. }
    rewrite Hna, andb_false_r. cbn [orb].
    replace (len data >=? 5) with true by lia. cbn [andb].
    pose proof (bf_type _ _ _ _ _ Hbf) as Ht. pose proof (bf_hdr _ _ _ _ _ Hbf) as Hh.
    destruct data as [|b0 tl]; [unfold len in H5; cbn in H5; lia|].
    unfold detect_type in Ht. destruct (b0 =? VP8LMagicByte) eqn:E0.
    + destruct isl; [|discriminate]. destruct Hh as (_ & Hp). rewrite Hp. reflexivity.
    + destruct isl; [discriminate|]. reflexivity.
Qed.

(** ---- one ANMF chunk ---- *)
Definition anmf_payload (f : mframe) : list Z :=
  let '(a, b) := split_alpha (f_data f) in
  let '(w, h) := frame_dims (f_data f) in
  anmf_hdr (f_opts f) w h ++ img_chunks a b.

Definition fits (cw ch : Z) (f : mframe) : Prop :=
  o_ox (f_opts f) + fst (frame_dims (f_data f)) <= cw /\ o_oy (f_opts f) + snd (frame_dims (f_data f)) <= ch.

Lemma anmf_frame cw ch f : aframe_ok f -> fits cw ch f ->
  write_anmf f = genc (T_ANMF, anmf_payload f) /\ gchunk_ok (T_ANMF, anmf_payload f) /\
  anmf_ok cw ch (anmf_payload f) = Some (hap (f_data f)).
Proof.
  intros [Hb Hl Hv Hox Hoy Hdur] [Hfx Hfy]. destruct f as [data fo]. cbn [f_data f_opts] in *.
  destruct (valid_frame_facts data Hb Hv) as (a & b & w & h & isl & abit & Hvf).
  pose proof Hvf as [Hparts Hsplit Hbf Hbb Hab Hlen Hla _].
  pose proof (bf_w _ _ _ _ _ Hbf) as Hw. pose proof (bf_h _ _ _ _ _ Hbf) as Hh.
  assert (Hd : frame_dims data = (w, h)) by (rewrite frame_dims_eq, Hsplit; apply (bf_dims _ _ _ _ _ Hbf)).
  rewrite Hd in Hfx, Hfy. cbn [fst snd] in *.
  unfold anmf_payload. cbn [f_data f_opts]. rewrite Hsplit, Hd.
  destruct (len_img_chunks a b ltac:(lia) Hab) as (_ & _ & Hrange).
  assert (Hpl : len (anmf_hdr fo w h ++ img_chunks a b) < 2147483648).
  { rewrite len_app. change (len (anmf_hdr fo w h)) with 16. lia. }
  split; [|split].
  - rewrite (write_anmf_eq data fo a b w h); auto; try lia. apply enc_genc. exact Hpl.
  - split; cbn [fst snd]; [exists 65, 78, 77, 70; reflexivity|exact Hpl].
  - rewrite (hap_facts _ _ _ _ _ _ _ Hvf). apply anmf_ok_written; auto; lia.
Qed.

Definition not_anmf_head (cs : list gchunk) : Prop :=
  match cs with (t, _) :: _ => bytes_eqb t T_ANMF = false | [] => True end.

Lemma anmf_run_written cw ch fs rest :
  Forall (fun f => aframe_ok f /\ fits cw ch f) fs -> not_anmf_head rest ->
  RiffGrammar.anmf_run cw ch (map (fun f => (T_ANMF, anmf_payload f)) fs ++ rest) =
    Some (existsb (fun f => hap (f_data f)) fs, length fs, rest).
Proof.
  intros H Hrest. induction H as [|f fs [Hf Hfit] _ IH]; cbn [map app existsb length].
  - destruct rest as [|[t p] tl]; [reflexivity|]. cbn [RiffGrammar.anmf_run]. cbn in Hrest. rewrite Hrest. reflexivity.
  - cbn [RiffGrammar.anmf_run]. change (bytes_eqb T_ANMF T_ANMF) with true. cbv iota.
    destruct (anmf_frame cw ch f Hf Hfit) as (_ & _ & Hok). rewrite Hok, IH. reflexivity.
Qed.

Lemma anmfs_genc cw ch fs : Forall (fun f => aframe_ok f /\ fits cw ch f) fs ->
  flat_map write_anmf fs = flat_map genc (map (fun f => (T_ANMF, anmf_payload f)) fs) /\
  Forall gchunk_ok (map (fun f => (T_ANMF, anmf_payload f)) fs).
Proof.
  induction 1 as [|f fs [Hf Hfit] _ [IH1 IH2]]; cbn [flat_map map]; [split; [reflexivity|constructor]|].
  destruct (anmf_frame cw ch f Hf Hfit) as (E & Hok & _). rewrite E, IH1. split; [reflexivity|constructor; auto].
Qed.

(** ---- optional metadata chunks as the grammar sees them ---- *)
Definition optl (t : list Z) (o : option (list Z)) : list gchunk :=
  match o with Some p => [(t, p)] | None => [] end.

Lemma ometa_genc id o : ometa_ok o ->
  ometa_write id o = flat_map genc (optl (le32 id) o) /\ Forall gchunk_ok (optl (le32 id) o).
Proof.
  destruct o as [p|]; cbn [ometa_write optl flat_map]; [|split; [reflexivity|constructor]].
  intros [_ Hp]. unfold maxMetadataSize in Hp. rewrite app_nil_r. fold (enc id p). rewrite enc_genc by lia.
  split; [reflexivity|]. constructor; [|constructor]. split; cbn [fst snd]; [apply tag4_le32|lia].
Qed.

Lemma take_opt_optl t o rest :
  bytes_eqb t t = true ->
  match rest with (t', _) :: _ => bytes_eqb t' t = false | [] => True end ->
  take_opt t (optl t o ++ rest) = (is_some o, rest).
Proof.
  intros Ht Hr. destruct o as [p|]; cbn [optl app take_opt is_some].
  - rewrite Ht. reflexivity.
  - destruct rest as [|[t' p'] tl]; [reflexivity|]. cbn [take_opt]. rewrite Hr. reflexivity.
Qed.

(** ---- the RIFF form ---- *)
Lemma wf_of_body n body x cs :
  n = 4 + len body -> n < 4294967296 -> bytes_ok body ->
  body = flat_map genc ((T_VP8X, x) :: cs) -> Forall gchunk_ok ((T_VP8X, x) :: cs) ->
  ext_ok x cs = true ->
  wf (le32 FCC_RIFF ++ le32 n ++ le32 FCC_WEBP ++ body) = true.
Proof.
  intros Hn Hlt Hb Hbody Hok Hext. pose proof (len_nonneg body) as H0.
  assert (Hn0 : 0 <= n < 4294967296) by lia.
  change (le32 FCC_RIFF ++ le32 n ++ le32 FCC_WEBP ++ body) with
    (82 :: 73 :: 70 :: 70 :: n mod 256 :: (n / 256) mod 256 :: (n / 65536) mod 256 :: (n / 16777216) mod 256 ::
     87 :: 69 :: 66 :: 80 :: body).
  unfold wf. cbv beta iota.
  change (bytes_eqb [82; 73; 70; 70] T_RIFF) with true.
  change (bytes_eqb [87; 69; 66; 80] T_WEBP) with true.
  cbn [andb].
  assert (Hrd : rd32 [n mod 256; (n / 256) mod 256; (n / 65536) mod 256; (n / 16777216) mod 256] = n)
    by (unfold rd32; lia).
  rewrite Hrd. unfold glen. fold (len body).
  replace (n =? 4 + len body) with true by lia. cbn [andb].
  match goal with |- (forallb ?f ?l && _) = true => assert (Hfa : forallb f l = true) end.
  { apply forallb_bytes. repeat (apply Forall_cons; [unfold is_byte; lia|]). exact Hb. }
  rewrite Hfa. cbn [andb].
  rewrite Hbody at 1 2. rewrite (chunks_written _ Hok).
  change (bytes_eqb T_VP8X T_VP8X) with true. cbv iota. exact Hext.
Qed.

Lemma flat_map_cons' {A B} (f : A -> list B) a l : flat_map f (a :: l) = f a ++ flat_map f l.
Proof. reflexivity. Qed.

Lemma le32_mod v : le32 (v mod 4294967296) = le32 v.
Proof.
  unfold le32.
  replace ((v mod 4294967296) mod 256) with (v mod 256) by lia.
  replace ((v mod 4294967296 / 256) mod 256) with ((v / 256) mod 256) by lia.
  replace ((v mod 4294967296 / 65536) mod 256) with ((v / 65536) mod 256) by lia.
  replace ((v mod 4294967296 / 16777216) mod 256) with ((v / 16777216) mod 256) by lia.
  reflexivity.
Qed.

Lemma rd32_le32_wrap' v : rd32 (le32 v) = v mod 4294967296.
Proof. rewrite <- (app_nil_r (le32 v)). apply rd32_le32_wrap. Qed.

Lemma wrap64_small z : - 2^63 <= z < 2^63 -> wrap64 z = z.
Proof. intros H. unfold wrap64. change (2^63) with 9223372036854775808 in *. change (2^64) with 18446744073709551616. lia. Qed.

Lemma validate_fits m : mok m -> validate repaired m = Ok tt ->
  Forall (fun f => aframe_ok f /\ fits (fst (canvas_size m)) (snd (canvas_size m)) f) (m_frames m).
Proof.
  intros Hm Hval. apply Forall_forall. intros f Hin.
  pose proof (aframe_of_mok m f Hm Hval Hin) as Haf. split; [exact Haf|].
  unfold validate in Hval. cbn [fx_validate repaired andb] in Hval.
  destruct (len (m_frames m) =? 0); [discriminate|].
  match type of Hval with (if ?c then _ else _) = _ => destruct c end; [discriminate|].
  match type of Hval with (if ?c then _ else _) = _ => destruct c end; [discriminate|].
  destruct (canvas_size m) as [cw ch]. cbn [fst snd].
  match type of Hval with (if ?c then _ else _) = _ => destruct c end; [discriminate|].
  destruct (forallb _ (m_frames m)) eqn:Efa; [|discriminate].
  rewrite forallb_forall in Efa. specialize (Efa f Hin).
  destruct Haf as [Hb Hl Hv Hox Hoy Hdur]. destruct f as [data fo]. cbn [f_data f_opts] in *.
  destruct (valid_frame_facts data Hb Hv) as (a & b & w & h & isl & abit & [Hparts Hsplit Hbf _ _ _ _ _]).
  pose proof (bf_w _ _ _ _ _ Hbf) as Hw. pose proof (bf_h _ _ _ _ _ Hbf) as Hh.
  assert (Hd : frame_dims data = (w, h)) by (rewrite frame_dims_eq, Hsplit; apply (bf_dims _ _ _ _ _ Hbf)).
  unfold fits. cbn [f_data f_opts]. rewrite Hd. cbn [fst snd].
  unfold validate_frame in Efa. cbn [f_data f_opts fx_validate repaired] in Efa. rewrite Hd in Efa.
  apply andb_true_iff in Efa. destruct Efa as [_ Efa].
  replace ((w =? 0) || (h =? 0)) with false in Efa by lia.
  rewrite !wrap64_small in Efa by (change (2^63) with 9223372036854775808; lia).
  match type of Efa with (if ?c then _ else _) = _ => destruct c; [discriminate|] end.
  match type of Efa with (if ?c then _ else _) = _ => destruct c eqn:Ec; [discriminate|] end.
  lia.
Qed.

Lemma not_anmf_tail oe ox : not_anmf_head (optl T_EXIF oe ++ optl T_XMP ox).
Proof. destruct oe, ox; cbn; auto. Qed.

Lemma tail_take oe ox :
  take_opt T_EXIF (optl T_EXIF oe ++ optl T_XMP ox) = (is_some oe, optl T_XMP ox) /\
  take_opt T_XMP (optl T_XMP ox) = (is_some ox, []).
Proof. destruct oe, ox; cbn; auto. Qed.

(** the grammar accepts the chunk sequence of an animation *)
Lemma ext_ok_anim m cw ch :
  is_animated m = true -> m_frames m <> [] ->
  1 <= cw <= 16777216 -> 1 <= ch <= 16777216 -> cw * ch < MaxImageArea ->
  Forall (fun f => aframe_ok f /\ fits cw ch f) (m_frames m) ->
  ext_ok (vp8x_payload (vp8x_flags m) cw ch)
    (optl T_ICCP (m_icc m) ++ (T_ANIM, le32 (m_bg m) ++ le16 (m_loop m)) ::
     map (fun f => (T_ANMF, anmf_payload f)) (m_frames m) ++ optl T_EXIF (m_exif m) ++ optl T_XMP (m_xmp m)) = true.
Proof.
  intros Hanim Hne Hcw Hch Harea Hfs. unfold MaxImageArea in Harea.
  destruct (flags_derivation m) as (Fa & Fi & Fe & Fx & Fal & F0 & F64). cbv zeta in *.
  unfold ext_ok, vp8x_payload, le24. cbn [app].
  rewrite !rd24_bytes by lia.
  rewrite F0, F64, Fi, Fa, Fe, Fx, Fal, Hanim.
  replace ((1 + (cw - 1)) * (1 + (ch - 1)) <=? 4294967295) with true by lia.
  cbn [Z.eqb andb].
  rewrite take_opt_optl by (cbn; reflexivity). rewrite Bool.eqb_reflx. cbn [andb].
  change (bytes_eqb T_ANIM T_ANIM) with true. change (glen (le32 (m_bg m) ++ le16 (m_loop m)) =? 6) with true.
  cbn [andb].
  replace (1 + (cw - 1)) with cw by lia. replace (1 + (ch - 1)) with ch by lia.
  rewrite (anmf_run_written cw ch (m_frames m) _ Hfs (not_anmf_tail _ _)).
  destruct (tail_take (m_exif m) (m_xmp m)) as [T1 T2]. rewrite T1, T2.
  rewrite has_alpha_hap, !Bool.eqb_reflx. cbn [andb].
  destruct (m_frames m); [contradiction|reflexivity].
Qed.

Theorem animated_wf m bs :
  mok m -> is_animated m = true -> assemble repaired m = Ok bs -> wf bs = true.
Proof.
  intros Hm Hanim Hasm.
  destruct (animated_roundtrip m bs Hm Hanim Hasm) as (Hbytes & Hsize & _).
  unfold assemble in Hasm.
  destruct (validate repaired m) as [[]|e|] eqn:Hval; cbn [bind] in Hasm; try discriminate.
  unfold needs_vp8x in Hasm. rewrite Hanim in Hasm. cbn [orb] in Hasm.
  destruct (validate_facts m Hval) as (Hne & Hcw & Hch & Harea & _ & _).
  pose proof (canvas_size_pos m) as [Hcw1 Hch1].
  pose proof (validate_fits m Hm Hval) as Hfs.
  unfold assemble_extended in Hasm. rewrite Hanim in Hasm.
  destruct (canvas_size m) as [cw ch] eqn:Ecs. cbn [fst snd] in *.
  match type of Hasm with (if ?c then _ else _) = _ => destruct c end; [discriminate|].
  apply Ok_inj in Hasm. subst bs.
  assert (Hwfr : flat_map (write_frame repaired true) (m_frames m) = flat_map write_anmf (m_frames m)) by reflexivity.
  rewrite Hwfr in *. clear Hwfr.
  destruct (anmfs_genc cw ch (m_frames m) Hfs) as [Eanmf Hokanmf].
  destruct (ometa_genc FCC_ICCP _ (mk_icc m Hm)) as [Eicc Hokicc].
  destruct (ometa_genc FCC_EXIF _ (mk_exif m Hm)) as [Eexif Hokexif].
  destruct (ometa_genc FCC_XMP _ (mk_xmp m Hm)) as [Exmp Hokxmp].
  change (le32 FCC_ICCP) with T_ICCP in *. change (le32 FCC_EXIF) with T_EXIF in *. change (le32 FCC_XMP) with T_XMP in *.
  set (cs := optl T_ICCP (m_icc m) ++ (T_ANIM, le32 (m_bg m) ++ le16 (m_loop m)) ::
             map (fun f => (T_ANMF, anmf_payload f)) (m_frames m) ++ optl T_EXIF (m_exif m) ++ optl T_XMP (m_xmp m)).
  match type of Hsize with _ = len (_ ++ le32 ?r ++ _) => set (riff := r) in * end.
  set (body := flat_map genc ((T_VP8X, vp8x_payload (vp8x_flags m) cw ch) :: cs)).
  assert (Hbody : le32 FCC_VP8X ++ le32 VP8XChunkSize ++ [vp8x_flags m; 0; 0; 0] ++ le24 (cw - 1) ++ le24 (ch - 1) ++
                  ometa_write FCC_ICCP (m_icc m) ++
                  (le32 FCC_ANIM ++ le32 ANIMChunkSize ++ le32 (m_bg m) ++ le16 (m_loop m)) ++
                  flat_map write_anmf (m_frames m) ++ ometa_write FCC_EXIF (m_exif m) ++ ometa_write FCC_XMP (m_xmp m) = body).
  { unfold body, cs. rewrite flat_map_cons', flat_map_app, flat_map_cons', !flat_map_app.
    rewrite Eicc, Eanmf, Eexif, Exmp.
    unfold genc. cbn [fst snd]. unfold vp8x_payload.
    change (len ([vp8x_flags m; 0; 0; 0] ++ le24 (cw - 1) ++ le24 (ch - 1))) with 10.
    change (len (le32 (m_bg m) ++ le16 (m_loop m))) with 6.
    change (pad_of 10) with (@nil Z). change (pad_of 6) with (@nil Z).
    change T_VP8X with (le32 FCC_VP8X). change T_ANIM with (le32 FCC_ANIM).
    rewrite <- !app_assoc. cbn [app]. reflexivity. }
  rewrite Hbody in *.
  assert (Hok : Forall gchunk_ok ((T_VP8X, vp8x_payload (vp8x_flags m) cw ch) :: cs)).
  { constructor; [split; cbn [fst snd]; [exists 86, 80, 56, 88; reflexivity|vm_compute; reflexivity]|].
    unfold cs. apply Forall_app. split; [exact Hokicc|].
    constructor; [split; cbn [fst snd]; [exists 65, 78, 73, 77; reflexivity|vm_compute; reflexivity]|].
    apply Forall_app. split; [exact Hokanmf|]. apply Forall_app. split; assumption. }
  assert (Hbb : bytes_ok body).
  { apply bytes_ok_app in Hbytes. destruct Hbytes as [_ Hb2]. apply bytes_ok_app in Hb2. destruct Hb2 as [_ Hb3].
    apply bytes_ok_app in Hb3. destruct Hb3 as [_ Hb4]. exact Hb4. }
  assert (Hriff : riff mod 4294967296 = 4 + len body).
  { change (le32 FCC_RIFF) with [82; 73; 70; 70] in Hsize. cbn [app skipn] in Hsize.
    replace (firstn 4 (le32 riff ++ le32 FCC_WEBP ++ body)) with (le32 riff) in Hsize by reflexivity.
    rewrite rd32_le32_wrap' in Hsize. rewrite !len_cons, !len_app, !len_le32 in Hsize.
    pose proof (len_nonneg body). lia. }
  rewrite <- (le32_mod riff), Hriff.
  apply (wf_of_body (4 + len body) body _ cs eq_refl ltac:(lia) Hbb eq_refl Hok).
  apply ext_ok_anim; auto; unfold MaxCanvasSize in *; lia.
Qed.

(** ---- still pictures in the extended layout ---- *)
Lemma img_head_not t a b w h isl abit rest :
  bfacts b w h isl abit -> (t = T_ICCP) ->
  match img_list a b ++ rest with (t', _) :: _ => bytes_eqb t' t = false | [] => True end.
Proof.
  intros Hbf ->. pose proof (bf_type _ _ _ _ _ Hbf) as Ht. unfold img_list.
  destruct a; cbn [app]; [reflexivity|]. rewrite Ht. destruct isl; reflexivity.
Qed.

Lemma ext_ok_still m data fo a b w h isl abit :
  is_animated m = false -> m_frames m = [mkmf data fo] -> vfacts data a b w h isl abit ->
  w * h < MaxImageArea ->
  ext_ok (vp8x_payload (vp8x_flags m) w h)
    (optl T_ICCP (m_icc m) ++ img_list a b ++ optl T_EXIF (m_exif m) ++ optl T_XMP (m_xmp m)) = true.
Proof.
  intros Hanim Hf Hvf Harea. unfold MaxImageArea in Harea.
  pose proof Hvf as [Hparts Hsplit Hbf Hbb Hab Hlen Hla _].
  pose proof (bf_w _ _ _ _ _ Hbf) as Hw. pose proof (bf_h _ _ _ _ _ Hbf) as Hh.
  destruct (flags_derivation m) as (Fa & Fi & Fe & Fx & Fal & F0 & F64). cbv zeta in *.
  unfold ext_ok, vp8x_payload, le24. cbn [app].
  rewrite !rd24_bytes by lia.
  rewrite F0, F64, Fi, Fa, Fe, Fx, Fal, Hanim.
  replace ((1 + (w - 1)) * (1 + (h - 1)) <=? 4294967295) with true by lia.
  cbn [Z.eqb andb].
  rewrite take_opt_optl; [|reflexivity|eapply img_head_not; eauto].
  rewrite Bool.eqb_reflx. cbn [andb].
  rewrite (image_data_written a b w h isl abit _ Hbf Hla).
  replace (w =? 1 + (w - 1)) with true by lia. replace (h =? 1 + (h - 1)) with true by lia.
  destruct (tail_take (m_exif m) (m_xmp m)) as [T1 T2]. rewrite T1, T2.
  rewrite has_alpha_hap, Hf. cbn [existsb f_data]. rewrite orb_false_r, (hap_facts _ _ _ _ _ _ _ Hvf).
  rewrite !Bool.eqb_reflx. reflexivity.
Qed.

(** A still picture written in the extended layout is well formed when its canvas is the
    picture (no SetCanvasSize, or the picture's own size: the case excluded here is the
    known finding "still-canvas"). *)
Theorem still_ext_wf m bs :
  mok m -> is_animated m = false -> needs_vp8x repaired m = true ->
  (forall f, m_frames m = [f] -> canvas_size m = frame_dims (f_data f)) ->
  assemble repaired m = Ok bs -> wf bs = true.
Proof.
  intros Hm Hanim Hx Hcanvas Hasm.
  destruct (still_ext_roundtrip m bs Hm Hanim Hx Hasm) as (Hbytes & Hsize & _).
  unfold assemble in Hasm.
  destruct (validate repaired m) as [[]|e|] eqn:Hval; cbn [bind] in Hasm; try discriminate.
  rewrite Hx in Hasm.
  destruct (validate_facts m Hval) as (Hne & Hcw & Hch & Harea & Hone & _).
  destruct (Hone Hanim) as [f Hf]. specialize (Hcanvas f Hf).
  pose proof (mk_frames m Hm) as Hfr. rewrite Hf in Hfr.
  inversion Hfr as [|? ? (Hb & Hl & Hv & Hdur) _]; subst.
  destruct f as [data fo]. cbn [f_data f_opts] in *.
  destruct (valid_frame_facts data Hb Hv) as (a & b & w & h & isl & abit & Hvf).
  pose proof Hvf as [Hparts Hsplit Hbf Hbb Hab Hlen Hla _].
  assert (Hd : frame_dims data = (w, h)) by (rewrite frame_dims_eq, Hsplit; apply (bf_dims _ _ _ _ _ Hbf)).
  rewrite Hd in Hcanvas.
  unfold assemble_extended in Hasm. rewrite Hanim, Hf, Hcanvas in Hasm. rewrite Hcanvas in *. cbn [fst snd] in *.
  cbn [fold_left flat_map] in Hasm.
  match type of Hasm with (if ?c then _ else _) = _ => destruct c end; [discriminate|].
  apply Ok_inj in Hasm. subst bs.
  assert (Hwfr : write_frame repaired false (mkmf data fo) = img_chunks a b).
  { unfold write_frame. cbn [fx_alpha repaired f_data]. rewrite Hsplit. reflexivity. }
  rewrite Hwfr, app_nil_r in *.
  destruct (img_chunks_genc a b ltac:(lia)) as [Eimg Hokimg].
  destruct (ometa_genc FCC_ICCP _ (mk_icc m Hm)) as [Eicc Hokicc].
  destruct (ometa_genc FCC_EXIF _ (mk_exif m Hm)) as [Eexif Hokexif].
  destruct (ometa_genc FCC_XMP _ (mk_xmp m Hm)) as [Exmp Hokxmp].
  change (le32 FCC_ICCP) with T_ICCP in *. change (le32 FCC_EXIF) with T_EXIF in *. change (le32 FCC_XMP) with T_XMP in *.
  set (cs := optl T_ICCP (m_icc m) ++ img_list a b ++ optl T_EXIF (m_exif m) ++ optl T_XMP (m_xmp m)).
  match type of Hsize with _ = len (_ ++ le32 ?r ++ _) => set (riff := r) in * end.
  set (body := flat_map genc ((T_VP8X, vp8x_payload (vp8x_flags m) w h) :: cs)).
  assert (Hbody : le32 FCC_VP8X ++ le32 VP8XChunkSize ++ [vp8x_flags m; 0; 0; 0] ++ le24 (w - 1) ++ le24 (h - 1) ++
                  ometa_write FCC_ICCP (m_icc m) ++ [] ++ img_chunks a b ++
                  ometa_write FCC_EXIF (m_exif m) ++ ometa_write FCC_XMP (m_xmp m) = body).
  { unfold body, cs. rewrite flat_map_cons', !flat_map_app.
    rewrite Eicc, Eimg, Eexif, Exmp.
    unfold genc. cbn [fst snd]. unfold vp8x_payload.
    change (len ([vp8x_flags m; 0; 0; 0] ++ le24 (w - 1) ++ le24 (h - 1))) with 10.
    change (pad_of 10) with (@nil Z). change T_VP8X with (le32 FCC_VP8X).
    rewrite <- !app_assoc. cbn [app]. reflexivity. }
  rewrite Hbody in *.
  assert (Hok : Forall gchunk_ok ((T_VP8X, vp8x_payload (vp8x_flags m) w h) :: cs)).
  { constructor; [split; cbn [fst snd]; [exists 86, 80, 56, 88; reflexivity|vm_compute; reflexivity]|].
    unfold cs. apply Forall_app. split; [exact Hokicc|].
    apply Forall_app. split; [exact Hokimg|]. apply Forall_app. split; assumption. }
  assert (Hbb' : bytes_ok body).
  { apply bytes_ok_app in Hbytes. destruct Hbytes as [_ Hb2]. apply bytes_ok_app in Hb2. destruct Hb2 as [_ Hb3].
    apply bytes_ok_app in Hb3. destruct Hb3 as [_ Hb4]. exact Hb4. }
  assert (Hriff : riff mod 4294967296 = 4 + len body).
  { change (le32 FCC_RIFF) with [82; 73; 70; 70] in Hsize. cbn [app skipn] in Hsize.
    replace (firstn 4 (le32 riff ++ le32 FCC_WEBP ++ body)) with (le32 riff) in Hsize by reflexivity.
    rewrite rd32_le32_wrap' in Hsize. rewrite !len_cons, !len_app, !len_le32 in Hsize.
    pose proof (len_nonneg body). lia. }
  rewrite <- (le32_mod riff), Hriff.
  apply (wf_of_body (4 + len body) body _ cs eq_refl ltac:(lia) Hbb' eq_refl Hok).
  eapply ext_ok_still; eauto.
Qed.

(** ---- all layouts, every history ---- *)
Definition still_canvas_ok (m : mstate) : Prop :=
  is_animated m = true \/ forall f, m_frames m = [f] -> canvas_size m = frame_dims (f_data f).

Lemma simple_roundtrip_view m bs :
  mok m -> needs_vp8x repaired m = false -> still_canvas_ok m -> assemble repaired m = Ok bs ->
  wf bs = true /\ match parse true bs with Ok d => view_of_demux d = Some (view_of_mux m) | _ => False end.
Proof.
  intros Hm Hx Hsc Hasm.
  destruct (proj1 (needs_vp8x_iff repaired m) Hx) as (Hanim & Hicc & Hexif & Hxmp & Hac).
  specialize (Hac eq_refl).
  assert (Hval : validate repaired m = Ok tt).
  { unfold assemble in Hasm. destruct (validate repaired m) as [[]|e|]; cbn [bind] in Hasm; try discriminate. reflexivity. }
  destruct (validate_facts m Hval) as (Hne & _ & _ & _ & Hone & Hoff).
  destruct (Hone Hanim) as [f Hf].
  destruct Hsc as [Hc|Hc]; [congruence|]. specialize (Hc f Hf).
  pose proof (mk_frames m Hm) as Hfr. rewrite Hf in Hfr, Hoff.
  inversion Hfr as [|? ? (Hb & Hl & Hv & Hdur) _]; subst.
  inversion Hoff as [|? ? (_ & _ & Hz) _]; subst. destruct (Hz Hanim) as [Hox Hoy].
  assert (Hd0 : o_dur (f_opts f) = 0).
  { unfold is_animated in Hanim. rewrite Hf in Hanim. apply orb_false_iff in Hanim. destruct Hanim as [_ Ha].
    cbn [existsb] in Ha. rewrite orb_false_r in Ha. lia. }
  destruct f as [data fo]. cbn [f_data f_opts] in *.
  destruct (valid_frame_facts data Hb Hv) as (a & b & w & h & isl & abit & [Hparts Hsplit Hbf Hbb Hab Hlen Hla _]).
  unfold has_alpha_chunk in Hac. rewrite Hf in Hac. cbn [existsb f_data] in Hac. rewrite Hsplit in Hac.
  cbn [fst] in Hac. rewrite orb_false_r in Hac. destruct a as [x|]; [discriminate|].
  assert (Hbd : b = data).
  { unfold frame_parts in Hparts. destruct (bytes_eqb (firstn 4 data) T_ALPH).
    - destruct (skipn 4 data) as [|s0 [|s1 [|s2 [|s3 body]]]]; try discriminate. destruct (_ <=? _); discriminate.
    - congruence. }
  subst b.
  assert (Hhdr : (is_some' (vp8_header data) || is_some' (vp8l_header data)) = true).
  { pose proof (bf_hdr _ _ _ _ _ Hbf) as Hh. destruct isl; destruct Hh as (Hh & _); rewrite Hh; cbn; auto using orb_true_r. }
  destruct (simple_layout_roundtrip repaired true data fo m Hf Hx Hval Hb ltac:(lia) Hparts Hhdr)
    as (bs' & Ha' & Hwf & Hp).
  assert (bs' = bs) by congruence. subst bs'. split; [exact Hwf|].
  destruct (parse true bs) as [d|e|]; try contradiction.
  destruct Hp as ((ha & Hfrs) & P1 & P2 & P3 & P4 & P5 & P6 & P7).
  unfold view_of_demux, view_of_mux. rewrite Hfrs, Hanim, Hf, Hc.
  cbn [map vframe_of_fi fi_data fi_alpha fi_ox fi_oy fi_dur fi_blend fi_dispose all_some].
  unfold vframe_of. cbn [f_data f_opts]. rewrite Hparts, Hox, Hoy, Hd0.
  rewrite P1, P2, P3, P4, P5, P6, Hicc, Hexif, Hxmp.
  destruct (frame_dims data) as [fw fh]. injection P7 as -> ->. reflexivity.
Qed.

(** C14 for the current code: for every history of Muxer calls satisfying the hypotheses
    whose final state is not in the still-canvas class, Assemble returns an error or a
    well-formed container that demuxes to exactly the view of what was put in; it never
    panics. *)
Theorem roundtrip_current ops :
  Forall op_ok ops ->
  let m := run ops in
  still_canvas_ok m ->
  match assemble repaired m with
  | Err _ => True
  | Panic => False
  | Ok bs =>
    wf bs = true /\
    match parse true bs with
    | Ok d => view_of_demux d = Some (view_of_mux m)
    | _ => False
    end
  end.
Proof.
  intros Hops m Hsc. pose proof (run_mok ops Hops) as Hm. fold m in Hm.
  destruct (assemble repaired m) as [bs|e|] eqn:Ha; [|exact I|exact (assemble_no_panic m Ha)].
  destruct (needs_vp8x repaired m) eqn:Hx.
  - destruct (is_animated m) eqn:Han.
    + split; [eapply animated_wf; eauto|].
      destruct (animated_roundtrip m bs Hm Han Ha) as (_ & _ & d & H3 & H4). rewrite H3. exact H4.
    + split.
      * eapply still_ext_wf; eauto. destruct Hsc as [Hc|Hc]; [congruence|exact Hc].
      * destruct (still_ext_roundtrip m bs Hm Han Hx Ha) as (_ & _ & d & H3 & H4). rewrite H3. exact H4.
  - apply simple_roundtrip_view; auto.
Qed.
