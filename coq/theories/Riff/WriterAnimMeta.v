(** C15, animation encoder: metadata set on the encoder can be read back from its
    output.  Composition of
      - the repaired [AnimEncoder.Close] selection ([WriterModel.anim_close true]:
        with any metadata set, the muxer's file is what gets written), and
      - the muxer/demuxer round trip of the C14 area ([MuxRoundtrip.extended_roundtrip]:
        for every history of muxer operations -- AddFrame, SetICCProfile, SetEXIF,
        SetXMP, ... -- the demuxer returns exactly the view of what was put in,
        including the three metadata blobs).
    The animation encoder drives the muxer only through such operations
    (SetICCProfile/SetEXIF/SetXMP forward the blob; frames are added with AddFrame). *)
From Coq Require Import List ZArith Lia Bool.
From Webp Require Import Base.Res Base.Bytes Riff.WriterModel.
From Webp Require Riff.DemuxModel Riff.MuxModel Riff.MuxView Riff.MuxRoundtrip.
Import ListNotations.
Open Scope Z_scope.

Module M := MuxModel.
Module D := DemuxModel.
Module V := MuxView.

Definition mux_has_meta (m : M.mstate) : bool :=
  M.is_some (M.m_icc m) || M.is_some (M.m_exif m) || M.is_some (M.m_xmp m).

Lemma view_meta d v : V.view_of_demux d = Some v ->
  V.vw_icc v = D.d_icc d /\ V.vw_exif v = D.d_exif d /\ V.vw_xmp v = D.d_xmp d.
Proof.
  unfold V.view_of_demux. destruct (V.all_some _); [|discriminate]. intros [= <-]. cbn. auto.
Qed.

Definition anim_metadata_roundtrip_statement : Prop :=
  forall ops frameCount hasPrev simple bs,
    Forall V.op_ok ops ->
    let m := M.run ops in
    mux_has_meta m = true ->
    M.assemble M.repaired m = Ok bs ->
    let out := anim_close true frameCount hasPrev true bs simple in
    out = bs /\
    exists d, D.parse true out = Ok d /\
      D.d_icc d = M.m_icc m /\ D.d_exif d = M.m_exif m /\ D.d_xmp d = M.m_xmp m /\
      (forall x, M.m_icc m = Some x -> D.get_chunk d D.FCC_ICCP = Ok x) /\
      (forall x, M.m_exif m = Some x -> D.get_chunk d D.FCC_EXIF = Ok x) /\
      (forall x, M.m_xmp m = Some x -> D.get_chunk d D.FCC_XMP = Ok x).

Theorem anim_metadata_roundtrip : anim_metadata_roundtrip_statement.
Proof.
  intros ops frameCount hasPrev simple bs Hops m Hmeta Hasm out.
  assert (Hout : out = bs).
  { subst out. unfold anim_close. cbn [andb negb]. rewrite andb_false_r. reflexivity. }
  split; [exact Hout|]. rewrite Hout.
  pose proof (MuxRoundtrip.extended_roundtrip ops Hops) as Hrt. cbv zeta in Hrt. fold m in Hrt.
  rewrite Hasm in Hrt.
  assert (Hvx : M.needs_vp8x M.repaired m = true).
  { unfold M.needs_vp8x. unfold mux_has_meta in Hmeta.
    destruct (M.is_animated m), (M.is_some (M.m_icc m)), (M.is_some (M.m_exif m)), (M.is_some (M.m_xmp m));
      cbn in *; try reflexivity; discriminate. }
  destruct (Hrt Hvx) as (_ & _ & Hp).
  destruct (D.parse true bs) as [d|e|] eqn:Ed; try contradiction.
  destruct (view_meta _ _ Hp) as (Hi & He & Hx). unfold V.view_of_mux in Hi, He, Hx. destruct (M.canvas_size m) as [cw ch]. cbn [V.vw_icc V.vw_exif V.vw_xmp] in Hi, He, Hx.
  exists d. split; [reflexivity|]. split; [symmetry; exact Hi|]. split; [symmetry; exact He|]. split; [symmetry; exact Hx|].
  unfold D.get_chunk. change (D.FCC_ICCP =? D.FCC_ICCP) with true. change (D.FCC_EXIF =? D.FCC_ICCP) with false.
  change (D.FCC_EXIF =? D.FCC_EXIF) with true. change (D.FCC_XMP =? D.FCC_ICCP) with false.
  change (D.FCC_XMP =? D.FCC_EXIF) with false. change (D.FCC_XMP =? D.FCC_XMP) with true. cbv iota.
  rewrite <- Hi, <- He, <- Hx.
  repeat split; intros x Hq; rewrite Hq; reflexivity.
Qed.
