(** Slice / chunk-header lemmas shared by the Parser, Prefix, Metadata and
    Features proofs: how [slice], [read_chunk_header] and [chunk_at] behave on
    [p ++ s] (a buffer and its prefix). *)
From Coq Require Import List ZArith Lia Bool.
From Coq Require Import ZifyBool ZifyNat.
From Webp Require Import Base.Res Base.Bytes Riff.ParserModel.
Import ListNotations.
Open Scope Z_scope.

Lemma len_app {A} (a b : list A) : len (a ++ b) = len a + len b.
Proof. unfold len. rewrite app_length. lia. Qed.

Lemma len_nonneg {A} (a : list A) : 0 <= len a.
Proof. unfold len. lia. Qed.

Lemma len_nil {A} : len (@nil A) = 0.
Proof. reflexivity. Qed.

Lemma len_cons {A} (x : A) l : len (x :: l) = 1 + len l.
Proof. unfold len. cbn [length]. lia. Qed.

Lemma len_skipn {A} (l : list A) n : 0 <= n <= len l -> len (skipn (Z.to_nat n) l) = len l - n.
Proof. unfold len. intros H. rewrite skipn_length. lia. Qed.

Lemma len_firstn {A} (l : list A) n : 0 <= n <= len l -> len (firstn (Z.to_nat n) l) = n.
Proof. unfold len. intros H. rewrite firstn_length. lia. Qed.

(** A slice that ends inside the prefix does not see the suffix. *)
Lemma slice_app {A} (p s : list A) lo hi :
  hi <= len p -> slice (p ++ s) lo hi = slice p lo hi.
Proof.
  intros Hhi. unfold slice. fold (len (p ++ s)). fold (len p). rewrite len_app.
  pose proof (len_nonneg s) as Hs.
  destruct (Z.leb_spec 0 lo) as [H0|H0]; cbn [andb]; [|reflexivity].
  destruct (Z.leb_spec lo hi) as [H1|H1]; cbn [andb]; [|reflexivity].
  destruct (Z.leb_spec hi (len p + len s)) as [H2|H2]; [|lia].
  destruct (Z.leb_spec hi (len p)) as [H3|H3]; [|lia].
  f_equal.
  rewrite skipn_app.
  replace (Z.to_nat lo - length p)%nat with 0%nat by (unfold len in *; lia).
  cbn [skipn]. rewrite firstn_app.
  replace (Z.to_nat (hi - lo) - length (skipn (Z.to_nat lo) p))%nat with 0%nat
    by (rewrite skipn_length; unfold len in *; lia).
  cbn [firstn]. apply app_nil_r.
Qed.

Lemma slice_to_end {A} (l : list A) t :
  0 <= t <= len l -> slice l t (len l) = Ok (skipn (Z.to_nat t) l).
Proof.
  intros H. unfold slice. fold (len l).
  destruct (Z.leb_spec 0 t); [|lia].
  destruct (Z.leb_spec t (len l)); [|lia].
  destruct (Z.leb_spec (len l) (len l)); [|lia]. cbn [andb]. f_equal.
  apply firstn_all2. rewrite skipn_length. unfold len. lia.
Qed.

Lemma slice_ok_inv {A} (l : list A) lo hi x :
  slice l lo hi = Ok x -> 0 <= lo /\ lo <= hi /\ hi <= len l /\
                          x = firstn (Z.to_nat (hi - lo)) (skipn (Z.to_nat lo) l).
Proof.
  unfold slice. fold (len l).
  destruct (Z.leb_spec 0 lo); cbn [andb]; [|discriminate].
  destruct (Z.leb_spec lo hi); cbn [andb]; [|discriminate].
  destruct (Z.leb_spec hi (len l)); [|discriminate].
  intros [= <-]. auto.
Qed.

Lemma skipn_app_le {A} (p s : list A) t :
  0 <= t <= len p -> skipn (Z.to_nat t) (p ++ s) = skipn (Z.to_nat t) p ++ s.
Proof.
  intros H. rewrite skipn_app.
  replace (Z.to_nat t - length p)%nat with 0%nat by (unfold len in *; lia). reflexivity.
Qed.

(** ** Chunk headers on a buffer and on its prefix *)
Lemma read_chunk_header_app p s :
  8 <= len p -> read_chunk_header (p ++ s) = read_chunk_header p.
Proof.
  intros H. unfold read_chunk_header, ChunkHeaderSize. rewrite len_app.
  pose proof (len_nonneg s).
  destruct (Z.ltb_spec (len p + len s) 8); [lia|].
  destruct (Z.ltb_spec (len p) 8); [lia|].
  rewrite !slice_app by lia. reflexivity.
Qed.

Lemma read_chunk_header_short p : len p < 8 -> read_chunk_header p = Err ETruncated.
Proof.
  intros H. unfold read_chunk_header, ChunkHeaderSize.
  destruct (Z.ltb_spec (len p) 8); [reflexivity|lia].
Qed.

Lemma chunk_at_ok_inv buf f sz tot pl :
  chunk_at buf = Ok (f, sz, tot, pl) ->
  read_chunk_header buf = Ok (f, sz) /\ 0 <= sz /\ tot = 8 + sz + sz mod 2 /\ tot <= len buf /\
  8 <= len buf /\ slice buf 8 (8 + sz) = Ok pl.
Proof.
  unfold chunk_at, ChunkHeaderSize.
  destruct (read_chunk_header buf) as [[f' sz']|e|] eqn:E; cbn [bind]; try discriminate.
  destruct (Z.gtb_spec (8 + (sz' + sz' mod 2)) (len buf)) as [Hg|Hg]; [discriminate|].
  destruct (slice buf 8 (8 + sz')) as [pl'|e|] eqn:Es; cbn [bind]; try discriminate.
  remember (8 + (sz' + sz' mod 2)) as tot' eqn:Htot.
  intros [= <- <- <- <-].
  pose proof (slice_ok_inv _ _ _ _ Es) as (_ & Hle & _ & _).
  assert (8 <= len buf).
  { unfold read_chunk_header, ChunkHeaderSize in E. destruct (Z.ltb_spec (len buf) 8); [discriminate|lia]. }
  refine (conj eq_refl (conj _ (conj _ (conj _ (conj _ Es))))); lia.
Qed.

Lemma chunk_at_prefix p s f sz tot pl :
  chunk_at (p ++ s) = Ok (f, sz, tot, pl) ->
  (tot <= len p /\ chunk_at p = Ok (f, sz, tot, pl)) \/ (len p < tot /\ chunk_at p = Err ETruncated).
Proof.
  intros H. destruct (chunk_at_ok_inv _ _ _ _ _ H) as (Hh & Hsz & Htot & Hlen & H8 & Hpl).
  destruct (Z.lt_ge_cases (len p) tot) as [Hlt|Hge].
  - right. split; [exact Hlt|]. unfold chunk_at.
    destruct (Z.lt_ge_cases (len p) 8) as [Hs|Hs].
    + rewrite read_chunk_header_short by lia. reflexivity.
    + rewrite read_chunk_header_app in Hh by lia. rewrite Hh. cbn [bind]. unfold ChunkHeaderSize.
      destruct (Z.gtb_spec (8 + (sz + sz mod 2)) (len p)); [reflexivity|lia].
  - left. split; [lia|]. unfold chunk_at.
    rewrite read_chunk_header_app in Hh by lia. rewrite Hh. cbn [bind]. unfold ChunkHeaderSize.
    destruct (Z.gtb_spec (8 + (sz + sz mod 2)) (len p)); [lia|].
    rewrite slice_app in Hpl by lia. rewrite Hpl. cbn [bind].
    replace (8 + (sz + sz mod 2)) with tot by lia. reflexivity.
Qed.

Lemma chunk_at_short p : len p < 8 -> chunk_at p = Err ETruncated.
Proof. intros H. unfold chunk_at. rewrite read_chunk_header_short by exact H. reflexivity. Qed.

(** The buffer after a chunk, for a buffer and for its prefix. *)
Lemma rest_app (p s : list Z) tot :
  0 <= tot <= len p ->
  slice (p ++ s) tot (len (p ++ s)) = Ok (skipn (Z.to_nat tot) p ++ s) /\
  slice p tot (len p) = Ok (skipn (Z.to_nat tot) p).
Proof.
  intros H. split.
  - rewrite slice_to_end by (rewrite len_app; pose proof (len_nonneg s); lia).
    rewrite skipn_app_le by exact H. reflexivity.
  - apply slice_to_end. exact H.
Qed.

(** A slice that starts inside the prefix and ends in the suffix. *)
Lemma slice_app_span {A} (p s : list A) lo hi :
  0 <= lo <= len p -> len p <= hi <= len (p ++ s) ->
  slice (p ++ s) lo hi = Ok (skipn (Z.to_nat lo) p ++ firstn (Z.to_nat (hi - len p)) s).
Proof.
  intros Hlo Hhi. unfold slice. fold (len (p ++ s)).
  destruct (Z.leb_spec 0 lo); [|lia].
  destruct (Z.leb_spec lo hi); [|lia].
  destruct (Z.leb_spec hi (len (p ++ s))); [|lia]. cbn [andb]. f_equal.
  rewrite skipn_app_le by exact Hlo. rewrite firstn_app.
  rewrite firstn_all2 by (rewrite skipn_length; unfold len in *; lia).
  f_equal. f_equal. rewrite skipn_length. unfold len in *. lia.
Qed.
