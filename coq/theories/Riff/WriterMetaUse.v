(** C15: the pixel encoders do not depend on the metadata -- consumed from the
    translator's field-use analysis of the root package ([WebpGen.MetaUse],
    regenerated from /repo's source on every run by tools/gosrc2v/metause.go).

    [MetaUse.call_graph] lists, for every function of the root package, the root
    functions and methods its body references; [MetaUse.meta_touch] the functions
    whose body mentions EncoderOptions.ICC / EXIF / XMP; [MetaUse.meta_escape] the
    functions in which an EncoderOptions value is used in a way the analysis does
    not classify as harmless (handed to another package, an interface, a function
    value, ...).  Here: every function reachable in the call graph from
    encodeLossyWithAlpha, encodeLossless and encodeLosslessToWriter is declared in
    the graph, mentions no metadata field and lets no EncoderOptions value escape.
    Code of other packages cannot name the type, so what the pixel encoders
    compute is a function of the image and the remaining option fields only.

    The reading of this result (a syntactic analysis of the Go text by the
    translator, not a semantics of Go) is part of the trusted base; the dynamic
    counterpart (same bitstream and pixels with and without metadata) is evaluated
    by harness/c15 on every generated case. *)
From Coq Require Import String List Bool Arith.
From WebpGen Require MetaUse.
Import ListNotations.
Open Scope string_scope.

Definition smem (s : string) (l : list string) : bool := existsb (String.eqb s) l.

Lemma smem_In s l : smem s l = true <-> In s l.
Proof.
  unfold smem. rewrite existsb_exists. split.
  - intros (x & Hin & E). apply String.eqb_eq in E. subst. exact Hin.
  - intros H. exists s. split; [exact H|apply String.eqb_refl].
Qed.

Definition succs (g : list (string * list string)) (f : string) : list string :=
  match find (fun e => String.eqb (fst e) f) g with Some e => snd e | None => [] end.

Definition add_new (seen : list string) (l : list string) : list string :=
  fold_left (fun acc x => if smem x acc then acc else (acc ++ [x])%list) l seen.

(** [fuel] rounds of "add the successors of everything seen so far" *)
Fixpoint closure (g : list (string * list string)) (fuel : nat) (seen : list string) : list string :=
  match fuel with
  | O => seen
  | S k => closure g k (add_new seen (concat (map (succs g) seen)))
  end.

(** a set is closed when it contains the successors of each of its members *)
Definition closed (g : list (string * list string)) (s : list string) : bool :=
  forallb (fun f => forallb (fun c => smem c s) (succs g f)) s.

Inductive Reach (g : list (string * list string)) (roots : list string) : string -> Prop :=
| reach_root r : In r roots -> Reach g roots r
| reach_step f cs c : Reach g roots f -> In (f, cs) g -> In c cs -> Reach g roots c.

(** entries of the graph have distinct keys, so [succs] finds the entry *)
Definition keys_distinct (g : list (string * list string)) : bool :=
  (fix go (l : list string) : bool :=
     match l with [] => true | x :: tl => negb (smem x tl) && go tl end) (map fst g).

Lemma find_first_key : forall (g : list (string * list string)) f cs,
  keys_distinct g = true -> In (f, cs) g -> succs g f = cs.
Proof.
  unfold succs, keys_distinct. induction g as [|[k v] g IH]; intros f cs Hd Hin; [contradiction|].
  cbn [map fst] in Hd. apply andb_true_iff in Hd. destruct Hd as [Hk Hd].
  cbn [find fst]. destruct Hin as [E|Hin].
  - injection E as -> ->. rewrite String.eqb_refl. reflexivity.
  - destruct (String.eqb_spec k f) as [->|Hne].
    + exfalso. apply negb_true_iff in Hk. assert (smem f (map fst g) = true); [|congruence].
      apply smem_In. apply in_map_iff. exists (f, cs). split; [reflexivity|exact Hin].
    + apply IH; assumption.
Qed.

Lemma reach_in_closed g roots s : keys_distinct g = true -> closed g s = true ->
  (forall r, In r roots -> In r s) -> forall f, Reach g roots f -> In f s.
Proof.
  intros Hd Hc Hr f H. induction H as [r Hin|f cs c _ IH Hg Hcs]; [apply Hr; exact Hin|].
  unfold closed in Hc. rewrite forallb_forall in Hc. specialize (Hc f IH).
  rewrite forallb_forall in Hc. rewrite (find_first_key g f cs Hd Hg) in Hc.
  apply smem_In. apply Hc. exact Hcs.
Qed.

(** * The generated facts *)
Definition encoder_reach : list string := closure MetaUse.call_graph 12 MetaUse.pixel_encoder_roots.

Definition clean (f : string) : bool :=
  smem f (map fst MetaUse.call_graph) &&
  negb (smem f (map fst MetaUse.meta_touch)) && negb (smem f (map fst MetaUse.meta_escape)).

Lemma encoder_reach_checked :
  keys_distinct MetaUse.call_graph = true /\ closed MetaUse.call_graph encoder_reach = true /\
  forallb (fun r => smem r encoder_reach) MetaUse.pixel_encoder_roots = true /\
  forallb clean encoder_reach = true.
Proof. vm_compute. repeat split; reflexivity. Qed.

(** Every function reachable from the pixel encoders in the root package's call graph
    is a declared function of the package, mentions none of ICC / EXIF / XMP, and lets
    no EncoderOptions value escape to code the analysis cannot see. *)
Theorem pixel_encoders_ignore_metadata : forall f,
  Reach MetaUse.call_graph MetaUse.pixel_encoder_roots f ->
  In f (map fst MetaUse.call_graph) /\
  ~ In f (map fst MetaUse.meta_touch) /\ ~ In f (map fst MetaUse.meta_escape).
Proof.
  intros f H. destruct encoder_reach_checked as (Hd & Hc & Hr & Hall).
  unfold clean in Hall. set (S := encoder_reach) in *. clearbody S.
  set (G := MetaUse.call_graph) in *. set (T := MetaUse.meta_touch) in *. set (E := MetaUse.meta_escape) in *.
  set (R := MetaUse.pixel_encoder_roots) in *. clearbody G T E R.
  assert (Hin : In f S).
  { apply (reach_in_closed G R S Hd Hc); [|exact H]. intros r Hr'. rewrite forallb_forall in Hr.
    apply smem_In. apply Hr. exact Hr'. }
  rewrite forallb_forall in Hall. specialize (Hall f Hin). cbv beta in Hall.
  rewrite !andb_true_iff, !negb_true_iff in Hall. destruct Hall as [[H1 H2] H3].
  split; [apply smem_In; exact H1|]. split; intros Hx; apply smem_In in Hx; congruence.
Qed.

(** The functions that do mention the metadata are exactly the three the C15 models
    cover: Encode (the dispatch), validateConfig (the size guard) and writeRIFF. *)
Theorem metadata_readers_are_modelled :
  map fst MetaUse.meta_touch = ["Encode"; "validateConfig"; "writeRIFF"] /\
  MetaUse.meta_fields = ["ICC"; "EXIF"; "XMP"].
Proof. vm_compute. split; reflexivity. Qed.
