(** C17, codec layer, VP8 (lossy), frame level: the key-frame decoder of the VP8
    builder's specification ([Vp8.Vp8Spec.decode_yuv]: frame tag, first
    partition header, partition table, per-macroblock loop) on a byte string [d]
    and on an extension [d ++ ext].

    [Riff.PrefixVp8Bool] relates the RFC bool decoder over [l] and over
    [l ++ ext] for one bool.  Here that simulation is lifted through every reader
    of [Vp8Syntax] by a small combinator calculus ([good f]: [f] never clears the
    past-end flag, and a run of [f] that ends with the flag clear is reproduced
    by every related decoder), then through the macroblock loops of [Vp8Spec].
    Appending bytes to a frame leaves the first partition and every token
    partition but the last unchanged and extends the last one; [decode_yuv]
    rejects every run with a past-end read; hence [decode_yuv] is
    prefix-monotone ([vp8_frame_prefix_monotone]) and a proper prefix of a frame
    is rejected or decodes to the same picture. *)
From Coq Require Import List ZArith Lia Bool.
From Webp Require Import Base.Res Base.Bytes Vp8.Vp8Bool Vp8.Vp8Tables Vp8.Vp8Syntax Riff.PrefixVp8Bool.
Import ListNotations.
Open Scope Z_scope.

Definition prob_ok (p : Z) : Prop := 0 <= p <= 255.

(** two decoder states: the same, or the RFC decoder over some [l] and over [l ++ ext];
    the second one has not read beyond its data *)
Definition sim (d d' : bdec) : Prop :=
  bd_past d' = false /\
  (d = d' \/ exists l ext, bytes_ok l /\ bytes_ok ext /\ rel l ext d d').

Lemma sim_refl d : bd_past d = false -> sim d d.
Proof. intros H. split; [exact H|left; reflexivity]. Qed.

(** * Reader combinators *)
Section Comb.
  Definition mono {A} (f : bdec -> A * bdec) : Prop :=
    forall d, bd_past d = true -> bd_past (snd (f d)) = true.
  Definition lifts {A} (f : bdec -> A * bdec) : Prop :=
    forall d d' a d1, sim d d' -> f d = (a, d1) -> bd_past d1 = false ->
      exists d1', f d' = (a, d1') /\ sim d1 d1'.
  Definition good {A} (f : bdec -> A * bdec) : Prop := mono f /\ lifts f.
  (** every result of [f] satisfies [P] *)
  Definition post {A} (P : A -> Prop) (f : bdec -> A * bdec) : Prop := forall d, P (fst (f d)).

  Lemma good_ext {A} (f g : bdec -> A * bdec) : (forall d, f d = g d) -> good g -> good f.
  Proof.
    intros E [Hm Hl]. split.
    - intros d H. rewrite E. apply Hm. exact H.
    - intros d d' a d1 Hs Ef Hp. rewrite E in Ef. rewrite E. eapply Hl; eassumption.
  Qed.

  Lemma good_ret {A} (a : A) : good (fun d => (a, d)).
  Proof.
    split.
    - intros d H. exact H.
    - intros d d' a0 d1 Hs E Hp. injection E as <- <-. exists d'. split; [reflexivity|exact Hs].
  Qed.

  Lemma good_bindP {A B} (P : A -> Prop) (f : bdec -> A * bdec) (g : A -> bdec -> B * bdec) :
    good f -> post P f -> (forall a, P a -> good (g a)) ->
    good (fun d => let '(a, d1) := f d in g a d1).
  Proof.
    intros [Hmf Hlf] HP Hg. split.
    - intros d H. pose proof (Hmf d H) as H1. pose proof (HP d) as Pa.
      destruct (f d) as [a d1]. cbn [fst snd] in *. apply (proj1 (Hg a Pa)). exact H1.
    - intros d d' r d2 Hs E Hp. pose proof (HP d) as Pa.
      destruct (f d) as [a d1] eqn:Ef. cbn [fst] in Pa.
      assert (Hp1 : bd_past d1 = false).
      { destruct (bd_past d1) eqn:Ep1; [|reflexivity].
        pose proof (proj1 (Hg a Pa) d1 Ep1) as Hm. rewrite E in Hm. cbn [snd] in Hm. congruence. }
      destruct (Hlf d d' a d1 Hs Ef Hp1) as (d1' & Ef' & Hs1). rewrite Ef'.
      apply (proj2 (Hg a Pa) d1 d1' r d2 Hs1 E Hp).
  Qed.

  Lemma good_bind {A B} (f : bdec -> A * bdec) (g : A -> bdec -> B * bdec) :
    good f -> (forall a, good (g a)) -> good (fun d => let '(a, d1) := f d in g a d1).
  Proof. intros Hf Hg. apply (good_bindP (fun _ => True)); [exact Hf|intros d; exact I|intros a _; apply Hg]. Qed.

  Lemma post_bind {A B} (P : B -> Prop) (f : bdec -> A * bdec) (g : A -> bdec -> B * bdec) :
    (forall a, post P (g a)) -> post P (fun d => let '(a, d1) := f d in g a d1).
  Proof. intros Hg d. destruct (f d) as [a d1]. apply Hg. Qed.

  Lemma post_bindQ {A B} (Q : A -> Prop) (P : B -> Prop) (f : bdec -> A * bdec) (g : A -> bdec -> B * bdec) :
    post Q f -> (forall a, Q a -> post P (g a)) -> post P (fun d => let '(a, d1) := f d in g a d1).
  Proof. intros Hf Hg d. pose proof (Hf d) as Qa. destruct (f d) as [a d1]. apply Hg. exact Qa. Qed.

  Lemma post_ret {A} (P : A -> Prop) (a : A) : P a -> post P (fun d => (a, d)).
  Proof. intros H d. exact H. Qed.
End Comb.

(** * Primitive readers *)
Lemma good_read_bool p : prob_ok p -> good (read_bool p).
Proof.
  intros Hp. split.
  - intros d H. apply read_bool_past_mono. exact H.
  - intros d d' b d1 [Hq [->|(l & ext & Hl & He & Hrel)]] E Hp1.
    + exists d1. split; [exact E|]. apply sim_refl. exact Hp1.
    + destruct (read_bool_lift l ext Hl He p d d' b d1 Hrel Hp E Hp1) as (d1' & E' & Hr1 & Hq1 & _).
      exists d1'. split; [exact E'|]. split; [congruence|]. right. exists l, ext. auto.
Qed.

Lemma prob_ok_128 : prob_ok 128. Proof. unfold prob_ok. lia. Qed.

Lemma good_read_flag : good read_flag.
Proof. apply good_read_bool. exact prob_ok_128. Qed.

Lemma good_read_literal : forall k acc, good (read_literal k acc).
Proof.
  induction k as [|k IH]; intros acc; cbn [read_literal].
  - apply good_ret.
  - apply (good_bind (read_bool 128) (fun b => read_literal k (2 * acc + (if b then 1 else 0)))).
    + apply good_read_bool. exact prob_ok_128.
    + intros b. apply IH.
Qed.

Lemma good_read_lit k : good (read_lit k).
Proof. apply good_read_literal. Qed.

Lemma good_read_signed k : good (read_signed k).
Proof.
  unfold read_signed.
  apply (good_bind (read_lit k) (fun m d1 => let '(s, d2) := read_flag d1 in ((if s then - m else m), d2))).
  - apply good_read_lit.
  - intros m. apply (good_bind read_flag (fun (s : bool) d2 => ((if s then - m else m), d2))).
    + apply good_read_flag.
    + intros s. apply good_ret.
Qed.

Lemma good_read_opt_signed k : good (read_opt_signed k).
Proof.
  unfold read_opt_signed.
  apply (good_bind read_flag (fun (f : bool) d1 => if f then read_signed k d1 else (0, d1))).
  - apply good_read_flag.
  - intros [|]; [apply good_read_signed|apply good_ret].
Qed.

Lemma nth_ok {A} (P : A -> Prop) (l : list A) (i : nat) (dflt : A) : Forall P l -> P dflt -> P (nth i l dflt).
Proof.
  intros Hl Hd. destruct (Nat.lt_ge_cases i (length l)) as [Hi|Hi].
  - rewrite Forall_forall in Hl. apply Hl. apply nth_In. exact Hi.
  - rewrite nth_overflow by exact Hi. exact Hd.
Qed.

Lemma nthZ_ok {A} (P : A -> Prop) (l : list A) (i : Z) (dflt : A) : Forall P l -> P dflt -> P (nthZ l i dflt).
Proof. apply nth_ok. Qed.

Lemma prob_ok_0 : prob_ok 0. Proof. unfold prob_ok. lia. Qed.

Lemma good_read_tree {A} : forall (t : tree A) probs, Forall prob_ok probs -> good (read_tree t probs).
Proof.
  induction t as [a|i z IHz o IHo]; intros probs Hp; cbn [read_tree].
  - apply good_ret.
  - apply (good_bind (read_bool (nth i probs 0)) (fun (b : bool) d1 => if b then read_tree o probs d1 else read_tree z probs d1)).
    + apply good_read_bool. apply nth_ok; [exact Hp|exact prob_ok_0].
    + intros [|]; [apply IHo|apply IHz]; exact Hp.
Qed.

Fixpoint tree_all {A} (P : A -> Prop) (t : tree A) : Prop :=
  match t with
  | Leaf a => P a
  | Node _ z o => tree_all P z /\ tree_all P o
  end.

Lemma post_read_tree {A} (P : A -> Prop) : forall (t : tree A) probs, tree_all P t -> post P (read_tree t probs).
Proof.
  induction t as [a|i z IHz o IHo]; intros probs H d; cbn [read_tree].
  - exact H.
  - destruct H as [Hz Ho]. destruct (read_bool (nth i probs 0) d) as [[|] d1]; [apply IHo|apply IHz]; assumption.
Qed.

Lemma good_read_n {A} (f : bdec -> A * bdec) : good f -> forall n, good (read_n n f).
Proof.
  intros Hf. induction n as [|n IH]; cbn [read_n].
  - apply good_ret.
  - apply (good_bind f (fun a d1 => let '(l, d2) := read_n n f d1 in (a :: l, d2))); [exact Hf|].
    intros a. apply (good_bind (read_n n f) (fun l d2 => (a :: l, d2))); [exact IH|]. intros l. apply good_ret.
Qed.

Lemma post_read_n {A} (P : A -> Prop) (f : bdec -> A * bdec) : post P f -> forall n, post (Forall P) (read_n n f).
Proof.
  intros Hf. induction n as [|n IH]; intros d; cbn [read_n].
  - constructor.
  - pose proof (Hf d) as Pa. destruct (f d) as [a d1]. pose proof (IH d1) as Pl.
    destruct (read_n n f d1) as [l d2]. cbn [fst] in *. constructor; assumption.
Qed.

Lemma good_map_st {A B} (f : A -> bdec -> B * bdec) : forall l, Forall (fun a => good (f a)) l -> good (map_st f l).
Proof.
  induction l as [|a l IH]; intros H; cbn [map_st].
  - apply good_ret.
  - apply (good_bind (f a) (fun b d1 => let '(r, d2) := map_st f l d1 in (b :: r, d2))).
    + apply (Forall_inv H).
    + intros b. apply (good_bind (map_st f l) (fun r d2 => (b :: r, d2))); [apply IH; apply (Forall_inv_tail H)|].
      intros r. apply good_ret.
Qed.

Lemma post_map_st {A B} (P : B -> Prop) (f : A -> bdec -> B * bdec) :
  forall l, Forall (fun a => post P (f a)) l -> post (Forall P) (map_st f l).
Proof.
  induction l as [|a l IH]; intros H d; cbn [map_st].
  - constructor.
  - pose proof (Forall_inv H d) as Pb. destruct (f a d) as [b d1].
    pose proof (IH (Forall_inv_tail H) d1) as Pr. destruct (map_st f l d1) as [r d2].
    cbn [fst] in *. constructor; assumption.
Qed.

Lemma Forall_combine {A B} (P : A * B -> Prop) (l1 : list A) : forall (l2 : list B),
  Forall (fun a => forall b, P (a, b)) l1 -> Forall P (combine l1 l2).
Proof.
  induction l1 as [|a l1 IH]; intros l2 H; cbn [combine]; [constructor|].
  destruct l2 as [|b l2]; [constructor|]. constructor; [apply (Forall_inv H)|apply IH; apply (Forall_inv_tail H)].
Qed.

Lemma Forall_combine2 {A B} (P : A -> Prop) (Q : B -> Prop) (R : A * B -> Prop) :
  (forall a b, P a -> Q b -> R (a, b)) ->
  forall (l1 : list A) (l2 : list B), Forall P l1 -> Forall Q l2 -> Forall R (combine l1 l2).
Proof.
  intros HR. induction l1 as [|a l1 IH]; intros l2 H1 H2; cbn [combine]; [constructor|].
  destruct l2 as [|b l2]; [constructor|].
  constructor; [apply HR; [apply (Forall_inv H1)|apply (Forall_inv H2)]|apply IH; [apply (Forall_inv_tail H1)|apply (Forall_inv_tail H2)]].
Qed.

(** boolean check of a table of probabilities *)
Definition pb (p : Z) : bool := (0 <=? p) && (p <=? 255).
Lemma pb_ok p : pb p = true -> prob_ok p.
Proof. unfold pb, prob_ok. lia. Qed.
Lemma forallb_Forall {A} (f : A -> bool) (P : A -> Prop) : (forall a, f a = true -> P a) ->
  forall l, forallb f l = true -> Forall P l.
Proof.
  intros H. induction l as [|a l IH]; intros E; [constructor|]. cbn [forallb] in E. apply andb_true_iff in E.
  destruct E as [E1 E2]. constructor; [apply H; exact E1|apply IH; exact E2].
Qed.

Definition probs1 := Forall prob_ok.
Definition probs2 := Forall probs1.
Definition probs3 := Forall probs2.
Definition probs4 := Forall probs3.

Lemma chk1 l : forallb pb l = true -> probs1 l.
Proof. apply forallb_Forall. exact pb_ok. Qed.
Lemma chk2 l : forallb (forallb pb) l = true -> probs2 l.
Proof. apply forallb_Forall. exact chk1. Qed.
Lemma chk3 l : forallb (forallb (forallb pb)) l = true -> probs3 l.
Proof. apply forallb_Forall. exact chk2. Qed.
Lemma chk4 l : forallb (forallb (forallb (forallb pb))) l = true -> probs4 l.
Proof. apply forallb_Forall. exact chk3. Qed.

Lemma coeff_update_probs_ok : probs4 coeff_update_probs.
Proof. apply chk4. vm_compute. reflexivity. Qed.
Lemma coeff_probs0_ok : probs4 coeff_probs0.
Proof. apply chk4. vm_compute. reflexivity. Qed.
Lemma kf_bmode_probs_ok : probs3 kf_bmode_probs.
Proof. apply chk3. vm_compute. reflexivity. Qed.
Lemma kf_ymode_probs_ok : probs1 kf_ymode_probs.
Proof. apply chk1. vm_compute. reflexivity. Qed.
Lemma kf_uv_mode_probs_ok : probs1 kf_uv_mode_probs.
Proof. apply chk1. vm_compute. reflexivity. Qed.

(** * Header readers *)
Lemma read_literal_range : forall k acc d, 0 <= acc ->
  acc * 2 ^ Z.of_nat k <= fst (read_literal k acc d) < (acc + 1) * 2 ^ Z.of_nat k.
Proof.
  induction k as [|k IH]; intros acc d Ha; cbn [read_literal].
  - cbn [fst]. change (2 ^ Z.of_nat 0) with 1. lia.
  - destruct (read_bool 128 d) as [b d1].
    rewrite Nat2Z.inj_succ, Z.pow_succ_r by lia.
    assert (H2 : 0 < 2 ^ Z.of_nat k) by (apply Z.pow_pos_nonneg; lia).
    specialize (IH (2 * acc + (if b then 1 else 0)) d1 ltac:(destruct b; lia)).
    destruct b; nia.
Qed.

Lemma post_read_lit8 : post prob_ok (read_lit 8).
Proof.
  intros d. unfold read_lit. pose proof (read_literal_range 8 0 d ltac:(lia)) as H.
  change (2 ^ Z.of_nat 8) with 256 in H. unfold prob_ok. lia.
Qed.

Definition seg_ok (s : seg_hdr) : Prop := probs1 (sg_probs s).

Lemma probs_255 : probs1 [255; 255; 255].
Proof. apply chk1. reflexivity. Qed.

Definition seg_prob_reader (d : bdec) : Z * bdec :=
  let '(f, d1) := read_flag d in if f then read_lit 8 d1 else (255, d1).

Lemma good_seg_prob_reader : good seg_prob_reader.
Proof.
  apply (good_bind read_flag (fun (f : bool) d1 => if f then read_lit 8 d1 else (255, d1))).
  - apply good_read_flag.
  - intros [|]; [apply good_read_lit|apply good_ret].
Qed.

Lemma post_seg_prob_reader : post prob_ok seg_prob_reader.
Proof.
  intros d. unfold seg_prob_reader. destruct (read_flag d) as [[|] d1].
  - apply post_read_lit8.
  - cbn [fst]. unfold prob_ok. lia.
Qed.

(** * Proof automation for readers written with destructuring lets *)
Ltac gprim :=
  first [ apply good_ret | apply good_read_flag | apply good_read_lit | apply good_read_opt_signed
        | apply good_read_signed | apply good_seg_prob_reader | assumption ].

Ltac gstep :=
  first
  [ gprim
  | apply good_read_n
  | match goal with
    | |- good (fun d => if ?c then _ else _) => destruct c
    | |- good (fun d => match ?p with pair _ _ => _ end) => is_var p; destruct p
    | |- good (fun d => match ?p with Some _ => _ | None => _ end) => is_var p; destruct p
    end
  | eapply good_bind; [|intro] ].

Ltac gauto := repeat gstep.

Lemma good_parse_seg_hdr abs : good (parse_seg_hdr abs).
Proof. unfold parse_seg_hdr. gauto. Qed.

Lemma post_parse_seg_hdr abs : post seg_ok (parse_seg_hdr abs).
Proof.
  unfold parse_seg_hdr. apply post_bind; intros en. destruct (negb en); [apply post_ret; exact probs_255|].
  apply post_bind; intros um. apply post_bind; intros ud. apply post_bind; intros [[ab q] lf].
  apply (post_bindQ probs1).
  - destruct um; [|apply post_ret; exact probs_255]. apply post_read_n. exact post_seg_prob_reader.
  - intros pr Hpr. apply post_ret. exact Hpr.
Qed.

Lemma good_parse_lf_hdr : good parse_lf_hdr.
Proof. unfold parse_lf_hdr. gauto. Qed.

Lemma good_parse_q_hdr : good parse_q_hdr.
Proof. unfold parse_q_hdr. gauto. Qed.

Definition updpair_ok (x : Z * Z) : Prop := prob_ok (fst x) /\ prob_ok (snd x).

Lemma good_upd_probs1 : forall l, Forall updpair_ok l -> good (upd_probs1 l).
Proof.
  induction l as [|[up old] l IH]; intros H; cbn [upd_probs1]; [apply good_ret|].
  pose proof (Forall_inv H) as [Hup _]. cbn [fst] in Hup. specialize (IH (Forall_inv_tail H)).
  eapply good_bind; [apply good_read_bool; exact Hup|intro]. gauto.
Qed.

Lemma post_upd_probs1 : forall l, Forall updpair_ok l -> post probs1 (upd_probs1 l).
Proof.
  induction l as [|[up old] l IH]; intros H d; cbn [upd_probs1]; [constructor|].
  pose proof (Forall_inv H) as [_ Hold]. cbn [snd] in Hold. specialize (IH (Forall_inv_tail H)).
  destruct (read_bool up d) as [f d1].
  assert (Hv : prob_ok (fst (if f then read_lit 8 d1 else (old, d1)))).
  { destruct f; [apply post_read_lit8|exact Hold]. }
  destruct (if f then read_lit 8 d1 else (old, d1)) as [v d2]. pose proof (IH d2) as Hr.
  destruct (upd_probs1 l d2) as [r d3]. cbn [fst] in *. constructor; assumption.
Qed.

Lemma combine_updpair u o : probs1 u -> probs1 o -> Forall updpair_ok (combine u o).
Proof. apply Forall_combine2. intros a b Ha Hb. split; assumption. Qed.

Definition upd1 := fun '(u1, o1) => upd_probs1 (combine u1 o1).
Definition upd2 := fun '(u2, o2) => map_st upd1 (combine (u2 : list (list Z)) (o2 : list (list Z))).
Definition upd3 := fun '(u3, o3) => map_st upd2 (combine (u3 : list (list (list Z))) (o3 : list (list (list Z)))).

Lemma upd_probs_eq d : upd_probs d = map_st upd3 (combine coeff_update_probs coeff_probs0) d.
Proof. reflexivity. Qed.

Lemma upd1_ok u o : probs1 u -> probs1 o -> good (upd1 (u, o)) /\ post probs1 (upd1 (u, o)).
Proof. intros Hu Ho. pose proof (combine_updpair u o Hu Ho). split; [apply good_upd_probs1|apply post_upd_probs1]; assumption. Qed.

Lemma upd2_ok u o : probs2 u -> probs2 o -> good (upd2 (u, o)) /\ post probs2 (upd2 (u, o)).
Proof.
  intros Hu Ho. unfold upd2.
  assert (H : Forall (fun x => good (upd1 x) /\ post probs1 (upd1 x)) (combine u o)).
  { apply (Forall_combine2 probs1 probs1); [|exact Hu|exact Ho]. intros a b. apply upd1_ok. }
  split.
  - apply good_map_st. eapply Forall_impl; [|exact H]. intros x [Hx _]. exact Hx.
  - apply post_map_st. eapply Forall_impl; [|exact H]. intros x [_ Hx]. exact Hx.
Qed.

Lemma upd3_ok u o : probs3 u -> probs3 o -> good (upd3 (u, o)) /\ post probs3 (upd3 (u, o)).
Proof.
  intros Hu Ho. unfold upd3.
  assert (H : Forall (fun x => good (upd2 x) /\ post probs2 (upd2 x)) (combine u o)).
  { apply (Forall_combine2 probs2 probs2); [|exact Hu|exact Ho]. intros a b. apply upd2_ok. }
  split.
  - apply good_map_st. eapply Forall_impl; [|exact H]. intros x [Hx _]. exact Hx.
  - apply post_map_st. eapply Forall_impl; [|exact H]. intros x [_ Hx]. exact Hx.
Qed.

Lemma upd_probs_ok : good upd_probs /\ post probs4 upd_probs.
Proof.
  assert (H : Forall (fun x => good (upd3 x) /\ post probs3 (upd3 x)) (combine coeff_update_probs coeff_probs0)).
  { apply (Forall_combine2 probs3 probs3); [|exact coeff_update_probs_ok|exact coeff_probs0_ok]. intros a b. apply upd3_ok. }
  split.
  - apply (good_ext _ _ upd_probs_eq). apply good_map_st. eapply Forall_impl; [|exact H]. intros x [Hx _]. exact Hx.
  - intros d. rewrite upd_probs_eq. apply post_map_st. eapply Forall_impl; [|exact H]. intros x [_ Hx]. exact Hx.
Qed.

Definition fixed_ok (x : bool * bool * seg_hdr * lf_hdr * Z * q_hdr) : Prop :=
  seg_ok (snd (fst (fst (fst x)))).

Lemma good_parse_fixed_hdr abs : good (parse_fixed_hdr abs).
Proof.
  unfold parse_fixed_hdr.
  pose proof (good_parse_seg_hdr abs). pose proof good_parse_lf_hdr. pose proof good_parse_q_hdr. gauto.
Qed.

Lemma post_parse_fixed_hdr abs : post fixed_ok (parse_fixed_hdr abs).
Proof.
  unfold parse_fixed_hdr. apply post_bind; intros cs. apply post_bind; intros ct.
  apply (post_bindQ seg_ok); [apply post_parse_seg_hdr|]. intros sg Hsg.
  apply post_bind; intros lf. apply post_bind; intros lp. apply post_bind; intros q.
  apply post_ret. exact Hsg.
Qed.

Definition hdr_ok (h : frame_hdr) : Prop :=
  seg_ok (fh_seg h) /\ prob_ok (fh_skip_prob h) /\ probs4 (fh_probs h).

Lemma good_parse_part1_hdr abs w h xs ys : good (parse_part1_hdr abs w h xs ys).
Proof.
  unfold parse_part1_hdr. pose proof (good_parse_fixed_hdr abs). pose proof (proj1 upd_probs_ok).
  eapply good_bind; [assumption|]. intros [[[[[cs ct] sg] lf] lp] q]. gauto.
Qed.

Lemma post_parse_part1_hdr abs w h xs ys : post hdr_ok (parse_part1_hdr abs w h xs ys).
Proof.
  unfold parse_part1_hdr.
  apply (post_bindQ fixed_ok); [apply post_parse_fixed_hdr|]. intros [[[[[cs ct] sg] lf] lp] q] Hsg.
  unfold fixed_ok in Hsg. cbn [fst snd] in Hsg.
  apply post_bind; intros rf. apply (post_bindQ probs4); [apply (proj2 upd_probs_ok)|]. intros pr Hpr.
  apply post_bind; intros sk.
  apply (post_bindQ prob_ok).
  - destruct sk; [apply post_read_lit8|apply post_ret; exact prob_ok_0].
  - intros skp Hskp. apply post_ret. unfold hdr_ok. cbn [fh_seg fh_skip_prob fh_probs]. auto.
Qed.

(** * Per-macroblock readers *)
Lemma nil_probs1 : probs1 []. Proof. constructor. Qed.
Lemma nil_probs2 : probs2 []. Proof. constructor. Qed.
Lemma nil_probs3 : probs3 []. Proof. constructor. Qed.

Lemma bmode_probs_ok a l : probs1 (nthZ (nthZ kf_bmode_probs a []) l []).
Proof. apply nthZ_ok; [|exact nil_probs1]. apply nthZ_ok; [exact kf_bmode_probs_ok|exact nil_probs2]. Qed.

Lemma good_bmode_row : forall above l, good (bmode_row above l).
Proof.
  induction above as [|a tl IH]; intros l; cbn [bmode_row]; [apply good_ret|].
  eapply good_bind; [apply good_read_tree; apply bmode_probs_ok|]. intros m. pose proof (IH m). gauto.
Qed.

Lemma good_bmode_rows : forall lefts above, good (bmode_rows above lefts).
Proof.
  induction lefts as [|l tl IH]; intros above; cbn [bmode_rows]; [apply good_ret|].
  eapply good_bind; [apply good_bmode_row|]. intros row. pose proof (IH row). gauto.
Qed.

Lemma good_parse_mb_hdr h above_b left_b : hdr_ok h -> good (parse_mb_hdr h above_b left_b).
Proof.
  intros (Hseg & Hskip & _). unfold parse_mb_hdr.
  pose proof (good_read_tree segment_tree _ Hseg).
  pose proof (good_read_bool _ Hskip).
  pose proof (good_read_tree kf_ymode_tree _ kf_ymode_probs_ok).
  pose proof (good_read_tree uv_mode_tree _ kf_uv_mode_probs_ok).
  pose proof (good_bmode_rows left_b above_b).
  gauto.
Qed.

Lemma good_read_extra : forall ps acc, probs1 ps -> good (read_extra ps acc).
Proof.
  induction ps as [|p tl IH]; intros acc H; cbn [read_extra]; [apply good_ret|].
  eapply good_bind; [apply good_read_bool; apply (Forall_inv H)|]. intros b. apply IH. apply (Forall_inv_tail H).
Qed.

Lemma value_tree_extra_ok : tree_all (fun be : Z * list Z => probs1 (snd be)) value_tree.
Proof. cbn. repeat split; apply chk1; reflexivity. Qed.

Lemma good_tokens tp : probs3 tp -> forall fuel n ctx noeob acc, good (fun d => tokens fuel tp n ctx noeob d acc).
Proof.
  intros Htp. induction fuel as [|fuel IH]; intros n ctx noeob acc; cbn [tokens]; [apply good_ret|].
  destruct (16 <=? n); [apply good_ret|].
  assert (Hp : probs1 (nthZ (nthZ tp (nthZ bands n 0) []) ctx [])).
  { apply nthZ_ok; [|exact nil_probs1]. apply nthZ_ok; [exact Htp|exact nil_probs2]. }
  set (p := nthZ (nthZ tp (nthZ bands n 0) []) ctx []) in *.
  pose proof (good_read_bool _ (nth_ok prob_ok p 0 0 Hp prob_ok_0)) as G0.
  pose proof (good_read_bool _ (nth_ok prob_ok p 1 0 Hp prob_ok_0)) as G1.
  eapply good_bind; [destruct noeob; [apply good_ret|exact G0]|]. intros more.
  destruct (negb more); [apply good_ret|].
  eapply good_bind; [exact G1|]. intros nz. destruct (negb nz); [apply IH|].
  eapply (good_bindP (fun be : Z * list Z => probs1 (snd be))).
  - apply good_read_tree. exact Hp.
  - apply post_read_tree. exact value_tree_extra_ok.
  - intros [base extra] Hex. cbn [snd] in Hex.
    eapply good_bind; [apply good_read_extra; exact Hex|]. intros e.
    eapply good_bind; [apply good_read_flag|]. intros neg. apply IH.
Qed.

Lemma good_decode_block tp first ctx dqdc dqac : probs3 tp -> good (decode_block tp first ctx dqdc dqac).
Proof.
  intros Htp. unfold decode_block. pose proof (good_tokens tp Htp 17 first ctx false []). gauto.
Qed.

Lemma good_blk_row (f : Z -> bdec -> list Z * Z * bdec) first : (forall ctx, good (f ctx)) ->
  forall above l, good (blk_row f first above l).
Proof.
  intros Hf. induction above as [|a tl IH]; intros l; cbn [blk_row]; [apply good_ret|].
  eapply good_bind; [apply Hf|]. intros [c eob].
  pose proof (IH (if first <? eob then 1 else 0)). gauto.
Qed.

Lemma good_blk_rows (f : Z -> bdec -> list Z * Z * bdec) first : (forall ctx, good (f ctx)) ->
  forall lefts above, good (blk_rows f first above lefts).
Proof.
  intros Hf. induction lefts as [|l tl IH]; intros above; cbn [blk_rows]; [apply good_ret|].
  eapply good_bind; [apply good_blk_row; exact Hf|]. intros [[[cs ab] l'] any].
  pose proof (IH ab). gauto.
Qed.

Lemma good_parse_residuals probs q is4 above left : probs4 probs -> good (parse_residuals probs q is4 above left).
Proof.
  intros Hpr. unfold parse_residuals.
  assert (Htp : forall t, probs3 (nthZ probs t [])) by (intros t; apply nthZ_ok; [exact Hpr|exact nil_probs3]).
  eapply good_bind.
  - destruct is4; [apply good_ret|].
    pose proof (good_decode_block (nthZ probs 1 []) 0 (nz_y2 above + nz_y2 left) (dq_y2dc q) (dq_y2ac q) (Htp 1)). gauto.
  - intros [[[[[y2 a2] l2] any0] first] ytype].
    eapply good_bind; [apply good_blk_rows; intros ctx; apply good_decode_block; apply Htp|].
    intros [[[ys ay] ly] any1].
    eapply good_bind; [apply good_blk_rows; intros ctx; apply good_decode_block; apply Htp|].
    intros [[[us au] lu] any2].
    eapply good_bind; [apply good_blk_rows; intros ctx; apply good_decode_block; apply Htp|].
    intros [[[vs av] lv] any3]. apply good_ret.
Qed.

(** * The macroblock loops of [Vp8Spec] *)
From Webp Require Import Vp8.Vp8Kernels Vp8.Vp8Recon Vp8.Vp8Filter Vp8.Vp8Spec.

Lemma clear_before {A} (f : bdec -> A * bdec) d a d1 : good f -> f d = (a, d1) -> bd_past d1 = false -> bd_past d = false.
Proof.
  intros [Hm _] E H. destruct (bd_past d) eqn:Ep; [|reflexivity].
  pose proof (Hm d Ep) as H1. rewrite E in H1. cbn [snd] in H1. congruence.
Qed.

Lemma row_loop_mono qk h : hdr_ok h -> forall cols left al d0 dt,
  let '(_, _, e0, et) := row_loop qk h cols left al d0 dt in
  (bd_past d0 = true -> bd_past e0 = true) /\ (bd_past dt = true -> bd_past et = true).
Proof.
  intros Hh. induction cols as [|c rest IH]; intros left al d0 dt; cbn [row_loop]; [auto|].
  pose proof (proj1 (good_parse_mb_hdr h (cc_b c) (lc_b left) Hh) d0) as M0.
  destruct (parse_mb_hdr h (cc_b c) (lc_b left) d0) as [[[mh nba] nbl] d0a]. cbn [snd] in M0.
  assert (M1 : bd_past dt = true ->
    bd_past (snd (if mh_skip mh then (zero_res (negb (mh_is4 mh)), skip_ctx (mh_is4 mh) (cc_nz c), skip_ctx (mh_is4 mh) (lc_nz left), dt)
              else parse_residuals (fh_probs h) (seg_dq h (mh_seg mh)) (mh_is4 mh) (cc_nz c) (lc_nz left) dt)) = true).
  { destruct (mh_skip mh); [auto|]. apply (proj1 (good_parse_residuals _ _ _ _ _ (proj2 (proj2 Hh)))). }
  destruct (if mh_skip mh then _ else _) as [[[res na] nl] dta]. cbn [snd] in M1.
  match goal with |- context [row_loop qk h rest ?l ?a d0a dta] => specialize (IH l a d0a dta); destruct (row_loop qk h rest l a d0a dta) as [[[cols' out] e0] et] end.
  destruct IH as [I0 I1]. split; auto.
Qed.

Lemma row_loop_lift qk h : hdr_ok h -> forall cols left al d0 dt d0' dt' c o e0 et,
  sim d0 d0' -> sim dt dt' ->
  row_loop qk h cols left al d0 dt = (c, o, e0, et) -> bd_past e0 = false -> bd_past et = false ->
  exists e0' et', row_loop qk h cols left al d0' dt' = (c, o, e0', et') /\ sim e0 e0' /\ sim et et'.
Proof.
  intros Hh. induction cols as [|c rest IH]; intros left al d0 dt d0' dt' cs o e0 et S0 St E P0 Pt; cbn [row_loop] in *.
  - injection E as <- <- <- <-. exists d0', dt'. auto.
  - pose proof (good_parse_mb_hdr h (cc_b c) (lc_b left) Hh) as G0.
    destruct (parse_mb_hdr h (cc_b c) (lc_b left) d0) as [[[mh nba] nbl] d0a] eqn:E0.
    set (rd := fun dt => if mh_skip mh then (zero_res (negb (mh_is4 mh)), skip_ctx (mh_is4 mh) (cc_nz c), skip_ctx (mh_is4 mh) (lc_nz left), dt)
              else parse_residuals (fh_probs h) (seg_dq h (mh_seg mh)) (mh_is4 mh) (cc_nz c) (lc_nz left) dt).
    assert (G1 : good rd).
    { subst rd. destruct (mh_skip mh); [apply good_ret|apply good_parse_residuals; apply (proj2 (proj2 Hh))]. }
    change (if mh_skip mh then _ else _) with (rd dt) in E.
    destruct (rd dt) as [[[res na] nl] dta] eqn:E1.
    match type of E with context [row_loop qk h rest ?l ?a d0a dta] =>
      pose proof (row_loop_mono qk h Hh rest l a d0a dta) as M; destruct (row_loop qk h rest l a d0a dta) as [[[cols' out] f0] ft] eqn:E2 end.
    injection E as <- <- <- <-. destruct M as [M0 M1].
    assert (Pa0 : bd_past d0a = false) by (destruct (bd_past d0a); [rewrite M0 in P0 by reflexivity; discriminate|reflexivity]).
    assert (Pat : bd_past dta = false) by (destruct (bd_past dta); [rewrite M1 in Pt by reflexivity; discriminate|reflexivity]).
    destruct (proj2 G0 d0 d0' _ d0a S0 E0 Pa0) as (d0a' & E0' & S0a).
    destruct (proj2 G1 dt dt' _ dta St E1 Pat) as (dta' & E1' & Sta).
    rewrite E0'. change (if mh_skip mh then _ else _) with (rd dt'). rewrite E1'.
    destruct (IH _ _ _ _ _ _ _ _ _ _ S0a Sta E2 P0 Pt) as (f0' & ft' & E2' & Sf0 & Sft).
    rewrite E2'. exists f0', ft'. auto.
Qed.

Definition anyp (ps : list bdec) : bool := existsb bd_past ps.

Lemma set_nth_length {A} : forall (l : list A) n a, length (set_nth n a l) = length l.
Proof. induction l as [|x l IH]; intros [|n] a; cbn [set_nth length]; auto. Qed.

Lemma anyp_set_nth_new : forall ps pi dt, (pi < length ps)%nat -> bd_past dt = true -> anyp (set_nth pi dt ps) = true.
Proof.
  induction ps as [|x ps IH]; intros [|pi] dt Hlt Hp; cbn [length set_nth anyp existsb] in *; try lia.
  - rewrite Hp. reflexivity.
  - apply orb_true_iff. right. apply IH; [lia|exact Hp].
Qed.

Lemma anyp_set_nth : forall ps pi dt dflt, (pi < length ps)%nat ->
  (bd_past (nth pi ps dflt) = true -> bd_past dt = true) -> anyp ps = true -> anyp (set_nth pi dt ps) = true.
Proof.
  induction ps as [|x ps IH]; intros [|pi] dt dflt Hlt Hm Ha; cbn [length set_nth anyp existsb nth] in *; try lia.
  - apply orb_true_iff in Ha. destruct Ha as [Ha|Ha]; [rewrite (Hm Ha); reflexivity|rewrite Ha; apply orb_true_r].
  - apply orb_true_iff in Ha. apply orb_true_iff. destruct Ha as [Ha|Ha]; [left; exact Ha|right].
    apply (IH pi dt dflt); [lia|exact Hm|exact Ha].
Qed.

Lemma part_index_lt (mby : Z) (ps : list bdec) : 0 <= mby -> ps <> [] ->
  (Z.to_nat (mby mod Z.of_nat (length ps)) < length ps)%nat.
Proof. intros Hm Hne. destruct ps as [|x ps]; [contradiction|]. cbn [length]. lia. Qed.

Lemma rows_loop_mono qk h : hdr_ok h -> forall nrows mby cols d0 parts, 0 <= mby -> parts <> [] ->
  let '(_, e0, ps) := rows_loop qk h nrows mby cols d0 parts in
  (bd_past d0 = true -> bd_past e0 = true) /\ (anyp parts = true -> anyp ps = true).
Proof.
  intros Hh. induction nrows as [|n IH]; intros mby cols d0 parts Hm Hne; cbn [rows_loop]; [auto|].
  pose proof (part_index_lt mby parts Hm Hne) as Hlt.
  set (pi := Z.to_nat (mby mod Z.of_nat (length parts))) in *.
  pose proof (row_loop_mono qk h Hh cols left0 None d0 (nth pi parts (bd_init []))) as M.
  destruct (row_loop qk h cols left0 None d0 (nth pi parts (bd_init []))) as [[[cols' out] d0a] dt].
  destruct M as [M0 M1].
  assert (Hne' : set_nth pi dt parts <> []).
  { intros E. apply (f_equal (@length bdec)) in E. rewrite set_nth_length in E. cbn in E. lia. }
  specialize (IH (mby + 1) cols' d0a (set_nth pi dt parts) ltac:(lia) Hne').
  destruct (rows_loop qk h n (mby + 1) cols' d0a (set_nth pi dt parts)) as [[outs e0] ps].
  destruct IH as [I0 I1]. split; [auto|]. intros Ha. apply I1. apply (anyp_set_nth parts pi dt (bd_init [])); assumption.
Qed.

Lemma forall2_length {A B} (R : A -> B -> Prop) l1 l2 : Forall2 R l1 l2 -> length l1 = length l2.
Proof. induction 1; cbn [length]; congruence. Qed.

Lemma forall2_nth {A} (R : A -> A -> Prop) : forall l1 l2 i dflt, Forall2 R l1 l2 -> (i < length l1)%nat -> R (nth i l1 dflt) (nth i l2 dflt).
Proof.
  induction l1 as [|x l1 IH]; intros l2 i dflt H Hlt; cbn [length] in Hlt; [lia|].
  inversion H as [|? y ? l2' Hxy Hr]; subst. destruct i as [|i]; cbn [nth]; [exact Hxy|]. apply IH; [exact Hr|lia].
Qed.

Lemma forall2_set_nth {A} (R : A -> A -> Prop) : forall l1 l2 i a b, Forall2 R l1 l2 -> R a b ->
  Forall2 R (set_nth i a l1) (set_nth i b l2).
Proof.
  induction l1 as [|x l1 IH]; intros l2 i a b H Hab; inversion H as [|? y ? l2' Hxy Hr]; subst;
    destruct i as [|i]; cbn [set_nth]; constructor; auto.
Qed.

Lemma rows_loop_lift qk h : hdr_ok h -> forall nrows mby cols d0 parts d0' parts' outs e0 ps,
  0 <= mby -> parts <> [] -> sim d0 d0' -> Forall2 sim parts parts' ->
  rows_loop qk h nrows mby cols d0 parts = (outs, e0, ps) -> bd_past e0 = false -> anyp ps = false ->
  exists e0' ps', rows_loop qk h nrows mby cols d0' parts' = (outs, e0', ps') /\ sim e0 e0' /\ Forall2 sim ps ps'.
Proof.
  intros Hh. induction nrows as [|n IH]; intros mby cols d0 parts d0' parts' outs e0 ps Hm Hne S0 Sp E P0 Pp; cbn [rows_loop] in *.
  - injection E as <- <- <-. exists d0', parts'. auto.
  - rewrite <- (forall2_length _ _ _ Sp).
    pose proof (part_index_lt mby parts Hm Hne) as Hlt.
    set (pi := Z.to_nat (mby mod Z.of_nat (length parts))) in *.
    destruct (row_loop qk h cols left0 None d0 (nth pi parts (bd_init []))) as [[[cols' out] d0a] dt] eqn:E1.
    assert (Hne' : set_nth pi dt parts <> []).
    { intros E0. apply (f_equal (@length bdec)) in E0. rewrite set_nth_length in E0. cbn in E0. lia. }
    pose proof (rows_loop_mono qk h Hh n (mby + 1) cols' d0a (set_nth pi dt parts) ltac:(lia) Hne') as M.
    destruct (rows_loop qk h n (mby + 1) cols' d0a (set_nth pi dt parts)) as [[outs1 f0] ps1] eqn:E2.
    injection E as <- <- <-. destruct M as [M0 M1].
    assert (Pa0 : bd_past d0a = false) by (destruct (bd_past d0a); [rewrite M0 in P0 by reflexivity; discriminate|reflexivity]).
    assert (Pat : bd_past dt = false).
    { destruct (bd_past dt) eqn:Ept; [|reflexivity].
      rewrite M1 in Pp; [discriminate|]. apply anyp_set_nth_new; assumption. }
    destruct (row_loop_lift qk h Hh cols left0 None d0 _ d0' (nth pi parts' (bd_init [])) _ _ _ _ S0
                (forall2_nth sim _ _ pi (bd_init []) Sp Hlt) E1 Pa0 Pat) as (d0a' & dt' & E1' & S0a & St).
    rewrite E1'.
    destruct (IH (mby + 1) cols' d0a (set_nth pi dt parts) d0a' (set_nth pi dt' parts') _ _ _ ltac:(lia) Hne' S0a
                (forall2_set_nth sim _ _ pi _ _ Sp St) E2 P0 Pp) as (f0' & ps1' & E2' & Sf & Sps).
    rewrite E2'. exists f0', ps1'. auto.
Qed.

(** * Frame layout on [d ++ ext] *)
Lemma firstn_app_le {A} (n : nat) (l e : list A) : (n <= length l)%nat -> firstn n (l ++ e) = firstn n l.
Proof. intros H. rewrite firstn_app. replace (n - length l)%nat with 0%nat by lia. cbn [firstn]. apply app_nil_r. Qed.

Lemma parse_layout_app d ext ly : parse_layout d = Ok ly ->
  parse_layout (d ++ ext) =
    Ok (mkLayout (ly_w ly) (ly_h ly) (ly_xs ly) (ly_ys ly) (ly_version ly) (ly_part1 ly) (ly_rest ly ++ ext)).
Proof.
  intros E.
  destruct d as [|b0 [|b1 [|b2 [|s0 [|s1 [|s2 [|w0 [|w1 [|h0 [|h1 rest]]]]]]]]]]; try discriminate E.
  unfold parse_layout in *. cbn [app]. cbv beta iota zeta in *.
  repeat match type of E with (if ?c then _ else _) = Ok _ => destruct c eqn:?; [discriminate E|] end.
  match goal with H : (Z.of_nat (length rest) <? ?ps) = false |- _ =>
    assert (Hps : (Z.to_nat ps <= length rest)%nat) by lia;
    assert (Hc : (Z.of_nat (length (rest ++ ext)) <? ps) = false) by (rewrite app_length; lia) end.
  rewrite Hc. injection E as <-. cbn [ly_w ly_h ly_xs ly_ys ly_version ly_part1 ly_rest].
  rewrite firstn_app_le, skipn_app_lt by exact Hps. reflexivity.
Qed.

Lemma parse_layout_bytes d ly : bytes_ok d -> parse_layout d = Ok ly -> bytes_ok (ly_rest ly).
Proof.
  intros Hd E.
  destruct d as [|b0 [|b1 [|b2 [|s0 [|s1 [|s2 [|w0 [|w1 [|h0 [|h1 rest]]]]]]]]]]; try discriminate E.
  unfold parse_layout in *. cbv beta iota zeta in *.
  repeat match type of E with (if ?c then _ else _) = Ok _ => destruct c eqn:?; [discriminate E|] end.
  injection E as <-. cbn [ly_rest]. apply bytes_ok_skipn.
  apply (bytes_ok_skipn 10 _ Hd).
Qed.

Lemma split_parts_app ext : forall n sizes data ps, split_parts n sizes data = Ok ps ->
  exists init lst, ps = init ++ [lst] /\ split_parts n sizes (data ++ ext) = Ok (init ++ [lst ++ ext]) /\
                   (bytes_ok data -> bytes_ok lst).
Proof.
  induction n as [|n IH]; intros sizes data ps E; cbn [split_parts] in *.
  - injection E as <-. exists [], data. auto.
  - destruct (Z.ltb_spec (Z.of_nat (length data)) (rd24le sizes)) as [Hlt|Hge]; [discriminate|].
    apply bind_ok_inv in E. destruct E as (r & Er & E). injection E as <-.
    destruct (IH _ _ _ Er) as (init & lst & -> & E' & Hb).
    assert (Hsz : (Z.to_nat (rd24le sizes) <= length data)%nat) by lia.
    destruct (Z.ltb_spec (Z.of_nat (length (data ++ ext))) (rd24le sizes)) as [Hlt|_]; [rewrite app_length in Hlt; lia|].
    rewrite skipn_app_lt, firstn_app_le by exact Hsz. rewrite E'. cbn [bind].
    exists (firstn (Z.to_nat (rd24le sizes)) data :: init), lst. split; [reflexivity|]. split; [reflexivity|].
    intros Hd. apply Hb. apply bytes_ok_skipn. exact Hd.
Qed.

Lemma token_parts_app ext log2n rest ps : token_parts log2n rest = Ok ps ->
  exists init lst, ps = init ++ [lst] /\ token_parts log2n (rest ++ ext) = Ok (init ++ [lst ++ ext]) /\
                   (bytes_ok rest -> bytes_ok lst).
Proof.
  unfold token_parts. set (n := Z.to_nat (2 ^ log2n)). set (tbl := (3 * (n - 1))%nat).
  intros E. destruct (Nat.ltb_spec (length rest) tbl) as [Hlt|Hge]; [discriminate|].
  destruct (Nat.ltb_spec (length (rest ++ ext)) tbl) as [Hlt|_]; [rewrite app_length in Hlt; lia|].
  rewrite firstn_app_le, skipn_app_lt by exact Hge.
  destruct (split_parts_app ext _ _ _ _ E) as (init & lst & -> & E' & Hb).
  exists init, lst. split; [reflexivity|]. split; [exact E'|]. intros Hr. apply Hb. apply bytes_ok_skipn. exact Hr.
Qed.

Lemma bd_init_clear m : bd_past (bd_init m) = false.
Proof. destruct m as [|a [|b r]]; reflexivity. Qed.

Lemma sim_init_parts init lst ext : bytes_ok lst -> bytes_ok ext ->
  Forall2 sim (map bd_init (init ++ [lst])) (map bd_init (init ++ [lst ++ ext])).
Proof.
  intros Hl He. induction init as [|x init IH]; cbn [app map].
  - constructor; [|constructor]. split; [apply bd_init_clear|]. right. exists lst, ext.
    split; [exact Hl|]. split; [exact He|]. apply init_rel; assumption.
  - constructor; [apply sim_refl; apply bd_init_clear|exact IH].
Qed.

Lemma anyp_sim ps ps' : Forall2 sim ps ps' -> anyp ps' = false.
Proof. induction 1 as [|x y l l' [Hxy _] _ IH]; cbn [anyp existsb]; [reflexivity|]. rewrite Hxy. exact IH. Qed.

(** * The frame-level theorem *)
Theorem vp8_decode_gen_prefix qk d ext r : bytes_ok d -> bytes_ok ext ->
  decode_gen qk d = Ok r -> dc_past_end r = false -> decode_gen qk (d ++ ext) = Ok r.
Proof.
  intros Hd He E Hp. unfold decode_gen in *.
  apply bind_ok_inv in E. destruct E as (ly & Ely & E).
  rewrite (parse_layout_app d ext ly Ely). cbn [bind ly_w ly_h ly_xs ly_ys ly_part1 ly_rest].
  pose proof (post_parse_part1_hdr (qk_seg_abs_default qk) (ly_w ly) (ly_h ly) (ly_xs ly) (ly_ys ly) (bd_init (ly_part1 ly))) as Hh.
  destruct (parse_part1_hdr (qk_seg_abs_default qk) (ly_w ly) (ly_h ly) (ly_xs ly) (ly_ys ly) (bd_init (ly_part1 ly))) as [h d0] eqn:Eh.
  cbn [fst] in Hh.
  apply bind_ok_inv in E. destruct E as (parts & Eparts & E).
  destruct (token_parts_app ext _ _ _ Eparts) as (init & lst & -> & Eparts' & Hb).
  rewrite Eparts'. cbn [bind].
  pose proof (Hb (parse_layout_bytes d ly Hd Ely)) as Hlst.
  set (mbw := (fh_w h + 15) / 16) in *. set (mbh := (fh_h h + 15) / 16) in *.
  destruct (rows_loop qk h (Z.to_nat mbh) 0 (repeat col0 (Z.to_nat mbw)) d0 (map bd_init (init ++ [lst])))
    as [[rows e0] ps] eqn:Er.
  injection E as <-. cbn [dc_past_end] in Hp. apply orb_false_iff in Hp. destruct Hp as [P0 Pp].
  assert (Pd0 : bd_past d0 = false).
  { pose proof (good_parse_part1_hdr (qk_seg_abs_default qk) (ly_w ly) (ly_h ly) (ly_xs ly) (ly_ys ly)) as G.
    assert (Hne : map bd_init (init ++ [lst]) <> []) by (destruct init; discriminate).
    pose proof (rows_loop_mono qk h Hh (Z.to_nat mbh) 0 (repeat col0 (Z.to_nat mbw)) d0 _ ltac:(lia) Hne) as M.
    rewrite Er in M. destruct M as [M0 _]. destruct (bd_past d0); [rewrite M0 in P0 by reflexivity; discriminate|reflexivity]. }
  assert (Hne : map bd_init (init ++ [lst]) <> []) by (destruct init; discriminate).
  destruct (rows_loop_lift qk h Hh (Z.to_nat mbh) 0 (repeat col0 (Z.to_nat mbw)) d0 _ d0 _ rows e0 ps ltac:(lia) Hne
              (sim_refl d0 Pd0) (sim_init_parts init lst ext Hlst He) Er P0 Pp) as (e0' & ps' & Er' & [Pe0' _] & Sps).
  rewrite Er'. rewrite Pe0', (anyp_sim ps ps' Sps : existsb bd_past ps' = false). rewrite P0.
  unfold anyp in Pp. rewrite Pp. reflexivity.
Qed.

(** [Vp8Spec.decode_yuv] is prefix-monotone: this is [PrefixVp8Bool.vp8_frame_prefix_full_statement]. *)
Theorem vp8_frame_prefix_monotone : vp8_frame_prefix_full_statement.
Proof.
  intros d ext r Hd He E. unfold decode_yuv in *.
  apply bind_ok_inv in E. destruct E as (rr & Err & E).
  destruct (dc_past_end rr) eqn:Ep; [discriminate|].
  unfold decode in *. rewrite (vp8_decode_gen_prefix rfc_quirks d ext rr Hd He Err Ep). cbn [bind]. rewrite Ep. exact E.
Qed.

(** the same for the variant with the Go decoder's deviations from the RFC *)
Theorem vp8_decode_go_prefix d ext r : bytes_ok d -> bytes_ok ext ->
  decode_go d = Ok r -> dc_past_end r = false -> decode_go (d ++ ext) = Ok r.
Proof. apply vp8_decode_gen_prefix. Qed.

(** All-or-nothing form: a prefix of a VP8 frame is rejected, or decodes to exactly
    the picture of the complete frame. *)
Theorem vp8_prefix_all_or_nothing : forall file n r,
  bytes_ok file -> decode_yuv (firstn n file) = Ok r -> decode_yuv file = Ok r.
Proof.
  intros file n r Hf E. rewrite <- (firstn_skipn n file).
  apply vp8_frame_prefix_monotone; [apply bytes_ok_firstn; exact Hf|apply bytes_ok_skipn; exact Hf|exact E].
Qed.
