(** C16, alpha-flag clause for LOSSLESS files written by this package, as a theorem.

    Since commit 552ea86 the VP8L encoder sets the header's alpha_is_used bit iff
    some pixel handed to it has alpha <> 255 ([argbHasAlpha], evaluated after
    cleanupTransparentAreaLossless, which only rewrites alpha-0 pixels to
    transparent black).  Composition of
      - the VP8L builder's round trip [Vp8lRoundtrip.lossless_roundtrip]
        (decode (emit (plan_of img o c)) = Ok (expected img o)) and
        [Vp8lHeaderBytes.emit_header_bytes] (the five header bytes of an emitted stream),
      - the writer / parser round trip [WriterTheorems.metadata_roundtrip]
        (VP8X alpha flag = ALPH present || VP8L header alpha bit; simple layout: the bit),
      - the GetFeatures glue,
    gives: GetFeatures.HasAlpha is true iff some DECODED pixel is not opaque. *)
From Coq Require Import List ZArith Lia Bool.
From Coq Require Import ZifyBool ZifyNat.
From Webp Require Import Base.Res Base.Bytes Riff.ParserModel Riff.ParserLemmas Riff.ParserSpec
     Riff.WriterModel Riff.WriterProofs Riff.FeaturesModel Riff.MetadataProofs Riff.ParserProofs
     Riff.WriterTheorems.
From Webp Require Vp8l.Vp8lPixel Vp8l.Vp8lSpec Vp8l.Vp8lEmit Vp8l.Vp8lEmitDecode Vp8l.Vp8lImport
     Vp8l.Vp8lHeaderBytes Vp8l.Vp8lRoundtrip.
Import ListNotations.
Open Scope Z_scope.

Module P := Vp8lPixel.
Module R := Vp8lRoundtrip.

(** internal/lossless/encode.go argbHasAlpha *)
Definition argb_has_alpha (l : list P.px) : bool := existsb (fun p => negb (P.pa p =? 255)) l.

(** What the Go encoder does with the alpha_is_used choice of the model encoder:
    [enc.encodeStream(argbHasAlpha(argb))], [argb] being the pixels after the
    transparent-area clean-up. *)
Definition go_alpha_choice (img : R.src_image) (o : R.ll_opts) (c : R.choices) : Prop :=
  R.c_alpha c = b2z (argb_has_alpha (map (Vp8lImport.cleanup (R.o_exact o)) (R.s_px img))).

Lemma emit_header_parsed p :
  Vp8lEmitDecode.wf_plan p ->
  parse_vp8l_header (Vp8lEmit.emit p) = Ok (Vp8lEmit.p_w p, Vp8lEmit.p_h p, Vp8lEmit.p_alpha p =? 1).
Proof.
  intros Hwf. destruct (Vp8lHeaderBytes.wf_plan_dims p Hwf) as (Hw & Hh & Ha).
  destruct (Vp8lHeaderBytes.emit_header_bytes p Hwf) as [payload E]. rewrite E.
  set (V := Vp8lEmit.p_w p - 1 + (Vp8lEmit.p_h p - 1) * 16384 + Vp8lEmit.p_alpha p * 268435456).
  assert (HV : 0 <= V < 536870912) by (subst V; lia).
  unfold parse_vp8l_header, VP8LFrameHeaderSize.
  assert (Hl : 5 <= len (47 :: le32 V ++ payload)).
  { rewrite len_cons, len_app, len_le32. pose proof (len_nonneg payload). lia. }
  destruct (Z.ltb_spec (len (47 :: le32 V ++ payload)) 5); [lia|].
  assert (Hs : slice (47 :: le32 V ++ payload) 0 5 = Ok (47 :: le32 V)).
  { change (47 :: le32 V ++ payload) with ((47 :: le32 V) ++ payload).
    change 5 with (len (47 :: le32 V)). apply slice_head. }
  rewrite Hs. cbn [bind]. unfold le32 at 1. cbv iota. unfold VP8LMagicByte.
  change (negb (47 =? 47)) with false. cbv iota.
  rewrite rd32_le32' by lia.
  assert (Hver : (V / 536870912) mod 8 = 0) by lia. rewrite Hver. change (negb (0 =? 0)) with false. cbv iota.
  assert (Hw' : V mod 16384 + 1 = Vp8lEmit.p_w p) by (subst V; lia).
  assert (Hh' : (V / 16384) mod 16384 + 1 = Vp8lEmit.p_h p) by (subst V; lia).
  assert (Ha' : (V / 268435456) mod 2 = Vp8lEmit.p_alpha p) by (subst V; lia).
  rewrite Hw', Hh', Ha'.
  destruct (Z.eqb_spec (Vp8lEmit.p_w p) 0); [lia|]. destruct (Z.eqb_spec (Vp8lEmit.p_h p) 0); [lia|]. cbn [orb].
  f_equal. f_equal.
  destruct (Z.eqb_spec (Vp8lEmit.p_alpha p) 0), (Z.eqb_spec (Vp8lEmit.p_alpha p) 1); cbn; try reflexivity; lia.
Qed.

Lemma argb_has_alpha_exists l : argb_has_alpha l = true <-> Exists (fun p => P.pa p <> 255) l.
Proof.
  unfold argb_has_alpha. rewrite existsb_exists, Exists_exists.
  split; intros (p & Hin & Hp); exists p; split; auto.
  - destruct (Z.eqb_spec (P.pa p) 255); [discriminate|assumption].
  - destruct (Z.eqb_spec (P.pa p) 255); [contradiction|reflexivity].
Qed.

Definition alpha_flag_sound_lossless_statement : Prop :=
  forall img o c icc exif xmp fx file,
    R.valid img o c -> go_alpha_choice img o c ->
    sizes_ok (Vp8lEmit.emit (R.plan_of img o c)) [] icc exif xmp -> len icc <= MaxMetadataSize ->
    write_riff FourCCVP8L (Vp8lEmit.emit (R.plan_of img o c)) [] (R.s_w img) (R.s_h img) icc exif xmp = Ok file ->
    exists im g,
      Vp8lSpec.decode (Vp8lEmit.emit (R.plan_of img o c)) = Ok im /\
      get_features fx file = Ok g /\
      gW g = Vp8lSpec.i_w im /\ gH g = Vp8lSpec.i_h im /\
      (gHasAlpha g = true <-> Exists (fun p => P.pa p <> 255) (Vp8lSpec.i_px im)).

Theorem alpha_flag_sound_lossless : alpha_flag_sound_lossless_statement.
Proof.
  intros img o c icc exif xmp fx file Hv Hgo Hs Hicc Hw.
  pose proof (R.lossless_roundtrip img o c Hv) as Hrt.
  destruct Hv as (Hwf & _).
  pose proof (emit_header_parsed _ Hwf) as Hhdr.
  cbn [R.plan_of Vp8lEmit.p_w Vp8lEmit.p_h Vp8lEmit.p_alpha] in Hhdr.
  set (bs := Vp8lEmit.emit (R.plan_of img o c)) in *.
  set (a := R.c_alpha c =? 1) in *.
  assert (Hin : writer_inputs_ok FourCCVP8L bs [] (R.s_w img) (R.s_h img) icc exif xmp a).
  { constructor.
    - right. reflexivity.
    - unfold header_declares, image_dims. rewrite Z.eqb_refl, Hhdr. reflexivity.
    - intros H. cbn in H. lia.
    - exact Hs. }
  destruct (metadata_roundtrip _ _ _ _ _ _ _ _ _ Hin) as (file' & Hw' & _ & _ & _ & _ & _ & _ & _ & Hp).
  rewrite Hw in Hw'. injection Hw' as <-.
  destruct (Hp Hicc fx) as (r & P1 & _ & W1 & H1 & A1 & _).
  exists (R.expected img o), (features_of r).
  split; [exact Hrt|]. unfold get_features, parse. rewrite P1. cbn [bind fst].
  split; [reflexivity|]. unfold features_of. cbn [gW gH gHasAlpha R.expected Vp8lSpec.i_w Vp8lSpec.i_h Vp8lSpec.i_px].
  split; [exact W1|]. split; [exact H1|].
  rewrite A1. change (len (@nil Z) >? 0) with false. cbn [orb].
  rewrite <- argb_has_alpha_exists. unfold go_alpha_choice in Hgo. subst a. rewrite Hgo.
  destruct (argb_has_alpha _); cbn; split; intros; congruence.
Qed.
