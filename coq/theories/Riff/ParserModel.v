(** Implementation model of internal/container/{riff.go,parser.go}:
    ParseRIFFHeader, ReadChunkHeader, Parser.parse, parseSingleImage, parseVP8X,
    parseVP8XChunks, parseExtSingleImage, parseANMF, parseFrameSubChunks,
    parseVP8Header, parseVP8LHeader, with the MaxFrames / MaxChunks /
    MaxMetadataSize / MaxChunkPayload / MaxImageArea limits.

    Bytes are [Z] in [0,256); a Go slice is a [list Z]; every slice / index
    expression goes through [Base.Res.slice], so an access the Go runtime would
    reject evaluates to [Panic].  A nil slice is [None], a non-nil (possibly
    empty) slice is [Some _] where the code distinguishes them (FrameInfo.AlphaData).

    The parser exists in two variants selected by [fix_noimage : bool]:
    [false] is the pinned tree (parseVP8XChunks returns nil when the chunk list
    ends, whatever was found), [true] is the repaired code (a non-animated VP8X
    file whose chunk list ends without an image chunk is an error). *)
From Coq Require Import List ZArith Lia Bool.
From Webp Require Import Base.Res Base.Bytes.
Import ListNotations.
Open Scope Z_scope.

(** ** Constants (tied to the Go source by [Properties/C17.v : C17_consts_match_source]) *)
Definition FourCCRIFF : Z := 1179011410.
Definition FourCCWEBP : Z := 1346520407.
Definition FourCCVP8  : Z := 540561494.
Definition FourCCVP8L : Z := 1278758998.
Definition FourCCVP8X : Z := 1480085590.
Definition FourCCALPH : Z := 1213221953.
Definition FourCCANIM : Z := 1296649793.
Definition FourCCANMF : Z := 1179471425.
Definition FourCCICCP : Z := 1346585417.
Definition FourCCEXIF : Z := 1179211845.
Definition FourCCXMP  : Z := 542133592.

Definition ChunkHeaderSize : Z := 8.
Definition RIFFHeaderSize : Z := 12.
Definition VP8XChunkSize : Z := 10.
Definition ANIMChunkSize : Z := 6.
Definition ANMFChunkSize : Z := 16.
Definition VP8FrameHeaderSize : Z := 10.
Definition VP8LFrameHeaderSize : Z := 5.
Definition VP8LMagicByte : Z := 47.
Definition MaxChunkPayload : Z := 4294967286.
Definition MaxImageArea : Z := 1073741824.
Definition MaxFrames : Z := 10000.
Definition MaxChunks : Z := 1000.
Definition MaxMetadataSize : Z := 104857600.

Definition FormatUndefined : Z := 0.
Definition FormatVP8 : Z := 1.
Definition FormatVP8L : Z := 2.
Definition FormatVP8X : Z := 3.

(** Error classes (the sentinel errors of riff.go; [EOther] = the fmt.Errorf
    values of parseVP8Header / parseVP8LHeader that wrap no sentinel). *)
Definition ETruncated : nat := 1.
Definition EInvalidRIFF : nat := 2.
Definition EInvalidWebP : nat := 3.
Definition ETooLarge : nat := 4.
Definition EInvalidChunk : nat := 5.
Definition EInvalidVP8X : nat := 6.
Definition EInvalidFlags : nat := 7.
Definition EUnsupported : nat := 8.
Definition EInvalidImage : nat := 9.
Definition EOther : nat := 10.
Definition EOutOfFuel : nat := 99.

Definition len {A} (l : list A) : Z := Z.of_nat (length l).

(** ** Data *)
Record Features := mkFeatures {
  fWidth : Z; fHeight : Z;
  fHasAlpha : bool; fHasAnim : bool; fHasICCP : bool; fHasEXIF : bool; fHasXMP : bool;
  fFormat : Z; fLoopCount : Z; fBGColor : Z; fCanvasW : Z; fCanvasH : Z }.

Definition features0 : Features :=
  mkFeatures 0 0 false false false false false FormatUndefined 0 0 0 0.

Record FrameInfo := mkFrame {
  frX : Z; frY : Z; frW : Z; frH : Z; frDur : Z;
  frDisposeBG : bool; frBlendNone : bool;
  frHasAlpha : bool; frLossless : bool;
  frPayload : list Z;
  frAlpha : option (list Z) }.

Definition frame0 : FrameInfo := mkFrame 0 0 0 0 0 false false false false [] None.

Record Chunk := mkChunk { ckId : Z; ckData : list Z }.

Record Parsed := mkParsed { pFeat : Features; pFrames : list FrameInfo; pChunks : list Chunk }.

(** Which return statement produced the result: a top-level image chunk was
    found ([KStill]: parseSingleImage / parseExtSingleImage) or the VP8X chunk
    list ran to its end ([KList]: animations, and VP8X files without image). *)
Inductive Kind := KStill | KList.

(** ** Bitstream headers *)
Definition parse_vp8_header (data : list Z) : Res (Z * Z) :=
  if len data <? VP8FrameHeaderSize then Err ETruncated else
  hd <- slice data 0 10 ;;
  match hd with
  | [b0; b1; b2; b3; b4; b5; b6; b7; b8; b9] =>
    let frameTag := b0 + 256 * b1 + 65536 * b2 in
    if negb (frameTag mod 2 =? 0) then Err EOther else
    let sig := 65536 * b3 + 256 * b4 + b5 in
    if negb (sig =? 10289450) then Err EOther else
    let w := (rd16 [b6; b7]) mod 16384 in
    let h := (rd16 [b8; b9]) mod 16384 in
    if (w =? 0) || (h =? 0) then Err EInvalidImage else Ok (w, h)
  | _ => Panic
  end.

Definition parse_vp8l_header (data : list Z) : Res (Z * Z * bool) :=
  if len data <? VP8LFrameHeaderSize then Err ETruncated else
  hd <- slice data 0 5 ;;
  match hd with
  | [b0; b1; b2; b3; b4] =>
    if negb (b0 =? VP8LMagicByte) then Err EOther else
    let bits := rd32 [b1; b2; b3; b4] in
    let w := bits mod 16384 + 1 in
    let h := (bits / 16384) mod 16384 + 1 in
    let alpha := negb ((bits / 268435456) mod 2 =? 0) in
    let version := (bits / 536870912) mod 8 in
    if negb (version =? 0) then Err EOther else
    if (w =? 0) || (h =? 0) then Err EInvalidImage else Ok (w, h, alpha)
  | _ => Panic
  end.

(** ** RIFF and chunk headers *)
Definition parse_riff_header (data : list Z) : Res Z :=
  if len data <? RIFFHeaderSize then Err ETruncated else
  t <- slice data 0 4 ;;
  if negb (rd32 t =? FourCCRIFF) then Err EInvalidRIFF else
  s <- slice data 4 8 ;;
  let fileSize := rd32 s in
  if fileSize <? ChunkHeaderSize then Err EInvalidRIFF else
  if fileSize >? MaxChunkPayload then Err ETooLarge else
  w <- slice data 8 12 ;;
  if negb (rd32 w =? FourCCWEBP) then Err EInvalidWebP else Ok fileSize.

Definition read_chunk_header (buf : list Z) : Res (Z * Z) :=
  if len buf <? ChunkHeaderSize then Err ETruncated else
  a <- slice buf 0 4 ;;
  b <- slice buf 4 8 ;;
  let size := rd32 b in
  if size >? MaxChunkPayload then Err ETooLarge else Ok (rd32 a, size).

(** The common prologue of every chunk loop body: header, padded total size
    against the remaining buffer, payload slice.  Returns fourcc, payloadSize,
    chunkTotal, payload. *)
Definition chunk_at (buf : list Z) : Res (Z * Z * Z * list Z) :=
  '(fourcc, size) <- read_chunk_header buf ;;
  let padded := size + size mod 2 in
  let total := ChunkHeaderSize + padded in
  if total >? len buf then Err ETruncated else
  payload <- slice buf ChunkHeaderSize (ChunkHeaderSize + size) ;;
  Ok (fourcc, size, total, payload).

Definition is_image_fourcc (f : Z) : bool := (f =? FourCCVP8) || (f =? FourCCVP8L).

(** ** parseSingleImage *)
Definition parse_single_image (fmt : Z) (buf : list Z) : Res Parsed :=
  '(fourcc, size, _, payload) <- chunk_at buf ;;
  if fourcc =? FourCCVP8L then
    '(w, h, alpha) <- parse_vp8l_header payload ;;
    Ok (mkParsed
          (mkFeatures w h alpha false false false false fmt 0 0 w h)
          [mkFrame 0 0 w h 0 false false alpha true payload None] [])
  else
    '(w, h) <- parse_vp8_header payload ;;
    Ok (mkParsed
          (mkFeatures w h false false false false false fmt 0 0 w h)
          [mkFrame 0 0 w h 0 false false false false payload None] []).

(** ** parseFrameSubChunks / parseANMF *)
Fixpoint parse_frame_sub (fuel : nat) (frame : FrameInfo) (alph : option (list Z))
         (buf : list Z) : Res FrameInfo :=
  match fuel with
  | O => Err EOutOfFuel
  | S fuel' =>
    let finish := match alph with Some _ => Err EInvalidChunk | None => Ok frame end in
    if len buf <? ChunkHeaderSize then finish else
    '(fourcc, size, total, payload) <- chunk_at buf ;;
    if fourcc =? FourCCALPH then
      rest <- slice buf total (len buf) ;;
      parse_frame_sub fuel'
        (mkFrame (frX frame) (frY frame) (frW frame) (frH frame) (frDur frame)
                 (frDisposeBG frame) (frBlendNone frame) true (frLossless frame)
                 (frPayload frame) (frAlpha frame))
        (Some payload) rest
    else if fourcc =? FourCCVP8L then
      match alph with
      | Some _ => Err EInvalidChunk
      | None =>
        '(_, _, alpha) <- parse_vp8l_header payload ;;
        Ok (mkFrame (frX frame) (frY frame) (frW frame) (frH frame) (frDur frame)
                    (frDisposeBG frame) (frBlendNone frame)
                    (if alpha then true else frHasAlpha frame) true payload (frAlpha frame))
      end
    else if fourcc =? FourCCVP8 then
      Ok (mkFrame (frX frame) (frY frame) (frW frame) (frH frame) (frDur frame)
                  (frDisposeBG frame) (frBlendNone frame) (frHasAlpha frame) false payload alph)
    else finish
  end.

Definition parse_anmf (payload : list Z) : Res FrameInfo :=
  if len payload <? ANMFChunkSize then Err EInvalidChunk else
  hd <- slice payload 0 16 ;;
  match hd with
  | [x0; x1; x2; y0; y1; y2; w0; w1; w2; h0; h1; h2; d0; d1; d2; bits] =>
    let xo := 2 * rd24 [x0; x1; x2] in
    let yo := 2 * rd24 [y0; y1; y2] in
    let w := 1 + rd24 [w0; w1; w2] in
    let h := 1 + rd24 [h0; h1; h2] in
    let dur := rd24 [d0; d1; d2] in
    if (xo <? 0) || (yo <? 0) then Err EInvalidChunk else
    if w * h >=? MaxImageArea then Err EInvalidImage else
    sub <- slice payload ANMFChunkSize (len payload) ;;
    parse_frame_sub (S (length sub))
      (mkFrame xo yo w h dur (negb (bits mod 2 =? 0)) (negb ((bits / 2) mod 2 =? 0))
               false false [] None) None sub
  | _ => Panic
  end.

(** ** parseExtSingleImage *)
Definition set_alpha (f : Features) : Features :=
  mkFeatures (fWidth f) (fHeight f) true (fHasAnim f) (fHasICCP f) (fHasEXIF f) (fHasXMP f)
             (fFormat f) (fLoopCount f) (fBGColor f) (fCanvasW f) (fCanvasH f).
Definition set_dims (f : Features) (w h : Z) : Features :=
  mkFeatures w h (fHasAlpha f) (fHasAnim f) (fHasICCP f) (fHasEXIF f) (fHasXMP f)
             (fFormat f) (fLoopCount f) (fBGColor f) (fCanvasW f) (fCanvasH f).
Definition set_anim (f : Features) (bg loop : Z) : Features :=
  mkFeatures (fWidth f) (fHeight f) (fHasAlpha f) (fHasAnim f) (fHasICCP f) (fHasEXIF f) (fHasXMP f)
             (fFormat f) loop bg (fCanvasW f) (fCanvasH f).

Fixpoint parse_ext_single (fuel : nat) (feat : Features) (frames : list FrameInfo)
         (chunks : list Chunk) (alph : option (list Z)) (buf : list Z) : Res Parsed :=
  match fuel with
  | O => Err EOutOfFuel
  | S fuel' =>
    if len buf <? ChunkHeaderSize then Err EInvalidChunk else
    '(fourcc, size, total, payload) <- chunk_at buf ;;
    let has_alph := match alph with Some _ => true | None => false end in
    if fourcc =? FourCCALPH then
      rest <- slice buf total (len buf) ;;
      parse_ext_single fuel' (set_alpha feat) frames chunks (Some payload) rest
    else if fourcc =? FourCCVP8L then
      if has_alph then Err EInvalidChunk else
      '(w, h, alpha) <- parse_vp8l_header payload ;;
      let feat' := set_dims (if alpha then set_alpha feat else feat) w h in
      Ok (mkParsed feat' (frames ++ [mkFrame 0 0 w h 0 false false alpha true payload None]) chunks)
    else if fourcc =? FourCCVP8 then
      '(w, h) <- parse_vp8_header payload ;;
      Ok (mkParsed (set_dims feat w h)
                   (frames ++ [mkFrame 0 0 w h 0 false false has_alph false payload alph]) chunks)
    else Err EInvalidChunk
  end.

(** ** parseVP8XChunks *)
Definition add_meta (flag : bool) (size : Z) (id : Z) (payload : list Z) (chunks : list Chunk)
  : Res (list Chunk) :=
  if flag then
    if size >? MaxMetadataSize then Err EInvalidChunk
    else Ok (chunks ++ [mkChunk id payload])
  else Ok chunks.

Fixpoint parse_vp8x_chunks (fuel : nat) (fix_noimage : bool) (feat : Features)
         (frames : list FrameInfo) (chunks : list Chunk) (animChunks : Z)
         (buf : list Z) : Res (Parsed * Kind) :=
  match fuel with
  | O => Err EOutOfFuel
  | S fuel' =>
    let isAnim := fHasAnim feat in
    if len buf <? ChunkHeaderSize then
      (* loop exit *)
      if fix_noimage && negb isAnim && (len frames =? 0) then Err ETruncated
      else Ok (mkParsed feat frames chunks, KList)
    else
    '(fourcc, size, total, payload) <- chunk_at buf ;;
    let continue feat frames chunks animChunks :=
        rest <- slice buf total (len buf) ;;
        parse_vp8x_chunks fuel' fix_noimage feat frames chunks animChunks rest in
    if fourcc =? FourCCVP8X then Err EInvalidChunk
    else if fourcc =? FourCCANIM then
      if size <? ANIMChunkSize then Err EInvalidChunk else
      bg <- slice payload 0 4 ;;
      lc <- slice payload 4 6 ;;
      continue (set_anim feat (rd32 bg) (rd16 lc)) frames chunks (animChunks + 1)
    else if fourcc =? FourCCANMF then
      if animChunks =? 0 then Err EInvalidChunk else
      if len frames >=? MaxFrames then Err EInvalidChunk else
      fr <- parse_anmf payload ;;
      continue feat (frames ++ [fr]) chunks animChunks
    else if is_image_fourcc fourcc || (fourcc =? FourCCALPH) then
      if (animChunks >? 0) || isAnim then Err EInvalidChunk else
      r <- parse_ext_single (S (length buf)) feat frames chunks None buf ;;
      Ok (r, KStill)
    else if fourcc =? FourCCICCP then
      cs <- add_meta (fHasICCP feat) size fourcc payload chunks ;;
      continue feat frames cs animChunks
    else if fourcc =? FourCCEXIF then
      cs <- add_meta (fHasEXIF feat) size fourcc payload chunks ;;
      continue feat frames cs animChunks
    else if fourcc =? FourCCXMP then
      cs <- add_meta (fHasXMP feat) size fourcc payload chunks ;;
      continue feat frames cs animChunks
    else
      if len chunks >=? MaxChunks then Err EInvalidChunk else
      if size >? MaxMetadataSize then Err EInvalidChunk else
      continue feat frames (chunks ++ [mkChunk fourcc payload]) animChunks
  end.

(** ** parseVP8X *)
Definition parse_vp8x (fix_noimage : bool) (buf : list Z) : Res (Parsed * Kind) :=
  '(_, size) <- read_chunk_header buf ;;
  if negb (size =? VP8XChunkSize) then Err EInvalidVP8X else
  let padded := size + size mod 2 in
  if ChunkHeaderSize + padded >? len buf then Err ETruncated else
  payload <- slice buf ChunkHeaderSize (ChunkHeaderSize + size) ;;
  match payload with
  | [flags; _; _; _; w0; w1; w2; h0; h1; h2] =>
    (* flags & ^AllValidFlags, on the uint32 widening of one byte *)
    if negb (Z.land flags 4294967233 =? 0) then Err EInvalidFlags else
    let cw := 1 + rd24 [w0; w1; w2] in
    let ch := 1 + rd24 [h0; h1; h2] in
    if cw * ch >=? MaxImageArea then Err EInvalidImage else
    let feat := mkFeatures cw ch (Z.testbit flags 4) (Z.testbit flags 1) (Z.testbit flags 5)
                           (Z.testbit flags 3) (Z.testbit flags 2) FormatVP8X 1 4294967295 cw ch in
    rest <- slice buf (ChunkHeaderSize + padded) (len buf) ;;
    parse_vp8x_chunks (S (length rest)) fix_noimage feat [] [] 0 rest
  | _ => Panic
  end.

(** ** Parser.parse / NewParser *)
Definition parse_ex (fix_noimage : bool) (data : list Z) : Res (Parsed * Kind) :=
  fileSize <- parse_riff_header data ;;
  let riffEnd64 := fileSize + ChunkHeaderSize in
  let riffEnd := if riffEnd64 >? len data then len data else riffEnd64 in
  buf <- slice data RIFFHeaderSize riffEnd ;;
  if len buf <? ChunkHeaderSize then Err ETruncated else
  t <- slice buf 0 4 ;;
  let first := rd32 t in
  if first =? FourCCVP8X then parse_vp8x fix_noimage buf
  else if first =? FourCCVP8 then r <- parse_single_image FormatVP8 buf ;; Ok (r, KStill)
  else if first =? FourCCVP8L then r <- parse_single_image FormatVP8L buf ;; Ok (r, KStill)
  else Err EUnsupported.

Definition parse (fix_noimage : bool) (data : list Z) : Res Parsed :=
  r <- parse_ex fix_noimage data ;; Ok (fst r).

(** The pinned tree's parser (before commit 86109c7), kept only as the subject of
    the [_refuted] theorems; the check runs [parse true] / [parse_ex true]. *)
Definition pinned_parse_ex : list Z -> Res (Parsed * Kind) := parse_ex false.
Definition pinned_parse : list Z -> Res Parsed := parse false.
