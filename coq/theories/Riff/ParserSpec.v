(** Specification side (written from the WebP container specification, not from
    the Go code): a RIFF chunk walker, chunk lookup by id, and the
    well-formedness of a still WebP file: RIFF size field = file length - 8,
    chunks tile the body exactly, odd payloads are followed by a zero pad byte,
    chunk order VP8X [ICCP] [ALPH] image [EXIF] [XMP], VP8X flags announce exactly
    the optional chunks present, reserved bits zero, canvas = image size. *)
From Coq Require Import List ZArith Lia Bool.
From Webp Require Import Base.Res Base.Bytes Riff.ParserModel.
Import ListNotations.
Open Scope Z_scope.

(** One (id, payload) pair per chunk; [None] when the bytes are not a sequence
    of complete padded chunks. *)
Fixpoint walk (fuel : nat) (buf : list Z) : option (list (Z * list Z)) :=
  match buf with
  | [] => Some []
  | _ =>
    match fuel with
    | O => None
    | S fuel' =>
      match buf with
      | a0 :: a1 :: a2 :: a3 :: s0 :: s1 :: s2 :: s3 :: rest =>
        let size := rd32 [s0; s1; s2; s3] in
        let padded := size + size mod 2 in
        if padded <=? len rest then
          let padok := if size mod 2 =? 0 then true
                       else match skipn (Z.to_nat size) rest with p :: _ => p =? 0 | [] => false end in
          if padok then
            match walk fuel' (skipn (Z.to_nat padded) rest) with
            | Some cs => Some ((rd32 [a0; a1; a2; a3], firstn (Z.to_nat size) rest) :: cs)
            | None => None
            end
          else None
        else None
      | _ => None
      end
    end
  end.

Definition riff_chunks (file : list Z) : option (list (Z * list Z)) :=
  match file with
  | r0 :: r1 :: r2 :: r3 :: s0 :: s1 :: s2 :: s3 :: w0 :: w1 :: w2 :: w3 :: body =>
    if (rd32 [r0; r1; r2; r3] =? FourCCRIFF) && (rd32 [w0; w1; w2; w3] =? FourCCWEBP)
       && (rd32 [s0; s1; s2; s3] =? len file - 8)
    then walk (S (length body)) body else None
  | _ => None
  end.

Fixpoint find_chunk (id : Z) (cs : list (Z * list Z)) : option (list Z) :=
  match cs with
  | [] => None
  | (i, d) :: tl => if i =? id then Some d else find_chunk id tl
  end.

(** "read back by chunk id" *)
Definition spec_get_chunk (file : list Z) (id : Z) : option (list Z) :=
  match riff_chunks file with
  | Some cs => find_chunk id cs
  | None => None
  end.

Definition take_opt (id : Z) (cs : list (Z * list Z)) : option (list Z) * list (Z * list Z) :=
  match cs with
  | (i, d) :: tl => if i =? id then (Some d, tl) else (None, cs)
  | [] => (None, cs)
  end.

Definition is_some {A} (o : option A) : bool := match o with Some _ => true | None => false end.

(** Dimensions and alpha bit the image bitstream header declares. *)
Definition image_dims (id : Z) (bs : list Z) : option (Z * Z * bool) :=
  if id =? FourCCVP8L then
    match parse_vp8l_header bs with Ok (w, h, a) => Some (w, h, a) | _ => None end
  else if id =? FourCCVP8 then
    match parse_vp8_header bs with Ok (w, h) => Some (w, h, false) | _ => None end
  else None.

Definition still_layout_ok (cs : list (Z * list Z)) : bool :=
  match cs with
  | [(id, bs)] => is_some (image_dims id bs)
  | (x, [flags; r1; r2; r3; w0; w1; w2; h0; h1; h2]) :: rest =>
    let '(icc, rest1) := take_opt FourCCICCP rest in
    let '(alph, rest2) := take_opt FourCCALPH rest1 in
    match rest2 with
    | (id, bs) :: rest3 =>
      let '(exif, rest4) := take_opt FourCCEXIF rest3 in
      let '(xmp, rest5) := take_opt FourCCXMP rest4 in
      match rest5, image_dims id bs with
      | [], Some (w, h, a) =>
        (x =? FourCCVP8X)
        && (r1 =? 0) && (r2 =? 0) && (r3 =? 0)
        && (Z.land flags 195 =? 0)                       (* reserved bits and animation clear *)
        && Bool.eqb (Z.testbit flags 5) (is_some icc)
        && Bool.eqb (Z.testbit flags 3) (is_some exif)
        && Bool.eqb (Z.testbit flags 2) (is_some xmp)
        && Bool.eqb (Z.testbit flags 4) (is_some alph || a)
        && (negb (is_some alph) || (id =? FourCCVP8))    (* ALPH only beside a lossy image *)
        && (1 + rd24 [w0; w1; w2] =? w) && (1 + rd24 [h0; h1; h2] =? h)
      | _, _ => false
      end
    | [] => false
    end
  | _ => false
  end.

Definition riff_wf (file : list Z) : bool :=
  (len file mod 2 =? 0) &&
  match riff_chunks file with
  | Some cs => still_layout_ok cs
  | None => false
  end.
