(** C15 — the statements about [write_riff] (Encode's container writer, both
    layouts) assembled from MetadataProofs / ParserProofs, and the output
    selection of AnimEncoder.Close. *)
From Coq Require Import List ZArith Lia Bool.
From Coq Require Import ZifyBool ZifyNat.
From Webp Require Import Base.Res Base.Bytes Riff.ParserModel Riff.ParserLemmas Riff.ParserSpec
     Riff.WriterModel Riff.WriterProofs Riff.FeaturesModel Riff.MetadataProofs Riff.ParserProofs.
Import ListNotations.
Open Scope Z_scope.

(** ** The simple layout, specification side *)
Lemma riff_chunks_simple fourcc bs :
  image_fourcc fourcc -> len bs < 4294967296 - 21 ->
  riff_chunks (simple_file fourcc bs) = Some [(fourcc, bs)].
Proof.
  intros Hf Hl. pose proof (len_nonneg bs) as H0. pose proof (image_fourcc_range _ Hf) as Hr.
  destruct fourcc_ranges as (_ & _ & _ & _ & _ & _ & _ & HR & HW).
  unfold simple_file.
  set (body := chunk fourcc bs). set (rs := 4 + len body).
  assert (Hrs0 : 0 <= rs < 4294967296).
  { subst rs body. rewrite len_chunk. unfold padded_chunk_size, ChunkHeaderSize. lia. }
  unfold le32. cbn [app riff_chunks].
  rewrite !rd32_le32' by assumption. rewrite !Z.eqb_refl. cbn [andb]. rewrite !len_cons.
  destruct (Z.eqb_spec rs (1 + (1 + (1 + (1 + (1 + (1 + (1 + (1 + (1 + (1 + (1 + (1 + len body))))))))))) - 8));
    [|lia].
  subst body. rewrite <- (app_nil_r (chunk fourcc bs)) at 2.
  apply walk_chunk_some; [exact Hr|lia|]. destruct (length (chunk fourcc bs)); reflexivity.
Qed.

Lemma still_layout_single id bs : still_layout_ok [(id, bs)] = is_some (image_dims id bs).
Proof.
  unfold still_layout_ok.
  do 11 (try (destruct bs as [|? bs]; [reflexivity|])). reflexivity.
Qed.

Lemma simple_file_wf fourcc bs w h a :
  image_fourcc fourcc -> len bs < 4294967296 - 21 -> header_declares fourcc bs w h a ->
  riff_wf (simple_file fourcc bs) = true.
Proof.
  intros Hf Hl Hd. unfold riff_wf. rewrite (riff_chunks_simple _ _ Hf Hl).
  rewrite still_layout_single. unfold header_declares in Hd. rewrite Hd. cbn [is_some].
  rewrite andb_true_r. unfold simple_file. rewrite !len_app, !len_le32, len_chunk.
  unfold padded_chunk_size, ChunkHeaderSize. pose proof (len_nonneg bs).
  destruct (Z.eqb_spec ((4 + (4 + (4 + (8 + len bs + len bs mod 2)))) mod 2) 0); [reflexivity|lia].
Qed.

(** ** metadata_roundtrip *)
(** What Encode guarantees when it calls writeRIFF. *)
Record writer_inputs_ok (fourcc : Z) (bs alpha : list Z) (w h : Z) (icc exif xmp : list Z) (a : bool) : Prop := {
  wi_fourcc : image_fourcc fourcc;
  wi_header : header_declares fourcc bs w h a;          (* the bitstream is for a w x h picture *)
  wi_alph : len alpha > 0 -> fourcc = FourCCVP8;        (* ALPH only beside a lossy image *)
  wi_sizes : sizes_ok bs alpha icc exif xmp               (* the writer's own size guard *)
}.

Definition is_extended (alpha icc exif xmp : list Z) : bool :=
  (len alpha >? 0) || (len icc >? 0) || (len exif >? 0) || (len xmp >? 0).

Definition metadata_roundtrip_statement : Prop :=
  forall fourcc bs alpha w h icc exif xmp a,
    writer_inputs_ok fourcc bs alpha w h icc exif xmp a ->
    exists file,
      write_riff fourcc bs alpha w h icc exif xmp = Ok file /\
      (* read back by chunk id, byte for byte; an empty blob is absent *)
      spec_get_chunk file FourCCICCP = opt_blob icc /\
      spec_get_chunk file FourCCEXIF = opt_blob exif /\
      spec_get_chunk file FourCCXMP = opt_blob xmp /\
      spec_get_chunk file FourCCALPH = opt_blob alpha /\
      spec_get_chunk file fourcc = Some bs /\
      (* RIFF well-formedness: sizes, padding, order, flags <-> chunks, canvas = image *)
      riff_wf file = true /\ len file mod 2 = 0 /\
      (* the parser model (either variant) returns the picture parts and announces exactly the blobs *)
      (len icc <= MaxMetadataSize -> forall fx, exists r,
         parse_ex fx file = Ok (r, KStill) /\
         pFrames r = [expected_frame fourcc bs alpha w h a] /\
         fWidth (pFeat r) = w /\ fHeight (pFeat r) = h /\
         fHasAlpha (pFeat r) = ((len alpha >? 0) || a) /\
         fHasICCP (pFeat r) = (len icc >? 0) /\ fHasEXIF (pFeat r) = (len exif >? 0) /\
         fHasXMP (pFeat r) = (len xmp >? 0) /\
         pChunks r = expected_chunks icc /\
         fFormat (pFeat r) = (if is_extended alpha icc exif xmp then FormatVP8X
                              else if fourcc =? FourCCVP8L then FormatVP8L else FormatVP8)).

Lemma not_extended_empty alpha icc exif xmp :
  is_extended alpha icc exif xmp = false ->
  (len alpha >? 0) = false /\ (len icc >? 0) = false /\ (len exif >? 0) = false /\ (len xmp >? 0) = false.
Proof.
  unfold is_extended. destruct (len alpha >? 0), (len icc >? 0), (len exif >? 0), (len xmp >? 0);
    cbn; intros; try discriminate; auto.
Qed.

Lemma sizes_ok_simple bs alpha icc exif xmp :
  sizes_ok bs alpha icc exif xmp -> len bs < 4294967296 - 21.
Proof.
  unfold sizes_ok, riff_size_extended, padded_chunk_size, ChunkHeaderSize, VP8XChunkSize.
  pose proof (opt_size_bounds icc). pose proof (opt_size_bounds alpha).
  pose proof (opt_size_bounds exif). pose proof (opt_size_bounds xmp). pose proof (len_nonneg bs). lia.
Qed.

Theorem metadata_roundtrip : metadata_roundtrip_statement.
Proof.
  intros fourcc bs alpha w h icc exif xmp a [Hf Hd Halph Hs].
  unfold write_riff. fold (is_extended alpha icc exif xmp).
  destruct (is_extended alpha icc exif xmp) eqn:Eext.
  - destruct (proj1 (proj1 (riff_size_guard_complete fourcc bs alpha w h icc exif xmp)) Hs) as [file Hw].
    exists file. split; [exact Hw|].
    destruct (metadata_roundtrip_extended _ _ _ _ _ _ _ _ _ Hf Hs Hw) as (H1 & H2 & H3 & H4 & H5).
    destruct (header_declares_range _ _ _ _ _ Hf Hd) as [Hwr Hhr].
    repeat (split; [assumption|]).
    split; [apply (written_file_wf _ _ _ _ _ _ _ _ a _ Hf Hs Hd); (lia || assumption)|].
    split; [apply (write_extended_length _ _ _ _ _ _ _ _ _ Hw)|].
    intros Hicc fx. eexists. split; [apply (parse_written_extended fx _ _ _ _ _ _ _ _ a _ Hf Hs Hd Halph Hicc Hw)|].
    cbn [pFrames pFeat pChunks expected_features fWidth fHeight fHasAlpha fHasICCP fHasEXIF fHasXMP fFormat].
    repeat split; reflexivity.
  - destruct (not_extended_empty _ _ _ _ Eext) as (Ea & Ei & Ee & Ex).
    pose proof (sizes_ok_simple _ _ _ _ _ Hs) as Hl.
    exists (simple_file fourcc bs). split; [apply write_simple_eq; exact Hl|].
    unfold spec_get_chunk. rewrite (riff_chunks_simple _ _ Hf Hl). unfold opt_blob. rewrite Ea, Ei, Ee, Ex.
    cbn [find_chunk]. rewrite Z.eqb_refl.
    assert (Hne : (fourcc =? FourCCICCP) = false /\ (fourcc =? FourCCEXIF) = false /\
                  (fourcc =? FourCCXMP) = false /\ (fourcc =? FourCCALPH) = false)
      by (destruct Hf as [->| ->]; repeat split; reflexivity).
    destruct Hne as (-> & -> & -> & ->).
    repeat (split; [reflexivity|]).
    split; [apply (simple_file_wf _ _ w h a Hf Hl Hd)|].
    split.
    { pose proof (simple_file_wf _ _ w h a Hf Hl Hd) as Hwf. unfold riff_wf in Hwf.
      destruct (Z.eqb_spec (len (simple_file fourcc bs) mod 2) 0); [assumption|discriminate]. }
    intros _ fx. eexists. split; [apply (parse_written_simple fx _ _ w h a Hf Hl Hd)|].
    cbn [pFrames pFeat pChunks simple_features fWidth fHeight fHasAlpha fHasICCP fHasEXIF fHasXMP fFormat].
    unfold expected_frame, expected_chunks, opt_blob. rewrite Ea, Ei.
    assert (Ha : a = ((false || a))) by reflexivity.
    repeat split; reflexivity.
Qed.

(** ** metadata_irrelevant *)
(** Two encodings of the same picture parts that differ only in the metadata:
    the image and alpha chunks hold the same bytes, the parser hands the codecs
    the same frame, and therefore Decode returns the same image for every codec. *)
Definition metadata_irrelevant_statement : Prop :=
  forall fourcc bs alpha w h a icc1 exif1 xmp1 icc2 exif2 xmp2,
    writer_inputs_ok fourcc bs alpha w h icc1 exif1 xmp1 a ->
    writer_inputs_ok fourcc bs alpha w h icc2 exif2 xmp2 a ->
    len icc1 <= MaxMetadataSize -> len icc2 <= MaxMetadataSize ->
    exists f1 f2,
      write_riff fourcc bs alpha w h icc1 exif1 xmp1 = Ok f1 /\
      write_riff fourcc bs alpha w h icc2 exif2 xmp2 = Ok f2 /\
      spec_get_chunk f1 fourcc = spec_get_chunk f2 fourcc /\
      spec_get_chunk f1 FourCCALPH = spec_get_chunk f2 FourCCALPH /\
      (forall fx, exists r1 r2,
         parse_ex fx f1 = Ok (r1, KStill) /\ parse_ex fx f2 = Ok (r2, KStill) /\
         pFrames r1 = pFrames r2 /\
         fWidth (pFeat r1) = fWidth (pFeat r2) /\ fHeight (pFeat r1) = fHeight (pFeat r2) /\
         fHasAlpha (pFeat r1) = fHasAlpha (pFeat r2)) /\
      (forall (Pix : Type) (ld ll : list Z -> Res (Z * Z * Pix)) (ad : list Z -> Z -> Z -> Res Pix) fx,
         decode_bytes ld ll ad fx f1 = decode_bytes ld ll ad fx f2).

Theorem metadata_irrelevant : metadata_irrelevant_statement.
Proof.
  intros fourcc bs alpha w h a icc1 exif1 xmp1 icc2 exif2 xmp2 H1 H2 Hc1 Hc2.
  destruct (metadata_roundtrip _ _ _ _ _ _ _ _ _ H1) as (f1 & Hw1 & _ & _ & _ & Ha1 & Hi1 & _ & _ & Hp1).
  destruct (metadata_roundtrip _ _ _ _ _ _ _ _ _ H2) as (f2 & Hw2 & _ & _ & _ & Ha2 & Hi2 & _ & _ & Hp2).
  exists f1, f2. split; [exact Hw1|]. split; [exact Hw2|].
  split; [congruence|]. split; [congruence|]. split.
  - intros fx. destruct (Hp1 Hc1 fx) as (r1 & P1 & F1 & W1 & Hh1 & A1 & _).
    destruct (Hp2 Hc2 fx) as (r2 & P2 & F2 & W2 & Hh2 & A2 & _).
    exists r1, r2. repeat split; congruence.
  - intros Pix ld ll ad fx. unfold decode_bytes, parse.
    destruct (Hp1 Hc1 fx) as (r1 & P1 & F1 & _). destruct (Hp2 Hc2 fx) as (r2 & P2 & F2 & _).
    rewrite P1, P2. cbn [bind fst]. rewrite F1, F2. reflexivity.
Qed.

(** The hypotheses are satisfiable: a 1x1 VP8 header with a 3-byte ICC and a 1-byte XMP blob. *)
Example writer_inputs_satisfiable :
  writer_inputs_ok FourCCVP8 [0; 0; 0; 157; 1; 42; 1; 0; 1; 0] [] 1 1 [1; 2; 3] [] [86] false.
Proof.
  constructor.
  - left. reflexivity.
  - vm_compute. reflexivity.
  - intros H. reflexivity.
  - vm_compute. discriminate.
Qed.

(** ** AnimEncoder.Close *)
(** Repaired code: when any metadata was set, the muxer's file (which carries it)
    is what gets written, whatever the single-frame candidate looks like. *)
Theorem anim_close_keeps_metadata : forall frameCount hasPrev animData simple,
  anim_close true frameCount hasPrev true animData simple = animData.
Proof.
  intros. unfold anim_close. cbn [andb negb]. rewrite andb_false_r. reflexivity.
Qed.

(** Without metadata the optimisation may replace the file, but only by the
    non-empty, strictly smaller still candidate. *)
Theorem anim_close_choice : forall fx frameCount hasPrev hasMeta animData simple out,
  anim_close fx frameCount hasPrev hasMeta animData simple = out ->
  out = animData \/ (simple = Some out /\ 0 < len out < len animData /\ frameCount = 1 /\ hasPrev = true).
Proof.
  intros fx fc hp hm ad simple out <-. unfold anim_close.
  destruct (Z.eqb_spec fc 1); cbn [andb]; [|auto].
  destruct hp; cbn [andb]; [|auto].
  destruct (negb (fx && hm)); [|auto].
  destruct simple as [s|]; [|auto].
  destruct (Z.gtb_spec (len s) 0); cbn [andb]; [|auto].
  destruct (Z.ltb_spec (len s) (len ad)); [|auto]. right. repeat split; auto; lia.
Qed.

(** Pinned code: with EXIF set on the encoder and one frame, the still candidate
    (which SimpleEncodeFunc builds without any metadata) replaces the muxer's
    file, and the EXIF blob is gone.  Witness: muxer-style file = VP8X + VP8L + EXIF
    (30-byte blob), still candidate = the 26-byte simple file of the same bitstream. *)
Definition wit_anim_bs : list Z := [47; 0; 0; 0; 0].
Definition wit_anim_exif : list Z := repeat 69 30.
Definition wit_anim_with_meta : list Z :=
  match write_riff FourCCVP8L wit_anim_bs [] 1 1 [] wit_anim_exif [] with Ok f => f | _ => [] end.
Definition wit_anim_simple : list Z :=
  match write_riff FourCCVP8L wit_anim_bs [] 1 1 [] [] [] with Ok f => f | _ => [] end.

Theorem anim_single_frame_drops_metadata :
  spec_get_chunk wit_anim_with_meta FourCCEXIF = Some wit_anim_exif /\
  let out := pinned_anim_close 1 true true wit_anim_with_meta (Some wit_anim_simple) in
  out = wit_anim_simple /\ spec_get_chunk out FourCCEXIF = None /\
  anim_close true 1 true true wit_anim_with_meta (Some wit_anim_simple) = wit_anim_with_meta.
Proof. vm_compute. repeat split; reflexivity. Qed.

(** ** Encode's lossless container choice *)
(** Streaming fast path (no metadata) or buffered writeRIFF: the same function of
    the bitstream and the blobs as [write_riff] with no ALPH payload. *)
Theorem encode_lossless_container_eq bs w h icc exif xmp :
  len bs < 4294967296 - 21 ->
  encode_lossless_container bs w h icc exif xmp = write_riff FourCCVP8L bs [] w h icc exif xmp.
Proof.
  intros Hl. unfold encode_lossless_container.
  destruct ((len icc >? 0) || (len exif >? 0) || (len xmp >? 0)) eqn:E; [reflexivity|].
  unfold write_riff. change (len (@nil Z) >? 0) with false. cbn [orb]. rewrite E.
  apply streaming_eq_buffered. exact Hl.
Qed.

(** ** Alpha flag of this package's lossy files (C16, alpha-flag clause) *)
(** For a file written by [write_riff]: if the Decode glue attaches a separately
    decoded alpha plane to the picture (the only way a lossy picture can have a
    non-opaque pixel), then GetFeatures reports HasAlpha.  For VP8L the flag is the
    header's alpha bit, which is a property of the lossless encoder (evaluated by
    harness/c16 on encoder outputs). *)
Theorem alpha_flag_sound_lossy :
  forall (Pix : Type) (ld ll : list Z -> Res (Z * Z * Pix)) (ad : list Z -> Z -> Z -> Res Pix)
         fourcc bs alpha w h icc exif xmp a fx file img,
    writer_inputs_ok fourcc bs alpha w h icc exif xmp a -> len icc <= MaxMetadataSize ->
    write_riff fourcc bs alpha w h icc exif xmp = Ok file ->
    decode_bytes ld ll ad fx file = Ok img -> iAlpha img <> None ->
    exists g, get_features fx file = Ok g /\ gHasAlpha g = true.
Proof.
  intros Pix ld ll ad fourcc bs alpha w h icc exif xmp a fx file img Hin Hicc Hw Hd Hal.
  destruct (metadata_roundtrip _ _ _ _ _ _ _ _ _ Hin) as (file' & Hw' & _ & _ & _ & _ & _ & _ & _ & Hp).
  rewrite Hw in Hw'. injection Hw' as <-.
  destruct (Hp Hicc fx) as (r & P & F & _ & _ & A & _).
  unfold get_features, decode_bytes, parse in *. rewrite P in *. cbn [bind fst] in *.
  eexists. split; [reflexivity|]. unfold features_of. cbn [gHasAlpha]. rewrite A.
  rewrite F in Hd. unfold decode_frame, expected_frame in Hd.
  destruct (fourcc =? FourCCVP8L); cbn [frLossless frPayload frAlpha] in Hd.
  - destruct (ll bs) as [[[w' h'] px]|e|]; cbn [bind] in Hd; try discriminate.
    injection Hd as <-. cbn [iAlpha] in Hal. congruence.
  - unfold decode_lossy, opt_blob, alpha_len in Hd.
    destruct (ld bs) as [[[w' h'] px]|e|]; cbn [bind] in Hd; try discriminate.
    destruct (len alpha >? 0) eqn:E; [reflexivity|].
    change (0 >? 0) with false in Hd. injection Hd as <-. cbn [iAlpha] in Hal. congruence.
Qed.
