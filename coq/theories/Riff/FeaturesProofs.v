(** C16 at the container / glue level.

    [still_shape]: what the parser guarantees about a result it reached through a
    top-level image chunk (one frame; reported size = the size in the bitstream
    header; animation flag clear).
    [config_agrees_with_decode] (repaired DecodeConfig, either parser variant, any
    codecs whose dimensions are those of the bitstream header): whenever the
    Decode glue accepts a still, DecodeConfig and GetFeatures succeed with the
    decoded image's width, height and colour model, FrameCount 1, no animation.
    [zero_len_alph_refuted]: the pinned DecodeConfig violates it.
    [registered_format]: the magic matches exactly RIFF????WEBP, and every file the
    parser accepts is dispatched. *)
From Coq Require Import List ZArith Lia Bool.
From Coq Require Import ZifyBool ZifyNat.
From Webp Require Import Base.Res Base.Bytes Riff.ParserModel Riff.ParserLemmas Riff.FeaturesModel
     Riff.PrefixProofs.
Import ListNotations.
Open Scope Z_scope.

(** ** Shape of a still parse *)
Definition header_ok (f : FrameInfo) : Prop :=
  if frLossless f
  then exists a, parse_vp8l_header (frPayload f) = Ok (frW f, frH f, a)
  else parse_vp8_header (frPayload f) = Ok (frW f, frH f).

Definition frame_shape (r : Parsed) : Prop :=
  exists f, pFrames r = [f] /\ fWidth (pFeat r) = frW f /\ fHeight (pFeat r) = frH f /\ header_ok f.

Definition still_shape_of (r : Parsed) : Prop :=
  frame_shape r /\ fHasAnim (pFeat r) = false /\ 1 <= fFormat (pFeat r) <= 3.

Lemma ext_single_shape : forall fuel feat chunks alph buf r,
  parse_ext_single fuel feat [] chunks alph buf = Ok r ->
  frame_shape r /\ fHasAnim (pFeat r) = fHasAnim feat /\ fFormat (pFeat r) = fFormat feat.
Proof.
  induction fuel as [|fuel IH]; intros feat chunks alph buf r H; [discriminate|].
  cbn [parse_ext_single] in H.
  destruct (len buf <? ChunkHeaderSize); [discriminate|].
  destruct (chunk_at buf) as [[[[f sz] tot] pl]|e|]; cbn [bind] in H; try discriminate.
  destruct (f =? FourCCALPH).
  { destruct (slice buf tot (len buf)); cbn [bind] in H; try discriminate.
    apply IH in H. exact H. }
  destruct (f =? FourCCVP8L).
  { destruct alph; [discriminate|].
    destruct (parse_vp8l_header pl) as [[[w h] a]|e|] eqn:Eh; cbn [bind] in H; try discriminate.
    injection H as <-. cbn [pFeat pFrames app].
    split; [|destruct a; split; reflexivity].
    eexists. split; [reflexivity|]. unfold header_ok. cbn [frW frH frLossless frPayload].
    split; [destruct a; reflexivity|]. split; [destruct a; reflexivity|]. eauto. }
  destruct (f =? FourCCVP8); [|discriminate].
  destruct (parse_vp8_header pl) as [[w h]|e|] eqn:Eh; cbn [bind] in H; try discriminate.
  injection H as <-. cbn [pFeat pFrames app].
  split; [|split; reflexivity].
  eexists. split; [reflexivity|]. unfold header_ok. cbn [frW frH frLossless frPayload].
  split; [reflexivity|]. split; [reflexivity|]. exact Eh.
Qed.

Lemma chunks_still_shape : forall fuel fx feat chunks buf r,
  parse_vp8x_chunks fuel fx feat [] chunks 0 buf = Ok (r, KStill) ->
  frame_shape r /\ fHasAnim (pFeat r) = false /\ fFormat (pFeat r) = fFormat feat.
Proof.
  induction fuel as [|fuel IH]; intros fx feat chunks buf r H; [discriminate|].
  destruct (chunks_still_inv _ _ _ _ _ _ _ _ H ltac:(lia)) as [_ Hanim].
  cbn [parse_vp8x_chunks] in H. rewrite Hanim in H.
  destruct (len buf <? ChunkHeaderSize).
  { destruct (fx && negb false && (len (@nil FrameInfo) =? 0)); discriminate. }
  destruct (chunk_at buf) as [[[[f sz] tot] pl]|e|] eqn:Ec; cbn [bind] in H; try discriminate.
  destruct (f =? FourCCVP8X); [discriminate|].
  destruct (f =? FourCCANIM).
  { exfalso. destruct (sz <? ANIMChunkSize); [discriminate|].
    destruct (slice pl 0 4); cbn [bind] in H; try discriminate.
    destruct (slice pl 4 6); cbn [bind] in H; try discriminate.
    destruct (slice buf tot (len buf)); cbn [bind] in H; try discriminate.
    apply chunks_still_inv in H; lia. }
  destruct (f =? FourCCANMF); [discriminate|].
  destruct (is_image_fourcc f || (f =? FourCCALPH)).
  { change (0 >? 0) with false in H. cbn [orb] in H.
    destruct (parse_ext_single (S (length buf)) feat [] chunks None buf) as [r0|e|] eqn:Ex;
      cbn [bind] in H; try discriminate.
    injection H as ->. destruct (ext_single_shape _ _ _ _ _ _ Ex) as (Hs & Ha & Hf).
    split; [exact Hs|]. split; [congruence|exact Hf]. }
  assert (Hcont : forall cs, (rest <- slice buf tot (len buf);;
                  parse_vp8x_chunks fuel fx feat [] cs 0 rest) = Ok (r, KStill) ->
                  frame_shape r /\ fHasAnim (pFeat r) = false /\ fFormat (pFeat r) = fFormat feat).
  { intros cs Hc. destruct (slice buf tot (len buf)); cbn [bind] in Hc; try discriminate.
    eapply IH; eauto. }
  destruct (f =? FourCCICCP).
  { destruct (add_meta (fHasICCP feat) sz f pl chunks); cbn [bind] in H; try discriminate. eauto. }
  destruct (f =? FourCCEXIF).
  { destruct (add_meta (fHasEXIF feat) sz f pl chunks); cbn [bind] in H; try discriminate. eauto. }
  destruct (f =? FourCCXMP).
  { destruct (add_meta (fHasXMP feat) sz f pl chunks); cbn [bind] in H; try discriminate. eauto. }
  destruct (len chunks >=? MaxChunks); [discriminate|].
  destruct (sz >? MaxMetadataSize); [discriminate|]. eauto.
Qed.

Lemma single_image_shape fmt buf r :
  parse_single_image fmt buf = Ok r ->
  frame_shape r /\ fHasAnim (pFeat r) = false /\ fFormat (pFeat r) = fmt.
Proof.
  unfold parse_single_image. intros H.
  destruct (chunk_at buf) as [[[[f sz] tot] pl]|e|]; cbn [bind] in H; try discriminate.
  destruct (f =? FourCCVP8L).
  - destruct (parse_vp8l_header pl) as [[[w h] a]|e|] eqn:Eh; cbn [bind] in H; try discriminate.
    injection H as <-. cbn [pFeat pFrames]. split; [|split; reflexivity].
    eexists. split; [reflexivity|]. unfold header_ok. cbn [frW frH frLossless frPayload fWidth fHeight]. eauto.
  - destruct (parse_vp8_header pl) as [[w h]|e|] eqn:Eh; cbn [bind] in H; try discriminate.
    injection H as <-. cbn [pFeat pFrames]. split; [|split; reflexivity].
    eexists. split; [reflexivity|]. unfold header_ok. cbn [frW frH frLossless frPayload fWidth fHeight]. eauto.
Qed.

Theorem still_shape : forall fx bs r, parse_ex fx bs = Ok (r, KStill) -> still_shape_of r.
Proof.
  intros fx bs r H. unfold parse_ex in H. unfold still_shape_of.
  destruct (parse_riff_header bs) as [fs|e|]; cbn [bind] in H; try discriminate.
  destruct (slice bs RIFFHeaderSize _) as [buf|e|]; cbn [bind] in H; try discriminate.
  destruct (len buf <? ChunkHeaderSize); [discriminate|].
  destruct (slice buf 0 4) as [t|e|]; cbn [bind] in H; try discriminate.
  destruct (rd32 t =? FourCCVP8X).
  { unfold parse_vp8x in H.
    destruct (read_chunk_header buf) as [[f sz]|e|]; cbn [bind] in H; try discriminate.
    destruct (negb (sz =? VP8XChunkSize)); [discriminate|].
    destruct (ChunkHeaderSize + (sz + sz mod 2) >? len buf); [discriminate|].
    destruct (slice buf ChunkHeaderSize (ChunkHeaderSize + sz)) as [pl|e|]; cbn [bind] in H; try discriminate.
    destruct pl as [|flags [|? [|? [|? [|w0 [|w1 [|w2 [|h0 [|h1 [|h2 [|? ?]]]]]]]]]]]; try discriminate.
    destruct (negb (Z.land flags 4294967233 =? 0)); [discriminate|].
    destruct ((1 + rd24 [w0; w1; w2]) * (1 + rd24 [h0; h1; h2]) >=? MaxImageArea); [discriminate|].
    destruct (slice buf _ (len buf)) as [rest|e|]; cbn [bind] in H; try discriminate.
    apply chunks_still_shape in H. destruct H as (Hs & Ha & Hf). cbn [fFormat] in Hf.
    split; [exact Hs|]. split; [exact Ha|]. rewrite Hf. unfold FormatVP8X. lia. }
  destruct (rd32 t =? FourCCVP8).
  { destruct (parse_single_image FormatVP8 buf) as [r0|e|] eqn:Ei; cbn [bind] in H; try discriminate.
    injection H as ->. apply single_image_shape in Ei. destruct Ei as (Hs & Ha & Hf).
    split; [exact Hs|]. split; [exact Ha|]. rewrite Hf. unfold FormatVP8. lia. }
  destruct (rd32 t =? FourCCVP8L); [|discriminate].
  destruct (parse_single_image FormatVP8L buf) as [r0|e|] eqn:Ei; cbn [bind] in H; try discriminate.
  injection H as ->. apply single_image_shape in Ei. destruct Ei as (Hs & Ha & Hf).
  split; [exact Hs|]. split; [exact Ha|]. rewrite Hf. unfold FormatVP8L. lia.
Qed.

(** ** DecodeConfig / GetFeatures agree with Decode *)
Section Agree.
  Context {Pix : Type}.
  Variable lossy_dec : list Z -> Res (Z * Z * Pix).
  Variable lossless_dec : list Z -> Res (Z * Z * Pix).
  Variable alpha_dec : list Z -> Z -> Z -> Res Pix.

  (** The only thing assumed of the codecs: when they accept a bitstream whose
      header the container parser also accepts, the picture they return has the
      size that header declares (both read the same 14-bit fields).  Evaluated on
      the real codecs by harness/c16 (clause a) on every generated file. *)
  Definition codec_dims_from_header : Prop :=
    (forall pl w h px w' h', lossy_dec pl = Ok (w, h, px) -> parse_vp8_header pl = Ok (w', h') ->
                             w = w' /\ h = h') /\
    (forall pl w h px w' h' a, lossless_dec pl = Ok (w, h, px) -> parse_vp8l_header pl = Ok (w', h', a) ->
                               w = w' /\ h = h').

  Definition config_agrees_statement (fix_alpha : bool) : Prop :=
    codec_dims_from_header ->
    forall fx bs r img,
      parse_ex fx bs = Ok (r, KStill) ->
      decode_bytes lossy_dec lossless_dec alpha_dec fx bs = Ok img ->
      decode_config fix_alpha fx bs = Ok (mkConfig (iModel img) (iW img) (iH img)) /\
      exists g, get_features fx bs = Ok g /\ gW g = iW img /\ gH g = iH img /\
                gFrames g = 1 /\ gHasAnim g = false /\ 1 <= gFormat g <= 3.

  Theorem config_agrees_with_decode : config_agrees_statement true.
  Proof.
    intros [Hlossy Hlossless] fx bs r img Hp Hd.
    destruct (still_shape _ _ _ Hp) as ((f & Hfr & Hw & Hh & Hhdr) & Hanim & Hfmt).
    unfold decode_bytes, decode_config, get_features in *.
    rewrite (parse_of_parse_ex _ _ _ _ Hp) in *. cbn [bind] in *.
    rewrite Hfr in Hd. unfold decode_frame in Hd. unfold header_ok in Hhdr.
    unfold config_of, features_of. rewrite Hfr, Hw, Hh, Hanim.
    assert (Hg : 1 <= (if fFormat (pFeat r) =? FormatVP8 then 1 else if fFormat (pFeat r) =? FormatVP8L then 2
                       else if fFormat (pFeat r) =? FormatVP8X then 3 else 0) <= 3).
    { unfold FormatVP8, FormatVP8L, FormatVP8X.
      destruct (Z.eqb_spec (fFormat (pFeat r)) 1); [lia|].
      destruct (Z.eqb_spec (fFormat (pFeat r)) 2); [lia|].
      destruct (Z.eqb_spec (fFormat (pFeat r)) 3); lia. }
    destruct (frLossless f) eqn:El.
    - destruct Hhdr as [a Hhdr].
      destruct (lossless_dec (frPayload f)) as [[[w h] px]|e|] eqn:Ec; cbn [bind] in Hd; try discriminate.
      injection Hd as <-. destruct (Hlossless _ _ _ _ _ _ _ Ec Hhdr) as [-> ->].
      cbn [negb andb iModel iW iH]. split; [reflexivity|].
      eexists. split; [reflexivity|]. cbn [gW gH gFrames gHasAnim gFormat]. repeat split; try reflexivity; lia.
    - unfold decode_lossy in Hd.
      destruct (lossy_dec (frPayload f)) as [[[w h] px]|e|] eqn:Ec; cbn [bind] in Hd; try discriminate.
      destruct (Hlossy _ _ _ _ _ _ Ec Hhdr) as [-> ->].
      assert (Hcm : (if negb false && alpha_absent true (frAlpha f) then CM_YCbCr else CM_NRGBA) = iModel img
                    /\ iW img = frW f /\ iH img = frH f).
      { unfold alpha_absent, alpha_len in *. destruct (frAlpha f) as [al|]; cbn [negb andb].
        - destruct (Z.gtb_spec (len al) 0) as [Hgt|Hle].
          + destruct (alpha_dec al (frW f) (frH f)); cbn [bind] in Hd; try discriminate.
            injection Hd as <-. destruct (Z.eqb_spec (len al) 0); [lia|]. auto.
          + injection Hd as <-. pose proof (len_nonneg al). destruct (Z.eqb_spec (len al) 0); [|lia]. auto.
        - change (0 >? 0) with false in Hd. injection Hd as <-. auto. }
      destruct Hcm as (Hcm & HW & HH). rewrite Hcm, HW, HH. split; [reflexivity|].
      eexists. split; [reflexivity|]. cbn [gW gH gFrames gHasAnim gFormat]. repeat split; try reflexivity; lia.
  Qed.
End Agree.

(** The same statement about the pinned DecodeConfig ([AlphaData == nil]). *)
Definition pinned_config_agrees_statement {Pix : Type} (lossy_dec lossless_dec : list Z -> Res (Z * Z * Pix))
           (alpha_dec : list Z -> Z -> Z -> Res Pix) : Prop :=
  config_agrees_statement lossy_dec lossless_dec alpha_dec false.

(** ** The pinned DecodeConfig is refuted by a zero-length ALPH chunk *)
(** RIFF / VP8X (alpha flag, 1x1) / ALPH with an empty payload / VP8 key-frame header 1x1. *)
Definition wit_empty_alph : list Z :=
  [82; 73; 70; 70; 48; 0; 0; 0; 87; 69; 66; 80; 86; 80; 56; 88; 10; 0; 0; 0; 16; 0; 0; 0; 0; 0; 0; 0; 0; 0;
   65; 76; 80; 72; 0; 0; 0; 0; 86; 80; 56; 32; 10; 0; 0; 0; 0; 0; 0; 157; 1; 42; 1; 0; 1; 0].

(** A codec that decodes every bitstream to the size its header declares. *)
Definition hdr_lossy (pl : list Z) : Res (Z * Z * unit) :=
  '(w, h) <- parse_vp8_header pl ;; Ok (w, h, tt).
Definition hdr_lossless (pl : list Z) : Res (Z * Z * unit) :=
  '(w, h, _) <- parse_vp8l_header pl ;; Ok (w, h, tt).
Definition any_alpha (_ : list Z) (_ _ : Z) : Res unit := Ok tt.

Lemma hdr_codec_ok : codec_dims_from_header hdr_lossy hdr_lossless.
Proof.
  split.
  - intros pl w h px w' h' H1 H2. unfold hdr_lossy in H1. rewrite H2 in H1. cbn [bind] in H1.
    injection H1 as <- <- _. auto.
  - intros pl w h px w' h' a H1 H2. unfold hdr_lossless in H1. rewrite H2 in H1. cbn [bind] in H1.
    injection H1 as <- <- _. auto.
Qed.

Theorem zero_len_alph_refuted :
  ~ pinned_config_agrees_statement hdr_lossy hdr_lossless any_alpha.
Proof.
  unfold pinned_config_agrees_statement. intros H. specialize (H hdr_codec_ok false wit_empty_alph).
  assert (Hp : exists r, parse_ex false wit_empty_alph = Ok (r, KStill)) by (eexists; vm_compute; reflexivity).
  destruct Hp as [r Hp].
  assert (Hd : exists img, decode_bytes hdr_lossy hdr_lossless any_alpha false wit_empty_alph = Ok img)
    by (eexists; vm_compute; reflexivity).
  destruct Hd as [img Hd]. destruct (H _ _ Hp Hd) as [Hc _].
  vm_compute in Hd. injection Hd as <-. vm_compute in Hc. discriminate.
Qed.

(** The same witness, as concrete values: Decode returns YCbCr, DecodeConfig announces NRGBA. *)
Theorem zero_len_alph_witness :
  exists img c,
    decode_bytes hdr_lossy hdr_lossless any_alpha false wit_empty_alph = Ok img /\
    decode_config false false wit_empty_alph = Ok c /\
    iModel img = CM_YCbCr /\ cModel c = CM_NRGBA /\
    decode_config true false wit_empty_alph = Ok (mkConfig CM_YCbCr 1 1).
Proof. do 2 eexists. repeat split; vm_compute; reflexivity. Qed.

(** The hypotheses of [config_agrees_with_decode] are satisfiable (same file, repaired code). *)
Example config_agrees_hypotheses_satisfiable :
  codec_dims_from_header hdr_lossy hdr_lossless /\
  exists r img, parse_ex true wit_empty_alph = Ok (r, KStill) /\
                decode_bytes hdr_lossy hdr_lossless any_alpha true wit_empty_alph = Ok img.
Proof. split; [exact hdr_codec_ok|]. do 2 eexists. split; vm_compute; reflexivity. Qed.

(** ** Parser-level views *)
(** GetFeatures and DecodeConfig fail together and report the same size; the
    frame count is the number of parsed frames; a still has one frame, no
    animation flag; simple-format files have canvas = image size. *)
Theorem views_agree : forall fa fx bs,
  match get_features fx bs, decode_config fa fx bs with
  | Ok g, Ok c => gW g = cW c /\ gH g = cH c /\
                  (forall r, parse_ex fx bs = Ok (r, KStill) -> gFrames g = 1 /\ gHasAnim g = false) /\
                  (forall r k, parse_ex fx bs = Ok (r, k) ->
                     gFrames g = len (pFrames r) /\ gHasAnim g = fHasAnim (pFeat r) /\
                     gLoop g = fLoopCount (pFeat r))
  | Err e, Err e' => e = e'
  | Panic, Panic => True
  | _, _ => False
  end.
Proof.
  intros fa fx bs. unfold get_features, decode_config, parse.
  destruct (parse_ex fx bs) as [[r k]|e|] eqn:Ep; cbn [bind fst]; auto.
  unfold features_of, config_of. cbn [gW gH cW cH gFrames gHasAnim gLoop].
  split; [reflexivity|]. split; [reflexivity|]. split.
  - intros r0 [= <- ->]. destruct (still_shape _ _ _ Ep) as ((f & Hfr & _) & Ha & _).
    rewrite Hfr, Ha. split; reflexivity.
  - intros r0 k0 [= <- <-]. auto.
Qed.

(** ** image.RegisterFormat magic *)
Definition riff_magic_at (bs : list Z) : Prop :=
  exists s0 s1 s2 s3 tl, bs = [82; 73; 70; 70; s0; s1; s2; s3; 87; 69; 66; 80] ++ tl.

Theorem registered_format : forall bs, sniff bs = true <-> riff_magic_at bs.
Proof.
  intros bs. unfold sniff, riff_magic_at. split.
  - destruct (Z.ltb_spec (len bs) (len webp_magic)) as [|Hl]; [discriminate|].
    destruct bs as [|b0 [|b1 [|b2 [|b3 [|b4 [|b5 [|b6 [|b7 [|b8 [|b9 [|b10 [|b11 tl]]]]]]]]]]]];
      try (exfalso; unfold len in Hl; cbn [webp_magic length] in Hl; lia).
    cbn [webp_magic length firstn match_magic].
    change (63 =? 63) with true. change (82 =? 63) with false. change (73 =? 63) with false.
    change (70 =? 63) with false. change (87 =? 63) with false. change (69 =? 63) with false.
    change (66 =? 63) with false. change (80 =? 63) with false.
    rewrite !orb_false_r, !orb_true_r, !andb_true_iff, !Z.eqb_eq.
    intros (-> & -> & -> & -> & _ & _ & _ & _ & -> & -> & -> & -> & _).
    exists b4, b5, b6, b7, tl. reflexivity.
  - intros (s0 & s1 & s2 & s3 & tl & ->). unfold len. rewrite app_length.
    cbn [webp_magic length].
    destruct (Z.ltb_spec (Z.of_nat (12 + length tl)) (Z.of_nat 12)); [lia|].
    cbn [app firstn]. unfold webp_magic. cbn [match_magic]. rewrite !Z.eqb_refl. cbn [orb andb]. rewrite !orb_true_r. reflexivity.
Qed.

(** Every byte file the parser accepts is dispatched to this package by image.Decode. *)
Theorem accepted_files_are_dispatched : forall fx bs r,
  bytes_ok bs -> parse fx bs = Ok r -> sniff bs = true.
Proof.
  intros fx bs r Hb H. apply registered_format. unfold parse, parse_ex in H.
  destruct (parse_riff_header bs) as [fs|e|] eqn:Eh; cbn [bind] in H; try discriminate. clear H.
  unfold parse_riff_header, RIFFHeaderSize in Eh.
  destruct (Z.ltb_spec (len bs) 12) as [|Hl]; [discriminate|].
  destruct (slice bs 0 4) as [t1|e|] eqn:E1; cbn [bind] in Eh; try discriminate.
  destruct (Z.eqb_spec (rd32 t1) FourCCRIFF) as [H1|]; cbn [negb] in Eh; [|discriminate].
  destruct (slice bs 4 8) as [t2|e|] eqn:E2; cbn [bind] in Eh; try discriminate.
  destruct (rd32 t2 <? ChunkHeaderSize); [discriminate|].
  destruct (rd32 t2 >? MaxChunkPayload); [discriminate|].
  destruct (slice bs 8 12) as [t3|e|] eqn:E3; cbn [bind] in Eh; try discriminate.
  destruct (Z.eqb_spec (rd32 t3) FourCCWEBP) as [H3|]; cbn [negb] in Eh; [|discriminate].
  apply slice_ok_inv in E1. destruct E1 as (_ & _ & _ & ->).
  apply slice_ok_inv in E3. destruct E3 as (_ & _ & _ & ->).
  destruct bs as [|b0 [|b1 [|b2 [|b3 [|b4 [|b5 [|b6 [|b7 [|b8 [|b9 [|b10 [|b11 tl]]]]]]]]]]]];
    try (exfalso; unfold len in Hl; cbn [length] in Hl; lia).
  change (Z.to_nat (4 - 0)) with 4%nat in H1. change (Z.to_nat 0) with 0%nat in H1.
  change (Z.to_nat (12 - 8)) with 4%nat in H3. change (Z.to_nat 8) with 8%nat in H3.
  cbn [skipn firstn rd32] in H1, H3. unfold FourCCRIFF in H1. unfold FourCCWEBP in H3.
  unfold bytes_ok in Hb.
  repeat match goal with Hf : Forall is_byte (_ :: _) |- _ => inversion Hf; subst; clear Hf end.
  unfold is_byte in *.
  assert (b0 = 82 /\ b1 = 73 /\ b2 = 70 /\ b3 = 70) as (-> & -> & -> & ->) by lia.
  assert (b8 = 87 /\ b9 = 69 /\ b10 = 66 /\ b11 = 80) as (-> & -> & -> & ->) by lia.
  exists b4, b5, b6, b7, tl. reflexivity.
Qed.
