(** Declarative well-formedness of a WebP file, written from the WebP container
    specification ("WebP Container Specification", RIFF header, simple lossy /
    lossless layout, extended layout with VP8X, ANIM/ANMF, ALPH, ICCP/EXIF/XMP),
    not from the Go code.  [wf bs = true] says [bs] is exactly one RIFF/WEBP
    form whose size field covers the whole string, whose chunks tile the payload
    (odd payloads followed by one zero padding byte), whose first chunk fixes the
    layout, whose VP8X flags say exactly which optional chunks are present, whose
    canvas contains every frame (a still picture fills it exactly), and whose
    bitstream chunks start with a valid VP8 key-frame header / VP8L header whose
    dimensions agree with the ANMF header.

    Independent of Riff/DemuxModel and Riff/MuxModel on purpose. *)
From Coq Require Import List ZArith Lia Bool.
From Webp Require Import Base.Bytes.
Import ListNotations.
Open Scope Z_scope.

Definition glen {A} (l : list A) : Z := Z.of_nat (length l).

Fixpoint bytes_eqb (a b : list Z) : bool :=
  match a, b with
  | [], [] => true
  | x :: a', y :: b' => (x =? y) && bytes_eqb a' b'
  | _, _ => false
  end.

Definition T_RIFF : list Z := [82; 73; 70; 70].
Definition T_WEBP : list Z := [87; 69; 66; 80].
Definition T_VP8  : list Z := [86; 80; 56; 32].
Definition T_VP8L : list Z := [86; 80; 56; 76].
Definition T_VP8X : list Z := [86; 80; 56; 88].
Definition T_ALPH : list Z := [65; 76; 80; 72].
Definition T_ANIM : list Z := [65; 78; 73; 77].
Definition T_ANMF : list Z := [65; 78; 77; 70].
Definition T_ICCP : list Z := [73; 67; 67; 80].
Definition T_EXIF : list Z := [69; 88; 73; 70].
Definition T_XMP  : list Z := [88; 77; 80; 32].

(** a chunk: (FourCC, payload) *)
Definition gchunk : Type := list Z * list Z.

(** The payload of a RIFF form / of an ANMF frame is a sequence of chunks that
    tiles it exactly: 4-byte tag, 4-byte little-endian size, payload, and one
    zero byte if the size is odd. *)
Fixpoint chunks (fuel : nat) (bs : list Z) : option (list gchunk) :=
  match bs with
  | [] => Some []
  | _ =>
    match fuel with
    | O => None
    | S f =>
      match bs with
      | a :: b :: c :: d :: s0 :: s1 :: s2 :: s3 :: body =>
        let sz := rd32 [s0; s1; s2; s3] in
        if glen body <? sz then None else
        let payload := firstn (Z.to_nat sz) body in
        let after := skipn (Z.to_nat sz) body in
        if sz mod 2 =? 0 then
          match chunks f after with Some cs => Some (([a; b; c; d], payload) :: cs) | None => None end
        else
          match after with
          | pad :: after' =>
            if pad =? 0 then
              match chunks f after' with Some cs => Some (([a; b; c; d], payload) :: cs) | None => None end
            else None
          | [] => None
          end
      | _ => None
      end
    end
  end.

(** VP8 key-frame header: frame tag with key-frame bit 0, start code 9d 01 2a,
    14-bit width and height, both non-zero. *)
Definition vp8_header (p : list Z) : option (Z * Z) :=
  match p with
  | t0 :: _ :: _ :: b3 :: b4 :: b5 :: b6 :: b7 :: b8 :: b9 :: _ =>
    let w := (b6 + 256 * b7) mod 16384 in
    let h := (b8 + 256 * b9) mod 16384 in
    if (t0 mod 2 =? 0) && (b3 =? 157) && (b4 =? 1) && (b5 =? 42) && (1 <=? w) && (1 <=? h)
    then Some (w, h) else None
  | _ => None
  end.

(** VP8L header: signature 0x2f, 14-bit width-1, 14-bit height-1, alpha_is_used,
    3-bit version = 0. *)
Definition vp8l_header (p : list Z) : option (Z * Z * bool) :=
  match p with
  | b0 :: b1 :: b2 :: b3 :: b4 :: _ =>
    let bits := b1 + 256 * b2 + 65536 * b3 + 16777216 * b4 in
    if (b0 =? 47) && (bits / 536870912 =? 0)
    then Some (bits mod 16384 + 1, (bits / 16384) mod 16384 + 1, negb ((bits / 268435456) mod 2 =? 0))
    else None
  | _ => None
  end.

(** image data of one frame: [ALPH]? followed by one VP8 chunk, or one VP8L
    chunk; returns (width, height, carries alpha) and the remaining chunks *)
Definition image_data (cs : list gchunk) : option (Z * Z * bool * list gchunk) :=
  match cs with
  | (t, p) :: rest =>
    if bytes_eqb t T_VP8L then
      match vp8l_header p with Some (w, h, a) => Some (w, h, a, rest) | None => None end
    else if bytes_eqb t T_VP8 then
      match vp8_header p with Some (w, h) => Some (w, h, false, rest) | None => None end
    else if bytes_eqb t T_ALPH then
      match rest with
      | (t2, p2) :: rest2 =>
        if bytes_eqb t2 T_VP8 then
          match vp8_header p2 with Some (w, h) => Some (w, h, true, rest2) | None => None end
        else None
      | [] => None
      end
    else None
  | [] => None
  end.

(** one ANMF payload inside a canvas cw x ch; returns whether it carries alpha *)
Definition anmf_ok (cw ch : Z) (p : list Z) : option bool :=
  match p with
  | x0 :: x1 :: x2 :: y0 :: y1 :: y2 :: w0 :: w1 :: w2 :: h0 :: h1 :: h2 ::
    _ :: _ :: _ :: fl :: sub =>
    let x := 2 * rd24 [x0; x1; x2] in
    let y := 2 * rd24 [y0; y1; y2] in
    let w := 1 + rd24 [w0; w1; w2] in
    let h := 1 + rd24 [h0; h1; h2] in
    if negb (fl / 4 =? 0) then None else
    match chunks (length sub) sub with
    | Some cs =>
      match image_data cs with
      | Some (iw, ih, a, []) =>
        if (iw =? w) && (ih =? h) && (x + w <=? cw) && (y + h <=? ch) then Some a else None
      | _ => None
      end
    | None => None
    end
  | _ => None
  end.

(** the run of ANMF chunks; returns (any frame has alpha, number of frames, rest) *)
Fixpoint anmf_run (cw ch : Z) (cs : list gchunk) : option (bool * nat * list gchunk) :=
  match cs with
  | (t, p) :: rest =>
    if bytes_eqb t T_ANMF then
      match anmf_ok cw ch p with
      | Some a =>
        match anmf_run cw ch rest with
        | Some (a', n, r) => Some (a || a', S n, r)
        | None => None
        end
      | None => None
      end
    else Some (false, O, cs)
  | [] => Some (false, O, [])
  end.

Definition take_opt (t : list Z) (cs : list gchunk) : bool * list gchunk :=
  match cs with
  | (t', _) :: rest => if bytes_eqb t' t then (true, rest) else (false, cs)
  | [] => (false, [])
  end.

(** extended layout: VP8X payload [x], then [ICCP]? [ANIM]? image-data [EXIF]? [XMP]? *)
Definition ext_ok (x : list Z) (cs : list gchunk) : bool :=
  match x with
  | [flags; r1; r2; r3; w0; w1; w2; h0; h1; h2] =>
    let cw := 1 + rd24 [w0; w1; w2] in
    let ch := 1 + rd24 [h0; h1; h2] in
    let bit k := negb ((flags / k) mod 2 =? 0) in
    (* reserved bits and bytes are zero; canvas area fits 32 bits *)
    (flags mod 2 =? 0) && (flags / 64 =? 0) && (r1 =? 0) && (r2 =? 0) && (r3 =? 0) &&
    (cw * ch <=? 4294967295) &&
    let '(icc, cs1) := take_opt T_ICCP cs in
    Bool.eqb icc (bit 32) &&
    if bit 2 then
      (* animation: ANIM (6 bytes) then one or more ANMF *)
      match cs1 with
      | (t, a) :: cs2 =>
        bytes_eqb t T_ANIM && (glen a =? 6) &&
        match anmf_run cw ch cs2 with
        | Some (alpha, n, cs3) =>
          (0 <? Z.of_nat n) && Bool.eqb alpha (bit 16) &&
          let '(exif, cs4) := take_opt T_EXIF cs3 in
          let '(xmp, cs5) := take_opt T_XMP cs4 in
          Bool.eqb exif (bit 8) && Bool.eqb xmp (bit 4) &&
          match cs5 with [] => true | _ => false end
        | None => false
        end
      | [] => false
      end
    else
      (* still picture: fills the canvas exactly *)
      match image_data cs1 with
      | Some (w, h, alpha, cs3) =>
        (w =? cw) && (h =? ch) && Bool.eqb alpha (bit 16) &&
        let '(exif, cs4) := take_opt T_EXIF cs3 in
        let '(xmp, cs5) := take_opt T_XMP cs4 in
        Bool.eqb exif (bit 8) && Bool.eqb xmp (bit 4) &&
        match cs5 with [] => true | _ => false end
      | None => false
      end
  | _ => false
  end.

Definition wf (bs : list Z) : bool :=
  match bs with
  | r0 :: r1 :: r2 :: r3 :: s0 :: s1 :: s2 :: s3 :: w0 :: w1 :: w2 :: w3 :: body =>
    bytes_eqb [r0; r1; r2; r3] T_RIFF && bytes_eqb [w0; w1; w2; w3] T_WEBP &&
    (rd32 [s0; s1; s2; s3] =? 4 + glen body) &&
    forallb (fun b => (0 <=? b) && (b <? 256)) bs &&
    match chunks (length body) body with
    | Some ((t, p) :: rest) =>
      if bytes_eqb t T_VP8X then ext_ok p rest
      else if bytes_eqb t T_VP8 then
        match rest, vp8_header p with [], Some _ => true | _, _ => false end
      else if bytes_eqb t T_VP8L then
        match rest, vp8l_header p with [], Some _ => true | _, _ => false end
      else false
    | _ => false
    end
  | _ => false
  end.
