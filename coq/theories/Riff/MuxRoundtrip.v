(** C14: the round trip through the extended (VP8X) layouts — still pictures with
    metadata and/or alpha, and animations of any number of frames with or without
    ALPH sub-chunks — for the current muxer and demuxer models. *)
From Coq Require Import List ZArith Lia Bool ZifyBool ZifyNat.
From Webp Require Import Base.Res Base.Bytes Riff.RiffGrammar Riff.DemuxModel Riff.DemuxTotal
  Riff.MuxModel Riff.MuxView Riff.MuxProofs.
Import ListNotations.
Open Scope Z_scope.
Ltac Zify.zify_post_hook ::= Z.div_mod_to_equations.

Definition enc := write_data_chunk.

Lemma enc_len_ge id p : len p < 2147483648 -> 8 <= len (enc id p).
Proof.
  intros H. unfold enc. rewrite write_data_chunk_eq by (pose proof (len_nonneg p); lia).
  rewrite !len_app, !len_le32. pose proof (len_nonneg p). pose proof (len_nonneg (pad_of (len p))). lia.
Qed.

(** ---- fuel monotonicity of the three loops ---- *)
Lemma anmf_loop_more_fuel f : forall fp img alpha r,
  anmf_loop f fp img alpha = Ok r -> forall f', (f <= f')%nat -> anmf_loop f' fp img alpha = Ok r.
Proof.
  induction f as [|f IH]; intros fp img alpha r H f' Hf; [discriminate|].
  destruct f' as [|f']; [lia|]. cbn [anmf_loop] in *.
  destruct (len fp <? ChunkHeaderSize); [exact H|].
  destruct (read_chunk_header fp) as [[id sz]|e|]; try exact H.
  destruct (ChunkHeaderSize + sz >? len fp); [exact H|].
  destruct (slice fp ChunkHeaderSize (ChunkHeaderSize + sz)) as [sub|e|]; cbn [bind] in *; try discriminate.
  match goal with |- context [if ?c then _ else _] => destruct c end; [exact H|].
  match goal with |- context [slice fp ?a ?b] => destruct (slice fp a b) as [rest|e|] end; cbn [bind] in *; try discriminate.
  eapply IH; [exact H|lia].
Qed.

Lemma single_loop_more_fuel f : forall p img alpha r,
  single_loop f p img alpha = Ok r -> forall f', (f <= f')%nat -> single_loop f' p img alpha = Ok r.
Proof.
  induction f as [|f IH]; intros p img alpha r H f' Hf; [discriminate|].
  destruct f' as [|f']; [lia|]. cbn [single_loop] in *.
  destruct (len p <? ChunkHeaderSize); [exact H|].
  destruct (read_chunk p) as [[c n]|e|]; try exact H.
  match goal with |- context [match ?x with Some _ => _ | None => _ end] => destruct x end; [exact H|].
  destruct (slice p n (len p)) as [rest|e|]; cbn [bind] in *; try discriminate.
  eapply IH; [exact H|lia].
Qed.

Lemma ext_loop_more_fuel f : forall rest d r,
  ext_loop f rest d = Ok r -> forall f', (f <= f')%nat -> ext_loop f' rest d = Ok r.
Proof.
  induction f as [|f IH]; intros rest d r H f' Hf; [discriminate|].
  destruct f' as [|f']; [lia|]. cbn [ext_loop] in *.
  destruct (len rest <? ChunkHeaderSize); [exact H|].
  destruct (read_chunk rest) as [[c n]|e|]; try exact H.
  destruct (ext_dispatch (add_chunk d c) c rest) as [d2|e|]; cbn [bind] in *; try discriminate.
  destruct (slice rest n (len rest)) as [rest'|e|]; cbn [bind] in *; try discriminate.
  eapply IH; [exact H|lia].
Qed.

(** ---- one loop step on a written chunk ---- *)
Lemma slice_after {A} (pre post : list A) : slice (pre ++ post) (len pre) (len (pre ++ post)) = Ok post.
Proof. apply slice_suffix. Qed.

Lemma ext_loop_step f id p rest d :
  0 <= id < 4294967296 -> len p < 2147483648 ->
  ext_loop (S f) (enc id p ++ rest) d =
    bind (ext_dispatch (add_chunk d (mkchunk id (len p) p)) (mkchunk id (len p) p) (enc id p ++ rest))
         (fun d2 => ext_loop f rest d2).
Proof.
  intros Hid Hp. cbn [ext_loop]. unfold enc.
  pose proof (enc_len_ge id p Hp) as H8. unfold enc in H8. pose proof (len_nonneg rest).
  rewrite len_app. unfold ChunkHeaderSize.
  destruct (Z.ltb_spec (len (write_data_chunk id p) + len rest) 8); [lia|].
  rewrite read_chunk_write by (unfold MaxChunkPayload; lia).
  destruct (ext_dispatch _ _ _) as [d2|e|]; cbn [bind]; try reflexivity.
  rewrite <- len_app, slice_after. reflexivity.
Qed.

Lemma anmf_loop_step f id p rest img alpha :
  0 <= id < 4294967296 -> len p < 2147483648 ->
  anmf_loop (S f) (enc id p ++ rest) img alpha =
    anmf_loop f rest (if is_image_id id then Some p else img) (if id =? FCC_ALPH then Some p else alpha).
Proof.
  intros Hid Hp. cbn [anmf_loop]. unfold enc.
  pose proof (enc_len_ge id p Hp) as H8. unfold enc in H8. pose proof (len_nonneg rest). pose proof (len_nonneg p).
  rewrite write_data_chunk_eq in * by lia.
  unfold ChunkHeaderSize.
  assert (Hlen : len ((le32 id ++ le32 (len p) ++ p ++ pad_of (len p)) ++ rest) = 8 + len p + len p mod 2 + len rest).
  { rewrite !len_app, !len_le32, len_pad_of. lia. }
  rewrite Hlen.
  destruct (Z.ltb_spec (8 + len p + len p mod 2 + len rest) 8); [lia|].
  rewrite <- !app_assoc.
  rewrite read_chunk_header_written by (unfold MaxChunkPayload; lia).
  destruct (Z.gtb_spec (8 + len p) (8 + len p + len p mod 2 + len rest)); [lia|].
  replace (le32 id ++ le32 (len p) ++ p ++ pad_of (len p) ++ rest)
    with ((le32 id ++ le32 (len p)) ++ p ++ (pad_of (len p) ++ rest)) by (rewrite <- !app_assoc; reflexivity).
  rewrite (slice_app_mid' (le32 id ++ le32 (len p)) p (pad_of (len p) ++ rest)) by reflexivity.
  cbn [bind].
  set (adv := if negb (len p mod 2 =? 0) && (8 + len p <? 8 + len p + len p mod 2 + len rest) then 8 + len p + 1 else 8 + len p).
  assert (Hadv : adv = 8 + len p + len p mod 2).
  { unfold adv. destruct (Z.eqb_spec (len p mod 2) 0); cbn [negb andb]; [lia|].
    destruct (Z.ltb_spec (8 + len p) (8 + len p + len p mod 2 + len rest)); lia. }
  rewrite Hadv. destruct (Z.leb_spec (8 + len p + len p mod 2) 0); [lia|].
  replace ((le32 id ++ le32 (len p)) ++ p ++ pad_of (len p) ++ rest)
    with ((le32 id ++ le32 (len p) ++ p ++ pad_of (len p)) ++ rest) by (rewrite <- !app_assoc; reflexivity).
  replace (8 + len p + len p mod 2) with (len (le32 id ++ le32 (len p) ++ p ++ pad_of (len p)))
    by (rewrite !len_app, !len_le32, len_pad_of; lia).
  replace (len (le32 id ++ le32 (len p) ++ p ++ pad_of (len p)) + len rest)
    with (len ((le32 id ++ le32 (len p) ++ p ++ pad_of (len p)) ++ rest)) by (rewrite (len_app _ rest); reflexivity).
  rewrite slice_after. reflexivity.
Qed.

Lemma single_loop_step_alph f p rest alpha :
  len p < 2147483648 ->
  single_loop (S f) (enc FCC_ALPH p ++ rest) None alpha = single_loop f rest None (Some p).
Proof.
  intros Hp. cbn [single_loop]. unfold enc.
  pose proof (enc_len_ge FCC_ALPH p Hp) as H8. unfold enc in H8. pose proof (len_nonneg rest).
  rewrite len_app. unfold ChunkHeaderSize.
  destruct (Z.ltb_spec (len (write_data_chunk FCC_ALPH p) + len rest) 8); [lia|].
  rewrite read_chunk_write by (unfold MaxChunkPayload, FCC_ALPH; lia).
  cbn [c_id c_data]. change (FCC_ALPH =? FCC_ALPH) with true. change (is_image_id FCC_ALPH) with false.
  cbv iota. rewrite <- len_app, slice_after. reflexivity.
Qed.

Lemma single_loop_step_img f id p rest alpha :
  is_image_id id = true -> 0 <= id < 4294967296 -> len p < 2147483648 ->
  single_loop (S f) (enc id p ++ rest) None alpha = Ok (Some p, alpha).
Proof.
  intros Himg Hid Hp. cbn [single_loop]. unfold enc.
  pose proof (enc_len_ge id p Hp) as H8. unfold enc in H8. pose proof (len_nonneg rest).
  rewrite len_app. unfold ChunkHeaderSize.
  destruct (Z.ltb_spec (len (write_data_chunk id p) + len rest) 8); [lia|].
  rewrite read_chunk_write by (unfold MaxChunkPayload; lia).
  cbn [c_id c_data]. rewrite Himg.
  assert (id =? FCC_ALPH = false).
  { unfold is_image_id in Himg. apply Z.eqb_neq. intros ->. discriminate. }
  rewrite H1. reflexivity.
Qed.

(** ---- what a valid frame (VP8 / VP8L bitstream, optional ALPH prefix) looks like to the code ---- *)

Definition dims_of_bits (bs : list Z) : Z * Z :=
  let vp8 :=
    if len bs >=? 10 then
      match parse_vp8_dims bs with Ok (w, h) => (w, h) | _ => (0, 0) end
    else (0, 0) in
  if len bs >=? 5 then
    match bs with
    | b0 :: _ =>
      if b0 =? VP8LMagicByte then
        match parse_vp8l_dims bs with Ok (w, h, _) => (w, h) | _ => vp8 end
      else vp8
    | [] => vp8
    end
  else vp8.

Lemma frame_dims_eq data : frame_dims data = dims_of_bits (snd (split_alpha data)).
Proof. reflexivity. Qed.

Record bfacts (b : list Z) (w h : Z) (isl abit : bool) : Prop := {
  bf_w : 1 <= w <= 16384; bf_h : 1 <= h <= 16384;
  bf_len : 5 <= len b;
  bf_dims : dims_of_bits b = (w, h);
  bf_type : detect_type b = if isl then FCC_VP8L else FCC_VP8;
  bf_hdr : if isl then vp8l_header b = Some (w, h, abit) /\ parse_vp8l_dims b = Ok (w, h, abit)
           else vp8_header b = Some (w, h) /\ parse_vp8_dims b = Ok (w, h) /\ abit = false;
  bf_fha : frame_data_has_alpha b = Ok (isl && abit);
  bf_notalph : forall x y z t tl, b = x :: y :: z :: t :: tl -> rd32 [x; y; z; t] <> FCC_ALPH }.

Lemma vp8l_bits_facts b w h a : bytes_ok b -> vp8l_header b = Some (w, h, a) -> bfacts b w h true a.
Proof.
  intros Hb Hh. unfold vp8l_header in Hh.
  destruct b as [|b0 [|b1 [|b2 [|b3 [|b4 tl]]]]]; try discriminate.
  destruct ((b0 =? 47) && ((b1 + 256 * b2 + 65536 * b3 + 16777216 * b4) / 536870912 =? 0)) eqn:E; [|discriminate].
  apply andb_true_iff in E. destruct E as [E1 E2]. apply Z.eqb_eq in E1. subst b0.
  injection Hh as <- <- <-.
  assert (Hp : parse_vp8l_dims (47 :: b1 :: b2 :: b3 :: b4 :: tl) =
               Ok ((b1 + 256 * b2 + 65536 * b3 + 16777216 * b4) mod 16384 + 1,
                   (b1 + 256 * b2 + 65536 * b3 + 16777216 * b4) / 16384 mod 16384 + 1,
                   negb ((b1 + 256 * b2 + 65536 * b3 + 16777216 * b4) / 268435456 mod 2 =? 0))).
  { unfold parse_vp8l_dims. rewrite !len_cons. pose proof (len_nonneg tl).
    destruct (Z.ltb_spec (1 + (1 + (1 + (1 + (1 + len tl))))) 5); [lia|]. reflexivity. }
  constructor.
  - lia.
  - lia.
  - rewrite !len_cons. pose proof (len_nonneg tl). lia.
  - unfold dims_of_bits. rewrite Hp. rewrite !len_cons. pose proof (len_nonneg tl).
    destruct (Z.geb_spec (1 + (1 + (1 + (1 + (1 + len tl))))) 5); [|lia].
    unfold VP8LMagicByte. rewrite Z.eqb_refl. reflexivity.
  - reflexivity.
  - split; [|exact Hp]. unfold vp8l_header. rewrite Z.eqb_refl, E2. reflexivity.
  - unfold frame_data_has_alpha. rewrite !len_cons. pose proof (len_nonneg tl).
    destruct (Z.ltb_spec (1 + (1 + (1 + (1 + (1 + len tl))))) 5); [lia|].
    unfold VP8LMagicByte. rewrite Z.eqb_refl. reflexivity.
  - intros x y z t tl' [= <- <- <- <- _]. unfold rd32, FCC_ALPH.
    inversion Hb as [|? ? _ Hb']; subst. inversion Hb' as [|? ? Hb1 Hb'']; subst.
    inversion Hb'' as [|? ? Hb2 Hb3]; subst. inversion Hb3 as [|? ? Hb4 _]; subst.
    unfold is_byte in *. lia.
Qed.

Lemma vp8_bits_facts b w h : bytes_ok b -> vp8_header b = Some (w, h) -> bfacts b w h false false.
Proof.
  intros Hb Hh. unfold vp8_header in Hh.
  destruct b as [|t0 [|t1 [|t2 [|b3 [|b4 [|b5 [|b6 [|b7 [|b8 [|b9 tl]]]]]]]]]]; try discriminate.
  match type of Hh with (if ?c then _ else _) = _ => destruct c eqn:E; [|discriminate] end.
  injection Hh as <- <-.
  rewrite !andb_true_iff in E. destruct E as (((((E & E3) & E4) & E5) & Ew) & Eh).
  apply Z.eqb_eq in E3, E4, E5. subst b3 b4 b5.
  assert (Hp : parse_vp8_dims (t0 :: t1 :: t2 :: 157 :: 1 :: 42 :: b6 :: b7 :: b8 :: b9 :: tl) =
               Ok ((b6 + 256 * b7) mod 16384, (b8 + 256 * b9) mod 16384)).
  { unfold parse_vp8_dims. rewrite !len_cons. pose proof (len_nonneg tl).
    destruct (Z.ltb_spec (1 + (1 + (1 + (1 + (1 + (1 + (1 + (1 + (1 + (1 + len tl)))))))))) 10); [lia|]. reflexivity. }
  assert (Ht0 : t0 =? VP8LMagicByte = false).
  { apply Z.eqb_neq. intros ->. unfold VP8LMagicByte in E. cbn in E. discriminate. }
  constructor.
  - lia.
  - lia.
  - rewrite !len_cons. pose proof (len_nonneg tl). lia.
  - unfold dims_of_bits. rewrite Hp. rewrite !len_cons. pose proof (len_nonneg tl).
    destruct (Z.geb_spec (1 + (1 + (1 + (1 + (1 + (1 + (1 + (1 + (1 + (1 + len tl)))))))))) 10); [|lia].
    destruct (Z.geb_spec (1 + (1 + (1 + (1 + (1 + (1 + (1 + (1 + (1 + (1 + len tl)))))))))) 5); [|lia].
    rewrite Ht0. reflexivity.
  - unfold detect_type. rewrite Ht0. reflexivity.
  - split; [|split; [exact Hp|reflexivity]].
    unfold vp8_header. rewrite E, !Z.eqb_refl, Ew, Eh. reflexivity.
  - unfold frame_data_has_alpha. rewrite !len_cons. pose proof (len_nonneg tl).
    destruct (Z.ltb_spec (1 + (1 + (1 + (1 + (1 + (1 + (1 + (1 + (1 + (1 + len tl)))))))))) 5); [lia|].
    rewrite Ht0. reflexivity.
  - intros x y z t tl' [= <- <- <- <- _]. unfold rd32, FCC_ALPH.
    inversion Hb as [|? ? Hb0 Hb']; subst. inversion Hb' as [|? ? Hb1 Hb'']; subst.
    inversion Hb'' as [|? ? Hb2 _]; subst. unfold is_byte in *. lia.
Qed.

Lemma bits_facts b : bytes_ok b -> (is_some' (vp8_header b) || is_some' (vp8l_header b)) = true ->
  exists w h isl abit, bfacts b w h isl abit.
Proof.
  intros Hb H. destruct (vp8l_header b) as [[[w h] a]|] eqn:El.
  - exists w, h, true, a. apply vp8l_bits_facts; auto.
  - rewrite orb_false_r in H. destruct (vp8_header b) as [[w h]|] eqn:Ev; [|discriminate].
    exists w, h, false, false. apply vp8_bits_facts; auto.
Qed.

Definition obytes_ok (o : option (list Z)) : Prop := match o with Some x => bytes_ok x | None => True end.

Record vfacts (data : list Z) (a : option (list Z)) (b : list Z) (w h : Z) (isl abit : bool) : Prop := {
  vf_parts : frame_parts data = Some (a, b);
  vf_split : split_alpha data = (a, b);
  vf_b : bfacts b w h isl abit;
  vf_bb : bytes_ok b;
  vf_ab : obytes_ok a;
  vf_len : len b + olen a <= len data;
  vf_lossy_alpha : a <> None -> isl = false }.

Lemma bytes_ok_inv a l : bytes_ok (a :: l) -> 0 <= a < 256 /\ bytes_ok l.
Proof. intros H. inversion H; subst. split; auto. Qed.

Lemma valid_frame_facts data : bytes_ok data -> valid_frame data = true ->
  exists a b w h isl abit, vfacts data a b w h isl abit.
Proof.
  intros Hb Hv. unfold valid_frame in Hv.
  destruct (frame_parts data) as [[a b]|] eqn:Ep; [|discriminate].
  unfold frame_parts in Ep.
  destruct (bytes_eqb (firstn 4 data) T_ALPH) eqn:Etag.
  - (* ALPH prefix *)
    destruct data as [|a0 [|a1 [|a2 [|a3 rest]]]]; try (cbn in Etag; discriminate).
    cbn [firstn bytes_eqb T_ALPH] in Etag.
    rewrite !andb_true_iff in Etag. destruct Etag as (E0 & E1 & E2 & E3 & _).
    apply Z.eqb_eq in E0, E1, E2, E3. subst a0 a1 a2 a3.
    cbn [skipn] in Ep.
    destruct rest as [|s0 [|s1 [|s2 [|s3 body]]]]; try discriminate.
    set (n := rd32 [s0; s1; s2; s3]) in *.
    destruct (Z.leb_spec (n + n mod 2) (glen body)) as [Hn|]; [|discriminate].
    injection Ep as <- <-.
    assert (Hvb : is_some' (vp8_header (skipn (Z.to_nat (n + n mod 2)) body)) = true) by exact Hv.
    set (b := skipn (Z.to_nat (n + n mod 2)) body) in *.
    destruct (vp8_header b) as [[w h]|] eqn:Eh; [|discriminate].
    repeat (apply bytes_ok_inv in Hb; let Hx := fresh "Hx" in destruct Hb as [Hx Hb]).
    assert (Hn0 : 0 <= n) by (unfold n, rd32; lia).
    assert (Hbb : bytes_ok b) by (apply bytes_ok_skipn; exact Hb).
    pose proof (vp8_bits_facts b w h Hbb Eh) as Hbf.
    assert (Hlb : len b = len body - (n + n mod 2)).
    { unfold b, len, glen in *. rewrite skipn_length. lia. }
    pose proof (bf_len _ _ _ _ _ Hbf) as H5.
    exists (Some (firstn (Z.to_nat n) body)), b, w, h, false, false.
    constructor; auto.
    + unfold frame_parts. cbn [firstn bytes_eqb T_ALPH skipn]. rewrite !Z.eqb_refl. cbn [andb].
      fold n. destruct (Z.leb_spec (n + n mod 2) (glen body)); [reflexivity|lia].
    + unfold split_alpha, ChunkHeaderSize. rewrite !len_cons.
      pose proof (len_nonneg body). unfold glen in Hn. fold (len body) in Hn.
      destruct (Z.ltb_spec (1 + (1 + (1 + (1 + (1 + (1 + (1 + (1 + len body)))))))) 8); [lia|].
      change (rd32 [65; 76; 80; 72] =? FCC_ALPH) with true. cbv iota. fold n.
      destruct (Z.leb_spec (8 + n) (1 + (1 + (1 + (1 + (1 + (1 + (1 + (1 + len body))))))))); [|lia].
      f_equal. unfold b. f_equal. f_equal.
      destruct (Z.eqb_spec (n mod 2) 0); cbn [negb andb]; [lia|].
      destruct (Z.ltb_spec (8 + n) (1 + (1 + (1 + (1 + (1 + (1 + (1 + (1 + len body))))))))); lia.
    + cbn. apply bytes_ok_firstn. exact Hb.
    + cbn [olen]. rewrite !len_cons. unfold len at 2. rewrite firstn_length.
      unfold glen in Hn. fold (len body) in Hn. unfold len in *. lia.
  - (* no prefix *)
    injection Ep as <- <-.
    destruct (bits_facts data Hb Hv) as (w & h & isl & abit & Hbf).
    exists None, data, w, h, isl, abit.
    constructor; auto.
    + unfold frame_parts. rewrite Etag. reflexivity.
    + unfold split_alpha. destruct (len data <? ChunkHeaderSize); [reflexivity|].
      destruct data as [|a0 [|a1 [|a2 [|a3 [|s0 [|s1 [|s2 [|s3 body]]]]]]]]; try reflexivity.
      pose proof (bf_notalph _ _ _ _ _ Hbf a0 a1 a2 a3 _ eq_refl) as Hne.
      destruct (Z.eqb_spec (rd32 [a0; a1; a2; a3]) FCC_ALPH); [contradiction|reflexivity].
    + exact I.
    + cbn [olen]. lia.
    + intros H. contradiction.
Qed.
