(** C14: the round trip through the extended (VP8X) layouts — still pictures with
    metadata and/or alpha, and animations of any number of frames with or without
    ALPH sub-chunks — for the current muxer and demuxer models. *)
From Coq Require Import List ZArith Lia Bool ZifyBool ZifyNat.
From Webp Require Import Base.Res Base.Bytes Riff.RiffGrammar Riff.DemuxModel Riff.DemuxTotal
  Riff.MuxModel Riff.MuxView Riff.MuxProofs.
Import ListNotations.
Open Scope Z_scope.
Ltac Zify.zify_post_hook ::= Z.div_mod_to_equations.

Definition enc := write_data_chunk.

Lemma enc_len_ge id p : len p < 2147483648 -> 8 <= len (enc id p).
Proof.
  intros H. unfold enc. rewrite write_data_chunk_eq by (pose proof (len_nonneg p); lia).
  rewrite !len_app, !len_le32. pose proof (len_nonneg p). pose proof (len_nonneg (pad_of (len p))). lia.
Qed.

(** ---- fuel monotonicity of the three loops ---- *)
Lemma anmf_loop_more_fuel f : forall fp img alpha r,
  anmf_loop f fp img alpha = Ok r -> forall f', (f <= f')%nat -> anmf_loop f' fp img alpha = Ok r.
Proof.
  induction f as [|f IH]; intros fp img alpha r H f' Hf; [discriminate|].
  destruct f' as [|f']; [lia|]. cbn [anmf_loop] in *.
  destruct (len fp <? ChunkHeaderSize); [exact H|].
  destruct (read_chunk_header fp) as [[id sz]|e|]; try exact H.
  destruct (ChunkHeaderSize + sz >? len fp); [exact H|].
  destruct (slice fp ChunkHeaderSize (ChunkHeaderSize + sz)) as [sub|e|]; cbn [bind] in *; try discriminate.
  match goal with |- context [if ?c then _ else _] => destruct c end; [exact H|].
  match goal with |- context [slice fp ?a ?b] => destruct (slice fp a b) as [rest|e|] end; cbn [bind] in *; try discriminate.
  eapply IH; [exact H|lia].
Qed.

Lemma single_loop_more_fuel f : forall p img alpha r,
  single_loop f p img alpha = Ok r -> forall f', (f <= f')%nat -> single_loop f' p img alpha = Ok r.
Proof.
  induction f as [|f IH]; intros p img alpha r H f' Hf; [discriminate|].
  destruct f' as [|f']; [lia|]. cbn [single_loop] in *.
  destruct (len p <? ChunkHeaderSize); [exact H|].
  destruct (read_chunk p) as [[c n]|e|]; try exact H.
  match goal with |- context [match ?x with Some _ => _ | None => _ end] => destruct x end; [exact H|].
  destruct (slice p n (len p)) as [rest|e|]; cbn [bind] in *; try discriminate.
  eapply IH; [exact H|lia].
Qed.

Lemma ext_loop_more_fuel f : forall rest d r,
  ext_loop f rest d = Ok r -> forall f', (f <= f')%nat -> ext_loop f' rest d = Ok r.
Proof.
  induction f as [|f IH]; intros rest d r H f' Hf; [discriminate|].
  destruct f' as [|f']; [lia|]. cbn [ext_loop] in *.
  destruct (len rest <? ChunkHeaderSize); [exact H|].
  destruct (read_chunk rest) as [[c n]|e|]; try exact H.
  destruct (ext_dispatch (add_chunk d c) c rest) as [d2|e|]; cbn [bind] in *; try discriminate.
  destruct (slice rest n (len rest)) as [rest'|e|]; cbn [bind] in *; try discriminate.
  eapply IH; [exact H|lia].
Qed.

(** ---- one loop step on a written chunk ---- *)
Lemma slice_after {A} (pre post : list A) : slice (pre ++ post) (len pre) (len (pre ++ post)) = Ok post.
Proof. apply slice_suffix. Qed.

Lemma ext_loop_step f id p rest d :
  0 <= id < 4294967296 -> len p < 2147483648 ->
  ext_loop (S f) (enc id p ++ rest) d =
    bind (ext_dispatch (add_chunk d (mkchunk id (len p) p)) (mkchunk id (len p) p) (enc id p ++ rest))
         (fun d2 => ext_loop f rest d2).
Proof.
  intros Hid Hp. cbn [ext_loop]. unfold enc.
  pose proof (enc_len_ge id p Hp) as H8. unfold enc in H8. pose proof (len_nonneg rest).
  rewrite len_app. unfold ChunkHeaderSize.
  destruct (Z.ltb_spec (len (write_data_chunk id p) + len rest) 8); [lia|].
  rewrite read_chunk_write by (unfold MaxChunkPayload; lia).
  destruct (ext_dispatch _ _ _) as [d2|e|]; cbn [bind]; try reflexivity.
  rewrite <- len_app, slice_after. reflexivity.
Qed.

Lemma anmf_loop_step f id p rest img alpha :
  0 <= id < 4294967296 -> len p < 2147483648 ->
  anmf_loop (S f) (enc id p ++ rest) img alpha =
    anmf_loop f rest (if is_image_id id then Some p else img) (if id =? FCC_ALPH then Some p else alpha).
Proof.
  intros Hid Hp. cbn [anmf_loop]. unfold enc.
  pose proof (enc_len_ge id p Hp) as H8. unfold enc in H8. pose proof (len_nonneg rest). pose proof (len_nonneg p).
  rewrite write_data_chunk_eq in * by lia.
  unfold ChunkHeaderSize.
  assert (Hlen : len ((le32 id ++ le32 (len p) ++ p ++ pad_of (len p)) ++ rest) = 8 + len p + len p mod 2 + len rest).
  { rewrite !len_app, !len_le32, len_pad_of. lia. }
  rewrite Hlen.
  destruct (Z.ltb_spec (8 + len p + len p mod 2 + len rest) 8); [lia|].
  rewrite <- !app_assoc.
  rewrite read_chunk_header_written by (unfold MaxChunkPayload; lia).
  destruct (Z.gtb_spec (8 + len p) (8 + len p + len p mod 2 + len rest)); [lia|].
  replace (le32 id ++ le32 (len p) ++ p ++ pad_of (len p) ++ rest)
    with ((le32 id ++ le32 (len p)) ++ p ++ (pad_of (len p) ++ rest)) by (rewrite <- !app_assoc; reflexivity).
  rewrite (slice_app_mid' (le32 id ++ le32 (len p)) p (pad_of (len p) ++ rest)) by reflexivity.
  cbn [bind].
  set (adv := if negb (len p mod 2 =? 0) && (8 + len p <? 8 + len p + len p mod 2 + len rest) then 8 + len p + 1 else 8 + len p).
  assert (Hadv : adv = 8 + len p + len p mod 2).
  { unfold adv. destruct (Z.eqb_spec (len p mod 2) 0); cbn [negb andb]; [lia|].
    destruct (Z.ltb_spec (8 + len p) (8 + len p + len p mod 2 + len rest)); lia. }
  rewrite Hadv. destruct (Z.leb_spec (8 + len p + len p mod 2) 0); [lia|].
  replace ((le32 id ++ le32 (len p)) ++ p ++ pad_of (len p) ++ rest)
    with ((le32 id ++ le32 (len p) ++ p ++ pad_of (len p)) ++ rest) by (rewrite <- !app_assoc; reflexivity).
  replace (8 + len p + len p mod 2) with (len (le32 id ++ le32 (len p) ++ p ++ pad_of (len p)))
    by (rewrite !len_app, !len_le32, len_pad_of; lia).
  replace (len (le32 id ++ le32 (len p) ++ p ++ pad_of (len p)) + len rest)
    with (len ((le32 id ++ le32 (len p) ++ p ++ pad_of (len p)) ++ rest)) by (rewrite (len_app _ rest); reflexivity).
  rewrite slice_after. reflexivity.
Qed.

Lemma single_loop_step_alph f p rest alpha :
  len p < 2147483648 ->
  single_loop (S f) (enc FCC_ALPH p ++ rest) None alpha = single_loop f rest None (Some p).
Proof.
  intros Hp. cbn [single_loop]. unfold enc.
  pose proof (enc_len_ge FCC_ALPH p Hp) as H8. unfold enc in H8. pose proof (len_nonneg rest).
  rewrite len_app. unfold ChunkHeaderSize.
  destruct (Z.ltb_spec (len (write_data_chunk FCC_ALPH p) + len rest) 8); [lia|].
  rewrite read_chunk_write by (unfold MaxChunkPayload, FCC_ALPH; lia).
  cbn [c_id c_data]. change (FCC_ALPH =? FCC_ALPH) with true. change (is_image_id FCC_ALPH) with false.
  cbv iota. rewrite <- len_app, slice_after. reflexivity.
Qed.

Lemma single_loop_step_img f id p rest alpha :
  is_image_id id = true -> 0 <= id < 4294967296 -> len p < 2147483648 ->
  single_loop (S f) (enc id p ++ rest) None alpha = Ok (Some p, alpha).
Proof.
  intros Himg Hid Hp. cbn [single_loop]. unfold enc.
  pose proof (enc_len_ge id p Hp) as H8. unfold enc in H8. pose proof (len_nonneg rest).
  rewrite len_app. unfold ChunkHeaderSize.
  destruct (Z.ltb_spec (len (write_data_chunk id p) + len rest) 8); [lia|].
  rewrite read_chunk_write by (unfold MaxChunkPayload; lia).
  cbn [c_id c_data]. rewrite Himg.
  assert (id =? FCC_ALPH = false).
  { unfold is_image_id in Himg. apply Z.eqb_neq. intros ->. discriminate. }
  rewrite H1. reflexivity.
Qed.

(** ---- what a valid frame (VP8 / VP8L bitstream, optional ALPH prefix) looks like to the code ---- *)

Definition dims_of_bits (bs : list Z) : Z * Z :=
  let vp8 :=
    if len bs >=? 10 then
      match parse_vp8_dims bs with Ok (w, h) => (w, h) | _ => (0, 0) end
    else (0, 0) in
  if len bs >=? 5 then
    match bs with
    | b0 :: _ =>
      if b0 =? VP8LMagicByte then
        match parse_vp8l_dims bs with Ok (w, h, _) => (w, h) | _ => vp8 end
      else vp8
    | [] => vp8
    end
  else vp8.

Lemma frame_dims_eq data : frame_dims data = dims_of_bits (snd (split_alpha data)).
Proof. reflexivity. Qed.

Record bfacts (b : list Z) (w h : Z) (isl abit : bool) : Prop := {
  bf_w : 1 <= w <= 16384; bf_h : 1 <= h <= 16384;
  bf_len : 5 <= len b;
  bf_dims : dims_of_bits b = (w, h);
  bf_type : detect_type b = if isl then FCC_VP8L else FCC_VP8;
  bf_hdr : if isl then vp8l_header b = Some (w, h, abit) /\ parse_vp8l_dims b = Ok (w, h, abit)
           else vp8_header b = Some (w, h) /\ parse_vp8_dims b = Ok (w, h) /\ abit = false;
  bf_fha : frame_data_has_alpha b = Ok (isl && abit);
  bf_notalph : forall x y z t tl, b = x :: y :: z :: t :: tl -> rd32 [x; y; z; t] <> FCC_ALPH }.

Lemma vp8l_bits_facts b w h a : bytes_ok b -> vp8l_header b = Some (w, h, a) -> bfacts b w h true a.
Proof.
  intros Hb Hh. unfold vp8l_header in Hh.
  destruct b as [|b0 [|b1 [|b2 [|b3 [|b4 tl]]]]]; try discriminate.
  destruct ((b0 =? 47) && ((b1 + 256 * b2 + 65536 * b3 + 16777216 * b4) / 536870912 =? 0)) eqn:E; [|discriminate].
  apply andb_true_iff in E. destruct E as [E1 E2]. apply Z.eqb_eq in E1. subst b0.
  assert (Hw : w = (b1 + 256 * b2 + 65536 * b3 + 16777216 * b4) mod 16384 + 1 /\
               h = (b1 + 256 * b2 + 65536 * b3 + 16777216 * b4) / 16384 mod 16384 + 1 /\
               a = negb ((b1 + 256 * b2 + 65536 * b3 + 16777216 * b4) / 268435456 mod 2 =? 0))
    by (repeat split; congruence).
  destruct Hw as (-> & -> & ->). clear Hh.
  assert (Hp : parse_vp8l_dims (47 :: b1 :: b2 :: b3 :: b4 :: tl) =
               Ok ((b1 + 256 * b2 + 65536 * b3 + 16777216 * b4) mod 16384 + 1,
                   (b1 + 256 * b2 + 65536 * b3 + 16777216 * b4) / 16384 mod 16384 + 1,
                   negb ((b1 + 256 * b2 + 65536 * b3 + 16777216 * b4) / 268435456 mod 2 =? 0))).
  { unfold parse_vp8l_dims. rewrite !len_cons. pose proof (len_nonneg tl).
    destruct (Z.ltb_spec (1 + (1 + (1 + (1 + (1 + len tl))))) 5); [lia|]. reflexivity. }
  constructor.
  - lia.
  - lia.
  - rewrite !len_cons. pose proof (len_nonneg tl). lia.
  - unfold dims_of_bits. rewrite Hp. rewrite !len_cons. pose proof (len_nonneg tl).
    destruct (Z.geb_spec (1 + (1 + (1 + (1 + (1 + len tl))))) 5); [|lia].
    unfold VP8LMagicByte. rewrite Z.eqb_refl. reflexivity.
  - reflexivity.
  - split; [|exact Hp]. unfold vp8l_header. rewrite Z.eqb_refl, E2. reflexivity.
  - unfold frame_data_has_alpha. rewrite !len_cons. pose proof (len_nonneg tl).
    destruct (Z.ltb_spec (1 + (1 + (1 + (1 + (1 + len tl))))) 5); [lia|].
    unfold VP8LMagicByte. rewrite Z.eqb_refl. reflexivity.
  - intros x y z t tl' [= <- <- <- <- _]. unfold rd32, FCC_ALPH.
    inversion Hb as [|? ? _ Hb']; subst. inversion Hb' as [|? ? Hb1 Hb'']; subst.
    inversion Hb'' as [|? ? Hb2 Hb3]; subst. inversion Hb3 as [|? ? Hb4 _]; subst.
    unfold is_byte in *. lia.
Qed.

Lemma vp8_bits_facts b w h : bytes_ok b -> vp8_header b = Some (w, h) -> bfacts b w h false false.
Proof.
  intros Hb Hh. unfold vp8_header in Hh.
  destruct b as [|t0 [|t1 [|t2 [|b3 [|b4 [|b5 [|b6 [|b7 [|b8 [|b9 tl]]]]]]]]]]; try discriminate.
  match type of Hh with (if ?c then _ else _) = _ => destruct c eqn:E; [|discriminate] end.
  assert (Hw : w = (b6 + 256 * b7) mod 16384 /\ h = (b8 + 256 * b9) mod 16384) by (split; congruence).
  destruct Hw as (-> & ->). clear Hh.
  rewrite !andb_true_iff in E. destruct E as (((((E & E3) & E4) & E5) & Ew) & Eh).
  apply Z.eqb_eq in E3, E4, E5. subst b3 b4 b5.
  assert (Hp : parse_vp8_dims (t0 :: t1 :: t2 :: 157 :: 1 :: 42 :: b6 :: b7 :: b8 :: b9 :: tl) =
               Ok ((b6 + 256 * b7) mod 16384, (b8 + 256 * b9) mod 16384)).
  { unfold parse_vp8_dims. rewrite !len_cons. pose proof (len_nonneg tl).
    destruct (Z.ltb_spec (1 + (1 + (1 + (1 + (1 + (1 + (1 + (1 + (1 + (1 + len tl)))))))))) 10); [lia|]. reflexivity. }
  assert (Ht0 : t0 =? VP8LMagicByte = false).
  { apply Z.eqb_neq. intros ->. unfold VP8LMagicByte in E. cbn in E. discriminate. }
  constructor.
  - lia.
  - lia.
  - rewrite !len_cons. pose proof (len_nonneg tl). lia.
  - unfold dims_of_bits. rewrite Hp. rewrite !len_cons. pose proof (len_nonneg tl).
    destruct (Z.geb_spec (1 + (1 + (1 + (1 + (1 + (1 + (1 + (1 + (1 + (1 + len tl)))))))))) 10); [|lia].
    destruct (Z.geb_spec (1 + (1 + (1 + (1 + (1 + (1 + (1 + (1 + (1 + (1 + len tl)))))))))) 5); [|lia].
    rewrite Ht0. reflexivity.
  - unfold detect_type. rewrite Ht0. reflexivity.
  - split; [|split; [exact Hp|reflexivity]].
    unfold vp8_header. rewrite E, !Z.eqb_refl, Ew, Eh. reflexivity.
  - unfold frame_data_has_alpha. rewrite !len_cons. pose proof (len_nonneg tl).
    destruct (Z.ltb_spec (1 + (1 + (1 + (1 + (1 + (1 + (1 + (1 + (1 + (1 + len tl)))))))))) 5); [lia|].
    rewrite Ht0. reflexivity.
  - intros x y z t tl' [= <- <- <- <- _]. unfold rd32, FCC_ALPH.
    inversion Hb as [|? ? Hb0 Hb']; subst. inversion Hb' as [|? ? Hb1 Hb'']; subst.
    inversion Hb'' as [|? ? Hb2 _]; subst. unfold is_byte in *. lia.
Qed.

Lemma bits_facts b : bytes_ok b -> (is_some' (vp8_header b) || is_some' (vp8l_header b)) = true ->
  exists w h isl abit, bfacts b w h isl abit.
Proof.
  intros Hb H. destruct (vp8l_header b) as [[[w h] a]|] eqn:El.
  - exists w, h, true, a. apply vp8l_bits_facts; auto.
  - rewrite orb_false_r in H. destruct (vp8_header b) as [[w h]|] eqn:Ev; [|discriminate].
    exists w, h, false, false. apply vp8_bits_facts; auto.
Qed.

Definition obytes_ok (o : option (list Z)) : Prop := match o with Some x => bytes_ok x | None => True end.

Record vfacts (data : list Z) (a : option (list Z)) (b : list Z) (w h : Z) (isl abit : bool) : Prop := {
  vf_parts : frame_parts data = Some (a, b);
  vf_split : split_alpha data = (a, b);
  vf_b : bfacts b w h isl abit;
  vf_bb : bytes_ok b;
  vf_ab : obytes_ok a;
  vf_len : len b + olen a <= len data;
  vf_lossy_alpha : a <> None -> isl = false;
  vf_len8 : a <> None -> 8 + olen a + len b <= len data /\ firstn 4 data = T_ALPH }.

Lemma bytes_ok_inv a l : bytes_ok (a :: l) -> 0 <= a < 256 /\ bytes_ok l.
Proof. intros H. inversion H; subst. split; auto. Qed.

Lemma valid_frame_facts data : bytes_ok data -> valid_frame data = true ->
  exists a b w h isl abit, vfacts data a b w h isl abit.
Proof.
  intros Hb Hv. unfold valid_frame in Hv.
  destruct (frame_parts data) as [[a b]|] eqn:Ep; [|discriminate].
  unfold frame_parts in Ep.
  destruct (bytes_eqb (firstn 4 data) T_ALPH) eqn:Etag.
  - (* ALPH prefix *)
    destruct data as [|a0 [|a1 [|a2 [|a3 rest]]]]; try (cbn in Etag; discriminate).
    cbn [firstn bytes_eqb T_ALPH] in Etag.
    rewrite !andb_true_iff in Etag. destruct Etag as (E0 & E1 & E2 & E3 & _).
    apply Z.eqb_eq in E0, E1, E2, E3. subst a0 a1 a2 a3.
    cbn [skipn] in Ep.
    destruct rest as [|s0 [|s1 [|s2 [|s3 body]]]]; try discriminate.
    set (n := rd32 [s0; s1; s2; s3]) in *.
    destruct (Z.leb_spec (n + n mod 2) (glen body)) as [Hn|]; [|discriminate].
    injection Ep as <- <-.
    assert (Hvb : is_some' (vp8_header (skipn (Z.to_nat (n + n mod 2)) body)) = true) by exact Hv.
    set (b := skipn (Z.to_nat (n + n mod 2)) body) in *.
    destruct (vp8_header b) as [[w h]|] eqn:Eh; [|discriminate].
    repeat (apply bytes_ok_inv in Hb; let Hx := fresh "Hx" in destruct Hb as [Hx Hb]).
    assert (Hn0 : 0 <= n) by (unfold n, rd32; lia).
    assert (Hbb : bytes_ok b) by (apply bytes_ok_skipn; exact Hb).
    pose proof (vp8_bits_facts b w h Hbb Eh) as Hbf.
    assert (Hlb : len b = len body - (n + n mod 2)).
    { unfold b, len, glen in *. rewrite skipn_length. lia. }
    pose proof (bf_len _ _ _ _ _ Hbf) as H5.
    exists (Some (firstn (Z.to_nat n) body)), b, w, h, false, false.
    constructor; auto.
    + unfold frame_parts. cbn [firstn bytes_eqb T_ALPH skipn]. rewrite !Z.eqb_refl. cbn [andb].
      fold n. destruct (Z.leb_spec (n + n mod 2) (glen body)); [reflexivity|lia].
    + unfold split_alpha, ChunkHeaderSize. rewrite !len_cons.
      pose proof (len_nonneg body). unfold glen in Hn. fold (len body) in Hn.
      destruct (Z.ltb_spec (1 + (1 + (1 + (1 + (1 + (1 + (1 + (1 + len body)))))))) 8); [lia|].
      change (rd32 [65; 76; 80; 72] =? FCC_ALPH) with true. cbv iota. fold n.
      destruct (Z.leb_spec (8 + n) (1 + (1 + (1 + (1 + (1 + (1 + (1 + (1 + len body))))))))); [|lia].
      f_equal. unfold b. f_equal. f_equal.
      destruct (Z.eqb_spec (n mod 2) 0); cbn [negb andb]; [lia|].
      destruct (Z.ltb_spec (8 + n) (1 + (1 + (1 + (1 + (1 + (1 + (1 + (1 + len body))))))))); lia.
    + cbn. apply bytes_ok_firstn. exact Hb.
    + cbn [olen]. rewrite !len_cons. unfold len at 2. rewrite firstn_length.
      unfold glen in Hn. fold (len body) in Hn. unfold len in *. lia.
    + intros _. split; [|reflexivity]. cbn [olen]. rewrite !len_cons. unfold len at 1. rewrite firstn_length.
      unfold glen in Hn. fold (len body) in Hn. unfold len in *. lia.
  - (* no prefix *)
    injection Ep as <- <-.
    destruct (bits_facts data Hb Hv) as (w & h & isl & abit & Hbf).
    exists None, data, w, h, isl, abit.
    constructor; auto.
    + unfold frame_parts. rewrite Etag. reflexivity.
    + unfold split_alpha. destruct (len data <? ChunkHeaderSize); [reflexivity|].
      destruct data as [|a0 [|a1 [|a2 [|a3 [|s0 [|s1 [|s2 [|s3 body]]]]]]]]; try reflexivity.
      pose proof (bf_notalph _ _ _ _ _ Hbf a0 a1 a2 a3 _ eq_refl) as Hne.
      destruct (Z.eqb_spec (rd32 [a0; a1; a2; a3]) FCC_ALPH); [contradiction|reflexivity].
    + exact I.
    + cbn [olen]. lia.
    + intros H. contradiction.
    + intros H. contradiction.
Qed.

(** ---- the bytes written for one picture and what the demuxer makes of them ---- *)

Definition img_chunks (a : option (list Z)) (b : list Z) : list Z :=
  (match a with Some x => enc FCC_ALPH x | None => [] end) ++ enc (detect_type b) b.

Definition anmf_flag (fo : fopts) : Z :=
  (if o_dispose fo =? 1 then 1 else 0) + (if o_blend fo =? 1 then 2 else 0).

Definition anmf_hdr (fo : fopts) (w h : Z) : list Z :=
  le24 (Z.quot (o_ox fo) 2) ++ le24 (Z.quot (o_oy fo) 2) ++ le24 (w - 1) ++ le24 (h - 1) ++
  le24 (o_dur fo) ++ [anmf_flag fo].

Lemma len_img_chunks a b : olen a + len b < 1073741824 -> obytes_ok a ->
  len (img_chunks a b) = sub_chunks_size a b /\ len (img_chunks a b) mod 2 = 0 /\
  16 <= 16 + len (img_chunks a b) < 1073741824 + 64.
Proof.
  intros Hl _. pose proof (len_nonneg b). assert (0 <= olen a) by (destruct a; cbn; [apply len_nonneg|lia]).
  unfold img_chunks, enc.
  rewrite (sub_chunks_size_correct a b) by lia.
  rewrite <- (sub_chunks_size_correct a b) by lia.
  rewrite len_app. pose proof (write_data_chunk_even (detect_type b) b ltac:(lia)).
  rewrite (chunk_total_correct (detect_type b) b) in * by lia.
  assert (Hct : forall p, 0 <= p < 1073741824 -> chunk_total (u32 p) = 8 + p + p mod 2).
  { intros p Hp. unfold chunk_total, u32, ChunkHeaderSize. rewrite (Z.mod_small p 4294967296) by lia.
    destruct (Z.eqb_spec (p mod 2) 0); cbn [negb]; lia. }
  rewrite Hct in * by lia.
  destruct a as [x|]; cbn [olen] in *.
  - pose proof (len_nonneg x). rewrite (chunk_total_correct FCC_ALPH x) by lia. rewrite Hct by lia.
    repeat split; lia.
  - change (len (@nil Z)) with 0. repeat split; lia.
Qed.

Lemma write_anmf_eq data fo a b w h :
  split_alpha data = (a, b) -> frame_dims data = (w, h) -> 1 <= w -> 1 <= h ->
  olen a + len b < 1073741824 -> obytes_ok a ->
  write_anmf (mkmf data fo) = enc FCC_ANMF (anmf_hdr fo w h ++ img_chunks a b).
Proof.
  intros Hs Hd Hw Hh Hl Ha. unfold write_anmf. cbn [f_data f_opts]. rewrite Hs, Hd.
  destruct (len_img_chunks a b Hl Ha) as (Hlen & Hev & Hrange).
  replace ((w >? 0) && (h >? 0)) with true by lia.
  unfold enc at 1. unfold write_data_chunk.
  assert (Hhl : len (anmf_hdr fo w h) = 16) by reflexivity.
  rewrite len_app, Hhl. unfold ANMFChunkSize. rewrite <- Hlen.
  unfold u32. rewrite !(Z.mod_small (16 + len (img_chunks a b)) 4294967296) by lia.
  replace (negb ((16 + len (img_chunks a b)) mod 2 =? 0)) with false by lia.
  unfold anmf_hdr, anmf_flag, img_chunks, enc, write_data_chunk, u32. rewrite <- !app_assoc. reflexivity.
Qed.

Lemma le24_rd v : 0 <= v < 16777216 ->
  v mod 256 + 256 * ((v / 256) mod 256) + 65536 * ((v / 65536) mod 256) = v.
Proof. intros. lia. Qed.

Lemma detect_type_range b : 0 <= detect_type b < 4294967296 /\ is_image_id (detect_type b) = true /\
  (detect_type b =? FCC_ALPH) = false.
Proof. unfold detect_type. destruct b as [|b0 tl]; [|destruct (b0 =? VP8LMagicByte)]; vm_compute; repeat split; congruence. Qed.

(** the sub-chunk loop of parseANMF on the chunks written for one picture *)
Lemma anmf_loop_img a b : olen a + len b < 1073741824 -> obytes_ok a ->
  anmf_loop (S (length (img_chunks a b))) (img_chunks a b) None None = Ok (Some b, a).
Proof.
  intros Hl Ha. pose proof (len_nonneg b). assert (0 <= olen a) by (destruct a; cbn; [apply len_nonneg|lia]).
  destruct (detect_type_range b) as (Hr & Himg & Hna).
  apply (anmf_loop_more_fuel 3).
  - unfold img_chunks. destruct a as [x|]; cbn [olen] in *.
    + pose proof (len_nonneg x).
      rewrite anmf_loop_step by (unfold FCC_ALPH; lia).
      change (is_image_id FCC_ALPH) with false. change (FCC_ALPH =? FCC_ALPH) with true. cbv iota.
      rewrite <- (app_nil_r (enc (detect_type b) b)).
      rewrite anmf_loop_step by lia. rewrite Himg, Hna. reflexivity.
    + cbn [app]. rewrite <- (app_nil_r (enc (detect_type b) b)).
      rewrite anmf_loop_step by lia. rewrite Himg, Hna. reflexivity.
  - destruct (len_img_chunks a b Hl Ha) as (_ & _ & _).
    assert (8 <= len (img_chunks a b)).
    { unfold img_chunks. rewrite len_app. pose proof (enc_len_ge (detect_type b) b ltac:(lia)).
      pose proof (len_nonneg (match a with Some x => enc FCC_ALPH x | None => [] end)). lia. }
    unfold len in *. lia.
Qed.

Definition has_a (a : option (list Z)) (isl abit : bool) : bool := (0 <? olen a) || (isl && abit).

Definition fi_of (fo : fopts) (a : option (list Z)) (b : list Z) (w h : Z) (key hasA : bool) : frame_info :=
  mkfi (Some b) a w h (2 * (o_ox fo / 2)) (2 * (o_oy fo / 2)) (o_dur fo) key hasA
       (if o_blend fo =? 1 then 1 else 0) (if o_dispose fo =? 1 then 1 else 0).

(** parseANMF on the ANMF payload written for a frame *)
Lemma parse_anmf_written d fo a b w h isl abit :
  bfacts b w h isl abit -> olen a + len b < 1073741824 -> obytes_ok a ->
  0 <= o_ox fo < 33554432 -> 0 <= o_oy fo < 33554432 -> 0 <= o_dur fo <= maxDuration ->
  len (d_frames d) < maxFrames ->
  parse_anmf d (anmf_hdr fo w h ++ img_chunks a b) =
    Ok (DemuxModel.set_frames d (d_frames d ++ [fi_of fo a b w h (len (d_frames d) =? 0) (has_a a isl abit)])).
Proof.
  intros Hbf Hl Ha Hox Hoy Hdur Hn.
  pose proof (bf_w _ _ _ _ _ Hbf) as Hw. pose proof (bf_h _ _ _ _ _ Hbf) as Hh.
  unfold parse_anmf, ANMFChunkSize. rewrite len_app. change (len (anmf_hdr fo w h)) with 16.
  pose proof (len_nonneg (img_chunks a b)).
  destruct (Z.ltb_spec (16 + len (img_chunks a b)) 16); [lia|].
  unfold anmf_hdr, le24. cbn [app].
  rewrite (Z.quot_div_nonneg (o_ox fo) 2) by lia. rewrite (Z.quot_div_nonneg (o_oy fo) 2) by lia.
  rewrite !le24_rd by (unfold maxDuration in *; lia).
  replace ((o_ox fo / 2 * 2 <? 0) || (o_oy fo / 2 * 2 <? 0)) with false by lia.
  assert (Harea : (w - 1 + 1) * (h - 1 + 1) < MaxImageArea).
  { unfold MaxImageArea. replace (w - 1 + 1) with w by lia. replace (h - 1 + 1) with h by lia.
    assert (w * h <= 16384 * 16384) by (apply Z.mul_le_mono_nonneg; lia). lia. }
  destruct (Z.geb_spec ((w - 1 + 1) * (h - 1 + 1)) MaxImageArea); [lia|].
  rewrite anmf_loop_img by assumption. cbn [bind].
  assert (HhA : (if 0 <? olen a then Ok true
                 else if 0 <? len b then frame_data_has_alpha b else Ok false) = Ok (has_a a isl abit)).
  { unfold has_a. destruct (0 <? olen a); [reflexivity|]. cbn [orb].
    pose proof (bf_len _ _ _ _ _ Hbf). replace (0 <? len b) with true by lia.
    apply (bf_fha _ _ _ _ _ Hbf). }
  rewrite HhA. cbn [bind].
  destruct (Z.geb_spec (len (d_frames d)) maxFrames); [lia|].
  unfold fi_of, anmf_flag.
  replace (o_ox fo / 2 * 2) with (2 * (o_ox fo / 2)) by lia.
  replace (o_oy fo / 2 * 2) with (2 * (o_oy fo / 2)) by lia.
  replace (w - 1 + 1) with w by lia. replace (h - 1 + 1) with h by lia.
  destruct (o_dispose fo =? 1), (o_blend fo =? 1); reflexivity.
Qed.

(** ---- a run of ANMF chunks ---- *)

Record aframe_ok (f : mframe) : Prop := {
  af_bytes : bytes_ok (f_data f);
  af_len : len (f_data f) < 1073741824;
  af_valid : valid_frame (f_data f) = true;
  af_ox : 0 <= o_ox (f_opts f) < 33554432;
  af_oy : 0 <= o_oy (f_opts f) < 33554432;
  af_dur : 0 <= o_dur (f_opts f) <= maxDuration }.

Definition same_meta (d d' : dstate) : Prop :=
  d_feat d' = d_feat d /\ d_icc d' = d_icc d /\ d_exif d' = d_exif d /\ d_xmp d' = d_xmp d /\
  d_bg d' = d_bg d /\ d_loop d' = d_loop d.

Lemma same_meta_refl d : same_meta d d. Proof. repeat split. Qed.
Lemma same_meta_trans a b c : same_meta a b -> same_meta b c -> same_meta a c.
Proof. unfold same_meta. intuition congruence. Qed.

Lemma ext_dispatch_anmf d n p rest : ext_dispatch d (mkchunk FCC_ANMF n p) rest = parse_anmf d p.
Proof. reflexivity. Qed.

Lemma vframe_of_fi_of fo a b w h key hasA data :
  frame_parts data = Some (a, b) ->
  vframe_of_fi (fi_of fo a b w h key hasA) = Some (vframe_of true (mkmf data fo)).
Proof.
  intros Hp. unfold vframe_of_fi, fi_of, vframe_of. cbn [fi_data fi_alpha fi_ox fi_oy fi_dur fi_blend fi_dispose f_data f_opts].
  rewrite Hp. unfold even_down. cbn [andb].
  destruct (o_blend fo =? 1), (o_dispose fo =? 1); reflexivity.
Qed.

(** one frame: what is written, and the demuxer state after the loop has consumed it *)
Lemma anmf_one f d fuel tail :
  aframe_ok f -> len (d_frames d) < maxFrames ->
  exists d' fi, ext_loop (S fuel) (write_anmf f ++ tail) d = ext_loop fuel tail d' /\
    same_meta d d' /\ d_frames d' = d_frames d ++ [fi] /\
    vframe_of_fi fi = Some (vframe_of true f).
Proof.
  intros [Hb Hl Hv Hox Hoy Hdur] Hn. destruct f as [data fo]. cbn [f_data f_opts] in *.
  destruct (valid_frame_facts data Hb Hv) as (a & b & w & h & isl & abit & [Hparts Hsplit Hbf Hbb Hab Hlen _ _]).
  pose proof (bf_w _ _ _ _ _ Hbf) as Hw. pose proof (bf_h _ _ _ _ _ Hbf) as Hh.
  assert (Hd : frame_dims data = (w, h)) by (rewrite frame_dims_eq, Hsplit; apply (bf_dims _ _ _ _ _ Hbf)).
  rewrite (write_anmf_eq data fo a b w h); auto; try lia.
  destruct (len_img_chunks a b ltac:(lia) Hab) as (_ & _ & Hrange).
  rewrite ext_loop_step.
  2:{ unfold FCC_ANMF. lia. }
  2:{ rewrite len_app. change (len (anmf_hdr fo w h)) with 16. lia. }
  rewrite ext_dispatch_anmf.
  rewrite (parse_anmf_written _ fo a b w h isl abit); auto; try (cbn [add_chunk d_frames]; lia).
  cbn [bind].
  eexists. eexists. split; [reflexivity|].
  split; [repeat split|].
  split; [reflexivity|].
  apply vframe_of_fi_of. exact Hparts.
Qed.

Lemma anmf_run fs : forall d fuel tail,
  Forall aframe_ok fs -> len (d_frames d) + len fs <= maxFrames ->
  exists d' fis, ext_loop (length fs + fuel) (flat_map write_anmf fs ++ tail) d = ext_loop fuel tail d' /\
    same_meta d d' /\ d_frames d' = d_frames d ++ fis /\
    map vframe_of_fi fis = map (fun f => Some (vframe_of true f)) fs.
Proof.
  induction fs as [|f fs IH]; intros d fuel tail Hok Hn.
  - exists d, []. cbn. rewrite app_nil_r. repeat split.
  - inversion Hok as [|? ? Hf Hfs]; subst. rewrite len_cons in Hn. pose proof (len_nonneg fs).
    cbn [flat_map length plus]. rewrite <- app_assoc.
    destruct (anmf_one f d (length fs + fuel) (flat_map write_anmf fs ++ tail) Hf ltac:(lia))
      as (d1 & fi & E1 & M1 & F1 & V1).
    rewrite E1.
    destruct (IH d1 fuel tail Hfs) as (d2 & fis & E2 & M2 & F2 & V2).
    { rewrite F1, len_app, len_cons. change (len (@nil frame_info)) with 0. lia. }
    exists d2, (fi :: fis). split; [exact E2|]. split; [eapply same_meta_trans; eauto|].
    split; [rewrite F2, F1, <- app_assoc; reflexivity|].
    cbn [map]. rewrite V1, V2. reflexivity.
Qed.

(** ---- enough fuel: any successful run needs at most one unit per 8 bytes ---- *)
Lemma ext_loop_enough f : forall rest d r,
  bytes_ok rest -> ext_loop f rest d = Ok r -> ext_loop (S (length rest)) rest d = Ok r.
Proof.
  induction f as [|f IH]; intros rest d r Hb H; [discriminate|].
  cbn [ext_loop] in *. unfold ChunkHeaderSize in *.
  destruct (Z.ltb_spec (len rest) 8); [exact H|].
  pose proof (read_chunk_spec rest Hb) as Hc.
  destruct (read_chunk rest) as [[c n]|e|]; [|exact H|contradiction].
  destruct Hc as (Hn1 & Hn2 & Hsz & _).
  destruct (ext_dispatch (add_chunk d c) c rest) as [d2|e|]; cbn [bind] in *; try discriminate.
  destruct (slice rest n (len rest)) as [rest'|e|] eqn:Es; cbn [bind] in *; try discriminate.
  pose proof (slice_len _ _ _ _ Es) as Hl. pose proof (slice_bytes _ _ _ _ Hb Es) as Hb'.
  apply (ext_loop_more_fuel (S (length rest'))); [apply IH; assumption|].
  unfold len in *. lia.
Qed.

(** ---- metadata / VP8X / ANIM chunks ---- *)
Lemma ext_step_meta f id p rest d :
  (id = FCC_ICCP \/ id = FCC_EXIF \/ id = FCC_XMP) -> len p <= maxMetadataSize ->
  exists d', ext_loop (S f) (enc id p ++ rest) d = ext_loop f rest d' /\
    d_feat d' = d_feat d /\ d_frames d' = d_frames d /\ d_bg d' = d_bg d /\ d_loop d' = d_loop d /\
    d_icc d' = (if id =? FCC_ICCP then Some p else d_icc d) /\
    d_exif d' = (if id =? FCC_EXIF then Some p else d_exif d) /\
    d_xmp d' = (if id =? FCC_XMP then Some p else d_xmp d).
Proof.
  intros Hid Hp.
  assert (Hp' : len p < 2147483648) by (unfold maxMetadataSize in Hp; lia).
  assert (Hgt : (len p >? maxMetadataSize) = false) by lia.
  destruct Hid as [->|[->| ->]].
  - rewrite ext_loop_step; [|unfold FCC_ICCP; lia|exact Hp'].
    unfold ext_dispatch. cbn [c_id c_data].
    change (FCC_ICCP =? FCC_ICCP) with true. cbv iota. rewrite Hgt. cbn [bind].
    exists (set_icc (add_chunk d (mkchunk FCC_ICCP (len p) p)) p). split; [reflexivity|].
    cbn. repeat split.
  - rewrite ext_loop_step; [|unfold FCC_EXIF; lia|exact Hp'].
    unfold ext_dispatch. cbn [c_id c_data].
    change (FCC_EXIF =? FCC_ICCP) with false. change (FCC_EXIF =? FCC_EXIF) with true. cbv iota.
    rewrite Hgt. cbn [bind].
    exists (set_exif (add_chunk d (mkchunk FCC_EXIF (len p) p)) p). split; [reflexivity|].
    cbn. repeat split.
  - rewrite ext_loop_step; [|unfold FCC_XMP; lia|exact Hp'].
    unfold ext_dispatch. cbn [c_id c_data].
    change (FCC_XMP =? FCC_ICCP) with false. change (FCC_XMP =? FCC_EXIF) with false.
    change (FCC_XMP =? FCC_XMP) with true. cbv iota. rewrite Hgt. cbn [bind].
    exists (set_xmp (add_chunk d (mkchunk FCC_XMP (len p) p)) p). split; [reflexivity|].
    cbn. repeat split.
Qed.

Definition ometa_ok (o : option (list Z)) : Prop :=
  match o with Some p => bytes_ok p /\ len p <= maxMetadataSize | None => True end.

Lemma ometa_write_enc id o : ometa_write id o = match o with Some p => enc id p | None => [] end.
Proof. reflexivity. Qed.

(** an optional metadata chunk: one unit of fuel is always enough *)
Lemma ext_step_ometa f id o rest d r :
  (id = FCC_ICCP \/ id = FCC_EXIF \/ id = FCC_XMP) -> ometa_ok o ->
  (forall d', d_feat d' = d_feat d -> d_frames d' = d_frames d -> d_bg d' = d_bg d -> d_loop d' = d_loop d ->
      d_icc d' = (if id =? FCC_ICCP then (match o with Some p => Some p | None => d_icc d end) else d_icc d) ->
      d_exif d' = (if id =? FCC_EXIF then (match o with Some p => Some p | None => d_exif d end) else d_exif d) ->
      d_xmp d' = (if id =? FCC_XMP then (match o with Some p => Some p | None => d_xmp d end) else d_xmp d) ->
      ext_loop f rest d' = Ok r) ->
  ext_loop (S f) (ometa_write id o ++ rest) d = Ok r.
Proof.
  intros Hid Ho Hk. destruct o as [p|]; cbn [ometa_write].
  - destruct Ho as [_ Hp].
    destruct (ext_step_meta f id p rest d Hid Hp) as (d' & E & H1 & H2 & H3 & H4 & H5 & H6 & H7).
    fold (enc id p). rewrite E. apply Hk; auto.
  - cbn [app]. apply (ext_loop_more_fuel f); [|lia].
    apply Hk; auto; destruct (id =? FCC_ICCP), (id =? FCC_EXIF), (id =? FCC_XMP); reflexivity.
Qed.

Lemma ext_step_anim f bg loop rest d :
  0 <= bg < 4294967296 -> 0 <= loop < 65536 ->
  exists d', ext_loop (S f) ((le32 FCC_ANIM ++ le32 ANIMChunkSize ++ le32 bg ++ le16 loop) ++ rest) d = ext_loop f rest d' /\
    d_feat d' = d_feat d /\ d_frames d' = d_frames d /\ d_bg d' = bg /\ d_loop d' = loop /\
    d_icc d' = d_icc d /\ d_exif d' = d_exif d /\ d_xmp d' = d_xmp d.
Proof.
  intros Hbg Hl.
  assert (E : le32 FCC_ANIM ++ le32 ANIMChunkSize ++ le32 bg ++ le16 loop = enc FCC_ANIM (le32 bg ++ le16 loop)).
  { unfold enc, write_data_chunk. change (len (le32 bg ++ le16 loop)) with 6.
    change (u32 6) with 6. change (negb (6 mod 2 =? 0)) with false. cbv iota.
    rewrite <- !app_assoc, app_nil_r. reflexivity. }
  rewrite E. rewrite ext_loop_step by (try (vm_compute; split; congruence); change (len (le32 bg ++ le16 loop)) with 6; lia).
  unfold ext_dispatch. cbn [c_id c_data].
  change (FCC_ANIM =? FCC_ICCP) with false. change (FCC_ANIM =? FCC_EXIF) with false.
  change (FCC_ANIM =? FCC_XMP) with false. change (FCC_ANIM =? FCC_ANIM) with true. cbv iota.
  unfold parse_anim. change (len (le32 bg ++ le16 loop)) with 6. change (6 <? ANIMChunkSize) with false. cbv iota.
  unfold le32, le16. cbn [app bind].
  eexists. split; [reflexivity|]. cbn [d_feat d_frames d_bg d_loop d_icc d_exif d_xmp add_chunk].
  repeat split; lia.
Qed.

(** ---- byte ranges of what is written ---- *)
Lemma bytes_ok_enc id p : bytes_ok p -> bytes_ok (enc id p).
Proof.
  intros H. unfold enc, write_data_chunk. repeat (apply bytes_ok_app; split); auto using le32_bytes.
  destruct (negb (len p mod 2 =? 0)); repeat constructor; unfold is_byte; lia.
Qed.

Lemma bytes_ok_img a b : obytes_ok a -> bytes_ok b -> bytes_ok (img_chunks a b).
Proof.
  intros Ha Hb. unfold img_chunks. apply bytes_ok_app. split; [|apply bytes_ok_enc; auto].
  destruct a; [apply bytes_ok_enc; auto|constructor].
Qed.

Lemma bytes_ok_ometa id o : ometa_ok o -> bytes_ok (ometa_write id o).
Proof. destruct o as [p|]; cbn; [intros [H _]; apply (bytes_ok_enc id p H)|constructor]. Qed.

Lemma bytes_ok_anmf_hdr fo w h : bytes_ok (anmf_hdr fo w h).
Proof.
  unfold anmf_hdr. repeat (apply bytes_ok_app; split); auto using le24_bytes.
  constructor; [|constructor]. unfold is_byte, anmf_flag.
  destruct (o_dispose fo =? 1), (o_blend fo =? 1); lia.
Qed.

Lemma bytes_ok_write_anmf f : aframe_ok f -> bytes_ok (write_anmf f) /\ 8 <= len (write_anmf f).
Proof.
  intros [Hb Hl Hv Hox Hoy Hdur]. destruct f as [data fo]. cbn [f_data f_opts] in *.
  destruct (valid_frame_facts data Hb Hv) as (a & b & w & h & isl & abit & [Hparts Hsplit Hbf Hbb Hab Hlen _ _]).
  pose proof (bf_w _ _ _ _ _ Hbf) as Hw. pose proof (bf_h _ _ _ _ _ Hbf) as Hh.
  assert (Hd : frame_dims data = (w, h)) by (rewrite frame_dims_eq, Hsplit; apply (bf_dims _ _ _ _ _ Hbf)).
  rewrite (write_anmf_eq data fo a b w h); auto; try lia.
  destruct (len_img_chunks a b ltac:(lia) Hab) as (_ & _ & Hrange).
  split.
  - apply bytes_ok_enc. apply bytes_ok_app. split; [apply bytes_ok_anmf_hdr|apply bytes_ok_img; auto].
  - apply enc_len_ge. rewrite len_app. change (len (anmf_hdr fo w h)) with 16. lia.
Qed.

Lemma bytes_ok_anmfs fs : Forall aframe_ok fs -> bytes_ok (flat_map write_anmf fs).
Proof.
  induction 1 as [|f fs Hf _ IH]; cbn [flat_map]; [constructor|].
  apply bytes_ok_app. split; [apply bytes_ok_write_anmf; auto|exact IH].
Qed.

(** ---- RIFF size: what assembleExtended adds up is what it writes ---- *)
Lemma ometa_size_correct id o : ometa_ok o -> len (ometa_write id o) = ometa_size o.
Proof.
  destruct o as [p|]; cbn [ometa_write ometa_size]; [|reflexivity].
  intros [_ Hp]. apply chunk_total_correct. unfold maxMetadataSize in Hp. lia.
Qed.

Lemma anmfs_size_correct fs : Forall aframe_ok fs -> forall acc,
  fold_left (fun acc f => acc + frame_riff_size repaired true f) fs acc = acc + len (flat_map write_anmf fs).
Proof.
  induction 1 as [|f fs Hf _ IH]; intros acc; cbn [fold_left flat_map].
  - change (len (@nil Z)) with 0. lia.
  - rewrite IH, len_app. destruct (anmf_size_correct f (af_len f Hf)) as [E _]. rewrite E. lia.
Qed.

(** ---- the RIFF header as the demuxer reads it ---- *)
Lemma parse_riff_written n body :
  n = 4 + len body -> n < 4294967296 -> 8 <= len body ->
  parse true (le32 FCC_RIFF ++ le32 n ++ le32 FCC_WEBP ++ body) =
    bind (u32at body 0) (fun firstTag =>
      if firstTag =? FCC_VP8X then parse_extended body
      else if firstTag =? FCC_VP8 then parse_simple_vp8 body
      else if firstTag =? FCC_VP8L then parse_simple_vp8l body
      else Err E_unknown).
Proof.
  intros Hn Hlt H8. pose proof (len_nonneg body).
  set (file := le32 FCC_RIFF ++ le32 n ++ le32 FCC_WEBP ++ body).
  assert (Hflen : len file = 12 + len body) by (unfold file; rewrite !len_app, !len_le32; lia).
  unfold parse. fold file. unfold RIFFHeaderSize. rewrite Hflen.
  destruct (Z.ltb_spec (12 + len body) 12); [lia|].
  assert (Hu0 : u32at file 0 = Ok FCC_RIFF) by (unfold file; apply u32at_le32_head; vm_compute; split; congruence).
  assert (Hu4 : u32at file 4 = Ok n) by (unfold file; apply u32at_le32_second; lia).
  assert (Hu8 : u32at file 8 = Ok FCC_WEBP).
  { unfold u32at, file.
    replace (le32 FCC_RIFF ++ le32 n ++ le32 FCC_WEBP ++ body)
      with ((le32 FCC_RIFF ++ le32 n) ++ le32 FCC_WEBP ++ body) by (rewrite <- !app_assoc; reflexivity).
    rewrite (slice_app_mid' (le32 FCC_RIFF ++ le32 n) (le32 FCC_WEBP) body) by reflexivity. reflexivity. }
  rewrite Hu0. cbn [bind]. rewrite Z.eqb_refl. cbn [negb].
  rewrite Hu4. cbn [bind]. rewrite Hu8. cbn [bind]. rewrite Z.eqb_refl. cbn [negb].
  destruct (Z.gtb_spec (n + 8) (12 + len body)); [lia|].
  unfold maxint. destruct (Z.gtb_spec (n + 8) (2 ^ 63 - 1)); [lia|].
  cbn [andb]. destruct (Z.ltb_spec (n + 8) 12); [lia|].
  assert (Hsl : slice file 12 (n + 8) = Ok body).
  { unfold file.
    replace (le32 FCC_RIFF ++ le32 n ++ le32 FCC_WEBP ++ body)
      with ((le32 FCC_RIFF ++ le32 n ++ le32 FCC_WEBP) ++ body ++ []) by (rewrite <- !app_assoc, app_nil_r; reflexivity).
    apply slice_app_mid'; [reflexivity|]. change (len (le32 FCC_RIFF ++ le32 n ++ le32 FCC_WEBP)) with 12. lia. }
  rewrite Hsl. cbn [bind]. unfold ChunkHeaderSize.
  destruct (Z.ltb_spec (len body) 8); [lia|]. reflexivity.
Qed.

(** ---- parseExtended on a written VP8X chunk ---- *)
Definition vp8x_payload (flags cw ch : Z) : list Z := [flags; 0; 0; 0] ++ le24 (cw - 1) ++ le24 (ch - 1).

Lemma vp8x_written flags cw ch :
  le32 FCC_VP8X ++ le32 VP8XChunkSize ++ [flags; 0; 0; 0] ++ le24 (cw - 1) ++ le24 (ch - 1) =
  enc FCC_VP8X (vp8x_payload flags cw ch).
Proof.
  unfold enc, write_data_chunk, vp8x_payload. change (len ([flags; 0; 0; 0] ++ le24 (cw - 1) ++ le24 (ch - 1))) with 10.
  change (u32 10) with 10. change (negb (10 mod 2 =? 0)) with false. cbv iota.
  rewrite <- !app_assoc, app_nil_r. reflexivity.
Qed.

Definition d0_of (flags cw ch : Z) : dstate :=
  let bit k := negb ((flags / k) mod 2 =? 0) in
  mkd [mkchunk FCC_VP8X 10 (vp8x_payload flags cw ch)]
      (mkfeat cw ch (bit 16) (bit 2) (bit 32) (bit 8) (bit 4) 3) [] None None None 0 0.

Lemma parse_extended_written flags cw ch rest :
  1 <= cw <= 16777216 -> 1 <= ch <= 16777216 -> cw * ch < MaxImageArea ->
  parse_extended (enc FCC_VP8X (vp8x_payload flags cw ch) ++ rest) =
    bind (ext_loop (S (length rest)) rest (d0_of flags cw ch))
         (fun d' => if len (d_frames d') =? 0 then Err E_noimage else Ok d').
Proof.
  intros Hw Hh Harea. unfold parse_extended, enc.
  rewrite read_chunk_write by (try (vm_compute; split; congruence); change (len (vp8x_payload flags cw ch)) with 10; unfold MaxChunkPayload; lia).
  cbn [bind c_size c_data]. change (len (vp8x_payload flags cw ch)) with 10.
  change (10 <? VP8XChunkSize) with false. cbv iota.
  rewrite slice_after. cbn [bind].
  unfold vp8x_payload at 1. unfold le24 at 1 2. cbn [app].
  rewrite !le24_rd by lia.
  replace (cw - 1 + 1) with cw by lia. replace (ch - 1 + 1) with ch by lia.
  destruct (Z.geb_spec (cw * ch) MaxImageArea); [lia|].
  reflexivity.
Qed.

(** ---- muxer states reached by histories satisfying the hypotheses ---- *)
Definition mframe_ok (f : mframe) : Prop :=
  bytes_ok (f_data f) /\ len (f_data f) < 1073741824 /\ valid_frame (f_data f) = true /\
  0 <= o_dur (f_opts f) <= maxDuration.

Record mok (m : mstate) : Prop := {
  mk_frames : Forall mframe_ok (m_frames m);
  mk_icc : ometa_ok (m_icc m);
  mk_exif : ometa_ok (m_exif m);
  mk_xmp : ometa_ok (m_xmp m);
  mk_bg : 0 <= m_bg m < 4294967296;
  mk_loop : 0 <= m_loop m < 65536;
  mk_n : len (m_frames m) <= MaxFrames }.

Lemma canvas_fold_nonneg fs : forall acc, 0 <= fst acc -> 0 <= snd acc ->
  let r := fold_left (fun (acc : Z * Z) f =>
        let '(fw, fh) := frame_dims (f_data f) in
        let ox := o_ox (f_opts f) in let oy := o_oy (f_opts f) in
        let endX := wrap64 (ox + fw) in
        let endY := wrap64 (oy + fh) in
        let endX := if (fw >? 0) && (endX <? ox) then maxint else endX in
        let endY := if (fh >? 0) && (endY <? oy) then maxint else endY in
        (if endX >? fst acc then endX else fst acc, if endY >? snd acc then endY else snd acc)) fs acc in
  0 <= fst r /\ 0 <= snd r.
Proof.
  induction fs as [|f fs IH]; intros acc H1 H2; cbn [fold_left]; [auto|].
  apply IH; destruct (frame_dims (f_data f)) as [fw fh]; cbn [fst snd].
  - match goal with |- 0 <= (if ?c then _ else _) => destruct c eqn:E end; lia.
  - match goal with |- 0 <= (if ?c then _ else _) => destruct c eqn:E end; lia.
Qed.

Lemma canvas_size_pos m : 1 <= fst (canvas_size m) /\ 1 <= snd (canvas_size m).
Proof.
  unfold canvas_size.
  destruct ((m_cw m >? 0) && (m_ch m >? 0)) eqn:E; [cbn [fst snd]; lia|].
  destruct (m_frames m) as [|f fs] eqn:Ef; [cbn; lia|].
  pose proof (canvas_fold_nonneg (f :: fs) (0, 0) ltac:(cbn; lia) ltac:(cbn; lia)) as H. cbv zeta in H.
  match goal with |- context [fold_left ?g ?l ?a] => destruct (fold_left g l a) as [mw mh] end.
  cbn [fst snd] in *. destruct (mw =? 0) eqn:E1, (mh =? 0) eqn:E2; cbn [fst snd]; lia.
Qed.

Lemma validate_facts m : validate repaired m = Ok tt ->
  m_frames m <> [] /\
  fst (canvas_size m) <= MaxCanvasSize /\ snd (canvas_size m) <= MaxCanvasSize /\
  fst (canvas_size m) * snd (canvas_size m) < MaxImageArea /\
  (is_animated m = false -> exists f, m_frames m = [f]) /\
  Forall (fun f => 0 <= o_ox (f_opts f) < 33554432 /\ 0 <= o_oy (f_opts f) < 33554432 /\
                   (is_animated m = false -> o_ox (f_opts f) = 0 /\ o_oy (f_opts f) = 0)) (m_frames m).
Proof.
  unfold validate. cbn [fx_validate repaired andb].
  destruct (Z.eqb_spec (len (m_frames m)) 0) as [|Hne]; [discriminate|].
  match goal with |- context [if (if is_animated m then ?a else ?b) then _ else _] =>
    destruct (if is_animated m then a else b) eqn:Ecnt end; [discriminate|].
  match goal with |- context [if ?c then Err E_validate else _] => destruct c end; [discriminate|].
  destruct (canvas_size m) as [cw ch] eqn:Ecs. cbn [fst snd].
  match goal with |- context [if ?c then Err E_validate else _] => destruct c eqn:Elim end; [discriminate|].
  destruct (forallb _ (m_frames m)) eqn:Efa; [|discriminate]. intros _.
  rewrite !orb_false_iff in Elim. destruct Elim as [[E1 E2] E3].
  split; [intros E; rewrite E in Hne; apply Hne; reflexivity|].
  split; [lia|]. split; [lia|]. split; [lia|].
  split.
  - intros Ha. rewrite Ha in Ecnt. apply negb_false_iff in Ecnt. apply Z.eqb_eq in Ecnt.
    unfold len in Ecnt. destruct (m_frames m) as [|f [|g tl]]; cbn [length] in Ecnt; try lia. eauto.
  - apply Forall_forall. intros f Hin. rewrite forallb_forall in Efa. specialize (Efa f Hin).
    unfold validate_frame in Efa. cbn [fx_validate repaired] in Efa.
    destruct (frame_dims (f_data f)) as [fw fh].
    apply andb_true_iff in Efa. destruct Efa as [Epre _].
    apply andb_true_iff in Epre. destruct Epre as [Er Es].
    apply negb_true_iff in Er. rewrite !orb_false_iff in Er. destruct Er as [[[R1 R2] R3] R4].
    unfold MaxPositionOff in *.
    assert (0 <= o_ox (f_opts f)) by lia. assert (0 <= o_oy (f_opts f)) by lia.
    rewrite Z.quot_div_nonneg in R3, R4 by lia.
    split; [lia|]. split; [lia|].
    intros Ha. rewrite Ha in Es. cbn [orb] in Es. lia.
Qed.

Lemma all_some_map {A} (l : list A) ol : ol = map Some l -> all_some ol = Some l.
Proof. intros ->. induction l as [|x l IH]; cbn; [reflexivity|rewrite IH; reflexivity]. Qed.

Lemma aframe_of_mok m f : mok m -> validate repaired m = Ok tt -> In f (m_frames m) -> aframe_ok f.
Proof.
  intros Hm Hv Hin. destruct (validate_facts m Hv) as (_ & _ & _ & _ & _ & Hoff).
  pose proof (mk_frames m Hm) as Hf. rewrite Forall_forall in Hf, Hoff.
  destruct (Hf f Hin) as (H1 & H2 & H3 & H4). destruct (Hoff f Hin) as (H5 & H6 & _).
  constructor; auto.
Qed.

Lemma Ok_inj {A} (a b : A) : Ok a = Ok b -> a = b.
Proof. intros H. injection H. auto. Qed.

Lemma ext_loop_nil f d : ext_loop (S f) [] d = Ok d.
Proof. reflexivity. Qed.

(** ---- animations: any number of frames, with or without ALPH sub-chunks ---- *)
Theorem animated_roundtrip m bs :
  mok m -> is_animated m = true -> assemble repaired m = Ok bs ->
  bytes_ok bs /\ rd32 (firstn 4 (skipn 4 bs)) + 8 = len bs /\
  exists d, parse true bs = Ok d /\ view_of_demux d = Some (view_of_mux m).
Proof.
  intros Hm Hanim Hasm. unfold assemble in Hasm.
  destruct (validate repaired m) as [[]|e|] eqn:Hval; cbn [bind] in Hasm; try discriminate.
  unfold needs_vp8x in Hasm. rewrite Hanim in Hasm. cbn [orb] in Hasm.
  destruct (validate_facts m Hval) as (Hne & Hcw & Hch & Harea & _ & _).
  pose proof (canvas_size_pos m) as [Hcw1 Hch1].
  assert (Hfs : Forall aframe_ok (m_frames m)).
  { apply Forall_forall. intros f Hin. eapply aframe_of_mok; eauto. }
  unfold assemble_extended in Hasm. rewrite Hanim in Hasm.
  destruct (canvas_size m) as [cw ch] eqn:Ecs. cbn [fst snd] in *.
  rewrite (anmfs_size_correct _ Hfs) in Hasm.
  rewrite <- (ometa_size_correct FCC_ICCP _ (mk_icc m Hm)) in Hasm.
  rewrite <- (ometa_size_correct FCC_EXIF _ (mk_exif m Hm)) in Hasm.
  rewrite <- (ometa_size_correct FCC_XMP _ (mk_xmp m Hm)) in Hasm.
  match type of Hasm with (if ?n >? _ then _ else _) = _ => set (riff := n) in * end.
  destruct (Z.gtb_spec riff 4294967295) as [|Hriff]; [discriminate|].
  apply Ok_inj in Hasm. subst bs.
  assert (Hwf : flat_map (write_frame repaired true) (m_frames m) = flat_map write_anmf (m_frames m)) by reflexivity.
  rewrite Hwf. clear Hwf.
  set (anim := le32 FCC_ANIM ++ le32 ANIMChunkSize ++ le32 (m_bg m) ++ le16 (m_loop m)).
  set (rest := ometa_write FCC_ICCP (m_icc m) ++ anim ++ flat_map write_anmf (m_frames m) ++
               ometa_write FCC_EXIF (m_exif m) ++ ometa_write FCC_XMP (m_xmp m)).
  set (body := enc FCC_VP8X (vp8x_payload (vp8x_flags m) cw ch) ++ rest).
  assert (Hfile : le32 FCC_RIFF ++ le32 riff ++ le32 FCC_WEBP ++
                  le32 FCC_VP8X ++ le32 VP8XChunkSize ++ [vp8x_flags m; 0; 0; 0] ++ le24 (cw - 1) ++ le24 (ch - 1) ++ rest
                = le32 FCC_RIFF ++ le32 riff ++ le32 FCC_WEBP ++ body).
  { unfold body. rewrite <- vp8x_written. rewrite <- !app_assoc. reflexivity. }
  rewrite Hfile. clear Hfile.
  assert (Hriffeq : riff = 4 + len body).
  { unfold riff, body, rest, anim. rewrite !len_app. unfold ChunkHeaderSize, VP8XChunkSize, ANIMChunkSize.
    change (len (enc FCC_VP8X (vp8x_payload (vp8x_flags m) cw ch))) with 18. rewrite !len_le32.
    change (len (le16 (m_loop m))) with 2. lia. }
  assert (Hrestb : bytes_ok rest).
  { unfold rest, anim. repeat (apply bytes_ok_app; split); auto using le32_bytes, le16_bytes, bytes_ok_ometa, mk_icc, mk_exif, mk_xmp, bytes_ok_anmfs. }
  assert (Hflags : 0 <= vp8x_flags m < 256).
  { unfold vp8x_flags. destruct (is_animated m), (is_some (m_icc m)), (is_some (m_exif m)), (is_some (m_xmp m)), (has_alpha m); lia. }
  assert (Hbodyb : bytes_ok body).
  { unfold body. apply bytes_ok_app. split; [|exact Hrestb]. apply bytes_ok_enc.
    unfold vp8x_payload, le24, bytes_ok. cbn [app].
    repeat (apply Forall_cons; [unfold is_byte; lia|]). apply Forall_nil. }
  assert (Hb8 : 8 <= len body).
  { unfold body. rewrite len_app. change (len (enc FCC_VP8X (vp8x_payload (vp8x_flags m) cw ch))) with 18.
    pose proof (len_nonneg rest). lia. }
  split; [|split].
  { apply bytes_ok_app; split; [apply le32_bytes|]. apply bytes_ok_app; split; [apply le32_bytes|].
    apply bytes_ok_app; split; [apply le32_bytes|exact Hbodyb]. }
  { change (le32 FCC_RIFF) with [82; 73; 70; 70]. cbn [app skipn].
    rewrite !len_cons, !len_app, !len_le32.
    replace (firstn 4 (le32 riff ++ le32 FCC_WEBP ++ body)) with (le32 riff) by reflexivity.
    rewrite <- (app_nil_r (le32 riff)), rd32_le32 by (pose proof (len_nonneg body); lia). lia. }
  rewrite parse_riff_written by (auto; lia).
  assert (Hft : u32at body 0 = Ok FCC_VP8X).
  { unfold body, enc, write_data_chunk. rewrite <- !app_assoc. apply u32at_le32_head. vm_compute. split; congruence. }
  rewrite Hft. cbn [bind]. rewrite Z.eqb_refl.
  unfold body. rewrite parse_extended_written by (unfold MaxCanvasSize in *; lia).
  (* run the chunk loop *)
  pose proof (mk_bg m Hm) as Hbg. pose proof (mk_loop m Hm) as Hloop.
  assert (Hrun : exists d, ext_loop (S (S (length (m_frames m) + S (S (S O))))) rest (d0_of (vp8x_flags m) cw ch) = Ok d /\
            d_feat d = d_feat (d0_of (vp8x_flags m) cw ch) /\ d_bg d = m_bg m /\ d_loop d = m_loop m /\
            d_icc d = m_icc m /\ d_exif d = m_exif m /\ d_xmp d = m_xmp m /\
            map vframe_of_fi (d_frames d) = map (fun f => Some (vframe_of true f)) (m_frames m) /\
            d_frames d <> []).
  { unfold rest.
    (* ICCP *)
    assert (Hic : forall r, (forall d', d_feat d' = d_feat (d0_of (vp8x_flags m) cw ch) -> d_frames d' = [] ->
                    d_icc d' = m_icc m -> d_exif d' = None -> d_xmp d' = None ->
                    ext_loop (S (length (m_frames m) + S (S (S O))))
                      (anim ++ flat_map write_anmf (m_frames m) ++ ometa_write FCC_EXIF (m_exif m) ++ ometa_write FCC_XMP (m_xmp m)) d' = Ok r) ->
                  ext_loop (S (S (length (m_frames m) + S (S (S O)))))
                    (ometa_write FCC_ICCP (m_icc m) ++ anim ++ flat_map write_anmf (m_frames m) ++
                     ometa_write FCC_EXIF (m_exif m) ++ ometa_write FCC_XMP (m_xmp m)) (d0_of (vp8x_flags m) cw ch) = Ok r).
    { intros r Hk. apply ext_step_ometa; [auto|apply (mk_icc m Hm)|].
      intros d' F1 F2 F3 F4 F5 F6 F7. apply Hk; auto.
      - change (FCC_ICCP =? FCC_ICCP) with true in F5. cbv iota in F5. rewrite F5. destruct (m_icc m); reflexivity. }
    (* ANIM *)
    assert (Han : forall d', exists d2, ext_loop (S (length (m_frames m) + S (S (S O))))
                      (anim ++ flat_map write_anmf (m_frames m) ++ ometa_write FCC_EXIF (m_exif m) ++ ometa_write FCC_XMP (m_xmp m)) d'
                    = ext_loop (length (m_frames m) + S (S (S O)))
                      (flat_map write_anmf (m_frames m) ++ ometa_write FCC_EXIF (m_exif m) ++ ometa_write FCC_XMP (m_xmp m)) d2 /\
                    d_feat d2 = d_feat d' /\ d_frames d2 = d_frames d' /\ d_bg d2 = m_bg m /\ d_loop d2 = m_loop m /\
                    d_icc d2 = d_icc d' /\ d_exif d2 = d_exif d' /\ d_xmp d2 = d_xmp d').
    { intros d'. unfold anim. apply ext_step_anim; auto. }
    (* assemble the chain backwards *)
    set (dI := fun d' : dstate => d').
    destruct (Han (match m_icc m with
                   | Some p => set_icc (add_chunk (d0_of (vp8x_flags m) cw ch) (mkchunk FCC_ICCP (len p) p)) p
                   | None => d0_of (vp8x_flags m) cw ch end)) as (d2 & E2 & G1 & G2 & G3 & G4 & G5 & G6 & G7).
    assert (Hd2fr : d_frames d2 = []) by (rewrite G2; destruct (m_icc m); reflexivity).
    destruct (anmf_run (m_frames m) d2 (S (S (S O)))
                (ometa_write FCC_EXIF (m_exif m) ++ ometa_write FCC_XMP (m_xmp m)) Hfs) as (d3 & fis & E3 & M3 & F3 & V3).
    { rewrite Hd2fr. change (len (@nil frame_info)) with 0. pose proof (mk_n m Hm). unfold MaxFrames, maxFrames in *. lia. }
    destruct M3 as (M31 & M32 & M33 & M34 & M35 & M36).
    (* EXIF, XMP, end *)
    assert (Hend : exists d, ext_loop (S (S (S O))) (ometa_write FCC_EXIF (m_exif m) ++ ometa_write FCC_XMP (m_xmp m)) d3 = Ok d /\
              d_feat d = d_feat d3 /\ d_frames d = d_frames d3 /\ d_bg d = d_bg d3 /\ d_loop d = d_loop d3 /\
              d_icc d = d_icc d3 /\
              d_exif d = (match m_exif m with Some p => Some p | None => d_exif d3 end) /\
              d_xmp d = (match m_xmp m with Some p => Some p | None => d_xmp d3 end)).
    { destruct (m_exif m) as [pe|] eqn:Ee; destruct (m_xmp m) as [px|] eqn:Ex; cbn [ometa_write app].
      - pose proof (mk_exif m Hm) as He. pose proof (mk_xmp m Hm) as Hx. rewrite Ee in He. rewrite Ex in Hx.
        destruct He as [_ He]. destruct Hx as [_ Hx].
        destruct (ext_step_meta 2 FCC_EXIF pe (enc FCC_XMP px) d3 ltac:(auto) He) as (d4 & E4 & A1 & A2 & A3 & A4 & A5 & A6 & A7).
        fold (enc FCC_EXIF pe). fold (enc FCC_XMP px). rewrite E4.
        rewrite <- (app_nil_r (enc FCC_XMP px)).
        destruct (ext_step_meta 1 FCC_XMP px [] d4 ltac:(auto) Hx) as (d5 & E5 & B1 & B2 & B3 & B4 & B5 & B6 & B7).
        rewrite E5. exists d5. split; [reflexivity|].
        change (FCC_EXIF =? FCC_ICCP) with false in *. change (FCC_EXIF =? FCC_EXIF) with true in *.
        change (FCC_EXIF =? FCC_XMP) with false in *. change (FCC_XMP =? FCC_ICCP) with false in *.
        change (FCC_XMP =? FCC_EXIF) with false in *. change (FCC_XMP =? FCC_XMP) with true in *.
        cbv iota in *. repeat split; congruence.
      - pose proof (mk_exif m Hm) as He. rewrite Ee in He. destruct He as [_ He].
        rewrite app_nil_r. rewrite <- (app_nil_r (write_data_chunk FCC_EXIF pe)). fold (enc FCC_EXIF pe).
        destruct (ext_step_meta 2 FCC_EXIF pe [] d3 ltac:(auto) He) as (d4 & E4 & A1 & A2 & A3 & A4 & A5 & A6 & A7).
        rewrite E4. exists d4. split; [reflexivity|].
        change (FCC_EXIF =? FCC_ICCP) with false in *. change (FCC_EXIF =? FCC_EXIF) with true in *.
        change (FCC_EXIF =? FCC_XMP) with false in *. cbv iota in *. repeat split; congruence.
      - pose proof (mk_xmp m Hm) as Hx. rewrite Ex in Hx. destruct Hx as [_ Hx].
        rewrite <- (app_nil_r (write_data_chunk FCC_XMP px)). fold (enc FCC_XMP px).
        destruct (ext_step_meta 2 FCC_XMP px [] d3 ltac:(auto) Hx) as (d4 & E4 & A1 & A2 & A3 & A4 & A5 & A6 & A7).
        rewrite E4. exists d4. split; [reflexivity|].
        change (FCC_XMP =? FCC_ICCP) with false in *. change (FCC_XMP =? FCC_EXIF) with false in *.
        change (FCC_XMP =? FCC_XMP) with true in *. cbv iota in *. repeat split; congruence.
      - exists d3. split; [reflexivity|]. repeat split. }
    destruct Hend as (d5 & E5 & H1 & H2 & H3 & H4 & H5 & H6 & H7).
    exists d5. split.
    - destruct (m_icc m) as [pi|] eqn:Ei; cbn [ometa_write].
      + pose proof (mk_icc m Hm) as Hi. rewrite Ei in Hi. destruct Hi as [_ Hi].
        fold (enc FCC_ICCP pi).
        rewrite ext_loop_step; [|unfold FCC_ICCP; lia|unfold maxMetadataSize in Hi; lia].
        unfold ext_dispatch at 1. cbn [c_id c_data]. change (FCC_ICCP =? FCC_ICCP) with true. cbv iota.
        replace (len pi >? maxMetadataSize) with false by lia. cbn [bind].
        rewrite E2, E3. exact E5.
      + cbn [app]. apply (ext_loop_more_fuel (S (length (m_frames m) + 3))); [|lia].
        rewrite E2, E3. exact E5.
    - rewrite H1, M31, G1. rewrite H3, M35, G3. rewrite H4, M36, G4. rewrite H5, M32, G5.
      rewrite H6, M33, G6. rewrite H7, M34, G7. rewrite H2, F3, Hd2fr. cbn [app].
      repeat split.
      + destruct (m_icc m); reflexivity.
      + destruct (m_icc m); reflexivity.
      + destruct (m_exif m); [reflexivity|]. destruct (m_icc m); reflexivity.
      + destruct (m_xmp m); [reflexivity|]. destruct (m_icc m); reflexivity.
      + exact V3.
      + intros ->. destruct (m_frames m); [contradiction|discriminate]. }
  destruct Hrun as (d & Erun & R1 & R2 & R3 & R4 & R5 & R6 & R7 & R8).
  rewrite (ext_loop_enough _ _ _ _ Hrestb Erun). cbn [bind].
  destruct (Z.eqb_spec (len (d_frames d)) 0) as [E0|_].
  { exfalso. apply R8. unfold len in E0. destruct (d_frames d); [reflexivity|cbn in E0; lia]. }
  exists d. split; [reflexivity|].
  unfold view_of_demux, view_of_mux. rewrite Hanim, Ecs.
  rewrite (all_some_map (map (vframe_of true) (m_frames m))) by (rewrite R7, map_map; reflexivity).
  rewrite R1, R2, R3, R4, R5, R6. cbn [d_feat d0_of ft_w ft_h ft_anim].
  destruct (flags_derivation m) as (Fa & _). cbv zeta in Fa. rewrite Fa, Hanim. reflexivity.
Qed.

(** ---- still pictures in the extended layout (metadata and/or ALPH) ---- *)

Lemma ext_end_meta oe ox d3 : ometa_ok oe -> ometa_ok ox ->
  exists d, ext_loop (S (S (S O))) (ometa_write FCC_EXIF oe ++ ometa_write FCC_XMP ox) d3 = Ok d /\
    d_feat d = d_feat d3 /\ d_frames d = d_frames d3 /\ d_bg d = d_bg d3 /\ d_loop d = d_loop d3 /\
    d_icc d = d_icc d3 /\
    d_exif d = (match oe with Some p => Some p | None => d_exif d3 end) /\
    d_xmp d = (match ox with Some p => Some p | None => d_xmp d3 end).
Proof.
  intros He Hx. destruct oe as [pe|]; destruct ox as [px|]; cbn [ometa_write app].
  - destruct He as [_ He]. destruct Hx as [_ Hx].
    destruct (ext_step_meta 2 FCC_EXIF pe (enc FCC_XMP px) d3 ltac:(auto) He) as (d4 & E4 & A1 & A2 & A3 & A4 & A5 & A6 & A7).
    fold (enc FCC_EXIF pe). fold (enc FCC_XMP px). rewrite E4.
    rewrite <- (app_nil_r (enc FCC_XMP px)).
    destruct (ext_step_meta 1 FCC_XMP px [] d4 ltac:(auto) Hx) as (d5 & E5 & B1 & B2 & B3 & B4 & B5 & B6 & B7).
    rewrite E5. exists d5. split; [reflexivity|].
    change (FCC_EXIF =? FCC_ICCP) with false in *. change (FCC_EXIF =? FCC_EXIF) with true in *.
    change (FCC_EXIF =? FCC_XMP) with false in *. change (FCC_XMP =? FCC_ICCP) with false in *.
    change (FCC_XMP =? FCC_EXIF) with false in *. change (FCC_XMP =? FCC_XMP) with true in *.
    cbv iota in *. repeat split; congruence.
  - destruct He as [_ He].
    rewrite app_nil_r. rewrite <- (app_nil_r (write_data_chunk FCC_EXIF pe)). fold (enc FCC_EXIF pe).
    destruct (ext_step_meta 2 FCC_EXIF pe [] d3 ltac:(auto) He) as (d4 & E4 & A1 & A2 & A3 & A4 & A5 & A6 & A7).
    rewrite E4. exists d4. split; [reflexivity|].
    change (FCC_EXIF =? FCC_ICCP) with false in *. change (FCC_EXIF =? FCC_EXIF) with true in *.
    change (FCC_EXIF =? FCC_XMP) with false in *. cbv iota in *. repeat split; congruence.
  - destruct Hx as [_ Hx].
    rewrite <- (app_nil_r (write_data_chunk FCC_XMP px)). fold (enc FCC_XMP px).
    destruct (ext_step_meta 2 FCC_XMP px [] d3 ltac:(auto) Hx) as (d4 & E4 & A1 & A2 & A3 & A4 & A5 & A6 & A7).
    rewrite E4. exists d4. split; [reflexivity|].
    change (FCC_XMP =? FCC_ICCP) with false in *. change (FCC_XMP =? FCC_EXIF) with false in *.
    change (FCC_XMP =? FCC_XMP) with true in *. cbv iota in *. repeat split; congruence.
  - exists d3. split; [reflexivity|]. repeat split.
Qed.

Lemma ext_dispatch_image d id n p rest :
  (id = FCC_VP8 \/ id = FCC_VP8L \/ id = FCC_ALPH) ->
  ext_dispatch d (mkchunk id n p) rest =
    if negb (ft_anim (d_feat d)) && (len (d_frames d) =? 0) then parse_single_ext d rest else Ok d.
Proof. intros [->|[->| ->]]; reflexivity. Qed.

(** parseSingleExtendedFrame on the chunks written for a still picture *)
Lemma parse_single_ext_written d a b w h isl abit tail :
  bfacts b w h isl abit -> olen a + len b < 1073741824 -> obytes_ok a ->
  parse_single_ext d (img_chunks a b ++ tail) =
    Ok (DemuxModel.set_frames d [mkfi (Some b) a (ft_w (d_feat d)) (ft_h (d_feat d)) 0 0 0 true (has_a a isl abit) 0 0]).
Proof.
  intros Hbf Hl Ha. pose proof (len_nonneg b). assert (0 <= olen a) by (destruct a; cbn; [apply len_nonneg|lia]).
  destruct (detect_type_range b) as (Hr & Himg & Hna).
  unfold parse_single_ext.
  assert (Hsl : single_loop (S (length (img_chunks a b ++ tail))) (img_chunks a b ++ tail) None None = Ok (Some b, a)).
  { apply (single_loop_more_fuel 2).
    - unfold img_chunks. destruct a as [x|]; cbn [olen] in *.
      + pose proof (len_nonneg x). rewrite <- !app_assoc.
        rewrite single_loop_step_alph by lia.
        rewrite single_loop_step_img by (auto; lia). reflexivity.
      + cbn [app]. rewrite single_loop_step_img by (auto; lia). reflexivity.
    - assert (8 <= len (img_chunks a b ++ tail)).
      { unfold img_chunks. rewrite !len_app. pose proof (enc_len_ge (detect_type b) b ltac:(lia)).
        pose proof (len_nonneg (match a with Some x => enc FCC_ALPH x | None => [] end)). pose proof (len_nonneg tail). lia. }
      unfold len in *. lia. }
  rewrite Hsl. cbn [bind].
  assert (HhA : (if 0 <? olen a then Ok true else frame_data_has_alpha b) = Ok (has_a a isl abit)).
  { unfold has_a. destruct (0 <? olen a); [reflexivity|]. cbn [orb]. apply (bf_fha _ _ _ _ _ Hbf). }
  rewrite HhA. reflexivity.
Qed.

(** the image chunks of a still picture inside the chunk loop *)
Lemma ext_still_image d a b w h isl abit tail f :
  bfacts b w h isl abit -> olen a + len b < 1073741824 -> obytes_ok a ->
  ft_anim (d_feat d) = false -> d_frames d = [] ->
  exists d',
    (forall r, ext_loop f tail d' = Ok r -> ext_loop (S (S f)) (img_chunks a b ++ tail) d = Ok r) /\
    d_feat d' = d_feat d /\ d_bg d' = d_bg d /\ d_loop d' = d_loop d /\
    d_icc d' = d_icc d /\ d_exif d' = d_exif d /\ d_xmp d' = d_xmp d /\
    d_frames d' = [mkfi (Some b) a (ft_w (d_feat d)) (ft_h (d_feat d)) 0 0 0 true (has_a a isl abit) 0 0].
Proof.
  intros Hbf Hl Ha Hanim Hfr. pose proof (len_nonneg b). assert (0 <= olen a) by (destruct a; cbn; [apply len_nonneg|lia]).
  destruct (detect_type_range b) as (Hr & Himg & Hna).
  assert (Hdt : detect_type b = FCC_VP8 \/ detect_type b = FCC_VP8L \/ detect_type b = FCC_ALPH).
  { unfold detect_type. destruct b as [|b0 tl]; [auto|]. destruct (b0 =? VP8LMagicByte); auto. }
  destruct a as [x|]; cbn [olen] in *.
  - pose proof (len_nonneg x).
    assert (E : img_chunks (Some x) b ++ tail = enc FCC_ALPH x ++ (enc (detect_type b) b ++ tail)).
    { unfold img_chunks. rewrite <- app_assoc. reflexivity. }
    eexists. split.
    + intros r Hk. rewrite E. rewrite ext_loop_step; [|unfold FCC_ALPH; lia|lia].
      rewrite ext_dispatch_image by auto.
      cbn [add_chunk d_feat d_frames]. rewrite Hanim, Hfr. cbn [negb andb len length Z.of_nat Z.eqb].
      rewrite <- E. rewrite (parse_single_ext_written _ (Some x) b w h isl abit tail) by (auto; cbn [olen]; lia).
      cbn [bind].
      rewrite ext_loop_step by lia.
      rewrite ext_dispatch_image by auto.
      cbn [add_chunk DemuxModel.set_frames d_feat d_frames ft_anim]. rewrite Hanim.
      cbn [negb andb len length Z.of_nat]. change (Z.pos (Pos.of_succ_nat 0) =? 0) with false. cbn [andb bind].
      exact Hk.
    + cbn. repeat split.
  - eexists. split.
    + intros r Hk. unfold img_chunks. cbn [app].
      rewrite ext_loop_step by lia.
      rewrite ext_dispatch_image by auto.
      cbn [add_chunk d_feat d_frames]. rewrite Hanim, Hfr. cbn [negb andb len length Z.of_nat Z.eqb].
      assert (E : enc (detect_type b) b ++ tail = img_chunks None b ++ tail) by reflexivity.
      rewrite E. rewrite (parse_single_ext_written _ None b w h isl abit tail) by (auto; cbn [olen]; lia).
      cbn [bind]. apply (ext_loop_more_fuel f); [exact Hk|lia].
    + cbn. repeat split.
Qed.

Theorem still_ext_roundtrip m bs :
  mok m -> is_animated m = false -> needs_vp8x repaired m = true -> assemble repaired m = Ok bs ->
  bytes_ok bs /\ rd32 (firstn 4 (skipn 4 bs)) + 8 = len bs /\
  exists d, parse true bs = Ok d /\ view_of_demux d = Some (view_of_mux m).
Proof.
  intros Hm Hanim Hx Hasm. unfold assemble in Hasm.
  destruct (validate repaired m) as [[]|e|] eqn:Hval; cbn [bind] in Hasm; try discriminate.
  rewrite Hx in Hasm.
  destruct (validate_facts m Hval) as (Hne & Hcw & Hch & Harea & Hone & Hoff).
  destruct (Hone Hanim) as [f Hf].
  pose proof (canvas_size_pos m) as [Hcw1 Hch1].
  pose proof (mk_frames m Hm) as Hfr. rewrite Hf in Hfr, Hoff.
  inversion Hfr as [|? ? (Hb & Hl & Hv & Hdur) _]; subst.
  inversion Hoff as [|? ? (_ & _ & Hz) _]; subst. destruct (Hz Hanim) as [Hox Hoy].
  assert (Hd0 : o_dur (f_opts f) = 0).
  { unfold is_animated in Hanim. rewrite Hf in Hanim. apply orb_false_iff in Hanim. destruct Hanim as [_ Ha].
    cbn [existsb] in Ha. rewrite orb_false_r in Ha. lia. }
  destruct f as [data fo]. cbn [f_data f_opts] in *.
  destruct (valid_frame_facts data Hb Hv) as (a & b & w & h & isl & abit & [Hparts Hsplit Hbf Hbb Hab Hlen _ _]).
  destruct (len_img_chunks a b ltac:(lia) Hab) as (Hlen_img & _ & _).
  unfold assemble_extended in Hasm. rewrite Hanim, Hf in Hasm.
  destruct (canvas_size m) as [cw ch] eqn:Ecs. cbn [fst snd] in *.
  cbn [fold_left flat_map] in Hasm.
  assert (Hfrs : frame_riff_size repaired false (mkmf data fo) = len (img_chunks a b)).
  { unfold frame_riff_size. cbn [fx_alpha repaired f_data]. rewrite Hsplit. symmetry. exact Hlen_img. }
  assert (Hwfr : write_frame repaired false (mkmf data fo) = img_chunks a b).
  { unfold write_frame. cbn [fx_alpha repaired f_data]. rewrite Hsplit. reflexivity. }
  rewrite Hfrs, Hwfr, app_nil_r in Hasm.
  rewrite <- (ometa_size_correct FCC_ICCP _ (mk_icc m Hm)) in Hasm.
  rewrite <- (ometa_size_correct FCC_EXIF _ (mk_exif m Hm)) in Hasm.
  rewrite <- (ometa_size_correct FCC_XMP _ (mk_xmp m Hm)) in Hasm.
  match type of Hasm with (if ?n >? _ then _ else _) = _ => set (riff := n) in * end.
  destruct (Z.gtb_spec riff 4294967295) as [|Hriff]; [discriminate|].
  apply Ok_inj in Hasm. subst bs.
  change ([] ++ img_chunks a b ++ ometa_write FCC_EXIF (m_exif m) ++ ometa_write FCC_XMP (m_xmp m))
    with (img_chunks a b ++ ometa_write FCC_EXIF (m_exif m) ++ ometa_write FCC_XMP (m_xmp m)).
  set (rest := ometa_write FCC_ICCP (m_icc m) ++ img_chunks a b ++
               ometa_write FCC_EXIF (m_exif m) ++ ometa_write FCC_XMP (m_xmp m)).
  set (body := enc FCC_VP8X (vp8x_payload (vp8x_flags m) cw ch) ++ rest).
  assert (Hfile : le32 FCC_RIFF ++ le32 riff ++ le32 FCC_WEBP ++
                  le32 FCC_VP8X ++ le32 VP8XChunkSize ++ [vp8x_flags m; 0; 0; 0] ++ le24 (cw - 1) ++ le24 (ch - 1) ++ rest
                = le32 FCC_RIFF ++ le32 riff ++ le32 FCC_WEBP ++ body).
  { unfold body. rewrite <- vp8x_written. rewrite <- !app_assoc. reflexivity. }
  rewrite Hfile. clear Hfile.
  assert (Hriffeq : riff = 4 + len body).
  { unfold riff, body, rest. rewrite !len_app. unfold ChunkHeaderSize, VP8XChunkSize.
    change (len (enc FCC_VP8X (vp8x_payload (vp8x_flags m) cw ch))) with 18. lia. }
  assert (Hrestb : bytes_ok rest).
  { unfold rest. apply bytes_ok_app; split; [apply bytes_ok_ometa, (mk_icc m Hm)|].
    apply bytes_ok_app; split; [apply bytes_ok_img; auto|].
    apply bytes_ok_app; split; apply bytes_ok_ometa; [apply (mk_exif m Hm)|apply (mk_xmp m Hm)]. }
  assert (Hflags : 0 <= vp8x_flags m < 256).
  { unfold vp8x_flags. destruct (is_animated m), (is_some (m_icc m)), (is_some (m_exif m)), (is_some (m_xmp m)), (has_alpha m); lia. }
  assert (Hbodyb : bytes_ok body).
  { unfold body. apply bytes_ok_app. split; [|exact Hrestb]. apply bytes_ok_enc.
    unfold vp8x_payload, le24, bytes_ok. cbn [app].
    repeat (apply Forall_cons; [unfold is_byte; lia|]). apply Forall_nil. }
  assert (Hb8 : 8 <= len body).
  { unfold body. rewrite len_app. change (len (enc FCC_VP8X (vp8x_payload (vp8x_flags m) cw ch))) with 18.
    pose proof (len_nonneg rest). lia. }
  split; [|split].
  { apply bytes_ok_app; split; [apply le32_bytes|]. apply bytes_ok_app; split; [apply le32_bytes|].
    apply bytes_ok_app; split; [apply le32_bytes|exact Hbodyb]. }
  { change (le32 FCC_RIFF) with [82; 73; 70; 70]. cbn [app skipn].
    rewrite !len_cons, !len_app, !len_le32.
    replace (firstn 4 (le32 riff ++ le32 FCC_WEBP ++ body)) with (le32 riff) by reflexivity.
    rewrite <- (app_nil_r (le32 riff)), rd32_le32 by (pose proof (len_nonneg body); lia). lia. }
  rewrite parse_riff_written by (auto; lia).
  assert (Hft : u32at body 0 = Ok FCC_VP8X).
  { unfold body, enc, write_data_chunk. rewrite <- !app_assoc. apply u32at_le32_head. vm_compute. split; congruence. }
  rewrite Hft. cbn [bind]. rewrite Z.eqb_refl.
  unfold body. rewrite parse_extended_written by (unfold MaxCanvasSize in *; lia).
  destruct (flags_derivation m) as (Fa & _). cbv zeta in Fa.
  set (d0 := d0_of (vp8x_flags m) cw ch).
  assert (Hd0anim : ft_anim (d_feat d0) = false) by (unfold d0, d0_of; cbn [d_feat ft_anim]; rewrite Fa; exact Hanim).
  (* the chain: [ICCP] image [EXIF] [XMP] *)
  set (d1 := match m_icc m with
             | Some p => set_icc (add_chunk d0 (mkchunk FCC_ICCP (len p) p)) p
             | None => d0 end).
  assert (Hd1 : d_feat d1 = d_feat d0 /\ d_frames d1 = [] /\ d_bg d1 = 0 /\ d_loop d1 = 0 /\
                d_icc d1 = m_icc m /\ d_exif d1 = None /\ d_xmp d1 = None).
  { unfold d1. destruct (m_icc m); cbn; repeat split. }
  destruct Hd1 as (D1 & D2 & D3 & D4 & D5 & D6 & D7).
  destruct (ext_still_image d1 a b w h isl abit
              (ometa_write FCC_EXIF (m_exif m) ++ ometa_write FCC_XMP (m_xmp m)) 3 Hbf ltac:(lia) Hab)
    as (d2 & K2 & G1 & G2 & G3 & G4 & G5 & G6 & G7).
  { rewrite D1. exact Hd0anim. }
  { exact D2. }
  destruct (ext_end_meta (m_exif m) (m_xmp m) d2 (mk_exif m Hm) (mk_xmp m Hm)) as (d3 & E3 & H1 & H2 & H3 & H4 & H5 & H6 & H7).
  assert (Erun : ext_loop 6 rest d0 = Ok d3).
  { unfold rest. destruct (m_icc m) as [pi|] eqn:Ei; cbn [ometa_write].
    - pose proof (mk_icc m Hm) as Hi. rewrite Ei in Hi. destruct Hi as [_ Hi].
      fold (enc FCC_ICCP pi).
      rewrite ext_loop_step; [|unfold FCC_ICCP; lia|unfold maxMetadataSize in Hi; lia].
      unfold ext_dispatch at 1. cbn [c_id c_data]. change (FCC_ICCP =? FCC_ICCP) with true. cbv iota.
      replace (len pi >? maxMetadataSize) with false by lia. cbn [bind].
      apply K2. exact E3.
    - cbn [app]. apply (ext_loop_more_fuel 5); [|lia]. apply K2. exact E3. }
  rewrite (ext_loop_enough _ _ _ _ Hrestb Erun). cbn [bind].
  rewrite H2, G7. cbn [len length Z.of_nat]. change (Z.pos (Pos.of_succ_nat 0) =? 0) with false. cbv iota.
  exists d3. split; [reflexivity|].
  unfold view_of_demux, view_of_mux. rewrite Hanim, Ecs, Hf, H2, G7.
  cbn [map vframe_of_fi fi_data fi_alpha fi_ox fi_oy fi_dur fi_blend fi_dispose all_some].
  unfold vframe_of. cbn [f_data f_opts]. rewrite Hparts, Hox, Hoy, Hd0.
  rewrite H1, G1, D1, H3, G2, D3, H4, G3, D4, H5, G4, D5, H6, G5, D6, H7, G6, D7.
  unfold d0, d0_of. cbn [d_feat ft_w ft_h ft_anim]. rewrite Fa, Hanim.
  destruct (m_exif m), (m_xmp m); reflexivity.
Qed.

(** ---- histories: every state reached by calls satisfying the hypotheses is [mok] ---- *)
Lemma bytes_okb_ok d : bytes_okb d = true -> bytes_ok d.
Proof.
  unfold bytes_okb, bytes_ok. rewrite forallb_forall, Forall_forall. intros H x Hx.
  specialize (H x Hx). unfold is_byte. lia.
Qed.

Lemma oblob_ok_meta o : oblob_okb o = true -> ometa_ok o.
Proof.
  destruct o as [p|]; cbn; [|auto]. intros H. apply andb_true_iff in H. destruct H as [H1 H2].
  split; [apply bytes_okb_ok; exact H1|unfold maxMetadataSize; lia].
Qed.

Lemma clamp_duration_range d : 0 <= clamp_duration d <= maxDuration.
Proof. unfold clamp_duration, maxDuration. destruct (d <? 0) eqn:E1; [lia|]. destruct (d >? 16777215) eqn:E2; lia. Qed.

Lemma upd_nth_ok fs : forall i g, Forall mframe_ok fs ->
  (forall f, mframe_ok f -> mframe_ok (mkmf (f_data f) (g (f_opts f)))) -> Forall mframe_ok (upd_nth fs i g).
Proof.
  induction fs as [|f fs IH]; intros i g H Hg; cbn [upd_nth]; [constructor|].
  inversion H; subst. destruct i; constructor; auto.
Qed.

Lemma upd_nth_length fs : forall i g, length (upd_nth fs i g) = length fs.
Proof. induction fs as [|f fs IH]; intros [|i] g; cbn; auto. Qed.

Lemma step_mok m o : op_ok o -> mok m -> mok (fst (step m o)).
Proof.
  intros Ho [Hf Hi He Hx Hbg Hlp Hn]. unfold op_ok in Ho. destruct o; cbn [step op_okb] in *.
  - (* AddFrame *)
    destruct (len data =? 0); [constructor; auto|].
    destruct (Z.geb_spec (len (m_frames m)) MaxFrames); [constructor; auto|]. cbn [fst].
    rewrite !andb_true_iff in Ho. destruct Ho as [[Hb Hv] _].
    unfold blob_okb in Hb. apply andb_true_iff in Hb. destruct Hb as [Hb1 Hb2].
    constructor; cbn [MuxModel.set_frames m_frames m_icc m_exif m_xmp m_bg m_loop]; auto.
    + apply Forall_app. split; [exact Hf|]. constructor; [|constructor].
      unfold mframe_ok. cbn [f_data f_opts o_dur].
      split; [apply bytes_okb_ok; exact Hb1|]. split; [lia|]. split; [exact Hv|apply clamp_duration_range].
    + rewrite len_app. unfold len at 2. cbn [length]. lia.
  - (* SetFrameDisposeMode *)
    cbn [fst]. unfold upd_frame. destruct ((0 <=? i) && (i <? len (m_frames m))); [|constructor; auto].
    constructor; cbn [MuxModel.set_frames m_frames m_icc m_exif m_xmp m_bg m_loop]; auto.
    + apply upd_nth_ok; auto.
    + unfold len. rewrite upd_nth_length. exact Hn.
  - (* SetFrameDuration *)
    cbn [fst]. unfold upd_frame. destruct ((0 <=? i) && (i <? len (m_frames m))); [|constructor; auto].
    constructor; cbn [MuxModel.set_frames m_frames m_icc m_exif m_xmp m_bg m_loop]; auto.
    + apply upd_nth_ok; auto. intros f (A & B & C & D). unfold mframe_ok. cbn [f_data f_opts o_dur].
      repeat split; auto; apply clamp_duration_range.
    + unfold len. rewrite upd_nth_length. exact Hn.
  - cbn [fst]. constructor; cbn; auto using oblob_ok_meta.
  - cbn [fst]. constructor; cbn; auto using oblob_ok_meta.
  - cbn [fst]. constructor; cbn; auto using oblob_ok_meta.
  - (* AddChunk *)
    rewrite !andb_true_iff in Ho. destruct Ho as [_ Ho]. apply oblob_ok_meta in Ho.
    destruct (olen d >? maxMetadataSize); [constructor; auto|].
    destruct (id =? FCC_ICCP); [constructor; cbn; auto|].
    destruct (id =? FCC_EXIF); [constructor; cbn; auto|].
    destruct (id =? FCC_XMP); constructor; cbn; auto.
  - (* SetLoopCount *)
    cbn [fst]. constructor; cbn [m_frames m_icc m_exif m_xmp m_bg m_loop]; auto.
    unfold maxLoopCount. destruct (n <? 0) eqn:E1; [lia|]. destruct (n >? 65535) eqn:E2; lia.
  - cbn [fst]. constructor; cbn [m_frames m_icc m_exif m_xmp m_bg m_loop]; auto. lia.
  - cbn [fst]. constructor; cbn [m_frames m_icc m_exif m_xmp m_bg m_loop]; auto.
  - cbn [fst]. constructor; auto.
Qed.

(** Assemble in the middle of a history is the identity on the state, so a history with
    Assemble calls reaches the state of the same history without them. *)
Lemma step_assemble_call m : fst (step m AssembleCall) = m.
Proof. reflexivity. Qed.

Lemma run_ignores_assemble_calls ops :
  run ops = run (filter (fun o => match o with AssembleCall => false | _ => true end) ops).
Proof.
  unfold run. generalize minit. induction ops as [|o ops IH]; intros m; [reflexivity|].
  cbn [fold_left filter]. destruct o; cbn [fold_left]; try apply IH.
Qed.

(** the frame limit: whatever the history, the muxer never holds more frames than the
    demuxer accepts (MuxModel.MaxFrames = DemuxModel.maxFrames, both tied to the source) *)
Lemma step_frames_bounded m o : len (m_frames m) <= MaxFrames -> len (m_frames (fst (step m o))) <= MaxFrames.
Proof.
  intros H. destruct o; cbn [step]; try exact H.
  - destruct (len data =? 0); [exact H|].
    destruct (Z.geb_spec (len (m_frames m)) MaxFrames); [exact H|]. cbn [fst MuxModel.set_frames m_frames].
    rewrite len_app. unfold len at 2. cbn [length]. lia.
  - cbn [fst]. unfold upd_frame. destruct ((0 <=? i) && (i <? len (m_frames m))); [|exact H].
    cbn [MuxModel.set_frames m_frames]. unfold len. rewrite upd_nth_length. exact H.
  - cbn [fst]. unfold upd_frame. destruct ((0 <=? i) && (i <? len (m_frames m))); [|exact H].
    cbn [MuxModel.set_frames m_frames]. unfold len. rewrite upd_nth_length. exact H.
  - destruct (olen d >? maxMetadataSize); [exact H|].
    destruct (id =? FCC_ICCP); [exact H|]. destruct (id =? FCC_EXIF); [exact H|]. destruct (id =? FCC_XMP); exact H.
Qed.

Lemma frames_bounded ops : len (m_frames (run ops)) <= maxFrames.
Proof.
  change maxFrames with MaxFrames. unfold run.
  assert (H0 : len (m_frames minit) <= MaxFrames) by (unfold len, MaxFrames; cbn; lia).
  revert H0. generalize minit. induction ops as [|o ops IH]; intros m H; cbn [fold_left]; [exact H|].
  apply IH. apply step_frames_bounded. exact H.
Qed.

Lemma run_mok ops : Forall op_ok ops -> mok (run ops).
Proof.
  unfold run. assert (H0 : mok minit).
  { constructor; cbn; auto; try lia. unfold len, MaxFrames. cbn. lia. }
  revert H0. generalize minit. induction ops as [|o ops IH]; intros m Hm H; cbn [fold_left]; [exact Hm|].
  inversion H; subst. apply IH; [apply step_mok; auto|auto].
Qed.

Lemma assemble_no_panic m : assemble repaired m <> Panic.
Proof.
  unfold assemble. destruct (validate repaired m) as [[]|e|] eqn:Hv; cbn [bind]; try discriminate.
  - destruct (needs_vp8x repaired m).
    + unfold assemble_extended. destruct (canvas_size m). destruct (_ >? _); discriminate.
    + unfold assemble_simple. destruct (validate_facts m Hv) as (Hne & _).
      destruct (m_frames m); [contradiction|discriminate].
  - unfold validate in Hv. repeat match type of Hv with
      | (if ?c then _ else _) = _ => destruct c
      | (let '(_, _) := ?x in _) = _ => destruct x end; discriminate.
Qed.

(** C14 for the extended layouts of the current code: for EVERY history of muxer calls
    satisfying the hypotheses, if Assemble succeeds and writes a VP8X file (a still
    picture with metadata and/or alpha, or an animation of any number of frames,
    with or without ALPH sub-chunks), the bytes are in range, the RIFF size field
    covers the file exactly, and the demuxer returns exactly the view of what was
    put in.  Assemble never panics. *)
Theorem extended_roundtrip ops :
  Forall op_ok ops ->
  let m := run ops in
  match assemble repaired m with
  | Err _ => True
  | Panic => False
  | Ok bs =>
    needs_vp8x repaired m = true ->
    bytes_ok bs /\ rd32 (firstn 4 (skipn 4 bs)) + 8 = len bs /\
    match parse true bs with
    | Ok d => view_of_demux d = Some (view_of_mux m)
    | _ => False
    end
  end.
Proof.
  intros Hops m. pose proof (run_mok ops Hops) as Hm. fold m in Hm.
  destruct (assemble repaired m) as [bs|e|] eqn:Ha; [|exact I|exact (assemble_no_panic m Ha)].
  intros Hx. destruct (is_animated m) eqn:Han.
  - destruct (animated_roundtrip m bs Hm Han Ha) as (H1 & H2 & d & H3 & H4).
    split; [exact H1|]. split; [exact H2|]. rewrite H3. exact H4.
  - destruct (still_ext_roundtrip m bs Hm Han Hx Ha) as (H1 & H2 & d & H3 & H4).
    split; [exact H1|]. split; [exact H2|]. rewrite H3. exact H4.
Qed.

(** ---- metadata larger than maxMetadataSize (finding "meta-too-large") ----
    SetICCProfile / SetEXIF / SetXMP store any blob (only AddChunk checks the limit) and
    validate / Assemble never look at the blob sizes, but the demuxer refuses such a
    chunk: a muxer-accepted input whose file the demuxer rejects.  This is why [op_okb]
    bounds metadata by maxMetadataSize.  (Replayed on the Go code by harness/c14 in the
    thorough tier; a kernel-evaluated witness would need a 100 MB list.) *)
Lemma meta_too_large_demux_rejects d id n p rest :
  (id = FCC_ICCP \/ id = FCC_EXIF \/ id = FCC_XMP) -> len p > maxMetadataSize ->
  ext_dispatch d (mkchunk id n p) rest = Err E_meta.
Proof.
  intros Hid Hp. assert (Hgt : (len p >? maxMetadataSize) = true) by lia.
  destruct Hid as [->|[->| ->]]; unfold ext_dispatch; cbn [c_id c_data].
  - change (FCC_ICCP =? FCC_ICCP) with true. cbv iota. rewrite Hgt. reflexivity.
  - change (FCC_EXIF =? FCC_ICCP) with false. change (FCC_EXIF =? FCC_EXIF) with true. cbv iota. rewrite Hgt. reflexivity.
  - change (FCC_XMP =? FCC_ICCP) with false. change (FCC_XMP =? FCC_EXIF) with false.
    change (FCC_XMP =? FCC_XMP) with true. cbv iota. rewrite Hgt. reflexivity.
Qed.

(** ReadChunkHeader's MaxChunkPayload guard is exactly what keeps the uint32 size
    arithmetic (chunkTotalSize: header + payload + padding) from wrapping: for every
    admitted size the uint32 value is the mathematical one and fits 32 bits.  (ReadChunk
    itself computes [ChunkHeaderSize + int(size)] in 64-bit int, modelled without wrap;
    a change that routes it through the uint32 helper or admits MaxChunkPayload+1 is
    outside the model and is caught by the correspondence at the size boundary.) *)
Lemma chunk_guard_no_u32_wrap d id sz : bytes_ok d -> read_chunk_header d = Ok (id, sz) ->
  chunk_total sz = 8 + sz + sz mod 2 /\ 8 + sz + sz mod 2 < 4294967296 /\ 0 <= sz.
Proof.
  intros Hb H. pose proof (read_chunk_header_spec d Hb) as Hs. rewrite H in Hs.
  destruct Hs as (_ & Hsz & _). unfold MaxChunkPayload in Hsz.
  unfold chunk_total, u32, ChunkHeaderSize.
  destruct (Z.eqb_spec (sz mod 2) 0); cbn [negb]; lia.
Qed.

Example chunk_guard_boundary :
  read_chunk_header ([65;66;67;68] ++ le32 4294967286) = Ok (1145258561, 4294967286) /\
  read_chunk_header ([65;66;67;68] ++ le32 4294967287) = Err E_big /\
  chunk_total 4294967287 = 0.
Proof. vm_compute. repeat split; reflexivity. Qed.
