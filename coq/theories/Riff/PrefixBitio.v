(** C17, codec layer: the end-of-input flag of internal/bitio.BoolReader (the Go
    boolean decoder; model [Vp8.Vp8GoReader.greader] of the VP8 builder: 64-bit
    value register, bulk loads of 7 bytes, one byte near the end, [gr_eof] set by
    loadFinalBytes when a load finds no byte left).

    lossy.Decoder turns the flag into an error after the headers and after every
    macroblock (decode.go / decode_mb.go: [br.EOF()], [tokenBR.EOF()]).  Here the flag
    itself is characterised ([gr_bit_eof]) and shown to be exactly what makes that
    discipline all-or-nothing: for every decoding strategy (the probabilities may
    depend on the bits read so far), if the run over [l] ends with the flag clear,
    the run over [l ++ ext] returns the same bits, flag clear ([go_bool_reader_prefix_stable]).
    The proof relates each reader -- over its data followed by three zero bytes, so
    that the VP8 builder's refinement lemmas apply right up to the last byte -- to
    the exact-integer decoder [Vp8BoolAbs.aget], and the two abstract runs to each
    other. *)
From Coq Require Import List ZArith Lia Bool.
From Webp Require Import Vp8.Vp8Bool Vp8.Vp8BoolAbs Vp8.Vp8GoReader.
Import ListNotations.
Open Scope Z_scope.

(** * The flag *)
Definition is_nil {A} (l : list A) : bool := match l with [] => true | _ => false end.

(** NewBoolReader *)
Definition gr_init (data : list Z) : greader := mkGr 0 254 (-8) data false.
Definition gr_new (data : list Z) : greader := gr_load (gr_init data).

Lemma gr_load_eof g : gr_eof (gr_load g) = gr_eof g || is_nil (gr_rest g).
Proof.
  unfold gr_load. destruct (8 <=? length (gr_rest g))%nat eqn:E.
  - cbn [gr_eof]. destruct (gr_rest g); [discriminate|]. cbn. rewrite orb_false_r. reflexivity.
  - destruct (gr_rest g) as [|b tl]; cbn [gr_eof is_nil].
    + destruct (gr_eof g); reflexivity.
    + rewrite orb_false_r. reflexivity.
Qed.

Lemma gr_fast_bit_fields p g :
  gr_eof (snd (gr_fast_bit p g)) = gr_eof g /\ gr_rest (snd (gr_fast_bit p g)) = gr_rest g.
Proof. unfold gr_fast_bit. cbv zeta. destruct (_ <=? 126); cbn [snd gr_eof gr_rest]; auto. Qed.

(** GetBit sets the flag exactly when it needs a byte and none is left; it never clears it *)
Theorem gr_bit_eof p g :
  gr_eof (snd (gr_bit p g)) = gr_eof g || ((gr_bits g <? 0) && is_nil (gr_rest g)).
Proof.
  unfold gr_bit. rewrite (proj1 (gr_fast_bit_fields p _)).
  destruct (gr_bits g <? 0); cbn [andb]; [apply gr_load_eof|rewrite orb_false_r; reflexivity].
Qed.

(** * Readers over data followed by three zero bytes *)
Definition pad3 (g : greader) : greader :=
  mkGr (gr_value g) (gr_range g) (gr_bits g) (gr_rest g ++ [0; 0; 0]) (gr_eof g).

Lemma fast_bit_pad p g :
  gr_fast_bit p (pad3 g) = (fst (gr_fast_bit p g), pad3 (snd (gr_fast_bit p g))).
Proof.
  unfold gr_fast_bit, pad3. cbv zeta. cbn [gr_value gr_range gr_bits gr_rest gr_eof].
  destruct (_ <=? 126); reflexivity.
Qed.

Definition load_one (g : greader) : greader :=
  match gr_rest g with
  | b :: tl => mkGr (b + w64 (gr_value g * 256)) (gr_range g) (gr_bits g + 8) tl (gr_eof g)
  | [] => g
  end.

Lemma grel_value_small g R D j : grel g R D j -> gr_bits g < 0 -> 1 <= R <= 255 -> gr_value g < 256.
Proof.
  intros (ER & Hb & Hv & HB & ED & Ej & HD & Heof) Hneg HR.
  set (m := Z.of_nat (length (gr_rest g))) in *.
  pose proof (bval_bound _ Hb) as HF. fold m in HF.
  assert (HW : 0 < 2 ^ (8 * m)) by (apply Z.pow_pos_nonneg; lia).
  destruct (Z.lt_ge_cases j 0) as [Hj|Hj].
  - rewrite (Z.pow_neg_r 2 j Hj) in HD. lia.
  - assert (Hle : 2 ^ j <= 2 ^ (8 * m)) by (apply Z.pow_le_mono_r; lia).
    assert (0 < 2 ^ j) by (apply Z.pow_pos_nonneg; lia). nia.
Qed.

Lemma load_one_rel g R D j : grel g R D j -> gr_bits g < 0 -> 1 <= R <= 255 -> gr_rest g <> [] ->
  grel (load_one g) R D j /\ 0 <= gr_bits (load_one g).
Proof.
  intros Hrel Hneg HR Hne. pose proof (grel_value_small g R D j Hrel Hneg HR) as Hv8.
  destruct Hrel as (ER & Hb & Hv & HB & ED & Ej & HD & Heof).
  unfold load_one. destruct (gr_rest g) as [|b tl] eqn:Er; [contradiction|].
  pose proof (Forall_inv Hb) as Hb1. pose proof (Forall_inv_tail Hb) as Hbt. unfold is_byte in Hb1.
  unfold w64. rewrite Z.mod_small by (change (2 ^ 64) with 18446744073709551616; lia).
  unfold grel. cbn [gr_range gr_rest gr_value gr_bits gr_eof]. split; [|lia].
  split; [exact ER|]. split; [exact Hbt|]. split; [lia|]. split; [lia|].
  cbn [length bval] in ED, Ej.
  split.
  { rewrite ED. rewrite Nat2Z.inj_succ.
    replace (8 * Z.succ (Z.of_nat (length tl))) with (8 + 8 * Z.of_nat (length tl)) by lia.
    rewrite Z.pow_add_r by lia. change (2 ^ 8) with 256. ring. }
  split; [lia|]. split; [exact HD|exact Heof].
Qed.

Lemma load_pad g R D j : grel (pad3 g) R D j -> gr_bits g < 0 -> 1 <= R <= 255 -> gr_rest g <> [] ->
  grel (pad3 (gr_load g)) R D j /\ 0 <= gr_bits (gr_load g).
Proof.
  intros Hrel Hneg HR Hne.
  assert (Hj : 16 <= j).
  { destruct Hrel as (_ & _ & _ & HB & _ & Ej & _). cbn [pad3 gr_bits gr_rest] in *.
    rewrite app_length in Ej. cbn [length] in Ej. destruct (gr_rest g); [contradiction|]. cbn [length] in Ej. lia. }
  destruct (8 <=? length (gr_rest g))%nat eqn:E8.
  - apply Nat.leb_le in E8.
    assert (Ecomm : gr_load (pad3 g) = pad3 (gr_load g)).
    { unfold gr_load, pad3. cbn [gr_value gr_range gr_bits gr_rest gr_eof].
      assert (E1 : Nat.leb 8 (length (gr_rest g ++ [0; 0; 0])) = true) by (apply Nat.leb_le; rewrite app_length; lia).
      assert (E2 : Nat.leb 8 (length (gr_rest g)) = true) by (apply Nat.leb_le; exact E8).
      rewrite E1, E2. cbn [gr_value gr_range gr_bits gr_rest gr_eof].
      rewrite firstn_app, skipn_app. replace (7 - length (gr_rest g))%nat with 0%nat by lia.
      cbn [firstn skipn]. rewrite app_nil_r. reflexivity. }
    destruct (gr_load_rel (pad3 g) R D j Hrel Hneg HR Hj) as [H1 H2]. rewrite Ecomm in H1, H2.
    split; [exact H1|exact H2].
  - apply Nat.leb_gt in E8.
    assert (El : gr_load g = load_one g).
    { unfold gr_load, load_one. apply Nat.leb_gt in E8. rewrite E8.
      destruct (gr_rest g); [contradiction|reflexivity]. }
    rewrite El.
    assert (Ep : pad3 (load_one g) = load_one (pad3 g)).
    { unfold load_one, pad3. cbn [gr_value gr_range gr_bits gr_rest gr_eof].
      destruct (gr_rest g); [contradiction|reflexivity]. }
    rewrite Ep.
    assert (Hne' : gr_rest (pad3 g) <> []) by (cbn [pad3 gr_rest]; destruct (gr_rest g); discriminate).
    destruct (load_one_rel (pad3 g) R D j Hrel Hneg HR Hne') as [H1 H2]. split; [exact H1|].
    rewrite <- Ep in H2. exact H2.
Qed.

(** a read that does not run out of data follows the abstract decoder over the padded data *)
Lemma bit_pad g R D j p : grel (pad3 g) R D j -> 128 <= R <= 255 -> 0 <= p <= 255 ->
  (gr_bits g <? 0) && is_nil (gr_rest g) = false ->
  exists g1, gr_bit p g = (fst (aget p (R, D, j)), g1) /\
    (let '(R2, D2, j2) := snd (aget p (R, D, j)) in grel (pad3 g1) R2 D2 j2 /\ 128 <= R2 <= 254).
Proof.
  intros Hrel HR Hp Hno. unfold gr_bit.
  assert (Hstep : forall gl, grel (pad3 gl) R D j -> 0 <= gr_bits gl ->
            exists g1, gr_fast_bit p gl = (fst (aget p (R, D, j)), g1) /\
              (let '(R2, D2, j2) := snd (aget p (R, D, j)) in grel (pad3 g1) R2 D2 j2 /\ 128 <= R2 <= 254)).
  { intros gl Hl Hb.
    assert (Hj8 : 8 <= j).
    { destruct Hl as (_ & _ & _ & _ & _ & Ej & _). cbn [pad3 gr_bits gr_rest] in *.
      rewrite app_length in Ej. cbn [length] in Ej. lia. }
    pose proof (gr_fast_bit_refines (pad3 gl) R D j p Hl Hb HR Hp Hj8) as H.
    destruct (aget p (R, D, j)) as [b [[R2 D2] j2]]. destruct H as (g' & E & H1 & H2 & _ & _).
    rewrite fast_bit_pad in E. injection E as Eb Eg.
    exists (snd (gr_fast_bit p gl)). cbn [fst snd]. split.
    - rewrite <- Eb. destruct (gr_fast_bit p gl); reflexivity.
    - rewrite Eg. split; assumption. }
  destruct (gr_bits g <? 0) eqn:Eb.
  - apply Z.ltb_lt in Eb. cbn [andb] in Hno.
    assert (Hne : gr_rest g <> []) by (destruct (gr_rest g); [discriminate|discriminate]).
    destruct (load_pad g R D j Hrel Eb ltac:(lia) Hne) as [Hl Hb]. apply Hstep; assumption.
  - apply Z.ltb_ge in Eb. apply Hstep; assumption.
Qed.

(** * The abstract decoder over [d] and over [d ++ ext] *)
Lemma aget_prefix R Dr j e X p : 128 <= R <= 255 -> 0 <= p <= 255 -> 24 <= j -> 0 <= e -> 0 <= X < 2 ^ e ->
  aget p (R, (Dr * 2 ^ 24) * 2 ^ e + X * 2 ^ 24, j + e) =
  (fst (aget p (R, Dr * 2 ^ 24, j)),
   (let '(R2, D2, j2) := snd (aget p (R, Dr * 2 ^ 24, j)) in (R2, D2 * 2 ^ e + X * 2 ^ 24, j2 + e))).
Proof.
  intros HR Hp Hj He HX. unfold aget. set (s := nsplit R p).
  pose proof (nsplit_bounds R p HR Hp) as Hs. fold s in Hs.
  replace (2 ^ (j + e)) with (2 ^ (j - 24) * 2 ^ 24 * 2 ^ e)
    by (rewrite <- !Z.pow_add_r by lia; f_equal; lia).
  replace (2 ^ j) with (2 ^ (j - 24) * 2 ^ 24) by (rewrite <- Z.pow_add_r by lia; f_equal; lia).
  set (T := 2 ^ 24). set (E := 2 ^ e) in *. set (J := 2 ^ (j - 24)).
  assert (HT : 0 < T) by reflexivity.
  assert (HE : 0 < E) by (apply Z.pow_pos_nonneg; lia).
  assert (HJ : 0 < J) by (apply Z.pow_pos_nonneg; lia).
  assert (Hdec : (s * (J * T * E) <=? Dr * T * E + X * T) = (s * (J * T) <=? Dr * T)).
  { destruct (Z.leb_spec (s * (J * T)) (Dr * T)) as [H1|H1];
      destruct (Z.leb_spec (s * (J * T * E)) (Dr * T * E + X * T)) as [H2|H2]; try reflexivity; exfalso.
    - assert (s * J <= Dr) by nia. nia.
    - assert (Dr < s * J) by nia. assert (Dr + 1 <= s * J) by lia.
      assert (Dr * E + X < s * J * E) by nia. nia. }
  rewrite Hdec. set (b := s * (J * T) <=? Dr * T).
  destruct (norm_loop 8 (if b then R - s else s) 0) as [R2 sh]. cbn [fst snd].
  f_equal. f_equal; [f_equal|lia]. destruct b; ring.
Qed.

(** * Two readers, over [l] and over [l ++ ext] *)
Definition gsim (g g' : greader) : Prop :=
  exists R Dr j e X,
    grel (pad3 g) R (Dr * 2 ^ 24) j /\ grel (pad3 g') R ((Dr * 2 ^ 24) * 2 ^ e + X * 2 ^ 24) (j + e) /\
    128 <= R <= 255 /\ 0 <= e /\ 0 <= X < 2 ^ e.

Lemma pad_j g R D j : grel (pad3 g) R D j -> j = gr_bits g + 8 * Z.of_nat (length (gr_rest g)) + 24 /\ -8 <= gr_bits g.
Proof.
  intros (_ & _ & _ & HB & _ & Ej & _). cbn [pad3 gr_bits gr_rest] in *. rewrite app_length in Ej. cbn [length] in Ej.
  split; lia.
Qed.

Lemma no_eof_j g R D j : grel (pad3 g) R D j -> (gr_bits g <? 0) && is_nil (gr_rest g) = false -> 24 <= j.
Proof.
  intros Hrel Hno. destruct (pad_j g R D j Hrel) as [-> HB].
  destruct (gr_rest g) as [|b tl]; cbn [is_nil length] in *; [rewrite andb_true_r in Hno; lia|lia].
Qed.

Lemma j_no_eof g R D j : grel (pad3 g) R D j -> 24 <= j -> (gr_bits g <? 0) && is_nil (gr_rest g) = false.
Proof.
  intros Hrel Hj. destruct (pad_j g R D j Hrel) as [-> HB].
  destruct (gr_rest g) as [|b tl]; cbn [is_nil length] in *; [rewrite andb_true_r; lia|apply andb_false_r].
Qed.

Lemma sim_bit g g' p b g1 : gsim g g' -> 0 <= p <= 255 ->
  (gr_bits g <? 0) && is_nil (gr_rest g) = false -> gr_bit p g = (b, g1) ->
  exists g1', gr_bit p g' = (b, g1') /\ gsim g1 g1'.
Proof.
  intros (R & Dr & j & e & X & Hr & Hr' & HR & He & HX) Hp Hno E.
  pose proof (no_eof_j _ _ _ _ Hr Hno) as Hj.
  assert (Hno' : (gr_bits g' <? 0) && is_nil (gr_rest g') = false) by (apply (j_no_eof _ _ _ _ Hr'); lia).
  destruct (bit_pad g R _ j p Hr HR Hp Hno) as (ga & Ea & Ha).
  destruct (bit_pad g' R _ (j + e) p Hr' HR Hp Hno') as (gb & Eb & Hb).
  rewrite (aget_prefix R Dr j e X p HR Hp Hj He HX) in Eb, Hb. cbn [fst snd] in Eb, Hb.
  rewrite E in Ea. injection Ea as -> ->.
  exists gb. split; [exact Eb|].
  destruct (snd (aget p (R, Dr * 2 ^ 24, j))) as [[R2 D2] j2] eqn:Es.
  destruct Ha as [Ha HR2]. destruct Hb as [Hb _].
  (* the new abstract value is again a multiple of 2^24 *)
  assert (Hm : exists Dr2, D2 = Dr2 * 2 ^ 24).
  { unfold aget in Es. set (s := nsplit R p) in *.
    replace (2 ^ j) with (2 ^ (j - 24) * 2 ^ 24) in Es by (rewrite <- Z.pow_add_r by lia; f_equal; lia).
    destruct (norm_loop 8 _ 0) as [r2 sh] in Es. cbn [snd] in Es. injection Es as _ <- _.
    change (Z.pow_pos 2 24) with (2 ^ 24).
    destruct (s * (2 ^ (j - 24) * 2 ^ 24) <=? Dr * 2 ^ 24); [exists (Dr - s * 2 ^ (j - 24)); ring|exists Dr; reflexivity]. }
  destruct Hm as [Dr2 ->].
  exists R2, Dr2, j2, e, X. split; [exact Ha|]. split; [exact Hb|]. split; [lia|]. split; [exact He|exact HX].
Qed.

(** * Decoding strategies *)
Inductive prog : Type :=
| Done
| Bit (p : Z) (k : bool -> prog).

Fixpoint prog_ok (pr : prog) : Prop :=
  match pr with
  | Done => True
  | Bit p k => 0 <= p <= 255 /\ forall b, prog_ok (k b)
  end.

Fixpoint run (pr : prog) (g : greader) : list bool * greader :=
  match pr with
  | Done => ([], g)
  | Bit p k => let '(b, g1) := gr_bit p g in let '(bs, g2) := run (k b) g1 in (b :: bs, g2)
  end.

Lemma run_eof_mono : forall pr g, gr_eof g = true -> gr_eof (snd (run pr g)) = true.
Proof.
  induction pr as [|p k IH]; intros g H; cbn [run]; [exact H|].
  pose proof (gr_bit_eof p g) as E. destruct (gr_bit p g) as [b g1]. cbn [snd] in E.
  rewrite H in E. cbn [orb] in E. specialize (IH b g1 E). destruct (run (k b) g1). exact IH.
Qed.

Lemma gsim_eof g g' : gsim g g' -> gr_eof g' = false.
Proof. intros (R & Dr & j & e & X & _ & (_ & _ & _ & _ & _ & _ & _ & H) & _). exact H. Qed.

Lemma run_sim : forall pr g g' bs g1, gsim g g' -> prog_ok pr ->
  run pr g = (bs, g1) -> gr_eof g1 = false ->
  exists g1', run pr g' = (bs, g1') /\ gr_eof g1' = false.
Proof.
  induction pr as [|p k IH]; intros g g' bs g1 Hs Hok E Hf; cbn [run] in *.
  - injection E as <- <-. exists g'. split; [reflexivity|apply (gsim_eof _ _ Hs)].
  - destruct Hok as [Hp Hk].
    destruct (gr_bit p g) as [b gm] eqn:Eb. destruct (run (k b) gm) as [bs' g2] eqn:Er. injection E as <- <-.
    assert (Hfm : gr_eof gm = false).
    { destruct (gr_eof gm) eqn:Em; [|reflexivity].
      pose proof (run_eof_mono (k b) gm Em) as Hm. rewrite Er in Hm. cbn [snd] in Hm. congruence. }
    assert (Hno : (gr_bits g <? 0) && is_nil (gr_rest g) = false).
    { pose proof (gr_bit_eof p g) as Ee. rewrite Eb in Ee. cbn [snd] in Ee. rewrite Hfm in Ee.
      symmetry in Ee. apply orb_false_iff in Ee. apply Ee. }
    destruct (sim_bit g g' p b gm Hs Hp Hno Eb) as (gm' & Eb' & Hsm).
    rewrite Eb'. destruct (IH b gm gm' bs' g2 Hsm (Hk b) Er Hf) as (g2' & Er' & Hf').
    rewrite Er'. exists g2'. split; [reflexivity|exact Hf'].
Qed.

(** * The freshly created readers are related *)
Lemma bval_zeros3 l : bval (l ++ [0; 0; 0]) = bval l * 2 ^ 24.
Proof. rewrite bval_app. cbn [length bval]. change (8 * Z.of_nat 3) with 24. cbn. lia. Qed.

Lemma init_sim l ext : Forall is_byte l -> Forall is_byte ext -> l <> [] ->
  bval l < 255 * 2 ^ (8 * (Z.of_nat (length l) - 1)) ->
  gsim (gr_init l) (gr_init (l ++ ext)).
Proof.
  intros Hl He Hne Hff.
  pose proof (bval_bound l Hl) as Bl. pose proof (bval_bound ext He) as Be.
  assert (Hm : 1 <= Z.of_nat (length l)) by (destruct l; [contradiction|cbn [length]; lia]).
  remember (Z.of_nat (length l)) as m eqn:Em. remember (Z.of_nat (length ext)) as n eqn:En.
  assert (Hn : 0 <= n) by lia.
  assert (Hz : Forall is_byte [0; 0; 0]) by (repeat constructor; unfold is_byte; lia).
  exists 255, (bval l), (8 * m + 16), (8 * n), (bval ext).
  assert (P24 : 0 < 2 ^ 24) by reflexivity.
  assert (Pn : 0 < 2 ^ (8 * n)) by (apply Z.pow_pos_nonneg; lia).
  assert (Pm1 : 0 < 2 ^ (8 * (m - 1))) by (apply Z.pow_pos_nonneg; lia).
  assert (Ej : 2 ^ (8 * m + 16) = 2 ^ (8 * (m - 1)) * 2 ^ 24) by (rewrite <- Z.pow_add_r by lia; f_equal; lia).
  assert (L3 : Z.of_nat (length (l ++ [0; 0; 0])) = m + 3) by (rewrite app_length, Nat2Z.inj_add, <- Em; reflexivity).
  assert (L4 : Z.of_nat (length ((l ++ ext) ++ [0; 0; 0])) = m + n + 3)
    by (rewrite !app_length, !Nat2Z.inj_add, <- Em, <- En; reflexivity).
  split; [|split; [|split; [lia|split; [lia|exact Be]]]].
  - unfold grel, pad3, gr_init. cbn [gr_range gr_rest gr_value gr_bits gr_eof].
    split; [reflexivity|]. split; [apply Forall_app; split; assumption|]. split; [lia|]. split; [lia|].
    rewrite bval_zeros3, L3.
    split; [ring|]. split; [lia|]. split; [|reflexivity]. rewrite Ej.
    set (W := 2 ^ (8 * (m - 1))) in *. set (T := 2 ^ 24) in *. clear - Hff Bl P24 Pm1. nia.
  - unfold grel, pad3, gr_init. cbn [gr_range gr_rest gr_value gr_bits gr_eof].
    split; [reflexivity|]. split; [repeat (apply Forall_app; split); assumption|]. split; [lia|]. split; [lia|].
    rewrite bval_zeros3, bval_app, L4, <- En.
    split; [ring|]. split; [lia|]. split; [|reflexivity].
    replace (8 * m + 16 + 8 * n) with ((8 * m + 16) + 8 * n) by lia. rewrite Z.pow_add_r by lia. rewrite Ej.
    set (W := 2 ^ (8 * (m - 1))) in *. set (T := 2 ^ 24) in *. set (E := 2 ^ (8 * n)) in *.
    clear - Hff Bl Be P24 Pm1 Pn. nia.
Qed.

Lemma sim_load g g' : gsim g g' -> gr_bits g < 0 -> gr_rest g <> [] -> gr_bits g' < 0 -> gr_rest g' <> [] ->
  gsim (gr_load g) (gr_load g').
Proof.
  intros (R & Dr & j & e & X & Hr & Hr' & HR & He & HX) Hb Hn Hb' Hn'.
  exists R, Dr, j, e, X.
  split; [apply (load_pad g R _ j Hr Hb ltac:(lia) Hn)|].
  split; [apply (load_pad g' R _ (j + e) Hr' Hb' ltac:(lia) Hn')|]. auto.
Qed.

(** * The statement *)
(** Hypothesis on the data: it is a non-empty byte string whose first byte is not
    0xFF (the arithmetic decoder's invariant value < range; every stream the
    boolean encoder writes satisfies it).  For every strategy: if NewBoolReader(l)
    followed by the reads ends with EOF() == false, then NewBoolReader(l ++ ext)
    followed by the same reads returns the same bits, EOF() == false. *)
Theorem go_bool_reader_prefix_stable : forall pr l ext bs g1,
  Forall is_byte l -> Forall is_byte ext -> l <> [] ->
  bval l < 255 * 2 ^ (8 * (Z.of_nat (length l) - 1)) -> prog_ok pr ->
  run pr (gr_new l) = (bs, g1) -> gr_eof g1 = false ->
  exists g1', run pr (gr_new (l ++ ext)) = (bs, g1') /\ gr_eof g1' = false.
Proof.
  intros pr l ext bs g1 Hl He Hne Hff Hok E Hf.
  apply (run_sim pr (gr_new l) (gr_new (l ++ ext)) bs g1); try assumption.
  unfold gr_new. apply sim_load.
  - apply init_sim; assumption.
  - cbn. lia.
  - exact Hne.
  - cbn. lia.
  - cbn [gr_init gr_rest]. destruct l; [contradiction|discriminate].
Qed.

(** The flag is what makes the difference: without it the reader is not
    prefix-stable (one byte 0x00, twelve reads at probability 128; the 0xFF appended
    changes the 9th bit, and the run over the single byte ends with the flag set). *)
Fixpoint lit (n : nat) : prog := match n with O => Done | S m => Bit 128 (fun _ => lit m) end.

Theorem go_bool_reader_past_end_differs :
  fst (run (lit 12) (gr_new [0])) <> fst (run (lit 12) (gr_new [0; 255])) /\
  gr_eof (snd (run (lit 12) (gr_new [0]))) = true.
Proof. vm_compute. split; [discriminate|reflexivity]. Qed.
