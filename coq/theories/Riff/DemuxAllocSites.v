(** C05: the audited allocation sites of the decoding paths.  Every make / new /
    image.New* call of webp.go, internal/container, mux/demux.go + chunk.go, the decoding
    and playback functions of animation, the decoder files of internal/lossless and
    internal/lossy, the bit readers and internal/pool, with the class of its size bound and
    the guard that establishes it (read off the source; the audit is part of the trusted
    base).  The translator regenerates the site list on every run (Gen/Allocs.v);
    [Properties/C05.v] proves that it is exactly this list, so a new, removed or changed
    allocation in a decoder fails the check until it has been audited here.

    classes: pixels = linear in a pixel count that was validated against the documented
    limit before the allocation; input = linear in the input length; frames = at most
    maxFrames; alphabet / const = bounded by a format constant; capped = explicit byte cap;
    caller = size handed in by one of the other sites. *)
From Coq Require Import List String.
Import ListNotations.
Open Scope string_scope.

Definition audited_alloc_sites : list ((string * string * string) * (string * string)) :=
[
  (("animation/animation.go", "DecodeBytes", "make([]Frame, n)"), ("frames", "n = Demuxer.NumFrames() <= maxFrames (C05_demux_total_and_well_formed)"));
  (("animation/animation.go", "DecodeFramesParallel", "make(chan int, len(toDecodeIdx))"), ("frames", "channel capacity = number of frames <= maxFrames"));
  (("animation/animation.go", "DecodeFramesParallel", "make(chan decodeResult, len(toDecodeIdx))"), ("frames", "channel capacity = number of frames <= maxFrames"));
  (("animation/animation.go", "NewAnimDecoder", "image.NewNRGBA(bounds)"), ("pixels", "canvas area <= maxCanvasArea = 2^30 checked in NewAnimDecoder before the allocation"));
  (("animation/animation.go", "NewAnimDecoder", "image.NewNRGBA(bounds)"), ("pixels", "canvas area <= maxCanvasArea = 2^30 checked in NewAnimDecoder before the allocation"));
  (("animation/animation.go", "NextFrame", "image.NewNRGBA(d.currFrame.Bounds())"), ("pixels", "snapshot of the canvas allocated by NewAnimDecoder (same bounds)"));
  (("animation/frame.go", "toNRGBA", "image.NewNRGBA(image.Rect(0, 0, b.Dx(), b.Dy()))"), ("pixels", "bounds of an image already decoded / supplied by the caller"));
  (("internal/container/parser.go", "copyBytes", "make([]byte, len(b))"), ("input", "len(b) where b is a sub-slice of the input"));
  (("internal/container/riff.go", "ReadChunk", "make([]byte, padded)"), ("capped", "payloadSize <= MaxReadChunkSize (256 MB) checked just before"));
  (("internal/lossless/colorcache.go", "NewColorCache", "make([]uint32, size)"), ("const", "size = 1 << bits, bits validated in 1..11: <= 2048 entries"));
  (("internal/lossless/decode.go", "DecodeVP8L", "make([]HuffmanCode, huffSlabSize)"), ("pixels", "huffSlabSize is a constant; needed / numAlloc <= 2 * (w*h) + 17*w after the guard w*h <= 2^30 (w, h <= 2^14 from the 14-bit header fields)"));
  (("internal/lossless/decode.go", "DecodeVP8L", "make([]uint32, needed)"), ("pixels", "huffSlabSize is a constant; needed / numAlloc <= 2 * (w*h) + 17*w after the guard w*h <= 2^30 (w, h <= 2^14 from the 14-bit header fields)"));
  (("internal/lossless/decode.go", "DecodeVP8L", "make([]uint32, numAlloc)"), ("pixels", "huffSlabSize is a constant; needed / numAlloc <= 2 * (w*h) + 17*w after the guard w*h <= 2^30 (w, h <= 2^14 from the 14-bit header fields)"));
  (("internal/lossless/decode.go", "decodeImageStream", "make([]uint32, size)"), ("const", "size = 1 << colorCacheBits, colorCacheBits validated in 1..11"));
  (("internal/lossless/decode.go", "decodeSubImage", "make([]uint32, totalSize)"), ("pixels", "xsize*ysize <= 2^30 checked before (sub-image dimensions are sub-samplings of the validated image dimensions); recursion depth capped"));
  (("internal/lossless/decode.go", "argbToNRGBA", "image.NewNRGBA(image.Rect(0, 0, width, height))"), ("pixels", "validated image dimensions"));
  (("internal/lossless/decode_image.go", "readHuffmanCodeLengths", "make([]int, numSymbols)"), ("alphabet", "numSymbols <= alphabet size <= 256+24+2048"));
  (("internal/lossless/decode_image.go", "readHuffmanCode", "make([]int, alphabetSize)"), ("alphabet", "alphabetSize <= 256+24+2048"));
  (("internal/lossless/decode_image.go", "readHuffmanCodes", "make([]int, numHTreeGroupsMax)"), ("const", "group indices are 16-bit: numHTreeGroupsMax <= 65536; numHTreeGroups <= numHTreeGroupsMax"));
  (("internal/lossless/decode_image.go", "readHuffmanCodes", "make([]HTreeGroup, numHTreeGroups)"), ("const", "group indices are 16-bit: numHTreeGroupsMax <= 65536; numHTreeGroups <= numHTreeGroupsMax"));
  (("internal/lossless/decode_transform.go", "expandColorMap", "make([]uint32, finalNumColors)"), ("const", "finalNumColors = 1 << (8 >> bits) <= 256"));
  (("internal/lossless/decode_transform.go", "argbSliceToBytes", "make([]uint8, len(s)*4)"), ("pixels", "4 * length of a pixel buffer already allocated"));
  (("internal/lossless/decode_transform.go", "applyInverseTransforms", "make([]uint32, numPix)"), ("pixels", "numPix = validated w*h"));
  (("internal/lossless/huffman.go", "BuildHuffmanTableScratch", "make([]HuffmanCode, totalSize)"), ("alphabet", "table size / sorted array bounded by the alphabet size and the fixed root-table bits"));
  (("internal/lossless/huffman.go", "BuildHuffmanTableScratch", "make([]uint16, codeLengthsSize)"), ("alphabet", "table size / sorted array bounded by the alphabet size and the fixed root-table bits"));
  (("internal/lossy/alpha.go", "DecodeAlpha", "make([]byte, planeSize)"), ("pixels", "planeSize = w*h with w*h <= 2^30 checked first; the raw branch also requires len(payload) >= planeSize"));
  (("internal/lossy/alpha.go", "DecodeAlpha", "make([]byte, planeSize)"), ("pixels", "planeSize = w*h with w*h <= 2^30 checked first; the raw branch also requires len(payload) >= planeSize"));
  (("internal/lossy/alpha.go", "alphaVP8LStream", "make([]byte, lossless.VP8LHeaderSize+len(payload))"), ("input", "5 + len(payload)"));
  (("internal/lossy/decode.go", "initFrame", "make([]TopSamples, mbW)"), ("pixels", "mbW = ceil(w/16) <= 1024 (14-bit width); slab: cache rows checked <= 2^28 and slabSize64 <= 2^30 before the allocation"));
  (("internal/lossy/decode.go", "initFrame", "make([]MB, mbW+1)"), ("pixels", "mbW = ceil(w/16) <= 1024 (14-bit width); slab: cache rows checked <= 2^28 and slabSize64 <= 2^30 before the allocation"));
  (("internal/lossy/decode.go", "initFrame", "make([]FInfo, mbW)"), ("pixels", "mbW = ceil(w/16) <= 1024 (14-bit width); slab: cache rows checked <= 2^28 and slabSize64 <= 2^30 before the allocation"));
  (("internal/lossy/decode.go", "initFrame", "make([]MBData, mbW)"), ("pixels", "mbW = ceil(w/16) <= 1024 (14-bit width); slab: cache rows checked <= 2^28 and slabSize64 <= 2^30 before the allocation"));
  (("internal/lossy/decode.go", "initFrame", "make([]byte, slabSize)"), ("pixels", "mbW = ceil(w/16) <= 1024 (14-bit width); slab: cache rows checked <= 2^28 and slabSize64 <= 2^30 before the allocation"));
  (("internal/pool/pool.go", "init", "make([]byte, sz)"), ("const", "fixed bucket sizes"));
  (("internal/pool/pool.go", "Get", "make([]byte, size)"), ("caller", "size requested by a decoder site listed here"));
  (("internal/pool/pool.go", "GetInt16", "make([]int16, length)"), ("caller", "length requested by a decoder site listed here"));
  (("internal/pool/pool.go", "GetInt32", "make([]int32, length)"), ("caller", "length requested by a decoder site listed here"));
  (("internal/pool/pool.go", "GetUint32", "make([]uint32, length)"), ("caller", "length requested by a decoder site listed here"));
  (("webp.go", "readAll", "make([]byte, n)"), ("capped", "n <= MaxInputSize (256 MB) checked before"));
  (("webp.go", "decodeFrameForAnimation", "image.NewNRGBA(image.Rect(0, 0, b.Dx(), b.Dy()))"), ("pixels", "bounds of the decoded frame"));
  (("webp.go", "ycbcrToNRGBA", "image.NewNRGBA(image.Rect(0, 0, w, h))"), ("pixels", "bounds of the decoded frame"));
  (("webp.go", "buildYCbCr", "make([]byte, yLen+2*cLen)"), ("pixels", "plane sizes of the decoded VP8 frame (14-bit dimensions)"));
  (("webp.go", "buildNRGBA", "image.NewNRGBA(image.Rect(0, 0, width, height))"), ("pixels", "dimensions of the decoded VP8 frame (14-bit dimensions)"))
].

Definition bound_classes : list string := ["pixels"; "input"; "frames"; "alphabet"; "const"; "capped"; "caller"].

(** every audited site carries one of the bound classes (none is "unbounded") *)
Lemma audited_classes_ok :
  forallb (fun e => existsb (String.eqb (fst (snd e))) bound_classes) audited_alloc_sites = true.
Proof. vm_compute. reflexivity. Qed.
