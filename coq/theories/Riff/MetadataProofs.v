(** C15 — what the RIFF writer of encode.go produces, read back by the
    specification walker (chunk lookup by id, well-formedness) and by the parser
    model, for every image bitstream, alpha payload and ICC / EXIF / XMP blobs. *)
From Coq Require Import List ZArith Lia Bool.
From Coq Require Import ZifyBool ZifyNat.
From Webp Require Import Base.Res Base.Bytes Riff.ParserModel Riff.ParserLemmas Riff.ParserSpec
     Riff.WriterModel Riff.WriterProofs Riff.FeaturesModel.
Import ListNotations.
Open Scope Z_scope.

(** [Encode] uses [len(blob) > 0]: an empty blob is "absent". *)
Definition opt_blob (d : list Z) : option (list Z) := if len d >? 0 then Some d else None.

Definition vp8x_payload (flags w h : Z) : list Z := le32 flags ++ le24 (w - 1) ++ le24 (h - 1).

Definition written_body (fourcc : Z) (bs alpha : list Z) (w h : Z) (icc exif xmp : list Z) : list Z :=
  vp8x_chunk (vp8x_flags fourcc bs alpha icc exif xmp) w h
  ++ opt_chunk FourCCICCP icc ++ opt_chunk FourCCALPH alpha ++ chunk fourcc bs
  ++ opt_chunk FourCCEXIF exif ++ opt_chunk FourCCXMP xmp.

Definition written_chunks (fourcc : Z) (bs alpha : list Z) (w h : Z) (icc exif xmp : list Z)
  : list (Z * list Z) :=
  (FourCCVP8X, vp8x_payload (vp8x_flags fourcc bs alpha icc exif xmp) w h)
  :: opt_entry FourCCICCP icc ++ opt_entry FourCCALPH alpha ++ (fourcc, bs)
  :: opt_entry FourCCEXIF exif ++ opt_entry FourCCXMP xmp.

(** What the caller must guarantee (Encode does): total size below the RIFF
    limit -- exactly the code's own guard. *)
Definition sizes_ok (bs alpha icc exif xmp : list Z) : Prop :=
  riff_size_extended bs alpha icc exif xmp <= 4294967295 - 8.

Lemma vp8x_chunk_is_chunk flags w h :
  vp8x_chunk flags w h = chunk FourCCVP8X (vp8x_payload flags w h).
Proof. reflexivity. Qed.

Lemma len_vp8x_chunk flags w h : len (vp8x_chunk flags w h) = 18.
Proof. reflexivity. Qed.

Lemma riff_size_is_body fourcc bs alpha w h icc exif xmp :
  riff_size_extended bs alpha icc exif xmp = 4 + len (written_body fourcc bs alpha w h icc exif xmp).
Proof.
  unfold riff_size_extended, written_body.
  rewrite !len_app, len_vp8x_chunk, !len_opt_chunk, len_chunk.
  unfold ChunkHeaderSize, VP8XChunkSize. lia.
Qed.

Lemma opt_size_bounds d : 0 <= opt_size d /\ (opt_size d) mod 2 = 0 /\ len d <= opt_size d.
Proof.
  unfold opt_size, padded_chunk_size, ChunkHeaderSize. pose proof (len_nonneg d).
  destruct (Z.gtb_spec (len d) 0); lia.
Qed.

Lemma riff_size_even bs alpha icc exif xmp : (riff_size_extended bs alpha icc exif xmp) mod 2 = 0.
Proof.
  unfold riff_size_extended, padded_chunk_size, ChunkHeaderSize, VP8XChunkSize.
  pose proof (opt_size_bounds icc). pose proof (opt_size_bounds alpha).
  pose proof (opt_size_bounds exif). pose proof (opt_size_bounds xmp). pose proof (len_nonneg bs). lia.
Qed.

(** The writer's own guard is exactly [sizes_ok]. *)
Theorem riff_size_guard_complete fourcc bs alpha w h icc exif xmp :
  (sizes_ok bs alpha icc exif xmp <->
   exists file, write_riff_extended fourcc bs alpha w h icc exif xmp = Ok file) /\
  (~ sizes_ok bs alpha icc exif xmp <->
   write_riff_extended fourcc bs alpha w h icc exif xmp = Err EWriteTooLarge).
Proof.
  unfold sizes_ok, write_riff_extended.
  destruct (Z.gtb_spec (riff_size_extended bs alpha icc exif xmp) (4294967295 - 8)); split; split;
    intros H'; try lia; try discriminate; eauto.
  - destruct H' as [? H']. discriminate.
Qed.

Lemma write_extended_eq fourcc bs alpha w h icc exif xmp :
  sizes_ok bs alpha icc exif xmp ->
  write_riff_extended fourcc bs alpha w h icc exif xmp =
  Ok (le32 FourCCRIFF ++ le32 (riff_size_extended bs alpha icc exif xmp) ++ le32 FourCCWEBP
      ++ written_body fourcc bs alpha w h icc exif xmp).
Proof.
  unfold sizes_ok, write_riff_extended. intros H.
  destruct (Z.gtb_spec (riff_size_extended bs alpha icc exif xmp) (4294967295 - 8)); [lia|]. reflexivity.
Qed.

(** The pre-sized buffer of writeRIFFExtended is exactly filled: the bytes written
    are 8 + riffSize long, as [make([]byte, 8+riffSize)] assumes. *)
Theorem write_extended_length fourcc bs alpha w h icc exif xmp file :
  write_riff_extended fourcc bs alpha w h icc exif xmp = Ok file ->
  len file = 8 + riff_size_extended bs alpha icc exif xmp /\ len file mod 2 = 0.
Proof.
  intros Hw.
  assert (Hs : sizes_ok bs alpha icc exif xmp).
  { apply (riff_size_guard_complete fourcc bs alpha w h icc exif xmp). eauto. }
  assert (Hf : file = le32 FourCCRIFF ++ le32 (riff_size_extended bs alpha icc exif xmp) ++ le32 FourCCWEBP
                      ++ written_body fourcc bs alpha w h icc exif xmp).
  { rewrite write_extended_eq in Hw by exact Hs. congruence. }
  subst file.
  rewrite !len_app, !len_le32. rewrite (riff_size_is_body fourcc bs alpha w h icc exif xmp).
  split; [lia|].
  pose proof (riff_size_even bs alpha icc exif xmp) as He.
  rewrite (riff_size_is_body fourcc bs alpha w h icc exif xmp) in He. lia.
Qed.

(** ** The specification walker on the written body *)
Lemma fourcc_ranges :
  0 <= FourCCVP8X < 4294967296 /\ 0 <= FourCCICCP < 4294967296 /\ 0 <= FourCCALPH < 4294967296 /\
  0 <= FourCCEXIF < 4294967296 /\ 0 <= FourCCXMP < 4294967296 /\ 0 <= FourCCVP8 < 4294967296 /\
  0 <= FourCCVP8L < 4294967296 /\ 0 <= FourCCRIFF < 4294967296 /\ 0 <= FourCCWEBP < 4294967296.
Proof. unfold FourCCVP8X, FourCCICCP, FourCCALPH, FourCCEXIF, FourCCXMP, FourCCVP8, FourCCVP8L, FourCCRIFF, FourCCWEBP. lia. Qed.

Lemma sizes_ok_each bs alpha icc exif xmp :
  sizes_ok bs alpha icc exif xmp ->
  len bs < 4294967286 /\ len alpha < 4294967286 /\ len icc < 4294967286 /\
  len exif < 4294967286 /\ len xmp < 4294967286.
Proof.
  unfold sizes_ok, riff_size_extended, padded_chunk_size, ChunkHeaderSize, VP8XChunkSize.
  pose proof (opt_size_bounds icc). pose proof (opt_size_bounds alpha).
  pose proof (opt_size_bounds exif). pose proof (opt_size_bounds xmp). pose proof (len_nonneg bs). lia.
Qed.

Lemma walk_written_body fourcc bs alpha w h icc exif xmp :
  sizes_ok bs alpha icc exif xmp -> 0 <= fourcc < 4294967296 ->
  walk (S (length (written_body fourcc bs alpha w h icc exif xmp)))
       (written_body fourcc bs alpha w h icc exif xmp)
  = Some (written_chunks fourcc bs alpha w h icc exif xmp).
Proof.
  intros Hs Hf. destruct (sizes_ok_each _ _ _ _ _ Hs) as (Hbs & Hal & Hic & Hex & Hxm).
  destruct fourcc_ranges as (HX & HI & HA & HE & HM & _).
  apply (walk_fuel_mono 6).
  - unfold written_body, written_chunks. rewrite vp8x_chunk_is_chunk.
    apply walk_chunk_some; [exact HX|reflexivity|].
    apply walk_opt_some; [exact HI|lia|].
    apply walk_opt_some; [exact HA|lia|].
    apply walk_chunk_some; [exact Hf|lia|].
    apply walk_opt_some; [exact HE|lia|].
    rewrite <- (app_nil_r (opt_chunk FourCCXMP xmp)). rewrite <- (app_nil_r (opt_entry FourCCXMP xmp)).
    apply walk_opt_some; [exact HM|lia|]. reflexivity.
  - assert (18 <= len (written_body fourcc bs alpha w h icc exif xmp)).
    { unfold written_body. rewrite len_app, len_vp8x_chunk.
      pose proof (len_nonneg (opt_chunk FourCCICCP icc ++ opt_chunk FourCCALPH alpha ++ chunk fourcc bs ++
                              opt_chunk FourCCEXIF exif ++ opt_chunk FourCCXMP xmp)). lia. }
    unfold len in *. lia.
Qed.

Lemma riff_chunks_written fourcc bs alpha w h icc exif xmp file :
  sizes_ok bs alpha icc exif xmp -> 0 <= fourcc < 4294967296 ->
  write_riff_extended fourcc bs alpha w h icc exif xmp = Ok file ->
  riff_chunks file = Some (written_chunks fourcc bs alpha w h icc exif xmp).
Proof.
  intros Hs Hf Hw.
  assert (Hfile : file = le32 FourCCRIFF ++ le32 (riff_size_extended bs alpha icc exif xmp) ++ le32 FourCCWEBP
                      ++ written_body fourcc bs alpha w h icc exif xmp).
  { rewrite write_extended_eq in Hw by exact Hs. congruence. }
  subst file. clear Hw.
  destruct fourcc_ranges as (_ & _ & _ & _ & _ & _ & _ & HR & HW).
  set (body := written_body fourcc bs alpha w h icc exif xmp).
  set (rs := riff_size_extended bs alpha icc exif xmp).
  assert (Hrs : rs = 4 + len body) by apply riff_size_is_body.
  assert (Hrs0 : 0 <= rs < 4294967296).
  { unfold sizes_ok in Hs. fold rs in Hs. pose proof (len_nonneg body). lia. }
  unfold le32. cbn [app riff_chunks].
  rewrite !rd32_le32' by assumption. rewrite !Z.eqb_refl. cbn [andb].
  rewrite !len_cons.
  destruct (Z.eqb_spec rs (1 + (1 + (1 + (1 + (1 + (1 + (1 + (1 + (1 + (1 + (1 + (1 + len body))))))))))) - 8));
    [|lia].
  apply walk_written_body; assumption.
Qed.

(** ** Read-back by chunk id and VP8X flags *)
Definition image_fourcc (fourcc : Z) : Prop := fourcc = FourCCVP8 \/ fourcc = FourCCVP8L.

Lemma image_fourcc_range fourcc : image_fourcc fourcc -> 0 <= fourcc < 4294967296.
Proof. intros [->| ->]; [unfold FourCCVP8|unfold FourCCVP8L]; lia. Qed.

Theorem metadata_roundtrip_extended fourcc bs alpha w h icc exif xmp file :
  image_fourcc fourcc -> sizes_ok bs alpha icc exif xmp ->
  write_riff_extended fourcc bs alpha w h icc exif xmp = Ok file ->
  spec_get_chunk file FourCCICCP = opt_blob icc /\
  spec_get_chunk file FourCCEXIF = opt_blob exif /\
  spec_get_chunk file FourCCXMP = opt_blob xmp /\
  spec_get_chunk file FourCCALPH = opt_blob alpha /\
  spec_get_chunk file fourcc = Some bs.
Proof.
  intros Hf Hs Hw. unfold spec_get_chunk.
  rewrite (riff_chunks_written _ _ _ _ _ _ _ _ _ Hs (image_fourcc_range _ Hf) Hw).
  unfold written_chunks, opt_entry, opt_blob.
  destruct (len icc >? 0), (len alpha >? 0), (len exif >? 0), (len xmp >? 0), Hf as [->| ->];
    repeat split; reflexivity.
Qed.

(** The VP8X flags byte announces exactly the blobs present (non-empty), the
    alpha bit is set iff an ALPH payload is written or the VP8L header carries
    alpha, the animation and reserved bits are clear. *)
Theorem flags_exact fourcc bs alpha icc exif xmp :
  let f := vp8x_flags fourcc bs alpha icc exif xmp in
  Z.testbit f 5 = (len icc >? 0) /\ Z.testbit f 3 = (len exif >? 0) /\ Z.testbit f 2 = (len xmp >? 0) /\
  Z.testbit f 4 = ((len alpha >? 0) || vp8l_alpha_bit fourcc bs) /\
  Z.testbit f 1 = false /\ Z.land f 4294967233 = 0 /\ 0 <= f < 64.
Proof.
  unfold vp8x_flags.
  destruct (len icc >? 0), (len exif >? 0), (len xmp >? 0), ((len alpha >? 0) || vp8l_alpha_bit fourcc bs);
    cbn; repeat split; lia.
Qed.

(** ** Well-formedness of the written file (specification side) *)
Lemma vp8l_alpha_bit_of_header bs w h a :
  parse_vp8l_header bs = Ok (w, h, a) -> vp8l_alpha_bit FourCCVP8L bs = a.
Proof.
  unfold parse_vp8l_header, vp8l_alpha_bit, VP8LFrameHeaderSize.
  destruct (Z.ltb_spec (len bs) 5) as [|Hl]; [discriminate|].
  destruct (Z.geb_spec (len bs) 5); [|lia]. rewrite Z.eqb_refl. cbn [andb].
  destruct bs as [|b0 [|b1 [|b2 [|b3 [|b4 tl]]]]]; try (exfalso; unfold len in Hl; cbn [length] in Hl; lia).
  unfold slice. cbn [length].
  destruct (Z.leb_spec 5 (Z.of_nat (S (S (S (S (S (length tl)))))))); [|lia].
  cbn [Z.leb andb bind]. change (Z.to_nat (5 - 0)) with 5%nat. change (Z.to_nat 0) with 0%nat.
  cbn [skipn firstn].
  change ((0 <=? 0) && (0 <=? 5) && true) with true. cbn [bind].
  destruct (b0 =? VP8LMagicByte); cbn [negb andb]; [|discriminate].
  destruct (negb ((rd32 [b1; b2; b3; b4] / 536870912) mod 8 =? 0)); [discriminate|].
  destruct ((rd32 [b1; b2; b3; b4] mod 16384 + 1 =? 0) || ((rd32 [b1; b2; b3; b4] / 16384) mod 16384 + 1 =? 0));
    [discriminate|].
  intros [= _ _ <-]. reflexivity.
Qed.

(** The image bitstream's header declares [w x h] (and alpha bit [a]). *)
Definition header_declares (fourcc : Z) (bs : list Z) (w h : Z) (a : bool) : Prop :=
  image_dims fourcc bs = Some (w, h, a).

Lemma header_declares_alpha fourcc bs w h a :
  image_fourcc fourcc -> header_declares fourcc bs w h a -> vp8l_alpha_bit fourcc bs = a.
Proof.
  unfold header_declares, image_dims. intros [->| ->].
  - change (FourCCVP8 =? FourCCVP8L) with false. change (FourCCVP8 =? FourCCVP8) with true.
    destruct (parse_vp8_header bs) as [[w' h']|e|]; try discriminate. intros [= _ _ <-]. reflexivity.
  - change (FourCCVP8L =? FourCCVP8L) with true.
    destruct (parse_vp8l_header bs) as [[[w' h'] a']|e|] eqn:E; try discriminate. intros [= -> -> ->].
    apply (vp8l_alpha_bit_of_header _ _ _ _ E).
Qed.

Theorem written_file_wf fourcc bs alpha w h icc exif xmp a file :
  image_fourcc fourcc -> sizes_ok bs alpha icc exif xmp ->
  header_declares fourcc bs w h a -> 1 <= w <= 16777216 -> 1 <= h <= 16777216 ->
  (len alpha > 0 -> fourcc = FourCCVP8) ->
  write_riff_extended fourcc bs alpha w h icc exif xmp = Ok file ->
  riff_wf file = true.
Proof.
  intros Hf Hs Hd Hw Hh Hal Hwr. unfold riff_wf.
  destruct (write_extended_length _ _ _ _ _ _ _ _ _ Hwr) as [_ He]. rewrite He. cbn [Z.eqb andb].
  rewrite (riff_chunks_written _ _ _ _ _ _ _ _ _ Hs (image_fourcc_range _ Hf) Hwr).
  pose proof (header_declares_alpha _ _ _ _ _ Hf Hd) as Hbit.
  unfold written_chunks, vp8x_payload, vp8x_flags. rewrite Hbit.
  assert (Hcw : 1 + rd24 (le24 (w - 1)) = w) by (unfold le24; rewrite rd24_le24'; lia).
  assert (Hch : 1 + rd24 (le24 (h - 1)) = h) by (unfold le24; rewrite rd24_le24'; lia).
  unfold header_declares in Hd.
  assert (Hfin : forall fl id,
    (fl = 16 * b2z ((len alpha >? 0) || a) + 32 * b2z (len icc >? 0) + 8 * b2z (len exif >? 0) + 4 * b2z (len xmp >? 0)) ->
    id = fourcc -> ((len alpha >? 0) = true -> id = FourCCVP8) ->
    still_layout_ok ((FourCCVP8X, le32 fl ++ le24 (w - 1) ++ le24 (h - 1))
      :: opt_entry FourCCICCP icc ++ opt_entry FourCCALPH alpha ++ (id, bs)
      :: opt_entry FourCCEXIF exif ++ opt_entry FourCCXMP xmp) = true).
  { intros fl id Hfl Hid Hal'. unfold opt_entry.
    assert (Hlay : forall f0, f0 = fl -> 0 <= f0 < 64 ->
       le32 f0 ++ le24 (w - 1) ++ le24 (h - 1) =
       [f0; 0; 0; 0; (w - 1) mod 256; ((w - 1) / 256) mod 256; ((w - 1) / 65536) mod 256;
        (h - 1) mod 256; ((h - 1) / 256) mod 256; ((h - 1) / 65536) mod 256]).
    { intros f0 _ Hr. unfold le32, le24. cbn [app].
      replace (f0 mod 256) with f0 by lia. replace ((f0 / 256) mod 256) with 0 by lia.
      replace ((f0 / 65536) mod 256) with 0 by lia. replace ((f0 / 16777216) mod 256) with 0 by lia. reflexivity. }
    unfold le24 in Hcw, Hch.
    destruct (len alpha >? 0) eqn:Ea.
    - rewrite (Hal' eq_refl) in *. cbn [orb b2z] in Hfl.
      destruct (len icc >? 0), (len exif >? 0), (len xmp >? 0); cbn [b2z] in Hfl;
        rewrite (Hlay fl eq_refl ltac:(lia)); subst fl; cbn [app];
        unfold still_layout_ok; cbn [take_opt];
        cbn -[image_dims rd24 Z.add Z.sub Z.div Z.modulo];
        rewrite <- Hid in Hd; rewrite Hd, Hcw, Hch, !Z.eqb_refl; destruct a; reflexivity.
    - cbn [orb] in Hfl. subst id.
      destruct Hf as [->| ->];
      destruct (len icc >? 0), (len exif >? 0), (len xmp >? 0), a; cbn [b2z] in Hfl;
        rewrite (Hlay fl eq_refl ltac:(lia)); subst fl; cbn [app];
        unfold still_layout_ok; cbn [take_opt];
        cbn -[image_dims rd24 Z.add Z.sub Z.div Z.modulo];
        rewrite Hd, Hcw, Hch, !Z.eqb_refl; reflexivity. }
  apply Hfin; [reflexivity|reflexivity|].
  intros Hgt. apply Hal. destruct (Z.gtb_spec (len alpha) 0); [lia|discriminate].
Qed.

