(** C16 views_agree across the two container parsers, animations: on the
    chunk shape that [RiffGrammar.wf] prescribes for an animated file
    (VP8X [ICCP] ANIM ANMF+ [EXIF] [XMP], every ANMF = 16-byte header + [ALPH] VP8 |
    VP8L), the model of internal/container.Parser and the model of mux.Demuxer both
    succeed and agree on canvas, animation flag, loop count, frame count and every
    frame's payload / alpha / offsets / size / duration / blend / dispose. *)
From Coq Require Import List ZArith Lia Bool.
From Coq Require Import ZifyBool ZifyNat.
From Webp Require Import Base.Res Base.Bytes Riff.ParserModel Riff.ParserLemmas Riff.ParserSpec
     Riff.WriterModel Riff.WriterProofs Riff.MetadataProofs Riff.ParserProofs Riff.WriterTheorems
     Riff.ParserSpecProofs Riff.ParserGrammar Riff.ParserDemuxAgree.
From Webp Require Riff.DemuxModel Riff.RiffGrammar.
Import ListNotations.
Open Scope Z_scope.

(** ** One ANMF frame of the grammar's shape *)
Record aframe := mkaf {
  af_hdr : list Z;                 (* the 16 header bytes *)
  af_alph : option (list Z);
  af_id : Z; af_bs : list Z }.

Definition af_payload (f : aframe) : list Z :=
  af_hdr f ++ optc FourCCALPH (af_alph f) ++ chunk (af_id f) (af_bs f).

(** header fields *)
Definition hb (f : aframe) (i : nat) : Z := nth i (af_hdr f) 0.
Definition af_x f := 2 * rd24 [hb f 0; hb f 1; hb f 2].
Definition af_y f := 2 * rd24 [hb f 3; hb f 4; hb f 5].
Definition af_w f := 1 + rd24 [hb f 6; hb f 7; hb f 8].
Definition af_h f := 1 + rd24 [hb f 9; hb f 10; hb f 11].
Definition af_dur f := rd24 [hb f 12; hb f 13; hb f 14].
Definition af_fl f := hb f 15.

Record af_ok (cw ch : Z) (f : aframe) : Prop := {
  afo_len : length (af_hdr f) = 16%nat;
  afo_bytes : bytes_ok (af_hdr f);
  afo_fl : af_fl f / 4 = 0;
  afo_id : af_id f = FourCCVP8 \/ af_id f = FourCCVP8L;
  afo_alph : is_some (af_alph f) = true -> af_id f = FourCCVP8;
  afo_dims : exists a, image_dims (af_id f) (af_bs f) = Some (af_w f, af_h f, a);
  afo_in : af_x f + af_w f <= cw /\ af_y f + af_h f <= ch;
  afo_bs : bytes_ok (af_bs f) /\ len (af_bs f) <= 104857600;
  afo_al : forall al, af_alph f = Some al -> len al <= 104857600 }.

(** what the two parsers make of it *)
Definition pframe (f : aframe) (a : bool) : FrameInfo :=
  mkFrame (af_x f) (af_y f) (af_w f) (af_h f) (af_dur f)
          (negb (af_fl f mod 2 =? 0)) (negb ((af_fl f / 2) mod 2 =? 0))
          (if af_id f =? FourCCVP8L then a else is_some (af_alph f))
          (af_id f =? FourCCVP8L) (af_bs f) (af_alph f).

Lemma hdr16 f : length (af_hdr f) = 16%nat ->
  af_hdr f = [hb f 0; hb f 1; hb f 2; hb f 3; hb f 4; hb f 5; hb f 6; hb f 7; hb f 8; hb f 9; hb f 10;
              hb f 11; hb f 12; hb f 13; hb f 14; hb f 15].
Proof.
  unfold hb. destruct (af_hdr f) as [|a0 l]; [discriminate|].
  do 15 (destruct l as [|? l]; [discriminate|]). destruct l; [|discriminate]. reflexivity.
Qed.

Lemma hb_byte f i : bytes_ok (af_hdr f) -> length (af_hdr f) = 16%nat -> (i < 16)%nat -> 0 <= hb f i < 256.
Proof.
  intros Hb Hl Hi. unfold hb, bytes_ok in *. rewrite Forall_forall in Hb. apply Hb. apply nth_In. lia.
Qed.

(** ** The parser model on one ANMF payload *)
Lemma p_parse_anmf cw ch f :
  af_ok cw ch f -> cw * ch < MaxImageArea -> 1 <= cw -> 1 <= ch ->
  exists a, parse_anmf (af_payload f) = Ok (pframe f a).
Proof.
  intros [Hl Hb Hfl Hid Halph [a Hd] [Hinx Hiny] [Hbs Hsbs] Hsal] Harea Hcw Hch.
  exists a. unfold parse_anmf, ANMFChunkSize.
  assert (Hlen16 : len (af_hdr f) = 16) by (unfold len; rewrite Hl; reflexivity).
  assert (Hge : 16 <= len (af_payload f)).
  { unfold af_payload. rewrite len_app, Hlen16.
    pose proof (len_nonneg (optc FourCCALPH (af_alph f) ++ chunk (af_id f) (af_bs f))). lia. }
  destruct (Z.ltb_spec (len (af_payload f)) 16); [lia|].
  assert (S16 : slice (af_payload f) 0 16 = Ok (af_hdr f)).
  { unfold af_payload. rewrite <- Hlen16. apply slice_head. }
  rewrite S16. cbn [bind]. rewrite (hdr16 f Hl) at 1. cbv iota.
  fold (af_x f) (af_y f) (af_w f) (af_h f) (af_dur f) (af_fl f).
  assert (Hr : forall i, (i < 16)%nat -> 0 <= hb f i < 256) by (intros; apply hb_byte; assumption).
  assert (Hx0 : 0 <= af_x f /\ 0 <= af_y f /\ 1 <= af_w f /\ 1 <= af_h f).
  { unfold af_x, af_y, af_w, af_h, rd24.
    pose proof (Hr 0%nat ltac:(lia)). pose proof (Hr 1%nat ltac:(lia)). pose proof (Hr 2%nat ltac:(lia)).
    pose proof (Hr 3%nat ltac:(lia)). pose proof (Hr 4%nat ltac:(lia)). pose proof (Hr 5%nat ltac:(lia)).
    pose proof (Hr 6%nat ltac:(lia)). pose proof (Hr 7%nat ltac:(lia)). pose proof (Hr 8%nat ltac:(lia)).
    pose proof (Hr 9%nat ltac:(lia)). pose proof (Hr 10%nat ltac:(lia)). pose proof (Hr 11%nat ltac:(lia)). lia. }
  destruct Hx0 as (Hx0 & Hy0 & Hw1 & Hh1).
  destruct (Z.ltb_spec (af_x f) 0); [lia|]. destruct (Z.ltb_spec (af_y f) 0); [lia|]. cbn [orb].
  assert (Har : af_w f * af_h f < MaxImageArea) by (unfold MaxImageArea in *; nia).
  destruct (Z.geb_spec (af_w f * af_h f) MaxImageArea); [lia|].
  assert (Ssub : slice (af_payload f) 16 (len (af_payload f)) =
                 Ok (optc FourCCALPH (af_alph f) ++ chunk (af_id f) (af_bs f))).
  { unfold af_payload. rewrite <- Hlen16. apply slice_tail. }
  rewrite Ssub. cbn [bind].
  unfold pframe. unfold image_dims in Hd. unfold MaxChunkPayload in *.
  destruct (af_alph f) as [al|] eqn:Eal; cbn [optc app is_some].
  - rewrite (Halph eq_refl) in *. change (FourCCVP8 =? FourCCVP8L) with false in *. cbv iota in *.
    specialize (Hsal al eq_refl).
    cbn [parse_frame_sub]. unfold ChunkHeaderSize.
    pose proof (len_chunk_app_ge FourCCALPH al (chunk FourCCVP8 (af_bs f))).
    destruct (Z.ltb_spec (len (chunk FourCCALPH al ++ chunk FourCCVP8 (af_bs f))) 8); [lia|].
    rewrite chunk_at_chunk by (unfold FourCCALPH, MaxChunkPayload; lia). cbn [bind].
    change (FourCCALPH =? FourCCALPH) with true. cbv iota. rewrite rest_after_chunk. cbn [bind].
    assert (Hfu : (0 < length (chunk FourCCALPH al ++ chunk FourCCVP8 (af_bs f)))%nat).
    { rewrite app_length. pose proof (chunk_min_len FourCCALPH al). unfold len in *. lia. }
    destruct (length (chunk FourCCALPH al ++ chunk FourCCVP8 (af_bs f))) as [|fu]; [lia|].
    cbn [parse_frame_sub]. unfold ChunkHeaderSize.
    rewrite <- (app_nil_r (chunk FourCCVP8 (af_bs f))).
    pose proof (len_chunk_app_ge FourCCVP8 (af_bs f) []).
    destruct (Z.ltb_spec (len (chunk FourCCVP8 (af_bs f) ++ [])) 8); [lia|].
    rewrite chunk_at_chunk by (unfold FourCCVP8, MaxChunkPayload; lia). cbn [bind].
    change (FourCCVP8 =? FourCCALPH) with false. change (FourCCVP8 =? FourCCVP8L) with false.
    change (FourCCVP8 =? FourCCVP8) with true. cbv iota. reflexivity.
  - rewrite <- (app_nil_r (chunk (af_id f) (af_bs f))).
    cbn [parse_frame_sub]. unfold ChunkHeaderSize.
    pose proof (len_chunk_app_ge (af_id f) (af_bs f) []).
    destruct (Z.ltb_spec (len (chunk (af_id f) (af_bs f) ++ [])) 8); [lia|].
    destruct Hid as [Ei|Ei]; rewrite Ei in *.
    + rewrite chunk_at_chunk by (unfold FourCCVP8, MaxChunkPayload; lia). cbn [bind].
      change (FourCCVP8 =? FourCCALPH) with false. change (FourCCVP8 =? FourCCVP8L) with false.
      change (FourCCVP8 =? FourCCVP8) with true. cbv iota. reflexivity.
    + rewrite chunk_at_chunk by (unfold FourCCVP8L, MaxChunkPayload; lia). cbn [bind].
      change (FourCCVP8L =? FourCCALPH) with false. change (FourCCVP8L =? FourCCVP8L) with true in *. cbv iota in *.
      destruct (parse_vp8l_header (af_bs f)) as [[[w' h'] a']|e|] eqn:Eh; try discriminate.
      injection Hd as _ _ ->. cbn [bind]. destruct a; reflexivity.
Qed.

(** ** The demuxer model on one ANMF payload *)
Lemma d_read_chunk_header id d rest :
  0 <= id < 4294967296 -> len d <= 4294967286 ->
  D.read_chunk_header (chunk id d ++ rest) = Ok (id, len d).
Proof.
  intros Hid Hd. pose proof (d_read_chunk id d rest Hid Hd) as H.
  unfold D.read_chunk in H.
  destruct (D.read_chunk_header (chunk id d ++ rest)) as [[i sz]|e|]; cbn [bind] in H; try discriminate.
  destruct (D.ChunkHeaderSize + sz >? D.len (chunk id d ++ rest)); [discriminate|].
  destruct (slice _ _ _); cbn [bind] in H; try discriminate. injection H as <- <- _ _. reflexivity.
Qed.

Lemma d_anmf_loop_step fuel id d rest img alpha :
  0 <= id < 4294967296 -> len d <= 4294967286 ->
  D.anmf_loop (S fuel) (chunk id d ++ rest) img alpha =
  D.anmf_loop fuel rest (if D.is_image_id id then Some d else img) (if id =? D.FCC_ALPH then Some d else alpha).
Proof.
  intros Hid Hd. pose proof (len_nonneg d) as Hd0. pose proof (len_nonneg rest) as Hr0.
  cbn [D.anmf_loop]. unfold D.ChunkHeaderSize. change (@D.len Z) with (@len Z).
  pose proof (len_chunk_app_ge id d rest).
  destruct (Z.ltb_spec (len (chunk id d ++ rest)) 8); [lia|].
  rewrite d_read_chunk_header by assumption.
  assert (Hlc : len (chunk id d ++ rest) = 8 + len d + len d mod 2 + len rest).
  { rewrite len_app, len_chunk. unfold padded_chunk_size, ChunkHeaderSize. lia. }
  destruct (Z.gtb_spec (8 + len d) (len (chunk id d ++ rest))); [lia|].
  rewrite payload_of_chunk. cbn [bind].
  set (adv := if negb (len d mod 2 =? 0) && (8 + len d <? len (chunk id d ++ rest)) then 8 + len d + 1 else 8 + len d).
  assert (Hadv : adv = len (chunk id d)).
  { subst adv. rewrite len_chunk. unfold padded_chunk_size, ChunkHeaderSize.
    destruct (Z.eqb_spec (len d mod 2) 0); cbn [negb andb]; [lia|].
    destruct (Z.ltb_spec (8 + len d) (len (chunk id d ++ rest))); lia. }
  rewrite Hadv. pose proof (chunk_min_len id d).
  destruct (Z.leb_spec (len (chunk id d)) 0); [lia|].
  rewrite rest_after_chunk. cbn [bind]. reflexivity.
Qed.

Definition dframe (f : aframe) (key hasA : bool) : D.frame_info :=
  D.mkfi (Some (af_bs f)) (af_alph f) (af_w f) (af_h f) (af_x f) (af_y f) (af_dur f) key hasA
         (if negb ((af_fl f / 2) mod 2 =? 0) then 1 else 0) (if negb (af_fl f mod 2 =? 0) then 1 else 0).

(** parseANMF parses the whole frame first and applies the frame-count limit last *)
Lemma d_parse_anmf_gen cw ch f d :
  af_ok cw ch f -> cw * ch < MaxImageArea -> 1 <= cw -> 1 <= ch ->
  exists hasA,
    D.parse_anmf d (af_payload f) =
    if D.len (D.d_frames d) >=? D.maxFrames then Err D.E_toomany
    else Ok (D.set_frames d (D.d_frames d ++ [dframe f (D.len (D.d_frames d) =? 0) hasA])).
Proof.
  intros [Hl Hb Hfl Hid Halph [a Hd] [Hinx Hiny] [Hbs Hsbs] Hsal] Harea Hcw Hch.
  assert (HhasA : exists b, (if 0 <? D.olen (af_alph f) then Ok true
                             else if 0 <? D.len (af_bs f) then D.frame_data_has_alpha (af_bs f) else Ok false) = Ok b).
  { destruct (0 <? D.olen (af_alph f)); [eauto|]. destruct (0 <? D.len (af_bs f)); [|eauto].
    apply d_has_alpha_total. }
  destruct HhasA as [b HhasA]. exists b.
  unfold D.parse_anmf, D.ANMFChunkSize. change (@D.len Z) with (@len Z).
  assert (Hlen16 : len (af_hdr f) = 16) by (unfold len; rewrite Hl; reflexivity).
  assert (Hge : 16 <= len (af_payload f)).
  { unfold af_payload. rewrite len_app, Hlen16.
    pose proof (len_nonneg (optc FourCCALPH (af_alph f) ++ chunk (af_id f) (af_bs f))). lia. }
  destruct (Z.ltb_spec (len (af_payload f)) 16); [lia|].
  unfold af_payload at 1. rewrite (hdr16 f Hl) at 1. cbn [app]. cbv iota.
  assert (Hr : forall i, (i < 16)%nat -> 0 <= hb f i < 256) by (intros; apply hb_byte; assumption).
  assert (Ex : (hb f 0 + 256 * hb f 1 + 65536 * hb f 2) * 2 = af_x f) by (unfold af_x, rd24; lia).
  assert (Ey : (hb f 3 + 256 * hb f 4 + 65536 * hb f 5) * 2 = af_y f) by (unfold af_y, rd24; lia).
  assert (Ew : hb f 6 + 256 * hb f 7 + 65536 * hb f 8 + 1 = af_w f) by (unfold af_w, rd24; lia).
  assert (Eh : hb f 9 + 256 * hb f 10 + 65536 * hb f 11 + 1 = af_h f) by (unfold af_h, rd24; lia).
  assert (Ed : hb f 12 + 256 * hb f 13 + 65536 * hb f 14 = af_dur f) by (unfold af_dur, rd24; lia).
  rewrite Ex, Ey, Ew, Eh, Ed. fold (af_fl f).
  assert (Hx0 : 0 <= af_x f /\ 0 <= af_y f /\ 1 <= af_w f /\ 1 <= af_h f).
  { unfold af_x, af_y, af_w, af_h, rd24.
    pose proof (Hr 0%nat ltac:(lia)). pose proof (Hr 1%nat ltac:(lia)). pose proof (Hr 2%nat ltac:(lia)).
    pose proof (Hr 3%nat ltac:(lia)). pose proof (Hr 4%nat ltac:(lia)). pose proof (Hr 5%nat ltac:(lia)).
    pose proof (Hr 6%nat ltac:(lia)). pose proof (Hr 7%nat ltac:(lia)). pose proof (Hr 8%nat ltac:(lia)).
    pose proof (Hr 9%nat ltac:(lia)). pose proof (Hr 10%nat ltac:(lia)). pose proof (Hr 11%nat ltac:(lia)). lia. }
  destruct Hx0 as (Hx0 & Hy0 & Hw1 & Hh1).
  destruct (Z.ltb_spec (af_x f) 0); [lia|]. destruct (Z.ltb_spec (af_y f) 0); [lia|]. cbn [orb].
  assert (Har : af_w f * af_h f < 1073741824) by (unfold MaxImageArea in *; nia).
  unfold D.MaxImageArea. destruct (Z.geb_spec (af_w f * af_h f) 1073741824); [lia|].
  assert (Hidr : 0 <= af_id f < 4294967296) by (destruct Hid as [->| ->]; [unfold FourCCVP8|unfold FourCCVP8L]; lia).
  assert (Himg : D.is_image_id (af_id f) = true) by (destruct Hid as [->| ->]; reflexivity).
  assert (Hnal : (af_id f =? D.FCC_ALPH) = false) by (destruct Hid as [->| ->]; reflexivity).
  assert (Hloop : D.anmf_loop (S (length (optc FourCCALPH (af_alph f) ++ chunk (af_id f) (af_bs f))))
                              (optc FourCCALPH (af_alph f) ++ chunk (af_id f) (af_bs f)) None None =
                  Ok (Some (af_bs f), af_alph f)).
  { destruct (af_alph f) as [al|] eqn:Eal; cbn [optc app].
    - specialize (Hsal al eq_refl).
      rewrite d_anmf_loop_step by (unfold FourCCALPH; lia).
      change (D.is_image_id FourCCALPH) with false. change (FourCCALPH =? D.FCC_ALPH) with true. cbv iota.
      assert (Hfu : (1 < length (chunk FourCCALPH al ++ chunk (af_id f) (af_bs f)))%nat).
      { rewrite app_length. pose proof (chunk_min_len FourCCALPH al). unfold len in *. lia. }
      destruct (length (chunk FourCCALPH al ++ chunk (af_id f) (af_bs f))) as [|[|fu]]; [lia|lia|].
      rewrite <- (app_nil_r (chunk (af_id f) (af_bs f))).
      rewrite d_anmf_loop_step by (exact Hidr || lia). rewrite Himg, Hnal.
      cbn [D.anmf_loop]. reflexivity.
    - rewrite <- (app_nil_r (chunk (af_id f) (af_bs f))).
      rewrite d_anmf_loop_step by (exact Hidr || lia). rewrite Himg, Hnal.
      assert (Hfu : (0 < length (chunk (af_id f) (af_bs f) ++ []))%nat).
      { rewrite app_length. pose proof (chunk_min_len (af_id f) (af_bs f)). unfold len in *. lia. }
      destruct (length (chunk (af_id f) (af_bs f) ++ [])) as [|fu]; [lia|].
      cbn [D.anmf_loop]. reflexivity. }
  rewrite Hloop. cbn [bind]. change (@D.len Z) with (@len Z) in HhasA. rewrite HhasA. cbn [bind].
  unfold dframe. reflexivity.
Qed.

Lemma d_parse_anmf cw ch f d :
  af_ok cw ch f -> cw * ch < MaxImageArea -> 1 <= cw -> 1 <= ch -> D.len (D.d_frames d) < 10000 ->
  exists hasA,
    D.parse_anmf d (af_payload f) =
    Ok (D.set_frames d (D.d_frames d ++ [dframe f (D.len (D.d_frames d) =? 0) hasA])).
Proof.
  intros Hf Harea Hcw Hch Hnf. destruct (d_parse_anmf_gen cw ch f d Hf Harea Hcw Hch) as [hasA E].
  exists hasA. rewrite E. unfold D.maxFrames. destruct (Z.geb_spec (D.len (D.d_frames d)) 10000); [lia|reflexivity].
Qed.

(** ** The run of ANMF chunks, both loops *)
Definition frames_bytes (fs : list aframe) : list Z :=
  concat (map (fun f => chunk FourCCANMF (af_payload f)) fs).

Lemma af_payload_len cw ch f : af_ok cw ch f -> len (af_payload f) <= 4294967286.
Proof.
  intros [Hl _ _ _ _ _ _ [_ Hsbs] Hsal]. unfold af_payload. rewrite !len_app, len_chunk.
  unfold padded_chunk_size, ChunkHeaderSize. pose proof (len_nonneg (af_bs f)).
  assert (len (af_hdr f) = 16) by (unfold len; rewrite Hl; reflexivity).
  assert (len (optc FourCCALPH (af_alph f)) <= 104857610).
  { destruct (af_alph f) as [al|]; cbn [optc]; [|cbn; lia]. specialize (Hsal al eq_refl).
    rewrite len_chunk. unfold padded_chunk_size, ChunkHeaderSize. pose proof (len_nonneg al). lia. }
  lia.
Qed.

Lemma p_frames_loop cw ch fx feat chunks a tl :
  cw * ch < MaxImageArea -> 1 <= cw -> 1 <= ch -> 1 <= a ->
  forall fs fuel frames,
    Forall (af_ok cw ch) fs -> len frames + len fs <= MaxFrames ->
    exists pfs, Forall2 (fun f pf => exists al, pf = pframe f al) fs pfs /\
      parse_vp8x_chunks (length fs + fuel) fx feat frames chunks a (frames_bytes fs ++ tl) =
      parse_vp8x_chunks fuel fx feat (frames ++ pfs) chunks a tl.
Proof.
  intros Harea Hcw Hch Ha. induction fs as [|f fs IH]; intros fuel frames Hok Hn.
  - exists []. split; [constructor|]. cbn. rewrite app_nil_r. reflexivity.
  - inversion Hok as [|? ? Hf Hfs]; subst.
    destruct (p_parse_anmf cw ch f Hf Harea Hcw Hch) as [al Ep].
    rewrite len_cons in Hn. pose proof (len_nonneg fs). pose proof (len_nonneg frames).
    destruct (IH fuel (frames ++ [pframe f al]) Hfs) as (pfs & Hall & Eq).
    { rewrite len_app, len_cons, len_nil. lia. }
    exists (pframe f al :: pfs). split; [constructor; eauto|].
    unfold frames_bytes. cbn [map concat length Nat.add]. rewrite <- app_assoc.
    fold (frames_bytes fs).
    cbn [parse_vp8x_chunks]. unfold ChunkHeaderSize.
    pose proof (len_chunk_app_ge FourCCANMF (af_payload f) (frames_bytes fs ++ tl)).
    destruct (Z.ltb_spec (len (chunk FourCCANMF (af_payload f) ++ frames_bytes fs ++ tl)) 8); [lia|].
    rewrite chunk_at_chunk by (unfold FourCCANMF; lia || (unfold MaxChunkPayload; apply (af_payload_len cw ch); exact Hf)).
    cbn [bind].
    change (FourCCANMF =? FourCCVP8X) with false. change (FourCCANMF =? FourCCANIM) with false.
    change (FourCCANMF =? FourCCANMF) with true. cbv iota.
    destruct (Z.eqb_spec a 0); [lia|]. unfold MaxFrames in *.
    destruct (Z.geb_spec (len frames) 10000); [lia|].
    rewrite Ep. cbn [bind]. rewrite rest_after_chunk. cbn [bind].
    rewrite Eq. rewrite <- app_assoc. reflexivity.
Qed.

Lemma d_frames_loop cw ch tl :
  cw * ch < MaxImageArea -> 1 <= cw -> 1 <= ch ->
  forall fs fuel d,
    Forall (af_ok cw ch) fs -> D.len (D.d_frames d) + len fs <= 10000 ->
    exists d' dfs, Forall2 (fun f df => exists k hA, df = dframe f k hA) fs dfs /\
      D.ext_loop (length fs + fuel) (frames_bytes fs ++ tl) d = D.ext_loop fuel tl d' /\
      D.d_frames d' = D.d_frames d ++ dfs /\ D.d_feat d' = D.d_feat d /\ D.d_loop d' = D.d_loop d.
Proof.
  intros Harea Hcw Hch. induction fs as [|f fs IH]; intros fuel d Hok Hn.
  - exists d, []. split; [constructor|]. cbn. rewrite app_nil_r. auto.
  - inversion Hok as [|? ? Hf Hfs]; subst.
    rewrite len_cons in Hn. pose proof (len_nonneg fs).
    assert (Hdl : 0 <= D.len (D.d_frames d)) by (unfold D.len; lia).
    set (c := D.mkchunk FourCCANMF (len (af_payload f)) (af_payload f)).
    destruct (d_parse_anmf cw ch f (D.add_chunk d c) Hf Harea Hcw Hch ltac:(cbn [D.add_chunk D.d_frames]; lia))
      as [hA Ep].
    cbn [D.add_chunk D.d_frames] in Ep.
    set (d1 := D.set_frames (D.add_chunk d c) (D.d_frames d ++ [dframe f (D.len (D.d_frames d) =? 0) hA])) in *.
    destruct (IH fuel d1 Hfs) as (d' & dfs & Hall & Eq & Gf & Gft & Glp).
    { subst d1. cbn [D.set_frames D.d_frames]. unfold D.len in *. rewrite app_length. cbn [length]. unfold len in *. lia. }
    exists d', (dframe f (D.len (D.d_frames d) =? 0) hA :: dfs).
    split; [constructor; eauto|].
    split.
    { unfold frames_bytes. cbn [map concat length Nat.add]. rewrite <- app_assoc. fold (frames_bytes fs).
      cbn [D.ext_loop]. unfold D.ChunkHeaderSize. change (@D.len Z) with (@len Z).
      pose proof (len_chunk_app_ge FourCCANMF (af_payload f) (frames_bytes fs ++ tl)).
      destruct (Z.ltb_spec (len (chunk FourCCANMF (af_payload f) ++ frames_bytes fs ++ tl)) 8); [lia|].
      rewrite d_read_chunk by (unfold FourCCANMF; lia || apply (af_payload_len cw ch); exact Hf).
      fold c. unfold D.ext_dispatch. cbn [D.c_id D.c_data c].
      change (FourCCANMF =? D.FCC_ICCP) with false. change (FourCCANMF =? D.FCC_EXIF) with false.
      change (FourCCANMF =? D.FCC_XMP) with false. change (FourCCANMF =? D.FCC_ANIM) with false.
      change (FourCCANMF =? D.FCC_ANMF) with true. cbv iota.
      fold c. rewrite Ep. cbn [bind]. rewrite rest_after_chunk. cbn [bind]. exact Eq. }
    subst d1. cbn [D.set_frames D.add_chunk D.d_frames D.d_feat D.d_loop] in Gf, Gft, Glp.
    split; [rewrite Gf, <- app_assoc; reflexivity|]. split; assumption.
Qed.

(** ** Parser model: VP8X with a large canvas, ANIM, metadata tail *)
Lemma parse_vp8x_written_canvas fx f w h rest :
  0 <= f < 64 -> Z.land f 4294967233 = 0 -> 1 <= w <= 16777216 -> 1 <= h <= 16777216 ->
  w * h < MaxImageArea ->
  parse_vp8x fx (chunk FourCCVP8X (vp8x_payload f w h) ++ rest) =
  parse_vp8x_chunks (S (length rest)) fx
    (mkFeatures w h (Z.testbit f 4) (Z.testbit f 1) (Z.testbit f 5) (Z.testbit f 3) (Z.testbit f 2)
                FormatVP8X 1 4294967295 w h) [] [] 0 rest.
Proof.
  intros Hf Hl Hw Hh Harea. unfold parse_vp8x.
  destruct fourcc_ranges as (HX & _).
  assert (Hlen : len (vp8x_payload f w h) = 10) by reflexivity.
  rewrite read_header_chunk by (rewrite ?Hlen; unfold MaxChunkPayload; lia). cbn [bind].
  rewrite Hlen. unfold VP8XChunkSize, ChunkHeaderSize. change (negb (10 =? 10)) with false. cbv iota.
  change (10 mod 2) with 0. change (8 + (10 + 0)) with 18. change (8 + 10) with 18.
  assert (Hl18 : len (chunk FourCCVP8X (vp8x_payload f w h)) = 18) by reflexivity.
  pose proof (len_nonneg rest).
  destruct (Z.gtb_spec 18 (len (chunk FourCCVP8X (vp8x_payload f w h) ++ rest))) as [Hg|_];
    [rewrite len_app, Hl18 in Hg; lia|].
  change 18 with (8 + len (vp8x_payload f w h)) at 1. rewrite payload_of_chunk. cbn [bind].
  rewrite (vp8x_payload_explicit f w h Hf) at 1. cbv iota.
  rewrite Hl. change (negb (0 =? 0)) with false. cbv iota.
  rewrite !rd24_le24' by lia.
  replace (1 + (w - 1)) with w by lia. replace (1 + (h - 1)) with h by lia.
  destruct (Z.geb_spec (w * h) MaxImageArea); [lia|].
  rewrite <- Hl18 at 1. rewrite rest_after_chunk. cbn [bind]. reflexivity.
Qed.

Lemma p_step_anim fuel fx feat frames chunks a b0 b1 b2 b3 b4 b5 rest :
  parse_vp8x_chunks (S fuel) fx feat frames chunks a (chunk FourCCANIM [b0; b1; b2; b3; b4; b5] ++ rest) =
  parse_vp8x_chunks fuel fx (set_anim feat (rd32 [b0; b1; b2; b3]) (rd16 [b4; b5])) frames chunks (a + 1) rest.
Proof.
  cbn [parse_vp8x_chunks]. unfold ChunkHeaderSize.
  pose proof (len_chunk_app_ge FourCCANIM [b0; b1; b2; b3; b4; b5] rest).
  destruct (Z.ltb_spec (len (chunk FourCCANIM [b0; b1; b2; b3; b4; b5] ++ rest)) 8); [lia|].
  rewrite chunk_at_chunk by (unfold FourCCANIM, MaxChunkPayload; cbn; lia). cbn [bind].
  change (FourCCANIM =? FourCCVP8X) with false. change (FourCCANIM =? FourCCANIM) with true. cbv iota.
  change (len [b0; b1; b2; b3; b4; b5] <? ANIMChunkSize) with false. cbv iota.
  change (slice [b0; b1; b2; b3; b4; b5] 0 4) with (Ok [b0; b1; b2; b3]).
  change (slice [b0; b1; b2; b3; b4; b5] 4 6) with (Ok [b4; b5]). cbn [bind].
  rewrite rest_after_chunk. cbn [bind]. reflexivity.
Qed.

Lemma p_step_meta fuel fx feat frames chunks a id d rest :
  (id = FourCCEXIF \/ id = FourCCXMP) -> len d <= MaxMetadataSize ->
  exists chunks', parse_vp8x_chunks (S fuel) fx feat frames chunks a (chunk id d ++ rest) =
                  parse_vp8x_chunks fuel fx feat frames chunks' a rest.
Proof.
  intros Hid Hd. unfold MaxMetadataSize in Hd.
  cbn [parse_vp8x_chunks]. unfold ChunkHeaderSize.
  pose proof (len_chunk_app_ge id d rest).
  destruct (Z.ltb_spec (len (chunk id d ++ rest)) 8); [lia|].
  assert (Hidr : 0 <= id < 4294967296) by (destruct Hid as [->| ->]; [unfold FourCCEXIF|unfold FourCCXMP]; lia).
  rewrite chunk_at_chunk by (exact Hidr || (unfold MaxChunkPayload; lia)).
  cbn [bind]. unfold add_meta, MaxMetadataSize.
  destruct Hid as [->| ->].
  - change (FourCCEXIF =? FourCCVP8X) with false. change (FourCCEXIF =? FourCCANIM) with false.
    change (FourCCEXIF =? FourCCANMF) with false.
    change (is_image_fourcc FourCCEXIF || (FourCCEXIF =? FourCCALPH)) with false.
    change (FourCCEXIF =? FourCCICCP) with false. change (FourCCEXIF =? FourCCEXIF) with true. cbv iota.
    destruct (fHasEXIF feat); [destruct (Z.gtb_spec (len d) 104857600); [lia|]|]; cbn [bind];
      rewrite rest_after_chunk; cbn [bind]; eexists; reflexivity.
  - change (FourCCXMP =? FourCCVP8X) with false. change (FourCCXMP =? FourCCANIM) with false.
    change (FourCCXMP =? FourCCANMF) with false.
    change (is_image_fourcc FourCCXMP || (FourCCXMP =? FourCCALPH)) with false.
    change (FourCCXMP =? FourCCICCP) with false. change (FourCCXMP =? FourCCEXIF) with false.
    change (FourCCXMP =? FourCCXMP) with true. cbv iota.
    destruct (fHasXMP feat); [destruct (Z.gtb_spec (len d) 104857600); [lia|]|]; cbn [bind];
      rewrite rest_after_chunk; cbn [bind]; eexists; reflexivity.
Qed.

Lemma p_tail fx feat frames chunks a (exif xmp : option (list Z)) :
  fHasAnim feat = true ->
  (forall x, exif = Some x -> len x <= MaxMetadataSize) -> (forall x, xmp = Some x -> len x <= MaxMetadataSize) ->
  exists chunks', parse_vp8x_chunks 3 fx feat frames chunks a (optc FourCCEXIF exif ++ optc FourCCXMP xmp) =
                  Ok (mkParsed feat frames chunks', KList).
Proof.
  intros Han He Hx.
  assert (Hend : forall fuel cs, parse_vp8x_chunks (S fuel) fx feat frames cs a [] = Ok (mkParsed feat frames cs, KList)).
  { intros. cbn [parse_vp8x_chunks]. change (len (@nil Z) <? ChunkHeaderSize) with true. cbv iota.
    rewrite Han. cbn [negb andb]. rewrite andb_false_r. reflexivity. }
  destruct exif as [e|]; destruct xmp as [x|]; cbn [optc app].
  - destruct (p_step_meta 2 fx feat frames chunks a FourCCEXIF e (chunk FourCCXMP x) (or_introl eq_refl) (He e eq_refl)) as [c1 E1].
    rewrite E1. rewrite <- (app_nil_r (chunk FourCCXMP x)).
    destruct (p_step_meta 1 fx feat frames c1 a FourCCXMP x [] (or_intror eq_refl) (Hx x eq_refl)) as [c2 E2].
    rewrite E2. eexists. apply Hend.
  - rewrite app_nil_r. rewrite <- (app_nil_r (chunk FourCCEXIF e)).
    destruct (p_step_meta 2 fx feat frames chunks a FourCCEXIF e [] (or_introl eq_refl) (He e eq_refl)) as [c1 E1].
    rewrite E1. eexists. apply Hend.
  - rewrite <- (app_nil_r (chunk FourCCXMP x)).
    destruct (p_step_meta 2 fx feat frames chunks a FourCCXMP x [] (or_intror eq_refl) (Hx x eq_refl)) as [c1 E1].
    rewrite E1. eexists. apply Hend.
  - eexists. apply Hend.
Qed.

Lemma p_fuel_irrelevant : forall fuel fuel' fx feat frames chunks a buf r,
  parse_vp8x_chunks fuel fx feat frames chunks a buf = Ok r -> (fuel <= fuel')%nat ->
  parse_vp8x_chunks fuel' fx feat frames chunks a buf = Ok r.
Proof.
  induction fuel as [|fuel IH]; intros fuel' fx feat frames chunks a buf r H Hle; [discriminate|].
  destruct fuel' as [|fuel']; [lia|]. cbn [parse_vp8x_chunks] in *.
  destruct (len buf <? ChunkHeaderSize); [exact H|].
  destruct (chunk_at buf) as [[[[f sz] tot] pl]|e|]; cbn [bind] in *; try discriminate.
  assert (Hc : forall ft fr cs aa,
     (rest <- slice buf tot (len buf);; parse_vp8x_chunks fuel fx ft fr cs aa rest) = Ok r ->
     (rest <- slice buf tot (len buf);; parse_vp8x_chunks fuel' fx ft fr cs aa rest) = Ok r).
  { intros ft fr cs aa Hq. destruct (slice buf tot (len buf)); cbn [bind] in *; try discriminate.
    apply (IH fuel'); [exact Hq|lia]. }
  destruct (f =? FourCCVP8X); [exact H|].
  destruct (f =? FourCCANIM).
  { destruct (sz <? ANIMChunkSize); [exact H|].
    destruct (slice pl 0 4); cbn [bind] in *; try discriminate.
    destruct (slice pl 4 6); cbn [bind] in *; try discriminate. apply Hc. exact H. }
  destruct (f =? FourCCANMF).
  { destruct (a =? 0); [exact H|]. destruct (len frames >=? MaxFrames); [exact H|].
    destruct (parse_anmf pl); cbn [bind] in *; try discriminate. apply Hc. exact H. }
  destruct (is_image_fourcc f || (f =? FourCCALPH)); [exact H|].
  destruct (f =? FourCCICCP).
  { destruct (add_meta (fHasICCP feat) sz f pl chunks); cbn [bind] in *; try discriminate. apply Hc. exact H. }
  destruct (f =? FourCCEXIF).
  { destruct (add_meta (fHasEXIF feat) sz f pl chunks); cbn [bind] in *; try discriminate. apply Hc. exact H. }
  destruct (f =? FourCCXMP).
  { destruct (add_meta (fHasXMP feat) sz f pl chunks); cbn [bind] in *; try discriminate. apply Hc. exact H. }
  destruct (len chunks >=? MaxChunks); [exact H|]. destruct (sz >? MaxMetadataSize); [exact H|].
  apply Hc. exact H.
Qed.

(** ** Demuxer model: ICCP and ANIM steps *)
Lemma d_step_iccp fuel ic rest d :
  len ic <= 104857600 ->
  exists d1, D.ext_loop (S fuel) (chunk FourCCICCP ic ++ rest) d = D.ext_loop fuel rest d1 /\
             D.d_frames d1 = D.d_frames d /\ D.d_feat d1 = D.d_feat d /\ D.d_loop d1 = D.d_loop d.
Proof.
  intros Hc. pose proof (len_nonneg ic).
  cbn [D.ext_loop]. unfold D.ChunkHeaderSize. change (@D.len Z) with (@len Z).
  pose proof (len_chunk_app_ge FourCCICCP ic rest).
  destruct (Z.ltb_spec (len (chunk FourCCICCP ic ++ rest)) 8); [lia|].
  rewrite d_read_chunk by (unfold FourCCICCP; lia).
  unfold D.ext_dispatch. cbn [D.c_id D.c_data]. change (FourCCICCP =? D.FCC_ICCP) with true. cbv iota.
  unfold D.maxMetadataSize. change (@D.len Z) with (@len Z).
  destruct (Z.gtb_spec (len ic) 104857600); [lia|]. cbn [bind]. rewrite rest_after_chunk. cbn [bind].
  eexists. split; [reflexivity|]. cbn. auto.
Qed.

Lemma d_step_anim fuel b0 b1 b2 b3 b4 b5 rest d :
  exists d1, D.ext_loop (S fuel) (chunk FourCCANIM [b0; b1; b2; b3; b4; b5] ++ rest) d = D.ext_loop fuel rest d1 /\
             D.d_frames d1 = D.d_frames d /\ D.d_feat d1 = D.d_feat d /\ D.d_loop d1 = b4 + 256 * b5.
Proof.
  cbn [D.ext_loop]. unfold D.ChunkHeaderSize. change (@D.len Z) with (@len Z).
  pose proof (len_chunk_app_ge FourCCANIM [b0; b1; b2; b3; b4; b5] rest).
  destruct (Z.ltb_spec (len (chunk FourCCANIM [b0; b1; b2; b3; b4; b5] ++ rest)) 8); [lia|].
  rewrite d_read_chunk by (unfold FourCCANIM; cbn; lia).
  unfold D.ext_dispatch. cbn [D.c_id D.c_data].
  change (FourCCANIM =? D.FCC_ICCP) with false. change (FourCCANIM =? D.FCC_EXIF) with false.
  change (FourCCANIM =? D.FCC_XMP) with false. change (FourCCANIM =? D.FCC_ANIM) with true. cbv iota.
  unfold D.parse_anim. change (D.len [b0; b1; b2; b3; b4; b5] <? D.ANIMChunkSize) with false. cbv iota.
  cbn [bind]. rewrite rest_after_chunk. cbn [bind].
  eexists. split; [reflexivity|]. cbn. auto.
Qed.

Lemma frames_bytes_len fs : (8 * length fs <= length (frames_bytes fs))%nat.
Proof.
  induction fs as [|f fs IH]; [cbn; lia|].
  unfold frames_bytes in *. cbn [map concat length]. rewrite app_length.
  pose proof (chunk_min_len FourCCANMF (af_payload f)). unfold len in *. lia.
Qed.

Lemma forall2_length {A B} (R : A -> B -> Prop) l1 l2 : Forall2 R l1 l2 -> length l1 = length l2.
Proof. induction 1; cbn; congruence. Qed.

(** ** Both parsers on the animated shape *)
Section AnimShape.
  Variables (fx : bool) (flags cw ch : Z) (icc : option (list Z)) (b0 b1 b2 b3 b4 b5 : Z)
            (fs : list aframe) (exif xmp : option (list Z)).

  Definition anim_tail : list Z := optc FourCCEXIF exif ++ optc FourCCXMP xmp.
  Definition anim_rest : list Z :=
    optc FourCCICCP icc ++ chunk FourCCANIM [b0; b1; b2; b3; b4; b5] ++ frames_bytes fs ++ anim_tail.
  Definition anim_body : list Z := chunk FourCCVP8X (vp8x_payload flags cw ch) ++ anim_rest.
  Definition anim_file : list Z :=
    le32 FourCCRIFF ++ le32 (4 + len anim_body) ++ le32 FourCCWEBP ++ anim_body.

  Hypothesis Hf64 : 0 <= flags < 64.
  Hypothesis Hland : Z.land flags 4294967233 = 0.
  Hypothesis Hanim : Z.testbit flags 1 = true.
  Hypothesis Hficc : Z.testbit flags 5 = is_some icc.
  Hypothesis Hcw : 1 <= cw <= 16777216.
  Hypothesis Hch : 1 <= ch <= 16777216.
  Hypothesis Harea : cw * ch < MaxImageArea.
  Hypothesis Hfs : Forall (af_ok cw ch) fs.
  Hypothesis Hne : fs <> [].
  Hypothesis Hcount : len fs <= MaxFrames.
  Hypothesis Hcicc : forall x, icc = Some x -> len x <= 104857600.
  Hypothesis Hcexif : forall x, exif = Some x -> len x <= 104857600.
  Hypothesis Hcxmp : forall x, xmp = Some x -> len x <= 104857600.
  Hypothesis Hsize : 4 + len anim_body <= 4294967286.

  Lemma anim_rest_len : (length fs + 5 <= length anim_rest)%nat.
  Proof.
    unfold anim_rest. rewrite !app_length. pose proof (frames_bytes_len fs).
    pose proof (chunk_min_len FourCCANIM [b0; b1; b2; b3; b4; b5]). unfold len in *.
    destruct fs as [|f0 fs']; [contradiction|]. cbn [length] in *. lia.
  Qed.

  Definition feat0 := mkFeatures cw ch (Z.testbit flags 4) true (is_some icc) (Z.testbit flags 3) (Z.testbit flags 2)
                          FormatVP8X 1 4294967295 cw ch.
  Definition feat1 := set_anim feat0 (rd32 [b0; b1; b2; b3]) (rd16 [b4; b5]).

  Lemma p_core chunks1 :
    exists pfs chunks',
      Forall2 (fun f pf => exists al, pf = pframe f al) fs pfs /\
      parse_vp8x_chunks (S (length fs + 3)) fx feat0 [] chunks1 0
        (chunk FourCCANIM [b0; b1; b2; b3; b4; b5] ++ frames_bytes fs ++ anim_tail) =
      Ok (mkParsed feat1 pfs chunks', KList).
  Proof.
    destruct (p_frames_loop cw ch fx feat1 chunks1 1 anim_tail Harea ltac:(lia) ltac:(lia) ltac:(lia) fs 3%nat []
                Hfs ltac:(change (len (@nil FrameInfo)) with 0; lia)) as (pfs & Hall & Eq).
    destruct (p_tail fx feat1 ([] ++ pfs) chunks1 1 exif xmp eq_refl Hcexif Hcxmp) as (chunks' & Et).
    exists pfs, chunks'. split; [exact Hall|].
    rewrite p_step_anim. fold feat1. change (0 + 1) with 1. rewrite Eq. exact Et.
  Qed.

  Lemma p_anim_shape :
    exists r pfs, parse_ex fx anim_file = Ok (r, KList) /\ pFrames r = pfs /\
      Forall2 (fun f pf => exists al, pf = pframe f al) fs pfs /\
      fCanvasW (pFeat r) = cw /\ fCanvasH (pFeat r) = ch /\ fWidth (pFeat r) = cw /\ fHeight (pFeat r) = ch /\
      fHasAnim (pFeat r) = true /\ fLoopCount (pFeat r) = rd16 [b4; b5].
  Proof.
    destruct fourcc_ranges as (HX & _).
    assert (Hparse : parse_ex fx anim_file = parse_vp8x_chunks (S (length anim_rest)) fx feat0 [] [] 0 anim_rest).
    { unfold anim_file.
      rewrite (parse_ex_written fx _ _ FourCCVP8X (vp8x_payload flags cw ch) anim_rest);
        [|reflexivity|unfold MaxChunkPayload; pose proof (len_chunk_app_ge FourCCVP8X (vp8x_payload flags cw ch) anim_rest);
                      fold anim_body in *; lia|reflexivity|exact HX].
      change (FourCCVP8X =? FourCCVP8X) with true. cbv iota. unfold anim_body.
      rewrite parse_vp8x_written_canvas by assumption. rewrite Hanim, Hficc. reflexivity. }
    assert (Hall : exists pfs chunks',
              Forall2 (fun f pf => exists al, pf = pframe f al) fs pfs /\
              parse_vp8x_chunks (S (length anim_rest)) fx feat0 [] [] 0 anim_rest = Ok (mkParsed feat1 pfs chunks', KList)).
    { pose proof anim_rest_len as Hlen. unfold anim_rest in *.
      destruct icc as [ic|] eqn:Eic; cbn [optc app] in *.
      - destruct (p_core ([] ++ [mkChunk FourCCICCP ic])) as (pfs & chunks' & Hall & Ec).
        exists pfs, chunks'. split; [exact Hall|].
        apply (p_fuel_irrelevant (S (S (length fs + 3)))); [|lia].
        rewrite chunks_step_iccp by (first [unfold feat0; cbn [fHasICCP]; rewrite Eic; reflexivity
                                          |unfold MaxMetadataSize; apply Hcicc; reflexivity]).
        exact Ec.
      - destruct (p_core []) as (pfs & chunks' & Hall & Ec).
        exists pfs, chunks'. split; [exact Hall|].
        apply (p_fuel_irrelevant (S (length fs + 3))); [exact Ec|lia]. }
    destruct Hall as (pfs & chunks' & Hall & Ep).
    exists (mkParsed feat1 pfs chunks'), pfs. rewrite Hparse, Ep.
    split; [reflexivity|]. split; [reflexivity|]. split; [exact Hall|]. cbn. auto 10.
  Qed.

  Hypothesis Hbytes_tail : bytes_ok anim_tail.

  Lemma anim_tail_walk :
    exists cst, walk 3 anim_tail = Some cst /\
      Forall (fun c => not_anim_id (fst c) /\ len (snd c) <= 104857600) cst.
  Proof.
    destruct fourcc_ranges as (_ & _ & _ & HE & HM & _).
    exists (optl FourCCEXIF exif ++ optl FourCCXMP xmp). unfold anim_tail. split.
    - destruct exif as [e|], xmp as [x|]; cbn [optc optl app].
      + rewrite <- (app_nil_r (chunk FourCCXMP x)).
        pose proof (Hcexif e eq_refl). pose proof (Hcxmp x eq_refl).
        apply walk_chunk_some; [exact HE|lia|]. apply walk_chunk_some; [exact HM|lia|reflexivity].
      + rewrite app_nil_r. rewrite <- (app_nil_r (chunk FourCCEXIF e)). pose proof (Hcexif e eq_refl).
        apply walk_chunk_some; [exact HE|lia|reflexivity].
      + rewrite <- (app_nil_r (chunk FourCCXMP x)). pose proof (Hcxmp x eq_refl).
        apply walk_chunk_some; [exact HM|lia|reflexivity].
      + reflexivity.
    - apply Forall_app. split.
      + destruct exif as [e|]; constructor; [|constructor]. cbn. split; [split; discriminate|apply Hcexif; reflexivity].
      + destruct xmp as [x|]; constructor; [|constructor]. cbn. split; [split; discriminate|apply Hcxmp; reflexivity].
  Qed.

  Lemma d_anim_shape :
    exists d dfs, D.parse true anim_file = Ok d /\ D.d_frames d = dfs /\
      Forall2 (fun f df => exists k hA, df = dframe f k hA) fs dfs /\
      D.ft_w (D.d_feat d) = cw /\ D.ft_h (D.d_feat d) = ch /\ D.ft_anim (D.d_feat d) = true /\
      D.d_loop d = b4 + 256 * b5.
  Proof.
    destruct fourcc_ranges as (HX & _).
    pose (ft := D.mkfeat cw ch (negb ((flags / 16) mod 2 =? 0)) true (negb ((flags / 32) mod 2 =? 0))
                         (negb ((flags / 8) mod 2 =? 0)) (negb ((flags / 4) mod 2 =? 0)) 3).
    pose (vx := D.mkchunk FourCCVP8X 10 (vp8x_payload flags cw ch)).
    pose (d0 := D.mkd [vx] ft [] None None None 0 0).
    destruct anim_tail_walk as (cst & Hwt & Hct).
    (* the loop from d0 *)
    assert (Hloop : exists d' dfs, D.ext_loop (S (length anim_rest)) anim_rest d0 = Ok d' /\
               D.d_frames d' = dfs /\ Forall2 (fun f df => exists k hA, df = dframe f k hA) fs dfs /\
               D.d_feat d' = ft /\ D.d_loop d' = b4 + 256 * b5).
    { pose proof anim_rest_len as Hlen. pose proof (frames_bytes_len fs) as Hfb.
      assert (Hstep : forall fuel dd, D.d_frames dd = [] -> D.d_feat dd = ft ->
                 (length fs + length anim_tail + 2 <= fuel)%nat ->
                 exists d' dfs, D.ext_loop fuel (chunk FourCCANIM [b0; b1; b2; b3; b4; b5] ++ frames_bytes fs ++ anim_tail) dd = Ok d' /\
                   D.d_frames d' = dfs /\ Forall2 (fun f df => exists k hA, df = dframe f k hA) fs dfs /\
                   D.d_feat d' = ft /\ D.d_loop d' = b4 + 256 * b5).
      { intros fuel dd Hfr Hft Hfu.
        destruct fuel as [|fuel]; [lia|].
        destruct (d_step_anim fuel b0 b1 b2 b3 b4 b5 (frames_bytes fs ++ anim_tail) dd) as (d1 & E1 & F1 & T1 & L1).
        rewrite E1.
        replace fuel with (length fs + (fuel - length fs))%nat by lia.
        destruct (d_frames_loop cw ch anim_tail Harea ltac:(lia) ltac:(lia) fs (fuel - length fs)%nat d1 Hfs) as
          (d2 & dfs & Hall & E2 & F2 & T2 & L2).
        { rewrite F1, Hfr. change (D.len (@nil D.frame_info)) with 0. unfold MaxFrames in Hcount. lia. }
        rewrite E2.
        destruct (d_ext_loop_tail cst (fuel - length fs)%nat anim_tail d2 Hbytes_tail) as (d3 & E3 & T3 & F3 & L3).
        - apply (walk_any_fuel 3); [exact Hwt|]. pose proof (walk_count _ _ _ Hwt). lia.
        - lia.
        - exact Hct.
        - rewrite F2, F1, Hfr. destruct fs as [|f0 fs']; [contradiction|]. inversion Hall; subst. discriminate.
        - exists d3, dfs. split; [exact E3|]. rewrite F3, F2, F1, Hfr. split; [reflexivity|].
          split; [exact Hall|]. split; congruence. }
      unfold anim_rest in *. destruct icc as [ic|] eqn:Eic; cbn [optc app] in *.
      - destruct (d_step_iccp (length (chunk FourCCICCP ic ++ chunk FourCCANIM [b0; b1; b2; b3; b4; b5] ++ frames_bytes fs ++ anim_tail))
                              ic (chunk FourCCANIM [b0; b1; b2; b3; b4; b5] ++ frames_bytes fs ++ anim_tail) d0
                              (Hcicc ic eq_refl)) as (d1 & E1 & F1 & T1 & L1).
        rewrite E1. apply Hstep; [rewrite F1; reflexivity|rewrite T1; reflexivity|].
        rewrite !app_length in *. pose proof (chunk_min_len FourCCICCP ic).
        pose proof (chunk_min_len FourCCANIM [b0; b1; b2; b3; b4; b5]). unfold len in *. lia.
      - apply Hstep; [reflexivity|reflexivity|].
        rewrite !app_length in *. pose proof (chunk_min_len FourCCANIM [b0; b1; b2; b3; b4; b5]). unfold len in *. lia. }
    destruct Hloop as (d' & dfs & El & Gf & Hall & Gt & Gl).
    exists d', dfs.
    split.
    { unfold anim_file.
      rewrite (d_parse_written (4 + len anim_body) anim_body FourCCVP8X (vp8x_payload flags cw ch) anim_rest eq_refl
                 ltac:(pose proof (len_nonneg anim_body); lia) eq_refl HX).
      change (FourCCVP8X =? D.FCC_VP8X) with true. cbv iota. unfold anim_body.
      unfold D.parse_extended.
      rewrite d_read_chunk by (exact HX || (change (len (vp8x_payload flags cw ch)) with 10; lia)).
      cbn [bind D.c_size D.c_data]. change (len (vp8x_payload flags cw ch)) with 10.
      unfold D.VP8XChunkSize. change (10 <? 10) with false. cbv iota.
      rewrite (vp8x_payload_explicit flags cw ch Hf64) at 1. cbv iota.
      rewrite d_rest. cbn [bind].
      assert (Hcw' : (cw - 1) mod 256 + 256 * (((cw - 1) / 256) mod 256) + 65536 * (((cw - 1) / 65536) mod 256) + 1 = cw) by lia.
      assert (Hch' : (ch - 1) mod 256 + 256 * (((ch - 1) / 256) mod 256) + 65536 * (((ch - 1) / 65536) mod 256) + 1 = ch) by lia.
      rewrite Hcw', Hch'.
      (* tolerate the canvas-area cap of the demuxer, if present *)
      try (match goal with |- context [cw * ch >=? D.MaxImageArea] =>
             destruct (Z.geb_spec (cw * ch) D.MaxImageArea) as [Hbad|_];
             [exfalso; unfold D.MaxImageArea in Hbad; unfold MaxImageArea in Harea; lia|] end).
      assert (Han : negb ((flags / 2) mod 2 =? 0) = true).
      { destruct (flag_bits_bridge flags ltac:(lia)) as (_ & _ & _ & _ & G1 & _). rewrite <- G1. exact Hanim. }
      rewrite Han. fold ft. fold vx. fold d0. rewrite El. cbn [bind]. rewrite Gf.
      destruct fs as [|f0 fs']; [contradiction|]. inversion Hall; subst. reflexivity. }
    split; [exact Gf|]. split; [exact Hall|]. rewrite Gt. cbn. auto.
  Qed.

  (** Agreement of the two results on the animated shape. *)
  Theorem views_agree_anim_shape :
    exists r d,
      parse fx anim_file = Ok r /\ D.parse true anim_file = Ok d /\
      Forall2 frame_agrees (pFrames r) (D.d_frames d) /\ length (pFrames r) = length fs /\
      fCanvasW (pFeat r) = D.ft_w (D.d_feat d) /\ fCanvasH (pFeat r) = D.ft_h (D.d_feat d) /\
      fWidth (pFeat r) = D.ft_w (D.d_feat d) /\ fHeight (pFeat r) = D.ft_h (D.d_feat d) /\
      fHasAnim (pFeat r) = true /\ D.ft_anim (D.d_feat d) = true /\
      fLoopCount (pFeat r) = D.d_loop d.
  Proof.
    destruct p_anim_shape as (r & pfs & Ep & Pf & Pall & Pcw & Pch & Pw & Ph & Pan & Plp).
    destruct d_anim_shape as (d & dfs & Ed & Df & Dall & Dw & Dh & Dan & Dlp).
    exists r, d. unfold parse. rewrite Ep. cbn [bind fst].
    split; [reflexivity|]. split; [exact Ed|]. rewrite Pf, Df.
    split.
    { clear -Pall Dall. revert pfs dfs Pall Dall. induction fs as [|f l IH]; intros pfs dfs Pall Dall.
      - inversion Pall; inversion Dall; constructor.
      - inversion Pall as [|? pf ? pfs' [al ->] Pall']; subst. inversion Dall as [|? df ? dfs' (k & hA & ->) Dall']; subst.
        constructor; [|apply IH; assumption].
        unfold frame_agrees, pframe, dframe. cbn. repeat split; reflexivity. }
    split; [symmetry; apply (forall2_length _ _ _ Pall)|].
    rewrite Pcw, Pch, Pw, Ph, Pan, Plp, Dw, Dh, Dan, Dlp. repeat split; reflexivity.
  Qed.
End AnimShape.

(** ** From the grammar to the shape *)
Module G := RiffGrammar.

Lemma g_anmf_ok_inv cw ch p a :
  bytes_ok p -> len p <= 104857600 -> G.anmf_ok cw ch p = Some a ->
  exists f, p = af_payload f /\ af_ok cw ch f.
Proof.
  intros Hb Hcap H. unfold G.anmf_ok in H.
  do 16 (destruct p as [|? p]; [discriminate|]).
  match type of H with context [negb (?fl / 4 =? 0)] => destruct (Z.eqb_spec (fl / 4) 0) as [Hfl|]; [|discriminate] end.
  cbn [negb] in H.
  match type of Hb with bytes_ok (?z0 :: ?z1 :: ?z2 :: ?z3 :: ?z4 :: ?z5 :: ?z6 :: ?z7 :: ?z8 :: ?z9 :: ?z10 :: ?z11 :: ?z12 :: ?z13 :: ?z14 :: ?z15 :: p) =>
    set (hdr := [z0; z1; z2; z3; z4; z5; z6; z7; z8; z9; z10; z11; z12; z13; z14; z15]);
    assert (Hbh : bytes_ok hdr /\ bytes_ok p) by (apply bytes_ok_app; exact Hb) end.
  destruct Hbh as [Hbh Hbsub].
  destruct (G.chunks (length p) p) as [gcs|] eqn:Ech; [|discriminate].
  destruct (walk_of_chunks _ _ _ Hbsub Ech) as (cs & -> & Hwalk).
  pose proof (walk_ids_ok _ _ _ Hbsub Hwalk) as Hids.
  destruct (G.image_data (map conv cs)) as [[[[iw ih] a'] gcs3]|] eqn:Eim; [|discriminate].
  destruct gcs3; [|discriminate].
  destruct (g_image_data_conv _ _ _ _ _ Hids Eim) as (alph & id & bs & cs3 & a0 & E2 & E3 & Hd & -> & Halph).
  symmetry in E3. apply map_conv_nil in E3. subst cs3.
  apply take_opt_spec in E2. subst cs.
  match type of H with (if ?c then _ else _) = _ => destruct c eqn:Ec; [|discriminate] end.
  rewrite !andb_true_iff in Ec. destruct Ec as (((Ew & Eh) & Ex) & Ey).
  apply Z.eqb_eq in Ew, Eh. apply Z.leb_le in Ex, Ey.
  destruct (walk_optl_inv _ _ _ _ _ Hbsub Hwalk) as (rest2 & fu2 & Eb2 & Hw2 & Hr2 & Hal).
  destruct (walk_cons_inv _ _ _ _ _ Hr2 Hw2) as (rest3 & fu3 & Eb3 & Hw3 & _ & Hbs & _ & _).
  apply walk_nil_inv in Hw3. subst rest3 rest2. rewrite app_nil_r in Eb2.
  exists (mkaf hdr alph id bs).
  split; [unfold af_payload; cbn [af_hdr af_alph af_id af_bs app]; rewrite Eb2; reflexivity|].
  assert (Hsz : len p <= 104857600) by (rewrite !len_cons in Hcap; pose proof (len_nonneg p); lia).
  rewrite Eb2, len_app, len_chunk in Hsz. unfold padded_chunk_size, ChunkHeaderSize in Hsz.
  pose proof (len_nonneg bs). assert (0 <= len (optc FourCCALPH alph)) by apply len_nonneg.
  constructor; cbn [af_hdr af_alph af_id af_bs].
  - reflexivity.
  - exact Hbh.
  - unfold af_fl, hb. cbn [af_hdr]. subst hdr. cbn [nth]. exact Hfl.
  - apply (image_dims_fourcc _ _ _ _ _ Hd).
  - exact Halph.
  - exists a0. unfold af_w, af_h, hb. cbn [af_hdr]. subst hdr. cbn [nth]. rewrite <- Ew, <- Eh. exact Hd.
  - unfold af_x, af_y, af_w, af_h, hb. cbn [af_hdr]. subst hdr. cbn [nth]. split; assumption.
  - split; [exact Hbs|lia].
  - intros al ->. cbn [optc] in *. rewrite len_chunk in *. unfold padded_chunk_size, ChunkHeaderSize in *.
    pose proof (len_nonneg al). lia.
Qed.

Definition mk_anmf (f : aframe) : Z * list Z := (FourCCANMF, af_payload f).

Lemma g_anmf_run_inv cw ch : forall cs alpha n grest,
  ids_ok cs -> Forall (fun c => len (snd c) <= 104857600) cs ->
  G.anmf_run cw ch (map conv cs) = Some (alpha, n, grest) ->
  exists fs cs', cs = map mk_anmf fs ++ cs' /\ grest = map conv cs' /\ n = length fs /\ Forall (af_ok cw ch) fs.
Proof.
  destruct fourcc_ranges as (_ & _ & _ & _ & _ & _ & _ & _).
  assert (RF : 0 <= FourCCANMF < 4294967296) by (unfold FourCCANMF; lia).
  induction cs as [|[t p] cs IH]; intros alpha n grest Hids Hcap H.
  - cbn in H. injection H as <- <- <-. exists [], []. repeat split; constructor.
  - inversion Hids as [|? ? [Ht Hp] Hids']; subst. inversion Hcap as [|? ? Hc Hcap']; subst.
    cbn [fst snd] in *. cbn [map conv fst snd G.anmf_run] in H.
    change G.T_ANMF with (le32 FourCCANMF) in H. rewrite tag_eqb in H by assumption.
    destruct (Z.eqb_spec t FourCCANMF) as [->|Hne].
    + destruct (G.anmf_ok cw ch p) as [a|] eqn:Ea; [|discriminate].
      destruct (G.anmf_run cw ch (map conv cs)) as [[[a' n'] r']|] eqn:Er; [|discriminate].
      injection H as <- <- <-.
      destruct (IH _ _ _ Hids' Hcap' eq_refl) as (fs & cs' & -> & E2 & -> & Hall).
      destruct (g_anmf_ok_inv _ _ _ _ Hp Hc Ea) as (f & -> & Hf).
      exists (f :: fs), cs'. cbn [map app length]. repeat split; auto.
    + injection H as <- <- <-. exists [], ((t, p) :: cs). cbn. repeat split; constructor.
Qed.

Lemma walk_frames_inv : forall fs fuel buf cs',
  bytes_ok buf -> walk fuel buf = Some (map mk_anmf fs ++ cs') ->
  exists rest fuel', buf = frames_bytes fs ++ rest /\ walk fuel' rest = Some cs' /\ bytes_ok rest.
Proof.
  induction fs as [|f fs IH]; intros fuel buf cs' Hb H.
  - exists buf, fuel. auto.
  - cbn [map app mk_anmf] in H.
    destruct (walk_cons_inv _ _ _ _ _ Hb H) as (rest & fuel' & Eb & Hw & Hr & _).
    destruct (IH _ _ _ Hr Hw) as (rest' & fuel'' & Eb' & Hw' & Hr').
    exists rest', fuel''. split; [|auto]. unfold frames_bytes in *. cbn [map concat]. rewrite <- app_assoc.
    rewrite Eb, Eb'. reflexivity.
Qed.

Lemma walk_payload_len : forall cs fuel buf,
  bytes_ok buf -> walk fuel buf = Some cs -> Forall (fun c => len (snd c) <= len buf) cs.
Proof.
  induction cs as [|[i dd] cs IH]; intros fuel buf Hb H; [constructor|].
  destruct (walk_cons_inv _ _ _ _ _ Hb H) as (r' & f' & E & Hw' & Hr' & _).
  pose proof (IH _ _ Hr' Hw') as Hrest.
  rewrite E, len_app, len_chunk. unfold padded_chunk_size, ChunkHeaderSize.
  pose proof (len_nonneg r'). pose proof (len_nonneg dd).
  constructor; [cbn [snd]; lia|].
  eapply Forall_impl; [|exact Hrest]. intros c Hc. cbn beta in *. lia.
Qed.

Lemma g_is_anim_tag hdr x p r :
  length hdr = 12%nat -> 0 <= x < 4294967296 ->
  g_is_anim (hdr ++ chunk x p ++ r) = true -> x = FourCCVP8X.
Proof.
  intros Hh Hx. do 13 (destruct hdr as [|? hdr]; try discriminate). clear Hh.
  destruct fourcc_ranges as (RX & _).
  unfold chunk, le32. cbn [app].
  destruct ((p ++ pad (len p)) ++ r) as [|flags tl] eqn:E; cbn [g_is_anim]; [discriminate|].
  change [x mod 256; (x / 256) mod 256; (x / 65536) mod 256; (x / 16777216) mod 256] with (le32 x).
  change G.T_VP8X with (le32 FourCCVP8X). rewrite tag_eqb by assumption.
  destruct (Z.eqb_spec x FourCCVP8X); [auto|discriminate].
Qed.

Lemma flags_facts_even f :
  0 <= f < 256 -> f mod 2 = 0 -> f / 64 = 0 -> 0 <= f < 64 /\ Z.land f 4294967233 = 0.
Proof.
  intros Hr Hm H64. split; [lia|].
  assert (Hall : forallb (fun n => let v := Z.of_nat n in
                   implb ((v mod 2 =? 0) && (v / 64 =? 0)) (Z.land v 4294967233 =? 0)) (seq 0 256) = true)
    by (vm_compute; reflexivity).
  rewrite forallb_forall in Hall. specialize (Hall (Z.to_nat f) ltac:(apply in_seq; lia)).
  cbv zeta in Hall. rewrite Z2Nat.id in Hall by lia. rewrite Hm, H64 in Hall. cbn in Hall.
  apply Z.eqb_eq in Hall. exact Hall.
Qed.

Definition g_canvas_area (bs : list Z) : Z :=
  match skipn 24 bs with
  | w0 :: w1 :: w2 :: h0 :: h1 :: h2 :: _ => (1 + rd24 [w0; w1; w2]) * (1 + rd24 [h0; h1; h2])
  | _ => 0
  end.

Definition anmf_count (bs : list Z) : Z :=
  match riff_chunks bs with
  | Some cs => len (filter (fun c => fst c =? FourCCANMF) cs)
  | None => 0
  end.

Lemma filter_anmf_frames fs : filter (fun c => fst c =? FourCCANMF) (map mk_anmf fs) = map mk_anmf fs.
Proof. induction fs as [|f fs IH]; [reflexivity|]. cbn [map filter mk_anmf fst]. rewrite Z.eqb_refl, IH. reflexivity. Qed.

Lemma filter_anmf_optl id o : id <> FourCCANMF -> filter (fun c => fst c =? FourCCANMF) (optl id o) = [].
Proof.
  intros H. destruct o; [|reflexivity]. cbn [optl filter fst]. destruct (Z.eqb_spec id FourCCANMF); [contradiction|reflexivity].
Qed.

(** ** views_agree for animations *)
Definition views_agree_anim_statement : Prop :=
  forall fx bs,
    RiffGrammar.wf bs = true -> g_is_anim bs = true -> len bs <= MaxMetadataSize ->
    g_canvas_area bs < MaxImageArea -> anmf_count bs <= MaxFrames ->
    exists r d,
      parse fx bs = Ok r /\ D.parse true bs = Ok d /\
      Forall2 frame_agrees (pFrames r) (D.d_frames d) /\ (0 < length (pFrames r))%nat /\
      fCanvasW (pFeat r) = D.ft_w (D.d_feat d) /\ fCanvasH (pFeat r) = D.ft_h (D.d_feat d) /\
      fWidth (pFeat r) = D.ft_w (D.d_feat d) /\ fHeight (pFeat r) = D.ft_h (D.d_feat d) /\
      fHasAnim (pFeat r) = true /\ D.ft_anim (D.d_feat d) = true /\
      fLoopCount (pFeat r) = D.d_loop d.

(** every well-formed animated file within the size cap has the shape of [anim_file] *)
Lemma g_anim_decompose file :
  RiffGrammar.wf file = true -> g_is_anim file = true -> len file <= MaxMetadataSize ->
  exists flags cw ch icc b0 b1 b2 b3 b4 b5 fs exif xmp,
    file = anim_file flags cw ch icc b0 b1 b2 b3 b4 b5 fs exif xmp /\
    0 <= flags < 64 /\ Z.land flags 4294967233 = 0 /\ Z.testbit flags 1 = true /\
    Z.testbit flags 5 = is_some icc /\ 1 <= cw <= 16777216 /\ 1 <= ch <= 16777216 /\
    Forall (af_ok cw ch) fs /\ fs <> [] /\
    (forall x, icc = Some x -> len x <= 104857600) /\ (forall x, exif = Some x -> len x <= 104857600) /\
    (forall x, xmp = Some x -> len x <= 104857600) /\
    4 + len (anim_body flags cw ch icc b0 b1 b2 b3 b4 b5 fs exif xmp) <= 4294967286 /\
    bytes_ok (anim_tail exif xmp) /\
    g_canvas_area file = cw * ch /\ anmf_count file = len fs.
Proof.
  intros Hg Han Hlen.
  destruct tag_consts as (_ & _ & _ & _ & TX & _ & TAN & _ & TI & TE & TM).
  destruct fourcc_ranges as (RX & RI & _ & RE & RM & _).
  destruct file as [|r0 [|r1 [|r2 [|r3 [|s0 [|s1 [|s2 [|s3 [|w0 [|w1 [|w2 [|w3 body]]]]]]]]]]]]; try discriminate.
  rewrite g_wf_unfold in Hg. rewrite !andb_true_iff in Hg.
  destruct Hg as ((((HR & HW) & Hsz) & Hfa) & Hlay).
  apply bytes_eqb_eq in HR, HW. injection HR as -> -> -> ->. injection HW as -> -> -> ->.
  apply Z.eqb_eq in Hsz. change (G.glen body) with (len body) in Hsz.
  apply forallb_bytes in Hfa.
  assert (Hbody : bytes_ok body /\ is_byte s0 /\ is_byte s1 /\ is_byte s2 /\ is_byte s3).
  { unfold bytes_ok in Hfa.
    repeat match goal with Hf : Forall is_byte (_ :: _) |- _ => inversion Hf; subst; clear Hf end. auto. }
  destruct Hbody as (Hbody & B0 & B1 & B2 & B3).
  destruct (G.chunks (length body) body) as [gcs|] eqn:Ech; [|discriminate].
  destruct (walk_of_chunks _ _ _ Hbody Ech) as (cs & -> & Hwalk).
  pose proof (walk_ids_ok _ _ _ Hbody Hwalk) as Hids.
  pose proof (walk_payload_len _ _ _ Hbody Hwalk) as Hplen.
  unfold MaxMetadataSize in Hlen. rewrite !len_cons in Hlen. pose proof (len_nonneg body) as Hb0.
  (* the file in header ++ body form *)
  assert (Hfile : [82; 73; 70; 70; s0; s1; s2; s3; 87; 69; 66; 80] ++ body =
                  le32 FourCCRIFF ++ le32 (4 + len body) ++ le32 FourCCWEBP ++ body).
  { rewrite <- Hsz. rewrite (le32_rd32 s0 s1 s2 s3 B0 B1 B2 B3). reflexivity. }
  change (82 :: 73 :: 70 :: 70 :: s0 :: s1 :: s2 :: s3 :: 87 :: 69 :: 66 :: 80 :: body)
    with ([82; 73; 70; 70; s0; s1; s2; s3; 87; 69; 66; 80] ++ body) in *.
  (* first chunk *)
  destruct cs as [|[x p] rest]; [discriminate|].
  inversion Hids as [|? ? [Hx Hp] Hrest]; subst. cbn [fst snd] in Hx, Hp.
  destruct (walk_cons_inv _ _ _ _ _ Hbody Hwalk) as (rest1 & fu1 & Eb1 & Hw1 & Hr1 & _).
  assert (Ex : x = FourCCVP8X).
  { rewrite Eb1 in Han. apply (g_is_anim_tag [82; 73; 70; 70; s0; s1; s2; s3; 87; 69; 66; 80] x p rest1 eq_refl Hx Han). }
  subst x. cbn [map conv fst snd g_layout] in Hlay. rewrite TX, bytes_eqb_refl in Hlay.
  unfold G.ext_ok in Hlay. cbv zeta in Hlay.
  destruct p as [|flags [|q1 [|q2 [|q3 [|c0 [|c1 [|c2 [|e0 [|e1 [|e2 [|? ?]]]]]]]]]]]; try discriminate.
  assert (Hbit : negb ((flags / 2) mod 2 =? 0) = true).
  { rewrite Eb1 in Han. rewrite (g_is_anim_of_file [82; 73; 70; 70; s0; s1; s2; s3; 87; 69; 66; 80] _ _ _ _ eq_refl RX) in Han. cbn [cs_is_anim] in Han.
    rewrite Z.eqb_refl in Han. exact Han. }
  rewrite Hbit in Hlay.
  rewrite <- TI, <- TE, <- TM in Hlay.
  rewrite (g_take_opt_conv FourCCICCP rest RI Hrest) in Hlay.
  destruct (take_opt FourCCICCP rest) as [icc rest2] eqn:E1. cbn [fst snd] in Hlay.
  pose proof (ids_ok_take_opt FourCCICCP rest Hrest) as Hr2. rewrite E1 in Hr2. cbn [snd] in Hr2.
  rewrite !andb_true_iff in Hlay.
  destruct Hlay as ((((((Hm & H64) & Hq1) & Hq2) & Hq3) & Hga) & (Hicc & Hanimb)).
  destruct rest2 as [|[t an] cs2]; [discriminate|].
  pose proof (Forall_inv Hr2) as [Ht Han']. pose proof (Forall_inv_tail Hr2) as Hcs2. cbn [fst snd] in Ht, Han'.
  cbn [map conv fst snd] in Hanimb. rewrite !andb_true_iff in Hanimb.
  destruct Hanimb as ((Htag & Hl6) & Hrun).
  change G.T_ANIM with (le32 FourCCANIM) in Htag. rewrite tag_eqb in Htag by (assumption || (unfold FourCCANIM; lia)).
  apply Z.eqb_eq in Htag. subst t. apply Z.eqb_eq in Hl6. change (G.glen an) with (len an) in Hl6.
  set (cw := 1 + rd24 [c0; c1; c2]) in *. set (ch := 1 + rd24 [e0; e1; e2]) in *.
  destruct (G.anmf_run cw ch (map conv cs2)) as [[[alpha n] gcs3]|] eqn:Erun; [|discriminate].
  (* payload caps for the frames *)
  assert (Hcaps : Forall (fun c => len (snd c) <= 104857600) cs2).
  { apply take_opt_spec in E1. pose proof (Forall_inv_tail Hplen) as Hpl'.
    assert (Hsub : Forall (fun c => len (snd c) <= len body) cs2).
    { rewrite E1 in Hpl'. apply Forall_app in Hpl'. destruct Hpl' as [_ Hq]. inversion Hq; assumption. }
    eapply Forall_impl; [|exact Hsub]. intros c Hc. cbn beta in *. lia. }
  destruct (g_anmf_run_inv cw ch _ _ _ _ Hcs2 Hcaps Erun) as (fs & cs' & -> & -> & -> & Hfs).
  assert (Hids' : ids_ok cs').
  { unfold ids_ok in *. apply Forall_app in Hcs2. apply Hcs2. }
  rewrite (g_take_opt_conv FourCCEXIF cs' RE Hids') in Hrun.
  destruct (take_opt FourCCEXIF cs') as [exif cs4] eqn:E3. cbn [fst snd] in Hrun.
  pose proof (ids_ok_take_opt FourCCEXIF cs' Hids') as Hr4. rewrite E3 in Hr4. cbn [snd] in Hr4.
  rewrite (g_take_opt_conv FourCCXMP cs4 RM Hr4) in Hrun.
  destruct (take_opt FourCCXMP cs4) as [xmp cs5] eqn:E4. cbn [fst snd] in Hrun.
  rewrite !andb_true_iff in Hrun.
  destruct Hrun as ((Hn0 & Halpha) & ((Hexif & Hxmp) & Hend)).
  destruct (map conv cs5) eqn:E5; [|discriminate]. apply map_conv_nil in E5. subst cs5.
  apply take_opt_spec in E1, E3, E4. rewrite app_nil_r in E4. subst cs4 cs' rest.
  apply Z.eqb_eq in Hm, H64, Hq1, Hq2, Hq3. subst q1 q2 q3.
  apply eqb_prop in Hicc.
  (* byte facts of the VP8X payload *)
  assert (Hfb : is_byte flags /\ is_byte c0 /\ is_byte c1 /\ is_byte c2 /\ is_byte e0 /\ is_byte e1 /\ is_byte e2).
  { unfold bytes_ok in Hp.
    repeat match goal with Hf : Forall is_byte (_ :: _) |- _ => inversion Hf; subst; clear Hf end. auto 10. }
  destruct Hfb as (Bf & C0 & C1 & C2 & D0 & D1 & D2).
  destruct (flags_facts_even flags Bf Hm H64) as (Hf64 & Hland).
  destruct (flag_bits_bridge flags Bf) as (G5 & _ & _ & _ & G1 & _).
  assert (Hcwr : 1 <= cw <= 16777216) by (subst cw; unfold rd24, is_byte in *; lia).
  assert (Hchr : 1 <= ch <= 16777216) by (subst ch; unfold rd24, is_byte in *; lia).
  assert (Hpay : [flags; 0; 0; 0; c0; c1; c2; e0; e1; e2] = vp8x_payload flags cw ch).
  { unfold vp8x_payload. replace (cw - 1) with (rd24 [c0; c1; c2]) by (subst cw; lia).
    replace (ch - 1) with (rd24 [e0; e1; e2]) by (subst ch; lia).
    rewrite (le24_rd24 c0 c1 c2 C0 C1 C2), (le24_rd24 e0 e1 e2 D0 D1 D2).
    assert (Hle : le32 flags = [flags; 0; 0; 0]).
    { unfold le32. replace (flags mod 256) with flags by lia. replace ((flags / 256) mod 256) with 0 by lia.
      replace ((flags / 65536) mod 256) with 0 by lia. replace ((flags / 16777216) mod 256) with 0 by lia.
      reflexivity. }
    rewrite Hle. reflexivity. }
  (* the body, chunk by chunk *)
  destruct (walk_optl_inv _ _ _ _ _ Hr1 Hw1) as (rest2 & fu2 & Eb2 & Hw2 & Hrb2 & _).
  destruct (walk_cons_inv _ _ _ _ _ Hrb2 Hw2) as (rest3 & fu3 & Eb3 & Hw3 & Hrb3 & _).
  destruct (walk_frames_inv _ _ _ _ Hrb3 Hw3) as (rest4 & fu4 & Eb4 & Hw4 & Hrb4).
  destruct (walk_optl_inv _ _ _ _ _ Hrb4 Hw4) as (rest5 & fu5 & Eb5 & Hw5 & Hrb5 & _).
  rewrite <- (app_nil_r (optl FourCCXMP xmp)) in Hw5.
  destruct (walk_optl_inv _ _ _ _ _ Hrb5 Hw5) as (rest6 & fu6 & Eb6 & Hw6 & _ & _).
  apply walk_nil_inv in Hw6. subst rest6. rewrite app_nil_r in Eb6. subst rest5 rest4 rest3 rest2 rest1.
  do 7 (destruct an as [|? an]; try (cbn in Hl6; discriminate)).
  2:{ exfalso. rewrite !len_cons in Hl6. pose proof (len_nonneg an). lia. }
  rewrite Hpay in Eb1.
  match type of Eb1 with body = chunk _ _ ++ optc _ _ ++ chunk _ [?a0; ?a1; ?a2; ?a3; ?a4; ?a5] ++ _ =>
    set (B0' := a0) in *; set (B1' := a1) in *; set (B2' := a2) in *; set (B3' := a3) in *;
    set (B4' := a4) in *; set (B5' := a5) in * end.
  assert (Ebody : body = anim_body flags cw ch icc B0' B1' B2' B3' B4' B5' fs exif xmp).
  { rewrite Eb1. unfold anim_body, anim_rest, anim_tail. reflexivity. }
  (* caps for the metadata chunks *)
  pose proof (Forall_inv_tail Hplen) as Hpl'.
  assert (Hcap : forall id o tlc hd, Forall (fun c => len (snd c) <= len body) (hd ++ optl id o ++ tlc) ->
                 forall xx, o = Some xx -> len xx <= 104857600).
  { intros id o tlc hd HF xx ->. apply Forall_app in HF. destruct HF as [_ HF]. cbn [optl app] in HF.
    inversion HF as [|? ? Hq _]; subst. cbn [snd] in Hq. lia. }
  assert (Hcicc : forall xx, icc = Some xx -> len xx <= 104857600).
  { apply (Hcap FourCCICCP icc _ [] Hpl'). }
  assert (Hcexif : forall xx, exif = Some xx -> len xx <= 104857600).
  { apply (Hcap FourCCEXIF exif (optl FourCCXMP xmp) (optl FourCCICCP icc ++ (FourCCANIM, [B0'; B1'; B2'; B3'; B4'; B5']) :: map mk_anmf fs)).
    rewrite <- app_assoc. cbn [app]. exact Hpl'. }
  assert (Hcxmp : forall xx, xmp = Some xx -> len xx <= 104857600).
  { apply (Hcap FourCCXMP xmp [] (optl FourCCICCP icc ++ (FourCCANIM, [B0'; B1'; B2'; B3'; B4'; B5']) :: map mk_anmf fs ++ optl FourCCEXIF exif)).
    rewrite app_nil_r. rewrite <- !app_assoc. cbn [app]. rewrite <- app_assoc. exact Hpl'. }
  (* frame count *)
  assert (Hcnt : anmf_count ([82; 73; 70; 70; s0; s1; s2; s3; 87; 69; 66; 80] ++ body) = len fs).
  { remember (anmf_count ([82; 73; 70; 70; s0; s1; s2; s3; 87; 69; 66; 80] ++ body)) as K eqn:Hcount.
    unfold anmf_count in Hcount.
    change ([82; 73; 70; 70; s0; s1; s2; s3; 87; 69; 66; 80] ++ body) with
      (82 :: 73 :: 70 :: 70 :: s0 :: s1 :: s2 :: s3 :: 87 :: 69 :: 66 :: 80 :: body) in Hcount.
    cbn [riff_chunks] in Hcount.
    change (rd32 [82; 73; 70; 70] =? FourCCRIFF) with true in Hcount.
    change (rd32 [87; 69; 66; 80] =? FourCCWEBP) with true in Hcount. cbn [andb] in Hcount.
    rewrite !len_cons in Hcount.
    destruct (Z.eqb_spec (rd32 [s0; s1; s2; s3])
               (1 + (1 + (1 + (1 + (1 + (1 + (1 + (1 + (1 + (1 + (1 + (1 + len body))))))))))) - 8)); [|lia].
    rewrite Hwalk in Hcount. cbn [filter fst] in Hcount. change (FourCCVP8X =? FourCCANMF) with false in Hcount.
    rewrite !filter_app in Hcount. cbn [filter fst] in Hcount. change (FourCCANIM =? FourCCANMF) with false in Hcount.
    rewrite filter_app, filter_anmf_frames in Hcount. rewrite filter_app in Hcount.
    rewrite !filter_anmf_optl in Hcount by discriminate. rewrite !app_nil_r in Hcount. cbn [app] in Hcount.
    unfold len in *. rewrite map_length in Hcount. exact Hcount. }
  assert (Hne : fs <> []).
  { intros ->. cbn in Hn0. discriminate. }
  assert (Hareaw : g_canvas_area ([82; 73; 70; 70; s0; s1; s2; s3; 87; 69; 66; 80] ++ body) = cw * ch).
  { unfold g_canvas_area. rewrite Eb1. unfold chunk, le32. cbn [app skipn].
    rewrite <- Hpay. cbn [app]. reflexivity. }
  assert (Hficc : Z.testbit flags 5 = is_some icc) by (rewrite G5; symmetry; exact Hicc).
  assert (Hanimt : Z.testbit flags 1 = true) by (rewrite G1; exact Hbit).
  assert (Hsize : 4 + len (anim_body flags cw ch icc B0' B1' B2' B3' B4' B5' fs exif xmp) <= 4294967286)
    by (rewrite <- Ebody; lia).
  assert (Htailb : bytes_ok (anim_tail exif xmp)) by (unfold anim_tail; exact Hrb4).
  exists flags, cw, ch, icc, B0', B1', B2', B3', B4', B5', fs, exif, xmp.
  split; [unfold anim_file; rewrite <- Ebody; exact Hfile|].
  split; [exact Hf64|]. split; [exact Hland|]. split; [exact Hanimt|]. split; [exact Hficc|].
  split; [exact Hcwr|]. split; [exact Hchr|]. split; [exact Hfs|]. split; [exact Hne|].
  split; [exact Hcicc|]. split; [exact Hcexif|]. split; [exact Hcxmp|]. split; [exact Hsize|].
  split; [exact Htailb|]. split; [exact Hareaw|exact Hcnt].
Qed.

Theorem views_agree_anim : views_agree_anim_statement.
Proof.
  intros fx file Hg Han Hlen Harea Hcount.
  destruct (g_anim_decompose file Hg Han Hlen) as
    (flags & cw & ch & icc & b0 & b1 & b2 & b3 & b4 & b5 & fs & exif & xmp & -> & Hf64 & Hland & Hanimt & Hficc &
     Hcwr & Hchr & Hfs & Hne & Hcicc & Hcexif & Hcxmp & Hsize & Htailb & Earea & Ecnt).
  rewrite Earea in Harea. rewrite Ecnt in Hcount.
  destruct (views_agree_anim_shape fx flags cw ch icc b0 b1 b2 b3 b4 b5 fs exif xmp
              Hf64 Hland Hanimt Hficc Hcwr Hchr Harea Hfs Hne Hcount Hcicc Hcexif Hcxmp Hsize Htailb)
    as (r & d & Ep & Ed & Hagree & Hlenf & Hrest').
  exists r, d.
  split; [exact Ep|]. split; [exact Ed|]. split; [exact Hagree|].
  split; [rewrite Hlenf; destruct fs; [contradiction|cbn; lia]|exact Hrest'].
Qed.

(** ** Both layouts together *)
Theorem views_agree_two_parsers : forall fx bs,
  RiffGrammar.wf bs = true -> len bs <= MaxMetadataSize ->
  g_canvas_area bs < MaxImageArea -> anmf_count bs <= MaxFrames ->
  exists r d,
    parse fx bs = Ok r /\ D.parse true bs = Ok d /\
    Forall2 frame_agrees (pFrames r) (D.d_frames d) /\ (0 < length (pFrames r))%nat /\
    fCanvasW (pFeat r) = D.ft_w (D.d_feat d) /\ fCanvasH (pFeat r) = D.ft_h (D.d_feat d) /\
    fHasAnim (pFeat r) = D.ft_anim (D.d_feat d) /\
    (fHasAnim (pFeat r) = true -> fLoopCount (pFeat r) = D.d_loop d).
Proof.
  intros fx bs Hg Hlen Harea Hcount. destruct (g_is_anim bs) eqn:Ea.
  - destruct (views_agree_anim fx bs Hg Ea Hlen Harea Hcount) as
      (r & d & Ep & Ed & Hf & Hn & Hcw & Hch & _ & _ & Han & Dan & Hlp).
    exists r, d. repeat split; try assumption; try congruence.
  - destruct (views_agree_still fx bs Hg Ea Hlen) as
      (r & d & Ep & Ed & Hf & Hn & Hcw & Hch & _ & _ & Han & Dan & _).
    exists r, d. repeat split; try assumption; try lia; try congruence.
Qed.

(** ** Canvas area at or above MaxImageArea: both parsers reject
    (container.Parser.parseVP8X always did; mux.Demuxer.parseExtended since commit 07b7141) *)
Lemma g_anim_head file :
  RiffGrammar.wf file = true -> g_is_anim file = true ->
  exists body flags cw ch rest1,
    file = le32 FourCCRIFF ++ le32 (4 + len body) ++ le32 FourCCWEBP ++ body /\
    body = chunk FourCCVP8X (vp8x_payload flags cw ch) ++ rest1 /\
    0 <= flags < 64 /\ Z.land flags 4294967233 = 0 /\
    1 <= cw <= 16777216 /\ 1 <= ch <= 16777216 /\ g_canvas_area file = cw * ch /\
    0 <= 4 + len body < 4294967296.
Proof.
  intros Hg Han.
  destruct tag_consts as (_ & _ & _ & _ & TX & _).
  destruct fourcc_ranges as (RX & _).
  destruct file as [|r0 [|r1 [|r2 [|r3 [|s0 [|s1 [|s2 [|s3 [|w0 [|w1 [|w2 [|w3 body]]]]]]]]]]]]; try discriminate.
  rewrite g_wf_unfold in Hg. rewrite !andb_true_iff in Hg.
  destruct Hg as ((((HR & HW) & Hsz) & Hfa) & Hlay).
  apply bytes_eqb_eq in HR, HW. injection HR as -> -> -> ->. injection HW as -> -> -> ->.
  apply Z.eqb_eq in Hsz. change (G.glen body) with (len body) in Hsz.
  apply forallb_bytes in Hfa.
  assert (Hbody : bytes_ok body /\ is_byte s0 /\ is_byte s1 /\ is_byte s2 /\ is_byte s3).
  { unfold bytes_ok in Hfa.
    repeat match goal with Hf : Forall is_byte (_ :: _) |- _ => inversion Hf; subst; clear Hf end. auto. }
  destruct Hbody as (Hbody & B0 & B1 & B2 & B3).
  destruct (G.chunks (length body) body) as [gcs|] eqn:Ech; [|discriminate].
  destruct (walk_of_chunks _ _ _ Hbody Ech) as (cs & -> & Hwalk).
  pose proof (walk_ids_ok _ _ _ Hbody Hwalk) as Hids.
  assert (Hfile : [82; 73; 70; 70; s0; s1; s2; s3; 87; 69; 66; 80] ++ body =
                  le32 FourCCRIFF ++ le32 (4 + len body) ++ le32 FourCCWEBP ++ body).
  { rewrite <- Hsz. rewrite (le32_rd32 s0 s1 s2 s3 B0 B1 B2 B3). reflexivity. }
  change (82 :: 73 :: 70 :: 70 :: s0 :: s1 :: s2 :: s3 :: 87 :: 69 :: 66 :: 80 :: body)
    with ([82; 73; 70; 70; s0; s1; s2; s3; 87; 69; 66; 80] ++ body) in *.
  destruct cs as [|[x p] rest]; [discriminate|].
  pose proof (Forall_inv Hids) as [Hx Hp]. cbn [fst snd] in Hx, Hp.
  destruct (walk_cons_inv _ _ _ _ _ Hbody Hwalk) as (rest1 & fu1 & Eb1 & _).
  assert (Ex : x = FourCCVP8X).
  { rewrite Eb1 in Han. apply (g_is_anim_tag [82; 73; 70; 70; s0; s1; s2; s3; 87; 69; 66; 80] x p rest1 eq_refl Hx Han). }
  subst x. cbn [map conv fst snd g_layout] in Hlay. rewrite TX, bytes_eqb_refl in Hlay.
  unfold G.ext_ok in Hlay. cbv zeta in Hlay.
  destruct p as [|flags [|q1 [|q2 [|q3 [|c0 [|c1 [|c2 [|e0 [|e1 [|e2 [|? ?]]]]]]]]]]]; try discriminate.
  destruct (G.take_opt G.T_ICCP (map conv rest)) as [icc0 cs1].
  rewrite !andb_true_iff in Hlay.
  destruct Hlay as ((((((Hm & H64) & Hq1) & Hq2) & Hq3) & _) & _).
  apply Z.eqb_eq in Hm, H64, Hq1, Hq2, Hq3. subst q1 q2 q3.
  assert (Hfb : is_byte flags /\ is_byte c0 /\ is_byte c1 /\ is_byte c2 /\ is_byte e0 /\ is_byte e1 /\ is_byte e2).
  { unfold bytes_ok in Hp.
    repeat match goal with Hf : Forall is_byte (_ :: _) |- _ => inversion Hf; subst; clear Hf end. auto 10. }
  destruct Hfb as (Bf & C0 & C1 & C2 & D0 & D1 & D2).
  destruct (flags_facts_even flags Bf Hm H64) as (Hf64 & Hland).
  set (cw := 1 + rd24 [c0; c1; c2]). set (ch := 1 + rd24 [e0; e1; e2]).
  assert (Hcwr : 1 <= cw <= 16777216) by (subst cw; unfold rd24, is_byte in *; lia).
  assert (Hchr : 1 <= ch <= 16777216) by (subst ch; unfold rd24, is_byte in *; lia).
  assert (Hpay : [flags; 0; 0; 0; c0; c1; c2; e0; e1; e2] = vp8x_payload flags cw ch).
  { unfold vp8x_payload. replace (cw - 1) with (rd24 [c0; c1; c2]) by (subst cw; lia).
    replace (ch - 1) with (rd24 [e0; e1; e2]) by (subst ch; lia).
    rewrite (le24_rd24 c0 c1 c2 C0 C1 C2), (le24_rd24 e0 e1 e2 D0 D1 D2).
    assert (Hle : le32 flags = [flags; 0; 0; 0]).
    { unfold le32. replace (flags mod 256) with flags by lia. replace ((flags / 256) mod 256) with 0 by lia.
      replace ((flags / 65536) mod 256) with 0 by lia. replace ((flags / 16777216) mod 256) with 0 by lia.
      reflexivity. }
    rewrite Hle. reflexivity. }
  exists body, flags, cw, ch, rest1.
  split; [exact Hfile|]. split; [rewrite <- Hpay; exact Eb1|].
  split; [exact Hf64|]. split; [exact Hland|]. split; [exact Hcwr|]. split; [exact Hchr|].
  split.
  - unfold g_canvas_area. rewrite Eb1. unfold chunk, le32. cbn [app skipn]. reflexivity.
  - pose proof (rd32_bound s0 s1 s2 s3 [] B0 B1 B2 B3). lia.
Qed.

Definition big_canvas_both_reject_statement : Prop :=
  forall fx bs,
    RiffGrammar.wf bs = true -> g_is_anim bs = true -> len bs <= MaxMetadataSize ->
    MaxImageArea <= g_canvas_area bs ->
    parse fx bs = Err EInvalidImage /\ D.parse true bs = Err D.E_vp8x.

Theorem big_canvas_both_reject : big_canvas_both_reject_statement.
Proof.
  intros fx file Hg Han Hlen Hbig.
  destruct (g_anim_head file Hg Han) as (body & flags & cw & ch & rest1 & Hfile & Eb1 & Hf64 & Hland & Hcw & Hch & Harea & Hrs).
  rewrite Harea in Hbig. destruct fourcc_ranges as (HX & _).
  assert (Hlb : len file = 12 + len body) by (rewrite Hfile, !len_app, !len_le32; lia).
  unfold MaxMetadataSize in Hlen. pose proof (len_nonneg body).
  assert (Hlen10 : len (vp8x_payload flags cw ch) = 10) by reflexivity.
  assert (Hl18 : len (chunk FourCCVP8X (vp8x_payload flags cw ch)) = 18) by reflexivity.
  pose proof (len_nonneg rest1).
  split.
  - unfold parse. rewrite Hfile.
    assert (Hb18 : 18 <= len body) by (rewrite Eb1, len_app, Hl18; lia).
    rewrite (parse_ex_written fx (4 + len body) body FourCCVP8X (vp8x_payload flags cw ch) rest1 eq_refl
               ltac:(unfold MaxChunkPayload; lia) Eb1 HX).
    change (FourCCVP8X =? FourCCVP8X) with true. cbv iota. rewrite Eb1.
    unfold parse_vp8x.
    rewrite read_header_chunk by (rewrite ?Hlen10; unfold MaxChunkPayload; lia). cbn [bind].
    rewrite Hlen10. unfold VP8XChunkSize, ChunkHeaderSize. change (negb (10 =? 10)) with false. cbv iota.
    change (10 mod 2) with 0. change (8 + (10 + 0)) with 18. change (8 + 10) with 18.
    destruct (Z.gtb_spec 18 (len (chunk FourCCVP8X (vp8x_payload flags cw ch) ++ rest1))) as [Hgt|_];
      [rewrite len_app, Hl18 in Hgt; lia|].
    change 18 with (8 + len (vp8x_payload flags cw ch)) at 1. rewrite payload_of_chunk. cbn [bind].
    rewrite (vp8x_payload_explicit flags cw ch Hf64) at 1. cbv iota.
    rewrite Hland. change (negb (0 =? 0)) with false. cbv iota.
    rewrite !rd24_le24' by lia.
    replace (1 + (cw - 1)) with cw by lia. replace (1 + (ch - 1)) with ch by lia.
    destruct (Z.geb_spec (cw * ch) MaxImageArea); [reflexivity|lia].
  - rewrite Hfile.
    rewrite (d_parse_written (4 + len body) body FourCCVP8X (vp8x_payload flags cw ch) rest1 eq_refl Hrs Eb1 HX).
    change (FourCCVP8X =? D.FCC_VP8X) with true. cbv iota. rewrite Eb1.
    unfold D.parse_extended.
    rewrite d_read_chunk by (exact HX || (rewrite Hlen10; lia)).
    cbn [bind D.c_size D.c_data]. rewrite Hlen10.
    unfold D.VP8XChunkSize. change (10 <? 10) with false. cbv iota.
    rewrite (vp8x_payload_explicit flags cw ch Hf64) at 1. cbv iota.
    assert (Hcw' : (cw - 1) mod 256 + 256 * (((cw - 1) / 256) mod 256) + 65536 * (((cw - 1) / 65536) mod 256) + 1 = cw) by lia.
    assert (Hch' : (ch - 1) mod 256 + 256 * (((ch - 1) / 256) mod 256) + 65536 * (((ch - 1) / 65536) mod 256) + 1 = ch) by lia.
    rewrite Hcw', Hch'. unfold D.MaxImageArea. unfold MaxImageArea in Hbig.
    destruct (Z.geb_spec (cw * ch) 1073741824); [reflexivity|lia].
Qed.
