(** C16, shared limits of the two container parsers as explicit both-reject theorems,
    on the chunk shapes [RiffGrammar.wf] prescribes (the shapes of
    [ParserDemuxAnim.views_agree_anim_shape] / [ParserDemuxAgree]):

    - more than MaxFrames (10000) ANMF chunks: container.Parser rejects the 10001st
      before parsing it (EInvalidChunk), mux.Demuxer after parsing it (E_toomany);
    - an ICCP chunk of more than MaxMetadataSize (100 MB) in an animated file: both
      reject it (EInvalidChunk / E_meta).

    Not a shared limit: in a STILL, EXIF / XMP chunks follow the image chunk, where
    container.Parser has already returned; a still with a trailing EXIF chunk of
    100 MB + 1 byte is accepted by GetFeatures / Decode and rejected by mux.Demuxer
    (observed on the real code; harness/c16 records it as a note). *)
From Coq Require Import List ZArith Lia Bool.
From Coq Require Import ZifyBool ZifyNat.
From Webp Require Import Base.Res Base.Bytes Riff.ParserModel Riff.ParserLemmas Riff.ParserSpec
     Riff.WriterModel Riff.WriterProofs Riff.MetadataProofs Riff.ParserProofs Riff.WriterTheorems
     Riff.ParserSpecProofs Riff.ParserGrammar Riff.ParserDemuxAgree Riff.ParserDemuxAnim.
From Webp Require Riff.DemuxModel Riff.RiffGrammar.
Import ListNotations.
Open Scope Z_scope.

Lemma frames_bytes_app a b : frames_bytes (a ++ b) = frames_bytes a ++ frames_bytes b.
Proof. unfold frames_bytes. rewrite map_app, concat_app. reflexivity. Qed.

Lemma frames_bytes_cons f fs : frames_bytes (f :: fs) = chunk FourCCANMF (af_payload f) ++ frames_bytes fs.
Proof. reflexivity. Qed.

Lemma forall2_len {A B} (R : A -> B -> Prop) l1 l2 : Forall2 R l1 l2 -> len l1 = len l2.
Proof. intros H. unfold len. rewrite (forall2_length _ _ _ H). reflexivity. Qed.

Section TooManyFrames.
  Variables (fx : bool) (flags cw ch : Z) (icc : option (list Z)) (b0 b1 b2 b3 b4 b5 : Z)
            (fs : list aframe) (exif xmp : option (list Z)).

  Hypothesis Hf64 : 0 <= flags < 64.
  Hypothesis Hland : Z.land flags 4294967233 = 0.
  Hypothesis Hanim : Z.testbit flags 1 = true.
  Hypothesis Hficc : Z.testbit flags 5 = is_some icc.
  Hypothesis Hcw : 1 <= cw <= 16777216.
  Hypothesis Hch : 1 <= ch <= 16777216.
  Hypothesis Harea : cw * ch < MaxImageArea.
  Hypothesis Hfs : Forall (af_ok cw ch) fs.
  Hypothesis Hcicc : forall x, icc = Some x -> len x <= 104857600.
  Hypothesis Hsize : 4 + len (anim_body flags cw ch icc b0 b1 b2 b3 b4 b5 fs exif xmp) <= 4294967286.
  Hypothesis Hmany : MaxFrames < len fs.

  Definition tl_ := anim_tail exif xmp.
  Definition rest_ := anim_rest icc b0 b1 b2 b3 b4 b5 fs exif xmp.
  Definition core_ := chunk FourCCANIM [b0; b1; b2; b3; b4; b5] ++ frames_bytes fs ++ tl_.

  (** the first MaxFrames frames, the one too many, the others *)
  Lemma split_frames : exists fs1 f fs2, fs = fs1 ++ f :: fs2 /\ length fs1 = Z.to_nat 10000.
  Proof.
    unfold MaxFrames, len in Hmany.
    exists (firstn (Z.to_nat 10000) fs). destruct (skipn (Z.to_nat 10000) fs) as [|f fs2] eqn:Es.
    - exfalso. apply (f_equal (@length aframe)) in Es. rewrite skipn_length in Es. cbn in Es. lia.
    - exists f, fs2. split; [rewrite <- Es; symmetry; apply firstn_skipn|]. rewrite firstn_length. lia.
  Qed.

  Lemma p_core_reject fuel chunks1 : (Z.to_nat 10003 <= fuel)%nat ->
    parse_vp8x_chunks fuel fx (feat0 flags cw ch icc) [] chunks1 0 core_ = Err EInvalidChunk.
  Proof.
    intros Hfu. destruct split_frames as (fs1 & f & fs2 & Efs & Hl1).
    assert (Hfs1 : Forall (af_ok cw ch) fs1 /\ af_ok cw ch f).
    { rewrite Efs in Hfs. apply Forall_app in Hfs. destruct Hfs as [H1 H2]. split; [exact H1|apply (Forall_inv H2)]. }
    destruct Hfs1 as [Hfs1 Hf].
    replace fuel with (S (length fs1 + S (fuel - Z.to_nat 10002)))%nat by lia.
    unfold core_. rewrite p_step_anim. change (0 + 1) with 1.
    rewrite Efs, frames_bytes_app, frames_bytes_cons, <- !app_assoc.
    destruct (p_frames_loop cw ch fx (set_anim (feat0 flags cw ch icc) (rd32 [b0; b1; b2; b3]) (rd16 [b4; b5]))
                chunks1 1 (chunk FourCCANMF (af_payload f) ++ frames_bytes fs2 ++ tl_)
                Harea ltac:(lia) ltac:(lia) ltac:(lia) fs1 (S (fuel - Z.to_nat 10002))%nat [] Hfs1) as (pfs & Hall & Eq).
    { change (len (@nil FrameInfo)) with 0. unfold MaxFrames, len. rewrite Hl1. lia. }
    rewrite Eq. cbn [app].
    assert (Hlp : len pfs = 10000) by (rewrite <- (forall2_len _ _ _ Hall); unfold len; rewrite Hl1; reflexivity).
    cbn [parse_vp8x_chunks]. unfold ChunkHeaderSize.
    pose proof (len_chunk_app_ge FourCCANMF (af_payload f) (frames_bytes fs2 ++ tl_)).
    destruct (Z.ltb_spec (len (chunk FourCCANMF (af_payload f) ++ frames_bytes fs2 ++ tl_)) 8); [lia|].
    rewrite chunk_at_chunk by (unfold FourCCANMF; lia || (unfold MaxChunkPayload; apply (af_payload_len cw ch); exact Hf)).
    cbn [bind].
    change (FourCCANMF =? FourCCVP8X) with false. change (FourCCANMF =? FourCCANIM) with false.
    change (FourCCANMF =? FourCCANMF) with true. cbv iota.
    change (1 =? 0) with false. cbv iota. unfold MaxFrames. rewrite Hlp.
    change (10000 >=? 10000) with true. reflexivity.
  Qed.

  Lemma d_core_reject fuel dd : (Z.to_nat 10003 <= fuel)%nat -> D.d_frames dd = [] ->
    D.ext_loop fuel core_ dd = Err D.E_toomany.
  Proof.
    intros Hfu Hfr. destruct split_frames as (fs1 & f & fs2 & Efs & Hl1).
    assert (Hfs1 : Forall (af_ok cw ch) fs1 /\ af_ok cw ch f).
    { rewrite Efs in Hfs. apply Forall_app in Hfs. destruct Hfs as [H1 H2]. split; [exact H1|apply (Forall_inv H2)]. }
    destruct Hfs1 as [Hfs1 Hf].
    replace fuel with (S (length fs1 + S (fuel - Z.to_nat 10002)))%nat by lia.
    unfold core_.
    destruct (d_step_anim (length fs1 + S (fuel - Z.to_nat 10002)) b0 b1 b2 b3 b4 b5 (frames_bytes fs ++ tl_) dd)
      as (d1 & E1 & F1 & _ & _).
    rewrite E1. rewrite Efs, frames_bytes_app, frames_bytes_cons, <- !app_assoc.
    destruct (d_frames_loop cw ch (chunk FourCCANMF (af_payload f) ++ frames_bytes fs2 ++ tl_)
                Harea ltac:(lia) ltac:(lia) fs1 (S (fuel - Z.to_nat 10002))%nat d1 Hfs1) as (d2 & dfs & Hall & E2 & F2 & _ & _).
    { rewrite F1, Hfr. change (D.len (@nil D.frame_info)) with 0. unfold len. rewrite Hl1. lia. }
    rewrite E2.
    assert (Hl2 : D.len (D.d_frames d2) = 10000).
    { rewrite F2, F1, Hfr. cbn [app]. unfold D.len. rewrite <- (forall2_length _ _ _ Hall), Hl1. reflexivity. }
    set (c := D.mkchunk FourCCANMF (len (af_payload f)) (af_payload f)).
    destruct (d_parse_anmf_gen cw ch f (D.add_chunk d2 c) Hf Harea ltac:(lia) ltac:(lia)) as [hA Ep].
    cbn [D.add_chunk D.d_frames] in Ep. rewrite Hl2 in Ep. unfold D.maxFrames in Ep.
    change (10000 >=? 10000) with true in Ep. cbv iota in Ep.
    cbn [D.ext_loop]. unfold D.ChunkHeaderSize. change (@D.len Z) with (@len Z).
    pose proof (len_chunk_app_ge FourCCANMF (af_payload f) (frames_bytes fs2 ++ tl_)).
    destruct (Z.ltb_spec (len (chunk FourCCANMF (af_payload f) ++ frames_bytes fs2 ++ tl_)) 8); [lia|].
    rewrite d_read_chunk by (unfold FourCCANMF; lia || apply (af_payload_len cw ch); exact Hf).
    fold c. unfold D.ext_dispatch. cbn [D.c_id D.c_data c].
    change (FourCCANMF =? D.FCC_ICCP) with false. change (FourCCANMF =? D.FCC_EXIF) with false.
    change (FourCCANMF =? D.FCC_XMP) with false. change (FourCCANMF =? D.FCC_ANIM) with false.
    change (FourCCANMF =? D.FCC_ANMF) with true. cbv iota.
    fold c. rewrite Ep. reflexivity.
  Qed.

  Lemma rest_len : (Z.to_nat 10010 <= length rest_)%nat.
  Proof.
    unfold rest_, anim_rest. rewrite !app_length. pose proof (frames_bytes_len fs).
    unfold MaxFrames, len in Hmany. lia.
  Qed.

  Theorem too_many_frames_shape :
    parse fx (anim_file flags cw ch icc b0 b1 b2 b3 b4 b5 fs exif xmp) = Err EInvalidChunk /\
    D.parse true (anim_file flags cw ch icc b0 b1 b2 b3 b4 b5 fs exif xmp) = Err D.E_toomany.
  Proof.
    destruct fourcc_ranges as (HX & _). pose proof rest_len as Hrl. fold rest_ in *.
    split.
    - unfold parse, anim_file.
      rewrite (parse_ex_written fx _ _ FourCCVP8X (vp8x_payload flags cw ch) rest_);
        [|reflexivity
         |unfold MaxChunkPayload; pose proof (len_chunk_app_ge FourCCVP8X (vp8x_payload flags cw ch) rest_);
          unfold rest_ in *; fold (anim_body flags cw ch icc b0 b1 b2 b3 b4 b5 fs exif xmp) in *; lia
         |reflexivity|exact HX].
      change (FourCCVP8X =? FourCCVP8X) with true. cbv iota. unfold anim_body. fold rest_.
      rewrite parse_vp8x_written_canvas by assumption. rewrite Hanim, Hficc. fold (feat0 flags cw ch icc).
      assert (Hc : parse_vp8x_chunks (S (length rest_)) fx (feat0 flags cw ch icc) [] [] 0 rest_ = Err EInvalidChunk).
      { unfold rest_, anim_rest in *. fold tl_. fold core_. destruct icc as [ic|] eqn:Eic; cbn [optc app] in *.
        - rewrite chunks_step_iccp by (first [unfold feat0; cbn [fHasICCP]; reflexivity
                                            |unfold MaxMetadataSize; apply Hcicc; reflexivity]).
          rewrite <- Eic. apply p_core_reject. unfold core_, tl_. lia.
        - rewrite <- Eic. apply p_core_reject. unfold core_, tl_ in *. lia. }
      rewrite Hc. reflexivity.
    - unfold anim_file.
      rewrite (d_parse_written (4 + len (anim_body flags cw ch icc b0 b1 b2 b3 b4 b5 fs exif xmp))
                 (anim_body flags cw ch icc b0 b1 b2 b3 b4 b5 fs exif xmp) FourCCVP8X (vp8x_payload flags cw ch) rest_ eq_refl
                 ltac:(pose proof (len_nonneg (anim_body flags cw ch icc b0 b1 b2 b3 b4 b5 fs exif xmp)); lia) eq_refl HX).
      change (FourCCVP8X =? D.FCC_VP8X) with true. cbv iota. unfold anim_body. fold rest_.
      unfold D.parse_extended.
      rewrite d_read_chunk by (exact HX || (change (len (vp8x_payload flags cw ch)) with 10; lia)).
      cbn [bind D.c_size D.c_data]. change (len (vp8x_payload flags cw ch)) with 10.
      unfold D.VP8XChunkSize. change (10 <? 10) with false. cbv iota.
      rewrite (vp8x_payload_explicit flags cw ch Hf64) at 1. cbv iota.
      rewrite d_rest. cbn [bind].
      assert (Hcw' : (cw - 1) mod 256 + 256 * (((cw - 1) / 256) mod 256) + 65536 * (((cw - 1) / 65536) mod 256) + 1 = cw) by lia.
      assert (Hch' : (ch - 1) mod 256 + 256 * (((ch - 1) / 256) mod 256) + 65536 * (((ch - 1) / 65536) mod 256) + 1 = ch) by lia.
      rewrite Hcw', Hch'.
      try (match goal with |- context [cw * ch >=? D.MaxImageArea] =>
             destruct (Z.geb_spec (cw * ch) D.MaxImageArea) as [Hbad|_];
             [exfalso; unfold D.MaxImageArea in Hbad; unfold MaxImageArea in Harea; lia|] end).
      match goal with |- context [D.ext_loop ?fu rest_ ?d0] =>
        assert (El : D.ext_loop fu rest_ d0 = Err D.E_toomany) end.
      { unfold rest_, anim_rest in *. fold tl_. fold core_. destruct icc as [ic|] eqn:Eic; cbn [optc app] in *.
        - match goal with |- D.ext_loop (S ?n) _ ?d0 = _ =>
            destruct (d_step_iccp n ic core_ d0 (Hcicc ic eq_refl)) as (d1 & E1 & F1 & _ & _) end.
          rewrite E1. apply d_core_reject; [|rewrite F1; reflexivity]. unfold core_, tl_. lia.
        - apply d_core_reject; [unfold core_, tl_ in *; lia|reflexivity]. }
      rewrite El. reflexivity.
  Qed.
End TooManyFrames.

(** ** An ICCP chunk above the metadata cap in an animated file: both reject *)
Section BigIccp.
  Variables (fx : bool) (flags cw ch : Z) (ic : list Z) (rest : list Z).
  Hypothesis Hf64 : 0 <= flags < 64.
  Hypothesis Hland : Z.land flags 4294967233 = 0.
  Hypothesis Hficc : Z.testbit flags 5 = true.
  Hypothesis Hcw : 1 <= cw <= 16777216.
  Hypothesis Hch : 1 <= ch <= 16777216.
  Hypothesis Harea : cw * ch < MaxImageArea.
  Hypothesis Hbig : MaxMetadataSize < len ic.
  Definition big_body := chunk FourCCVP8X (vp8x_payload flags cw ch) ++ chunk FourCCICCP ic ++ rest.
  Definition big_file := le32 FourCCRIFF ++ le32 (4 + len big_body) ++ le32 FourCCWEBP ++ big_body.
  Hypothesis Hsize : 4 + len big_body <= 4294967286.

  Theorem big_iccp_both_reject :
    parse fx big_file = Err EInvalidChunk /\ D.parse true big_file = Err D.E_meta.
  Proof.
    destruct fourcc_ranges as (HX & HI & _).
    assert (Hlic : len ic <= 4294967286).
    { unfold big_body in Hsize. rewrite !len_app, !len_chunk in Hsize. unfold padded_chunk_size, ChunkHeaderSize in Hsize.
      pose proof (len_nonneg rest). pose proof (len_nonneg (vp8x_payload flags cw ch)). lia. }
    split.
    - unfold parse, big_file.
      rewrite (parse_ex_written fx _ _ FourCCVP8X (vp8x_payload flags cw ch) (chunk FourCCICCP ic ++ rest));
        [|reflexivity
         |unfold MaxChunkPayload; pose proof (len_chunk_app_ge FourCCVP8X (vp8x_payload flags cw ch) (chunk FourCCICCP ic ++ rest));
          fold big_body in *; lia
         |reflexivity|exact HX].
      change (FourCCVP8X =? FourCCVP8X) with true. cbv iota. unfold big_body.
      rewrite parse_vp8x_written_canvas by assumption. rewrite Hficc.
      cbn [parse_vp8x_chunks]. unfold ChunkHeaderSize.
      pose proof (len_chunk_app_ge FourCCICCP ic rest).
      destruct (Z.ltb_spec (len (chunk FourCCICCP ic ++ rest)) 8); [lia|].
      rewrite chunk_at_chunk by (unfold FourCCICCP, MaxChunkPayload; lia). cbn [bind].
      change (FourCCICCP =? FourCCVP8X) with false. change (FourCCICCP =? FourCCANIM) with false.
      change (FourCCICCP =? FourCCANMF) with false. change (is_image_fourcc FourCCICCP) with false.
      change (FourCCICCP =? FourCCALPH) with false. cbn [orb]. change (FourCCICCP =? FourCCICCP) with true. cbv iota.
      unfold add_meta. cbn [fHasICCP].
      destruct (Z.gtb_spec (len ic) MaxMetadataSize); [reflexivity|lia].
    - unfold big_file.
      rewrite (d_parse_written (4 + len big_body) big_body FourCCVP8X (vp8x_payload flags cw ch) (chunk FourCCICCP ic ++ rest) eq_refl
                 ltac:(pose proof (len_nonneg big_body); lia) eq_refl HX).
      change (FourCCVP8X =? D.FCC_VP8X) with true. cbv iota. unfold big_body.
      unfold D.parse_extended.
      rewrite d_read_chunk by (exact HX || (change (len (vp8x_payload flags cw ch)) with 10; lia)).
      cbn [bind D.c_size D.c_data]. change (len (vp8x_payload flags cw ch)) with 10.
      unfold D.VP8XChunkSize. change (10 <? 10) with false. cbv iota.
      rewrite (vp8x_payload_explicit flags cw ch Hf64) at 1. cbv iota.
      rewrite d_rest. cbn [bind].
      assert (Hcw' : (cw - 1) mod 256 + 256 * (((cw - 1) / 256) mod 256) + 65536 * (((cw - 1) / 65536) mod 256) + 1 = cw) by lia.
      assert (Hch' : (ch - 1) mod 256 + 256 * (((ch - 1) / 256) mod 256) + 65536 * (((ch - 1) / 65536) mod 256) + 1 = ch) by lia.
      rewrite Hcw', Hch'.
      try (match goal with |- context [cw * ch >=? D.MaxImageArea] =>
             destruct (Z.geb_spec (cw * ch) D.MaxImageArea) as [Hbad|_];
             [exfalso; unfold D.MaxImageArea in Hbad; unfold MaxImageArea in Harea; lia|] end).
      cbn [D.ext_loop]. unfold D.ChunkHeaderSize. change (@D.len Z) with (@len Z).
      pose proof (len_chunk_app_ge FourCCICCP ic rest).
      destruct (Z.ltb_spec (len (chunk FourCCICCP ic ++ rest)) 8); [lia|].
      rewrite d_read_chunk by (unfold FourCCICCP; lia).
      unfold D.ext_dispatch. cbn [D.c_id D.c_data]. change (FourCCICCP =? D.FCC_ICCP) with true. cbv iota.
      unfold D.maxMetadataSize. change (@D.len Z) with (@len Z). unfold MaxMetadataSize in Hbig.
      destruct (Z.gtb_spec (len ic) 104857600); [|lia]. reflexivity.
  Qed.
End BigIccp.

(** ** From the grammar: every well-formed animated file with more than MaxFrames frames *)
Theorem too_many_frames_both_reject : forall fx bs,
  RiffGrammar.wf bs = true -> g_is_anim bs = true -> len bs <= MaxMetadataSize ->
  g_canvas_area bs < MaxImageArea -> MaxFrames < anmf_count bs ->
  parse fx bs = Err EInvalidChunk /\ D.parse true bs = Err D.E_toomany.
Proof.
  intros fx file Hg Han Hlen Harea Hcount.
  destruct (g_anim_decompose file Hg Han Hlen) as
    (flags & cw & ch & icc & b0 & b1 & b2 & b3 & b4 & b5 & fs & exif & xmp & -> & Hf64 & Hland & Hanimt & Hficc &
     Hcwr & Hchr & Hfs & Hne & Hcicc & Hcexif & Hcxmp & Hsize & Htailb & Earea & Ecnt).
  rewrite Earea in Harea. rewrite Ecnt in Hcount.
  apply too_many_frames_shape; assumption.
Qed.
