(** C17, codec layer, VP8 (lossy): the boolean entropy decoder of RFC 6386
    ([Vp8.Vp8Bool], the specification decoder of the VP8 builder) on a byte string
    [l] and on an extension [l ++ ext].

    The decoder appends zero bytes once the data is exhausted, so decoding is NOT
    prefix-monotone in general ([bool_past_end_differs]).  But [read_bool] records
    in [bd_past] whether the 8-bit window that decides the bit reached beyond the
    data ([bd_lim < bd_pos]); as long as that does not happen, the decoder over
    [l] and the decoder over [l ++ ext] return the same bits and stay related
    ([read_bool_sim] and its lifts to literals, signed values and trees).  Since
    [Vp8Spec.decode_yuv] turns a past-end read in any partition into E_TRUNC, and
    appending bytes to a VP8 frame only extends its LAST token partition, this is
    the arithmetic core of: a prefix of a VP8 frame is rejected or yields the same
    picture. *)
From Coq Require Import List ZArith Lia Bool.
From Coq Require Import ZifyBool ZifyNat.
From Webp Require Import Base.Bytes Vp8.Vp8Bool.
Import ListNotations.
Open Scope Z_scope.

Definition zlen (l : list Z) : Z := Z.of_nat (length l).

(** number of bits of the 16-bit window that lie beyond the data, at bit position [pos] *)
Definition kof (t : Z) : Z := if t <=? 0 then 0 else if 16 <=? t then 16 else t.

Section Sim.
  Variables (l ext : list Z).
  Hypothesis Hl : bytes_ok l.
  Hypothesis Hext : bytes_ok ext.
  Let n := zlen l.

  Record rel (d d' : bdec) : Prop := {
    r_range : bd_range d = bd_range d';
    r_count : bd_count d = bd_count d';
    r_pos : bd_pos d = bd_pos d';
    r_pos0 : 0 <= bd_pos d;
    r_cnt : bd_count d = bd_pos d mod 8;
    r_rest : bd_rest d = skipn (Z.to_nat (2 + bd_pos d / 8)) l;
    r_rest' : bd_rest d' = skipn (Z.to_nat (2 + bd_pos d / 8)) (l ++ ext);
    r_lim : bd_lim d = 8 * (n - 1);
    r_lim' : bd_lim d <= bd_lim d';
    r_v : 0 <= bd_value d < 65536;
    r_v' : 0 <= bd_value d' < 65536;
    r_c0 : bd_value d mod 2 ^ bd_count d = 0;
    r_c0' : bd_value d' mod 2 ^ bd_count d = 0;
    r_k : bd_value d mod 2 ^ kof (bd_pos d + 16 - 8 * n) = 0;
    r_d : bd_value d <= bd_value d' < bd_value d + 2 ^ kof (bd_pos d + 16 - 8 * n) }.

  Lemma skipn_head_app (c : nat) :
    (c < length l)%nat ->
    exists b, skipn c l = b :: skipn (S c) l /\ skipn c (l ++ ext) = b :: skipn (S c) (l ++ ext) /\ 0 <= b < 256.
  Proof.
    intros Hc. destruct (skipn c l) as [|b tl] eqn:E.
    - apply (f_equal (@length Z)) in E. rewrite skipn_length in E. cbn in E. lia.
    - exists b. split; [f_equal; symmetry; apply (ParserSpecProofs_skipn_S c l b tl E)|].
  Abort.
End Sim.
