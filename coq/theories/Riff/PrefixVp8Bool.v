(** C17, codec layer, VP8 (lossy): the boolean entropy decoder of RFC 6386
    ([Vp8.Vp8Bool], the specification decoder of the VP8 builder) on a byte string
    [l] and on an extension [l ++ ext].

    The decoder appends zero bytes once the data is exhausted, so decoding is NOT
    prefix-monotone in general ([bool_past_end_differs]).  But [read_bool] records
    in [bd_past] whether the 8-bit window that decides the bit reached beyond the
    data ([bd_lim < bd_pos]); as long as that does not happen, the decoder over
    [l] and the decoder over [l ++ ext] return the same bits and stay related
    ([read_bool_sim] and its lifts to literals, signed values and trees).  Since
    [Vp8Spec.decode_yuv] turns a past-end read in any partition into E_TRUNC, and
    appending bytes to a VP8 frame only extends its LAST token partition, this is
    the arithmetic core of: a prefix of a VP8 frame is rejected or yields the same
    picture. *)
From Coq Require Import List ZArith Lia Bool.
From Coq Require Import ZifyBool ZifyNat.
From Webp Require Import Base.Bytes Vp8.Vp8Bool.
Import ListNotations.
Open Scope Z_scope.

Definition zlen (l : list Z) : Z := Z.of_nat (length l).

(** number of bits of the 16-bit window that lie beyond the data; [t] = pos + 16 - 8*len *)
Definition kof (t : Z) : Z := if t <=? 0 then 0 else if 16 <=? t then 16 else t.

(** [2 ^ x] behind a name, so that [lia] treats powers with a variable exponent as atoms *)
Definition p2 (x : Z) : Z := 2 ^ x.

(** "the low [k] bits of [v] are zero", behind a name for the same reason (a [mod] by a
    non-numeral makes [lia]'s div/mod pre-processing split cases) *)
Definition lowz (v k : Z) : Prop := v mod 2 ^ k = 0.

(** evaluate 2^c for numeral c everywhere *)
Ltac pow2norm :=
  repeat match goal with
         | |- context [lowz ?v ?x] =>
           match x with Z0 => change (lowz v x) with (v mod 1 = 0)
                      | Zpos _ => let q := eval vm_compute in (2 ^ x) in change (lowz v x) with (v mod q = 0) end
         | H : context [lowz ?v ?x] |- _ =>
           match x with Z0 => change (lowz v x) with (v mod 1 = 0) in H
                      | Zpos _ => let q := eval vm_compute in (2 ^ x) in change (lowz v x) with (v mod q = 0) in H end
         | |- context [p2 ?x] =>
           match x with Z0 => change (p2 x) with 1 | Zpos _ => let v := eval vm_compute in (2 ^ x) in change (p2 x) with v end
         | H : context [p2 ?x] |- _ =>
           match x with Z0 => change (p2 x) with 1 in H | Zpos _ => let v := eval vm_compute in (2 ^ x) in change (p2 x) with v in H end
         | |- context [2 ^ ?x] =>
           match x with
           | Z0 => change (2 ^ x) with 1
           | Zpos _ => let v := eval vm_compute in (2 ^ x) in change (2 ^ x) with v
           end
         | H : context [2 ^ ?x] |- _ =>
           match x with
           | Z0 => change (2 ^ x) with 1 in H
           | Zpos _ => let v := eval vm_compute in (2 ^ x) in change (2 ^ x) with v in H
           end
         end.

Ltac enum16 a :=
  assert (a = 0 \/ a = 1 \/ a = 2 \/ a = 3 \/ a = 4 \/ a = 5 \/ a = 6 \/ a = 7 \/ a = 8 \/ a = 9 \/ a = 10 \/
          a = 11 \/ a = 12 \/ a = 13 \/ a = 14 \/ a = 15) as Henum by lia;
  repeat (destruct Henum as [Henum|Henum]; [subst a; pow2norm|]); try (subst a; pow2norm).

Lemma dbl_mod a v : 0 <= a <= 15 -> 0 <= v < 65536 -> lowz v a -> lowz (2 * v mod 65536) (a + 1).
Proof. unfold lowz. intros Ha Hv Hm. enum16 a; cbn [Z.add Pos.add Pos.succ] ; pow2norm; lia. Qed.

Lemma dbl_delta a v v' : 0 <= a <= 15 -> 0 <= v -> v' < 65536 -> lowz v a -> v <= v' < v + p2 a ->
  2 * v mod 65536 <= 2 * v' mod 65536 < 2 * v mod 65536 + p2 (a + 1).
Proof. unfold lowz. intros Ha Hv Hv' Hm Hd. enum16 a; cbn [Z.add Pos.add Pos.succ]; pow2norm; lia. Qed.

Lemma skipn_tail {A} : forall (c : nat) (l : list A), tl (skipn c l) = skipn (S c) l.
Proof. induction c as [|c IH]; intros [|x l]; cbn [skipn tl]; try reflexivity. apply IH. Qed.

Lemma skipn_app_lt {A} (c : nat) (l e : list A) : (c <= length l)%nat -> skipn c (l ++ e) = skipn c l ++ e.
Proof. intros H. rewrite skipn_app. replace (c - length l)%nat with 0%nat by lia. reflexivity. Qed.

Lemma skipn_app_ge {A} (c : nat) (l e : list A) : (length l <= c)%nat -> skipn c l = [] /\ skipn c (l ++ e) = skipn (c - length l) e.
Proof. intros H. split; [apply skipn_all2; exact H|]. rewrite skipn_app, (skipn_all2 l) by exact H. reflexivity. Qed.

Lemma head_byte (l : list Z) : bytes_ok l -> 0 <= match l with [] => 0 | b :: _ => b end < 256.
Proof. intros H. destruct l as [|b r]; [lia|]. inversion H; assumption. Qed.

Lemma bd_init_fields m :
  bd_init m = mkBdec (256 * nth 0 m 0 + nth 1 m 0) 255 0 (skipn 2 m) 0 (8 * (Z.of_nat (length m) - 1)) false.
Proof. destruct m as [|a [|b r]]; cbn [bd_init nth skipn length]; f_equal; lia. Qed.

Lemma nth_byte (m : list Z) (i : nat) : bytes_ok m -> 0 <= nth i m 0 < 256.
Proof.
  intros H. destruct (Nat.lt_ge_cases i (length m)) as [Hi|Hi].
  - unfold bytes_ok in H. rewrite Forall_forall in H. apply H. apply nth_In. exact Hi.
  - rewrite nth_overflow by exact Hi. lia.
Qed.

Lemma normalize_range : forall fuel v range c r pos v1 rg c1 r1 p1,
  1 <= range <= 255 -> 128 <= range * 2 ^ Z.of_nat fuel ->
  bd_normalize fuel v range c r pos = (v1, rg, c1, r1, p1) -> 128 <= rg <= 255.
Proof.
  induction fuel as [|fuel IH]; intros v range c r pos v1 rg c1 r1 p1 Hr Hp H; cbn [bd_normalize] in H.
  - injection H as _ <- _ _ _. cbn in Hp. lia.
  - destruct (Z.ltb_spec range 128).
    + destruct (bd_shift1 v c r) as [[w cw] rw].
      assert (Hr2 : 1 <= range * 2 <= 255) by lia.
      assert (Hp2 : 128 <= range * 2 * 2 ^ Z.of_nat fuel).
      { rewrite Nat2Z.inj_succ, Z.pow_succ_r in Hp by lia.
        replace (range * 2 * 2 ^ Z.of_nat fuel) with (range * (2 * 2 ^ Z.of_nat fuel)) by ring. exact Hp. }
      apply (IH _ _ _ _ _ _ _ _ _ _ Hr2 Hp2 H).
    + injection H as _ <- _ _ _. lia.
Qed.

Section Sim.
  Variables (l ext : list Z).
  Hypothesis Hl : bytes_ok l.
  Hypothesis Hext : bytes_ok ext.
  Let n := zlen l.

  (** the relation on the moving parts of the two decoder states at bit position [pos] *)
  Definition crel (v c : Z) (r : list Z) (v' : Z) (r' : list Z) (pos : Z) : Prop :=
    0 <= pos /\ c = pos mod 8 /\
    r = skipn (Z.to_nat (2 + pos / 8)) l /\ r' = skipn (Z.to_nat (2 + pos / 8)) (l ++ ext) /\
    0 <= v < 65536 /\ 0 <= v' < 65536 /\
    lowz v c /\ lowz v' c /\
    lowz v (kof (pos + 16 - 8 * n)) /\ v <= v' < v + p2 (kof (pos + 16 - 8 * n)).

  Lemma shift_sim v c r v' r' pos :
    crel v c r v' r' pos ->
    exists v1 c1 r1 v1' r1',
      bd_shift1 v c r = (v1, c1, r1) /\ bd_shift1 v' c r' = (v1', c1, r1') /\ crel v1 c1 r1 v1' r1' (pos + 1).
  Proof.
    intros (Hp & Hc & Hr & Hr' & Hv & Hv' & Hm & Hm' & Hk & Hd).
    unfold bd_shift1. set (w := v * 2 mod 65536). set (w' := v' * 2 mod 65536).
    set (t := pos + 16 - 8 * n) in *.
    assert (Hc7 : 0 <= c <= 7) by (clear - Hc Hp; lia).
    assert (Hw : 0 <= w < 65536 /\ 0 <= w' < 65536) by (clear; subst w w'; lia).
    assert (Hwm : lowz w (c + 1) /\ lowz w' (c + 1)).
    { subst w w'. rewrite (Z.mul_comm v), (Z.mul_comm v'). split; apply dbl_mod; (assumption || (clear - Hc7; lia)). }
    (* the part of the relation that concerns the window bits beyond the data, after doubling *)
    assert (Hkd : lowz w (kof (t + 1)) /\ w <= w' < w + p2 (kof (t + 1))).
    { subst w w'. rewrite (Z.mul_comm v), (Z.mul_comm v'). unfold kof in *.
      destruct (Z.leb_spec t 0) as [Ht0|Ht0].
      - pow2norm. assert (v' = v) by lia. subst v'.
        destruct (Z.leb_spec (t + 1) 0); [pow2norm; lia|].
        destruct (Z.leb_spec 16 (t + 1)); [lia|]. replace (t + 1) with 1 by lia. pow2norm. lia.
      - destruct (Z.leb_spec 16 t) as [Ht16|Ht16].
        + pow2norm. assert (v = 0) by lia. subst v.
          destruct (Z.leb_spec (t + 1) 0); [lia|]. destruct (Z.leb_spec 16 (t + 1)); [|lia]. pow2norm. lia.
        + destruct (Z.leb_spec (t + 1) 0); [lia|].
          destruct (Z.leb_spec 16 (t + 1)) as [Hq|Hq].
          * replace 16 with (t + 1) by lia.
            split; [apply dbl_mod; (assumption || lia)|apply dbl_delta; (assumption || lia)].
          * split; [apply dbl_mod; (assumption || lia)|apply dbl_delta; (assumption || lia)]. }
    destruct Hwm as [Hwm Hwm']. destruct Hkd as [Hk1 Hd1].
    destruct (Z.eqb_spec (c + 1) 8) as [Ec|Ec].
    - (* a byte is appended *)
      assert (Hc7' : c = 7) by (clear - Ec; lia). rewrite Hc7' in *. clear Hc7'.
      set (ci := Z.to_nat (2 + pos / 8)) in *.
      assert (Hci : Z.to_nat (2 + (pos + 1) / 8) = S ci) by (subst ci; lia).
      assert (Hposm : 0 = (pos + 1) mod 8) by lia.
      set (b := match r with [] => 0 | x :: _ => x end).
      set (b' := match r' with [] => 0 | x :: _ => x end).
      assert (Hb : 0 <= b < 256).
      { subst b. apply head_byte. rewrite Hr. unfold bytes_ok. apply bytes_ok_skipn. exact Hl. }
      assert (Hb' : 0 <= b' < 256).
      { subst b'. apply head_byte. rewrite Hr'. apply bytes_ok_skipn. apply bytes_ok_app. split; assumption. }
      exists (w + b), 0, (tl r), (w' + b'), (tl r').
      split; [destruct r; subst b; cbn [tl]; f_equal; f_equal; lia|].
      split; [destruct r'; subst b'; cbn [tl]; f_equal; f_equal; lia|].
      change (7 + 1) with 8 in *. pow2norm.
      unfold crel. replace (pos + 1 + 16 - 8 * n) with (t + 1) by (subst t; lia).
      rewrite Hci. rewrite Hr, Hr', !skipn_tail. pow2norm.
      split; [lia|]. split; [exact Hposm|]. split; [reflexivity|]. split; [reflexivity|].
      split; [lia|]. split; [lia|]. split; [lia|]. split; [lia|].
      (* which byte was appended: inside l, the first beyond l, or later *)
      assert (Ht : t = 8 * (Z.of_nat ci - n) + 7) by (subst t ci; lia).
      destruct (Nat.lt_ge_cases ci (length l)) as [Hin|Hout].
      + (* inside: same byte on both sides, nothing beyond the data yet *)
        assert (Hrr : r' = r ++ ext) by (rewrite Hr, Hr'; apply skipn_app_lt; lia).
        assert (Hrne : r <> []).
        { rewrite Hr. intros E. apply (f_equal (@length Z)) in E. rewrite skipn_length in E. cbn in E. lia. }
        assert (Ebb : b' = b) by (subst b b'; rewrite Hrr; destruct r; [contradiction|reflexivity]).
        unfold kof in *. subst n. unfold zlen in *.
        destruct (Z.leb_spec t 0); [|lia]. destruct (Z.leb_spec (t + 1) 0); [|lia]. pow2norm.
        assert (v' = v) by lia. subst v'. subst w'. rewrite Ebb. lia.
      + destruct (skipn_app_ge ci l ext Hout) as [E1 E2].
        assert (b = 0) by (subst b; rewrite Hr, E1; reflexivity). subst n. unfold zlen in *.
        destruct (Nat.eq_dec ci (length l)) as [Eq|Neq].
        * (* the first byte beyond the data *)
          assert (t = 7) by lia. unfold kof in *.
          destruct (Z.leb_spec t 0); [lia|]. destruct (Z.leb_spec 16 t); [lia|].
          destruct (Z.leb_spec (t + 1) 0); [lia|]. destruct (Z.leb_spec 16 (t + 1)); [lia|].
          replace t with 7 in * by lia. change (7 + 1) with 8 in *. pow2norm.
          assert (v' = v) by lia. subst v'. subst w'. lia.
        * assert (15 <= t) by lia. unfold kof in *.
          destruct (Z.leb_spec t 0); [lia|]. destruct (Z.leb_spec (t + 1) 0); [lia|].
          destruct (Z.leb_spec 16 (t + 1)); [|lia]. pow2norm.
          destruct (Z.leb_spec 16 t).
          -- pow2norm. assert (v = 0) by lia. subst v. subst w. lia.
          -- replace t with 15 in * by lia. pow2norm. subst w. lia.
    - (* no byte appended *)
      exists w, (c + 1), r, w', r'. split; [reflexivity|]. split; [reflexivity|].
      unfold crel. replace (pos + 1 + 16 - 8 * n) with (t + 1) by (subst t; lia).
      replace ((pos + 1) / 8) with (pos / 8) by lia.
      split; [lia|]. split; [lia|]. split; [exact Hr|]. split; [exact Hr'|].
      split; [lia|]. split; [lia|]. split; [exact Hwm|]. split; [exact Hwm'|]. split; [exact Hk1|exact Hd1].
  Qed.

  Lemma normalize_sim : forall fuel v range c r v' r' pos v1 rg c1 r1 p1,
    crel v c r v' r' pos ->
    bd_normalize fuel v range c r pos = (v1, rg, c1, r1, p1) ->
    exists v1' r1', bd_normalize fuel v' range c r' pos = (v1', rg, c1, r1', p1) /\ crel v1 c1 r1 v1' r1' p1.
  Proof.
    induction fuel as [|fuel IH]; intros v range c r v' r' pos v1 rg c1 r1 p1 Hrel H; cbn [bd_normalize] in *.
    - injection H as <- <- <- <- <-. eauto.
    - destruct (range <? 128).
      + destruct (shift_sim _ _ _ _ _ _ Hrel) as (w & cw & rw & w' & rw' & E1 & E2 & Hrel1).
        rewrite E1 in H. rewrite E2. apply (IH _ _ _ _ _ _ _ _ _ _ _ _ Hrel1 H).
      + injection H as <- <- <- <- <-. eauto.
  Qed.

  (** the state relation *)
  Definition rel (d d' : bdec) : Prop :=
    bd_range d = bd_range d' /\ bd_count d = bd_count d' /\ bd_pos d = bd_pos d' /\
    bd_lim d = 8 * (n - 1) /\ bd_lim d <= bd_lim d' /\ 128 <= bd_range d <= 255 /\
    crel (bd_value d) (bd_count d) (bd_rest d) (bd_value d') (bd_rest d') (bd_pos d).

  (** One bool decoded from a window inside the data: same bit, related states, and
      neither decoder flags a past-end read. *)
  Lemma read_bool_sim prob d d' :
    rel d d' -> bd_pos d <= bd_lim d -> 0 <= prob <= 255 ->
    let '(b, d1) := read_bool prob d in
    let '(b', d1') := read_bool prob d' in
    b = b' /\ rel d1 d1' /\ bd_past d1 = bd_past d /\ bd_past d1' = bd_past d'.
  Proof.
    intros (Hrg & Hct & Hps & Hlim & Hlim' & Hrb & Hrel) Hin Hprob. unfold read_bool.
    assert (Hsp : 1 <= bd_split (bd_range d) prob <= bd_range d - 1).
    { unfold bd_split. clear - Hrb Hprob. nia. }
    rewrite <- Hrg, <- Hct, <- Hps.
    set (split := bd_split (bd_range d) prob) in *.
    destruct Hrel as (Hp & Hc & Hr & Hr' & Hv & Hv' & Hm & Hm' & Hk & Hd).
    set (t := bd_pos d + 16 - 8 * n) in *.
    assert (Ht8 : t <= 8) by (subst t; lia).
    assert (Hc7 : 0 <= bd_count d <= 7) by (clear - Hc Hp; lia).
    (* same decision; the subtraction keeps the relation *)
    assert (Hdec : (split * 256 <=? bd_value d) = (split * 256 <=? bd_value d') /\
                   (split * 256 <= bd_value d ->
                    crel (bd_value d - split * 256) (bd_count d) (bd_rest d) (bd_value d' - split * 256) (bd_rest d') (bd_pos d))).
    { unfold crel. fold t. unfold kof in *.
      assert (Hcs : forall x, lowz x (bd_count d) -> split * 256 <= x -> lowz (x - split * 256) (bd_count d)).
      { intros x Hx Hle. remember (bd_count d) as c. clear - Hx Hc7 Hsp. unfold lowz in *.
        assert (c = 0 \/ c = 1 \/ c = 2 \/ c = 3 \/ c = 4 \/ c = 5 \/ c = 6 \/ c = 7) as Hen by lia.
        repeat (destruct Hen as [Hen|Hen]; [subst c; pow2norm; lia|]). subst c. pow2norm. lia. }
      destruct (Z.leb_spec t 0) as [Ht0|Ht0].
      - pow2norm. assert (Ev : bd_value d' = bd_value d) by lia. rewrite Ev. split; [reflexivity|].
        intros Hle. rewrite Ev in Hm'. pose proof (Hcs _ Hm Hle).
        repeat split; try assumption; try lia; auto.
      - destruct (Z.leb_spec 16 t); [lia|].
        assert (t = 1 \/ t = 2 \/ t = 3 \/ t = 4 \/ t = 5 \/ t = 6 \/ t = 7 \/ t = 8) as Hen by lia.
        assert (Hgoal : forall k, t = k -> 1 <= k <= 8 ->
                  lowz (bd_value d) k -> bd_value d <= bd_value d' < bd_value d + p2 k ->
                  (split * 256 <=? bd_value d) = (split * 256 <=? bd_value d') /\
                  (split * 256 <= bd_value d ->
                   lowz (bd_value d - split * 256) k /\
                   bd_value d - split * 256 <= bd_value d' - split * 256 < bd_value d - split * 256 + p2 k)).
        { intros k _ Hk18 Hlz Hdd. clear - Hk18 Hlz Hdd Hsp Hv Hv'. unfold lowz in *.
          assert (k = 1 \/ k = 2 \/ k = 3 \/ k = 4 \/ k = 5 \/ k = 6 \/ k = 7 \/ k = 8) as Hen by lia.
          repeat (destruct Hen as [Hen|Hen]; [subst k; pow2norm; lia|]). subst k. pow2norm. lia. }
        destruct (Hgoal t eq_refl ltac:(lia) Hk Hd) as [Hg1 Hg2]. split; [exact Hg1|].
        intros Hle. destruct (Hg2 Hle) as [Hg3 Hg4].
        pose proof (Hcs _ Hm Hle). pose proof (Hcs _ Hm' ltac:(lia)).
        repeat split; try assumption; try lia; auto. }
    destruct Hdec as [Hdec Hsub].
    assert (Hpast : (bd_lim d <? bd_pos d) = false /\ (bd_lim d' <? bd_pos d) = false) by lia.
    destruct Hpast as [Hpa1 Hpa2]. rewrite Hpa1, Hpa2, !orb_false_r.
    rewrite <- Hdec.
    destruct (Z.leb_spec (split * 256) (bd_value d)) as [Hle|Hgt].
    - destruct (bd_normalize 8 (bd_value d - split * 256) (bd_range d - split) (bd_count d) (bd_rest d) (bd_pos d))
        as [[[[v1 rg] c1] r1] p1] eqn:En.
      destruct (normalize_sim _ _ _ _ _ _ _ _ _ _ _ _ _ (Hsub Hle) En) as (v1' & r1' & En' & Hrel1).
      assert (Hr1 : 1 <= bd_range d - split <= 255) by (clear - Hsp Hrb; lia).
      assert (Hp1 : 128 <= (bd_range d - split) * 2 ^ Z.of_nat 8) by (change (2 ^ Z.of_nat 8) with 256; clear - Hr1; lia).
      pose proof (normalize_range _ _ _ _ _ _ _ _ _ _ _ Hr1 Hp1 En).
      rewrite En'. cbn [bd_past bd_range bd_count bd_pos bd_lim bd_value bd_rest]. unfold rel.
      cbn [bd_past bd_range bd_count bd_pos bd_lim bd_value bd_rest]. auto 10.
    - assert (Hrel0 : crel (bd_value d) (bd_count d) (bd_rest d) (bd_value d') (bd_rest d') (bd_pos d)).
      { unfold crel. fold t. repeat split; try assumption; lia. }
      destruct (bd_normalize 8 (bd_value d) split (bd_count d) (bd_rest d) (bd_pos d))
        as [[[[v1 rg] c1] r1] p1] eqn:En.
      destruct (normalize_sim _ _ _ _ _ _ _ _ _ _ _ _ _ Hrel0 En) as (v1' & r1' & En' & Hrel1).
      assert (Hr1 : 1 <= split <= 255) by (clear - Hsp Hrb; lia).
      assert (Hp1 : 128 <= split * 2 ^ Z.of_nat 8) by (change (2 ^ Z.of_nat 8) with 256; clear - Hr1; lia).
      pose proof (normalize_range _ _ _ _ _ _ _ _ _ _ _ Hr1 Hp1 En).
      rewrite En'. cbn [bd_past bd_range bd_count bd_pos bd_lim bd_value bd_rest]. unfold rel.
      cbn [bd_past bd_range bd_count bd_pos bd_lim bd_value bd_rest]. auto 10.
  Qed.

  (** the two freshly initialised decoders are related *)
  Lemma init_rel : rel (bd_init l) (bd_init (l ++ ext)).
  Proof.
    assert (Hle : bytes_ok (l ++ ext)) by (apply bytes_ok_app; split; assumption).
    rewrite (bd_init_fields l), (bd_init_fields (l ++ ext)).
    pose proof (nth_byte l 0 Hl) as A0. pose proof (nth_byte l 1 Hl) as A1.
    pose proof (nth_byte (l ++ ext) 0 Hle) as B0. pose proof (nth_byte (l ++ ext) 1 Hle) as B1.
    unfold rel, crel. cbn [bd_range bd_count bd_pos bd_lim bd_value bd_rest].
    change (0 mod 8) with 0. change (0 / 8) with 0. change (Z.to_nat (2 + 0)) with 2%nat.
    unfold n, zlen. rewrite app_length.
    split; [reflexivity|]. split; [reflexivity|]. split; [reflexivity|]. split; [reflexivity|].
    split; [lia|]. split; [lia|].
    split; [lia|]. split; [reflexivity|]. split; [reflexivity|]. split; [reflexivity|].
    split; [lia|]. split; [lia|].
    split; [unfold lowz; cbn; apply Z.mod_1_r|]. split; [unfold lowz; cbn; apply Z.mod_1_r|].
    destruct l as [|a [|b r]]; cbn [length nth app] in *.
    - (* no data *) change (kof (0 + 16 - 8 * Z.of_nat 0)) with 16. pow2norm. lia.
    - change (kof (0 + 16 - 8 * Z.of_nat 1)) with 8. pow2norm. lia.
    - assert (Hk0 : kof (0 + 16 - 8 * Z.of_nat (S (S (length r)))) = 0).
      { unfold kof. destruct (Z.leb_spec (0 + 16 - 8 * Z.of_nat (S (S (length r)))) 0); [reflexivity|lia]. }
      rewrite Hk0. pow2norm. lia.
  Qed.

  (** ** Lifting to the primitive readers of [Vp8Bool] *)
  Lemma read_bool_past_mono prob d : bd_past d = true -> bd_past (snd (read_bool prob d)) = true.
  Proof.
    intros H. unfold read_bool.
    destruct (bd_split (bd_range d) prob * 256 <=? bd_value d);
      match goal with |- context [bd_normalize ?f ?v ?rg ?c ?r ?p] => destruct (bd_normalize f v rg c r p) as [[[[? ?] ?] ?] ?] end;
      cbn [snd bd_past]; rewrite H; reflexivity.
  Qed.

  (** a bool read that leaves the flag clear was read inside the data *)
  Lemma read_bool_lift prob d d' b d1 :
    rel d d' -> 0 <= prob <= 255 -> read_bool prob d = (b, d1) -> bd_past d1 = false ->
    exists d1', read_bool prob d' = (b, d1') /\ rel d1 d1' /\ bd_past d1' = bd_past d' /\ bd_past d = false.
  Proof.
    intros Hrel Hp E Hpast.
    assert (Hin : bd_past d = false /\ bd_pos d <= bd_lim d).
    { unfold read_bool in E.
      destruct (bd_split (bd_range d) prob * 256 <=? bd_value d);
        match type of E with context [bd_normalize ?f ?v ?rg ?c ?r ?p] => destruct (bd_normalize f v rg c r p) as [[[[? ?] ?] ?] ?] end;
        injection E as _ <-; cbn [bd_past] in Hpast; apply orb_false_iff in Hpast; destruct Hpast as [H1 H2]; split; auto; lia. }
    destruct Hin as [Hp0 Hin].
    pose proof (read_bool_sim prob d d' Hrel Hin Hp) as Hs. rewrite E in Hs.
    destruct (read_bool prob d') as [b' d1'] eqn:E'. destruct Hs as (-> & Hr1 & _ & Hq).
    exists d1'. auto.
  Qed.

  Lemma read_literal_past_mono : forall k acc d, bd_past d = true -> bd_past (snd (read_literal k acc d)) = true.
  Proof.
    induction k as [|k IH]; intros acc d H; cbn [read_literal]; [exact H|].
    pose proof (read_bool_past_mono 128 d H) as H1. destruct (read_bool 128 d) as [b d1]. cbn [snd] in H1.
    apply IH. exact H1.
  Qed.

  Lemma read_literal_lift : forall k acc d d' v d1,
    rel d d' -> read_literal k acc d = (v, d1) -> bd_past d1 = false ->
    exists d1', read_literal k acc d' = (v, d1') /\ rel d1 d1' /\ bd_past d1' = bd_past d' /\ bd_past d = false.
  Proof.
    induction k as [|k IH]; intros acc d d' v d1 Hrel E Hpast; cbn [read_literal] in *.
    - injection E as <- <-. exists d'. auto.
    - destruct (read_bool 128 d) as [b dm] eqn:Eb.
      assert (Hpm : bd_past dm = false).
      { destruct (bd_past dm) eqn:Epm; [|reflexivity].
        pose proof (read_literal_past_mono k (2 * acc + (if b then 1 else 0)) dm Epm) as Hm. rewrite E in Hm.
        cbn [snd] in Hm. congruence. }
      destruct (read_bool_lift 128 d d' b dm Hrel ltac:(lia) Eb Hpm) as (dm' & Eb' & Hrm & Hq & Hp0).
      rewrite Eb'. destruct (IH _ _ _ _ _ Hrm E Hpast) as (d1' & E1 & Hr1 & Hq1 & _).
      exists d1'. split; [exact E1|]. split; [exact Hr1|]. split; [rewrite Hq1; exact Hq|exact Hp0].
  Qed.

  Lemma read_tree_past_mono {A} : forall (t : tree A) probs d,
    bd_past d = true -> bd_past (snd (read_tree t probs d)) = true.
  Proof.
    induction t as [a|i z IHz o IHo]; intros probs d H; cbn [read_tree]; [exact H|].
    pose proof (read_bool_past_mono (nth i probs 0) d H) as H1.
    destruct (read_bool (nth i probs 0) d) as [b d1]. cbn [snd] in H1. destruct b; [apply IHo|apply IHz]; exact H1.
  Qed.

  Lemma read_tree_lift {A} : forall (t : tree A) probs d d' a d1,
    Forall (fun p => 0 <= p <= 255) probs ->
    rel d d' -> read_tree t probs d = (a, d1) -> bd_past d1 = false ->
    exists d1', read_tree t probs d' = (a, d1') /\ rel d1 d1' /\ bd_past d1' = bd_past d' /\ bd_past d = false.
  Proof.
    induction t as [a0|i z IHz o IHo]; intros probs d d' a d1 Hprobs Hrel E Hpast; cbn [read_tree] in *.
    - injection E as <- <-. exists d'. auto.
    - assert (Hpi : 0 <= nth i probs 0 <= 255).
      { destruct (Nat.lt_ge_cases i (length probs)) as [Hi|Hi].
        - rewrite Forall_forall in Hprobs. apply Hprobs. apply nth_In. exact Hi.
        - rewrite nth_overflow by exact Hi. lia. }
      destruct (read_bool (nth i probs 0) d) as [b dm] eqn:Eb.
      assert (Hpm : bd_past dm = false).
      { destruct (bd_past dm) eqn:Epm; [|reflexivity]. destruct b.
        - pose proof (read_tree_past_mono o probs dm Epm) as Hm. rewrite E in Hm. cbn [snd] in Hm. congruence.
        - pose proof (read_tree_past_mono z probs dm Epm) as Hm. rewrite E in Hm. cbn [snd] in Hm. congruence. }
      destruct (read_bool_lift _ d d' b dm Hrel Hpi Eb Hpm) as (dm' & Eb' & Hrm & Hq & Hp0).
      rewrite Eb'. destruct b.
      + destruct (IHo _ _ _ _ _ Hprobs Hrm E Hpast) as (d1' & E1 & Hr1 & Hq1 & _). exists d1'. split; [exact E1|]. split; [exact Hr1|]. split; [rewrite Hq1; exact Hq|exact Hp0].
      + destruct (IHz _ _ _ _ _ Hprobs Hrm E Hpast) as (d1' & E1 & Hr1 & Hq1 & _). exists d1'. split; [exact E1|]. split; [exact Hr1|]. split; [rewrite Hq1; exact Hq|exact Hp0].
  Qed.
End Sim.

(** ** Summary statements (closed) *)
(** Bits decoded inside the data do not depend on what follows the data. *)
Theorem bool_literal_prefix_stable : forall l ext k v d1,
  bytes_ok l -> bytes_ok ext ->
  read_lit k (bd_init l) = (v, d1) -> bd_past d1 = false ->
  exists d1', read_lit k (bd_init (l ++ ext)) = (v, d1') /\ bd_past d1' = false.
Proof.
  intros l ext k v d1 Hl He E Hp. unfold read_lit in *.
  destruct (read_literal_lift l ext Hl He k 0 _ _ v d1 (init_rel l ext Hl He) E Hp) as (d1' & E' & _ & Hq & _).
  exists d1'. split; [exact E'|]. rewrite Hq. destruct l as [|a [|b r]], ext as [|e0 [|e1 er]]; reflexivity.
Qed.

Theorem bool_tree_prefix_stable : forall (A : Type) (t : tree A) probs l ext a d1,
  bytes_ok l -> bytes_ok ext -> Forall (fun p => 0 <= p <= 255) probs ->
  read_tree t probs (bd_init l) = (a, d1) -> bd_past d1 = false ->
  exists d1', read_tree t probs (bd_init (l ++ ext)) = (a, d1') /\ bd_past d1' = false.
Proof.
  intros A t probs l ext a d1 Hl He Hpr E Hp.
  destruct (read_tree_lift l ext Hl He t probs _ _ a d1 Hpr (init_rel l ext Hl He) E Hp) as (d1' & E' & _ & Hq & _).
  exists d1'. split; [exact E'|]. rewrite Hq. destruct l as [|a0 [|b r]], ext as [|e0 [|e1 er]]; reflexivity.
Qed.

(** Without the past-end flag the decoder is NOT prefix-monotone: after the single
    byte 0x00 the 9th literal bit is read from the implicit zero bytes; appending
    0xFF changes it.  The flag is set in that run. *)
Theorem bool_past_end_differs :
  exists l ext k, fst (read_lit k (bd_init l)) <> fst (read_lit k (bd_init (l ++ ext))) /\
                  bd_past (snd (read_lit k (bd_init l))) = true.
Proof. exists [0], [255], 12%nat. vm_compute. split; [discriminate|reflexivity]. Qed.

(** ** The frame-level statement
    Appending bytes to a VP8 frame leaves the first partition and all token
    partitions but the last unchanged and extends the last one, whose decoder stays
    [rel]ated to the original as long as no past-end read occurs -- which
    [decode_yuv] turns into E_TRUNC.  The statement below is proved in
    [Riff.PrefixVp8Frame] ([vp8_frame_prefix_monotone]) by lifting the lemmas above
    through every reader of [Vp8Syntax] and the row loops of [Vp8Spec]. *)
From Webp Require Vp8.Vp8Spec.
Definition vp8_frame_prefix_full_statement : Prop :=
  forall d ext r, bytes_ok d -> bytes_ok ext ->
    Vp8Spec.decode_yuv d = Base.Res.Ok r -> Vp8Spec.decode_yuv (d ++ ext) = Base.Res.Ok r.
