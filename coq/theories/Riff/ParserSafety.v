(** The container parser model never reaches a [Panic] outcome on a byte string
    (every slice / index expression of parser.go is in range), and never runs out
    of fuel: for all inputs it returns [Ok] or one of the error classes. *)
From Coq Require Import List ZArith Lia Bool.
From Coq Require Import ZifyBool ZifyNat.
From Webp Require Import Base.Res Base.Bytes Riff.ParserModel Riff.ParserLemmas.
Import ListNotations.
Open Scope Z_scope.

Definition safe {A} (r : Res A) : Prop := r <> Panic /\ r <> Err EOutOfFuel.

Lemma safe_ok {A} (a : A) : safe (Ok a).
Proof. split; discriminate. Qed.
Lemma safe_err {A} e : e <> EOutOfFuel -> safe (@Err A e).
Proof. intros H. split; [discriminate|]. intros [= E]. auto. Qed.

Ltac safe_err := apply safe_err; unfold EOutOfFuel, ETruncated, EInvalidRIFF, EInvalidWebP, ETooLarge,
  EInvalidChunk, EInvalidVP8X, EInvalidFlags, EUnsupported, EInvalidImage, EOther; lia.

Lemma slice_in_range {A} (l : list A) lo hi :
  0 <= lo <= hi -> hi <= len l ->
  exists x, slice l lo hi = Ok x /\ length x = Z.to_nat (hi - lo).
Proof.
  intros H1 H2. unfold len in H2. rewrite (slice_ok l lo hi H1 H2). eexists. split; [reflexivity|].
  rewrite firstn_length, skipn_length. lia.
Qed.

Lemma slice_bytes_ok l lo hi x : slice l lo hi = Ok x -> bytes_ok l -> bytes_ok x.
Proof.
  intros H Hb. apply slice_ok_inv in H. destruct H as (_ & _ & _ & ->).
  apply bytes_ok_firstn, bytes_ok_skipn, Hb.
Qed.

Lemma rd32_range b : bytes_ok b -> length b = 4%nat -> 0 <= rd32 b < 4294967296.
Proof.
  intros Hb Hl. destruct b as [|a [|b [|c [|d [|? ?]]]]]; try discriminate.
  unfold bytes_ok in Hb.
  repeat match goal with Hf : Forall is_byte (_ :: _) |- _ => inversion Hf; subst; clear Hf end.
  apply rd32_bound; assumption.
Qed.

(** ** chunk_at *)
Lemma chunk_at_cases buf :
  bytes_ok buf ->
  (exists f sz tot pl, chunk_at buf = Ok (f, sz, tot, pl) /\ bytes_ok pl /\ len pl = sz /\
                       0 <= sz /\ 8 <= tot <= len buf) \/
  (exists e, chunk_at buf = Err e /\ e <> EOutOfFuel).
Proof.
  intros Hb. unfold chunk_at, read_chunk_header, ChunkHeaderSize.
  destruct (Z.ltb_spec (len buf) 8) as [Hs|Hs].
  { right. eexists. split; [reflexivity|]. unfold ETruncated, EOutOfFuel. lia. }
  destruct (slice_in_range buf 0 4 ltac:(lia) ltac:(lia)) as (a & Ea & La).
  destruct (slice_in_range buf 4 8 ltac:(lia) ltac:(lia)) as (b & Eb & Lb).
  rewrite Ea, Eb. cbn [bind].
  pose proof (rd32_range b (slice_bytes_ok _ _ _ _ Eb Hb) Lb) as Hr.
  destruct (Z.gtb_spec (rd32 b) MaxChunkPayload).
  { right. eexists. split; [reflexivity|]. unfold ETooLarge, EOutOfFuel. lia. }
  cbn [bind].
  destruct (Z.gtb_spec (8 + (rd32 b + rd32 b mod 2)) (len buf)) as [Hg|Hg].
  { right. eexists. split; [reflexivity|]. unfold ETruncated, EOutOfFuel. lia. }
  destruct (slice_in_range buf 8 (8 + rd32 b) ltac:(lia) ltac:(lia)) as (pl & Ep & Lp).
  rewrite Ep. cbn [bind]. left. do 4 eexists. split; [reflexivity|].
  split; [apply (slice_bytes_ok _ _ _ _ Ep Hb)|]. split; [unfold len; lia|]. lia.
Qed.

Lemma rest_ok buf tot :
  bytes_ok buf -> 0 <= tot <= len buf ->
  exists rest, slice buf tot (len buf) = Ok rest /\ bytes_ok rest /\ len rest = len buf - tot.
Proof.
  intros Hb Ht. destruct (slice_in_range buf tot (len buf) ltac:(lia) ltac:(lia)) as (r & Er & Lr).
  exists r. split; [exact Er|]. split; [apply (slice_bytes_ok _ _ _ _ Er Hb)|]. unfold len in *. lia.
Qed.

(** ** Bitstream headers *)
Lemma vp8_header_safe d : safe (parse_vp8_header d).
Proof.
  unfold parse_vp8_header, VP8FrameHeaderSize.
  destruct (Z.ltb_spec (len d) 10); [safe_err|].
  destruct (slice_in_range d 0 10 ltac:(lia) ltac:(lia)) as (hd & Eh & Lh). rewrite Eh. cbn [bind].
  change (Z.to_nat (10 - 0)) with 10%nat in Lh.
  destruct hd as [|b0 [|b1 [|b2 [|b3 [|b4 [|b5 [|b6 [|b7 [|b8 [|b9 [|? ?]]]]]]]]]]]; try discriminate.
  destruct (negb _); [safe_err|]. destruct (negb _); [safe_err|].
  destruct (_ || _); [safe_err|apply safe_ok].
Qed.

Lemma vp8l_header_safe d : safe (parse_vp8l_header d).
Proof.
  unfold parse_vp8l_header, VP8LFrameHeaderSize.
  destruct (Z.ltb_spec (len d) 5); [safe_err|].
  destruct (slice_in_range d 0 5 ltac:(lia) ltac:(lia)) as (hd & Eh & Lh). rewrite Eh. cbn [bind].
  change (Z.to_nat (5 - 0)) with 5%nat in Lh.
  destruct hd as [|b0 [|b1 [|b2 [|b3 [|b4 [|? ?]]]]]]; try discriminate.
  destruct (negb _); [safe_err|]. destruct (negb _); [safe_err|].
  destruct (_ || _); [safe_err|apply safe_ok].
Qed.

Lemma safe_bind {A B} (r : Res A) (f : A -> Res B) :
  safe r -> (forall a, r = Ok a -> safe (f a)) -> safe (bind r f).
Proof.
  intros [Hp Hf] Hk. destruct r as [a|e|]; cbn [bind]; [apply Hk; reflexivity| |congruence].
  split; [discriminate|]. intros [= ->]. apply Hf. reflexivity.
Qed.

(** ** The chunk loops *)
Lemma frame_sub_safe : forall fuel frame alph buf,
  bytes_ok buf -> (length buf < fuel)%nat -> safe (parse_frame_sub fuel frame alph buf).
Proof.
  induction fuel as [|fuel IH]; intros frame alph buf Hb Hf; [lia|].
  cbn [parse_frame_sub]. unfold ChunkHeaderSize.
  assert (Hfin : safe (match alph with Some _ => Err EInvalidChunk | None => Ok frame end)).
  { destruct alph; [safe_err|apply safe_ok]. }
  destruct (len buf <? 8); [exact Hfin|].
  destruct (chunk_at_cases buf Hb) as [(f & sz & tot & pl & Ec & Hpl & Hlen & Hsz & Htot)|(e & Ec & He)];
    rewrite Ec; cbn [bind]; [|apply safe_err; exact He].
  destruct (f =? FourCCALPH).
  { destruct (rest_ok buf tot Hb ltac:(lia)) as (rest & Er & Hrb & Hrl). rewrite Er. cbn [bind].
    apply IH; [exact Hrb|]. unfold len in *. lia. }
  destruct (f =? FourCCVP8L).
  { destruct alph; [safe_err|]. apply safe_bind; [apply vp8l_header_safe|].
    intros [[w h] a] _. apply safe_ok. }
  destruct (f =? FourCCVP8); [apply safe_ok|exact Hfin].
Qed.

Lemma anmf_safe pl : bytes_ok pl -> safe (parse_anmf pl).
Proof.
  intros Hb. unfold parse_anmf, ANMFChunkSize.
  destruct (Z.ltb_spec (len pl) 16); [safe_err|].
  destruct (slice_in_range pl 0 16 ltac:(lia) ltac:(lia)) as (hd & Eh & Lh). rewrite Eh. cbn [bind].
  change (Z.to_nat (16 - 0)) with 16%nat in Lh.
  do 17 (destruct hd as [|? hd]; try discriminate). clear Lh.
  destruct (_ || _); [safe_err|]. destruct (_ >=? _); [safe_err|].
  destruct (rest_ok pl 16 Hb ltac:(lia)) as (sub & Es & Hsb & _). rewrite Es. cbn [bind].
  apply frame_sub_safe; [exact Hsb|lia].
Qed.

Lemma ext_single_safe : forall fuel feat frames chunks alph buf,
  bytes_ok buf -> (length buf < fuel)%nat -> safe (parse_ext_single fuel feat frames chunks alph buf).
Proof.
  induction fuel as [|fuel IH]; intros feat frames chunks alph buf Hb Hf; [lia|].
  cbn [parse_ext_single]. unfold ChunkHeaderSize.
  destruct (len buf <? 8); [safe_err|].
  destruct (chunk_at_cases buf Hb) as [(f & sz & tot & pl & Ec & Hpl & Hlen & Hsz & Htot)|(e & Ec & He)];
    rewrite Ec; cbn [bind]; [|apply safe_err; exact He].
  destruct (f =? FourCCALPH).
  { destruct (rest_ok buf tot Hb ltac:(lia)) as (rest & Er & Hrb & Hrl). rewrite Er. cbn [bind].
    apply IH; [exact Hrb|]. unfold len in *. lia. }
  destruct (f =? FourCCVP8L).
  { destruct alph; [safe_err|]. apply safe_bind; [apply vp8l_header_safe|].
    intros [[w h] a] _. apply safe_ok. }
  destruct (f =? FourCCVP8); [|safe_err].
  apply safe_bind; [apply vp8_header_safe|]. intros [w h] _. apply safe_ok.
Qed.

Lemma add_meta_safe flag sz id pl cs : safe (add_meta flag sz id pl cs).
Proof. unfold add_meta. destruct flag; [|apply safe_ok]. destruct (sz >? MaxMetadataSize); [safe_err|apply safe_ok]. Qed.

Lemma vp8x_chunks_safe : forall fuel fx feat frames chunks a buf,
  bytes_ok buf -> (length buf < fuel)%nat -> safe (parse_vp8x_chunks fuel fx feat frames chunks a buf).
Proof.
  induction fuel as [|fuel IH]; intros fx feat frames chunks a buf Hb Hf; [lia|].
  cbn [parse_vp8x_chunks]. unfold ChunkHeaderSize.
  destruct (len buf <? 8).
  { destruct (fx && negb (fHasAnim feat) && (len frames =? 0)); [safe_err|apply safe_ok]. }
  destruct (chunk_at_cases buf Hb) as [(f & sz & tot & pl & Ec & Hpl & Hlen & Hsz & Htot)|(e & Ec & He)];
    rewrite Ec; cbn [bind]; [|apply safe_err; exact He].
  destruct (rest_ok buf tot Hb ltac:(lia)) as (rest & Er & Hrb & Hrl).
  assert (Hcont : forall feat' frames' chunks' a',
             safe (rest <- slice buf tot (len buf);; parse_vp8x_chunks fuel fx feat' frames' chunks' a' rest)).
  { intros. rewrite Er. cbn [bind]. apply IH; [exact Hrb|]. unfold len in *. lia. }
  destruct (f =? FourCCVP8X); [safe_err|].
  destruct (f =? FourCCANIM).
  { unfold ANIMChunkSize. destruct (Z.ltb_spec sz 6); [safe_err|].
    destruct (slice_in_range pl 0 4 ltac:(lia) ltac:(lia)) as (bg & Ebg & _).
    destruct (slice_in_range pl 4 6 ltac:(lia) ltac:(lia)) as (lc & Elc & _).
    rewrite Ebg, Elc. cbn [bind]. apply Hcont. }
  destruct (f =? FourCCANMF).
  { destruct (a =? 0); [safe_err|]. destruct (len frames >=? MaxFrames); [safe_err|].
    apply safe_bind; [apply anmf_safe; exact Hpl|]. intros fr _. apply Hcont. }
  destruct (is_image_fourcc f || (f =? FourCCALPH)).
  { destruct ((a >? 0) || fHasAnim feat); [safe_err|].
    apply safe_bind; [apply ext_single_safe; [exact Hb|lia]|]. intros r _. apply safe_ok. }
  destruct (f =? FourCCICCP).
  { apply safe_bind; [apply add_meta_safe|]. intros cs _. apply Hcont. }
  destruct (f =? FourCCEXIF).
  { apply safe_bind; [apply add_meta_safe|]. intros cs _. apply Hcont. }
  destruct (f =? FourCCXMP).
  { apply safe_bind; [apply add_meta_safe|]. intros cs _. apply Hcont. }
  destruct (len chunks >=? MaxChunks); [safe_err|].
  destruct (sz >? MaxMetadataSize); [safe_err|]. apply Hcont.
Qed.

Lemma single_image_safe fmt buf : bytes_ok buf -> safe (parse_single_image fmt buf).
Proof.
  intros Hb. unfold parse_single_image.
  destruct (chunk_at_cases buf Hb) as [(f & sz & tot & pl & Ec & Hpl & Hlen & Hsz & Htot)|(e & Ec & He)];
    rewrite Ec; cbn [bind]; [|apply safe_err; exact He].
  destruct (f =? FourCCVP8L).
  - apply safe_bind; [apply vp8l_header_safe|]. intros [[w h] a] _. apply safe_ok.
  - apply safe_bind; [apply vp8_header_safe|]. intros [w h] _. apply safe_ok.
Qed.

Lemma vp8x_safe fx buf : bytes_ok buf -> safe (parse_vp8x fx buf).
Proof.
  intros Hb. unfold parse_vp8x, read_chunk_header, ChunkHeaderSize, VP8XChunkSize.
  destruct (Z.ltb_spec (len buf) 8) as [Hs|Hs]; [cbn [bind]; safe_err|].
  destruct (slice_in_range buf 0 4 ltac:(lia) ltac:(lia)) as (a & Ea & La).
  destruct (slice_in_range buf 4 8 ltac:(lia) ltac:(lia)) as (b & Eb & Lb).
  rewrite Ea, Eb. cbn [bind].
  destruct (rd32 b >? MaxChunkPayload); cbn [bind]; [safe_err|].
  destruct (Z.eqb_spec (rd32 b) 10) as [E|E]; cbn [negb]; [|safe_err]. rewrite E.
  change (10 mod 2) with 0. change (8 + (10 + 0)) with 18. change (8 + 10) with 18.
  destruct (Z.gtb_spec 18 (len buf)); [safe_err|].
  destruct (slice_in_range buf 8 18 ltac:(lia) ltac:(lia)) as (pl & Ep & Lp). rewrite Ep. cbn [bind].
  change (Z.to_nat (18 - 8)) with 10%nat in Lp.
  do 11 (destruct pl as [|? pl]; try discriminate). clear Lp.
  destruct (negb _); [safe_err|]. destruct (_ >=? _); [safe_err|].
  destruct (rest_ok buf 18 Hb ltac:(lia)) as (rest & Er & Hrb & _). rewrite Er. cbn [bind].
  apply vp8x_chunks_safe; [exact Hrb|lia].
Qed.

(** For every byte string and both parser variants: never a panic, never out of fuel. *)
Theorem parse_ex_safe : forall fx data, bytes_ok data -> safe (parse_ex fx data).
Proof.
  intros fx data Hb. unfold parse_ex, parse_riff_header, RIFFHeaderSize, ChunkHeaderSize.
  destruct (Z.ltb_spec (len data) 12) as [Hs|Hs]; [cbn [bind]; safe_err|].
  destruct (slice_in_range data 0 4 ltac:(lia) ltac:(lia)) as (t & Et & _).
  destruct (slice_in_range data 4 8 ltac:(lia) ltac:(lia)) as (s & Es & Ls).
  destruct (slice_in_range data 8 12 ltac:(lia) ltac:(lia)) as (w & Ew & _).
  rewrite Et. cbn [bind]. destruct (negb _); cbn [bind]; [safe_err|].
  rewrite Es. cbn [bind].
  pose proof (rd32_range s (slice_bytes_ok _ _ _ _ Es Hb) Ls) as Hr.
  destruct (Z.ltb_spec (rd32 s) 8); cbn [bind]; [safe_err|].
  destruct (rd32 s >? MaxChunkPayload); cbn [bind]; [safe_err|].
  rewrite Ew. cbn [bind]. destruct (negb _); cbn [bind]; [safe_err|].
  set (hi := if rd32 s + 8 >? len data then len data else rd32 s + 8).
  assert (Hhi : 12 <= hi <= len data) by (subst hi; destruct (Z.gtb_spec (rd32 s + 8) (len data)); lia).
  destruct (slice_in_range data 12 hi ltac:(lia) ltac:(lia)) as (buf & Eb & _). rewrite Eb. cbn [bind].
  pose proof (slice_bytes_ok _ _ _ _ Eb Hb) as Hbb.
  destruct (Z.ltb_spec (len buf) 8); [safe_err|].
  destruct (slice_in_range buf 0 4 ltac:(lia) ltac:(lia)) as (t4 & Et4 & _). rewrite Et4. cbn [bind].
  destruct (rd32 t4 =? FourCCVP8X); [apply vp8x_safe; exact Hbb|].
  destruct (rd32 t4 =? FourCCVP8).
  { apply safe_bind; [apply single_image_safe; exact Hbb|]. intros r _. apply safe_ok. }
  destruct (rd32 t4 =? FourCCVP8L); [|safe_err].
  apply safe_bind; [apply single_image_safe; exact Hbb|]. intros r _. apply safe_ok.
Qed.
