(** The parser model applied to what the writer model produces (C15 / C02
    container part): one written chunk read back by [chunk_at], the step lemmas of
    the chunk loops, and the parse of the simple and the extended layout. *)
From Coq Require Import List ZArith Lia Bool.
From Coq Require Import ZifyBool ZifyNat.
From Webp Require Import Base.Res Base.Bytes Riff.ParserModel Riff.ParserLemmas Riff.ParserSpec
     Riff.WriterModel Riff.WriterProofs Riff.FeaturesModel Riff.MetadataProofs.
Import ListNotations.
Open Scope Z_scope.

(** ** The parser model on the written file *)
Lemma payload_of_chunk id d rest : slice (chunk id d ++ rest) 8 (8 + len d) = Ok d.
Proof.
  rewrite chunk_shape. change 8 with (len (le32 id ++ le32 (len d))). apply slice_mid.
Qed.

Lemma first_fourcc_of_chunk id d rest : slice (chunk id d ++ rest) 0 4 = Ok (le32 id).
Proof.
  unfold chunk. rewrite <- !app_assoc. change 4 with (len (le32 id)). apply slice_head.
Qed.

Lemma riff_header_written rs body :
  8 <= rs <= MaxChunkPayload ->
  parse_riff_header (le32 FourCCRIFF ++ le32 rs ++ le32 FourCCWEBP ++ body) = Ok rs.
Proof.
  intros Hrs. unfold MaxChunkPayload in Hrs. destruct fourcc_ranges as (_ & _ & _ & _ & _ & _ & _ & HR & HW).
  unfold parse_riff_header, RIFFHeaderSize, ChunkHeaderSize, MaxChunkPayload.
  rewrite !len_app, !len_le32. pose proof (len_nonneg body).
  destruct (Z.ltb_spec (4 + (4 + (4 + len body))) 12); [lia|].
  change 4 with (len (le32 FourCCRIFF)) at 1. rewrite slice_head. cbn [bind].
  rewrite rd32_le32_id by exact HR. rewrite Z.eqb_refl. cbn [negb].
  change 4 with (len (le32 FourCCRIFF)) at 1. change 8 with (len (le32 FourCCRIFF) + len (le32 rs)) at 1.
  rewrite slice_mid. cbn [bind]. rewrite rd32_le32_id by lia.
  destruct (Z.ltb_spec rs 8); [lia|]. destruct (Z.gtb_spec rs 4294967286); [lia|].
  rewrite (app_assoc (le32 FourCCRIFF)).
  change 8 with (len (le32 FourCCRIFF ++ le32 rs)) at 1.
  change 12 with (len (le32 FourCCRIFF ++ le32 rs) + len (le32 FourCCWEBP)).
  rewrite slice_mid. cbn [bind]. rewrite rd32_le32_id by exact HW. rewrite Z.eqb_refl. reflexivity.
Qed.

Lemma body_of_written rs body :
  slice (le32 FourCCRIFF ++ le32 rs ++ le32 FourCCWEBP ++ body) 12
        (len (le32 FourCCRIFF ++ le32 rs ++ le32 FourCCWEBP ++ body)) = Ok body.
Proof.
  rewrite (app_assoc (le32 rs)). rewrite (app_assoc (le32 FourCCRIFF)).
  change 12 with (len (le32 FourCCRIFF ++ le32 rs ++ le32 FourCCWEBP)). apply slice_tail.
Qed.

(** parse on [header ++ body] reduces to the format dispatch on [body]. *)
Lemma parse_ex_written fx rs body id d rest :
  rs = 4 + len body -> 8 <= rs <= MaxChunkPayload -> body = chunk id d ++ rest ->
  0 <= id < 4294967296 ->
  parse_ex fx (le32 FourCCRIFF ++ le32 rs ++ le32 FourCCWEBP ++ body) =
  if id =? FourCCVP8X then parse_vp8x fx body
  else if id =? FourCCVP8 then r <- parse_single_image FormatVP8 body ;; Ok (r, KStill)
  else if id =? FourCCVP8L then r <- parse_single_image FormatVP8L body ;; Ok (r, KStill)
  else Err EUnsupported.
Proof.
  intros Hrs Hr Hb Hid. unfold parse_ex. rewrite riff_header_written by exact Hr. cbn [bind].
  unfold ChunkHeaderSize, RIFFHeaderSize.
  assert (Hlen : len (le32 FourCCRIFF ++ le32 rs ++ le32 FourCCWEBP ++ body) = rs + 8).
  { rewrite !len_app, !len_le32. lia. }
  destruct (Z.gtb_spec (rs + 8) (len (le32 FourCCRIFF ++ le32 rs ++ le32 FourCCWEBP ++ body))); [lia|].
  rewrite <- Hlen. rewrite body_of_written. cbn [bind].
  assert (8 <= len body).
  { rewrite Hb, len_app. pose proof (chunk_min_len id d). pose proof (len_nonneg rest). lia. }
  destruct (Z.ltb_spec (len body) 8); [lia|].
  rewrite Hb at 1. rewrite first_fourcc_of_chunk. cbn [bind]. rewrite rd32_le32_id by exact Hid.
  reflexivity.
Qed.

(** ** Step lemmas of the chunk loops on written chunks *)
Lemma len_chunk_app_ge id d (rest : list Z) : 8 <= len (chunk id d ++ rest).
Proof. rewrite len_app. pose proof (chunk_min_len id d). pose proof (len_nonneg rest). lia. Qed.

Lemma chunks_step_iccp fuel fx feat cs d rest :
  fHasICCP feat = true -> len d <= MaxMetadataSize ->
  parse_vp8x_chunks (S fuel) fx feat [] cs 0 (chunk FourCCICCP d ++ rest) =
  parse_vp8x_chunks fuel fx feat [] (cs ++ [mkChunk FourCCICCP d]) 0 rest.
Proof.
  intros Hf Hd. unfold MaxMetadataSize in Hd. cbn [parse_vp8x_chunks]. unfold ChunkHeaderSize.
  pose proof (len_chunk_app_ge FourCCICCP d rest).
  destruct (Z.ltb_spec (len (chunk FourCCICCP d ++ rest)) 8); [lia|].
  rewrite chunk_at_chunk by (unfold FourCCICCP, MaxChunkPayload; lia). cbn [bind].
  change (FourCCICCP =? FourCCVP8X) with false. change (FourCCICCP =? FourCCANIM) with false.
  change (FourCCICCP =? FourCCANMF) with false.
  change (is_image_fourcc FourCCICCP || (FourCCICCP =? FourCCALPH)) with false.
  change (FourCCICCP =? FourCCICCP) with true. cbv iota.
  unfold add_meta. rewrite Hf. unfold MaxMetadataSize.
  destruct (Z.gtb_spec (len d) 104857600); [lia|]. cbn [bind].
  rewrite rest_after_chunk. cbn [bind]. reflexivity.
Qed.

Lemma chunks_step_image fuel fx feat cs id d rest :
  id = FourCCVP8 \/ id = FourCCVP8L \/ id = FourCCALPH -> len d <= MaxChunkPayload ->
  fHasAnim feat = false ->
  parse_vp8x_chunks (S fuel) fx feat [] cs 0 (chunk id d ++ rest) =
  (r <- parse_ext_single (S (length (chunk id d ++ rest))) feat [] cs None (chunk id d ++ rest) ;; Ok (r, KStill)).
Proof.
  intros Hid Hd Ha. cbn [parse_vp8x_chunks]. unfold ChunkHeaderSize.
  pose proof (len_chunk_app_ge id d rest).
  destruct (Z.ltb_spec (len (chunk id d ++ rest)) 8); [lia|].
  assert (Hr : 0 <= id < 4294967296).
  { destruct Hid as [->|[->| ->]]; [unfold FourCCVP8|unfold FourCCVP8L|unfold FourCCALPH]; lia. }
  rewrite chunk_at_chunk by assumption.
  cbn [bind]. rewrite Ha.
  destruct Hid as [->|[->| ->]]; reflexivity.
Qed.

Lemma ext_step_alph fuel feat cs alph d rest :
  len d <= MaxChunkPayload ->
  parse_ext_single (S fuel) feat [] cs alph (chunk FourCCALPH d ++ rest) =
  parse_ext_single fuel (set_alpha feat) [] cs (Some d) rest.
Proof.
  intros Hd. cbn [parse_ext_single]. unfold ChunkHeaderSize.
  pose proof (len_chunk_app_ge FourCCALPH d rest).
  destruct (Z.ltb_spec (len (chunk FourCCALPH d ++ rest)) 8); [lia|].
  rewrite chunk_at_chunk by (exact Hd || (unfold FourCCALPH; lia)). cbn [bind].
  change (FourCCALPH =? FourCCALPH) with true. cbv iota.
  rewrite rest_after_chunk. cbn [bind]. reflexivity.
Qed.

Lemma ext_step_vp8 fuel feat cs alph d rest w h :
  len d <= MaxChunkPayload -> parse_vp8_header d = Ok (w, h) ->
  parse_ext_single (S fuel) feat [] cs alph (chunk FourCCVP8 d ++ rest) =
  Ok (mkParsed (set_dims feat w h)
               [mkFrame 0 0 w h 0 false false (match alph with Some _ => true | None => false end) false d alph] cs).
Proof.
  intros Hd Hh. cbn [parse_ext_single]. unfold ChunkHeaderSize.
  pose proof (len_chunk_app_ge FourCCVP8 d rest).
  destruct (Z.ltb_spec (len (chunk FourCCVP8 d ++ rest)) 8); [lia|].
  rewrite chunk_at_chunk by (exact Hd || (unfold FourCCVP8; lia)). cbn [bind].
  change (FourCCVP8 =? FourCCALPH) with false. change (FourCCVP8 =? FourCCVP8L) with false.
  change (FourCCVP8 =? FourCCVP8) with true. cbv iota. rewrite Hh. cbn [bind app]. reflexivity.
Qed.

Lemma ext_step_vp8l fuel feat cs d rest w h a :
  len d <= MaxChunkPayload -> parse_vp8l_header d = Ok (w, h, a) ->
  parse_ext_single (S fuel) feat [] cs None (chunk FourCCVP8L d ++ rest) =
  Ok (mkParsed (set_dims (if a then set_alpha feat else feat) w h)
               [mkFrame 0 0 w h 0 false false a true d None] cs).
Proof.
  intros Hd Hh. cbn [parse_ext_single]. unfold ChunkHeaderSize.
  pose proof (len_chunk_app_ge FourCCVP8L d rest).
  destruct (Z.ltb_spec (len (chunk FourCCVP8L d ++ rest)) 8); [lia|].
  rewrite chunk_at_chunk by (exact Hd || (unfold FourCCVP8L; lia)). cbn [bind].
  change (FourCCVP8L =? FourCCALPH) with false. change (FourCCVP8L =? FourCCVP8L) with true. cbv iota.
  rewrite Hh. cbn [bind app]. reflexivity.
Qed.

(** ** The parse of the extended layout *)
Definition expected_frame (fourcc : Z) (bs alpha : list Z) (w h : Z) (a : bool) : FrameInfo :=
  if fourcc =? FourCCVP8L then mkFrame 0 0 w h 0 false false a true bs None
  else mkFrame 0 0 w h 0 false false (len alpha >? 0) false bs (opt_blob alpha).

Definition expected_chunks (icc : list Z) : list Chunk :=
  if len icc >? 0 then [mkChunk FourCCICCP icc] else [].

Definition expected_features (alpha : list Z) (w h : Z) (icc exif xmp : list Z) (a : bool) : Features :=
  mkFeatures w h ((len alpha >? 0) || a) false (len icc >? 0) (len exif >? 0) (len xmp >? 0)
             FormatVP8X 1 4294967295 w h.

Lemma header_declares_range fourcc bs w h a :
  image_fourcc fourcc -> header_declares fourcc bs w h a -> 1 <= w <= 16384 /\ 1 <= h <= 16384.
Proof.
  unfold header_declares, image_dims. intros [->| ->].
  - change (FourCCVP8 =? FourCCVP8L) with false. change (FourCCVP8 =? FourCCVP8) with true.
    destruct (parse_vp8_header bs) as [[w' h']|e|] eqn:E; try discriminate. intros [= -> -> _].
    unfold parse_vp8_header in E.
    destruct (len bs <? VP8FrameHeaderSize); [discriminate|].
    destruct (slice bs 0 10) as [hd|e|]; cbn [bind] in E; try discriminate.
    destruct hd as [|b0 [|b1 [|b2 [|b3 [|b4 [|b5 [|b6 [|b7 [|b8 [|b9 [|? ?]]]]]]]]]]]; try discriminate.
    destruct (negb _); [discriminate|]. destruct (negb _); [discriminate|].
    pose proof (Z.mod_pos_bound (rd16 [b6; b7]) 16384 ltac:(lia)) as Hx.
    pose proof (Z.mod_pos_bound (rd16 [b8; b9]) 16384 ltac:(lia)) as Hy.
    remember (rd16 [b6; b7] mod 16384) as x. remember (rd16 [b8; b9] mod 16384) as y.
    destruct (Z.eqb_spec x 0); cbn [orb] in E; [discriminate|].
    destruct (Z.eqb_spec y 0); [discriminate|].
    injection E as <- <-. lia.
  - change (FourCCVP8L =? FourCCVP8L) with true.
    destruct (parse_vp8l_header bs) as [[[w' h'] a']|e|] eqn:E; try discriminate. intros [= -> -> _].
    unfold parse_vp8l_header in E.
    destruct (len bs <? VP8LFrameHeaderSize); [discriminate|].
    destruct (slice bs 0 5) as [hd|e|]; cbn [bind] in E; try discriminate.
    destruct hd as [|b0 [|b1 [|b2 [|b3 [|b4 [|? ?]]]]]]; try discriminate.
    destruct (negb _); [discriminate|]. destruct (negb _); [discriminate|].
    destruct (_ || _); [discriminate|].
    pose proof (Z.mod_pos_bound (rd32 [b1; b2; b3; b4]) 16384 ltac:(lia)) as Hx.
    pose proof (Z.mod_pos_bound (rd32 [b1; b2; b3; b4] / 16384) 16384 ltac:(lia)) as Hy.
    remember (rd32 [b1; b2; b3; b4] mod 16384) as x. remember ((rd32 [b1; b2; b3; b4] / 16384) mod 16384) as y.
    injection E as <- <- _. lia.
Qed.

Lemma vp8x_payload_explicit f w h :
  0 <= f < 64 ->
  vp8x_payload f w h =
  [f; 0; 0; 0; (w - 1) mod 256; ((w - 1) / 256) mod 256; ((w - 1) / 65536) mod 256;
   (h - 1) mod 256; ((h - 1) / 256) mod 256; ((h - 1) / 65536) mod 256].
Proof.
  intros Hr. unfold vp8x_payload, le32, le24. cbn [app].
  replace (f mod 256) with f by lia. replace ((f / 256) mod 256) with 0 by lia.
  replace ((f / 65536) mod 256) with 0 by lia. replace ((f / 16777216) mod 256) with 0 by lia. reflexivity.
Qed.

(** parseVP8X on the written body, up to the chunk loop. *)
Lemma parse_vp8x_written fx f w h rest :
  0 <= f < 64 -> Z.land f 4294967233 = 0 -> 1 <= w <= 16384 -> 1 <= h <= 16384 ->
  parse_vp8x fx (chunk FourCCVP8X (vp8x_payload f w h) ++ rest) =
  parse_vp8x_chunks (S (length rest)) fx
    (mkFeatures w h (Z.testbit f 4) (Z.testbit f 1) (Z.testbit f 5) (Z.testbit f 3) (Z.testbit f 2)
                FormatVP8X 1 4294967295 w h) [] [] 0 rest.
Proof.
  intros Hf Hl Hw Hh. unfold parse_vp8x.
  destruct fourcc_ranges as (HX & _).
  assert (Hlen : len (vp8x_payload f w h) = 10) by reflexivity.
  rewrite read_header_chunk by (rewrite ?Hlen; unfold MaxChunkPayload; lia). cbn [bind].
  rewrite Hlen. unfold VP8XChunkSize, ChunkHeaderSize. change (negb (10 =? 10)) with false. cbv iota.
  change (10 mod 2) with 0. change (8 + (10 + 0)) with 18. change (8 + 10) with 18.
  assert (Hl18 : len (chunk FourCCVP8X (vp8x_payload f w h)) = 18) by reflexivity.
  pose proof (len_nonneg rest).
  destruct (Z.gtb_spec 18 (len (chunk FourCCVP8X (vp8x_payload f w h) ++ rest))) as [Hg|_];
    [rewrite len_app, Hl18 in Hg; lia|].
  change 18 with (8 + len (vp8x_payload f w h)) at 1. rewrite payload_of_chunk. cbn [bind].
  rewrite (vp8x_payload_explicit f w h Hf) at 1. cbv iota.
  rewrite Hl. change (negb (0 =? 0)) with false. cbv iota.
  rewrite !rd24_le24' by lia.
  replace (1 + (w - 1)) with w by lia. replace (1 + (h - 1)) with h by lia.
  assert (Harea : w * h < MaxImageArea) by (unfold MaxImageArea; nia).
  destruct (Z.geb_spec (w * h) MaxImageArea); [lia|].
  rewrite <- Hl18 at 1. rewrite rest_after_chunk. cbn [bind]. reflexivity.
Qed.

(** The image part: [ALPH] image [tail], from the chunk loop. *)
Lemma chunks_image_part fuel fx feat cs fourcc bs alpha w h a tail :
  image_fourcc fourcc -> header_declares fourcc bs w h a ->
  len bs <= MaxChunkPayload -> len alpha <= MaxChunkPayload ->
  (len alpha > 0 -> fourcc = FourCCVP8) -> fHasAnim feat = false ->
  parse_vp8x_chunks (S fuel) fx feat [] cs 0 (opt_chunk FourCCALPH alpha ++ chunk fourcc bs ++ tail) =
  Ok (mkParsed (set_dims (if (len alpha >? 0) || a then set_alpha feat else feat) w h)
               [expected_frame fourcc bs alpha w h a] cs, KStill).
Proof.
  intros Hf Hd Hbs Hal Halph Hanim. unfold opt_chunk, expected_frame, opt_blob.
  unfold header_declares, image_dims in Hd.
  destruct (Z.gtb_spec (len alpha) 0) as [Hgt|Hle].
  - rewrite (Halph ltac:(lia)) in *. cbn [orb].
    change (FourCCVP8 =? FourCCVP8L) with false in *. change (FourCCVP8 =? FourCCVP8) with true in Hd.
    destruct (parse_vp8_header bs) as [[w' h']|e|] eqn:Eh; try discriminate. injection Hd as -> -> <-.
    rewrite chunks_step_image by (auto || exact Hal || exact Hanim).
    rewrite ext_step_alph by exact Hal.
    assert (Hfu : exists f, length (chunk FourCCALPH alpha ++ chunk FourCCVP8 bs ++ tail) = S f).
    { rewrite app_length. pose proof (chunk_min_len FourCCALPH alpha). unfold len in *.
      exists (pred (length (chunk FourCCALPH alpha) + length (chunk FourCCVP8 bs ++ tail))). lia. }
    destruct Hfu as [f ->].
    rewrite (ext_step_vp8 f _ _ _ _ _ w h Hbs Eh). cbn [bind]. reflexivity.
  - cbn [app orb]. destruct Hf as [->| ->].
    + change (FourCCVP8 =? FourCCVP8L) with false in *. change (FourCCVP8 =? FourCCVP8) with true in Hd.
      destruct (parse_vp8_header bs) as [[w' h']|e|] eqn:Eh; try discriminate. injection Hd as -> -> <-.
      rewrite chunks_step_image by (auto || exact Hbs || exact Hanim).
      rewrite (ext_step_vp8 _ _ _ _ _ _ w h Hbs Eh). cbn [bind]. reflexivity.
    + change (FourCCVP8L =? FourCCVP8L) with true in *.
      destruct (parse_vp8l_header bs) as [[[w' h'] a']|e|] eqn:Eh; try discriminate. injection Hd as -> -> ->.
      rewrite chunks_step_image by (auto || exact Hbs || exact Hanim).
      rewrite (ext_step_vp8l _ _ _ _ _ w h a Hbs Eh). cbn [bind]. reflexivity.
Qed.

Lemma opt_chunk_some id d : len d > 0 -> opt_chunk id d = chunk id d.
Proof. intros H. unfold opt_chunk. destruct (Z.gtb_spec (len d) 0); [reflexivity|lia]. Qed.
Lemma opt_chunk_none id d : len d <= 0 -> opt_chunk id d = [].
Proof. intros H. unfold opt_chunk. destruct (Z.gtb_spec (len d) 0); [lia|reflexivity]. Qed.

Theorem parse_written_extended fx fourcc bs alpha w h icc exif xmp a file :
  image_fourcc fourcc -> sizes_ok bs alpha icc exif xmp -> header_declares fourcc bs w h a ->
  (len alpha > 0 -> fourcc = FourCCVP8) -> len icc <= MaxMetadataSize ->
  write_riff_extended fourcc bs alpha w h icc exif xmp = Ok file ->
  parse_ex fx file =
  Ok (mkParsed (expected_features alpha w h icc exif xmp a) [expected_frame fourcc bs alpha w h a]
               (expected_chunks icc), KStill).
Proof.
  intros Hf Hs Hd Halph Hicc Hw.
  destruct (header_declares_range _ _ _ _ _ Hf Hd) as [Hwr Hhr].
  pose proof (header_declares_alpha _ _ _ _ _ Hf Hd) as Hbit.
  destruct (sizes_ok_each _ _ _ _ _ Hs) as (Hbs & Hal & _).
  assert (Hfile : file = le32 FourCCRIFF ++ le32 (riff_size_extended bs alpha icc exif xmp) ++ le32 FourCCWEBP
                      ++ written_body fourcc bs alpha w h icc exif xmp).
  { rewrite write_extended_eq in Hw by exact Hs. congruence. }
  subst file. clear Hw.
  destruct (flags_exact fourcc bs alpha icc exif xmp) as (F5 & F3 & F2 & F4 & F1 & Fl & Fr).
  set (f := vp8x_flags fourcc bs alpha icc exif xmp) in *.
  set (rest := opt_chunk FourCCICCP icc ++ opt_chunk FourCCALPH alpha ++ chunk fourcc bs ++
               opt_chunk FourCCEXIF exif ++ opt_chunk FourCCXMP xmp).
  assert (Hbody : written_body fourcc bs alpha w h icc exif xmp = chunk FourCCVP8X (vp8x_payload f w h) ++ rest)
    by reflexivity.
  destruct fourcc_ranges as (HX & _).
  rewrite (parse_ex_written fx _ _ FourCCVP8X (vp8x_payload f w h) rest).
  2:{ apply riff_size_is_body. }
  2:{ pose proof (riff_size_even bs alpha icc exif xmp). unfold sizes_ok in Hs.
      rewrite (riff_size_is_body fourcc bs alpha w h icc exif xmp) in *. rewrite Hbody, len_app in *.
      pose proof (chunk_min_len FourCCVP8X (vp8x_payload f w h)). pose proof (len_nonneg rest).
      unfold MaxChunkPayload. lia. }
  2:{ exact Hbody. }
  2:{ exact HX. }
  change (FourCCVP8X =? FourCCVP8X) with true. cbv iota. rewrite Hbody.
  rewrite parse_vp8x_written by assumption.
  rewrite F5, F3, F2, F4, F1, Hbit.
  unfold expected_features, expected_chunks.
  subst rest. unfold MaxChunkPayload in *.
  destruct (Z.gtb_spec (len icc) 0) as [Hi|Hi].
  - rewrite (opt_chunk_some FourCCICCP icc) by lia.
    match goal with |- context [S (length ?l)] =>
      assert (Hrest : (1 < length l)%nat)
        by (rewrite app_length; pose proof (chunk_min_len FourCCICCP icc); unfold len in *; lia);
      destruct (length l) as [|[|fu]]; [lia|lia|] end.
    rewrite chunks_step_iccp by (reflexivity || exact Hicc). cbn [app].
    rewrite (chunks_image_part _ fx _ _ fourcc bs alpha w h a)
      by (assumption || reflexivity || (unfold MaxChunkPayload; lia)).
    destruct ((len alpha >? 0) || a); reflexivity.
  - rewrite (opt_chunk_none FourCCICCP icc) by lia. cbn [app].
    rewrite (chunks_image_part _ fx _ _ fourcc bs alpha w h a)
      by (assumption || reflexivity || (unfold MaxChunkPayload; lia)).
    destruct ((len alpha >? 0) || a); reflexivity.
Qed.

(** ** The simple layout *)
Lemma pad_is_repeat n : pad n = repeat 0 (Z.to_nat (n mod 2)).
Proof.
  unfold pad. destruct (Z.eqb_spec (n mod 2) 0) as [E|E]; [rewrite E; reflexivity|].
  replace (n mod 2) with 1 by lia. reflexivity.
Qed.

Lemma firstn_copy_zero (bs : list Z) p :
  firstn (length bs + p) (bs ++ repeat 0 (length bs + p)) = bs ++ repeat 0 p.
Proof.
  rewrite firstn_app. rewrite firstn_all2 by lia. f_equal.
  replace (length bs + p - length bs)%nat with p by lia.
  induction p as [|p IH]; [reflexivity|].
  replace (length bs + S p)%nat with (S (length bs + p)) by lia. cbn [repeat firstn]. f_equal.
  clear IH. revert bs. induction p as [|p IH]; intros bs; [reflexivity|].
  cbn [firstn repeat]. destruct (length bs + S p)%nat eqn:E; [lia|]. cbn [repeat]. f_equal.
  specialize (IH bs). replace n with (length bs + p)%nat by lia.
  clear. induction p as [|p IH]; [reflexivity|]. cbn [firstn].
  replace (length bs + S p)%nat with (S (length bs + p)) by lia. cbn [repeat]. f_equal. exact IH.
Qed.

Definition simple_file (fourcc : Z) (bs : list Z) : list Z :=
  le32 FourCCRIFF ++ le32 (4 + len (chunk fourcc bs)) ++ le32 FourCCWEBP ++ chunk fourcc bs.

Lemma simple_header_small fourcc n :
  0 <= n < 4294967296 - 21 ->
  simple_header fourcc n = le32 FourCCRIFF ++ le32 (4 + padded_chunk_size n) ++ le32 FourCCWEBP ++ le32 fourcc ++ le32 n.
Proof.
  intros H. unfold simple_header, u32, padded_chunk_size, ChunkHeaderSize.
  rewrite (Z.mod_small n) by lia. rewrite (Z.mod_small (n + n mod 2)) by lia.
  rewrite (Z.mod_small (4 + 8 + (n + n mod 2))) by lia.
  replace (4 + 8 + (n + n mod 2)) with (4 + (8 + n + n mod 2)) by lia. reflexivity.
Qed.

Theorem write_simple_eq fourcc bs :
  len bs < 4294967296 - 21 -> write_riff_simple fourcc bs = Ok (simple_file fourcc bs).
Proof.
  intros H. pose proof (len_nonneg bs) as H0. unfold write_riff_simple, u32, ChunkHeaderSize.
  rewrite (Z.mod_small (len bs)) by lia. rewrite (Z.mod_small (len bs + len bs mod 2)) by lia.
  rewrite (Z.mod_small (4 + 8 + (len bs + len bs mod 2))) by lia.
  rewrite (Z.mod_small (8 + (4 + 8 + (len bs + len bs mod 2)))) by lia.
  destruct (Z.ltb_spec (8 + (4 + 8 + (len bs + len bs mod 2))) 20); [lia|].
  destruct (Z.ltb_spec (20 + len bs) (8 + (4 + 8 + (len bs + len bs mod 2)))) as [Hl|Hl].
  2:{ assert (Hm : len bs mod 2 = 0) by lia. rewrite Hm. change (negb (0 =? 0)) with false. cbn [andb].
      rewrite simple_header_small by lia. unfold simple_file. rewrite len_chunk. unfold chunk. rewrite pad_is_repeat, Hm.
      replace (8 + (4 + 8 + (len bs + 0)) - 20) with (len bs) by lia.
      replace (Z.to_nat (len bs)) with (length bs + 0)%nat by (unfold len; lia).
      rewrite firstn_copy_zero. cbn [repeat Z.to_nat]. rewrite <- !app_assoc. reflexivity. }
  rewrite andb_false_r.
  rewrite simple_header_small by lia. unfold simple_file. rewrite len_chunk. unfold chunk. rewrite pad_is_repeat.
  replace (8 + (4 + 8 + (len bs + len bs mod 2)) - 20) with (len bs + len bs mod 2) by lia.
  replace (Z.to_nat (len bs + len bs mod 2)) with (length bs + Z.to_nat (len bs mod 2))%nat by (unfold len; lia).
  rewrite firstn_copy_zero. rewrite <- !app_assoc. reflexivity.
Qed.

(** The streaming lossless path writes the same bytes as the buffered one. *)
Theorem streaming_eq_buffered bs :
  len bs < 4294967296 - 21 -> Ok (write_lossless_stream bs) = write_riff_simple FourCCVP8L bs.
Proof.
  intros H. pose proof (len_nonneg bs). rewrite write_simple_eq by exact H. f_equal.
  unfold write_lossless_stream, simple_file. rewrite simple_header_small by lia.
  rewrite len_chunk. unfold chunk. rewrite <- !app_assoc. reflexivity.
Qed.

Definition simple_features (fourcc w h : Z) (a : bool) : Features :=
  mkFeatures w h a false false false false (if fourcc =? FourCCVP8L then FormatVP8L else FormatVP8) 0 0 w h.

Theorem parse_written_simple fx fourcc bs w h a :
  image_fourcc fourcc -> len bs < 4294967296 - 21 -> header_declares fourcc bs w h a ->
  parse_ex fx (simple_file fourcc bs) =
  Ok (mkParsed (simple_features fourcc w h a) [expected_frame fourcc bs [] w h a] [], KStill).
Proof.
  intros Hf Hl Hd. pose proof (len_nonneg bs) as H0. unfold simple_file.
  rewrite (parse_ex_written fx _ _ fourcc bs []).
  2:{ reflexivity. }
  2:{ rewrite len_chunk. unfold padded_chunk_size, ChunkHeaderSize, MaxChunkPayload. lia. }
  2:{ rewrite app_nil_r. reflexivity. }
  2:{ apply image_fourcc_range. exact Hf. }
  unfold header_declares, image_dims in Hd. unfold parse_single_image, expected_frame, simple_features, opt_blob.
  rewrite <- (app_nil_r (chunk fourcc bs)).
  rewrite chunk_at_chunk by ((apply image_fourcc_range; exact Hf) || (unfold MaxChunkPayload; lia)).
  cbn [bind]. change (len (@nil Z) >? 0) with false.
  destruct Hf as [->| ->].
  - change (FourCCVP8 =? FourCCVP8X) with false. change (FourCCVP8 =? FourCCVP8) with true.
    change (FourCCVP8 =? FourCCVP8L) with false in *. cbv iota in *.
    destruct (parse_vp8_header bs) as [[w' h']|e|]; try discriminate. injection Hd as -> -> <-.
    cbn [bind]. reflexivity.
  - change (FourCCVP8L =? FourCCVP8X) with false. change (FourCCVP8L =? FourCCVP8) with false.
    change (FourCCVP8L =? FourCCVP8L) with true in *. cbv iota in *.
    destruct (parse_vp8l_header bs) as [[[w' h'] a']|e|]; try discriminate. injection Hd as -> -> ->.
    cbn [bind]. reflexivity.
Qed.
