(** C14 lemmas over the muxer / demuxer models: a written chunk reads back as
    itself with its padding ([read_chunk_write]), the size formulas agree with
    what is written ([chunk_total_correct], [anmf_size_correct],
    [riff_size_correct_simple]), the flags derivation, the still-vs-animated
    choice, and the round trip for the simple layout. *)
From Coq Require Import List ZArith Lia Bool ZifyBool ZifyNat.
From Webp Require Import Base.Res Base.Bytes Riff.RiffGrammar Riff.DemuxModel Riff.DemuxTotal
  Riff.MuxModel Riff.MuxView.
Import ListNotations.
Open Scope Z_scope.
Ltac Zify.zify_post_hook ::= Z.div_mod_to_equations.

Lemma len_le32 v : len (le32 v) = 4. Proof. reflexivity. Qed.
Lemma len_cons {A} (a : A) l : len (a :: l) = 1 + len l.
Proof. unfold len. cbn [length]. lia. Qed.
Lemma len_nil {A} : len (@nil A) = 0. Proof. reflexivity. Qed.

Lemma slice_app_mid {A} (pre s post : list A) :
  slice (pre ++ s ++ post) (len pre) (len pre + len s) = Ok s.
Proof.
  pose proof (len_nonneg pre). pose proof (len_nonneg s). pose proof (len_nonneg post).
  rewrite slice_ok; [|lia|fold (len (pre ++ s ++ post)); rewrite !len_app; lia].
  f_equal. unfold len. rewrite Nat2Z.id.
  replace (Z.to_nat (Z.of_nat (length pre) + Z.of_nat (length s) - Z.of_nat (length pre))) with (length s) by lia.
  rewrite skipn_app_exact. apply firstn_app_exact.
Qed.

Lemma slice_app_mid' {A} (pre s post : list A) a b :
  a = len pre -> b = len pre + len s -> slice (pre ++ s ++ post) a b = Ok s.
Proof. intros -> ->. apply slice_app_mid. Qed.

Lemma slice_app_head {A} (s post : list A) : slice (s ++ post) 0 (len s) = Ok s.
Proof. exact (slice_app_mid [] s post). Qed.

Lemma slice_suffix {A} (pre post : list A) : slice (pre ++ post) (len pre) (len (pre ++ post)) = Ok post.
Proof.
  pose proof (slice_app_mid pre post []) as H. rewrite app_nil_r in H.
  rewrite len_app. exact H.
Qed.

Lemma u32at_le32_head v rest : 0 <= v < 4294967296 -> u32at (le32 v ++ rest) 0 = Ok v.
Proof.
  intros Hv. unfold u32at.
  rewrite (slice_app_mid' [] (le32 v) rest) by reflexivity. cbn [bind]. f_equal.
  rewrite <- (app_nil_r (le32 v)). apply rd32_le32. exact Hv.
Qed.

Lemma u32at_le32_second a v rest : 0 <= v < 4294967296 -> u32at (le32 a ++ le32 v ++ rest) 4 = Ok v.
Proof.
  intros Hv. unfold u32at.
  rewrite (slice_app_mid' (le32 a) (le32 v) rest) by reflexivity. cbn [bind]. f_equal.
  rewrite <- (app_nil_r (le32 v)). apply rd32_le32. exact Hv.
Qed.

(** ReadChunkHeader on a written header *)
Lemma read_chunk_header_written id sz rest :
  0 <= id < 4294967296 -> 0 <= sz <= MaxChunkPayload ->
  read_chunk_header (le32 id ++ le32 sz ++ rest) = Ok (id, sz).
Proof.
  intros Hid Hsz. unfold read_chunk_header, ChunkHeaderSize, MaxChunkPayload in *.
  rewrite !len_app, !len_le32. pose proof (len_nonneg rest).
  destruct (Z.ltb_spec (4 + (4 + len rest)) 8); [lia|].
  rewrite u32at_le32_head by lia. cbn [bind].
  rewrite u32at_le32_second by lia. cbn [bind].
  destruct (Z.gtb_spec sz 4294967286); [lia|]. reflexivity.
Qed.

Definition pad_of (n : Z) : list Z := if negb (n mod 2 =? 0) then [0] else [].

Lemma write_data_chunk_eq id p : len p < 4294967296 ->
  write_data_chunk id p = le32 id ++ le32 (len p) ++ p ++ pad_of (len p).
Proof.
  intros H. unfold write_data_chunk, u32, pad_of. pose proof (len_nonneg p).
  rewrite Z.mod_small by lia. reflexivity.
Qed.

Lemma len_pad_of n : len (pad_of n) = n mod 2.
Proof. unfold pad_of. destruct (Z.eqb_spec (n mod 2) 0); cbn; unfold len; cbn; lia. Qed.

(** [padding_correct] / chunk write-read round trip: whatever follows, a written
    chunk reads back as (id, size, payload) and consumes exactly its bytes
    including the padding byte. *)
Lemma read_chunk_write id p rest :
  0 <= id < 4294967296 -> len p <= MaxChunkPayload ->
  read_chunk (write_data_chunk id p ++ rest) =
    Ok (mkchunk id (len p) p, len (write_data_chunk id p)).
Proof.
  intros Hid Hp. pose proof (len_nonneg p) as Hp0. pose proof (len_nonneg rest) as Hr0.
  unfold MaxChunkPayload in Hp.
  rewrite write_data_chunk_eq by lia.
  unfold read_chunk. rewrite <- !app_assoc.
  rewrite read_chunk_header_written by (unfold MaxChunkPayload; lia). cbn [bind].
  unfold ChunkHeaderSize.
  rewrite !len_app, !len_le32, len_pad_of.
  destruct (Z.gtb_spec (8 + len p) (4 + (4 + (len p + (len p mod 2 + len rest))))); [lia|].
  replace (le32 id ++ le32 (len p) ++ p ++ pad_of (len p) ++ rest)
    with ((le32 id ++ le32 (len p)) ++ p ++ (pad_of (len p) ++ rest)) by (rewrite <- !app_assoc; reflexivity).
  rewrite (slice_app_mid' (le32 id ++ le32 (len p)) p (pad_of (len p) ++ rest)) by reflexivity.
  cbn [bind]. f_equal. f_equal.
  destruct (Z.eqb_spec (len p mod 2) 0) as [He|Ho]; cbn [negb andb].
  - lia.
  - destruct (Z.ltb_spec (8 + len p) (4 + (4 + (len p + (len p mod 2 + len rest))))); lia.
Qed.

(** chunkTotalSize is the number of bytes writeDataChunk writes *)
Lemma chunk_total_correct id p : len p < 2147483648 ->
  len (write_data_chunk id p) = chunk_total (u32 (len p)).
Proof.
  intros H. pose proof (len_nonneg p). rewrite write_data_chunk_eq by lia.
  rewrite !len_app, !len_le32, len_pad_of. unfold chunk_total, u32, ChunkHeaderSize.
  rewrite (Z.mod_small (len p) 4294967296) by lia.
  destruct (Z.eqb_spec (len p mod 2) 0); cbn [negb]; lia.
Qed.

Lemma write_data_chunk_even id p : len p < 2147483648 -> len (write_data_chunk id p) mod 2 = 0.
Proof.
  intros H. pose proof (len_nonneg p). rewrite write_data_chunk_eq by lia.
  rewrite !len_app, !len_le32, len_pad_of. lia.
Qed.

(** frameSubChunksSize is the number of bytes written for ALPH + bitstream *)
Lemma sub_chunks_size_correct alpha bits : olen alpha < 1073741824 -> len bits < 1073741824 ->
  len ((match alpha with Some a => write_data_chunk FCC_ALPH a | None => [] end) ++
       write_data_chunk (detect_type bits) bits) = sub_chunks_size alpha bits.
Proof.
  intros Ha Hb. rewrite len_app, (chunk_total_correct _ bits ltac:(lia)).
  unfold sub_chunks_size. pose proof (len_nonneg bits).
  assert (Hct : forall p, 0 <= p < 1073741824 -> 0 <= chunk_total (u32 p) < 1073741824 + 16).
  { intros p Hp. unfold chunk_total, u32, ChunkHeaderSize. rewrite (Z.mod_small p 4294967296) by lia.
    destruct (negb (p mod 2 =? 0)); lia. }
  destruct alpha as [a|]; cbn [olen] in Ha.
  - rewrite (chunk_total_correct _ a ltac:(lia)). pose proof (len_nonneg a).
    pose proof (Hct (len a) ltac:(lia)). pose proof (Hct (len bits) ltac:(lia)).
    set (x := chunk_total (u32 (len a))) in *. set (y := chunk_total (u32 (len bits))) in *. unfold u32. lia.
  - change (len (@nil Z)) with 0. pose proof (Hct (len bits) ltac:(lia)).
    set (y := chunk_total (u32 (len bits))) in *. unfold u32. lia.
Qed.

Lemma split_alpha_len data : let '(a, b) := split_alpha data in olen a <= len data /\ len b <= len data.
Proof.
  unfold split_alpha, ChunkHeaderSize. pose proof (len_nonneg data).
  destruct (Z.ltb_spec (len data) 8); [cbn [olen]; lia|].
  destruct data as [|a0 [|a1 [|a2 [|a3 [|s0 [|s1 [|s2 [|s3 body]]]]]]]]; try (cbn [olen]; lia).
  destruct (rd32 [a0; a1; a2; a3] =? FCC_ALPH); [|cbn [olen]; lia].
  set (n := rd32 [s0; s1; s2; s3]).
  destruct (Z.leb_spec (8 + n) (len (a0 :: a1 :: a2 :: a3 :: s0 :: s1 :: s2 :: s3 :: body))); [|cbn [olen]; lia].
  cbn [olen]. unfold len in *. cbn [length] in *. rewrite firstn_length, skipn_length. lia.
Qed.

(** [anmf_size_correct]: the ANMF chunk written for a frame has exactly the size
    assembleExtended adds to the RIFF size, its size field is its payload length,
    and it is even (so the trailing padding byte is never needed). *)
Lemma anmf_size_correct f : len (f_data f) < 1073741824 ->
  len (write_anmf f) = frame_riff_size repaired true f /\
  len (write_anmf f) mod 2 = 0.
Proof.
  intros Hd. unfold write_anmf, frame_riff_size.
  pose proof (split_alpha_len (f_data f)) as Hs.
  destruct (split_alpha (f_data f)) as [alpha bits].
  destruct Hs as [Ha Hb].
  destruct (frame_dims (f_data f)) as [fw fh].
  pose proof (sub_chunks_size_correct alpha bits ltac:(lia) ltac:(lia)) as Hsub.
  set (wr := (match alpha with Some a => write_data_chunk FCC_ALPH a | None => [] end)) in *.
  assert (Heven : len (wr ++ write_data_chunk (detect_type bits) bits) mod 2 = 0).
  { rewrite len_app. pose proof (write_data_chunk_even (detect_type bits) bits ltac:(lia)).
    unfold wr. destruct alpha as [a|]; [pose proof (write_data_chunk_even FCC_ALPH a ltac:(cbn [olen] in Ha; lia))|rewrite len_nil]; lia. }
  assert (Hbound : 0 <= sub_chunks_size alpha bits < 4294967296 - 100).
  { rewrite <- Hsub. rewrite len_app. pose proof (len_nonneg bits).
    rewrite (chunk_total_correct _ bits ltac:(lia)). unfold chunk_total, u32, ChunkHeaderSize.
    rewrite (Z.mod_small (len bits) 4294967296) by lia.
    unfold wr. destruct alpha as [a|].
    - pose proof (len_nonneg a). cbn [olen] in Ha. rewrite (chunk_total_correct _ a ltac:(lia)).
      unfold chunk_total, u32, ChunkHeaderSize. rewrite (Z.mod_small (len a) 4294967296) by lia.
      destruct (negb (len a mod 2 =? 0)), (negb (len bits mod 2 =? 0)); lia.
    - change (len (@nil Z)) with 0. destruct (negb (len bits mod 2 =? 0)); lia. }
  unfold ANMFChunkSize, ChunkHeaderSize, u32.
  rewrite (Z.mod_small (16 + sub_chunks_size alpha bits)) by lia.
  rewrite Hsub in Heven.
  assert (Hp : negb ((16 + sub_chunks_size alpha bits) mod 2 =? 0) = false).
  { destruct (Z.eqb_spec ((16 + sub_chunks_size alpha bits) mod 2) 0); [reflexivity|lia]. }
  rewrite Hp.
  rewrite app_nil_r.
  set (tail := wr ++ write_data_chunk (detect_type bits) bits) in *.
  set (dims := if (fw >? 0) && (fh >? 0) then le24 (fw - 1) ++ le24 (fh - 1) else [0; 0; 0; 0; 0; 0]).
  assert (Hd6 : len dims = 6) by (unfold dims; destruct ((fw >? 0) && (fh >? 0)); reflexivity).
  rewrite !len_app, !len_le32, Hd6, Hsub.
  change (len (le24 (o_ox (f_opts f) ÷ 2))) with 3. change (len (le24 (o_oy (f_opts f) ÷ 2))) with 3.
  change (len (le24 (o_dur (f_opts f)))) with 3.
  rewrite len_cons. change (len (@nil Z)) with 0.
  split; lia.
Qed.

(** [still_vs_animated_choice]: the layout decision *)
Lemma still_vs_animated_choice m :
  is_animated m = true <->
  (1 < len (m_frames m) \/ exists f, In f (m_frames m) /\ 0 < o_dur (f_opts f)).
Proof.
  unfold is_animated. rewrite orb_true_iff, existsb_exists. split.
  - intros [H|[f [Hf Hd]]]; [left; lia|right; exists f; split; [auto|lia]].
  - intros [H|[f [Hf Hd]]]; [left; lia|right; exists f; split; [auto|lia]].
Qed.

Lemma needs_vp8x_iff fx m :
  needs_vp8x fx m = false <->
  (is_animated m = false /\ m_icc m = None /\ m_exif m = None /\ m_xmp m = None /\
   (fx_alpha fx = true -> has_alpha_chunk m = false)).
Proof.
  unfold needs_vp8x. rewrite !orb_false_iff, andb_false_iff. unfold is_some.
  destruct (m_icc m), (m_exif m), (m_xmp m), (fx_alpha fx), (has_alpha_chunk m), (is_animated m);
    intuition congruence.
Qed.

(** [flags_derivation]: every VP8X flag bit reads back as the fact it stands for *)
Lemma flags_derivation m :
  let fl := vp8x_flags m in
  (negb ((fl / 2) mod 2 =? 0) = is_animated m) /\
  (negb ((fl / 32) mod 2 =? 0) = is_some (m_icc m)) /\
  (negb ((fl / 8) mod 2 =? 0) = is_some (m_exif m)) /\
  (negb ((fl / 4) mod 2 =? 0) = is_some (m_xmp m)) /\
  (negb ((fl / 16) mod 2 =? 0) = has_alpha m) /\
  fl mod 2 = 0 /\ fl / 64 = 0.
Proof.
  unfold vp8x_flags.
  destruct (is_animated m), (is_some (m_icc m)), (is_some (m_exif m)), (is_some (m_xmp m)), (has_alpha m);
    vm_compute; repeat split; reflexivity.
Qed.

(** ---- the simple layout ---- *)

Lemma bytes_eqb_refl a : bytes_eqb a a = true.
Proof. induction a as [|x a IH]; cbn; [reflexivity|]. rewrite Z.eqb_refl, IH. reflexivity. Qed.

Lemma firstn_len {A} (l r : list A) : firstn (Z.to_nat (len l)) (l ++ r) = l.
Proof. unfold len. rewrite Nat2Z.id. apply firstn_app_exact. Qed.
Lemma skipn_len {A} (l r : list A) : skipn (Z.to_nat (len l)) (l ++ r) = r.
Proof. unfold len. rewrite Nat2Z.id. apply skipn_app_exact. Qed.

(** the specification's chunk tiling reads one written chunk at the end of a form *)
Lemma chunks_one t0 t1 t2 t3 p fuel :
  bytes_ok p -> len p < 2147483648 -> (0 < fuel)%nat ->
  chunks fuel ([t0; t1; t2; t3] ++ le32 (len p) ++ p ++ pad_of (len p)) = Some [([t0; t1; t2; t3], p)].
Proof.
  intros Hb Hl Hf. pose proof (len_nonneg p) as H0.
  destruct fuel as [|f]; [lia|].
  cbn [app chunks le32].
  assert (Hrd : rd32 [len p mod 256; (len p / 256) mod 256; (len p / 65536) mod 256; (len p / 16777216) mod 256] = len p).
  { unfold rd32. lia. }
  rewrite Hrd. fold (glen (p ++ pad_of (len p))). unfold glen. fold (len (p ++ pad_of (len p))).
  rewrite len_app, len_pad_of.
  destruct (Z.ltb_spec (len p + len p mod 2) (len p)); [lia|].
  rewrite firstn_len, skipn_len. unfold pad_of.
  destruct (Z.eqb_spec (len p mod 2) 0); cbn [negb].
  - destruct f; reflexivity.
  - rewrite Z.eqb_refl. destruct f; reflexivity.
Qed.

Lemma forallb_bytes l : bytes_ok l -> forallb (fun b => (0 <=? b) && (b <? 256)) l = true.
Proof.
  intros H. apply forallb_forall. intros x Hx. unfold bytes_ok in H. rewrite Forall_forall in H.
  specialize (H x Hx). unfold is_byte in H. lia.
Qed.

Lemma bytes_ok_pad n : bytes_ok (pad_of n).
Proof. unfold pad_of. destruct (negb (n mod 2 =? 0)); repeat constructor; unfold is_byte; lia. Qed.

Lemma le32_tag (a b c d : Z) : is_byte a -> is_byte b -> is_byte c -> is_byte d ->
  le32 (a + 256 * b + 65536 * c + 16777216 * d) = [a; b; c; d].
Proof. unfold is_byte, le32. intros. repeat f_equal; lia. Qed.

(** the specification accepts the simple layout as the muxer writes it *)
Lemma wf_simple t0 t1 t2 t3 p :
  ([t0; t1; t2; t3] = T_VP8 /\ vp8_header p <> None) \/ ([t0; t1; t2; t3] = T_VP8L /\ vp8l_header p <> None) ->
  bytes_ok p -> len p < 2147483648 ->
  wf (T_RIFF ++ le32 (12 + len p + len p mod 2) ++ T_WEBP ++
      [t0; t1; t2; t3] ++ le32 (len p) ++ p ++ pad_of (len p)) = true.
Proof.
  intros Htag Hb Hl. pose proof (len_nonneg p) as H0.
  set (body := [t0; t1; t2; t3] ++ le32 (len p) ++ p ++ pad_of (len p)).
  set (n := 12 + len p + len p mod 2).
  assert (Hn : 0 <= n < 4294967296) by (unfold n; lia).
  change (T_RIFF ++ le32 n ++ T_WEBP ++ body) with
    (82 :: 73 :: 70 :: 70 :: n mod 256 :: (n / 256) mod 256 :: (n / 65536) mod 256 :: (n / 16777216) mod 256 ::
     87 :: 69 :: 66 :: 80 :: body).
  unfold wf. cbv beta iota.
  change (bytes_eqb [82; 73; 70; 70] T_RIFF) with true.
  change (bytes_eqb [87; 69; 66; 80] T_WEBP) with true.
  cbn [andb].
  assert (Hrd : rd32 [n mod 256; (n / 256) mod 256; (n / 65536) mod 256; (n / 16777216) mod 256] = n)
    by (unfold rd32; lia).
  assert (Hbl : glen body = 8 + len p + len p mod 2).
  { unfold glen. fold (len body). unfold body. rewrite !len_app, len_pad_of, len_le32.
    rewrite !len_cons. change (len (@nil Z)) with 0. lia. }
  rewrite Hrd, Hbl.
  replace (n =? 4 + (8 + len p + len p mod 2)) with true by (unfold n; lia).
  cbn [andb].
  assert (Htb : bytes_ok [t0; t1; t2; t3]).
  { destruct Htag as [[-> _]|[-> _]]; repeat constructor; unfold is_byte; lia. }
  match goal with |- (forallb ?f ?l && _) = true => assert (Hfa : forallb f l = true) end.
  { apply forallb_bytes. repeat (constructor; [unfold is_byte; lia|]).
    unfold body. repeat (apply bytes_ok_app; split); auto using le32_bytes, bytes_ok_pad. }
  rewrite Hfa. cbn [andb].
  unfold body. rewrite chunks_one; auto.
  2:{ rewrite !app_length. cbn. lia. }
  destruct Htag as [[-> Hh]|[-> Hh]].
  - change (bytes_eqb T_VP8 T_VP8X) with false. change (bytes_eqb T_VP8 T_VP8) with true. cbv iota.
    destruct (vp8_header p); [reflexivity|congruence].
  - change (bytes_eqb T_VP8L T_VP8X) with false. change (bytes_eqb T_VP8L T_VP8) with false.
    change (bytes_eqb T_VP8L T_VP8L) with true. cbv iota.
    destruct (vp8l_header p); [reflexivity|congruence].
Qed.

(** Simple layout, any variant: a single frame without options that need VP8X,
    whose data is a VP8 key frame or VP8L bitstream, assembles to a well-formed
    file that demuxes back to that bitstream and its dimensions. *)
Theorem simple_layout_roundtrip fx dfx data fo m :
  m_frames m = [mkmf data fo] ->
  needs_vp8x fx m = false -> validate fx m = Ok tt ->
  bytes_ok data -> len data < 2147483648 ->
  frame_parts data = Some (None, data) ->
  (is_some' (vp8_header data) || is_some' (vp8l_header data)) = true ->
  exists bs, assemble fx m = Ok bs /\ wf bs = true /\
    match parse dfx bs with
    | Ok d =>
      (exists ha, d_frames d = [mkfi (Some data) None (fst (frame_dims data)) (snd (frame_dims data)) 0 0 0 true ha 0 0]) /\
      d_icc d = None /\ d_exif d = None /\ d_xmp d = None /\ d_loop d = 0 /\ d_bg d = 0 /\
      ft_anim (d_feat d) = false /\ (ft_w (d_feat d), ft_h (d_feat d)) = frame_dims data
    | _ => False
    end.
Proof.
  intros Hfr Hnv Hval Hb Hl Hparts Hhdr.
  pose proof (len_nonneg data) as H0.
  unfold assemble. rewrite Hval, Hnv. cbn [bind]. unfold assemble_simple. rewrite Hfr.
  cbn [f_data]. unfold u32. rewrite (Z.mod_small (len data) 4294967296) by lia.
  set (padded := if negb (len data mod 2 =? 0) then (len data + 1) mod 4294967296 else len data).
  assert (Hpadded : padded = len data + len data mod 2).
  { unfold padded. destruct (Z.eqb_spec (len data mod 2) 0); cbn [negb]; [lia|rewrite Z.mod_small; lia]. }
  unfold ChunkHeaderSize. rewrite (Z.mod_small (4 + 8 + padded)) by lia.
  fold (pad_of (len data)).
  (* the tag *)
  assert (Htag : (detect_type data = FCC_VP8L /\ exists w h a, vp8l_header data = Some (w, h, a)) \/
                 (detect_type data = FCC_VP8 /\ exists w h, vp8_header data = Some (w, h) /\ vp8l_header data = None)).
  { unfold detect_type. destruct data as [|b0 tl]; [cbn in Hhdr; discriminate|].
    destruct (Z.eqb_spec b0 VP8LMagicByte) as [E|E].
    - left. split; [reflexivity|]. subst b0.
      destruct (vp8l_header (VP8LMagicByte :: tl)) as [[[w h] a]|] eqn:E1; [eauto|].
      exfalso. rewrite orb_false_r in Hhdr. unfold vp8_header in Hhdr.
      destruct tl as [|? [|? [|? [|? [|? [|? [|? [|? [|? ?]]]]]]]]]; cbn in Hhdr; try discriminate.
    - right. split; [reflexivity|].
      assert (Hl0 : vp8l_header (b0 :: tl) = None).
      { unfold vp8l_header. destruct tl as [|? [|? [|? [|? ?]]]]; try reflexivity.
        unfold VP8LMagicByte in E. destruct (Z.eqb_spec b0 47); [lia|]. reflexivity. }
      rewrite Hl0 in *. rewrite orb_false_r in Hhdr.
      destruct (vp8_header (b0 :: tl)) as [[w h]|]; [eauto|discriminate]. }
  eexists. split; [reflexivity|].
  (* well-formedness *)
  split.
  { replace (4 + 8 + padded) with (12 + len data + len data mod 2) by lia.
    change (le32 FCC_RIFF) with T_RIFF. change (le32 FCC_WEBP) with T_WEBP.
    destruct Htag as [[Ht (w & h & a & Hh)]|[Ht (w & h & Hh & Hn)]]; rewrite Ht.
    - change (le32 FCC_VP8L) with [86; 80; 56; 76]. apply wf_simple; auto.
      right. split; [reflexivity|congruence].
    - change (le32 FCC_VP8) with [86; 80; 56; 32]. apply wf_simple; auto.
      left. split; [reflexivity|congruence]. }
  (* demuxing *)
  set (chunkbytes := le32 (detect_type data) ++ le32 (len data) ++ data ++ pad_of (len data)).
  assert (Hcb : chunkbytes = write_data_chunk (detect_type data) data).
  { unfold chunkbytes. rewrite write_data_chunk_eq by lia. reflexivity. }
  assert (Hcl : len chunkbytes = 8 + len data + len data mod 2).
  { unfold chunkbytes. rewrite !len_app, !len_le32, len_pad_of. lia. }
  assert (Hdt : 0 <= detect_type data < 4294967296).
  { destruct Htag as [[Ht _]|[Ht _]]; rewrite Ht; vm_compute; split; congruence. }
  unfold parse.
  match goal with |- context [len ?l <? RIFFHeaderSize] => set (file := l) end.
  assert (Hfile : file = (le32 FCC_RIFF ++ le32 (4 + 8 + padded) ++ le32 FCC_WEBP) ++ chunkbytes ++ []).
  { unfold file, chunkbytes. rewrite app_nil_r, <- !app_assoc. reflexivity. }
  assert (Hflen : len file = 12 + len chunkbytes).
  { rewrite Hfile, !len_app, !len_le32, len_nil. lia. }
  unfold RIFFHeaderSize. destruct (Z.ltb_spec (len file) 12); [lia|].
  assert (Hu0 : u32at file 0 = Ok FCC_RIFF).
  { unfold file. apply u32at_le32_head. vm_compute. split; congruence. }
  assert (Hu4 : u32at file 4 = Ok (4 + 8 + padded)).
  { unfold file. apply u32at_le32_second. lia. }
  assert (Hu8 : u32at file 8 = Ok FCC_WEBP).
  { unfold u32at. rewrite Hfile.
    replace ((le32 FCC_RIFF ++ le32 (4 + 8 + padded) ++ le32 FCC_WEBP) ++ chunkbytes ++ [])
      with ((le32 FCC_RIFF ++ le32 (4 + 8 + padded)) ++ le32 FCC_WEBP ++ (chunkbytes ++ [])) by (rewrite <- !app_assoc; reflexivity).
    rewrite (slice_app_mid' (le32 FCC_RIFF ++ le32 (4 + 8 + padded)) (le32 FCC_WEBP) (chunkbytes ++ [])) by reflexivity.
    reflexivity. }
  rewrite Hu0. cbn [bind]. rewrite Z.eqb_refl. cbn [negb].
  rewrite Hu4. cbn [bind]. rewrite Hu8. cbn [bind]. rewrite Z.eqb_refl. cbn [negb].
  rewrite Hflen, Hcl, Hpadded.
  destruct (Z.gtb_spec (4 + 8 + (len data + len data mod 2) + 8) (12 + (8 + len data + len data mod 2))); [lia|].
  unfold maxint. destruct (Z.gtb_spec (4 + 8 + (len data + len data mod 2) + 8) (2 ^ 63 - 1)); [lia|].
  replace (dfx && (4 + 8 + (len data + len data mod 2) + 8 <? 12)) with false by (destruct dfx; cbn [andb]; lia).
  assert (Hsl : slice file 12 (4 + 8 + (len data + len data mod 2) + 8) = Ok chunkbytes).
  { rewrite Hfile.
    apply slice_app_mid'; [reflexivity|].
    rewrite Hcl. change (len (le32 FCC_RIFF ++ le32 (4 + 8 + padded) ++ le32 FCC_WEBP)) with 12. lia. }
  rewrite Hsl. cbn [bind]. unfold ChunkHeaderSize. rewrite Hcl.
  destruct (Z.ltb_spec (8 + len data + len data mod 2) 8); [lia|].
  assert (Hft : u32at chunkbytes 0 = Ok (detect_type data)).
  { unfold chunkbytes. apply u32at_le32_head. exact Hdt. }
  rewrite Hft. cbn [bind].
  assert (Hrc : read_chunk chunkbytes = Ok (mkchunk (detect_type data) (len data) data, len chunkbytes)).
  { rewrite <- (app_nil_r chunkbytes) at 1. rewrite Hcb. apply read_chunk_write; [exact Hdt|unfold MaxChunkPayload; lia]. }
  destruct Htag as [[Ht (w & h & a & Hh)]|[Ht (w & h & Hh & Hn)]]; rewrite Ht in *.
  - (* VP8L *)
    change (FCC_VP8L =? FCC_VP8X) with false. change (FCC_VP8L =? FCC_VP8) with false. rewrite Z.eqb_refl.
    unfold parse_simple_vp8l. rewrite Hrc. cbn [bind c_data].
    assert (Hdims : parse_vp8l_dims data = Ok (w, h, a) /\ frame_dims data = (w, h)).
    { unfold vp8l_header in Hh. unfold frame_dims, split_alpha.
      destruct data as [|b0 [|b1 [|b2 [|b3 [|b4 tl]]]]]; try discriminate.
      destruct ((b0 =? 47) && ((b1 + 256 * b2 + 65536 * b3 + 16777216 * b4) / 536870912 =? 0)) eqn:E; [|discriminate].
      apply andb_true_iff in E. destruct E as [E1 E2]. apply Z.eqb_eq in E1. subst b0.
      injection Hh as <- <- <-.
      assert (Hp : parse_vp8l_dims (47 :: b1 :: b2 :: b3 :: b4 :: tl) =
                   Ok ((b1 + 256 * b2 + 65536 * b3 + 16777216 * b4) mod 16384 + 1,
                       (b1 + 256 * b2 + 65536 * b3 + 16777216 * b4) / 16384 mod 16384 + 1,
                       negb ((b1 + 256 * b2 + 65536 * b3 + 16777216 * b4) / 268435456 mod 2 =? 0))).
      { unfold parse_vp8l_dims. rewrite !len_cons. pose proof (len_nonneg tl).
        destruct (Z.ltb_spec (1 + (1 + (1 + (1 + (1 + len tl))))) 5); [lia|]. reflexivity. }
      split; [exact Hp|].
      (* frame_dims: split_alpha leaves the data alone because it does not start with "ALPH" *)
      assert (Hsa : snd (split_alpha (47 :: b1 :: b2 :: b3 :: b4 :: tl)) = 47 :: b1 :: b2 :: b3 :: b4 :: tl).
      { unfold frame_parts in Hparts. unfold split_alpha.
        destruct (len (47 :: b1 :: b2 :: b3 :: b4 :: tl) <? ChunkHeaderSize); [reflexivity|].
        destruct tl as [|s1 [|s2 [|s3 body]]]; try reflexivity.
        replace (rd32 [47; b1; b2; b3] =? FCC_ALPH) with false; [reflexivity|].
        symmetry. apply Z.eqb_neq. intros Hc. cbn [firstn bytes_eqb T_ALPH] in Hparts.
        unfold rd32, FCC_ALPH in Hc.
        inversion Hb as [|? ? Hb0 Hb']; subst. inversion Hb' as [|? ? Hb1 Hb'']; subst.
        inversion Hb'' as [|? ? Hb2 Hb3]; subst. inversion Hb3 as [|? ? Hb4 _]; subst.
        unfold is_byte in *. lia. }
      fold (split_alpha (47 :: b1 :: b2 :: b3 :: b4 :: tl)).
      change (snd (split_alpha (47 :: b1 :: b2 :: b3 :: b4 :: tl))) with (snd (split_alpha (47 :: b1 :: b2 :: b3 :: b4 :: tl))).
      unfold frame_dims. rewrite Hsa. rewrite Hp.
      rewrite !len_cons. pose proof (len_nonneg tl).
      destruct (Z.geb_spec (1 + (1 + (1 + (1 + (1 + len tl))))) 5); [|lia].
      unfold VP8LMagicByte. rewrite Z.eqb_refl. reflexivity. }
    destruct Hdims as [Hpd Hfd]. rewrite Hpd. cbn [bind].
    cbv iota. cbn [d_frames d_icc d_exif d_xmp d_loop d_bg d_feat ft_anim ft_w ft_h].
    rewrite Hfd. cbn [fst snd]. repeat split; try reflexivity. eexists. reflexivity.
  - (* VP8 *)
    change (FCC_VP8 =? FCC_VP8X) with false. rewrite Z.eqb_refl.
    unfold parse_simple_vp8. rewrite Hrc. cbn [bind c_data].
    assert (Hdims : parse_vp8_dims data = Ok (w, h) /\ frame_dims data = (w, h)).
    { unfold vp8_header in Hh.
      destruct data as [|t0 [|t1 [|t2 [|b3 [|b4 [|b5 [|b6 [|b7 [|b8 [|b9 tl]]]]]]]]]]; try discriminate.
      match type of Hh with (if ?c then _ else _) = _ => destruct c eqn:E; [|discriminate] end.
      injection Hh as <- <-.
      rewrite !andb_true_iff in E. destruct E as (((((E & E3) & E4) & E5) & Ew) & Eh).
      apply Z.eqb_eq in E3, E4, E5. subst b3 b4 b5.
      assert (Hp : parse_vp8_dims (t0 :: t1 :: t2 :: 157 :: 1 :: 42 :: b6 :: b7 :: b8 :: b9 :: tl) =
                   Ok ((b6 + 256 * b7) mod 16384, (b8 + 256 * b9) mod 16384)).
      { unfold parse_vp8_dims. rewrite !len_cons. pose proof (len_nonneg tl).
        destruct (Z.ltb_spec (1 + (1 + (1 + (1 + (1 + (1 + (1 + (1 + (1 + (1 + len tl)))))))))) 10); [lia|]. reflexivity. }
      split; [exact Hp|].
      assert (Hsa : snd (split_alpha (t0 :: t1 :: t2 :: 157 :: 1 :: 42 :: b6 :: b7 :: b8 :: b9 :: tl)) =
                    t0 :: t1 :: t2 :: 157 :: 1 :: 42 :: b6 :: b7 :: b8 :: b9 :: tl).
      { unfold split_alpha.
        destruct (len (t0 :: t1 :: t2 :: 157 :: 1 :: 42 :: b6 :: b7 :: b8 :: b9 :: tl) <? ChunkHeaderSize); [reflexivity|].
        replace (rd32 [t0; t1; t2; 157] =? FCC_ALPH) with false; [reflexivity|].
        symmetry. apply Z.eqb_neq. intros Hc. unfold rd32, FCC_ALPH in Hc.
        inversion Hb as [|? ? Hb0 Hb']; subst. inversion Hb' as [|? ? Hb1 Hb'']; subst.
        inversion Hb'' as [|? ? Hb2 _]; subst. unfold is_byte in *. lia. }
      unfold frame_dims. rewrite Hsa, Hp.
      rewrite !len_cons. pose proof (len_nonneg tl).
      destruct (Z.geb_spec (1 + (1 + (1 + (1 + (1 + (1 + (1 + (1 + (1 + (1 + len tl)))))))))) 10); [|lia].
      destruct (Z.geb_spec (1 + (1 + (1 + (1 + (1 + (1 + (1 + (1 + (1 + (1 + len tl)))))))))) 5); [|lia].
      assert (Ht0 : t0 =? VP8LMagicByte = false).
      { apply Z.eqb_neq. intros ->. unfold VP8LMagicByte in E. cbn in E. discriminate. }
      rewrite Ht0. reflexivity. }
    destruct Hdims as [Hpd Hfd]. rewrite Hpd. cbn [bind].
    cbv iota. cbn [d_frames d_icc d_exif d_xmp d_loop d_bg d_feat ft_anim ft_w ft_h].
    rewrite Hfd. cbn [fst snd]. repeat split; try reflexivity. eexists. reflexivity.
Qed.
