(** Facts about the writer model's building blocks, and how the parser model and
    the specification walker read one written chunk back. *)
From Coq Require Import List ZArith Lia Bool.
From Coq Require Import ZifyBool ZifyNat.
From Webp Require Import Base.Res Base.Bytes Riff.ParserModel Riff.ParserLemmas Riff.ParserSpec
     Riff.WriterModel.
Import ListNotations.
Open Scope Z_scope.

(** ** Lengths *)
Lemma len_pad n : len (pad n) = n mod 2.
Proof.
  unfold pad. destruct (Z.eqb_spec (n mod 2) 0) as [E|E]; [rewrite E; reflexivity|].
  rewrite len_cons, len_nil. lia.
Qed.

Lemma len_le32 v : len (le32 v) = 4. Proof. reflexivity. Qed.
Lemma len_le24 v : len (le24 v) = 3. Proof. reflexivity. Qed.

Lemma len_chunk id d : len (chunk id d) = padded_chunk_size (len d).
Proof.
  unfold chunk, padded_chunk_size, ChunkHeaderSize. rewrite !len_app, !len_le32, len_pad. lia.
Qed.

Lemma len_opt_chunk id d : len (opt_chunk id d) = opt_size d.
Proof.
  unfold opt_chunk, opt_size. destruct (len d >? 0); [apply len_chunk|reflexivity].
Qed.

Lemma padded_even n : 0 <= n -> (padded_chunk_size n) mod 2 = 0.
Proof. intros H. unfold padded_chunk_size, ChunkHeaderSize. lia. Qed.

(** ** Reading little-endian fields back *)
Lemma rd32_le32' v : 0 <= v < 4294967296 ->
  rd32 [v mod 256; (v / 256) mod 256; (v / 65536) mod 256; (v / 16777216) mod 256] = v.
Proof. intros H. unfold rd32. lia. Qed.

Lemma rd32_le32_id v : 0 <= v < 4294967296 -> rd32 (le32 v) = v.
Proof. intros H. unfold le32. apply rd32_le32'. exact H. Qed.

Lemma rd24_le24' v : 0 <= v < 16777216 ->
  rd24 [v mod 256; (v / 256) mod 256; (v / 65536) mod 256] = v.
Proof. intros H. unfold rd24. lia. Qed.

(** ** Slices of explicit prefixes *)
Lemma slice_mid {A} (pre d post : list A) :
  slice (pre ++ d ++ post) (len pre) (len pre + len d) = Ok d.
Proof.
  unfold slice. fold (len (pre ++ d ++ post)). rewrite !len_app.
  pose proof (len_nonneg pre). pose proof (len_nonneg d). pose proof (len_nonneg post).
  destruct (Z.leb_spec 0 (len pre)); [|lia].
  destruct (Z.leb_spec (len pre) (len pre + len d)); [|lia].
  destruct (Z.leb_spec (len pre + len d) (len pre + (len d + len post))); [|lia].
  cbn [andb]. f_equal.
  replace (Z.to_nat (len pre)) with (length pre) by (unfold len; lia).
  rewrite skipn_app_exact.
  replace (Z.to_nat (len pre + len d - len pre)) with (length d) by (unfold len; lia).
  apply firstn_app_exact.
Qed.

Lemma slice_head {A} (d post : list A) : slice (d ++ post) 0 (len d) = Ok d.
Proof. apply (slice_mid [] d post). Qed.

Lemma slice_tail {A} (pre post : list A) :
  slice (pre ++ post) (len pre) (len (pre ++ post)) = Ok post.
Proof.
  rewrite slice_to_end by (rewrite len_app; pose proof (len_nonneg pre); pose proof (len_nonneg post); lia).
  replace (Z.to_nat (len pre)) with (length pre) by (unfold len; lia).
  rewrite skipn_app_exact. reflexivity.
Qed.

(** ** One written chunk, read by the parser model *)
Lemma chunk_shape id d rest :
  chunk id d ++ rest = (le32 id ++ le32 (len d)) ++ d ++ (pad (len d) ++ rest).
Proof. unfold chunk. rewrite <- !app_assoc. reflexivity. Qed.

Lemma read_header_chunk id d rest :
  0 <= id < 4294967296 -> len d <= MaxChunkPayload ->
  read_chunk_header (chunk id d ++ rest) = Ok (id, len d).
Proof.
  intros Hid Hd. pose proof (len_nonneg d) as Hd0. unfold MaxChunkPayload in Hd.
  unfold read_chunk_header, ChunkHeaderSize.
  assert (Hl : 8 <= len (chunk id d ++ rest)).
  { rewrite len_app, len_chunk. unfold padded_chunk_size, ChunkHeaderSize. pose proof (len_nonneg rest). lia. }
  destruct (Z.ltb_spec (len (chunk id d ++ rest)) 8); [lia|].
  unfold chunk. rewrite <- !app_assoc.
  change 4 with (len (le32 id)) at 1. rewrite slice_head. cbn [bind].
  change 4 with (len (le32 id)) at 1. change 8 with (len (le32 id) + len (le32 (len d))).
  rewrite slice_mid. cbn [bind].
  rewrite !rd32_le32_id by lia.
  unfold MaxChunkPayload. destruct (Z.gtb_spec (len d) 4294967286); [lia|reflexivity].
Qed.

Lemma chunk_at_chunk id d rest :
  0 <= id < 4294967296 -> len d <= MaxChunkPayload ->
  chunk_at (chunk id d ++ rest) = Ok (id, len d, len (chunk id d), d).
Proof.
  intros Hid Hd. unfold chunk_at. rewrite read_header_chunk by assumption. cbn [bind].
  rewrite len_app, len_chunk. unfold padded_chunk_size, ChunkHeaderSize.
  pose proof (len_nonneg rest). pose proof (len_nonneg d).
  destruct (Z.gtb_spec (8 + (len d + len d mod 2)) (8 + len d + len d mod 2 + len rest)); [lia|].
  rewrite chunk_shape.
  change 8 with (len (le32 id ++ le32 (len d))).
  rewrite slice_mid. cbn [bind]. change (len (le32 id ++ le32 (len d))) with 8.
  replace (8 + (len d + len d mod 2)) with (8 + len d + len d mod 2) by lia. reflexivity.
Qed.

Lemma rest_after_chunk id d rest :
  slice (chunk id d ++ rest) (len (chunk id d)) (len (chunk id d ++ rest)) = Ok rest.
Proof. apply slice_tail. Qed.

Lemma chunk_min_len id d : 8 <= len (chunk id d).
Proof. rewrite len_chunk. unfold padded_chunk_size, ChunkHeaderSize. pose proof (len_nonneg d). lia. Qed.

(** ** One written chunk, read by the specification walker *)
Lemma walk_chunk fuel id d rest :
  0 <= id < 4294967296 -> len d < 4294967296 ->
  walk (S fuel) (chunk id d ++ rest) =
  match walk fuel rest with Some cs => Some ((id, d) :: cs) | None => None end.
Proof.
  intros Hid Hd. pose proof (len_nonneg d) as Hd0.
  unfold chunk, le32. cbn [app walk].
  rewrite !rd32_le32' by lia.
  set (tl := (d ++ pad (len d)) ++ rest).
  assert (Hlen : len tl = len d + len d mod 2 + len rest).
  { subst tl. rewrite !len_app, len_pad. lia. }
  pose proof (len_nonneg rest) as Hr.
  destruct (Z.leb_spec (len d + len d mod 2) (len tl)); [|lia].
  assert (Hsk : skipn (Z.to_nat (len d)) tl = pad (len d) ++ rest).
  { subst tl. rewrite <- app_assoc. replace (Z.to_nat (len d)) with (length d) by (unfold len; lia).
    apply skipn_app_exact. }
  assert (Hpadok : (if len d mod 2 =? 0 then true
                    else match skipn (Z.to_nat (len d)) tl with p :: _ => p =? 0 | [] => false end) = true).
  { rewrite Hsk. unfold pad. destruct (len d mod 2 =? 0); reflexivity. }
  rewrite Hpadok.
  assert (Hsk2 : skipn (Z.to_nat (len d + len d mod 2)) tl = rest).
  { subst tl.
    replace (Z.to_nat (len d + len d mod 2)) with (length (d ++ pad (len d))).
    - apply skipn_app_exact.
    - rewrite app_length. pose proof (len_pad (len d)) as Hp. unfold len in *. lia. }
  rewrite Hsk2.
  assert (Hfi : firstn (Z.to_nat (len d)) tl = d).
  { subst tl. rewrite <- app_assoc. replace (Z.to_nat (len d)) with (length d) by (unfold len; lia).
    apply firstn_app_exact. }
  rewrite Hfi. reflexivity.
Qed.

(** Enough fuel: the walker's result does not depend on the fuel once it exceeds
    the number of bytes. *)
Lemma walk_fuel_mono : forall fuel fuel' buf cs,
  walk fuel buf = Some cs -> (fuel <= fuel')%nat -> walk fuel' buf = Some cs.
Proof.
  induction fuel as [|fuel IH]; intros fuel' buf cs H Hle.
  - destruct buf; cbn in H; [|discriminate]. destruct fuel'; exact H.
  - destruct fuel' as [|fuel']; [lia|].
    destruct buf as [|a0 [|a1 [|a2 [|a3 [|s0 [|s1 [|s2 [|s3 rest]]]]]]]]; try exact H.
    cbn [walk] in *.
    destruct (rd32 [s0; s1; s2; s3] + rd32 [s0; s1; s2; s3] mod 2 <=? len rest); [|discriminate].
    destruct (if rd32 [s0; s1; s2; s3] mod 2 =? 0 then true
              else match skipn (Z.to_nat (rd32 [s0; s1; s2; s3])) rest with p :: _ => p =? 0 | [] => false end);
      [|discriminate].
    destruct (walk fuel (skipn _ rest)) as [cs'|] eqn:E; [|discriminate].
    rewrite (IH fuel' _ _ E ltac:(lia)). exact H.
Qed.

Definition opt_entry (id : Z) (d : list Z) : list (Z * list Z) :=
  if len d >? 0 then [(id, d)] else [].

Lemma walk_opt_some fuel id d rest cs :
  0 <= id < 4294967296 -> len d < 4294967296 ->
  walk fuel rest = Some cs ->
  walk (S fuel) (opt_chunk id d ++ rest) = Some (opt_entry id d ++ cs).
Proof.
  intros Hid Hd H. unfold opt_chunk, opt_entry. destruct (len d >? 0).
  - rewrite walk_chunk by assumption. rewrite H. reflexivity.
  - cbn [app]. apply (walk_fuel_mono fuel); [exact H|lia].
Qed.

Lemma walk_chunk_some fuel id d rest cs :
  0 <= id < 4294967296 -> len d < 4294967296 ->
  walk fuel rest = Some cs ->
  walk (S fuel) (chunk id d ++ rest) = Some ((id, d) :: cs).
Proof. intros Hid Hd H. rewrite walk_chunk by assumption. rewrite H. reflexivity. Qed.
