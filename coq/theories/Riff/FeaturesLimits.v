(** C16: what the header queries report for the animation loop count of a still,
    exactly.  container.Parser sets LoopCount = 1 in parseVP8X ("default animation
    values") and leaves the zero value on the simple layouts; a still has no ANIM
    chunk (an ANIM chunk before the image chunk is rejected), so GetFeatures
    reports LoopCount 1 for every VP8X still and 0 for every simple still, while
    mux.Demuxer reports 0 for both ([ParserDemuxAgree.views_agree_still]).  The
    field is documented as meaningful only when HasAnimation is set. *)
From Coq Require Import List ZArith Lia Bool.
From Webp Require Import Base.Res Base.Bytes Riff.ParserModel Riff.FeaturesModel Riff.PrefixProofs Riff.FeaturesProofs.
Import ListNotations.
Open Scope Z_scope.

Lemma ext_single_loop : forall fuel feat frames chunks alph buf r,
  parse_ext_single fuel feat frames chunks alph buf = Ok r -> fLoopCount (pFeat r) = fLoopCount feat.
Proof.
  induction fuel as [|fuel IH]; intros feat frames chunks alph buf r H; [discriminate|].
  cbn [parse_ext_single] in H.
  destruct (len buf <? ChunkHeaderSize); [discriminate|].
  destruct (chunk_at buf) as [[[[f sz] tot] pl]|e|]; cbn [bind] in H; try discriminate.
  destruct (f =? FourCCALPH).
  { destruct (slice buf tot (len buf)); cbn [bind] in H; try discriminate.
    apply IH in H. exact H. }
  destruct (f =? FourCCVP8L).
  { destruct alph; [discriminate|].
    destruct (parse_vp8l_header pl) as [[[w h] a]|e|]; cbn [bind] in H; try discriminate.
    injection H as <-. destruct a; reflexivity. }
  destruct (f =? FourCCVP8); [|discriminate].
  destruct (parse_vp8_header pl) as [[w h]|e|]; cbn [bind] in H; try discriminate.
  injection H as <-. reflexivity.
Qed.

Lemma chunks_still_loop : forall fuel fx feat frames chunks buf r,
  parse_vp8x_chunks fuel fx feat frames chunks 0 buf = Ok (r, KStill) ->
  fLoopCount (pFeat r) = fLoopCount feat.
Proof.
  induction fuel as [|fuel IH]; intros fx feat frames chunks buf r H; [discriminate|].
  cbn [parse_vp8x_chunks] in H.
  destruct (len buf <? ChunkHeaderSize).
  { destruct (fx && negb (fHasAnim feat) && (len frames =? 0)); discriminate. }
  destruct (chunk_at buf) as [[[[f sz] tot] pl]|e|] eqn:Ec; cbn [bind] in H; try discriminate.
  destruct (f =? FourCCVP8X); [discriminate|].
  destruct (f =? FourCCANIM).
  { exfalso. destruct (sz <? ANIMChunkSize); [discriminate|].
    destruct (slice pl 0 4); cbn [bind] in H; try discriminate.
    destruct (slice pl 4 6); cbn [bind] in H; try discriminate.
    destruct (slice buf tot (len buf)); cbn [bind] in H; try discriminate.
    apply chunks_still_inv in H; lia. }
  destruct (f =? FourCCANMF).
  { change (0 =? 0) with true in H. discriminate. }
  destruct (is_image_fourcc f || (f =? FourCCALPH)).
  { destruct ((0 >? 0) || fHasAnim feat); [discriminate|].
    destruct (parse_ext_single (S (length buf)) feat frames chunks None buf) as [r0|e|] eqn:Ex;
      cbn [bind] in H; try discriminate.
    injection H as ->. apply (ext_single_loop _ _ _ _ _ _ _ Ex). }
  assert (Hcont : forall cs, (rest <- slice buf tot (len buf);;
                  parse_vp8x_chunks fuel fx feat frames cs 0 rest) = Ok (r, KStill) ->
                  fLoopCount (pFeat r) = fLoopCount feat).
  { intros cs Hc. destruct (slice buf tot (len buf)); cbn [bind] in Hc; try discriminate.
    eapply IH; eauto. }
  destruct (f =? FourCCICCP).
  { destruct (add_meta (fHasICCP feat) sz f pl chunks); cbn [bind] in H; try discriminate. eauto. }
  destruct (f =? FourCCEXIF).
  { destruct (add_meta (fHasEXIF feat) sz f pl chunks); cbn [bind] in H; try discriminate. eauto. }
  destruct (f =? FourCCXMP).
  { destruct (add_meta (fHasXMP feat) sz f pl chunks); cbn [bind] in H; try discriminate. eauto. }
  destruct (len chunks >=? MaxChunks); [discriminate|].
  destruct (sz >? MaxMetadataSize); [discriminate|]. eauto.
Qed.

Lemma single_image_loop fmt buf r : parse_single_image fmt buf = Ok r ->
  fLoopCount (pFeat r) = 0 /\ fFormat (pFeat r) = fmt.
Proof.
  unfold parse_single_image. intros H.
  destruct (chunk_at buf) as [[[[f sz] tot] pl]|e|]; cbn [bind] in H; try discriminate.
  destruct (f =? FourCCVP8L).
  - destruct (parse_vp8l_header pl) as [[[w h] a]|e|]; cbn [bind] in H; try discriminate.
    injection H as <-. split; reflexivity.
  - destruct (parse_vp8_header pl) as [[w h]|e|]; cbn [bind] in H; try discriminate.
    injection H as <-. split; reflexivity.
Qed.

(** the parser's LoopCount on a still: 1 on the VP8X layout, 0 on the simple layouts *)
Theorem still_loop_count : forall fx bs r, parse_ex fx bs = Ok (r, KStill) ->
  fLoopCount (pFeat r) = (if fFormat (pFeat r) =? FormatVP8X then 1 else 0).
Proof.
  intros fx bs r H. unfold parse_ex in H.
  destruct (parse_riff_header bs) as [fs|e|]; cbn [bind] in H; try discriminate.
  destruct (slice bs RIFFHeaderSize _) as [buf|e|]; cbn [bind] in H; try discriminate.
  destruct (len buf <? ChunkHeaderSize); [discriminate|].
  destruct (slice buf 0 4) as [t|e|]; cbn [bind] in H; try discriminate.
  destruct (rd32 t =? FourCCVP8X).
  { unfold parse_vp8x in H.
    destruct (read_chunk_header buf) as [[f sz]|e|]; cbn [bind] in H; try discriminate.
    destruct (negb (sz =? VP8XChunkSize)); [discriminate|].
    destruct (ChunkHeaderSize + (sz + sz mod 2) >? len buf); [discriminate|].
    destruct (slice buf ChunkHeaderSize (ChunkHeaderSize + sz)) as [pl|e|]; cbn [bind] in H; try discriminate.
    destruct pl as [|flags [|? [|? [|? [|w0 [|w1 [|w2 [|h0 [|h1 [|h2 [|? ?]]]]]]]]]]]; try discriminate.
    destruct (negb (Z.land flags 4294967233 =? 0)); [discriminate|].
    destruct ((1 + rd24 [w0; w1; w2]) * (1 + rd24 [h0; h1; h2]) >=? MaxImageArea); [discriminate|].
    destruct (slice buf _ (len buf)) as [rest|e|]; cbn [bind] in H; try discriminate.
    pose proof (chunks_still_loop _ _ _ _ _ _ _ H) as Hl.
    apply chunks_still_shape in H. destruct H as (_ & _ & Hf). cbn [fFormat fLoopCount] in Hf, Hl.
    rewrite Hf, Hl. reflexivity. }
  destruct (rd32 t =? FourCCVP8).
  { destruct (parse_single_image FormatVP8 buf) as [r0|e|] eqn:Ei; cbn [bind] in H; try discriminate.
    injection H as ->. apply single_image_loop in Ei. destruct Ei as [-> ->]. reflexivity. }
  destruct (rd32 t =? FourCCVP8L); [|discriminate].
  destruct (parse_single_image FormatVP8L buf) as [r0|e|] eqn:Ei; cbn [bind] in H; try discriminate.
  injection H as ->. apply single_image_loop in Ei. destruct Ei as [-> ->]. reflexivity.
Qed.

(** the same on what GetFeatures returns: format 3 ("extended") <-> LoopCount 1 *)
Theorem get_features_still_loop : forall fx bs r g,
  parse_ex fx bs = Ok (r, KStill) -> get_features fx bs = Ok g ->
  gLoop g = (if gFormat g =? 3 then 1 else 0) /\ gHasAnim g = false.
Proof.
  intros fx bs r g Hp Hg. unfold get_features in Hg.
  rewrite (parse_of_parse_ex _ _ _ _ Hp) in Hg. cbn [bind] in Hg. injection Hg as <-.
  pose proof (still_loop_count _ _ _ Hp) as Hl.
  destruct (still_shape _ _ _ Hp) as (_ & Ha & Hfmt).
  unfold features_of. cbn [gLoop gFormat gHasAnim]. split; [|exact Ha]. rewrite Hl.
  unfold FormatVP8, FormatVP8L, FormatVP8X in *.
  assert (E : fFormat (pFeat r) = 1 \/ fFormat (pFeat r) = 2 \/ fFormat (pFeat r) = 3) by lia.
  destruct E as [E|[E|E]]; rewrite E; reflexivity.
Qed.
