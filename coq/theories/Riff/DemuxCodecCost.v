(** C05, codec layer: guards of the ALPH plane decoder model (Alpha/AlphaModel.decode,
    for any lossless sub-decoder): the declared plane is rejected unless 1 <= w, 1 <= h and
    w*h <= 2^30 before anything is built; an uncompressed plane needs at least w*h payload
    bytes, so what it allocates is bounded by the input length; the model never panics. *)
From Coq Require Import List ZArith Lia Bool.
From Webp Require Import Base.Res Alpha.AlphaModel.
Import ListNotations.
Open Scope Z_scope.

Theorem alpha_decode_guards (ldec : Z -> Z -> list Z -> option (list Z)) data w h :
  match decode ldec data w h with
  | Ok _ =>
    1 <= w /\ 1 <= h /\ w * h <= 2^30 /\
    (forall hd payload, data = hd :: payload -> hd mod 4 = 0 -> w * h <= Z.of_nat (length payload))
  | Err _ => True
  | Panic => False
  end.
Proof.
  unfold decode. destruct data as [|hd payload]; [exact I|].
  destruct ((w <=? 0) || (h <=? 0)) eqn:E1; [exact I|].
  destruct (2 ^ 30 <? w * h) eqn:E2; [exact I|].
  apply orb_false_iff in E1. destruct E1 as [Ew Eh].
  destruct (hd mod 4 =? 0) eqn:Ec.
  - destruct (Z.of_nat (length payload) <? w * h) eqn:El; cbn [bind]; [exact I|].
    repeat split; try lia. intros hd' payload' [= <- <-] _. lia.
  - destruct (hd mod 4 =? 1).
    + destruct (ldec w h payload); cbn [bind]; [|exact I].
      repeat split; try lia. intros hd' payload' [= <- <-] H. lia.
    + exact I.
Qed.
