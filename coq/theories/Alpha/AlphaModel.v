(** ALPH chunk codec (internal/lossy/alpha.go): the three prediction filters and
    their inverses, the 1-byte header, raw / lossless payload selection with the
    raw fallback, level quantisation skeleton.  Bytes are [Z] in [0,256); a plane
    is a list of rows.  The VP8L coder of the green-channel image is a Section
    parameter (its round trip is property C01's theorem). *)
From Coq Require Import List ZArith Lia Bool.
From Webp Require Import Base.Res.
Import ListNotations.
Open Scope Z_scope.

Definition b8 (z : Z) : Z := z mod 256.
Definition clip8 (z : Z) : Z := if z <? 0 then 0 else if 255 <? z then 255 else z.

Definition plane := list (list Z).

(* ---------------- horizontal ---------------- *)
(* out[x] = in[x] - in[x-1], first pixel predicted from [p]. *)
Fixpoint diffs (p : Z) (row : list Z) : list Z :=
  match row with
  | [] => []
  | a :: tl => b8 (a - p) :: diffs a tl
  end.

(* row[x] += row[x-1], first pixel adds [p]. *)
Fixpoint cumsum (p : Z) (d : list Z) : list Z :=
  match d with
  | [] => []
  | x :: tl => let a := b8 (x + p) in a :: cumsum a tl
  end.

(* alphaFilterHorizontal: row 0 predicts its first pixel from 0, row y>0 from in[(y-1)*w]. *)
Fixpoint filt_h (prev0 : Z) (rs : plane) : plane :=
  match rs with
  | [] => []
  | r :: tl => diffs prev0 r :: filt_h (hd 0 r) tl
  end.

(* alphaUnfilterHorizontal *)
Fixpoint unfilt_h (prev0 : Z) (ds : plane) : plane :=
  match ds with
  | [] => []
  | d :: tl => let r := cumsum prev0 d in r :: unfilt_h (hd 0 r) tl
  end.

(* ---------------- vertical ---------------- *)
Fixpoint sub_rows (a b : list Z) : list Z :=
  match a, b with
  | x :: atl, y :: btl => b8 (x - y) :: sub_rows atl btl
  | _, _ => []
  end.

Fixpoint add_rows (a b : list Z) : list Z :=
  match a, b with
  | x :: atl, y :: btl => b8 (x + y) :: add_rows atl btl
  | _, _ => []
  end.

Fixpoint filt_v_rest (prev : list Z) (rs : plane) : plane :=
  match rs with
  | [] => []
  | r :: tl => sub_rows r prev :: filt_v_rest r tl
  end.

Definition filt_v (rs : plane) : plane :=
  match rs with
  | [] => []
  | r :: tl => diffs 0 r :: filt_v_rest r tl
  end.

Fixpoint unfilt_v_rest (prev : list Z) (ds : plane) : plane :=
  match ds with
  | [] => []
  | d :: tl => let r := add_rows d prev in r :: unfilt_v_rest r tl
  end.

Definition unfilt_v (ds : plane) : plane :=
  match ds with
  | [] => []
  | d :: tl => let r := cumsum 0 d in r :: unfilt_v_rest r tl
  end.

(* ---------------- gradient ---------------- *)
(* forward, x >= 1: dst[x] = src[x] - clip(src[x-1] + prev[x] - prev[x-1]) *)
Fixpoint grad_f_tail (left topleft : Z) (src prev : list Z) : list Z :=
  match src, prev with
  | s :: stl, t :: ptl => b8 (s - clip8 (left + t - topleft)) :: grad_f_tail s t stl ptl
  | _, _ => []
  end.

(* forward row y>0: dst[0] = src[0] - prev[0], then the loop from x = 1 *)
Definition grad_f_row (src prev : list Z) : list Z :=
  match src, prev with
  | s :: stl, t :: ptl => b8 (s - t) :: grad_f_tail s t stl ptl
  | _, _ => []
  end.

Fixpoint filt_g_rest (prev : list Z) (rs : plane) : plane :=
  match rs with
  | [] => []
  | r :: tl => grad_f_row r prev :: filt_g_rest r tl
  end.

Definition filt_g (rs : plane) : plane :=
  match rs with
  | [] => []
  | r :: tl => diffs 0 r :: filt_g_rest r tl
  end.

(* inverse: top=prev[0]; topLeft=top; left=top; for x: top=prev[x];
   pred=clip(left+top-topLeft); left=curr[x]+pred; topLeft=top *)
Fixpoint grad_u_go (left topleft : Z) (d prev : list Z) : list Z :=
  match d, prev with
  | x :: dtl, t :: ptl =>
      let l := b8 (x + clip8 (left + t - topleft)) in l :: grad_u_go l t dtl ptl
  | _, _ => []
  end.

Definition grad_u_row (d prev : list Z) : list Z :=
  grad_u_go (hd 0 prev) (hd 0 prev) d prev.

Fixpoint unfilt_g_rest (prev : list Z) (ds : plane) : plane :=
  match ds with
  | [] => []
  | d :: tl => let r := grad_u_row d prev in r :: unfilt_g_rest r tl
  end.

Definition unfilt_g (ds : plane) : plane :=
  match ds with
  | [] => []
  | d :: tl => let r := cumsum 0 d in r :: unfilt_g_rest r tl
  end.

(* ---------------- dispatch ---------------- *)
Definition apply_filter (f : Z) (rs : plane) : plane :=
  if f =? 1 then filt_h 0 rs else if f =? 2 then filt_v rs else if f =? 3 then filt_g rs else rs.

Definition apply_unfilter (f : Z) (ds : plane) : plane :=
  if f =? 1 then unfilt_h 0 ds else if f =? 2 then unfilt_v ds else if f =? 3 then unfilt_g ds else ds.

(* ---------------- flat <-> rows ---------------- *)
Fixpoint chunk (fuel : nat) (w : nat) (l : list Z) : plane :=
  match fuel with
  | O => []
  | S k => match l with
           | [] => []
           | _ => firstn w l :: chunk k w (skipn w l)
           end
  end.

Definition rows_of (w h : Z) (flat : list Z) : plane :=
  chunk (Z.to_nat h) (Z.to_nat w) flat.

(* ---------------- the chunk codec ---------------- *)
Section Codec.
  (* lossless.Encode of the green-channel image with (quality, method), minus the
     5-byte VP8L header; lossless.DecodeVP8L + green extraction. *)
  Variable lenc : Z -> Z -> Z -> Z -> list Z -> list Z.   (* q m w h green-plane *)
  Variable ldec : Z -> Z -> list Z -> option (list Z).   (* w h payload *)

  (* VP8L effort mapping of encodeAlphaInternal *)
  Definition vp8l_quality (reduce : bool) (effort : Z) : Z :=
    let q := if negb reduce && (effort =? 6) then 100 else 8 * effort in
    if 100 <? q then 100 else q.

  (* encodeAlphaInternal *)
  Definition encode_internal (rs : plane) (w h method filter : Z) (reduce : bool) (effort : Z) : list Z :=
    let src := concat (apply_filter filter rs) in
    let '(m, out) :=
      if method =? 1 then
        let payload := lenc (vp8l_quality reduce effort) effort w h src in
        if w * h <? Z.of_nat (length payload) then (0, src) else (1, payload)
      else (0, src) in
    (m + 4 * filter + (if reduce then 16 else 0)) :: out.

  (* DecodeAlpha *)
  Definition decode (data : list Z) (w h : Z) : Res (list Z) :=
    match data with
    | [] => Err 1
    | hd :: payload =>
        if (w <=? 0) || (h <=? 0) then Err 2 else
        if 2^30 <? w * h then Err 3 else
        let comp := hd mod 4 in
        let filt := (hd / 4) mod 4 in
        raw <- (if comp =? 0 then
                  if Z.of_nat (length payload) <? w * h then Err 4
                  else Ok (firstn (Z.to_nat (w * h)) payload)
                else if comp =? 1 then
                  match ldec w h payload with Some g => Ok g | None => Err 5 end
                else Err 6) ;;
        Ok (concat (apply_unfilter filt (rows_of w h raw)))
    end.

  (* applyFiltersAndEncode: the smallest of the tried filters; which filters are
     tried and which one wins is a choice [pick] constrained to 0..3. *)
  Definition encode_with_choice (rs : plane) (w h method : Z) (reduce : bool) (effort pick : Z) : list Z :=
    encode_internal rs w h method (if (0 <=? pick) && (pick <=? 3) then pick else 0) reduce effort.
End Codec.

(* ---------------- level quantisation ---------------- *)
(* Quality -> number of levels (EncodeAlpha) *)
Definition alpha_levels (quality : Z) : Z :=
  if quality <=? 70 then 2 + quality / 5 else 16 + (quality - 70) * 8.

(* quantizeLevels: the k-means runs on floats and is not modelled; its output
   is always [remap[data[i]]] with remap[s] = round(centroid[qLevel[s]]) and
   qLevel[s] < numLevels.  [qlevel] and [centroid] are the outcome of the float
   computation. *)
Definition quantize (qlevel : Z -> Z) (centroid : Z -> Z) (data : list Z) : list Z :=
  map (fun v => centroid (qlevel v)) data.
