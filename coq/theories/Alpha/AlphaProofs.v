(** Proofs about the ALPH codec model: every prediction filter is inverted
    exactly by its unfilter, for every plane; the chunk codec round-trips for
    every method / filter / fallback; quantisation yields at most the requested
    number of levels. *)
From Coq Require Import List ZArith Lia Bool ZifyBool.
From Webp Require Import Base.Res Alpha.AlphaModel.
Import ListNotations.
Open Scope Z_scope.

Ltac Zify.zify_post_hook ::= Z.div_mod_to_equations.

Definition is_byte (b : Z) : Prop := 0 <= b < 256.
Definition row_ok (w : nat) (r : list Z) : Prop := length r = w /\ Forall is_byte r.
Definition wf_plane (w : nat) (rs : plane) : Prop := Forall (row_ok w) rs.

Lemma b8_cancel_sub a c : is_byte a -> b8 (b8 (a - c) + c) = a.
Proof. unfold is_byte, b8. intros H. lia. Qed.

Lemma clip8_byte t : is_byte t -> clip8 t = t.
Proof. unfold is_byte, clip8. intros H. destruct (Z.ltb_spec t 0); [lia|]. destruct (Z.ltb_spec 255 t); lia. Qed.

Lemma hd_byte r : Forall is_byte r -> is_byte (hd 0 r).
Proof. intros H. destruct r as [|a r]; cbn; [unfold is_byte; lia|]. inversion H; assumption. Qed.

(* ---------------- horizontal ---------------- *)
Lemma cumsum_diffs row : forall p, Forall is_byte row -> cumsum p (diffs p row) = row.
Proof.
  induction row as [|a tl IH]; intros p Hb; [reflexivity|].
  inversion Hb as [|? ? Ha Htl]; subst. cbn [diffs cumsum].
  rewrite (b8_cancel_sub a p Ha). f_equal. apply IH. exact Htl.
Qed.

Lemma unfilt_h_filt_h w rs : forall p, wf_plane w rs -> unfilt_h p (filt_h p rs) = rs.
Proof.
  induction rs as [|r tl IH]; intros p Hwf; [reflexivity|].
  inversion Hwf as [|? ? [_ Hr] Htl]; subst. cbn [filt_h unfilt_h].
  rewrite (cumsum_diffs r p Hr). f_equal. apply IH. exact Htl.
Qed.

(* ---------------- vertical ---------------- *)
Lemma add_sub_rows r : forall prev, Forall is_byte r -> (length r <= length prev)%nat ->
  add_rows (sub_rows r prev) prev = r.
Proof.
  induction r as [|a tl IH]; intros prev Hb Hlen; [destruct prev; reflexivity|].
  destruct prev as [|t ptl]; [cbn in Hlen; lia|].
  inversion Hb as [|? ? Ha Htl]; subst. cbn [sub_rows add_rows].
  rewrite (b8_cancel_sub a t Ha). f_equal. apply IH; [exact Htl|cbn in Hlen; lia].
Qed.

Lemma unfilt_v_rest_ok w rs : forall prev, wf_plane w rs -> length prev = w ->
  unfilt_v_rest prev (filt_v_rest prev rs) = rs.
Proof.
  induction rs as [|r tl IH]; intros prev Hwf Hp; [reflexivity|].
  inversion Hwf as [|? ? [Hl Hr] Htl]; subst. cbn [filt_v_rest unfilt_v_rest].
  rewrite (add_sub_rows r prev Hr) by lia. f_equal. apply IH; [exact Htl|lia].
Qed.

Lemma unfilt_v_filt_v w rs : wf_plane w rs -> unfilt_v (filt_v rs) = rs.
Proof.
  destruct rs as [|r tl]; intros Hwf; [reflexivity|].
  inversion Hwf as [|? ? [Hl Hr] Htl]; subst. cbn [filt_v unfilt_v].
  rewrite (cumsum_diffs r 0 Hr). f_equal. apply (unfilt_v_rest_ok (length r)); [exact Htl|reflexivity].
Qed.

(* ---------------- gradient ---------------- *)
Lemma grad_tail_inv src : forall prev left topleft,
  Forall is_byte src -> (length src <= length prev)%nat ->
  grad_u_go left topleft (grad_f_tail left topleft src prev) prev = src.
Proof.
  induction src as [|s stl IH]; intros prev left topleft Hb Hlen; [destruct prev; reflexivity|].
  destruct prev as [|t ptl]; [cbn in Hlen; lia|].
  inversion Hb as [|? ? Hs Htl]; subst. cbn [grad_f_tail grad_u_go].
  rewrite (b8_cancel_sub s _ Hs). f_equal. apply IH; [exact Htl|cbn in Hlen; lia].
Qed.

Lemma grad_row_inv src prev :
  Forall is_byte src -> Forall is_byte prev -> (length src <= length prev)%nat ->
  grad_u_row (grad_f_row src prev) prev = src.
Proof.
  intros Hs Hp Hlen. destruct src as [|s stl]; [destruct prev; reflexivity|].
  destruct prev as [|t ptl]; [cbn in Hlen; lia|].
  inversion Hs as [|? ? Hs0 Hstl]; subst. inversion Hp as [|? ? Ht Hptl]; subst.
  unfold grad_u_row, grad_f_row. cbn [hd grad_u_go].
  replace (t + t - t) with t by lia. rewrite (clip8_byte t Ht).
  rewrite (b8_cancel_sub s t Hs0). f_equal.
  apply grad_tail_inv; [exact Hstl|cbn in Hlen; lia].
Qed.

Lemma unfilt_g_rest_ok w rs : forall prev, wf_plane w rs -> length prev = w -> Forall is_byte prev ->
  unfilt_g_rest prev (filt_g_rest prev rs) = rs.
Proof.
  induction rs as [|r tl IH]; intros prev Hwf Hp Hpb; [reflexivity|].
  inversion Hwf as [|? ? [Hl Hr] Htl]; subst. cbn [filt_g_rest unfilt_g_rest].
  rewrite (grad_row_inv r prev Hr Hpb) by lia. f_equal. apply IH; [exact Htl|lia|exact Hr].
Qed.

Lemma unfilt_g_filt_g w rs : wf_plane w rs -> unfilt_g (filt_g rs) = rs.
Proof.
  destruct rs as [|r tl]; intros Hwf; [reflexivity|].
  inversion Hwf as [|? ? [Hl Hr] Htl]; subst. cbn [filt_g unfilt_g].
  rewrite (cumsum_diffs r 0 Hr). f_equal.
  apply (unfilt_g_rest_ok (length r)); [exact Htl|reflexivity|exact Hr].
Qed.

Theorem unfilter_filter w rs f : wf_plane w rs -> apply_unfilter f (apply_filter f rs) = rs.
Proof.
  intros Hwf. unfold apply_filter, apply_unfilter.
  destruct (f =? 1); [apply (unfilt_h_filt_h w); exact Hwf|].
  destruct (f =? 2); [apply (unfilt_v_filt_v w); exact Hwf|].
  destruct (f =? 3); [apply (unfilt_g_filt_g w); exact Hwf|]. reflexivity.
Qed.

(* ---------------- filters keep the shape ---------------- *)
Lemma b8_byte z : is_byte (b8 z).
Proof. unfold is_byte, b8. lia. Qed.

Lemma diffs_ok row : forall p, length (diffs p row) = length row /\ Forall is_byte (diffs p row).
Proof.
  induction row as [|a tl IH]; intros p; cbn; [split; [reflexivity|constructor]|].
  destruct (IH a) as [Hl Hb]. split; [f_equal; exact Hl|constructor; [apply b8_byte|exact Hb]].
Qed.

Lemma sub_rows_ok a : forall b, (length a <= length b)%nat ->
  length (sub_rows a b) = length a /\ Forall is_byte (sub_rows a b).
Proof.
  induction a as [|x atl IH]; intros b Hl; [destruct b; cbn; split; (reflexivity || constructor)|].
  destruct b as [|y btl]; [cbn in Hl; lia|]. cbn [sub_rows].
  destruct (IH btl ltac:(cbn in Hl; lia)) as [H1 H2].
  split; [cbn; f_equal; exact H1|constructor; [apply b8_byte|exact H2]].
Qed.

Lemma grad_f_tail_ok src : forall prev l tl, (length src <= length prev)%nat ->
  length (grad_f_tail l tl src prev) = length src /\ Forall is_byte (grad_f_tail l tl src prev).
Proof.
  induction src as [|s stl IH]; intros prev l tl Hl; [destruct prev; cbn; split; (reflexivity || constructor)|].
  destruct prev as [|t ptl]; [cbn in Hl; lia|]. cbn [grad_f_tail].
  destruct (IH ptl s t ltac:(cbn in Hl; lia)) as [H1 H2].
  split; [cbn; f_equal; exact H1|constructor; [apply b8_byte|exact H2]].
Qed.

Lemma grad_f_row_ok src prev : (length src <= length prev)%nat ->
  length (grad_f_row src prev) = length src /\ Forall is_byte (grad_f_row src prev).
Proof.
  intros Hl. destruct src as [|s stl]; [destruct prev; cbn; split; (reflexivity || constructor)|].
  destruct prev as [|t ptl]; [cbn in Hl; lia|]. unfold grad_f_row.
  destruct (grad_f_tail_ok stl ptl s t ltac:(cbn in Hl; lia)) as [H1 H2].
  split; [cbn; f_equal; exact H1|constructor; [apply b8_byte|exact H2]].
Qed.

Lemma filt_h_wf w rs : forall p, wf_plane w rs -> wf_plane w (filt_h p rs) /\ length (filt_h p rs) = length rs.
Proof.
  induction rs as [|r tl IH]; intros p Hwf; [split; [constructor|reflexivity]|].
  inversion Hwf as [|? ? [Hl Hr] Htl]; subst. cbn [filt_h].
  destruct (IH (hd 0 r) Htl) as [H1 H2]. destruct (diffs_ok r p) as [D1 D2].
  split; [constructor; [split; [lia|exact D2]|exact H1]|cbn; f_equal; exact H2].
Qed.

Lemma filt_v_rest_wf w rs : forall prev, wf_plane w rs -> length prev = w ->
  wf_plane w (filt_v_rest prev rs) /\ length (filt_v_rest prev rs) = length rs.
Proof.
  induction rs as [|r tl IH]; intros prev Hwf Hp; [split; [constructor|reflexivity]|].
  inversion Hwf as [|? ? [Hl Hr] Htl]; subst. cbn [filt_v_rest].
  destruct (IH r Htl ltac:(lia)) as [H1 H2]. destruct (sub_rows_ok r prev ltac:(lia)) as [D1 D2].
  split; [constructor; [split; [lia|exact D2]|exact H1]|cbn; f_equal; exact H2].
Qed.

Lemma filt_g_rest_wf w rs : forall prev, wf_plane w rs -> length prev = w ->
  wf_plane w (filt_g_rest prev rs) /\ length (filt_g_rest prev rs) = length rs.
Proof.
  induction rs as [|r tl IH]; intros prev Hwf Hp; [split; [constructor|reflexivity]|].
  inversion Hwf as [|? ? [Hl Hr] Htl]; subst. cbn [filt_g_rest].
  destruct (IH r Htl ltac:(lia)) as [H1 H2]. destruct (grad_f_row_ok r prev ltac:(lia)) as [D1 D2].
  split; [constructor; [split; [lia|exact D2]|exact H1]|cbn; f_equal; exact H2].
Qed.

Lemma apply_filter_wf w rs f : wf_plane w rs ->
  wf_plane w (apply_filter f rs) /\ length (apply_filter f rs) = length rs.
Proof.
  intros Hwf. unfold apply_filter.
  destruct (f =? 1); [apply filt_h_wf; exact Hwf|].
  destruct (f =? 2).
  { destruct rs as [|r tl]; [split; [constructor|reflexivity]|].
    inversion Hwf as [|? ? [Hl Hr] Htl]; subst. cbn [filt_v].
    destruct (filt_v_rest_wf (length r) tl r Htl eq_refl) as [H1 H2]. destruct (diffs_ok r 0) as [D1 D2].
    split; [constructor; [split; [lia|exact D2]|exact H1]|cbn; f_equal; exact H2]. }
  destruct (f =? 3).
  { destruct rs as [|r tl]; [split; [constructor|reflexivity]|].
    inversion Hwf as [|? ? [Hl Hr] Htl]; subst. cbn [filt_g].
    destruct (filt_g_rest_wf (length r) tl r Htl eq_refl) as [H1 H2]. destruct (diffs_ok r 0) as [D1 D2].
    split; [constructor; [split; [lia|exact D2]|exact H1]|cbn; f_equal; exact H2]. }
  split; [exact Hwf|reflexivity].
Qed.

(* ---------------- flat <-> rows ---------------- *)
Lemma chunk_concat w rs : (1 <= w)%nat -> wf_plane w rs -> chunk (length rs) w (concat rs) = rs.
Proof.
  intros Hw. induction rs as [|r tl IH]; intros Hwf; [reflexivity|].
  inversion Hwf as [|? ? [Hl Hr] Htl]; subst. cbn [length chunk concat].
  destruct (r ++ concat tl) eqn:E.
  { destruct r; [cbn in Hw; lia|discriminate]. }
  rewrite <- E. rewrite firstn_app, Nat.sub_diag, firstn_all. cbn [firstn]. rewrite app_nil_r.
  rewrite skipn_app, Nat.sub_diag, skipn_all. cbn [skipn app]. f_equal. apply IH. exact Htl.
Qed.

Lemma concat_length w rs : wf_plane w rs -> length (concat rs) = (length rs * w)%nat.
Proof.
  induction rs as [|r tl IH]; intros Hwf; [reflexivity|].
  inversion Hwf as [|? ? [Hl Hr] Htl]; subst. cbn [concat length]. rewrite app_length, (IH Htl). lia.
Qed.

Lemma concat_bytes w rs : wf_plane w rs -> Forall is_byte (concat rs).
Proof.
  induction rs as [|r tl IH]; intros Hwf; [constructor|].
  inversion Hwf as [|? ? [Hl Hr] Htl]; subst. cbn [concat]. apply Forall_app. split; [exact Hr|apply IH; exact Htl].
Qed.

(* ---------------- the codec round trip ---------------- *)
Section CodecProofs.
  Variable lenc : Z -> Z -> Z -> Z -> list Z -> list Z.
  Variable ldec : Z -> Z -> list Z -> option (list Z).
  (** Property C01 for the green-channel image (lossless.Encode then DecodeVP8L). *)
  Hypothesis ldec_lenc : forall q m w h p,
    Z.of_nat (length p) = w * h -> Forall is_byte p -> ldec w h (lenc q m w h p) = Some p.

  Theorem alpha_chunk_roundtrip rs w h method filter reduce effort :
    1 <= w -> 1 <= h -> w * h <= 2^30 ->
    wf_plane (Z.to_nat w) rs -> Z.of_nat (length rs) = h ->
    (method = 0 \/ method = 1) -> 0 <= filter <= 3 ->
    decode ldec (encode_internal lenc rs w h method filter reduce effort) w h = Ok (concat rs).
  Proof.
    intros Hw Hh Harea Hwf Hlen Hm Hf.
    destruct (apply_filter_wf (Z.to_nat w) rs filter Hwf) as [Hfw Hfl].
    set (frs := apply_filter filter rs) in *.
    assert (Hsrc_len : Z.of_nat (length (concat frs)) = w * h).
    { rewrite (concat_length (Z.to_nat w) frs Hfw), Hfl. lia. }
    assert (Hsrc_b : Forall is_byte (concat frs)) by (apply (concat_bytes (Z.to_nat w)); exact Hfw).
    assert (Hrows : rows_of w h (concat frs) = frs).
    { unfold rows_of. replace (Z.to_nat h) with (length frs) by lia.
      apply chunk_concat; [lia|exact Hfw]. }
    assert (Hun : concat (apply_unfilter filter frs) = concat rs).
    { unfold frs. rewrite (unfilter_filter (Z.to_nat w) rs filter Hwf). reflexivity. }
    unfold encode_internal. fold frs.
    (* the two possible (method, payload) outcomes *)
    assert (Hraw : forall r16, 0 <= r16 -> r16 = 0 \/ r16 = 16 ->
              decode ldec ((0 + 4 * filter + r16) :: concat frs) w h = Ok (concat rs)).
    { intros r16 _ Hr. unfold decode.
      destruct (Z.leb_spec w 0); [lia|]. destruct (Z.leb_spec h 0); [lia|]. cbn [orb].
      destruct (Z.ltb_spec (2^30) (w * h)); [lia|].
      replace ((0 + 4 * filter + r16) mod 4) with 0 by lia.
      replace (((0 + 4 * filter + r16) / 4) mod 4) with filter by lia.
      cbn [Z.eqb]. destruct (Z.ltb_spec (Z.of_nat (length (concat frs))) (w * h)); [lia|].
      cbn [bind]. rewrite <- Hsrc_len, Nat2Z.id, firstn_all, Hrows, Hun. reflexivity. }
    assert (Hcomp : forall r16 q m, r16 = 0 \/ r16 = 16 ->
              decode ldec ((1 + 4 * filter + r16) :: lenc q m w h (concat frs)) w h = Ok (concat rs)).
    { intros r16 q m Hr. unfold decode.
      destruct (Z.leb_spec w 0); [lia|]. destruct (Z.leb_spec h 0); [lia|]. cbn [orb].
      destruct (Z.ltb_spec (2^30) (w * h)); [lia|].
      replace ((1 + 4 * filter + r16) mod 4) with 1 by lia.
      replace (((1 + 4 * filter + r16) / 4) mod 4) with filter by lia.
      cbn [Z.eqb Pos.eqb]. rewrite (ldec_lenc q m w h _ Hsrc_len Hsrc_b).
      cbn [bind]. rewrite Hrows, Hun. reflexivity. }
    destruct Hm as [-> | ->]; cbn [Z.eqb Pos.eqb].
    - destruct reduce; apply Hraw; lia.
    - destruct (w * h <? Z.of_nat (length (lenc (vp8l_quality reduce effort) effort w h (concat frs)))).
      + destruct reduce; apply Hraw; lia.
      + destruct reduce; apply Hcomp; lia.
  Qed.

  (** Whatever filter the size competition of applyFiltersAndEncode picks. *)
  Theorem alpha_exact_any_choice rs w h method reduce effort pick :
    1 <= w -> 1 <= h -> w * h <= 2^30 ->
    wf_plane (Z.to_nat w) rs -> Z.of_nat (length rs) = h ->
    (method = 0 \/ method = 1) ->
    decode ldec (encode_with_choice lenc rs w h method reduce effort pick) w h = Ok (concat rs).
  Proof.
    intros. unfold encode_with_choice. apply alpha_chunk_roundtrip; try assumption.
    destruct (Z.leb_spec 0 pick); destruct (Z.leb_spec pick 3); cbn [andb]; lia.
  Qed.
End CodecProofs.

(* ---------------- header totality ---------------- *)
Theorem decode_total ldec data w h : decode ldec data w h <> Panic.
Proof.
  unfold decode. destruct data as [|hd payload]; [discriminate|].
  destruct ((w <=? 0) || (h <=? 0)); [discriminate|].
  destruct (2^30 <? w * h); [discriminate|].
  destruct (hd mod 4 =? 0).
  { destruct (Z.of_nat (length payload) <? w * h); cbn [bind]; discriminate. }
  destruct (hd mod 4 =? 1); [|cbn [bind]; discriminate].
  destruct (ldec w h payload); cbn [bind]; discriminate.
Qed.

Theorem decode_rejects_unknown_compression ldec hd payload w h :
  2 <= hd mod 4 -> 1 <= w -> 1 <= h -> w * h <= 2^30 -> exists e, decode ldec (hd :: payload) w h = Err e.
Proof.
  intros Hc Hw Hh Ha. unfold decode.
  destruct (Z.leb_spec w 0); [lia|]. destruct (Z.leb_spec h 0); [lia|]. cbn [orb].
  destruct (Z.ltb_spec (2^30) (w * h)); [lia|].
  destruct (Z.eqb_spec (hd mod 4) 0); [lia|]. destruct (Z.eqb_spec (hd mod 4) 1); [lia|].
  cbn [bind]. eauto.
Qed.

Theorem decode_raw_truncated ldec hd payload w h :
  hd mod 4 = 0 -> 1 <= w -> 1 <= h -> w * h <= 2^30 -> Z.of_nat (length payload) < w * h ->
  exists e, decode ldec (hd :: payload) w h = Err e.
Proof.
  intros Hc Hw Hh Ha Hl. unfold decode.
  destruct (Z.leb_spec w 0); [lia|]. destruct (Z.leb_spec h 0); [lia|]. cbn [orb].
  destruct (Z.ltb_spec (2^30) (w * h)); [lia|]. rewrite Hc. cbn [Z.eqb].
  destruct (Z.ltb_spec (Z.of_nat (length payload)) (w * h)); [|lia]. cbn [bind]. eauto.
Qed.

(* ---------------- quantisation ---------------- *)
Theorem alpha_levels_range q : 0 <= q < 100 -> 2 <= alpha_levels q <= 256.
Proof. intros H. unfold alpha_levels. destruct (Z.leb_spec q 70); lia. Qed.

Definition zseq (n : Z) : list Z := map Z.of_nat (seq 0 (Z.to_nat n)).

(** At most [n] distinct output values, whatever the float k-means computed. *)
Theorem quantize_levels_bound qlevel centroid data n :
  (forall v, In v data -> 0 <= qlevel v < n) ->
  incl (quantize qlevel centroid data) (map centroid (zseq n)) /\
  length (map centroid (zseq n)) = Z.to_nat n.
Proof.
  intros Hq. split.
  - intros y Hy. unfold quantize in Hy. apply in_map_iff in Hy as (v & <- & Hv).
    apply in_map. unfold zseq. apply in_map_iff. exists (Z.to_nat (qlevel v)).
    specialize (Hq v Hv). split; [lia|]. apply in_seq. lia.
  - unfold zseq. rewrite !map_length, seq_length. reflexivity.
Qed.

(** Smallest and largest value are kept, under the three facts the float
    computation guarantees (centroid 0 / n-1 stay at min / max, all centroids
    lie between them, min and max map to the first / last slot). *)
Theorem quantize_keeps_min_max qlevel centroid data lo hi :
  In lo data -> In hi data -> (forall v, In v data -> lo <= v <= hi) ->
  centroid (qlevel lo) = lo -> centroid (qlevel hi) = hi ->
  (forall v, In v data -> lo <= centroid (qlevel v) <= hi) ->
  In lo (quantize qlevel centroid data) /\ In hi (quantize qlevel centroid data) /\
  (forall y, In y (quantize qlevel centroid data) -> lo <= y <= hi).
Proof.
  intros Hlo Hhi _ Clo Chi Hall. unfold quantize. repeat split.
  - apply in_map_iff. exists lo. split; assumption.
  - apply in_map_iff. exists hi. split; assumption.
  - apply in_map_iff in H as (v & <- & Hv). apply Hall; exact Hv.
  - apply in_map_iff in H as (v & <- & Hv). apply Hall; exact Hv.
Qed.

(** Non-vacuity: a concrete 3x3 plane round-trips through every filter. *)
Example alpha_example_plane : plane := [[0; 255; 17]; [200; 3; 128]; [255; 255; 1]].
Example alpha_example_wf : wf_plane 3 alpha_example_plane.
Proof. repeat constructor; unfold is_byte; lia. Qed.
Example alpha_example_filters :
  map (fun f => apply_unfilter f (apply_filter f alpha_example_plane)) [0; 1; 2; 3]
  = [alpha_example_plane; alpha_example_plane; alpha_example_plane; alpha_example_plane]
  /\ apply_filter 3 alpha_example_plane <> alpha_example_plane.
Proof. split; [vm_compute; reflexivity|vm_compute; discriminate]. Qed.
