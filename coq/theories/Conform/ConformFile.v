(** Whole-file analysis of an encoder output by the independent specification
    models: RIFF/WebP grammar (Riff.RiffGrammar, from the container spec), VP8L
    specification decoder (Vp8l.Vp8lSpec), ALPH codec model with the VP8L
    specification decoder plugged in as its lossless coder, VP8 fixed header
    fields (Conform.ConformVp8Hdr).  This is the "independent implementation of
    the format" of property C02. *)
From Coq Require Import List ZArith Lia Bool.
From Webp Require Import Base.Res Base.Bytes Riff.RiffGrammar Vp8l.Vp8lPixel Vp8l.Vp8lSpec
  Alpha.AlphaModel Conform.ConformVp8Hdr Vp8.Vp8Spec.
Import ListNotations.
Open Scope Z_scope.

(** lossless.DecodeVP8L(alphaVP8LStream(payload, w, h)) + green extraction, by the
    specification decoder. *)
Definition ldec_spec (w h : Z) (payload : list Z) : option (list Z) :=
  match Vp8lSpec.decode (ConformVp8Hdr.vp8l_header w h false ++ payload) with
  | Ok img => if (i_w img =? w) && (i_h img =? h) then Some (map pg (i_px img)) else None
  | _ => None
  end.

Definition alpha_decode (chunk : list Z) (w h : Z) : Res (list Z) :=
  AlphaModel.decode ldec_spec chunk w h.

Fixpoint find_chunk (t : list Z) (cs : list gchunk) : option (list Z) :=
  match cs with
  | [] => None
  | (t', p) :: rest => if bytes_eqb t' t then Some p else find_chunk t rest
  end.

Record report := mkreport {
  r_wf : bool;                 (* RiffGrammar.wf *)
  r_lossless : bool;
  r_w : Z; r_h : Z;            (* from the bitstream header *)
  r_alpha : bool;              (* VP8L alpha bit / presence of ALPH *)
  r_vp8x : bool;
  r_rgba : option (list px);   (* VP8L: the decoded picture *)
  r_aplane : option (list Z);  (* VP8 + ALPH: the decoded alpha plane *)
  r_part0 : Z;                 (* VP8: declared partition-0 length *)
  r_yuv : option (list Z * list Z * list Z)   (* VP8: Y, U, V after the loop filter (RFC 6386 decoder) *)
}.

(** The VP8 specification decoder's picture, if it accepts the stream with the
    dimensions the header declares. *)
Definition yuv_spec (p : list Z) (w h : Z) : option (list Z * list Z * list Z) :=
  match Vp8Spec.decode_yuv p with
  | Ok (w', h', y, u, v) => if (w' =? w) && (h' =? h) then Some (y, u, v) else None
  | _ => None
  end.

Definition analyse (bs : list Z) : Res report :=
  let wfb := RiffGrammar.wf bs in
  let body := skipn 12 bs in
  match chunks (length body) body with
  | None => Err 1
  | Some cs =>
      let vp8x := match cs with (t, _) :: _ => bytes_eqb t T_VP8X | [] => false end in
      match find_chunk T_VP8L cs with
      | Some p =>
          match Vp8lSpec.decode p, RiffGrammar.vp8l_header p with
          | Ok img, Some (w, h, a) =>
              Ok (mkreport wfb true w h a vp8x
                    (if (i_w img =? w) && (i_h img =? h) then Some (i_px img) else None) None 0 None)
          | _, _ => Err 2
          end
      | None =>
          match find_chunk T_VP8 cs with
          | None => Err 3
          | Some p =>
              match ConformVp8Hdr.parse_hdr p with
              | Ok (hd, rest) =>
                  if negb (h_key hd && h_show hd && (h_profile hd <=? 3) && (h_xscale hd =? 0) && (h_yscale hd =? 0)
                           && (h_part0_len hd <=? len rest)) then Err 4 else
                  match find_chunk T_ALPH cs with
                  | None => Ok (mkreport wfb false (h_width hd) (h_height hd) false vp8x None None (h_part0_len hd)
                                  (yuv_spec p (h_width hd) (h_height hd)))
                  | Some a =>
                      match alpha_decode a (h_width hd) (h_height hd) with
                      | Ok plane => Ok (mkreport wfb false (h_width hd) (h_height hd) true vp8x None (Some plane) (h_part0_len hd)
                                         (yuv_spec p (h_width hd) (h_height hd)))
                      | _ => Err 5
                      end
                  end
              | _ => Err 6
              end
          end
      end
  end.
