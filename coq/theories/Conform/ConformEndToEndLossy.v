(** C02 end to end, lossy: for EVERY well-formed set of encoder choices (header,
    segment/filter parameters, per-macroblock modes and quantised levels — the
    rate-distortion heuristics are choices), every ALPH payload that the
    independent ALPH model decodes, and every ICC / EXIF / XMP blob within the
    writer's size guard, the file that the container writer model produces
    around the VP8 frame emitted through the Go boolean-encoder model and
    assembleFrame's layout
      - is accepted by the independent container grammar (RiffGrammar.wf), and
      - is analysed by the independent format models (ConformFile.analyse:
        RiffGrammar chunk walk, RFC 6386 frame header reader, VP8 specification
        decoder, ALPH model) to a report with the declared dimensions, alpha iff
        an ALPH chunk was given, the decoded alpha plane, the declared first
        partition length within the data, and the samples the specification
        decoder reconstructs = the reconstruction the syntax denotes (the
        decoder never has to read beyond the end of a partition:
        Vp8FrameRT.vp8_emit_decode_full).
    Composition of Vp8FrameRT.vp8_emit_decode (C04/C06),
    ConformVp8Hdr (frame tag / picture header), Vp8BoolEnc (output is bytes),
    WriterTheorems.metadata_roundtrip (C15) and the ParserSpec -> RiffGrammar
    bridge (ParserGrammar). *)
From Coq Require Import List ZArith Lia Bool.
From Coq Require Import ZifyBool ZifyNat.
From Webp Require Import Base.Res Base.Bytes.
From Webp Require Riff.RiffGrammar Riff.ParserLemmas Riff.ParserProofs Riff.ParserModel Riff.ParserSpec Riff.ParserSpecProofs Riff.WriterProofs
  Riff.WriterModel Riff.MetadataProofs Riff.WriterTheorems Riff.ParserGrammar.
From Webp Require Vp8.Vp8Syntax Vp8.Vp8BoolAbs Vp8.Vp8BoolEnc Vp8.Vp8Filter Vp8.Vp8Spec Vp8.Vp8FrameRT.
From Webp Require Conform.ConformVp8Hdr Conform.ConformFile Conform.ConformEndToEnd.
Import ListNotations.
Open Scope Z_scope.
Ltac Zify.zify_post_hook ::= Z.div_mod_to_equations.

Module G := RiffGrammar.
Module PM := ParserModel.
Module PS := ParserSpec.
Module PG := ParserGrammar.
Module MP := MetadataProofs.
Module CH := ConformVp8Hdr.
Module CF := ConformFile.
Module E2E := ConformEndToEnd.
Module BE := Vp8BoolEnc.
Module BA := Vp8BoolAbs.
Module FR := Vp8FrameRT.
Module VS := Vp8Spec.

(** ** The Go boolean encoder only writes bytes *)
Lemma abs_bytes l : Forall BA.is_byte l -> bytes_ok l.
Proof. intros H. eapply Forall_impl; [|exact H]. unfold BA.is_byte, is_byte. intros; lia. Qed.

Lemma bool_encode_bytes ps : BA.probs_ok ps -> bytes_ok (BE.bool_encode ps).
Proof.
  intros Hps. destruct ps as [|bp tl].
  - vm_compute. repeat constructor; discriminate.
  - set (ps := bp :: tl) in *.
    pose proof (BE.encode_all_rel ps BE.bw_init 255 0 0 BE.init_rel ltac:(lia) Hps) as Henc.
    destruct (BA.aenc ps (255, 0, 0)) as [[Rf Lf] kf].
    destruct Henc as (Hrel & HRf & HRf2). specialize (HRf2 ltac:(unfold ps; congruence)).
    pose proof (BE.finish_value (BE.bw_encode_all ps BE.bw_init) Rf Lf kf Hrel ltac:(lia)) as Hfin.
    cbv zeta in Hfin. destruct Hfin as (_ & _ & _ & Hb). apply abs_bytes. exact Hb.
Qed.

(** ** assembleFrame's layout *)
Lemma size3_bytes n : bytes_ok (CH.size3 n).
Proof. unfold CH.size3. repeat constructor; unfold is_byte; lia. Qed.

Lemma size_table_bytes parts : bytes_ok (CH.size_table parts).
Proof.
  induction parts as [|p tl IH]; [constructor|].
  cbn [CH.size_table]. destruct tl as [|q tl']; [constructor|].
  apply bytes_ok_app. split; [apply size3_bytes|exact IH].
Qed.

Lemma concat_bytes parts : Forall bytes_ok parts -> bytes_ok (concat parts).
Proof.
  induction 1 as [|p tl Hp _ IH]; [constructor|]. cbn [concat]. apply bytes_ok_app. split; assumption.
Qed.

Lemma assemble_bytes w h part0 parts :
  bytes_ok part0 -> Forall bytes_ok parts -> bytes_ok (CH.assemble w h part0 parts).
Proof.
  intros H0 Hp. unfold CH.assemble, CH.frame_tag, CH.pic_header, le16.
  repeat (apply bytes_ok_app; split); try assumption;
    try (repeat constructor; unfold is_byte; lia).
  - apply size_table_bytes.
  - apply concat_bytes; assumption.
Qed.

(** what the RFC 6386 header reader gets from an assembled frame *)
Lemma parse_hdr_assemble w h part0 parts :
  1 <= w < 16384 -> 1 <= h < 16384 -> CH.len part0 < 2^19 ->
  CH.parse_hdr (CH.assemble w h part0 parts) =
    Ok (CH.mk_hdr true 0 true (CH.len part0) w 0 h 0, part0 ++ CH.size_table parts ++ concat parts).
Proof.
  intros Hw Hh Hp0. unfold CH.assemble.
  assert (Hl0 := CH.len_nonneg part0).
  destruct (CH.tag_fields (CH.len part0) (conj Hl0 Hp0)) as (T0 & T1 & T2 & T3 & T4 & T5).
  destruct (CH.dim_fields w Hw) as [W1 W2]. destruct (CH.dim_fields h Hh) as [H1 H2].
  unfold CH.frame_tag, CH.pic_header, le16. cbn [app CH.parse_hdr].
  rewrite T0, T1, T2, T3, T4, T5, W1, W2, H1, H2. reflexivity.
Qed.

(** what the container parser's header reader (ParserModel.parse_vp8_header, the
    model of internal/container) gets from it *)
Lemma parse_vp8_header_assemble w h part0 parts :
  1 <= w < 16384 -> 1 <= h < 16384 -> CH.len part0 < 2^19 ->
  PM.parse_vp8_header (CH.assemble w h part0 parts) = Ok (w, h).
Proof.
  intros Hw Hh Hp0. unfold CH.assemble.
  assert (Hl0 := CH.len_nonneg part0).
  destruct (CH.tag_fields (CH.len part0) (conj Hl0 Hp0)) as (T0 & T1 & T2 & _).
  set (tag := 16 + CH.len part0 * 32) in *.
  set (tl := part0 ++ CH.size_table parts ++ concat parts).
  assert (E : CH.frame_tag (CH.len part0) ++ CH.pic_header w h ++ tl =
              [tag mod 256; (tag / 256) mod 256; (tag / 65536) mod 256; 157; 1; 42;
               (w mod 16384) mod 256; ((w mod 16384) / 256) mod 256;
               (h mod 16384) mod 256; ((h mod 16384) / 256) mod 256] ++ tl).
  { unfold CH.frame_tag, CH.pic_header, le16. fold tag. rewrite T0. reflexivity. }
  rewrite E. clear E.
  unfold PM.parse_vp8_header, PM.VP8FrameHeaderSize.
  match goal with |- context [PM.len (?hd ++ tl)] => set (hd10 := hd) end.
  assert (Hlen : PM.len (hd10 ++ tl) = 10 + PM.len tl) by (rewrite ParserLemmas.len_app; reflexivity).
  pose proof (ParserLemmas.len_nonneg tl) as Htl.
  destruct (Z.ltb_spec (PM.len (hd10 ++ tl)) 10) as [Hlt|_]; [lia|].
  change 10 with (PM.len hd10) at 1. rewrite WriterProofs.slice_head. cbn [bind]. unfold hd10.
  rewrite T1, T2. cbn [negb Z.eqb].
  change (65536 * 157 + 256 * 1 + 42) with 10289450. rewrite Z.eqb_refl. cbn [negb].
  unfold rd16.
  assert (W : ((w mod 16384) mod 256 + 256 * (((w mod 16384) / 256) mod 256)) mod 16384 = w) by lia.
  assert (Hq : ((h mod 16384) mod 256 + 256 * (((h mod 16384) / 256) mod 256)) mod 16384 = h) by lia.
  rewrite W, Hq.
  destruct (Z.eqb_spec w 0); [lia|]. destruct (Z.eqb_spec h 0); [lia|]. reflexivity.
Qed.

(** ** A lossy file holds no VP8L chunk, and its ALPH chunk is the one given *)
Lemma lossy_chunks bs alpha w h icc exif xmp file :
  MP.sizes_ok bs alpha icc exif xmp ->
  WriterModel.write_riff PM.FourCCVP8 bs alpha w h icc exif xmp = Ok file ->
  PS.spec_get_chunk file PM.FourCCVP8L = None /\
  PS.spec_get_chunk file PM.FourCCVP8 = Some bs /\
  PS.spec_get_chunk file PM.FourCCALPH = MP.opt_blob alpha.
Proof.
  intros Hs Hw. unfold WriterModel.write_riff in Hw. unfold PS.spec_get_chunk.
  assert (Hf : MP.image_fourcc PM.FourCCVP8) by (left; reflexivity).
  destruct ((PM.len alpha >? 0) || (PM.len icc >? 0) || (PM.len exif >? 0) || (PM.len xmp >? 0)) eqn:Ext.
  - rewrite (MP.riff_chunks_written _ _ _ _ _ _ _ _ _ Hs (MP.image_fourcc_range _ Hf) Hw).
    unfold MP.written_chunks, WriterProofs.opt_entry, MP.opt_blob.
    destruct (PM.len icc >? 0), (PM.len alpha >? 0), (PM.len exif >? 0), (PM.len xmp >? 0); repeat split; reflexivity.
  - pose proof (WriterTheorems.sizes_ok_simple _ _ _ _ _ Hs) as Hl.
    rewrite ParserProofs.write_simple_eq in Hw by exact Hl. injection Hw as <-.
    rewrite (WriterTheorems.riff_chunks_simple _ _ Hf Hl).
    destruct (WriterTheorems.not_extended_empty _ _ _ _ Ext) as (Ha & _).
    unfold MP.opt_blob. rewrite Ha. repeat split; reflexivity.
Qed.

(** ** The theorem *)
Definition yuv_of (p : Vp8Filter.planes) : list Z * list Z * list Z :=
  (concat (Vp8Filter.pl_y p), concat (Vp8Filter.pl_u p), concat (Vp8Filter.pl_v p)).

Definition lossy_file_conformant_statement : Prop :=
  forall s bs alpha plane icc exif xmp file,
    let w := Vp8Syntax.fh_w (FR.fs_hdr s) in
    let h := Vp8Syntax.fh_h (FR.fs_hdr s) in
    FR.wf_frame_syn VS.rfc_quirks s -> FR.emit_key_frame VS.rfc_quirks s = Ok bs ->
    bytes_ok alpha -> (PM.len alpha > 0 -> CF.alpha_decode alpha w h = Ok plane) ->
    MP.sizes_ok bs alpha icc exif xmp ->
    bytes_ok icc -> bytes_ok exif -> bytes_ok xmp ->
    WriterModel.write_riff PM.FourCCVP8 bs alpha w h icc exif xmp = Ok file ->
    G.wf file = true /\
    exists rep r, CF.analyse file = Ok rep /\ VS.decode bs = Ok r /\
      CF.r_wf rep = true /\ CF.r_lossless rep = false /\
      CF.r_w rep = w /\ CF.r_h rep = h /\
      CF.r_alpha rep = (PM.len alpha >? 0) /\
      CF.r_aplane rep = (if PM.len alpha >? 0 then Some plane else None) /\
      0 <= CF.r_part0 rep < 2^19 /\
      VS.dc_filtered r = snd (FR.reconstruct VS.rfc_quirks s) /\
      VS.dc_past_end r = false /\
      CF.r_yuv rep = Some (yuv_of (snd (FR.reconstruct VS.rfc_quirks s))).

Theorem lossy_file_conformant : lossy_file_conformant_statement.
Proof.
  intros s bs alpha plane icc exif xmp file w h Hwf Hemit Hal Hdec Hs Hic Hex Hxm Hw.
  destruct (FR.vp8_emit_decode_full _ _ _ Hwf Hemit) as (r & Hr & Hrw & Hrh & _ & _ & Hrf & Hpe).
  fold w in Hrw. fold h in Hrh.
  destruct Hwf as (_ & Hwr & Hhr & _ & _ & _ & _ & Hok0 & Hoks). fold w in Hwr. fold h in Hhr.
  (* the frame bytes *)
  unfold FR.emit_key_frame in Hemit. destruct (FR.frame_syms VS.rfc_quirks s) as [s0 sps].
  cbn [fst snd] in Hok0, Hoks. fold w h in Hemit.
  set (part0 := BE.bool_encode s0) in *. set (parts := map BE.bool_encode sps) in *.
  unfold CH.emit_frame in Hemit.
  destruct (Z.leb_spec (2^19) (CH.len part0)) as [|Hp0]; [discriminate|].
  destruct (CH.sized_parts_ok parts); cbn [negb] in Hemit; [|discriminate].
  injection Hemit as Hbs. symmetry in Hbs.
  assert (Hpb : bytes_ok part0) by (apply bool_encode_bytes; exact Hok0).
  assert (Hpsb : Forall bytes_ok parts).
  { unfold parts. apply Forall_forall. intros x Hx. apply in_map_iff in Hx. destruct Hx as (y & <- & Hy).
    apply bool_encode_bytes. rewrite Forall_forall in Hoks. apply Hoks. exact Hy. }
  assert (Hbsb : bytes_ok bs) by (rewrite Hbs; apply assemble_bytes; assumption).
  assert (Hph : PM.parse_vp8_header bs = Ok (w, h)) by (rewrite Hbs; apply parse_vp8_header_assemble; assumption).
  assert (Hch : CH.parse_hdr bs = Ok (CH.mk_hdr true 0 true (CH.len part0) w 0 h 0,
                                      part0 ++ CH.size_table parts ++ concat parts))
    by (rewrite Hbs; apply parse_hdr_assemble; assumption).
  (* the container *)
  assert (Hin : WriterTheorems.writer_inputs_ok PM.FourCCVP8 bs alpha w h icc exif xmp false).
  { constructor.
    - left. reflexivity.
    - unfold MP.header_declares, PS.image_dims.
      change (PM.FourCCVP8 =? PM.FourCCVP8L) with false. rewrite Z.eqb_refl, Hph. reflexivity.
    - intros _. reflexivity.
    - exact Hs. }
  destruct (WriterTheorems.metadata_roundtrip _ _ _ _ _ _ _ _ _ Hin)
    as (file' & Hw' & _ & _ & _ & _ & _ & Hrwf & _).
  rewrite Hw in Hw'. injection Hw' as <-.
  destruct (lossy_chunks _ _ _ _ _ _ _ _ Hs Hw) as (HgL & Hg8 & HgA).
  assert (Hfb : bytes_ok file).
  { apply (PG.write_riff_bytes_ok _ _ _ _ _ _ _ _ _ Hbsb Hal Hic Hex Hxm
             (WriterTheorems.sizes_ok_simple _ _ _ _ _ Hs) Hw). }
  assert (Hg : G.wf file = true) by (apply PG.riff_wf_grammar; assumption).
  split; [exact Hg|].
  unfold PS.spec_get_chunk in HgL, Hg8, HgA.
  destruct (PS.riff_chunks file) as [cs|] eqn:Erc; [|discriminate].
  destruct (ParserSpecProofs.riff_chunks_inv _ _ Hfb Erc) as (body & Hfile & Hwalk & Hbody & _).
  pose proof (PG.chunks_of_walk _ _ _ Hbody Hwalk eq_refl) as Hcs.
  pose proof (PG.walk_ids_ok _ _ _ Hbody Hwalk) as Hids.
  destruct PG.tag_consts as (_ & _ & TV8 & TV8L & _ & TA & _).
  assert (FL : CF.find_chunk G.T_VP8L (map PG.conv cs) = None).
  { rewrite <- TV8L, E2E.find_chunk_conv; [exact HgL| |exact Hids]. vm_compute. split; [discriminate|reflexivity]. }
  assert (F8 : CF.find_chunk G.T_VP8 (map PG.conv cs) = Some bs).
  { rewrite <- TV8, E2E.find_chunk_conv; [exact Hg8| |exact Hids]. vm_compute. split; [discriminate|reflexivity]. }
  assert (FA : CF.find_chunk G.T_ALPH (map PG.conv cs) = MP.opt_blob alpha).
  { rewrite <- TA, E2E.find_chunk_conv; [exact HgA| |exact Hids]. vm_compute. split; [discriminate|reflexivity]. }
  assert (Hsk : skipn 12 file = body) by (rewrite Hfile; apply E2E.skipn12_file).
  assert (Hyuv : CF.yuv_spec bs w h = if VS.dc_past_end r then None else Some (yuv_of (VS.dc_filtered r))).
  { unfold CF.yuv_spec, VS.decode_yuv, VS.decode. rewrite Hr. cbn [bind].
    destruct (VS.dc_past_end r); [reflexivity|]. rewrite Hrw, Hrh, !Z.eqb_refl. reflexivity. }
  pose proof (CH.len_nonneg part0) as Hl0.
  exists (CF.mkreport true false w h (PM.len alpha >? 0)
            (match map PG.conv cs with (t, _) :: _ => G.bytes_eqb t G.T_VP8X | [] => false end)
            None (if PM.len alpha >? 0 then Some plane else None) (CH.len part0)
            (if VS.dc_past_end r then None else Some (yuv_of (VS.dc_filtered r)))), r.
  split.
  - unfold CF.analyse. cbv zeta. rewrite Hg, Hsk, Hcs, FL, F8, Hch.
    cbn [CH.h_key CH.h_show CH.h_profile CH.h_xscale CH.h_yscale CH.h_part0_len CH.h_width CH.h_height].
    assert (Hle : (CH.len part0 <=? CH.len (part0 ++ CH.size_table parts ++ concat parts)) = true).
    { rewrite CH.len_app. pose proof (CH.len_nonneg (CH.size_table parts ++ concat parts)). lia. }
    rewrite Hle. cbn [andb negb Z.leb Z.eqb]. rewrite FA, Hyuv.
    unfold MP.opt_blob. destruct (Z.gtb_spec (PM.len alpha) 0) as [Hpos|Hz]; [|reflexivity].
    rewrite (Hdec ltac:(lia)). reflexivity.
  - split; [exact Hr|]. cbn [CF.r_wf CF.r_lossless CF.r_w CF.r_h CF.r_alpha CF.r_aplane CF.r_part0 CF.r_yuv].
    rewrite Hpe, Hrf. repeat split; try reflexivity; try lia.
Qed.

(** ** With the ALPH chunk the encoder writes at AlphaQuality 100 (lossless coding)

    The ALPH hypothesis of [lossy_file_conformant] discharged by
    ConformAlpha.alpha_lossless_chunk_exact: for every alpha plane [rs], every
    prediction filter and every well-formed plan of the lossless coder for the
    filtered plane, the analysed file reports exactly the plane that was given. *)
From Webp Require Alpha.AlphaModel Alpha.AlphaProofs Vp8l.Vp8lEmit Vp8l.Vp8lEmitDecode Conform.ConformAlpha.

Lemma skipn_bytes n l : bytes_ok l -> bytes_ok (skipn n l).
Proof.
  revert l. induction n as [|n IH]; intros l H; [exact H|].
  destruct l as [|x tl]; [constructor|]. cbn [skipn]. apply IH. exact (Forall_inv_tail H).
Qed.

Definition lossy_alpha_file_conformant_statement : Prop :=
  forall s bs rs filter r16 p icc exif xmp file,
    let w := Vp8Syntax.fh_w (FR.fs_hdr s) in
    let h := Vp8Syntax.fh_h (FR.fs_hdr s) in
    let alpha := (1 + 4 * filter + r16) :: skipn 5 (Vp8lEmit.emit p) in
    FR.wf_frame_syn VS.rfc_quirks s -> FR.emit_key_frame VS.rfc_quirks s = Ok bs ->
    AlphaProofs.wf_plane (Z.to_nat w) rs -> Z.of_nat (length rs) = h -> 0 <= filter <= 3 ->
    (r16 = 0 \/ r16 = 16) ->
    Vp8lEmitDecode.wf_plan p -> Vp8lEmit.p_alpha p = 0 -> Vp8lEmit.p_w p = w -> Vp8lEmit.p_h p = h ->
    ConformAlpha.green_of p = concat (AlphaModel.apply_filter filter rs) ->
    MP.sizes_ok bs alpha icc exif xmp ->
    bytes_ok icc -> bytes_ok exif -> bytes_ok xmp ->
    WriterModel.write_riff PM.FourCCVP8 bs alpha w h icc exif xmp = Ok file ->
    G.wf file = true /\
    exists rep, CF.analyse file = Ok rep /\
      CF.r_wf rep = true /\ CF.r_lossless rep = false /\ CF.r_w rep = w /\ CF.r_h rep = h /\
      CF.r_alpha rep = true /\ CF.r_aplane rep = Some (concat rs).

Theorem lossy_alpha_file_conformant : lossy_alpha_file_conformant_statement.
Proof.
  intros s bs rs filter r16 p icc exif xmp file w h alpha Hwf Hemit Hpl Hlen Hf Hr Hp Ha Hpw Hph Hg Hs Hic Hex Hxm Hw.
  pose proof Hwf as (_ & Hwr & Hhr & _). fold w in Hwr. fold h in Hhr.
  assert (Hdec : CF.alpha_decode alpha w h = Ok (concat rs)).
  { apply (ConformAlpha.alpha_lossless_chunk_exact rs w h filter r16 p); try assumption; try lia.
    change (2^30) with 1073741824. nia. }
  assert (Hab : bytes_ok alpha).
  { unfold alpha. constructor; [unfold is_byte; destruct Hr; subst; lia|].
    apply skipn_bytes. apply E2E.emit_bytes_ok. }
  assert (Hpos : PM.len alpha > 0).
  { unfold alpha, PM.len. cbn [length]. lia. }
  destruct (lossy_file_conformant s bs alpha (concat rs) icc exif xmp file Hwf Hemit Hab (fun _ => Hdec) Hs Hic Hex Hxm Hw)
    as (Hg' & rep & r & Han & _ & R1 & R2 & R3 & R4 & R5 & R6 & _).
  split; [exact Hg'|]. exists rep. split; [exact Han|].
  fold w in R3. fold h in R4.
  destruct (Z.gtb_spec (PM.len alpha) 0) as [_|Hn]; [|lia].
  repeat split; assumption.
Qed.
