(** C02 end to end, lossless: for EVERY source picture, EVERY option and EVERY
    admissible set of choices of the lossless encoder (its heuristics are
    choices: transforms, code lengths, tokens, colour cache, meta image), and
    every ICC / EXIF / XMP blob within the writer's size guard, the file that the
    container writer model produces around the emitted VP8L stream
      - is accepted by the independent container grammar (RiffGrammar.wf), and
      - is analysed by the independent format models (Conform.ConformFile.analyse:
        RiffGrammar chunk walk + VP8L specification decoder) to a report with the
        source's dimensions, the alpha bit the encoder chose and exactly the
        pixels the round trip must return.
    Composition of Vp8lRoundtrip.lossless_roundtrip (C01/C03), the header bytes
    of an emitted stream, WriterTheorems.metadata_roundtrip (C15) and the
    ParserSpec -> RiffGrammar bridge (ParserGrammar). *)
From Coq Require Import List ZArith Lia Bool.
From Coq Require Import ZifyBool ZifyNat.
From Webp Require Import Base.Res Base.Bytes.
From Webp Require Riff.RiffGrammar Riff.ParserModel Riff.ParserSpec Riff.ParserSpecProofs
  Riff.WriterModel Riff.MetadataProofs Riff.WriterTheorems Riff.ParserGrammar Riff.FeaturesAlphaLossless.
From Webp Require Vp8l.Vp8lPixel Vp8l.Vp8lSpec Vp8l.Vp8lPrefix Vp8l.Vp8lEmit Vp8l.Vp8lEmitDecode Vp8l.Vp8lRoundtrip.
From Webp Require Conform.ConformFile.
Import ListNotations.
Open Scope Z_scope.

Module G := RiffGrammar.
Module PS := ParserSpec.
Module PG := ParserGrammar.
Module R := Vp8lRoundtrip.
Module CF := ConformFile.

(** ** The emitted stream is a byte string *)
Lemma bits_value_bound l : 0 <= Vp8lPrefix.bits_value l < 2 ^ Z.of_nat (length l).
Proof.
  induction l as [|b tl IH]; [cbn; lia|].
  cbn [Vp8lPrefix.bits_value length]. rewrite Nat2Z.inj_succ, Z.pow_succ_r by lia.
  destruct b; lia.
Qed.

Lemma bytes_of_bits_fuel_ok fuel s : bytes_ok (Vp8lPrefix.bytes_of_bits_fuel fuel s).
Proof.
  revert s. induction fuel as [|f IH]; intros s; [constructor|].
  cbn [Vp8lPrefix.bytes_of_bits_fuel]. destruct s as [|b tl]; [constructor|].
  constructor; [|apply IH].
  pose proof (bits_value_bound (firstn 8 (b :: tl))) as Hb.
  pose proof (firstn_le_length 8 (b :: tl)) as Hl.
  assert (2 ^ Z.of_nat (length (firstn 8 (b :: tl))) <= 2 ^ 8) by (apply Z.pow_le_mono_r; lia).
  unfold is_byte. lia.
Qed.

Lemma emit_bytes_ok p : bytes_ok (Vp8lEmit.emit p).
Proof.
  unfold Vp8lEmit.emit. constructor; [unfold is_byte; lia|]. apply bytes_of_bits_fuel_ok.
Qed.

(** ** Chunk lookup: ParserSpec (ids) vs ConformFile (tags) *)
Lemma find_chunk_conv id cs :
  0 <= id < 4294967296 -> PG.ids_ok cs ->
  CF.find_chunk (le32 id) (map PG.conv cs) = PS.find_chunk id cs.
Proof.
  intros Hid Hids. induction cs as [|[i d] tl IH]; [reflexivity|].
  inversion Hids as [|? ? [Hi _] Htl]; subst. cbn [fst] in Hi.
  cbn [map PG.conv fst snd CF.find_chunk PS.find_chunk].
  rewrite PG.tag_eqb by assumption. destruct (i =? id); [reflexivity|]. apply IH. exact Htl.
Qed.

Lemma skipn12_file v body :
  skipn 12 (le32 ParserModel.FourCCRIFF ++ le32 v ++ le32 ParserModel.FourCCWEBP ++ body) = body.
Proof. unfold le32. reflexivity. Qed.

(** ** The theorem *)
Definition lossless_file_conformant_statement : Prop :=
  forall img o c icc exif xmp file,
    R.valid img o c ->
    MetadataProofs.sizes_ok (Vp8lEmit.emit (R.plan_of img o c)) [] icc exif xmp ->
    bytes_ok icc -> bytes_ok exif -> bytes_ok xmp ->
    WriterModel.write_riff ParserModel.FourCCVP8L (Vp8lEmit.emit (R.plan_of img o c)) []
                           (R.s_w img) (R.s_h img) icc exif xmp = Ok file ->
    G.wf file = true /\
    exists rep, CF.analyse file = Ok rep /\
      CF.r_wf rep = true /\ CF.r_lossless rep = true /\
      CF.r_w rep = R.s_w img /\ CF.r_h rep = R.s_h img /\
      CF.r_alpha rep = (R.c_alpha c =? 1) /\
      CF.r_rgba rep = Some (Vp8lSpec.i_px (R.expected img o)).

Theorem lossless_file_conformant : lossless_file_conformant_statement.
Proof.
  intros img o c icc exif xmp file Hv Hs Hic Hex Hxm Hw.
  pose proof (R.lossless_roundtrip img o c Hv) as Hrt.
  destruct Hv as (Hwf & _).
  pose proof (FeaturesAlphaLossless.emit_header_parsed _ Hwf) as Hhdr.
  cbn [R.plan_of Vp8lEmit.p_w Vp8lEmit.p_h Vp8lEmit.p_alpha] in Hhdr.
  set (bs := Vp8lEmit.emit (R.plan_of img o c)) in *.
  set (a := R.c_alpha c =? 1) in *.
  assert (Hbs : bytes_ok bs) by apply emit_bytes_ok.
  assert (Hin : WriterTheorems.writer_inputs_ok ParserModel.FourCCVP8L bs [] (R.s_w img) (R.s_h img) icc exif xmp a).
  { constructor.
    - right. reflexivity.
    - unfold MetadataProofs.header_declares, PS.image_dims. rewrite Z.eqb_refl, Hhdr. reflexivity.
    - intros H. cbn in H. lia.
    - exact Hs. }
  destruct (WriterTheorems.metadata_roundtrip _ _ _ _ _ _ _ _ _ Hin)
    as (file' & Hw' & _ & _ & _ & _ & Hget & Hrwf & _).
  rewrite Hw in Hw'. injection Hw' as <-.
  assert (Hfb : bytes_ok file).
  { apply (PG.write_riff_bytes_ok _ _ _ _ _ _ _ _ _ Hbs (Forall_nil _) Hic Hex Hxm
             (WriterTheorems.sizes_ok_simple _ _ _ _ _ Hs) Hw). }
  assert (Hg : G.wf file = true) by (apply PG.riff_wf_grammar; assumption).
  split; [exact Hg|].
  (* the chunk list *)
  unfold PS.riff_wf in Hrwf. apply andb_true_iff in Hrwf. destruct Hrwf as [_ Hlay].
  unfold PS.spec_get_chunk in Hget.
  destruct (PS.riff_chunks file) as [cs|] eqn:Erc; [|discriminate].
  destruct (ParserSpecProofs.riff_chunks_inv _ _ Hfb Erc) as (body & Hfile & Hwalk & Hbody & _).
  pose proof (PG.chunks_of_walk _ _ _ Hbody Hwalk eq_refl) as Hch.
  pose proof (PG.walk_ids_ok _ _ _ Hbody Hwalk) as Hids.
  assert (Hfind : CF.find_chunk G.T_VP8L (map PG.conv cs) = Some bs).
  { destruct PG.tag_consts as (_ & _ & _ & TV8L & _). rewrite <- TV8L.
    rewrite find_chunk_conv; [exact Hget| |exact Hids]. vm_compute. split; [discriminate|reflexivity]. }
  assert (Hgh : G.vp8l_header bs = Some (R.s_w img, R.s_h img, a)).
  { apply (proj1 (PG.vp8l_header_bridge _ _ _ _ Hbs)). exact Hhdr. }
  assert (Hsk : skipn 12 file = body) by (rewrite Hfile; apply skipn12_file).
  unfold CF.analyse. cbv zeta. rewrite Hg, Hsk, Hch, Hfind, Hrt, Hgh.
  eexists. split; [reflexivity|].
  cbn [CF.r_wf CF.r_lossless CF.r_w CF.r_h CF.r_alpha CF.r_rgba R.expected Vp8lSpec.i_w Vp8lSpec.i_h Vp8lSpec.i_px].
  rewrite !Z.eqb_refl. cbn [andb]. repeat split; reflexivity.
Qed.
