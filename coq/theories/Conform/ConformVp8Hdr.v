(** The fixed-width fields of a VP8 key frame as written by the encoder
    (internal/lossy/encode_syntax.go emitFrame/assembleFrame) and as read back by a
    decoder following RFC 6386 §9.1/§9.2/§9.5: 3-byte frame tag with the 19-bit
    partition-0 length, 7-byte picture header with 14-bit dimensions, the
    (N-1)x3-byte token-partition size table.  Partition contents are opaque byte
    strings here. *)
From Coq Require Import List ZArith Lia Bool ZifyBool.
From Webp Require Import Base.Res Base.Bytes.
Import ListNotations.
Open Scope Z_scope.

Ltac Zify.zify_post_hook ::= Z.div_mod_to_equations.

Definition len {A} (l : list A) : Z := Z.of_nat (length l).

(* uint32(tag) low three bytes: keyframe=0, profile=0 (bits 1-3), show=1 (bit 4), length<<5 *)
Definition frame_tag (part0_len : Z) : list Z :=
  let tag := (16 + part0_len * 32) mod 2^32 in
  [tag mod 256; (tag / 256) mod 256; (tag / 65536) mod 256].

(* signature + uint16(width & 0x3FFF) + uint16(height & 0x3FFF) *)
Definition pic_header (w h : Z) : list Z :=
  [157; 1; 42] ++ le16 (w mod 16384) ++ le16 (h mod 16384).

Definition size3 (sz : Z) : list Z := [sz mod 256; (sz / 256) mod 256; (sz / 65536) mod 256].

(* sizes of all partitions but the last *)
Fixpoint size_table (parts : list (list Z)) : list Z :=
  match parts with
  | [] => []
  | [_] => []
  | p :: tl => size3 (len p) ++ size_table tl
  end.

(* assembleFrame *)
Definition assemble (w h : Z) (part0 : list Z) (parts : list (list Z)) : list Z :=
  frame_tag (len part0) ++ pic_header w h ++ part0 ++ size_table parts ++ concat parts.

Fixpoint sized_parts_ok (parts : list (list Z)) : bool :=
  match parts with
  | [] => true
  | [_] => true
  | p :: tl => (len p <? 2^24) && sized_parts_ok tl
  end.

(* emitFrame after the fix: an error instead of a truncated size field *)
Definition emit_frame (w h : Z) (part0 : list Z) (parts : list (list Z)) : Res (list Z) :=
  if 2^19 <=? len part0 then Err 1
  else if negb (sized_parts_ok parts) then Err 2
  else Ok (assemble w h part0 parts).

(* the pinned (pre-fix) behaviour: no check at all *)
Definition pinned_emit_frame (w h : Z) (part0 : list Z) (parts : list (list Z)) : Res (list Z) :=
  Ok (assemble w h part0 parts).

(* ---------------- reader (RFC 6386 §9.1, §9.2, §9.5) ---------------- *)
Record vp8_hdr := mk_hdr {
  h_key : bool; h_profile : Z; h_show : bool; h_part0_len : Z;
  h_width : Z; h_xscale : Z; h_height : Z; h_yscale : Z
}.

Definition parse_hdr (bs : list Z) : Res (vp8_hdr * list Z) :=
  match bs with
  | b0 :: b1 :: b2 :: s0 :: s1 :: s2 :: w0 :: w1 :: h0 :: h1 :: rest =>
      let bits := b0 + 256 * b1 + 65536 * b2 in
      if negb ((s0 =? 157) && (s1 =? 1) && (s2 =? 42)) then Err 3 else
      Ok (mk_hdr (bits mod 2 =? 0) ((bits / 2) mod 8) ((bits / 16) mod 2 =? 1) (bits / 32)
                 ((w0 + 256 * w1) mod 16384) (w1 / 64) ((h0 + 256 * h1) mod 16384) (h1 / 64),
          rest)
  | _ => Err 4
  end.

Definition take (n : Z) (l : list Z) : list Z := firstn (Z.to_nat n) l.
Definition drop (n : Z) (l : list Z) : list Z := skipn (Z.to_nat n) l.

(* split [n] sized partitions off [data] using the size table [tbl]; the last
   partition takes what is left *)
Fixpoint split_parts (n : nat) (tbl data : list Z) : Res (list (list Z)) :=
  match n with
  | O => Ok [data]
  | S k =>
      match tbl with
      | a :: b :: c :: tbl' =>
          let sz := a + 256 * b + 65536 * c in
          if len data <? sz then Err 5 else
          rest <- split_parts k tbl' (drop sz data) ;;
          Ok (take sz data :: rest)
      | _ => Err 6
      end
  end.

(* whole frame -> header, partition 0, token partitions (nparts known from
   partition 0's 2-bit field; here a parameter) *)
Definition parse_frame (nparts : nat) (bs : list Z) : Res (vp8_hdr * list Z * list (list Z)) :=
  '(hd, rest) <- parse_hdr bs ;;
  if len rest <? h_part0_len hd then Err 7 else
  let part0 := take (h_part0_len hd) rest in
  let after := drop (h_part0_len hd) rest in
  match nparts with
  | O => Err 8
  | S k =>
      if len after <? 3 * Z.of_nat k then Err 9 else
      parts <- split_parts k (take (3 * Z.of_nat k) after) (drop (3 * Z.of_nat k) after) ;;
      Ok (hd, part0, parts)
  end.

(* ------------------------------------------------------------------ *)

Lemma size3_read sz tl : 0 <= sz < 2^24 ->
  match size3 sz ++ tl with a :: b :: c :: _ => a + 256 * b + 65536 * c | _ => -1 end = sz.
Proof. intros H. unfold size3. cbn [app]. change (2^24) with 16777216 in H. lia. Qed.

Lemma take_app (a b : list Z) : take (len a) (a ++ b) = a.
Proof. unfold take, len. rewrite Nat2Z.id. apply firstn_app_exact. Qed.

Lemma drop_app (a b : list Z) : drop (len a) (a ++ b) = b.
Proof. unfold drop, len. rewrite Nat2Z.id. apply skipn_app_exact. Qed.

Lemma len_app {A} (a b : list A) : len (a ++ b) = len a + len b.
Proof. unfold len. rewrite app_length. lia. Qed.

Lemma len_nonneg {A} (l : list A) : 0 <= len l.
Proof. unfold len. lia. Qed.

Lemma size_table_len parts : parts <> [] -> len (size_table parts) = 3 * (len parts - 1).
Proof.
  induction parts as [|p tl IH]; intros Hne; [congruence|].
  destruct tl as [|q tl']; [reflexivity|].
  change (size_table (p :: q :: tl')) with (size3 (len p) ++ size_table (q :: tl')).
  rewrite len_app, IH by discriminate. unfold len, size3; cbn [length]. lia.
Qed.

Lemma split_parts_ok parts : forall tl,
  parts <> [] -> sized_parts_ok parts = true ->
  split_parts (length parts - 1) (size_table parts ++ tl) (concat parts) = Ok parts.
Proof.
  induction parts as [|p rest IH]; intros tl Hne Hok; [congruence|].
  destruct rest as [|q rest'].
  - cbn. rewrite app_nil_r. reflexivity.
  - change (size_table (p :: q :: rest')) with (size3 (len p) ++ size_table (q :: rest')).
    cbn [sized_parts_ok] in Hok. apply andb_prop in Hok as [Hp Hrest].
    replace (length (p :: q :: rest') - 1)%nat with (S (length (q :: rest') - 1)) by (cbn; lia).
    cbn [split_parts]. rewrite <- app_assoc.
    assert (Hsz : 0 <= len p < 2^24) by (pose proof (len_nonneg p); lia).
    unfold size3 at 1. cbn [app].
    replace (len p mod 256 + 256 * ((len p / 256) mod 256) + 65536 * ((len p / 65536) mod 256)) with (len p)
      by (change (2^24) with 16777216 in Hsz; lia).
    change (concat (p :: q :: rest')) with (p ++ concat (q :: rest')). rewrite len_app.
    destruct (Z.ltb_spec (len p + len (concat (q :: rest'))) (len p)); [pose proof (len_nonneg (concat (q :: rest'))); lia|].
    rewrite drop_app, take_app.
    rewrite (IH tl ltac:(discriminate) Hrest). reflexivity.
Qed.

Lemma tag_fields n : 0 <= n < 2^19 ->
  let tag := 16 + n * 32 in
  (tag mod 2^32 = tag) /\
  (tag mod 256 + 256 * ((tag / 256) mod 256) + 65536 * ((tag / 65536) mod 256) = tag) /\
  (tag mod 2 = 0) /\ ((tag / 2) mod 8 = 0) /\ ((tag / 16) mod 2 = 1) /\ (tag / 32 = n).
Proof.
  intros Hn tag. unfold tag. change (2^19) with 524288 in Hn. change (2^32) with 4294967296.
  repeat split; lia.
Qed.

Lemma dim_fields w : 1 <= w < 16384 ->
  ((w mod 16384) mod 256 + 256 * (((w mod 16384) / 256) mod 256)) mod 16384 = w /\
  (((w mod 16384) / 256) mod 256) / 64 = 0.
Proof. intros Hw. rewrite (Z.mod_small w 16384) by lia. split; lia. Qed.

(** What is written is what a reader gets back: header fields, partition 0 and
    every token partition, byte for byte — for every size the guard lets through. *)
Theorem emit_parse_roundtrip w h part0 parts bs :
  1 <= w < 16384 -> 1 <= h < 16384 -> parts <> [] ->
  emit_frame w h part0 parts = Ok bs ->
  parse_frame (length parts) bs =
    Ok (mk_hdr true 0 true (len part0) w 0 h 0, part0, parts).
Proof.
  intros Hw Hh Hne. unfold emit_frame.
  destruct (Z.leb_spec (2^19) (len part0)) as [|Hp0]; [discriminate|].
  destruct (sized_parts_ok parts) eqn:Hok; cbn [negb]; [|discriminate].
  intros [= <-]. unfold assemble, parse_frame.
  assert (Hl0 := len_nonneg part0).
  destruct (tag_fields (len part0) (conj Hl0 Hp0)) as (T0 & T1 & T2 & T3 & T4 & T5).
  destruct (dim_fields w Hw) as [W1 W2]. destruct (dim_fields h Hh) as [H1 H2].
  clear Hw Hh Hp0 Hl0.
  unfold frame_tag, pic_header, le16. cbn [app parse_hdr].
  rewrite T0, T1, T2, T3, T4, T5, W1, W2, H1, H2.
  cbn [Z.eqb Pos.eqb andb negb bind h_part0_len].
  rewrite len_app.
  destruct (Z.ltb_spec (len part0 + len (size_table parts ++ concat parts)) (len part0));
    [pose proof (len_nonneg (size_table parts ++ concat parts)); lia|].
  rewrite take_app, drop_app.
  destruct parts as [|p0 ptl] eqn:Ep; [congruence|]. rewrite <- Ep in *.
  replace (length parts) with (S (length parts - 1)) by (rewrite Ep; cbn; lia).
  assert (Htl : len (size_table parts) = 3 * Z.of_nat (length parts - 1)).
  { rewrite size_table_len by congruence. unfold len. rewrite Ep. cbn [length]. lia. }
  rewrite len_app, Htl.
  destruct (Z.ltb_spec (3 * Z.of_nat (length parts - 1) + len (concat parts)) (3 * Z.of_nat (length parts - 1)));
    [pose proof (len_nonneg (concat parts)); lia|].
  rewrite <- Htl, take_app, drop_app.
  rewrite <- (app_nil_r (size_table parts)).
  rewrite (split_parts_ok parts [] ltac:(congruence) Hok). reflexivity.
Qed.

(** The guard is exact: it refuses precisely the sizes the fields cannot hold. *)
Theorem emit_frame_guard_exact w h part0 parts :
  (exists bs, emit_frame w h part0 parts = Ok bs) <->
  (len part0 < 2^19 /\ sized_parts_ok parts = true).
Proof.
  unfold emit_frame. destruct (Z.leb_spec (2^19) (len part0)).
  - split; [intros [bs Hb]; discriminate|intros [Hc _]; lia].
  - destruct (sized_parts_ok parts); cbn [negb].
    + split; [intros _; split; [assumption|reflexivity]|intros _; eauto].
    + split; [intros [bs Hb]; discriminate|intros [_ Hc]; discriminate].
Qed.

Theorem emit_frame_total w h part0 parts : emit_frame w h part0 parts <> Panic.
Proof.
  unfold emit_frame. destruct (2^19 <=? len part0); [discriminate|].
  destruct (negb (sized_parts_ok parts)); discriminate.
Qed.

(** The pinned code wrote a frame whose header lies about partition 0 as soon as
    it reaches 2^19 bytes: the tag is 10 00 00, i.e. the reader sees length 0. *)
Theorem pinned_emit_truncates_part0 : forall w h part0 parts bs,
  len part0 = 2^19 -> pinned_emit_frame w h part0 parts = Ok bs -> firstn 3 bs = [16; 0; 0].
Proof.
  intros w h part0 parts bs Hl [= <-]. unfold assemble, frame_tag. rewrite Hl.
  cbn [app firstn]. reflexivity.
Qed.

(** Non-vacuity: a two-partition frame round-trips. *)
Example conform_example :
  parse_frame 2 (match emit_frame 17 33 [1; 2; 3] [[4; 5]; [6]] with Ok b => b | _ => [] end)
  = Ok (mk_hdr true 0 true 3 17 0 33 0, [1; 2; 3], [[4; 5]; [6]]).
Proof. vm_compute. reflexivity. Qed.

(* ------------------------------------------------------------------ *)
(** VP8L stream header (5 bytes): signature 0x2f, then 14-bit width-1, 14-bit
    height-1, alpha-is-used bit, 3-bit version, LSB first — as written by
    lossless encodeStream through the bit writer and as alphaVP8LStream rebuilds
    it for ALPH payloads. *)
Definition vp8l_header (w h : Z) (alpha : bool) : list Z :=
  47 :: le32 ((w - 1) + (h - 1) * 16384 + (if alpha then 268435456 else 0)).

Definition parse_vp8l_header (bs : list Z) : Res (Z * Z * bool * Z) :=
  match bs with
  | sig :: b0 :: b1 :: b2 :: b3 :: _ =>
      if negb (sig =? 47) then Err 1 else
      let v := b0 + 256 * b1 + 65536 * b2 + 16777216 * b3 in
      Ok (v mod 16384 + 1, (v / 16384) mod 16384 + 1, (v / 268435456) mod 2 =? 1, v / 536870912)
  | _ => Err 2
  end.

Theorem vp8l_header_roundtrip w h alpha tl :
  1 <= w <= 16384 -> 1 <= h <= 16384 ->
  parse_vp8l_header (vp8l_header w h alpha ++ tl) = Ok (w, h, alpha, 0).
Proof.
  intros Hw Hh. unfold vp8l_header, parse_vp8l_header, le32. cbn [app].
  set (v := w - 1 + (h - 1) * 16384 + (if alpha then 268435456 else 0)).
  assert (Hv : 0 <= v < 536870912) by (unfold v; destruct alpha; lia).
  cbn [Z.eqb Pos.eqb negb].
  replace (v mod 256 + 256 * ((v / 256) mod 256) + 65536 * ((v / 65536) mod 256) +
           16777216 * ((v / 16777216) mod 256)) with v by lia.
  assert (H1 : v mod 16384 + 1 = w) by (unfold v; destruct alpha; lia).
  assert (H2 : (v / 16384) mod 16384 + 1 = h) by (unfold v; destruct alpha; lia).
  assert (H3 : ((v / 268435456) mod 2 =? 1) = alpha).
  { unfold v. destruct alpha; [apply Z.eqb_eq|apply Z.eqb_neq]; lia. }
  assert (H4 : v / 536870912 = 0) by lia.
  rewrite H1, H2, H3, H4. reflexivity.
Qed.
