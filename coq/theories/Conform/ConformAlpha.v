(** The ALPH chunk round trip with its lossless-coder parameter instantiated by
    the VP8L specification decoder and the VP8L emitter: for every plane, every
    prediction filter and EVERY well-formed plan the lossless encoder may choose
    for the green-channel image of the filtered plane (its heuristics are
    choices), the ALPH chunk whose payload is that stream minus its 5-byte header
    decodes — through DecodeAlpha's rebuilt header and the VP8L specification
    decoder — to exactly the plane that was given.  This composes C07
    (Alpha/AlphaProofs) with C03's [emit_decode]. *)
From Coq Require Import List ZArith Lia Bool.
From Webp Require Import Base.Res Base.Bytes Alpha.AlphaModel Alpha.AlphaProofs
  Vp8l.Vp8lPixel Vp8l.Vp8lSpec Vp8l.Vp8lEmit Vp8l.Vp8lEmitDecode Vp8l.Vp8lHeaderBytes
  Conform.ConformVp8Hdr Conform.ConformFile.
Import ListNotations.
Open Scope Z_scope.

(** The green channel of the picture a plan denotes. *)
Definition green_of (p : plan) : list Z := map pg (i_px (sem p)).

Lemma ldec_spec_emit p w h :
  wf_plan p -> p_alpha p = 0 -> p_w p = w -> p_h p = h ->
  ldec_spec w h (skipn 5 (emit p)) = Some (green_of p).
Proof.
  intros Hwf Ha Hw Hh. unfold ldec_spec, ConformVp8Hdr.vp8l_header.
  replace (w - 1 + (h - 1) * 16384 + (if false then 268435456 else 0))
    with (w - 1 + (h - 1) * 16384) by (cbn; lia).
  change ((47 :: le32 (w - 1 + (h - 1) * 16384)) ++ skipn 5 (emit p))
    with (47 :: le32 (w - 1 + (h - 1) * 16384) ++ skipn 5 (emit p)).
  rewrite (decode_rebuilt_header p w h Hwf Ha Hw Hh).
  assert (Ew : i_w (sem p) = w) by (unfold sem; destruct (sem_transforms _ _ _); cbn; exact Hw).
  assert (Eh : i_h (sem p) = h) by (unfold sem; destruct (sem_transforms _ _ _); cbn; exact Hh).
  rewrite Ew, Eh, !Z.eqb_refl. reflexivity.
Qed.

(** ALPH chunk with lossless compression, any filter, any plan of the encoder. *)
Theorem alpha_lossless_chunk_exact rs w h filter r16 (p : plan) :
  1 <= w -> 1 <= h -> w * h <= 2^30 ->
  wf_plane (Z.to_nat w) rs -> Z.of_nat (length rs) = h -> 0 <= filter <= 3 ->
  (r16 = 0 \/ r16 = 16) ->
  wf_plan p -> p_alpha p = 0 -> p_w p = w -> p_h p = h ->
  green_of p = concat (apply_filter filter rs) ->
  alpha_decode ((1 + 4 * filter + r16) :: skipn 5 (emit p)) w h = Ok (concat rs).
Proof.
  intros Hw Hh Harea Hwf Hlen Hf Hr Hp Ha Hpw Hph Hg.
  unfold alpha_decode, AlphaModel.decode.
  destruct (Z.leb_spec w 0); [lia|]. destruct (Z.leb_spec h 0); [lia|]. cbn [orb].
  destruct (Z.ltb_spec (2^30) (w * h)); [lia|].
  replace ((1 + 4 * filter + r16) mod 4) with 1 by (destruct Hr; subst; lia).
  replace (((1 + 4 * filter + r16) / 4) mod 4) with filter by (destruct Hr; subst; lia).
  cbn [Z.eqb Pos.eqb].
  rewrite (ldec_spec_emit p w h Hp Ha Hpw Hph), Hg. cbn [bind].
  destruct (apply_filter_wf (Z.to_nat w) rs filter Hwf) as [Hfw Hfl].
  assert (Hrows : rows_of w h (concat (apply_filter filter rs)) = apply_filter filter rs).
  { unfold rows_of. replace (Z.to_nat h) with (length (apply_filter filter rs)) by lia.
    apply chunk_concat; [lia|exact Hfw]. }
  rewrite Hrows, (unfilter_filter (Z.to_nat w) rs filter Hwf). reflexivity.
Qed.
