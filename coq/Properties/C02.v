(** C02 — Every successful Encode emits a conformant, self-describing WebP file.
    Only statements, each closed by [exact <lemma>] and followed by
    [Print Assumptions].  (The RIFF-level writer theorems are in C15, the VP8L
    and VP8 stream theorems in C03/C04, the ALPH chunk theorems in C07; this file
    holds the fixed-width header fields of the two bitstreams and the size guards.) *)
From Coq Require Import List ZArith.
From Webp Require Import Base.Res Base.Bytes Conform.ConformVp8Hdr.
From Webp Require Riff.RiffGrammar.
From Webp Require Import Riff.WriterModel Riff.WriterTheorems Riff.ParserGrammar.
From WebpGen Require Consts.
Open Scope Z_scope.

(** What emitFrame/assembleFrame writes is what an RFC 6386 reader gets back:
    key-frame bit, profile, show bit, the 19-bit partition-0 length, 14-bit
    dimensions with zero scale bits, partition 0 and every token partition byte
    for byte — for all dimensions, all partition contents, 1..N partitions. *)
Theorem C02_vp8_frame_fields_roundtrip : forall w h part0 parts bs,
  1 <= w < 16384 -> 1 <= h < 16384 -> parts <> nil ->
  emit_frame w h part0 parts = Ok bs ->
  parse_frame (length parts) bs = Ok (mk_hdr true 0 true (len part0) w 0 h 0, part0, parts).
Proof. exact emit_parse_roundtrip. Qed.
Print Assumptions C02_vp8_frame_fields_roundtrip.

(** Encode never reports success for a frame whose size fields cannot hold the
    sizes: the guard refuses exactly those. *)
Theorem C02_emit_frame_guard_exact : forall w h part0 parts,
  (exists bs, emit_frame w h part0 parts = Ok bs) <->
  (len part0 < 2^19 /\ sized_parts_ok parts = true).
Proof. exact emit_frame_guard_exact. Qed.
Print Assumptions C02_emit_frame_guard_exact.

Theorem C02_emit_frame_total : forall w h part0 parts, emit_frame w h part0 parts <> Panic.
Proof. exact emit_frame_total. Qed.
Print Assumptions C02_emit_frame_total.

(** The behaviour before the fix: commit ca1de97: a 2^19-byte partition 0 was
    written with a tag that declares length 0 (theorem about [pinned_emit_frame],
    which no run-time path uses). *)
Theorem C02_pinned_emit_truncates_part0_refuted : forall w h part0 parts bs,
  len part0 = 2^19 -> pinned_emit_frame w h part0 parts = Ok bs -> firstn 3 bs = (16 :: 0 :: 0 :: nil).
Proof. exact pinned_emit_truncates_part0. Qed.
Print Assumptions C02_pinned_emit_truncates_part0_refuted.

(** VP8L header: signature, 14-bit width-1 / height-1, alpha bit, version 0. *)
Theorem C02_vp8l_header_roundtrip : forall w h alpha tl,
  1 <= w <= 16384 -> 1 <= h <= 16384 ->
  ConformVp8Hdr.parse_vp8l_header (ConformVp8Hdr.vp8l_header w h alpha ++ tl) = Ok (w, h, alpha, 0).
Proof. exact vp8l_header_roundtrip. Qed.
Print Assumptions C02_vp8l_header_roundtrip.

(** The container writer of Encode (encode.go writeRIFF / writeRIFFSimple /
    writeRIFFExtended) only emits files that the independent RIFF/WebP grammar
    (written from the container specification) accepts: RIFF size, chunk sizes,
    padding, chunk order ICCP -> ALPH -> image -> EXIF -> XMP, VP8X flags = exactly
    the chunks present (incl. the VP8L alpha bit), canvas = bitstream dimensions —
    for every bitstream whose header declares the picture size, every ALPH payload
    and every metadata blob within the writer's own size guard. *)
Theorem C02_writer_output_wf : forall fourcc bs alpha w h icc exif xmp a,
  writer_inputs_ok fourcc bs alpha w h icc exif xmp a ->
  bytes_ok bs -> bytes_ok alpha -> bytes_ok icc -> bytes_ok exif -> bytes_ok xmp ->
  exists file, write_riff fourcc bs alpha w h icc exif xmp = Ok file /\ RiffGrammar.wf file = true.
Proof. exact writer_output_wf. Qed.
Print Assumptions C02_writer_output_wf.

(** Tie to the source: the limits the guard uses are the constants of the code. *)
Theorem C02_limits_match_source :
  WebpGen.Consts.lossy_VP8MaxPartition0Size = 2^19 /\ WebpGen.Consts.lossy_VP8MaxPartitionSize = 2^24 /\
  WebpGen.Consts.lossless_VP8LMagicByte = 47 /\ WebpGen.Consts.lossless_VP8LImageSizeBits = 14.
Proof. repeat split; reflexivity. Qed.
Print Assumptions C02_limits_match_source.
