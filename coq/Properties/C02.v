(** C02 — Every successful Encode emits a conformant, self-describing WebP file.
    Only statements, each closed by [exact <lemma>] and followed by
    [Print Assumptions].  (The RIFF-level writer theorems are in C15, the VP8L
    and VP8 stream theorems in C03/C04, the ALPH chunk theorems in C07; this file
    holds the fixed-width header fields of the two bitstreams and the size guards.) *)
From Coq Require Import List ZArith.
From Webp Require Import Base.Res Base.Bytes Conform.ConformVp8Hdr.
From Webp Require Riff.RiffGrammar.
From Webp Require Import Riff.WriterModel Riff.WriterTheorems Riff.ParserGrammar.
From Webp Require Conform.ConformEndToEnd Conform.ConformEndToEndLossy.
From WebpGen Require Consts.
Open Scope Z_scope.

(** What emitFrame/assembleFrame writes is what an RFC 6386 reader gets back:
    key-frame bit, profile, show bit, the 19-bit partition-0 length, 14-bit
    dimensions with zero scale bits, partition 0 and every token partition byte
    for byte — for all dimensions, all partition contents, 1..N partitions. *)
Theorem C02_vp8_frame_fields_roundtrip : forall w h part0 parts bs,
  1 <= w < 16384 -> 1 <= h < 16384 -> parts <> nil ->
  emit_frame w h part0 parts = Ok bs ->
  parse_frame (length parts) bs = Ok (mk_hdr true 0 true (len part0) w 0 h 0, part0, parts).
Proof. exact emit_parse_roundtrip. Qed.
Print Assumptions C02_vp8_frame_fields_roundtrip.

(** Encode never reports success for a frame whose size fields cannot hold the
    sizes: the guard refuses exactly those. *)
Theorem C02_emit_frame_guard_exact : forall w h part0 parts,
  (exists bs, emit_frame w h part0 parts = Ok bs) <->
  (len part0 < 2^19 /\ sized_parts_ok parts = true).
Proof. exact emit_frame_guard_exact. Qed.
Print Assumptions C02_emit_frame_guard_exact.

Theorem C02_emit_frame_total : forall w h part0 parts, emit_frame w h part0 parts <> Panic.
Proof. exact emit_frame_total. Qed.
Print Assumptions C02_emit_frame_total.

(** The behaviour before the fix: commit ca1de97: a 2^19-byte partition 0 was
    written with a tag that declares length 0 (theorem about [pinned_emit_frame],
    which no run-time path uses). *)
Theorem C02_pinned_emit_truncates_part0_refuted : forall w h part0 parts bs,
  len part0 = 2^19 -> pinned_emit_frame w h part0 parts = Ok bs -> firstn 3 bs = (16 :: 0 :: 0 :: nil).
Proof. exact pinned_emit_truncates_part0. Qed.
Print Assumptions C02_pinned_emit_truncates_part0_refuted.

(** VP8L header: signature, 14-bit width-1 / height-1, alpha bit, version 0. *)
Theorem C02_vp8l_header_roundtrip : forall w h alpha tl,
  1 <= w <= 16384 -> 1 <= h <= 16384 ->
  ConformVp8Hdr.parse_vp8l_header (ConformVp8Hdr.vp8l_header w h alpha ++ tl) = Ok (w, h, alpha, 0).
Proof. exact vp8l_header_roundtrip. Qed.
Print Assumptions C02_vp8l_header_roundtrip.

(** The container writer of Encode (encode.go writeRIFF / writeRIFFSimple /
    writeRIFFExtended) only emits files that the independent RIFF/WebP grammar
    (written from the container specification) accepts: RIFF size, chunk sizes,
    padding, chunk order ICCP -> ALPH -> image -> EXIF -> XMP, VP8X flags = exactly
    the chunks present (incl. the VP8L alpha bit), canvas = bitstream dimensions —
    for every bitstream whose header declares the picture size, every ALPH payload
    and every metadata blob within the writer's own size guard. *)
Theorem C02_writer_output_wf : forall fourcc bs alpha w h icc exif xmp a,
  writer_inputs_ok fourcc bs alpha w h icc exif xmp a ->
  bytes_ok bs -> bytes_ok alpha -> bytes_ok icc -> bytes_ok exif -> bytes_ok xmp ->
  exists file, write_riff fourcc bs alpha w h icc exif xmp = Ok file /\ RiffGrammar.wf file = true.
Proof. exact writer_output_wf. Qed.
Print Assumptions C02_writer_output_wf.

(** Tie to the source: the limits the guard uses are the constants of the code. *)
Theorem C02_limits_match_source :
  WebpGen.Consts.lossy_VP8MaxPartition0Size = 2^19 /\ WebpGen.Consts.lossy_VP8MaxPartitionSize = 2^24 /\
  WebpGen.Consts.lossless_VP8LMagicByte = 47 /\ WebpGen.Consts.lossless_VP8LImageSizeBits = 14.
Proof. repeat split; reflexivity. Qed.
Print Assumptions C02_limits_match_source.

(** End to end, lossless: for every source picture, every option and every
    admissible set of choices of the lossless encoder (its heuristics are
    choices), and every ICC / EXIF / XMP within the writer's size guard, the
    written file is accepted by the independent container grammar, and the
    independent format models (chunk walk + VP8L specification decoder) read
    from it the source's dimensions, the alpha bit chosen, and exactly the
    pixels of the source (alpha-0 pixels cleaned unless Exact).  Statement:
    Conform.ConformEndToEnd.lossless_file_conformant_statement.  Hypotheses are
    satisfiable: C01's non-vacuity example gives valid choices. *)
Theorem C02_lossless_file_conformant : ConformEndToEnd.lossless_file_conformant_statement.
Proof. exact ConformEndToEnd.lossless_file_conformant. Qed.
Print Assumptions C02_lossless_file_conformant.

(** End to end, lossy: for every well-formed set of encoder choices (header,
    segments, filter parameters, modes, quantised levels), every ALPH payload the
    ALPH model decodes and every metadata blob within the size guard, the
    written file is accepted by the independent container grammar, and the
    independent format models (chunk walk, RFC 6386 header reader, VP8
    specification decoder, ALPH model) read from it the declared dimensions,
    alpha iff ALPH was given, the alpha plane, a first-partition length that
    lies within the data, and the picture the syntax denotes.  Statement:
    Conform.ConformEndToEndLossy.lossy_file_conformant_statement.  Hypotheses are
    satisfiable: C06_no_drift_nonvacuous gives a well-formed frame with bytes. *)
Theorem C02_lossy_file_conformant : ConformEndToEndLossy.lossy_file_conformant_statement.
Proof. exact ConformEndToEndLossy.lossy_file_conformant. Qed.
Print Assumptions C02_lossy_file_conformant.

(** The same with the ALPH chunk the encoder writes at AlphaQuality 100
    (lossless coding, any prediction filter, any well-formed plan of the lossless
    coder for the filtered plane): the analysed file reports exactly the alpha
    plane that was given. *)
Theorem C02_lossy_alpha_file_conformant : ConformEndToEndLossy.lossy_alpha_file_conformant_statement.
Proof. exact ConformEndToEndLossy.lossy_alpha_file_conformant. Qed.
Print Assumptions C02_lossy_alpha_file_conformant.
